(* C17, repaired variant: the ProjectQ reader parses the Measure instructions the writer emits.
   Compiled when the implementation no longer shows C17/projectq/MEASURE-dropped-by-reader; the kind is then
   covered by C17_projectq_roundtrip_partial (props/C17.v) through the regenerated guard pq_survives. *)
From Coq Require Import String ZArith List Bool.
From Tangelo Require Import Linq.GateModel Linq.CircuitModel Linq.Formats Linq.FormatsProofs Linq.LinqZ Linq.FormatsZ.
From Gen Require Import GateTables FormatTables.
Import ListNotations.
Open Scope string_scope.
Notation zeq := (zeqmod eq_modulus_units eq_modulus_long_units).
(* a well-formed source circuit: valid gates, width covering them, all kinds accepted by the writer,
   nothing variational *)
Definition src_ok (accepts : string -> bool) (c : fcirc Z) : Prop :=
  circ_ok Z gtables c /\ Forall (fun g : zgate => accepts (pname g) = true) (fgates c)
  /\ Forall (fun g : zgate => pvar g = false) (fgates c).
Ltac src_ok_tac := unfold src_ok, circ_ok; repeat split; try (vm_compute; discriminate); repeat (constructor; try (vm_compute; reflexivity)).

Theorem C17_projectq_MEASURE_survives : pq_survives gtables pq_tbl "MEASURE" = true.
Proof. vm_compute. reflexivity. Qed.
Print Assumptions C17_projectq_MEASURE_survives.

Theorem C17_projectq_MEASURE_witness_roundtrips :
  (do l <- pq_write Z pq_tbl (FCirc [G "H" [0%Z] None PNone false; G "MEASURE" [0%Z] None PNone false] 1%Z);
   pq_read Z gtables pq_tbl l)
  = Ok (FCirc [G "H" [0%Z] None PNone false; G "MEASURE" [0%Z] None PNone false] 1%Z).
Proof. vm_compute. reflexivity. Qed.
Print Assumptions C17_projectq_MEASURE_witness_roundtrips.
