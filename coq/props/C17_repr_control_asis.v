(* C17, as-is variant: an empty control list is printed as no control and comes back as None, which
   Gate.__eq__ distinguishes from [].  Compiled only while the implementation still shows
   C17/repr/empty-control-read-as-None. *)
From Coq Require Import String ZArith List Bool.
From Tangelo Require Import Linq.GateModel Linq.CircuitModel Linq.Formats Linq.FormatsProofs Linq.LinqZ Linq.FormatsZ.
From Gen Require Import GateTables FormatTables.
Import ListNotations.
Open Scope string_scope.
Notation zeq := (zeqmod eq_modulus_units eq_modulus_long_units).
(* a well-formed source circuit: valid gates, width covering them, all kinds accepted by the writer,
   nothing variational *)
Definition src_ok (accepts : string -> bool) (c : fcirc Z) : Prop :=
  circ_ok Z gtables c /\ Forall (fun g : zgate => accepts (pname g) = true) (fgates c)
  /\ Forall (fun g : zgate => pvar g = false) (fgates c).
Ltac src_ok_tac := unfold src_ok, circ_ok; repeat split; try (vm_compute; discriminate); repeat (constructor; try (vm_compute; reflexivity)).
Theorem C17_repr_refuted_empty_control :
  exists (g g' : zgate), gate_valid Z gtables g /\ repr_eval Z gtables (gate_repr Z repr_tbl g) = Ok g'
                         /\ gate_eq Z zeq gtables g g' = false.
Proof.
  exists (G "CX" [0%Z] (Some []) PNone false), (G "CX" [0%Z] None PNone false). vm_compute. repeat split.
Qed.
Print Assumptions C17_repr_refuted_empty_control.
