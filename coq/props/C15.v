(* C15 — Problem-decomposition energies satisfy their defining identities.
   Property theorems only: each is closed by [exact <lemma>] and followed by Print Assumptions.
   Models: coq/theories/Chem/Decomp.v; proofs: Chem/DecompProofs.v.
   Numbers: any commutative ring [R : CRing] (energies, coordinates, factors are abstract numbers; Z, Q
   and the reals are instances), so "for all energies / positions / factors" is literal.
   [E lv g] is whatever the solver of accuracy level lv returns for the molecule built from geometry g
   (an arbitrary function: no solver is modelled). *)
From Coq Require Import ZArith String Bool Arith Ring Permutation List.
From Tangelo Require Import Chem.Decomp.
From Tangelo Require Import Chem.DecompProofs.
Import ListNotations.
Open Scope list_scope.

(* ------------------------------------------------------------------ ONIOM *)
(* 1. Sign logic of Fragment.simulate + the sum of ONIOMProblemDecomposition.simulate: for ANY number of
      model fragments treated at identical high and low level (any selection, any links, any geometry),
      and the low-level system fragment at any position, the total is the low-level system energy. *)
Theorem C15_oniom_telescopes_sum :
  forall (R : CRing) (E : level -> geometry R -> R) (pre post : list (fragment R * geometry R)) sysf g L,
    f_low sysf = Some L -> f_high sysf = None ->
    Forall (fun fg => same_level R (fst fg)) (pre ++ post) ->
    oniom_simulate E (pre ++ (sysf, g) :: post) = E L g.
Proof. exact oniom_telescopes_simulate. Qed.
Print Assumptions C15_oniom_telescopes_sum.

(* 2. Whole pipeline (distribute_atoms + simulate), distribute_atoms repaired so that a whole-system
      fragment copies the geometry: the total equals E_low of the geometry THE USER SUPPLIED. *)
Theorem C15_oniom_telescopes :
  forall (R : CRing) (E : level -> geometry R -> R) (sys : geometry R) pre post L e,
    Forall (same_level R) (pre ++ post) ->
    oniom_repaired E sys (pre ++ sys_fragment R L :: post) = Ok e -> e = E L sys.
Proof. exact oniom_repaired_telescopes. Qed.
Print Assumptions C15_oniom_telescopes.

(* 2'. distribute_atoms as written: the same holds when no link is attached to a fragment with
       selected_atoms=None (guard); without the guard it is refuted, see 4. *)
Theorem C15_oniom_telescopes_asis_partial :
  forall (R : CRing) (E : level -> geometry R -> R) (sys : geometry R) pre post L e,
    Forall (same_level R) (pre ++ post) -> Forall (no_link_on_whole R) (pre ++ post) ->
    oniom_asis E sys (pre ++ sys_fragment R L :: post) = Ok e -> e = E L sys.
Proof. exact oniom_asis_telescopes_guarded. Qed.
Print Assumptions C15_oniom_telescopes_asis_partial.

Theorem C15_distribute_asis_eq_repaired_partial :
  forall (R : CRing) (sys : geometry R) frs,
    Forall (no_link_on_whole R) frs -> distribute_asis sys frs = distribute_repaired sys frs.
Proof. exact distribute_asis_eq_repaired_guarded. Qed.
Print Assumptions C15_distribute_asis_eq_repaired_partial.

(* 3. Model = whole system (selected_atoms None, or the count of all atoms): the high-level energy.
      With an index list that permutes the atoms the same holds for every E that does not depend on
      the atom order. *)
Theorem C15_oniom_model_is_system :
  forall (R : CRing) (E : level -> geometry R -> R) (sys : geometry R) L H s e,
    s = SelAll \/ s = SelCount (Z.of_nat (length sys)) ->
    oniom_repaired E sys [sys_fragment R L; mkFragment s (Some L) (Some H) []] = Ok e -> e = E H sys.
Proof. exact oniom_repaired_model_is_system. Qed.
Print Assumptions C15_oniom_model_is_system.

Theorem C15_oniom_model_is_system_index_list :
  forall (R : CRing) (E : level -> geometry R -> R) (sys : geometry R) L H idx gm e,
    (forall lv a b, Permutation a b -> E lv a = E lv b) ->
    mapM (py_nth sys) idx = Ok gm -> Permutation gm sys ->
    oniom_repaired E sys [sys_fragment R L; mkFragment (SelList idx) (Some L) (Some H) []] = Ok e -> e = E H sys.
Proof. exact oniom_repaired_model_is_system_perm. Qed.
Print Assumptions C15_oniom_model_is_system_index_list.

(* 4. distribute_atoms aliasing.  Repaired: self.geometry is never changed.  As written: refuted —
      a link on a selected_atoms=None fragment extends the system geometry (and the caller's list), and
      the telescoping identity fails (witness over Z, E = number of atoms). *)
Theorem C15_distribute_atoms_repaired_unchanged :
  forall (R : CRing) (sys : geometry R) frs d,
    distribute_repaired sys frs = Ok d -> fst d = sys /\ length (snd d) = length frs.
Proof. exact distribute_repaired_geometry_unchanged. Qed.
Print Assumptions C15_distribute_atoms_repaired_unchanged.

Definition ex_geom : geometry ZRing :=
  [("H"%string, (0, 0, 0)%Z); ("H"%string, (0, 0, 4)%Z); ("H"%string, (0, 0, 8)%Z)].
Definition ex_link : link ZRing := mkLink (R := ZRing) 0%Z 1%Z 2%Z "H"%string.
Definition ex_frs : list (fragment ZRing) :=
  [sys_fragment ZRing 0; mkFragment SelAll (Some 0) (Some 0) [ex_link]].
Definition ex_E : level -> geometry ZRing -> ZRing := fun _ g => Z.of_nat (length g).

Theorem C15_distribute_atoms_aliasing_refuted :
  (exists d, distribute_asis ex_geom ex_frs = Ok d /\ fst d <> ex_geom /\ length (fst d) = 4)
  /\ Forall (same_level ZRing) (tl ex_frs)
  /\ (exists e, oniom_asis ex_E ex_geom ex_frs = Ok e /\ e <> ex_E 0 ex_geom).
Proof.
  split; [|split].
  - eexists. split; [vm_compute; reflexivity|]. split; [intros H; discriminate H|reflexivity].
  - repeat constructor.
  - eexists. split; [vm_compute; reflexivity|]. intros H; discriminate H.
Qed.
Print Assumptions C15_distribute_atoms_aliasing_refuted.

(* ------------------------------------------------------------------ link placement *)
(* 5. For all geometries, indices (Python indexing), factors: cap - staying = factor * (leaving - staying);
      hence the cap is on the line through the two atoms and |cap - staying|^2 = factor^2 |bond|^2. *)
Theorem C15_link_on_bond :
  forall (R : CRing) (g : geometry R) (li : link R) (s l : atom R),
    py_nth g (l_staying li) = Ok s -> py_nth g (l_leaving li) = Ok l ->
    exists c, relink li g = Ok [(l_species li, c)]
              /\ vsub c (snd s) = vscale (l_factor li) (vsub (snd l) (snd s)).
Proof. exact link_on_bond. Qed.
Print Assumptions C15_link_on_bond.

Theorem C15_link_collinear_scaled :
  forall (R : CRing) (g : geometry R) (li : link R) (s l : atom R) c sp,
    py_nth g (l_staying li) = Ok s -> py_nth g (l_leaving li) = Ok l ->
    relink li g = Ok [(sp, c)] ->
    vcross (vsub c (snd s)) (vsub (snd l) (snd s)) = vzero R
    /\ vdot (vsub c (snd s)) (vsub c (snd s))
       = (l_factor li * l_factor li * vdot (vsub (snd l) (snd s)) (vsub (snd l) (snd s)))%Rg.
Proof. exact link_collinear_scaled. Qed.
Print Assumptions C15_link_collinear_scaled.

(* ------------------------------------------------------------------ method of increments *)
(* 6. For EVERY number of centres (any distinct labels cs), every energy table En indexed by sub-tuples,
      every correction table, every mean-field energy, every dictionary key type with a correct == and
      an injective rendering of tuples (Python: str(tuple)): mi_summation over the complete table
      (all body orders 1..n) returns En(cs).  Proved for all n (no bound): the increment of the full
      tuple cancels the sum of all lower increments. *)
Theorem C15_mi_full_order_is_total :
  forall (R : CRing) (Key : Type) (keyb : Key -> Key -> bool) (key_of : list nat -> Key),
    (forall a b, keyb a b = true <-> a = b) -> (forall s t, key_of s = key_of t -> s = t) ->
    forall (cs : list nat) (En Corr : list nat -> R), cs <> [] -> NoDup cs ->
    forall emf, mi_summation R Key keyb key_of (full_info R Key key_of cs En Corr) emf None = Ok (En cs).
Proof. exact mi_full_order_is_total. Qed.
Print Assumptions C15_mi_full_order_is_total.

(* 6'. The same for any dictionary order inside the levels and any table whose top level holds one
       fragment whose proper sub-tuples are (a permutation of) the keys of all lower levels. *)
Theorem C15_mi_top_is_total_any_order :
  forall (R : CRing) (Key : Type) (keyb : Key -> Key -> bool) (key_of : list nat -> Key),
    (forall a b, keyb a b = true <-> a = b) ->
    forall (fi : frag_info R Key) emf mF eF,
      NoDup (map (m_key R Key) (flat_map snd fi)) ->
      (forall m, In m (flat_map snd fi) -> m_energy R Key m <> None) ->
      1 <= n_max R Key fi ->
      closed R Key key_of fi [] (seq 1 (n_max R Key fi - 1)) ->
      NoDup (lvl_keys R Key fi (seq 1 (n_max R Key fi - 1)) ++ [m_key R Key mF]) ->
      level_get R Key fi (n_max R Key fi) = Some [mF] -> m_energy R Key mF = Some eF ->
      Permutation (sub_keys Key key_of (m_tuple R Key mF) (n_max R Key fi))
                  (lvl_keys R Key fi (seq 1 (n_max R Key fi - 1))) ->
      mi_summation R Key keyb key_of fi emf None = Ok eF.
Proof. exact mi_summation_top. Qed.
Print Assumptions C15_mi_top_is_total_any_order.

(* 6''. Instance with Python's own keys: Key = str, == on strings, key_of = str(tuple) (rendering proved
        injective: py_tuple_str_inj), no hypothesis left. *)
Theorem C15_mi_full_order_is_total_python_keys :
  forall (R : CRing) (cs : list nat) (En Corr : list nat -> R), cs <> [] -> NoDup cs ->
    forall emf, mi_summation R string String.eqb py_tuple_str (full_info R string py_tuple_str cs En Corr) emf None = Ok (En cs).
Proof. exact (fun R => mi_full_order_is_total R string String.eqb py_tuple_str String.eqb_eq py_tuple_str_inj). Qed.
Print Assumptions C15_mi_full_order_is_total_python_keys.

Theorem C15_py_tuple_str_injective : forall s t, py_tuple_str s = py_tuple_str t -> s = t.
Proof. exact py_tuple_str_inj. Qed.
Print Assumptions C15_py_tuple_str_injective.

(* 7. Epsilon defined before use: a table closed under sub-tuples (every key a level subtracts was
      produced by a lower level; levels visited in increasing body order), distinct keys, all energies
      present: no KeyError.  The complete table is such a table. *)
Theorem C15_mi_epsilon_defined_before_use :
  forall (R : CRing) (Key : Type) (keyb : Key -> Key -> bool) (key_of : list nat -> Key),
    (forall a b, keyb a b = true <-> a = b) ->
    forall (fi : frag_info R Key) emf,
      fi <> [] -> NoDup (map (m_key R Key) (flat_map snd fi)) ->
      (forall m, In m (flat_map snd fi) -> m_energy R Key m <> None) ->
      closed R Key key_of fi [] (seq 1 (n_max R Key fi)) ->
      NoDup (lvl_keys R Key fi (seq 1 (n_max R Key fi))) ->
      exists v, mi_summation R Key keyb key_of fi emf None = Ok v.
Proof. exact mi_summation_closed_ok. Qed.
Print Assumptions C15_mi_epsilon_defined_before_use.

Theorem C15_mi_full_table_closed :
  forall (R : CRing) (Key : Type) (key_of : list nat -> Key),
    (forall s t, key_of s = key_of t -> s = t) ->
    forall (cs : list nat) (En Corr : list nat -> R), NoDup cs ->
      closed R Key key_of (full_info R Key key_of cs En Corr) []
             (seq 1 (n_max R Key (full_info R Key key_of cs En Corr)))
      /\ NoDup (lvl_keys R Key (full_info R Key key_of cs En Corr)
                         (seq 1 (n_max R Key (full_info R Key key_of cs En Corr)))).
Proof. exact mi_full_closed_ok. Qed.
Print Assumptions C15_mi_full_table_closed.

(* ------------------------------------------------------------------ DMET bookkeeping *)
(* 8. Repaired constructor checks (indices >= 0, every atom listed): whenever the constructor accepts,
      the new atom order is a permutation of 0..natm-1 and the counts sum to natm. *)
Theorem C15_dmet_reorder_is_permutation :
  forall natm fa nf sv op b,
    dmet_book_repaired natm fa nf sv op = Ok b ->
    Permutation (b_order b) (seq 0 natm) /\ zsum (b_counts b) = Z.of_nat natm
    /\ match fa with
       | FaCounts l => b_order b = seq 0 natm /\ b_counts b = l
       | FaNested l => b_order b = map Z.to_nat (concat l) /\ b_counts b = map (fun f => Z.of_nat (length f)) l
       end.
Proof. exact dmet_repaired_permutation. Qed.
Print Assumptions C15_dmet_reorder_is_permutation.

(* 8'. As written: equal to the repaired constructor (hence a permutation) when the nested list has no
       negative index and lists natm atoms; refuted otherwise (atoms silently dropped; atom duplicated). *)
Theorem C15_dmet_reorder_asis_partial :
  forall natm fa nf sv op,
    match fa with
    | FaCounts _ => True
    | FaNested l => Forall (fun i => (0 <= i)%Z) (concat l) /\ length (concat l) = natm
    end ->
    dmet_book_asis natm fa nf sv op = dmet_book_repaired natm fa nf sv op.
Proof. exact dmet_asis_eq_repaired_guarded. Qed.
Print Assumptions C15_dmet_reorder_asis_partial.

Theorem C15_dmet_reorder_asis_refuted :
  (exists b, dmet_book_asis 6 (FaNested [[0; 1]; [2; 3]]%Z) 0 SolversStr OptionsEmpty = Ok b
             /\ b_order b = [0; 1; 2; 3] /\ ~ Permutation (b_order b) (seq 0 6))
  /\ (exists b, dmet_book_asis 4 (FaNested [[0; 1]; [-1; 3]]%Z) 0 SolversStr OptionsEmpty = Ok b
                /\ b_order b = [0; 1; 3; 3] /\ ~ Permutation (b_order b) (seq 0 4)).
Proof.
  split.
  - eexists. split; [vm_compute; reflexivity|]. split; [reflexivity|].
    intros H. apply Permutation_length in H. discriminate H.
  - eexists. split; [vm_compute; reflexivity|]. split; [reflexivity|].
    intros H. apply Permutation_sym in H. pose proof (Permutation_NoDup H (seq_NoDup 4 0)) as Hnd.
    simpl in Hnd. inversion Hnd as [|? ? _ H2]. inversion H2 as [|? ? _ H3]. inversion H3 as [|? ? Hin _].
    apply Hin. left; reflexivity.
Qed.
Print Assumptions C15_dmet_reorder_asis_refuted.

(* 9. The quantity returned by _oneshot_loop vanishes iff the fragment electron numbers sum to the total. *)
Theorem C15_dmet_cost_zero_iff_electron_sum :
  forall (R : CRing) (ns : list R) (N : R), oneshot_cost ns N = r0 <-> rsum ns = N.
Proof. exact oneshot_cost_zero_iff. Qed.
Print Assumptions C15_dmet_cost_zero_iff_electron_sum.

(* 10. _default_optimizer: results are either the accepted start value or the root search's; the ORIGINAL source
       (no evaluation at the start value) raises with a root search that cannot make a step although the criterion holds. *)
Theorem C15_dmet_optimizer_result :
  forall (K : Type) guard (small : K -> bool) newton cost mu0 r,
    default_optimizer_src guard small newton cost mu0 = Ok r ->
    (r = mu0 /\ small (cost mu0) = true) \/ newton cost mu0 = Ok r.
Proof. exact optimizer_result. Qed.
Print Assumptions C15_dmet_optimizer_result.

Theorem C15_dmet_optimizer_asis_refuted :
  exists (small : Z -> bool) newton cost mu0,
    small (cost mu0) = true /\ default_optimizer_src false small newton cost mu0 = Err (RuntimeError "Tolerance").
Proof. exact optimizer_asis_refuted. Qed.
Print Assumptions C15_dmet_optimizer_asis_refuted.

(* ------------------------------------------------------------------ non-vacuity / witnesses *)
(* a 3-centre table over Z with tuple keys: energies 100*sum + product-like values, e_mf = 7 *)
Definition exEn (t : list nat) : ZRing := Z.of_nat (fold_left Nat.add t 0 * 100 + length t * length t).
Example C15_example_mi_3_centres :
  mi_summation ZRing (list nat) list_keyb (fun t => t) (full_info ZRing (list nat) (fun t => t) [2; 5; 9] exEn (fun _ => 0%Z)) 7%Z None
  = Ok (exEn [2; 5; 9])
  /\ length (flat_map snd (full_info ZRing (list nat) (fun t => t) [2; 5; 9] exEn (fun _ => 0%Z))) = 7.
Proof. vm_compute. split; reflexivity. Qed.

(* the same with Python's string keys str(tuple) *)
Example C15_example_mi_string_keys :
  mi_summation ZRing string String.eqb py_tuple_str (full_info ZRing string py_tuple_str [0; 1; 2; 3] exEn (fun _ => 0%Z)) 7%Z None
  = Ok (exEn [0; 1; 2; 3])
  /\ py_tuple_str [0; 12] = "(0, 12)"%string /\ py_tuple_str [3] = "(3,)"%string.
Proof. vm_compute. repeat split; reflexivity. Qed.

(* a table lacking the sub-fragment (1,) of (0, 1): KeyError (the hypothesis [closed] is needed) *)
Example C15_example_mi_missing_subfragment :
  mi_summation ZRing (list nat) list_keyb (fun t => t)
    [(1, [mkMfrag ZRing (list nat) [0] [0] (Some 1%Z) 0%Z]); (2, [mkMfrag ZRing (list nat) [0; 1] [0; 1] (Some 5%Z) 0%Z])] 0%Z None
  = Err KeyError.
Proof. vm_compute. reflexivity. Qed.

(* truncation below full order does NOT give E(full) in general (so 6 is not vacuous) *)
Example C15_example_mi_truncated_differs :
  mi_summation ZRing (list nat) list_keyb (fun t => t)
    (firstn 2 (full_info ZRing (list nat) (fun t => t) [0; 1; 2] exEn (fun _ => 0%Z))) 7%Z None
  <> Ok (exEn [0; 1; 2]).
Proof. vm_compute. intros H; discriminate H. Qed.

(* ONIOM: two models at identical levels (one by count with a link, one by index list), system in the middle *)
Example C15_example_oniom :
  oniom_repaired ex_E ex_geom
    [mkFragment (SelCount 2) (Some 1) (Some 1) [mkLink (R := ZRing) 1%Z 2%Z 3%Z "H"%string];
     sys_fragment ZRing 0;
     mkFragment (SelList [2; 0]%Z) (Some 2) (Some 2) []] = Ok (ex_E 0 ex_geom)
  /\ relink ex_link ex_geom = Ok [("H"%string, (0, 0, 8)%Z)].
Proof. vm_compute. split; reflexivity. Qed.

(* DMET: an accepted nested list in arbitrary order *)
Example C15_example_dmet :
  exists b, dmet_book_asis 6 (FaNested [[5; 4]; [0; 1]; [3; 2]]%Z) 0 SolversStr OptionsEmpty = Ok b
            /\ b_order b = [5; 4; 0; 1; 3; 2] /\ b_counts b = [2; 2; 2]%Z.
Proof. eexists. vm_compute. repeat split; reflexivity. Qed.
