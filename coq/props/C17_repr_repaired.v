(* C17, repaired variant: Gate.__repr__ prints target / control whenever they are not None.
   Compiled when the implementation no longer shows C17/repr/empty-target-omitted and
   C17/repr/empty-control-read-as-None. *)
From Coq Require Import String ZArith List Bool.
From Tangelo Require Import Linq.GateModel Linq.CircuitModel Linq.Formats Linq.FormatsProofs Linq.LinqZ Linq.FormatsZ.
From Gen Require Import GateTables FormatTables.
Import ListNotations.
Open Scope string_scope.
Notation zeq := (zeqmod eq_modulus_units eq_modulus_long_units).
(* a well-formed source circuit: valid gates, width covering them, all kinds accepted by the writer,
   nothing variational *)
Definition src_ok (accepts : string -> bool) (c : fcirc Z) : Prop :=
  circ_ok Z gtables c /\ Forall (fun g : zgate => accepts (pname g) = true) (fgates c)
  /\ Forall (fun g : zgate => pvar g = false) (fgates c).
Ltac src_ok_tac := unfold src_ok, circ_ok; repeat split; try (vm_compute; discriminate); repeat (constructor; try (vm_compute; reflexivity)).

Theorem C17_repr_prints_when_not_none : rp_when_not_none repr_tbl = true.
Proof. vm_compute. reflexivity. Qed.
Print Assumptions C17_repr_prints_when_not_none.

(* for EVERY gate Gate.__init__ accepts, without exception *)
Theorem C17_repr_fields_roundtrip_all :
  forall (Ang : Type) (eqmod : bool -> Ang -> Ang -> bool), (forall l a, eqmod l a a = true) ->
  forall g : pgate Ang, gate_valid Ang gtables g ->
    repr_eval Ang gtables (gate_repr Ang repr_tbl g) = Ok g /\ gate_eq Ang eqmod gtables g g = true.
Proof.
  intros Ang eqmod H g Hv. apply (repr_fields_roundtrip Ang eqmod H gtables repr_tbl g Hv).
  rewrite C17_repr_prints_when_not_none. discriminate.
Qed.
Print Assumptions C17_repr_fields_roundtrip_all.

Theorem C17_repr_witnesses_roundtrip :
  repr_eval Z gtables (gate_repr Z repr_tbl (G "FOO" [] None PNone false)) = Ok (G "FOO" [] None PNone false)
  /\ repr_eval Z gtables (gate_repr Z repr_tbl (G "CX" [0%Z] (Some []) PNone false)) = Ok (G "CX" [0%Z] (Some []) PNone false).
Proof. vm_compute. split; reflexivity. Qed.
Print Assumptions C17_repr_witnesses_roundtrip.
