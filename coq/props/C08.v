(* C08 — Variational solver energies are faithful and variational.
   Property theorems only (closed by exact/apply of lemmas from coq/theories: Chem/Vqe, VqeProofs, VqeReal, VqeRunProofs; QSem; Linq/ExpPathsProofs),
   each followed by Print Assumptions.  "For all real angles / amplitudes" = instance CRealS (K = R*R).
   Facts regenerated from /repo on every run: Gen.VqeTables (translator/vqe_tables.py on vqe_solver.py).
   Conventions: register of n qubits, basis index x : N, bit q of x = qubit q; |0...0> = ket 0; circuits are
   lists of gates of the reference semantics (QSem/State.v); circ_in n c = every gate of c has its target
   qubits below n and controls disjoint from targets; a Circuit object = gates + reported width (pcirc).
   NOT formalised: the spectral theorem (every state has an eigen-expansion) — it is a hypothesis of
   C08_rayleigh_from_eigenbasis; the optimiser; the integrals (C04); the encodings (C03); sampling. *)
From Coq Require Import String ZArith NArith QArith Qcanon List Bool Reals.
From Tangelo Require Import Num.KStruct.
From Tangelo Require Import Num.CReal.
From Tangelo Require Import Num.Cyc.
From Tangelo Require Import QSem.State.
From Tangelo Require Import QSem.CircuitLemmas.
From Tangelo Require Import QSem.Measure.
From Tangelo Require Import QSem.Unitary.
From Tangelo Require Import QSem.Expect.
From Tangelo Require Import QSem.ExpectProofs.
From Tangelo Require Import Pauli.Word.
From Tangelo Require Import Pauli.Action.
From Tangelo Require Import Pauli.ActionProofs.
From Tangelo Require Import Linq.GateModel.
From Tangelo Require Import Linq.ExpPaths.
From Tangelo Require Import Linq.ExpPathsProofs.
From Tangelo Require Import Chem.Vqe.
From Tangelo Require Import Chem.VqeProofs.
From Tangelo Require Import Chem.VqeReal.
From Tangelo Require Import Chem.VqeRun.
From Tangelo Require Import Chem.VqeRunProofs.
From Gen Require Import VqeTables.
Import ListNotations.
Open Scope string_scope.
Open Scope list_scope.

Notation rstate := (state RS).
Definition rborn : rstate -> N -> K RS := born RS.

(* 1. The inverse circuit denotes the adjoint: <U a, b> = <a, U^-1 b> for every circuit inside the register
      (all gate kinds, all real angles, any number of controls), every pair of states. *)
Theorem C08_inverse_is_adjoint :
  forall (n : nat) (U : circuit RS) (a b : rstate), circ_in RS n U ->
    inner RS n (den RS U a) b = inner RS n a (den RS (circuit_inv RS U) b).
Proof. intros n U a b H. exact (den_adjoint RS n U H a b). Qed.
Print Assumptions C08_inverse_is_adjoint.

(* 2. Deflation: the amplitude of |0...0> after  V ; U^-1  is <U0|V0>, hence the exact frequency of the all-zero
      string is |<U0|V0>|^2 — for EVERY circuit V (any width), every U inside the register. *)
Theorem C08_deflation_term_is_overlap :
  forall (n : nat) (U V : circuit RS), circ_in RS n U ->
    den RS (V ++ circuit_inv RS U) (ket RS 0) 0%N = overlap RS n U V
    /\ zero_freq RS (V ++ circuit_inv RS U) = kmul (kconj (overlap RS n U V)) (overlap RS n U V).
Proof.
  intros n U V H. split; [exact (deflation_amplitude RS n U V H)|exact (zero_freq_is_overlap RS n U V H)].
Qed.
Print Assumptions C08_deflation_term_is_overlap.

(* 3. The plain energy: the state prepared by reference (only under a ref_state override) + ansatz + projective
      circuit from |0...0> is normalised, and both evaluation routes of the backend (C02: parity of sampled-exact
      frequencies after basis change; statevector route) return <psi|H|psi> = sum_k c_k <psi|P_k|psi>. *)
Theorem C08_energy_is_expectation :
  forall (n : nat) (v : solver RS),
    circ_in RS n (pc_gates (composed RS v)) -> op_wf RS (v_ham v) -> op_in RS n (v_ham v) ->
    norm2 RS n (prepared RS v) = @k1 RS
    /\ freq_route RS rborn n (v_ham v) (prepared RS v) = expect_op RS n (v_ham v) (prepared RS v)
    /\ sv_route RS n (v_ham v) (prepared RS v) = expect_op RS n (v_ham v) (prepared RS v)
    /\ expect_op RS n (v_ham v) (prepared RS v) = expect_lin RS n (v_ham v) (prepared RS v).
Proof.
  intros n v Hc Hwf Hin. pose proof (prepared_norm RS n v Hc) as Hn.
  destruct (routes_agree RS rborn (fun _ _ => eq_refl) n (v_ham v) (prepared RS v) Hn Hwf Hin) as [E1 E2].
  repeat split; [exact Hn|exact E1|exact E2|apply expect_op_lin].
Qed.
Print Assumptions C08_energy_is_expectation.

(* 4. The reported energy with deflation circuits = <psi|H|psi> + sum_d coeff * |<psi|psi_d>|^2 — for the lookup the
      source performs now (regenerated: defl_key_is_ansatz_width = false, the key has the width of the simulated
      circuit), with NO proviso on the widths of the circuits involved; statevector route and frequency route.
      If the source goes back to the ansatz circuit's width this proof no longer checks. *)
Theorem C08_energy_with_deflation :
  forall (n : nat) (v : solver RS),
    circ_in RS n (pc_gates (composed RS v)) -> op_wf RS (v_ham v) -> op_in RS n (v_ham v) ->
    energy RS (sv_route RS) defl_key_is_ansatz_width n v = kadd (expect_op RS n (v_ham v) (prepared RS v)) (defl_spec RS n v)
    /\ energy RS (freq_route RS rborn) defl_key_is_ansatz_width n v
       = kadd (expect_op RS n (v_ham v) (prepared RS v)) (defl_spec RS n v).
Proof.
  intros n v Hc Hwf Hin.
  destruct (C08_energy_is_expectation n v Hc Hwf Hin) as [_ [E1 [E2 _]]].
  split; apply energy_spec; try assumption; left; reflexivity.
Qed.
Print Assumptions C08_energy_with_deflation.

(* 4a. Both lookups: with the key built from the ansatz circuit's width (keyw = true, the code before the repair)
       the same value is obtained exactly when every key has the width of the simulated circuit. *)
Theorem C08_energy_with_deflation_any_lookup :
  forall (keyw : bool) (n : nat) (v : solver RS),
    circ_in RS n (pc_gates (composed RS v)) -> op_wf RS (v_ham v) -> op_in RS n (v_ham v) ->
    (keyw = false \/ widths_agree RS v) ->
    energy RS (sv_route RS) keyw n v = kadd (expect_op RS n (v_ham v) (prepared RS v)) (defl_spec RS n v)
    /\ energy RS (freq_route RS rborn) keyw n v = kadd (expect_op RS n (v_ham v) (prepared RS v)) (defl_spec RS n v).
Proof.
  intros keyw n v Hc Hwf Hin Hw.
  destruct (C08_energy_is_expectation n v Hc Hwf Hin) as [_ [E1 [E2 _]]].
  split; apply energy_spec; assumption.
Qed.
Print Assumptions C08_energy_with_deflation_any_lookup.

(* 4b. The lookup as it was written before the repair (as-is definition, keyw = true): when the ansatz circuit's
       width differs from the width of the simulated circuit the term is 0 ... *)
Example C08_deflation_width_mismatch_asis :
  forall (v : solver RS) (d : pcirc RS),
    pc_width (v_ansatz v) <> pc_width (padd RS d (pinv RS (composed RS v))) ->
    defl_term RS true v d = @k0 RS.
Proof. exact (defl_term_width_mismatch RS). Qed.
Print Assumptions C08_deflation_width_mismatch_asis.

(* 4c. ... which refutes the property for that definition (exact instance, by evaluation): H = Z0, ansatz RY(pi/2)
       on qubit 0 (width 1), deflation circuit = the same gate declared on 2 qubits, coefficient 2.  Overlap
       probability 1, but the as-is energy is the plain energy; the present lookup meets the specification. *)
Example C08_deflation_width_mismatch_asis_refuted :
  exists (v : solver CycS) (d : pcirc CycS),
    v_defl v = [d] /\ circ_in CycS 2 (pc_gates (composed CycS v))
    /\ overlap_prob CycS 2 (pc_gates (composed CycS v)) (pc_gates d) = @k1 CycS
    /\ energy CycS (sv_route CycS) true 2 v = expect_op CycS 2 (v_ham v) (prepared CycS v)
    /\ energy CycS (sv_route CycS) true 2 v <> kadd (expect_op CycS 2 (v_ham v) (prepared CycS v)) (defl_spec CycS 2 v)
    /\ energy CycS (sv_route CycS) false 2 v = kadd (expect_op CycS 2 (v_ham v) (prepared CycS v)) (defl_spec CycS 2 v).
Proof.
  exists wit_width_v, wit_width_d.
  destruct wit_width_facts as [H1 [H2 [_ [H4 [H5 [H6 H7]]]]]].
  exact (conj H1 (conj H2 (conj H4 (conj H5 (conj H6 H7))))).
Qed.
Print Assumptions C08_deflation_width_mismatch_asis_refuted.

(* 5. Variational bound from an eigen-expansion (real numbers): if psi = sum_k c_k e_k with e_k orthonormal
      eigenvectors of H for real eigenvalues lambda_k >= lmin, then <psi|H|psi> = sum |c_k|^2 lambda_k,
      <psi|psi> = sum |c_k|^2 and Re <psi|H|psi> >= lmin <psi|psi>.  Existence of the expansion: not formalised. *)
Theorem C08_rayleigh_from_eigenbasis :
  forall (n : nat) (H : op RS) (lmin : R) (es : list (eig RS)),
    eigenpairs RS (op_den RS H) es -> orthonormal RS n (map (e_v RS) es) -> real_above lmin es ->
    expect_op RS n H (expansion RS es) = weighted_sum RS es
    /\ norm2 RS n (expansion RS es) = weight_total RS es
    /\ (lmin * fst (norm2 RS n (expansion RS es)) <= fst (expect_op RS n H (expansion RS es)))%R.
Proof. exact rayleigh_bound. Qed.
Print Assumptions C08_rayleigh_from_eigenbasis.

(* the algebraic half holds over every number structure and for every linear map *)
Theorem C08_rayleigh_expansion_generic :
  forall (S : KS) (n : nat) (Hm : state S -> state S) (es : list (eig S)),
    plinear S Hm -> eigenpairs S Hm es -> orthonormal S n (map (e_v S) es) ->
    inner S n (expansion S es) (Hm (expansion S es)) = weighted_sum S es.
Proof. exact rayleigh_expansion. Qed.
Print Assumptions C08_rayleigh_expansion_generic.

(* hypotheses satisfiable: H = Z0, psi = c0|0> + c1|1> for arbitrary complex c0, c1, lmin = -1 *)
Example C08_rayleigh_nonvacuous :
  forall c0 c1 : K RS,
    eigenpairs RS (op_den RS (opZ0 RS)) (z_eigs RS c0 c1)
    /\ orthonormal RS 1 (map (e_v RS) (z_eigs RS c0 c1)) /\ real_above (-1) (z_eigs RS c0 c1).
Proof. exact rayleigh_bound_nonvacuous. Qed.
Print Assumptions C08_rayleigh_nonvacuous.

(* 6. operator_expectation as a state machine over the attribute qubit_hamiltonian (F fermionic operators,
      X qubit operators, V numbers; backend / encodings / ansatz update are abstract), for the source as it is now
      (regenerated: restore_in_finally = true): on EVERY path — returning or raising, whatever raises — the
      attribute holds afterwards what it held before; and whenever the call returns, the value is the backend's
      value for the requested operator.  If the finally clause disappears this proof no longer checks. *)
Theorem C08_operator_swap_restored :
  forall (F X V : Type) (env : openv F X V) (ham : X) (req : opreq F X) (args : opargs),
    snd (opexp F X V restore_in_finally env ham req args) = ham
    /\ forall v : V, fst (opexp F X V restore_in_finally env ham req args) = Ok v ->
         exists h', resolve F X V env ham req args = Ok h' /\ e_update env = true /\ e_expect env h' = Ok v.
Proof.
  intros F X V env ham req args. split;
    [exact (opexp_finally_restores F X V env ham req args)
    |intros v H; exact (opexp_value F X V restore_in_finally env ham req args v H)].
Qed.
Print Assumptions C08_operator_swap_restored.

(* with or without a finally clause: a RETURNING call restores the attribute *)
Theorem C08_operator_swap_restored_on_return :
  forall (F X V : Type) (fin : bool) (env : openv F X V) (ham : X) (req : opreq F X) (args : opargs) (v : V),
    fst (opexp F X V fin env ham req args) = Ok v -> snd (opexp F X V fin env ham req args) = ham.
Proof. exact opexp_returns_restored. Qed.
Print Assumptions C08_operator_swap_restored_on_return.

(* exceptions raised while the request is resolved (unknown name, wrong type, missing arguments, the mapping)
   happen before the attribute is assigned; with a finally clause it is restored on every path; without one an
   exception of update_var_params or of the backend leaves the replacement in place *)
Theorem C08_operator_swap_exception_paths :
  forall (F X V : Type) (env : openv F X V) (ham : X) (req : opreq F X) (args : opargs),
    (forall fin e, resolve F X V env ham req args = Err e -> opexp F X V fin env ham req args = (Err e, ham))
    /\ snd (opexp F X V true env ham req args) = ham
    /\ (forall h', resolve F X V env ham req args = Ok h' ->
          (e_update env = false \/ exists e, e_expect env h' = Err e) ->
          (exists e, fst (opexp F X V false env ham req args) = Err e) /\ snd (opexp F X V false env ham req args) = h').
Proof.
  intros F X V env ham req args. repeat split.
  - intros fin e H. exact (opexp_raise_before_swap F X V fin env ham req args e H).
  - exact (opexp_finally_restores F X V env ham req args).
  - destruct (opexp_nofinally_left_replaced F X V env ham req args h' H H0) as [A _]. exact A.
  - destruct (opexp_nofinally_left_replaced F X V env ham req args h' H H0) as [_ B]. exact B.
Qed.
Print Assumptions C08_operator_swap_exception_paths.

(* the as-is definition before the repair (fin = false) is refuted: a QubitOperator request with a parameter
   vector that update_var_params rejects leaves the replacement in the attribute *)
Example C08_operator_swap_asis_not_restored_on_exception :
  exists (env : openv unit bool unit) (ham : bool) (req : opreq unit bool) (args : opargs),
    (exists e, fst (opexp unit bool unit false env ham req args) = Err e)
    /\ snd (opexp unit bool unit false env ham req args) <> ham.
Proof. exact opexp_nofinally_refuted. Qed.
Print Assumptions C08_operator_swap_asis_not_restored_on_exception.

(* 7. Which state operator_expectation evaluates.  For the source as it is now (regenerated fact
      opexp_uses_reference = true: the circuit is (self.reference_circuit if ref_state is None else ref_state) + ansatz
      (+ projective), default ref_state=None) the default call prepares exactly the state of energy_estimation, for
      every solver — with or without a ref_state override, with or without a projective circuit.  If the source
      goes back to an empty default reference this proof no longer checks. *)
Theorem C08_operator_expectation_state :
  forall (v : solver RS) (x : N), opexp_prepared RS opexp_uses_reference v None x = prepared RS v x.
Proof. intros v x. destruct (opexp_same_state RS v) as [H _]. exact (H x). Qed.
Print Assumptions C08_operator_expectation_state.

(* both variants: without the solver's reference circuit in the default (the code before the repair) the states agree
   when no override was given, or when the reference circuit is passed explicitly *)
Theorem C08_operator_expectation_state_any_default :
  forall (v : solver RS),
    (forall x, opexp_prepared RS true v None x = prepared RS v x)
    /\ (v_ref_used v = false -> forall x, opexp_prepared RS false v None x = prepared RS v x)
    /\ (forall useref, v_ref_used v = true -> forall x, opexp_prepared RS useref v (Some (v_ref v)) x = prepared RS v x).
Proof.
  intro v. destruct (opexp_same_state RS v) as [A [B C]]. repeat split; try assumption.
  intros useref H x. rewrite <- (C H x). reflexivity.
Qed.
Print Assumptions C08_operator_expectation_state_any_default.

(* the as-is definition before the repair (useref = false) is refuted under a ref_state override with the default
   argument: reference X on qubit 0, H = Z0: energy_estimation evaluates <Z> = -1, operator_expectation(H) +1; with
   the present default both evaluate -1 *)
Example C08_operator_expectation_asis_ignores_reference :
  exists (v : solver CycS),
    v_ref_used v = true
    /\ expect_op CycS 1 (v_ham v) (prepared CycS v) = kopp (@k1 CycS)
    /\ expect_op CycS 1 (v_ham v) (opexp_prepared CycS false v None) = @k1 CycS
    /\ expect_op CycS 1 (v_ham v) (opexp_prepared CycS true v None) = kopp (@k1 CycS).
Proof.
  exists wit_ref_v. destruct wit_ref_facts as [H1 [H2 [H3 H4]]]. exact (conj H1 (conj H2 (conj H3 H4))).
Qed.
Print Assumptions C08_operator_expectation_asis_ignores_reference.

(* 8. Symmetry operators, over the regenerated table of the `operator == "<name>"` chain and the regenerated
      keyword arguments of the mapping call: N, Sz, S^2 are all present, each built by its own builder with the
      literal up_then_down=False, and the mapping call receives the solver's own mapping and up_then_down — so the
      operator handed to the backend is enc(mapping)(base reordered iff the solver's flag is set): reordered once,
      never twice, for every encoding `enc`, every reordering function, every base operator. *)
Theorem C08_symmetry_operator_arguments :
  sym_table_ok sym_table = true /\ map_args_ok opexp_map_args = true
  /\ forall (F X : Type) (reorder : F -> F) (enc : string -> F -> X) (e : sym_entry) (mapping : string) (utd : bool) (base : F),
      In e sym_table ->
      In (fst e, fst (snd e)) expected_builders
      /\ mapped_op F X reorder enc mapping utd (built F reorder (entry_flag e) base)
         = enc mapping (if utd then reorder base else base)
      /\ n_reorder (entry_flag e) utd = Nat.b2n utd.
Proof.
  assert (Ht : sym_table_ok sym_table = true) by (vm_compute; reflexivity).
  assert (Hk : map_args_ok opexp_map_args = true) by (vm_compute; reflexivity).
  split; [exact Ht|]. split; [exact Hk|].
  intros F X reorder enc e mapping utd base He.
  destruct (symmetry_operator_once F X reorder enc sym_table opexp_map_args e mapping utd base Ht Hk He) as [A [B _]].
  split; [exact (sym_table_builders sym_table Ht e He)|]. split; assumption.
Qed.
Print Assumptions C08_symmetry_operator_arguments.

(* what a builder flag set to True would do (the shape the theorem above excludes): reordered twice *)
Example C08_double_reordering_shape :
  forall (F X : Type) (reorder : F -> F) (enc : string -> F -> X) (mapping : string) (base : F),
    mapped_op F X reorder enc mapping true (built F reorder true base) = enc mapping (reorder (reorder base))
    /\ n_reorder true true = 2%nat.
Proof. exact double_reordering_if_builder_flag. Qed.
Print Assumptions C08_double_reordering_shape.

(* 9. build(): the Hamiltonian and the penalty are mapped with the solver's mapping / up_then_down and the
      molecule's ACTIVE-space electron, spin-orbital and spin data; energy_estimation composes
      ansatz | reference + ansatz (+ projective) and the deflation loop simulates circ + circuit.inverse();
      operator_expectation takes the molecule's active-space data as defaults for EVERY mapping (not only inside
      the scbk test) and compares the mapping name case-insensitively. *)
Theorem C08_build_and_composition_facts :
  build_args_ok build_map_args = true /\ build_args_ok build_pen_args = true
  /\ energy_compose_ok = true /\ defl_sim_order_ok = true
  /\ defaults_guarded_by_scbk = false /\ scbk_case_sensitive = false.
Proof. vm_compute. repeat split. Qed.
Print Assumptions C08_build_and_composition_facts.
