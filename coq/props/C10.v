(* C10 — Mid-circuit measurement and classical control follow the Born rule.
   Property theorems only (closed by exact/apply of lemmas from coq/theories), each followed by
   Print Assumptions.  Models: QSem/Measure.v (projectors, branch vectors, probabilities as finite sums
   over the register), Linq/MidCircuit.v (get_unitary_circuit_pieces, the MEASURE/CMEASURE replay loop
   of generate_applied_gates and its copy in target_cirq.py, the piecewise loop, the index logic and the
   numerics of collapse_statevector_to_desired_measurement).  Statements are generic over the number
   structure KS (hence hold for complex amplitudes, instance CRealS, and for what the exact instance
   CycS computes); functional extensionality is used for equalities of states. *)
From Coq Require Import String ZArith NArith List Bool.
From Tangelo Require Import Num.KStruct Num.Cyc Num.CReal QSem.State QSem.StateLemmas QSem.Measure QSem.MeasureProofs QSem.Unitary
     Linq.MidCircuit Linq.MidCircuitProofs Linq.MidCircuitReal.
Import ListNotations.

(* 1. collapse_statevector_to_desired_measurement, index logic (reshape to (before, 2, after), zero the
      slice (result+1)%2): for every register size, qubit, requested value and BOTH orders, the entries
      kept are exactly the flat indices whose qubit has the requested value ... *)
Theorem C10_collapse_indexing :
  forall (o : order) (n q r i : N), (r = 0 \/ r = 1)%N ->
    collapse_keep o n q r i = Bool.eqb (qubit_of o n q i) (N.eqb r 1).
Proof. exact collapse_indexing. Qed.
Print Assumptions C10_collapse_indexing.

(*    ... the reshape is legitimate for every qubit of the register ... *)
Theorem C10_collapse_reshape_valid :
  forall o n q, (q < n)%N -> (before_len o n q * 2 * after_len o n q = 2 ^ n)%N.
Proof. exact collapse_reshape_valid. Qed.
Print Assumptions C10_collapse_reshape_valid.

(*    ... and on a vector stored in cirq's big-endian order (entry i = amplitude of the basis state whose
      little-endian index is the n-bit reversal of i) this is QSem's projector onto "qubit q = value". *)
Theorem C10_collapse_lsq_is_projector :
  forall (S : KS) (n : nat) q r (psi : state S) i, (q < N.of_nat n)%N -> (r = 0 \/ r = 1)%N ->
    (if collapse_keep LsqFirst (N.of_nat n) q r i then psi (brev n i) else k0) = proj S q (N.eqb r 1) psi (brev n i).
Proof. exact collapse_lsq_is_proj. Qed.
Print Assumptions C10_collapse_lsq_is_projector.

(* 2. Projectors partition the state. *)
Theorem C10_projectors_partition :
  forall (S : KS) q (psi : state S),
    (forall x, kadd (proj S q false psi x) (proj S q true psi x) = psi x)
    /\ (forall b, proj S q b (proj S q b psi) = proj S q b psi)
    /\ (forall b, proj S q b (proj S q (negb b) psi) = szero S).
Proof.
  intros S q psi. split; [exact (proj_partition S q psi)|]. split; intro b; [apply proj_idem|apply proj_orth].
Qed.
Print Assumptions C10_projectors_partition.

(* 3. One measurement: p(0) + p(1) = ||psi||^2, as an identity between sums over the 2^n basis states. *)
Theorem C10_branch_probs_sum :
  forall (S : KS) n q (psi : state S), kadd (prob S n q false psi) (prob S n q true psi) = norm2 S n psi.
Proof. exact branch_probs_sum. Qed.
Print Assumptions C10_branch_probs_sum.

(* 4. k measurements: the probabilities ||P_{b_k} U_k ... P_{b_1} U_1 psi0||^2 of all 2^k outcome strings
      add up to ||psi0||^2.  HYPOTHESIS steps_unit: every piece U_j preserves the squared norm over the
      register (unitarity of the pieces is assumed, not derived from the gate denotations). *)
Theorem C10_branch_probs_sum_to_one :
  forall (S : KS) n (steps : list (mstep S)), steps_unit S n steps ->
    forall psi0, lsum S (fun bs => norm2 S n (branch S steps bs psi0)) (strings (length steps)) = norm2 S n psi0.
Proof. exact branch_probs_sum_to_one. Qed.
Print Assumptions C10_branch_probs_sum_to_one.

(* 5. Adaptive programs (classical control: pieces, measured qubits and the NUMBER of measurements depend
      on earlier outcomes): the sum over all leaves of the measurement tree is ||psi0||^2 (same
      hypothesis on every piece of the tree), it is the sum over the complete outcome strings of the
      squared norms of their branch vectors, and the diagonal of the final mixed state — the
      probability-weighted sum of the branch distributions — sums to it over the register. *)
Theorem C10_tree_probs_sum_to_one :
  forall (S : KS) n (t : mtree S), tree_unit S n t ->
    forall psi0,
      lsum S (fun bs => match tree_branch S t bs psi0 with Some v => norm2 S n v | None => k0 end) (leaves S t)
      = norm2 S n psi0.
Proof. intros S n t Hu psi0. rewrite <- tree_sum_is_leaf_sum. apply tree_probs_sum_to_one. exact Hu. Qed.
Print Assumptions C10_tree_probs_sum_to_one.

Theorem C10_total_probability :
  forall (S : KS) n (t : mtree S) psi0,
    (forall x, tree_diag S t psi0 x
               = lsum S (fun bs => match tree_branch S t bs psi0 with Some v => born S v x | None => k0 end) (leaves S t))
    /\ ksum S (fun i => tree_diag S t psi0 (N.of_nat i)) (Nat.pow 2 n) = tree_sum S n t psi0.
Proof. intros S n t psi0. split; [intro x; apply tree_diag_is_leaf_sum|apply tree_diag_total]. Qed.
Print Assumptions C10_total_probability.

(* 6. A measurement whose outcome is not recorded is dephasing of the density matrix. *)
Theorem C10_measure_is_dephasing :
  forall (S : KS) q (e : ensemble S) x y,
    ens_rho S (ens_measure S q e) x y = if Bool.eqb (bit x q) (bit y q) then ens_rho S e x y else k0.
Proof. exact ens_measure_rho. Qed.
Print Assumptions C10_measure_is_dephasing.

(* 7. The piecewise simulation loop (target_cirq.py, MEASURE gates only, desired outcome string d):
      the returned state times a real number c is the unnormalised branch vector, the recorded
      probability is c^2, and it IS the squared norm of that vector.  Hypotheses = what is assumed of
      numpy: gates act linearly (Hlin; proved for QSem's gates, theorem 9), the norm is a real square
      root of the squared norm (Hreal, Hsq), division by a norm that passed the 1e-14 guard is exact
      (Hinv, Hinv_real).  No unitarity hypothesis. *)
Theorem C10_branch_prob_chain_piecewise :
  forall (S : KS) (G : Type) (gden : G -> state S -> state S) (n : nat)
         (rnorm : state S -> K S) (tiny : K S -> bool) (rinv : K S -> K S),
    (forall g, linear S (gden g)) ->
    (forall w, kconj (rnorm w) = rnorm w) ->
    (forall r, tiny r = false -> kmul r (rinv r) = k1) ->
    (forall w, kmul (rnorm w) (rnorm w) = norm2 S n w) ->
    (forall r, kconj r = r -> kconj (rinv r) = rinv r) ->
    forall ucs qs d sv svf Pf,
      piecewise_loop G (K S) (state S) (gapply S G gden) (collapse_norm S rnorm tiny rinv) kmul ucs qs d sv k1 = MOk (svf, Pf) ->
      exists c, kconj c = c /\ Pf = kmul k1 (kmul c c)
                /\ sscale S c svf = branch S (steps_of S G gden ucs qs) d sv
                /\ (ucs <> [] -> kmul c c = norm2 S n (branch S (steps_of S G gden ucs qs) d sv)).
Proof.
  intros S G gden n rnorm tiny rinv Hlin Hreal Hinv Hsq Hir ucs qs d sv svf Pf H.
  exact (piecewise_loop_chain S G gden n rnorm tiny rinv Hlin Hreal Hinv Hsq Hir ucs qs d sv k1 svf Pf H).
Qed.
Print Assumptions C10_branch_prob_chain_piecewise.

(* 8. The CMEASURE loop of target_cirq.py (either variant of the queue update): returned state times a
      real c = the vector obtained by running the applied gates with projectors at the measurements;
      recorded probability = c^2; hence P * ||returned||^2 = ||that vector||^2 ... *)
Theorem C10_branch_prob_chain :
  forall (S : KS) (G : Type) ctl (gden : G -> state S -> state S)
         (rnorm : state S -> K S) (tiny : K S -> bool) (rinv : K S -> K S),
    (forall g, linear S (gden g)) ->
    (forall w, kconj (rnorm w) = rnorm w) ->
    (forall r, tiny r = false -> kmul r (rinv r) = k1) ->
    forall asis fuel src hist s sv items ms svf Pf,
      sim_replay G ctl (K S) (state S) (gapply S G gden) (collapse_norm S rnorm tiny rinv) kmul
                 asis fuel src hist s sv k1 = MOk (items, ms, svf, Pf) ->
      exists c, kconj c = c /\ Pf = kmul k1 (kmul c c) /\ sscale S c svf = run_items S G gden items sv.
Proof.
  intros S G ctl gden rnorm tiny rinv Hlin Hreal Hinv asis fuel src hist s sv items ms svf Pf H.
  exact (sim_replay_chain S G ctl gden rnorm tiny rinv Hlin Hreal Hinv asis fuel src hist s sv k1 items ms svf Pf H).
Qed.
Print Assumptions C10_branch_prob_chain.

(*    ... and, ASSUMING every gate preserves the squared norm (Hunit) and the numerics as in 7, the
      returned state is normalised and the recorded probability is exactly the squared norm of the
      unnormalised branch vector (the Born probability of the outcome string). *)
Theorem C10_recorded_probability_is_born :
  forall (S : KS) (G : Type) ctl (gden : G -> state S -> state S) (n : nat)
         (rnorm : state S -> K S) (tiny : K S -> bool) (rinv : K S -> K S),
    (forall g, linear S (gden g)) ->
    (forall w, kconj (rnorm w) = rnorm w) ->
    (forall r, tiny r = false -> kmul r (rinv r) = k1) ->
    (forall g phi, norm2 S n (gden g phi) = norm2 S n phi) ->
    (forall w, kmul (rnorm w) (rnorm w) = norm2 S n w) ->
    (forall r, kconj r = r -> kconj (rinv r) = rinv r) ->
    forall asis fuel src hist s sv items ms svf Pf,
      sim_replay G ctl (K S) (state S) (gapply S G gden) (collapse_norm S rnorm tiny rinv) kmul
                 asis fuel src hist s sv k1 = MOk (items, ms, svf, Pf) ->
      (norm2 S n sv = k1 \/ ms <> []) ->
      norm2 S n svf = k1 /\ Pf = norm2 S n (run_items S G gden items sv).
Proof.
  intros S G ctl gden n rnorm tiny rinv Hlin Hreal Hinv Hunit Hsq Hir asis fuel src hist s sv items ms svf Pf H Hn.
  split.
  - exact (sim_replay_normalised S G ctl gden n rnorm tiny rinv Hreal Hinv Hunit Hsq Hir asis fuel src hist s sv k1 items ms svf Pf H Hn).
  - exact (sim_replay_born S G ctl gden n rnorm tiny rinv Hlin Hreal Hinv Hunit Hsq Hir asis fuel src hist s sv items ms svf Pf H Hn).
Qed.
Print Assumptions C10_recorded_probability_is_born.

(* 9. The hypothesis Hlin of 7/8 holds of the reference semantics of every Tangelo gate. *)
Theorem C10_gates_are_linear : forall (S : KS) (g : gate S), linear S (den_gate S g).
Proof. exact den_gate_linear. Qed.
Print Assumptions C10_gates_are_linear.

(* 9'. The unitarity hypotheses (steps_unit, tree_unit, Hunit) hold of the reference semantics of every
       Tangelo gate — H X Y Z S T RX RY RZ PHASE SWAP XX with any number of controls, for ALL angles —
       on every register that contains the gate's target qubits (controls disjoint from targets), hence
       of every circuit of such gates. *)
Theorem C10_gates_preserve_norm :
  forall (S : KS) n (c : circuit S), Forall (gate_in S n) c -> preserves_norm S n (den S c).
Proof. exact den_preserves_norm. Qed.
Print Assumptions C10_gates_preserve_norm.

(*     4 without hypothesis, for pieces that are circuits of such gates *)
Theorem C10_branch_probs_sum_to_one_circuits :
  forall (S : KS) n (l : list (circuit S * N)),
    Forall (fun cq => Forall (gate_in S n) (fst cq)) l ->
    forall psi0,
      lsum S (fun bs => norm2 S n (branch S (map (fun cq => (den S (fst cq), snd cq)) l) bs psi0)) (strings (length l))
      = norm2 S n psi0.
Proof.
  intros S n l H psi0. rewrite <- (map_length (fun cq => (den S (fst cq), snd cq)) l).
  apply branch_probs_sum_to_one. unfold steps_unit. apply Forall_map.
  apply (Forall_impl _ (fun cq Hc => den_preserves_norm S n (fst cq) Hc) H).
Qed.
Print Assumptions C10_branch_probs_sum_to_one_circuits.

(*     8 with Hlin and Hunit discharged: programs over gates of the register (wgate), numerics assumed *)
Definition wgate (S : KS) (n : nat) : Type := { g : gate S | gate_in S n g }.
Definition wden (S : KS) (n : nat) (g : wgate S n) : state S -> state S := den_gate S (proj1_sig g).
Theorem C10_recorded_probability_is_born_gates :
  forall (S : KS) (n : nat) ctl (rnorm : state S -> K S) (tiny : K S -> bool) (rinv : K S -> K S),
    (forall w, kconj (rnorm w) = rnorm w) ->
    (forall r, tiny r = false -> kmul r (rinv r) = k1) ->
    (forall w, kmul (rnorm w) (rnorm w) = norm2 S n w) ->
    (forall r, kconj r = r -> kconj (rinv r) = rinv r) ->
    forall asis fuel src hist s sv items ms svf Pf,
      sim_replay (wgate S n) ctl (K S) (state S) (gapply S _ (wden S n)) (collapse_norm S rnorm tiny rinv) kmul
                 asis fuel src hist s sv k1 = MOk (items, ms, svf, Pf) ->
      (norm2 S n sv = k1 \/ ms <> []) ->
      norm2 S n svf = k1 /\ Pf = norm2 S n (run_items S _ (wden S n) items sv).
Proof.
  intros S n ctl rnorm tiny rinv Hreal Hinv Hsq Hir.
  apply (C10_recorded_probability_is_born S (wgate S n) ctl (wden S n) n rnorm tiny rinv).
  - intro g. apply den_gate_linear.
  - exact Hreal.
  - exact Hinv.
  - intros g phi. apply den_gate_unit. exact (proj2_sig g).
  - exact Hsq.
  - exact Hir.
Qed.
Print Assumptions C10_recorded_probability_is_born_gates.

(* 10. applied gates = selected gates.  For EVERY program (any gates, any nesting of dictionary control,
       any — possibly stateful — control function), every source of outcomes and every fuel, the REPAIRED
       replay loop (queues unitary_circuits / qubits / cmeasure_flags / precirc) returns exactly what the
       specification `selected` returns — the same gates and outcomes, or the same error (out-of-fuel,
       IndexError for an exhausted desired string, KeyError, TypeError). *)
Theorem C10_applied_gates_are_selected :
  forall (G : Type) ctl fuel d (prog : list (instr G)),
    generate_applied_gates G ctl false fuel d prog = selected G ctl fuel (src_of d) [] prog.
Proof. exact replay_is_selected. Qed.
Print Assumptions C10_applied_gates_are_selected.

(*     in the form asked for: out-of-fuel (and every other error) excluded by hypothesis *)
Theorem C10_applied_gates_are_selected_ok :
  forall (G : Type) ctl fuel d (prog : list (instr G)) items ms,
    selected G ctl fuel (src_of d) [] prog = MOk (items, ms) ->
    generate_applied_gates G ctl false fuel d prog = MOk (items, ms).
Proof. intros G ctl fuel d prog items ms H. rewrite replay_is_selected. exact H. Qed.
Print Assumptions C10_applied_gates_are_selected_ok.

(* 11. The two copies of the loop agree: whenever the simulator's loop (any backend, either variant)
       completes, generate_applied_gates' loop returns the same applied gates and outcome string. *)
Theorem C10_simulator_loop_same_applied_gates :
  forall (G : Type) ctl (K St : Type) qapply qcollapse pmul asis fuel src hist s sv P items ms svf Pf,
    sim_replay G ctl K St qapply qcollapse pmul asis fuel src hist s sv P = MOk (items, ms, svf, Pf) ->
    replay G ctl asis fuel src hist s = MOk (items, ms).
Proof. exact sim_replay_items. Qed.
Print Assumptions C10_simulator_loop_same_applied_gates.

(* 12. REFUTED for the loop exactly as written in circuit.py / target_cirq.py
       (`precirc = [Circuit()]*len(qubits) + precirc` after `qubits` was extended): a controlled gate list
       that contains a measurement followed by more gates, while another measurement is pending.
       Gates are numbered: 0 = H(0), 1 = X(1), 2 = X(2), 3 = H(1); outcomes "110".  The X(2) selected by
       the first outcome must precede MEASURE(2); the loop applies it after.  (Replayed on the real code
       by the harness: WITNESS in harness/props/C10.py.) *)
Definition C10_witness : list (instr nat) :=
  [IU 0; ICMeasD 0%Z (Some []) (Some [IU 1; IMeas 1%Z; IU 2]); IMeas 2%Z; IU 3].
Theorem C10_applied_gates_asis_refuted :
  exists (prog : list (instr nat)) d,
    generate_applied_gates nat None true 10 d prog
    = MOk ([AG 0; ACMeas 0%Z true; AG 1; AMeas 1%Z true; AMeas 2%Z false; AG 2; AG 3], [true; true; false])
    /\ selected nat None 10 (src_of d) [] prog
       = MOk ([AG 0; ACMeas 0%Z true; AG 1; AMeas 1%Z true; AG 2; AMeas 2%Z false; AG 3], [true; true; false]).
Proof. exists C10_witness, (Some [true; true; false]). split; vm_compute; reflexivity. Qed.
Print Assumptions C10_applied_gates_asis_refuted.

(* 13. PARTIAL, in place of 10 for the loop as written: it does return the selected gates when every
       controlled gate list — dictionary entries at any depth and every reply of the control function —
       is `closed`: it contains no measurement, or nothing follows its last measurement
       (closed l := get_unitary_circuit_pieces l has one piece or an empty last piece).
       Missing for the full statement: exactly the programs of 12. *)
Theorem C10_applied_gates_asis_are_selected_partial :
  forall (G : Type) ctl fuel d (prog : list (instr G)),
    ctl_ok G ctl -> forallb (instr_ok G) prog = true ->
    generate_applied_gates G ctl true fuel d prog = selected G ctl fuel (src_of d) [] prog.
Proof. exact replay_asis_is_selected_partial. Qed.
Print Assumptions C10_applied_gates_asis_are_selected_partial.

(* 14. Shot records (keys of all_frequencies under save_mid_circuit_meas): outcomes of the mid-circuit
       measurements in order of appearance, then the final register, qubit 0 first — for any number of
       measurements and qubits; and reading cirq's measurement columns str(0), str(1), ... in NUMERIC key
       order yields exactly that record whatever the number of keys (10 or more included). *)
Theorem C10_record_layout :
  forall n ms x,
    length (record n ms x) = (length ms + n)%nat
    /\ firstn (length ms) (record n ms x) = ms
    /\ (forall q, (q < n)%nat -> nth (length ms + q) (record n ms x) false = N.testbit x (N.of_nat q)).
Proof. exact record_layout. Qed.
Print Assumptions C10_record_layout.

Theorem C10_assemble_is_record :
  forall (meas : nat -> bool) n ms x,
    (forall i, (i < length ms)%nat -> meas i = nth i ms false) ->
    (forall q, (q < n)%nat -> meas (length ms + q)%nat = N.testbit x (N.of_nat q)) ->
    assemble meas (length ms) n = record n ms x.
Proof. exact assemble_is_record. Qed.
Print Assumptions C10_assemble_is_record.

(* ---- non-vacuity ---- *)
(* the repaired loop on the witness, and a repeat-until-success control (stateless function that asks for
   another controlled measurement on outcome 0): outcomes 0,0,1 *)
Example C10_selected_nontrivial :
  generate_applied_gates nat None false 10 (Some [true; true; false]) C10_witness
  = MOk ([AG 0; ACMeas 0%Z true; AG 1; AMeas 1%Z true; AG 2; AMeas 2%Z false; AG 3], [true; true; false])
  /\ generate_applied_gates nat (Some (fun h => match h with false :: _ => [IU 7; ICMeasF 0%Z] | _ => [] end))
                            false 10 (Some [false; false; true]) [IU 7; ICMeasF 0%Z; IU 9]
     = MOk ([AG 7; ACMeas 0%Z false; AG 7; ACMeas 0%Z false; AG 7; ACMeas 0%Z true; AG 9], [false; false; true])
  /\ generate_applied_gates nat None false 1 (Some [true; true; false]) C10_witness = MErr EFuel
  /\ generate_applied_gates nat None false 10 (Some [true]) C10_witness = MErr EIndex.
Proof. vm_compute. repeat split. Qed.

(* exact instance: H on qubit 0 of |00>, measure qubit 0: both outcomes have probability 1/2 and the sum
   rule holds with equality of exact cyclotomic numbers *)
Definition C10_ex_state : state CycS := den CycS [Gate (B1 GH 0%N) []] (ket CycS 0%N).
Example C10_born_example :
  ceqb L4 (kadd (prob CycS 2 0%N false C10_ex_state) (prob CycS 2 0%N true C10_ex_state)) (@k1 CycS) = true
  /\ ceqb L4 (prob CycS 2 0%N true C10_ex_state) (@khalf CycS) = true
  /\ ceqb L4 (norm2 CycS 2 C10_ex_state) (@k1 CycS) = true.
Proof. vm_compute. repeat split. Qed.

(* the guard of 13 is met by repeat-until-success style programs (nested measurement last), not by the witness *)
Example C10_guard_examples :
  forallb (instr_ok nat) [IU 7; ICMeasD 0%Z (Some [IU 1; ICMeasF 0%Z]) (Some []); IMeas 1%Z; IU 9] = true
  /\ block_ok nat [IU 7; ICMeasF 0%Z] = true
  /\ forallb (instr_ok nat) C10_witness = false.
Proof. vm_compute. repeat split. Qed.

(* the hypotheses of 7, 8 on numpy's numerics are satisfiable over the complex numbers (norm = sqrt of
   the squared norm, smallness test |r|^2 < 1e-28, inverse = conj r / |r|^2), for every register size *)
Example C10_numerics_hypotheses_satisfiable :
  forall n : nat,
    (forall w, @kconj CRealS (r_norm n w) = r_norm n w)
    /\ (forall r, r_tiny r = false -> @kmul CRealS r (r_inv r) = @k1 CRealS)
    /\ (forall w, @kmul CRealS (r_norm n w) (r_norm n w) = norm2 CRealS n w)
    /\ (forall r, @kconj CRealS r = r -> @kconj CRealS (r_inv r) = r_inv r).
Proof. exact numerics_hypotheses_satisfiable. Qed.

(* the unitarity hypothesis of 4, 5 is met by a non-trivial piece: Hadamard on a one-qubit register
   preserves the squared norm of every state, in every number structure *)
Example C10_steps_unit_nonvacuous :
  forall S : KS, steps_unit S 1 [(den_gate S (Gate (B1 GH 0%N) []), 0%N)]
                 /\ tree_unit S 1 (MNode (den_gate S (Gate (B1 GH 0%N) [])) 0%N
                                         (MLeaf (den_gate S (Gate (B1 GH 0%N) []))) (MLeaf (fun s => s))).
Proof.
  intro S. split.
  - constructor; [apply hadamard_preserves_norm|constructor].
  - simpl. split; [apply hadamard_preserves_norm|]. split; [apply hadamard_preserves_norm|intro phi; reflexivity].
Qed.

(* the register-gate type of 9' is inhabited by non-trivial gates: a CNOT and a doubly-controlled RY on 3 qubits *)
Example C10_wgate_nonvacuous :
  forall S : KS, gate_in S 3 (Gate (B1 GX 1%N) [0%N]) /\ gate_in S 3 (Gate (B1 (GRY (@api4 S)) 2%N) [0%N; 1%N]).
Proof.
  intro S. split; split.
  - intros q [<-|[]] [H|[]]; discriminate.
  - intros q [<-|[]]; reflexivity.
  - intros q [<-|[]] [H|[H|[]]]; discriminate.
  - intros q [<-|[]]; reflexivity.
Qed.
