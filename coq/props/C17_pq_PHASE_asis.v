(* C17, as-is variant: the ProjectQ writer prints PHASE under a name the reader has no branch for.
   Compiled only while the implementation still shows C17/projectq/PHASE-written-as-R. *)
From Coq Require Import String ZArith List Bool.
From Tangelo Require Import Linq.GateModel Linq.CircuitModel Linq.Formats Linq.FormatsProofs Linq.LinqZ Linq.FormatsZ.
From Gen Require Import GateTables FormatTables.
Import ListNotations.
Open Scope string_scope.
Notation zeq := (zeqmod eq_modulus_units eq_modulus_long_units).
(* a well-formed source circuit: valid gates, width covering them, all kinds accepted by the writer,
   nothing variational *)
Definition src_ok (accepts : string -> bool) (c : fcirc Z) : Prop :=
  circ_ok Z gtables c /\ Forall (fun g : zgate => accepts (pname g) = true) (fgates c)
  /\ Forall (fun g : zgate => pvar g = false) (fgates c).
Ltac px_tac := repeat (first [apply Forall_nil | apply Forall_cons; [split; [eexists; reflexivity | vm_compute; first [reflexivity | eexists; reflexivity | split; [reflexivity | eexists; reflexivity]]] | ]]).
Ltac src_ok_tac := unfold src_ok, circ_ok; repeat split; try (vm_compute; discriminate); repeat (constructor; try (vm_compute; reflexivity)).

Theorem C17_projectq_roundtrip_refuted_PHASE :
  exists c ls, src_ok (pq_accepts pq_tbl) c /\ fwidth c = gates_width Z (fgates c)
               /\ Forall (pq_expressible Z pq_tbl) (fgates c)
               /\ pq_write Z pq_tbl c = Ok ls /\ pq_read Z gtables pq_tbl ls = Err ValueError.
Proof.
  exists (FCirc [G "PHASE" [0%Z] None (PNum 4%Z) false] 1%Z). eexists.
  split; [src_ok_tac|]. split; [vm_compute; reflexivity|].
  split; [px_tac|]. vm_compute. split; reflexivity.
Qed.
Print Assumptions C17_projectq_roundtrip_refuted_PHASE.

Theorem C17_projectq_PHASE_lost :
  pq_survives gtables pq_tbl "PHASE" = false /\ lookup "PHASE" (pq_names pq_tbl) = Some "R"
  /\ find_shape "R" (pq_rbranches pq_tbl) = None.
Proof. vm_compute. repeat split. Qed.
Print Assumptions C17_projectq_PHASE_lost.
