(* C06 — Pauli-exponential and time-evolution circuits implement exp(-itH).
   Property theorems only (closed by exact/apply of lemmas from coq/theories/Chem), each followed by
   Print Assumptions.  Statements over real coefficients / times use the instance CRealS (K = R*R,
   angles = R, cis a = e^{i a/2}) with the number operations (ROps u) (Chem/PauliExpReal.v; u : the Suzuki factors, arbitrary).
   Tables regenerated from ansatz_utils.py: Gen.PauliExpTables.ptab. *)
From Coq Require Import String ZArith NArith List Bool Reals.
From Tangelo Require Import Num.KStruct.
From Tangelo Require Import Num.CReal.
From Tangelo Require Import Num.Cyc.
From Tangelo Require Import QSem.State.
From Tangelo Require Import QSem.StateLemmas.
From Tangelo Require Import Pauli.Word.
From Tangelo Require Import Pauli.Action.
From Tangelo Require Import Linq.GateModel.
From Tangelo Require Import Linq.Interp.
From Tangelo Require Import Linq.RealInst.
From Tangelo Require Import Linq.LinqZ.
From Tangelo Require Import Chem.PauliExp.
From Tangelo Require Import Chem.PauliExpProofs.
From Tangelo Require Import Chem.TimeEvo.
From Tangelo Require Import Chem.TimeEvoProofs.
From Tangelo Require Import Chem.PauliExpReal.
From Tangelo Require Import Chem.PauliExpQ.
From Tangelo Require Import Chem.PauliExpCyc.
From Gen Require Import PauliExpTables.
Import ListNotations.
Open Scope string_scope.

Notation RS := CRealS.

(* 0. The regenerated tables are the ones the theorems are about: operators {X, Y} get a basis change,
      X -> H, Y -> RX(pi/2) before and its inverse after; angle rule 2c / 4k*pi + 2c; identity term with
      one control -> PHASE(-c), several -> CPHASE(-c) on the last control, controlled by the others
      (source after fix ae252bf). *)
Theorem C06_tables_as_proved : tables_ok ptab /\ id_tables_ok ptab.
Proof.
  split; constructor; try reflexivity. exists 1%nat. reflexivity.
Qed.
Print Assumptions C06_tables_as_proved.

(* 1. CNOT ladder: after the forward ladder over distinct qubits qs the last qubit carries the parity of
      x over qs, every qubit outside qs is untouched, and the backward ladder undoes it; the two ladders
      denote exactly these index maps. *)
Theorem C06_cnot_ladder_parity :
  forall (qs : list N) (x d : N), qs <> [] -> NoDup qs ->
    bit (lad_fwd qs x) (last qs d) = parity x qs
    /\ (forall q, ~ In q qs -> bit (lad_fwd qs x) q = bit x q)
    /\ lad_bwd qs (lad_fwd qs x) = x.
Proof.
  intros qs x d Hne Hnd. split; [exact (cnot_ladder_parity qs x d Hne Hnd)|].
  split; [intros q Hq; exact (lad_fwd_other qs x q Hq) | exact (lad_bwd_fwd qs x Hnd)].
Qed.
Print Assumptions C06_cnot_ladder_parity.

Theorem C06_ladder_denotes_index_map :
  forall (qs : list N) (psi : state RS),
    den RS (qladder RS qs) psi = (fun x => psi (lad_bwd qs x))
    /\ den RS (rev (qladder RS qs)) psi = (fun x => psi (lad_fwd qs x)).
Proof. intros qs psi. split; [exact (ladder_den_bwd RS qs psi) | exact (ladder_den_fwd RS qs psi)]. Qed.
Print Assumptions C06_ladder_denotes_index_map.

(* 2. Basis facts, as matrix identities, with exactly the regenerated gates / angles (4 units of pi/8):
      H Z H = X  and  RX(-pi/2) Z RX(pi/2) = Y. *)
Theorem C06_basis_change_facts :
  mmul RS (mH RS) (mmul RS (mZ RS) (mH RS)) = mX RS
  /\ mmul RS (mRX RS (- of_units 4)%R) (mmul RS (mZ RS) (mRX RS (of_units 4))) = mY RS.
Proof. exact basis_facts_real. Qed.
Print Assumptions C06_basis_change_facts.

(* 3. exp_pauliword_to_gates: for EVERY non-identity word on distinct qubits (any order in the tuple),
      EVERY real coefficient c (negative, zero, beyond 2 pi) and EVERY control choice (none, one, several;
      distinct, disjoint from the word) the model returns a gate list that the interpreter accepts and
      whose operation is EXACTLY  ctrl cs (cos c I - i sin c P), phase included. *)
Theorem C06_exp_pauliword_correct : forall u : nat -> R,
  forall (w : list (N * pauli)) (c : R) (v : bool) (control : option (list N)),
    w <> [] -> NoDup (map fst w) -> NoDup (ctl control) -> (forall q, In q (ctl control) -> ~ In q (map fst w)) ->
    exists gs C, exp_pauliword_to_gates R (ROps u) ptab w c v control = Ok gs
                 /\ interp_all RS R rid gs = Some C
                 /\ forall psi, den RS C psi = ctrl RS (ctl control) (exp_word_real w c) psi.
Proof. exact (fun u => exp_pauliword_correct_real u ptab (proj1 C06_tables_as_proved)). Qed.
Print Assumptions C06_exp_pauliword_correct.

(* ... where, pointwise on a sorted word, (cos c I - i sin c P) psi x = cos c psi x - i sin c phase(P,x) psi(flip(P,x)) *)
Theorem C06_exp_word_pointwise :
  forall w (c : R) (psi : state RS) x, word_wf w = true ->
    exp_word_real w c psi x
    = Cadd (Cmul (cos c, 0%R) (psi x)) (Cmul (0%R, (- sin c)%R) (Cmul (word_phase RS w x) (psi (word_flip w x)))).
Proof. exact exp_word_real_closed. Qed.
Print Assumptions C06_exp_word_pointwise.

(* 4. Identity terms, for EVERY control choice: no control -> no gate and the returned phase e^{-ic};  one control q ->
      PHASE(-c) on q;  several distinct controls (any, qubit 0 included) -> one CPHASE(-c) on the last control,
      controlled by the others.  In each case the operation is the phase e^{-ic} on the all-ones branch of the
      controls = the controlled exp(-i c I). *)
Theorem C06_identity_term_phase : forall u : nat -> R,
  forall (c : R) (v : bool),
    (term_gates R (ROps u) ptab [] c v None = Ok ([], c)
     /\ forall (psi : state RS) x, Cmul (cos c, (- sin c)%R) (psi x) = exp_word_real [] c psi x)
    /\ (forall q, exists gs C, term_gates R (ROps u) ptab [] c v (Some [q]) = Ok (gs, 0%R)
                               /\ interp_all RS R rid gs = Some C
                               /\ forall psi, den RS C psi = ctrl RS [q] (exp_word_real [] c) psi)
    /\ (forall q1 q2 r, NoDup (q1 :: q2 :: r) ->
          exists gs C, term_gates R (ROps u) ptab [] c v (Some (q1 :: q2 :: r)) = Ok (gs, 0%R)
                       /\ interp_all RS R rid gs = Some C
                       /\ forall psi, den RS C psi = ctrl RS (q1 :: q2 :: r) (exp_word_real [] c) psi).
Proof. exact (fun u => identity_term_phase_real u ptab (proj2 C06_tables_as_proved)). Qed.
Print Assumptions C06_identity_term_phase.

(* The definition BEFORE fix ae252bf (CPHASE(-2c), CRZ(2c) on the hard-coded target 0), kept as-is: with qubit 0 among
   several controls it raised ValueError although the request is meaningful (the defect this check had recorded as
   C06/identity-term/multi-control-contains-qubit-0, now repaired in /repo). *)
Definition ptab_asis : ptables :=
  PTables (basis_ops ptab) (basis_tab ptab) (ang_mult_pos ptab) (ang_pi_neg ptab) (ang_mult_neg ptab)
          (id_single ptab) [("CPHASE", (-2)%Z); ("CRZ", 2%Z)] (Some 0%N) (threshold_exp10 ptab).

(* 5. Time evolution of commuting terms, eigenvector form of exp(-itH): for every operator (list of words
      on distinct qubits with real coefficients, identity term allowed), every scalar time t, every number
      of Trotter steps n >= 1, order 1 and every even order, for every joint eigenvector psi of the words
      (s w = the sign of the eigenvalue of w), when no term of the sequence falls below the threshold:
      phase * (circuit psi) = e^{-i t E} psi  with  E = sum_k (+-1) c_k  (H psi = E psi). *)
Theorem C06_commuting_sum_exact : forall u : nat -> R,
  forall s (terms : list (term R)) (t : R) (n order : nat) (v : bool) L (psi : state RS),
    n <> 0%nat -> suzuki R (ROps u) order terms (t / INR n)%R = Ok L -> nodrop R (ROps u) L ->
    words_ok R terms -> eigen RS R s terms psi ->
    exists gs p C, trotterize R (ROps u) ptab terms (TScalar t) n order v None = Ok (gs, p)
                   /\ interp_all RS R rid gs = Some C
                   /\ forall x, Cmul (cos p, (- sin p)%R) (den RS C psi x)
                                = Cmul (cos (wsum R (ROps u) (sgw R (ROps u) s) terms * t)%R,
                                        (- sin (wsum R (ROps u) (sgw R (ROps u) s) terms * t))%R) (psi x).
Proof. exact (fun u => commuting_sum_exact_real u ptab (proj1 C06_tables_as_proved)). Qed.
Print Assumptions C06_commuting_sum_exact.

(* 5b. The same for ANY time argument (scalar or per-term dictionary) and with the threshold rule kept:
       phase * circuit psi = (e^{-i E_step})^n psi, E_step = the signed sum of the kept coefficients of
       one step's sequence (partial: the identification of E_step with sum_k +-c_k t_k / n is proved for
       scalar times only, theorem 5). *)
Theorem C06_time_evolution_eigen_partial : forall u : nat -> R,
  forall s (terms : list (term R)) (time : time_arg R) (n order : nat) (v : bool) L (psi : state RS),
    n <> 0%nat -> timed R (ROps u) terms (time_div R (ROps u) n time) order = Ok L ->
    words_ok R L -> eigen RS R s L psi ->
    exists gs p C, trotterize R (ROps u) ptab terms time n order v None = Ok (gs, p)
                   /\ interp_all RS R rid gs = Some C
                   /\ forall x, kmul (ph RS R rid p) (den RS C psi x)
                                = kmul (kpow RS (ph RS R rid (esum R (ROps u) s L)) n) (psi x).
Proof. exact (fun u => trotterize_eigen RS R rid (ROps u) ptab (R_ang_ok u) (proj1 C06_tables_as_proved)). Qed.
Print Assumptions C06_time_evolution_eigen_partial.

(* 6. Recursive Trotter-Suzuki coefficients: for every even order 2(k+1), every weight g on words (e.g. the
      indicator of one term), the g-weighted sum of the coefficients of the sequence is t times that of the
      operator — each term's coefficients add up to t * c_k — and the sequence is palindromic. *)
Theorem C06_suzuki_coefficients_sum : forall u : nat -> R,
  forall (g : list (N * pauli) -> R) (k : nat) (terms : list (term R)) (t : R),
    wsum R (ROps u) g (suzuki_even R (ROps u) k terms t) = (wsum R (ROps u) g terms * t)%R
    /\ rev (suzuki_even R (ROps u) k terms t) = suzuki_even R (ROps u) k terms t.
Proof.
  intros u g k terms t. split.
  - exact (suzuki_weighted_sum R (ROps u) (R_ring u) (R_half_ok u) (R_v_ok u) g k terms t).
  - exact (suzuki_palindromic R (ROps u) k terms t).
Qed.
Print Assumptions C06_suzuki_coefficients_sum.

(* 7. trotterize: the circuit is the n-fold repetition of one step built with time / n, the returned phase
      is the n-th power of the step's phase. *)
Theorem C06_trotter_step_structure : forall u : nat -> R,
  forall (terms : list (term R)) (time : time_arg R) (n order : nat) v control gs p,
    trotterize R (ROps u) ptab terms time n order v control = Ok (gs, p) ->
    exists g1 p1, exp_qubit_op R (ROps u) ptab terms (time_div R (ROps u) n time) v order control = Ok (g1, p1)
                  /\ gs = repeat_list n g1 /\ p = nmul R (ROps u) n p1
                  /\ ph RS R rid p = kpow RS (ph RS R rid p1) n.
Proof. exact (fun u => trotterize_structure RS R rid (ROps u) ptab (R_ang_ok u)). Qed.
Print Assumptions C06_trotter_step_structure.

(* a repeated circuit is the iterated operation: on a state that one step rescales by k, n steps rescale by k^n *)
Theorem C06_repetition_iterates :
  forall (c : circuit RS) (k : K RS) (psi : state RS) n,
    den RS c psi = sscale RS k psi -> den RS (repeat_list n c) psi = sscale RS (kpow RS k n) psi.
Proof. exact (den_repeat_eigen RS). Qed.
Print Assumptions C06_repetition_iterates.

(* ---- witnesses / non-vacuity (exact instances) ---- *)
(* the hypotheses of theorem 5 are satisfiable by a non-trivial object: Z on qubit 0 and the indicator of
   "qubit 0 = 0" *)
Example C06_eigen_nonvacuous :
  eigen RS R (fun _ => true) [([(0%N, PZ)], 1%R)] (fun x => if bit x 0 then k0 else k1).
Proof. exact (eigen_Z0 RS R 1%R). Qed.

(* the model on the regenerated tables, rational instance (units of pi/16): X0 Y2 with c = -3 pi/16,
   one control: angle 4 pi + 2c = 58 units *)
Example C06_model_runs :
  show_gates_res (exp_pauliword_to_gates _ (QOps (qc 1 1000000000) (fun _ => qc 0 1)) ptab
                                         (W [(0%N, 0%nat); (2%N, 1%nat)]) (qc (-3) 1) true (Some [1%N]))
  = "Ok H(0;N;_;F) RX(2;N;8;F) CNOT(2;0;_;F) CRZ(2;1;58;T) CNOT(2;0;_;F) RX(2;N;-8;F) H(0;N;_;F)".
Proof. vm_compute. reflexivity. Qed.

(* the as-is definition (before the fix) refuted, and the repaired definition on the same request *)
Example C06_identity_term_multictrl_asis_refuted :
  (forall (c : R) u, term_gates R (ROps u) ptab_asis [] c false (Some [0%N; 1%N]) = Err ValueError)
  /\ show_circ_phase (term_gates _ (QOps (qc 1 1000000000) (fun _ => qc 0 1)) ptab_asis [] (qc 4 1) false (Some [0%N; 1%N])) = "Err:ValueError"
  /\ show_circ_phase (term_gates _ (QOps (qc 1 1000000000) (fun _ => qc 0 1)) ptab_asis [] (qc 4 1) false (Some [1%N; 2%N]))
     = "Ok CPHASE(0;1.2;-8;F) CRZ(0;1.2;8;F) | 0"
  /\ show_circ_phase (term_gates _ (QOps (qc 1 1000000000) (fun _ => qc 0 1)) ptab [] (qc 4 1) false (Some [0%N; 1%N]))
     = "Ok CPHASE(1;0;-4;F) | 0".
Proof.
  split.
  - intros c u. apply (identity_multi_control_asis_refuted R (ROps u) ptab_asis). constructor; reflexivity.
  - vm_compute. repeat split.
Qed.

(* exact evaluation in Q(zeta_32): the gate list of the model for Y0 X1 Z2, c = 5 pi/16 (angle 5 units of pi/8),
   control 3, denotes exactly the controlled exponential *)
Example C06_exact_instance :
  check_exp 4 [G "RX" [0%Z] None (PNum 4%Z) false; G "H" [1%Z] None PNone false;
               G "CNOT" [1%Z] (Some [0%Z]) PNone false; G "CNOT" [2%Z] (Some [1%Z]) PNone false;
               G "CRZ" [2%Z] (Some [3%Z]) (PNum 5%Z) false;
               G "CNOT" [2%Z] (Some [1%Z]) PNone false; G "CNOT" [1%Z] (Some [0%Z]) PNone false;
               G "H" [1%Z] None PNone false; G "RX" [0%Z] None (PNum (-4)%Z) false]
            (W [(0%N, 1%nat); (1%N, 0%nat); (2%N, 2%nat)]) 5%Z [3%N] = "E".
Proof. vm_compute. reflexivity. Qed.
