(* C17, repaired variant: the ProjectQ reader restores the width from the Allocate instructions.
   Compiled when the implementation no longer shows C17/projectq/width-not-restored. *)
From Coq Require Import String ZArith List Bool.
From Tangelo Require Import Linq.GateModel Linq.CircuitModel Linq.Formats Linq.FormatsProofs Linq.LinqZ Linq.FormatsZ.
From Gen Require Import GateTables FormatTables.
Import ListNotations.
Open Scope string_scope.
Notation zeq := (zeqmod eq_modulus_units eq_modulus_long_units).
(* a well-formed source circuit: valid gates, width covering them, all kinds accepted by the writer,
   nothing variational *)
Definition src_ok (accepts : string -> bool) (c : fcirc Z) : Prop :=
  circ_ok Z gtables c /\ Forall (fun g : zgate => accepts (pname g) = true) (fgates c)
  /\ Forall (fun g : zgate => pvar g = false) (fgates c).
Ltac src_ok_tac := unfold src_ok, circ_ok; repeat split; try (vm_compute; discriminate); repeat (constructor; try (vm_compute; reflexivity)).

Theorem C17_projectq_restores_width : pq_restores_width pq_tbl = true.
Proof. vm_compute. reflexivity. Qed.
Print Assumptions C17_projectq_restores_width.

(* for EVERY circuit object over the surviving kinds, idle qubits included (no condition on the width) *)
Theorem C17_projectq_roundtrip_any_width :
  forall (Ang : Type) (eqmod : bool -> Ang -> Ang -> bool), (forall l a, eqmod l a a = true) ->
  forall c : fcirc Ang,
    circ_ok Ang gtables c ->
    Forall (fun g : pgate Ang => pq_survives gtables pq_tbl (pname g) = true) (fgates c) ->
    Forall (pq_expressible Ang pq_tbl) (fgates c) ->
    Forall (fun g : pgate Ang => pvar g = false) (fgates c) ->
    exists ls c', pq_write Ang pq_tbl c = Ok ls /\ pq_read Ang gtables pq_tbl ls = Ok c'
                  /\ circ_eq Ang eqmod gtables c c' = true.
Proof.
  intros Ang eqmod H c Hok. apply (projectq_roundtrip_partial Ang eqmod H gtables pq_tbl c); [vm_compute; reflexivity | exact Hok |].
  rewrite C17_projectq_restores_width. discriminate.
Qed.
Print Assumptions C17_projectq_roundtrip_any_width.

Theorem C17_projectq_width_witness_roundtrips :
  (do l <- pq_write Z pq_tbl (FCirc [G "H" [0%Z] None PNone false] 4%Z); pq_read Z gtables pq_tbl l)
  = Ok (FCirc [G "H" [0%Z] None PNone false] 4%Z).
Proof. vm_compute. reflexivity. Qed.
Print Assumptions C17_projectq_width_witness_roundtrips.
