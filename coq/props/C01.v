(* C01 — Backend simulation matches the documented gate semantics.
   Property theorems only, each followed by Print Assumptions.  The documented gate definitions are
   QSem/State.v (through Linq/Interp.v); statements over real angles use the instance CRealS
   (K = R*R, A = R), generic statements hold for every number structure (reals and Q(zeta_32) included).
   Tables regenerated from the source on every run: Gen.BackendTables (translate_cirq.py,
   translate_sympy.py, target_cirq.py, target_sympy.py), Gen.GateTables (gate.py).

   Two clauses of the property were REFUTED for the sympy backend by the regenerated tables (advertised
   statevector order; multi-controlled gates) until /repo was repaired (fix: commits f745714, afe2f2a).
   Their theorems are stated as `..._status`: a disjunction "refuted with this witness" \/ "holds", so that
   the file checks on either kind of source; harness/props/C01.py reads from the regenerated tables which side holds,
   replays the witness on the real code and reports it. *)
From Coq Require Import String ZArith NArith List Bool Reals.
From Tangelo Require Import Num.KStruct.
From Tangelo Require Import Num.CReal.
From Tangelo Require Import Num.Cyc.
From Tangelo Require Import QSem.State.
From Tangelo Require Import QSem.StateLemmas.
From Tangelo Require Import QSem.CircuitLemmas.
From Tangelo Require Import QSem.Measure.
From Tangelo Require Import QSem.MeasureProofs.
From Tangelo Require Import QSem.Unitary.
From Tangelo Require Import Linq.GateModel.
From Tangelo Require Import Linq.Interp.
From Tangelo Require Import Linq.LinqZ.
From Tangelo Require Import Linq.Backend.
From Tangelo Require Import Linq.BackendProofs.
From Gen Require Import GateTables BackendTables.
Import ListNotations.
Open Scope string_scope.

Notation RS := CRealS.

(* ------------------------------------------------------------------ the reference semantics is unitary *)
(* 1. every gate of the gate set — any real angle, any number of controls, any placement inside an
      n-qubit register — preserves the squared norm; hence every circuit does. *)
Theorem C01_gate_den_unitary :
  forall (n : nat) (g : gate RS) (psi : state RS),
    gate_in RS n g -> norm2 RS n (den_gate RS g psi) = norm2 RS n psi.
Proof. exact (den_gate_unit RS). Qed.
Print Assumptions C01_gate_den_unitary.

Theorem C01_circuit_den_unitary :
  forall (n : nat) (c : circuit RS) (psi : state RS),
    Forall (gate_in RS n) c -> norm2 RS n (den RS c psi) = norm2 RS n psi.
Proof. exact (den_unit RS). Qed.
Print Assumptions C01_circuit_den_unitary.

(* 2. "C..." = the base gate applied iff ALL listed controls are 1, for any number of controls *)
Theorem C01_ctrl_den_spec :
  forall (g : gate RS) (psi : state RS) (x : N),
    ((forall c, In c (gctrl g) -> bit x c = true) -> den_gate RS g psi x = den_base RS (gbase g) psi x)
    /\ ((exists c, In c (gctrl g) /\ bit x c = false) -> den_gate RS g psi x = psi x).
Proof. exact (ctrl_den_spec RS). Qed.
Print Assumptions C01_ctrl_den_spec.

(* ------------------------------------------------------------------ the sympy translator *)
(* 3. the four hand-written matrices of translate_sympy.py (regenerated) are the documented rotation
      matrices, for every angle of every number structure (in particular every real angle) *)
Theorem C01_sympy_rotation_matrices_match :
  forall (S : KS) (a : A S),
    sympy_rx S a = mRX S a /\ sympy_ry S a = mRY S a /\ sympy_rz S a = mRZ S a /\ sympy_p S a = mPHASE S a.
Proof.
  intros S a. unfold sympy_rx, sympy_ry, sympy_rz, sympy_p, mRX, mRY, mRZ, mPHASE.
  rewrite ?mi_sinh, ?cis_z_0, ?cis_z_1, ?cis_z_m1, ?cis_z_2. repeat split; reflexivity.
Qed.
Print Assumptions C01_sympy_rotation_matrices_match.

(* 4. the operator product of translate_c_to_sympy (iterate over reversed(gates), multiply on the right —
      both facts regenerated; the forward / left-multiplying form would do as well) applied to a ket acts
      in circuit order *)
Theorem C01_sympy_product_order :
  forall (c : circuit RS) (psi : state RS),
    sympy_product RS sympy_iter_reversed sympy_mul_right c psi = den RS c psi.
Proof. first [exact (sympy_product_order RS) | exact (sympy_product_order_fwd RS)]. Qed.
Print Assumptions C01_sympy_product_order.

(* ------------------------------------------------------------------ the cirq translator *)
(* 5. PHASE / CPHASE are built as ZPowGate(exponent = parameter/pi) and XX as
      XXPowGate(exponent = parameter/pi, global_shift = -1/2) (regenerated); with cirq's documented
      EigenGate formula (TRUSTED, Backend.v: zpow_matrix / app_xxpow) these are PHASE(a) and XX(a) *)
Theorem C01_cirq_pow_gate_match :
  (forall nm u, In (nm, u) cirq_pow_uses ->
      pw_exponent u = PEParamOverPi
      /\ ((nm = "PHASE" \/ nm = "CPHASE") /\ pw_ctor u = "cirq.ZPowGate" /\ pw_shift_halves u = 0%Z
          \/ nm = "XX" /\ pw_ctor u = "cirq.XXPowGate" /\ pw_shift_halves u = (-1)%Z))
  /\ (forall nm, In nm ["PHASE"; "CPHASE"; "XX"] -> In nm (map fst cirq_pow_uses))
  /\ (forall a : R, zpow_matrix RS a 0 = mPHASE RS a)
  /\ (forall (a : R) q1 q2 psi x, app_xxpow RS a (-1) q1 q2 psi x = app_xx RS a q1 q2 psi x).
Proof.
  split; [|split; [|split]].
  - intros nm u H. simpl in H.
    repeat (destruct H as [H|H]; [inversion H; subst; clear H; simpl; split; [reflexivity|]; tauto|]).
    contradiction.
  - intros nm H. simpl in H. simpl.
    repeat (destruct H as [H|H]; [subst; tauto|]). contradiction.
  - exact (zpow_is_phase RS).
  - exact (xxpow_is_xx RS).
Qed.
Print Assumptions C01_cirq_pow_gate_match.

(* 6. the rotations hand their parameter unchanged to cirq.rx / ry / rz (documented exp(-i a sigma/2)),
      and both GATE_ tables map every name of the gate set to the constructor with the expected
      documented meaning (ext_doc: TRUSTED reading of the two libraries) *)
Theorem C01_gate_maps_match :
  gate_map_ok base_of_name cirq_dispatch cirq_gate_map = true
  /\ gate_map_ok whole_of_name sympy_dispatch sympy_gate_map = true
  /\ gate_map_ok whole_of_name sympy_dispatch sympy_multi_gate_map = true
  /\ (forall nm, In nm ["RX"; "RY"; "RZ"; "CRX"; "CRY"; "CRZ"] -> In nm cirq_plain_param)
  /\ targets_ok gtables cirq_dispatch = true /\ targets_ok gtables sympy_dispatch = true
  /\ params_ok gtables cirq_dispatch = true /\ params_ok gtables sympy_dispatch = true.
Proof.
  split; [vm_compute; reflexivity|]. split; [vm_compute; reflexivity|]. split; [vm_compute; reflexivity|].
  split; [intros nm H; simpl in H; simpl; repeat (destruct H as [H|H]; [subst; tauto|]); contradiction|].
  repeat split; vm_compute; reflexivity.
Qed.
Print Assumptions C01_gate_maps_match.

(* 7. every gate name of the property's quantifier is accepted by the cirq translator *)
Theorem C01_cirq_supports_gate_set :
  forallb (supported cirq_dispatch)
          ["H"; "X"; "Y"; "Z"; "S"; "T"; "RX"; "RY"; "RZ"; "PHASE"; "CNOT"; "CX"; "CY"; "CZ"; "CH"; "CRX"; "CRY"; "CRZ";
           "CPHASE"; "XX"; "SWAP"; "CSWAP"] = true.
Proof. vm_compute. reflexivity. Qed.
Print Assumptions C01_cirq_supports_gate_set.

(* ------------------------------------------------------------------ control handling *)
(* 8. cirq: every control of a (multi-)controlled gate reaches the cirq gate (the branch that reads
      control[0] only, CNOT, is left by the CNOT -> CX renaming whenever there are several controls) *)
Theorem C01_translate_uses_all_controls_cirq :
  forall name cs used, cs <> [] -> starts_with_C name = true ->
    controls_used cirq_dispatch name cs = Some used -> used = cs.
Proof. intros name cs used. apply controls_all. vm_compute. reflexivity. Qed.
Print Assumptions C01_translate_uses_all_controls_cirq.

(* 8b. cirq: every name of a branch that reads controls is refused (ValueError) when the gate was built
       without controls, so the translator never reaches those branches with the loop variables of an
       earlier gate (regenerated: the `elif gate.name in {...}: raise ValueError` after the control test) *)
Theorem C01_cirq_rejects_missing_controls :
  no_control_rejected_ok cirq_dispatch cirq_no_control_rejected = true.
Proof. vm_compute. reflexivity. Qed.
Print Assumptions C01_cirq_rejects_missing_controls.

(* 9. sympy: was REFUTED before the fix: commit (every controlled branch read gate.control[0] only) —
      the disjunction is kept so that the file says which side holds for the source as it stands — every controlled branch reads gate.control[0] only.
      refuted-side witness: CX with controls [1; 2] translated with the single control 1. *)
Theorem C01_translate_uses_all_controls_sympy_status :
  (all_controls_ok sympy_dispatch = false
   /\ exists name cs used, cs <> [] /\ starts_with_C name = true
                           /\ controls_used sympy_dispatch name cs = Some used /\ used <> cs)
  \/ (forall name cs used, cs <> [] -> starts_with_C name = true ->
        controls_used sympy_dispatch name cs = Some used -> used = cs).
Proof.
  first [ left; split; [vm_compute; reflexivity|];
          exists "CX", [1%Z; 2%Z], [1%Z]; split; [discriminate|]; split; [reflexivity|];
          split; [vm_compute; reflexivity|discriminate]
        | right; intros name cs used; apply controls_all; vm_compute; reflexivity ].
Qed.
Print Assumptions C01_translate_uses_all_controls_sympy_status.

(* what does hold for sympy: gates with ONE control keep it *)
Theorem C01_translate_uses_all_controls_sympy_partial :
  forall name c used, starts_with_C name = true ->
    controls_used sympy_dispatch name [c] = Some used -> used = [c].
Proof. intros name c used. apply controls_single. vm_compute. reflexivity. Qed.
Print Assumptions C01_translate_uses_all_controls_sympy_partial.

(* ------------------------------------------------------------------ bitstrings and frequencies *)
(* 10. Backend._int_to_binstr: for all n, i < 2^n, q < n: under lsq_first character q is bit n-1-q of i,
       i.e. the value of qubit q of the basis state when the index is big-endian (cirq: brev n i is the
       QSem index); under msq_first character q is bit q of i (little-endian index); length n *)
Theorem C01_binstr_lists_qubit0_first :
  forall (n : nat) (i : N) (q : nat), (i < 2 ^ N.of_nat n)%N -> (q < n)%nat ->
    nth q (int_to_binstr "lsq_first" n i true) false = N.testbit i (N.of_nat (n - 1 - q))
    /\ nth q (int_to_binstr "lsq_first" n i true) false = N.testbit (brev n i) (N.of_nat q)
    /\ nth q (int_to_binstr "msq_first" n i true) false = N.testbit i (N.of_nat q)
    /\ length (int_to_binstr "lsq_first" n i true) = n /\ length (int_to_binstr "msq_first" n i true) = n.
Proof. exact binstr_lists_qubit0_first. Qed.
Print Assumptions C01_binstr_lists_qubit0_first.

(* the same in terms of the basis state x (qubit q = bit q of x): its key is the string listing qubit 0
   first on a big-endian lsq_first vector, on a little-endian msq_first vector, and for sympy's
   reversed(qubit_values) *)
Theorem C01_keys_list_qubit0_first :
  forall (n : nat) (x : N), (0 < n)%nat -> (x < 2 ^ N.of_nat n)%N ->
    int_to_binstr "lsq_first" n (brev n x) true = qubit0_first n x
    /\ int_to_binstr "msq_first" n x true = qubit0_first n x
    /\ sympy_key n x = qubit0_first n x.
Proof. exact binstr_key_of_state. Qed.
Print Assumptions C01_keys_list_qubit0_first.

(* sampled mode: the key -> integer -> key maps around the sampler (int(k[::-1], 2) and
   _int_to_binstr(k, n, False): regenerated fact that the source still uses exactly these) are inverse to each
   other, so a sampled key is one of the exact keys — for EITHER advertised order *)
Theorem C01_sample_key_roundtrip :
  sampling_keys_as_modelled = true
  /\ forall (ord : string) (key : list bool), key <> [] -> sample_key ord (length key) (sample_value key) = key.
Proof. split; [reflexivity|exact sample_roundtrip]. Qed.
Print Assumptions C01_sample_key_roundtrip.

(* sampled mode: the chunk loop of _statevector_to_frequencies has the modelled shape (regenerated fact,
   with a positive chunk constant) and the chunks it draws add up to n_shots for EVERY n_shots and chunk
   size — in particular when n_shots is an exact multiple of the chunk size *)
Theorem C01_sampling_chunks_cover_n_shots :
  sampling_loop_as_modelled = true /\ (0 < sampling_chunk_size)%N
  /\ forall n_shots chunk_size : nat, (0 < chunk_size)%nat -> list_sum (chunk_sizes n_shots chunk_size) = n_shots.
Proof. split; [reflexivity|]. split; [reflexivity|]. exact chunk_sizes_total. Qed.
Print Assumptions C01_sampling_chunks_cover_n_shots.

(* 11. _statevector_to_frequencies on cirq's vector of the state psi (no threshold): the entry stored
       under the string listing qubit 0 first is |psi(x)|^2, it is the only entry under that key, and
       the frequencies add up to the squared norm; with a threshold exactly the entries that pass it
       are kept *)
Theorem C01_freqs_are_born :
  forall (n : nat) (psi : state RS),
    (forall x, (0 < n)%nat -> (x < 2 ^ N.of_nat n)%N ->
        In (qubit0_first n x, born RS psi x) (sv_to_freqs RS "lsq_first" (fun _ => true) (cirq_sv RS n psi))
        /\ forall f, In (qubit0_first n x, f) (sv_to_freqs RS "lsq_first" (fun _ => true) (cirq_sv RS n psi))
                     -> f = born RS psi x)
    /\ freq_total RS (sv_to_freqs RS "lsq_first" (fun _ => true) (cirq_sv RS n psi)) = norm2 RS n psi
    /\ (forall keep b f, In (b, f) (sv_to_freqs RS "lsq_first" keep (cirq_sv RS n psi))
                         <-> In (b, f) (sv_to_freqs RS "lsq_first" (fun _ => true) (cirq_sv RS n psi)) /\ keep f = true).
Proof.
  intros n psi. split; [|split].
  - intros x Hn Hx. split; [apply cirq_freqs_are_born; assumption|].
    intros f. apply cirq_freqs_unique; assumption.
  - apply cirq_freqs_total.
  - intros keep b f. apply freqs_threshold_spec.
Qed.
Print Assumptions C01_freqs_are_born.

(* after any circuit on the register the frequencies still add up to the squared norm of the input *)
Theorem C01_freqs_total_after_circuit :
  forall (n : nat) (c : circuit RS) (psi : state RS), Forall (gate_in RS n) c ->
    freq_total RS (sv_to_freqs RS "lsq_first" (fun _ => true) (cirq_sv RS n (den RS c psi))) = norm2 RS n psi.
Proof. exact (cirq_freqs_total_circuit RS). Qed.
Print Assumptions C01_freqs_total_after_circuit.

(* 12. idle qubits: a circuit none of whose gates targets qubit q leaves q in |0> — what the
       identity-on-every-qubit line of the cirq translator is there to guarantee for declared widths
       and index gaps (q may be used as a control) *)
Theorem C01_idle_qubits_kept :
  forall (c : circuit RS) (q : N) (psi : state RS),
    Forall (fun g => ~ In q (base_qubits RS (gbase g))) c ->
    (forall x, bit x q = true -> psi x = k0) -> forall x, bit x q = true -> den RS c psi x = k0.
Proof. exact (idle_qubits_kept RS). Qed.
Print Assumptions C01_idle_qubits_kept.

(* ------------------------------------------------------------------ advertised statevector order *)
(* 13. cirq advertises lsq_first (regenerated) and its vector is big-endian: indexing the returned vector
       in the advertised order gives the amplitude of the reference semantics; an initial_statevector
       produced that way is read back as the same state *)
Theorem C01_advertised_order_cirq :
  cirq_advertised_order = "lsq_first"
  /\ forall (n : nat) (psi : state RS) (x : N), (x < 2 ^ N.of_nat n)%N ->
       read_sv RS cirq_advertised_order n (cirq_sv RS n psi) x = psi x
       /\ cirq_initial RS n (cirq_sv RS n psi) x = psi x.
Proof.
  split; [reflexivity|]. intros n psi x Hx. split.
  - apply (advertised_order_cirq RS). exact Hx.
  - apply (cirq_initial_roundtrip RS). exact Hx.
Qed.
Print Assumptions C01_advertised_order_cirq.

(* 14. sympy: its vector is little-endian in the qubit index (hand model of qubit_to_matrix, tied by the
       correspondence run).  Was REFUTED while the source advertised lsq_first (witness: X on qubit 0 of 2,
       the state |x = 1>: read in the advertised order, the amplitude of x = 1 is 0); holds for msq_first. *)
Theorem C01_advertised_order_sympy_status :
  (sympy_advertised_order = "lsq_first"
   /\ exists (n : nat) (psi : state CycS) (x : N), (x < 2 ^ N.of_nat n)%N
        /\ ceqb L4 (read_sv CycS sympy_advertised_order n (sympy_sv CycS n psi) x) (psi x) = false)
  \/ (String.eqb sympy_advertised_order "lsq_first" = false
      /\ forall (S : KS) (n : nat) (psi : state S) (x : N), (x < 2 ^ N.of_nat n)%N ->
           read_sv S sympy_advertised_order n (sympy_sv S n psi) x = psi x).
Proof.
  first [ left; split; [reflexivity|];
          exists 2%nat, (ket CycS 1), 1%N; split; [reflexivity|vm_compute; reflexivity]
        | right; split; [reflexivity|];
          intros S n psi x Hx; apply advertised_order_little_endian; [reflexivity|exact Hx] ].
Qed.
Print Assumptions C01_advertised_order_sympy_status.

(* what the sympy vector is, for every state: read as lsq_first it shows the bit-reversed basis state;
   read as msq_first it is right, and the msq_first keys / frequencies are the Born weights *)
Theorem C01_sympy_vector_is_little_endian :
  forall (n : nat) (psi : state RS) (x : N), (x < 2 ^ N.of_nat n)%N ->
    read_sv RS "lsq_first" n (sympy_sv RS n psi) x = psi (brev n x)
    /\ read_sv RS "msq_first" n (sympy_sv RS n psi) x = psi x
    /\ ((0 < n)%nat -> In (qubit0_first n x, born RS psi x)
                          (sv_to_freqs RS "msq_first" (fun _ => true) (sympy_sv RS n psi))).
Proof.
  intros n psi x Hx. split; [|split].
  - apply (advertised_order_mismatch RS). exact Hx.
  - apply (advertised_order_little_endian RS); [reflexivity|exact Hx].
  - intro Hn. apply (msq_freqs_are_born RS); assumption.
Qed.
Print Assumptions C01_sympy_vector_is_little_endian.

(* ------------------------------------------------------------------ witnesses, non-vacuity (exact instance) *)
Definition nz (a : K CycS) : bool := negb (ceqb L4 a (c0 L4)).

(* X on qubit 0 of a 2-qubit register: cirq's vector has its 1 at index 2, sympy's at index 1 *)
Example C01_witness_X_on_qubit0 :
  map nz (cirq_sv CycS 2 (den CycS [Gate (B1 GX 0%N) []] (ket CycS 0))) = [false; false; true; false]
  /\ map nz (sympy_sv CycS 2 (den CycS [Gate (B1 GX 0%N) []] (ket CycS 0))) = [false; true; false; false]
  /\ int_to_binstr "lsq_first" 2 2 true = [true; false] /\ sympy_key 2 1 = [true; false].
Proof. vm_compute. repeat split. Qed.

(* the dispatch tables on concrete gates *)
Example C01_controls_examples :
  controls_used cirq_dispatch "CRX" [0%Z; 2%Z] = Some [0%Z; 2%Z]
  /\ controls_used cirq_dispatch "CNOT" [0%Z; 2%Z] = Some [0%Z; 2%Z]
  /\ controls_used cirq_dispatch "CNOT" [1%Z] = Some [1%Z]
  /\ controls_used cirq_dispatch "CS" [1%Z] = None
  /\ controls_used sympy_dispatch "CRX" [1%Z] = Some [1%Z]
  /\ controls_used sympy_dispatch "CSWAP" [1%Z] = None /\ controls_used sympy_dispatch "XX" [] = None.
Proof. vm_compute. repeat split. Qed.

(* the unitarity theorems apply to a multi-controlled rotation placed with gaps in a 4-qubit register *)
Example C01_gate_in_nonvacuous :
  gate_in RS 4 (@Gate RS (@B1 RS (@GRX RS (PI / 3)%R) 1%N) [0%N; 3%N])
  /\ gate_in RS 4 (@Gate RS (@BXX RS 1%R 0%N 2%N) [3%N]) /\ gate_in RS 4 (@Gate RS (@BSWAP RS 3%N 1%N) [0%N; 2%N]).
Proof.
  assert (L : forall (g : gate RS) n,
             (forall q, In q (base_qubits RS (gbase g)) -> ~ In q (gctrl g) /\ (q < N.of_nat n)%N) -> gate_in RS n g).
  { intros g n H. split; intros q Hq; apply (H q Hq). }
  split; [|split]; apply L; cbn [base_qubits gbase gctrl In].
  - intros q [<-|[]]. split; [intros [E|[E|[]]]; discriminate|reflexivity].
  - intros q [<-|[<-|[]]]; (split; [intros [E|[]]; discriminate|reflexivity]).
  - intros q [<-|[<-|[]]]; (split; [intros [E|[E|[]]]; discriminate|reflexivity]).
Qed.

(* the frequencies theorem on a concrete state: Bell pair, keys and weights *)
Example C01_freqs_bell :
  map (fun p => (fst p, nz (snd p)))
      (sv_to_freqs CycS "lsq_first" nz
                   (cirq_sv CycS 2 (den CycS [Gate (B1 GH 0%N) []; Gate (B1 GX 1%N) [0%N]] (ket CycS 0))))
  = [([false; false], true); ([true; true], true)].
Proof. vm_compute. reflexivity. Qed.

(* the hypothesis of C01_idle_qubits_kept is met by the all-zero initial state, for every qubit *)
Example C01_idle_nonvacuous : forall (q x : N), bit x q = true -> ket RS 0 x = k0.
Proof. exact (ket0_zero_on RS). Qed.
