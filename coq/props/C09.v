(* C09 — Circuit transformations preserve the implemented operation.
   Property theorems only (closed by exact/apply of lemmas from coq/theories), each followed by
   Print Assumptions.  Statements over real angles use the instance CRealS (K = R*R, A = R).
   Tables regenerated from the source: Gen.GateTables (gate.py, circuit.py), Gen.CliffordTables. *)
From Coq Require Import String ZArith NArith List Bool Reals.
From Tangelo Require Import Num.KStruct Num.CReal Num.Cyc QSem.State QSem.StateLemmas QSem.CircuitLemmas QSem.Commute.
From Tangelo Require Import Linq.GateModel Linq.CircuitModel Linq.History Linq.CircuitProofs Linq.Interp
     Linq.InterpProofs Linq.PassLemmas Linq.Clifford Linq.CliffordProofs Linq.RealInst Linq.LinqZ Linq.Equiv Linq.SmallRot.
From Tangelo Require Import Linq.ScanLemmas Linq.InterpFacts Linq.MergeProofs Linq.GateEqSound Linq.RedundantProofs
     Linq.RedundantExact Linq.SimplifyProofs.
From Gen Require Import GateTables CliffordTables.
Import ListNotations.
Open Scope string_scope.

Notation RS := CRealS.
Definition rinterp_all := interp_all RS R (fun a : R => a).
Definition rinverse := inverse_c R Ropp (of_units inv_S_units) (of_units inv_T_units) gtables.

(* 1. Circuit.inverse: for EVERY circuit (any length, gates, real angles, any controls) that the model
      of Circuit.inverse accepts, the result denotes a two-sided inverse of the circuit's operation on
      every state (= the adjoint, the operation being unitary).  Depends on the regenerated inverse
      parameters of S and T (inv_S_units = -4, inv_T_units = -2 pi/8-units) and on gate.py's tables. *)
Theorem C09_inverse_is_inverse :
  forall (c c' : circ R) C,
    rinverse c = Ok c' -> rinterp_all (cgates R c) = Some C -> Forall (gate_wf RS) C ->
    exists C', rinterp_all (cgates R c') = Some C'
               /\ (forall psi, den RS C' (den RS C psi) = psi)
               /\ (forall psi, den RS C (den RS C' psi) = psi).
Proof.
  intros c c' C. unfold rinverse, rinterp_all.
  apply (inverse_is_inverse RS R (fun a => a) Ropp (of_units inv_S_units) (of_units inv_T_units) gtables).
  - intro a. reflexivity.
  - exact of_units_m4.
  - exact of_units_m2.
Qed.
Print Assumptions C09_inverse_is_inverse.

(* 2. Concatenation denotes composition. *)
Theorem C09_concat_is_composition :
  forall (a b c : circ R) A B,
    concat R gtables a b = Ok c -> rinterp_all (cgates R a) = Some A -> rinterp_all (cgates R b) = Some B ->
    rinterp_all (cgates R c) = Some (A ++ B)%list /\ forall psi, den RS (A ++ B)%list psi = den RS B (den RS A psi).
Proof. exact (concat_is_composition RS R (fun a => a) gtables). Qed.
Print Assumptions C09_concat_is_composition.

(* 3. Copy keeps the gate list (hence the operation). *)
Theorem C09_copy_same_gates : forall (c c' : circ R), copy_c R gtables c = Ok c' -> cgates R c' = cgates R c.
Proof. exact (copy_same_den R gtables). Qed.
Print Assumptions C09_copy_same_gates.

(* 4. Gates (any base gate, any controls) acting on disjoint qubit sets commute — the fact behind
      merging / cancelling across gates on other qubits and behind splitting. *)
Theorem C09_disjoint_gates_commute :
  forall (g1 g2 : gate RS) psi,
    disjoint (State.gate_qubits RS g1) (State.gate_qubits RS g2) ->
    den_gate RS g1 (den_gate RS g2 psi) = den_gate RS g2 (den_gate RS g1 psi).
Proof. exact (den_gate_comm RS). Qed.
Print Assumptions C09_disjoint_gates_commute.

(* 5. Merging successive rotations (RX, RY, RZ, PHASE and their controlled forms, any controls) on the
      same site is exact, also across gates that act on other qubits. *)
Theorem C09_merge_across :
  forall k (a b : R) q cs (mid_ : circuit RS) psi,
    ~ In q cs ->
    Forall (fun h => disjoint (State.gate_qubits RS (rot_gate RS k b q cs)) (State.gate_qubits RS h)) mid_ ->
    den RS ([rot_gate RS k a q cs] ++ mid_ ++ [rot_gate RS k b q cs])%list psi
    = den RS ([rot_gate RS k (a + b)%R q cs] ++ mid_)%list psi.
Proof. exact (merge_across RS). Qed.
Print Assumptions C09_merge_across.

(* 6. Dropping an UNCONTROLLED rotation by 2*pi is a global phase (-1) ... *)
Theorem C09_rot_2pi_uncontrolled :
  forall k q psi x, k <> RotP -> den_gate RS (rot_gate RS k (a2pi RS) q []) psi x = kopp (psi x).
Proof. exact (rot_2pi_uncontrolled RS). Qed.
Print Assumptions C09_rot_2pi_uncontrolled.

(* ... but a CONTROLLED rotation by 2*pi flips the sign of exactly the control-set-1 components: it is
   not the identity up to phase.  This is the exact content of the defect in remove_small_rotations /
   Gate.__eq__ / remove_redundant_gates (controlled rotations treated as 2*pi-periodic). *)
Theorem C09_rot_2pi_controlled :
  forall k q cs psi x, k <> RotP ->
    den_gate RS (rot_gate RS k (a2pi RS) q cs) psi x = if allset x cs then kopp (psi x) else psi x.
Proof. exact (rot_2pi_controlled RS). Qed.
Print Assumptions C09_rot_2pi_controlled.

(* 7. Clifford decomposition table (regenerated from clifford_circuits.py), exact in Q(zeta_32):
      every entry is proportional to its rotation matrix; every rotation gate x non-zero Clifford angle
      has an entry; the zero angle is the identity; matching angles modulo 2*pi is sound up to phase. *)
Theorem C09_clifford_table_correct :
  forall e, In e clifford_table -> entry_ok e = true.
Proof. apply forallb_forall. vm_compute. reflexivity. Qed.
Print Assumptions C09_clifford_table_correct.

Theorem C09_clifford_table_complete :
  table_complete clifford_values clifford_table = true /\ zero_is_identity = true /\ period_ok = true.
Proof. vm_compute. repeat split. Qed.
Print Assumptions C09_clifford_table_complete.

(* 7b. decompose_gate_to_cliffords for EVERY integer k: on the pi/8 grid the angle k*pi/2 (4k units; any
      angle with  theta mod clifford_step = 0, which is Gate.is_clifford) is accepted, and the Clifford word
      selected by the regenerated selection rule (zero -> [], else first clifford_value equal modulo
      clifford_period, row of the table, default []) is the rotation up to a global phase.  Unbounded in k:
      the selection depends on k modulo 2*pi and the matrices on k modulo 4*pi (CliffordProofs.v). *)
Theorem C09_clifford_decompose_every_k :
  forall name k, In name rotation_names -> (k mod clifford_step = 0)%Z ->
  exists names, decompose_rot clifford_values clifford_table clifford_period clifford_step name k = Some names
                /\ decomp_ok names name k = true.
Proof. apply decompose_rot_sound. vm_compute. reflexivity. Qed.
Print Assumptions C09_clifford_decompose_every_k.

Example C09_clifford_decompose_nonvacuous :
  decompose_rot clifford_values clifford_table clifford_period clifford_step "RX" (-44)%Z = Some ["SDAG"; "H"; "SDAG"]
  /\ decompose_rot clifford_values clifford_table clifford_period clifford_step "RZ" 6%Z = None.
Proof. vm_compute. split; reflexivity. Qed.

(* 8. Out-of-place transformations leave their input unchanged (model of the repaired source):
      every operation other than the in-place methods keeps every existing circuit of the store. *)
Theorem C09_out_of_place_leave_input :
  forall Ang add opp small eqmod mpi2 mpi4 T (s : list (circ Ang)) (o : op Ang) k,
    k < length s -> in_place Ang o <> Some k ->
    nth_error (fst (step Ang add opp small eqmod mpi2 mpi4 T s o)) k = nth_error s k.
Proof. exact read_only_ops_unchanged. Qed.
Print Assumptions C09_out_of_place_leave_input.

(* 9. remove_small_rotations (model over the regenerated tables: names, short period 2*pi, long period
      4*pi for the names in small_long), on the exact angle grid k*pi/8: every dropped gate is the
      identity or — only without controls — minus the identity; the kept gates denote the original
      operation up to ONE global sign, for every circuit.  The side condition on the tables (every
      controlled rotation subject to dropping uses the long period) is checked on the regenerated
      tables: it FAILS for the original source (period 2*pi for all), which is the defect repaired by
      the fix: commit (see C09_rot_2pi_controlled). *)
Theorem C09_small_tables_ok : small_tables_ok gtables = true
                              /\ small_modulus_units = 16%Z /\ small_modulus_long_units = 32%Z.
Proof. vm_compute. repeat split. Qed.
Print Assumptions C09_small_tables_ok.

Theorem C09_remove_small_rotations_sound :
  forall (gs gs' : list zgate) C,
    Forall ctrl_ok gs ->
    filterM (is_small gtables small_modulus_units small_modulus_long_units) gs = Ok gs' ->
    cy_interp_all gs = Some C ->
    exists C' neg, cy_interp_all gs' = Some C'
                   /\ forall psi, den CycS C psi = sscale CycS (sgn neg) (den CycS C' psi).
Proof.
  intros gs gs' C. apply (remove_small_sound gtables gs gs' C).
  exact (proj1 C09_small_tables_ok).
Qed.
Print Assumptions C09_remove_small_rotations_sound.

(* 10. what "the angle is a multiple of the period" means, for every real angle and any controls:
       cis a = e^{i a/2} = 1 (a = 0 mod 4*pi) makes every rotation the identity *)
Theorem C09_rot_4pi_identity :
  forall k (a : R) q cs psi, @cis RS a = @k1 RS -> den_gate RS (rot_gate RS k a q cs) psi = psi.
Proof. exact (rot_cis1_identity RS). Qed.
Print Assumptions C09_rot_4pi_identity.

(* 11. The pass theorems below are stated for VALID gates: non-negative pairwise distinct qubit indices,
       a control list only under a name starting with C (gate_okb).  Every gate of every circuit accepted
       by the constructor Circuit(gates, n_qubits) — hence of every circuit returned by any operation of
       the model — is valid. *)
Theorem C09_built_gates_valid :
  forall Ang T (gs : list (pgate Ang)) nq c, build Ang T gs nq = Ok c -> Forall (fun g => gate_okb Ang g = true) gs.
Proof. exact build_okb. Qed.
Print Assumptions C09_built_gates_valid.

(* side conditions of the pass theorems on the tables regenerated from gate.py / circuit.py: only
   rotation names are merged; CRX CRY CRZ are compared modulo the long period; the moduli and the
   inverse parameters of S and T have the values the theorems are stated for.  The second conjunct
   FAILS for the original source (all names compared modulo 2*pi): the defect repaired by a fix: commit. *)
Theorem C09_pass_tables_ok :
  merge_tables_ok gtables = true /\ eq_tables_ok gtables = true /\ pass_tables_ok gtables = true
  /\ eq_modulus_units = 16%Z /\ eq_modulus_long_units = 32%Z /\ inv_S_units = (-4)%Z /\ inv_T_units = (-2)%Z.
Proof. vm_compute. repeat split. Qed.
Print Assumptions C09_pass_tables_ok.

(* 12. merge_rotations (model of the function over the regenerated tables) preserves the operation
       EXACTLY: for every list of valid interpretable gates, EVERY real angle, any number of controls,
       and whatever the float comparison of Gate.__eq__ answers (eqmod is universally quantified), the
       gates returned denote the same operation on every state. *)
Theorem C09_merge_rotations_sound :
  forall (eqmod : bool -> R -> R -> bool) (gs out : list (pgate R)) C,
    Forall (fun g => gate_okb R g = true) gs -> rinterp_all gs = Some C ->
    merge_core R Rplus eqmod gtables gs = Ok out ->
    Forall (fun g => gate_okb R g = true) out
    /\ exists C', rinterp_all out = Some C' /\ forall psi, den RS C' psi = den RS C psi.
Proof.
  intros eqmod gs out C Hok HC H.
  exact (merge_rotations_sound RS R (fun a => a) Rplus eqmod gtables (fun a b => eq_refl) gs out C
                               (proj1 C09_pass_tables_ok) Hok HC H).
Qed.
Print Assumptions C09_merge_rotations_sound.

Theorem C09_merge_rotations_fn_sound :
  forall (eqmod : bool -> R -> R -> bool) (c c' : circ R) C,
    Forall (fun g => gate_okb R g = true) (cgates R c) -> rinterp_all (cgates R c) = Some C ->
    merge_rotations_fn R Rplus eqmod gtables c = Ok c' ->
    Forall (fun g => gate_okb R g = true) (cgates R c')
    /\ exists C', rinterp_all (cgates R c') = Some C' /\ forall psi, den RS C' psi = den RS C psi.
Proof.
  intros eqmod c c' C Hok HC H.
  exact (merge_rotations_fn_sound RS R (fun a => a) Rplus eqmod gtables (fun a b => eq_refl) c c' C
                                  (proj1 C09_pass_tables_ok) Hok HC H).
Qed.
Print Assumptions C09_merge_rotations_fn_sound.

(* 13. Gate.__eq__ (model over the regenerated tables and moduli) on the exact grid k*pi/8: two gates
       that compare equal implement the same operation up to ONE global sign, and exactly the same
       operation when the gate has controls. *)
Theorem C09_gate_eq_sound :
  forall (g h : zgate) G H,
    gate_okb Z g = true ->
    gate_eq Z (zeqmod eq_modulus_units eq_modulus_long_units) gtables g h = true ->
    cy_interp g = Some G -> cy_interp h = Some H ->
    exists neg, (gctrl G <> [] -> neg = false)
                /\ forall psi, den_gate CycS G psi = sscale CycS (sgn neg) (den_gate CycS H psi).
Proof. exact (fun g h G H => gate_eq_sound gtables g h G H (proj1 (proj2 C09_pass_tables_ok))). Qed.
Print Assumptions C09_gate_eq_sound.

(* 14. remove_redundant_gates (model over the regenerated tables; Gate.inverse and Gate.__eq__ as
       regenerated) on the exact grid: for every list of valid interpretable gates, the gates kept
       denote the operation of the input up to ONE global sign. *)
Theorem C09_remove_redundant_sound :
  forall (gs out : list zgate) C,
    Forall (fun g => gate_okb Z g = true) gs -> cy_interp_all gs = Some C ->
    redundant_core Z Z.opp (zeqmod eq_modulus_units eq_modulus_long_units) inv_S_units inv_T_units gtables gs = Ok out ->
    Forall (fun g => gate_okb Z g = true) out
    /\ exists C' neg, cy_interp_all out = Some C'
                      /\ forall psi, den CycS C psi = sscale CycS (sgn neg) (den CycS C' psi).
Proof.
  intros gs out C.
  exact (remove_redundant_sound gtables inv_S_units inv_T_units eq_refl eq_refl gs out C
                                (proj1 (proj2 C09_pass_tables_ok))).
Qed.
Print Assumptions C09_remove_redundant_sound.

(* 14b. ... and EXACTLY (no sign), for every real angle, when the cancelled pairs are exact inverses:
        for any comparison of parameters that only accepts equal angles (eqmod universally quantified
        under that hypothesis), the gates kept by remove_redundant_gates denote the same operation. *)
Theorem C09_remove_redundant_exact :
  forall (eqmod : bool -> R -> R -> bool),
    (forall l a b, eqmod l a b = true -> a = b) ->
    forall (gs out : list (pgate R)) C,
      Forall (fun g => gate_okb R g = true) gs -> rinterp_all gs = Some C ->
      redundant_core R Ropp eqmod (of_units inv_S_units) (of_units inv_T_units) gtables gs = Ok out ->
      Forall (fun g => gate_okb R g = true) out
      /\ exists C', rinterp_all out = Some C' /\ forall psi, den RS C' psi = den RS C psi.
Proof.
  intros eqmod Hex.
  exact (remove_redundant_exact RS R (fun a => a) Ropp eqmod (of_units inv_S_units) (of_units inv_T_units) gtables
                                (fun a => eq_refl) of_units_m4 of_units_m2 Hex).
Qed.
Print Assumptions C09_remove_redundant_exact.

(* 15. simplify (copy, then cycles of merge_rotations / remove_small_rotations / remove_redundant_gates
       until nothing changes or max_cycles is reached), on the exact grid: for every valid circuit,
       every cycle bound and both values of remove_qubits, the result denotes the operation of the
       input up to ONE global sign. *)
Theorem C09_simplify_sound :
  forall (c : zcirc) (max_cycles : nat) (remove_qubits : bool) (c' : zcirc) C,
    Forall (fun g => gate_okb Z g = true) (cgates Z c) -> cy_interp_all (cgates Z c) = Some C ->
    simplify Z Z.add Z.opp (zsmall small_modulus_units small_modulus_long_units)
             (zeqmod eq_modulus_units eq_modulus_long_units) inv_S_units inv_T_units gtables c max_cycles remove_qubits = Ok c' ->
    Forall (fun g => gate_okb Z g = true) (cgates Z c')
    /\ exists C' neg, cy_interp_all (cgates Z c') = Some C'
                      /\ forall psi, den CycS C psi = sscale CycS (sgn neg) (den CycS C' psi).
Proof.
  exact (simplify_sound gtables inv_S_units inv_T_units eq_refl eq_refl
                        (proj1 (proj2 (proj2 C09_pass_tables_ok)))).
Qed.
Print Assumptions C09_simplify_sound.

(* ---- witnesses (exact, cyclotomic instance, regenerated tables) ---- *)
(* the repaired source keeps CRZ(2*pi) and drops CRZ(4*pi) and RZ(2*pi) *)
Example C09_remove_small_keeps_ctrl_2pi :
  exists c c', build Z gtables [G "H" [1%Z] None PNone false; G "CRZ" [0%Z] (Some [1%Z]) (PNum 16%Z) false;
                                G "CRZ" [0%Z] (Some [1%Z]) (PNum 32%Z) false; G "RZ" [0%Z] None (PNum 16%Z) false] None = Ok c
    /\ remove_small_rotations Z (zsmall small_modulus_units small_modulus_long_units) gtables c false = Ok c'
    /\ map (fun g => show_gate g) (cgates Z c') = ["H(1;N;_;F)"; "CRZ(0;1;16;F)"].
Proof. do 2 eexists. vm_compute. repeat split. Qed.

(* Gate.__eq__ (repaired): CRX(0) <> CRX(2*pi), CRX(0) == CRX(4*pi), RX(0) == RX(2*pi) *)
Example C09_gate_eq_periods :
  gate_eq Z (zeqmod eq_modulus_units eq_modulus_long_units) gtables
          (G "CRX" [0%Z] (Some [1%Z]) (PNum 0%Z) false) (G "CRX" [0%Z] (Some [1%Z]) (PNum 16%Z) false) = false
  /\ gate_eq Z (zeqmod eq_modulus_units eq_modulus_long_units) gtables
          (G "CRX" [0%Z] (Some [1%Z]) (PNum 0%Z) false) (G "CRX" [0%Z] (Some [1%Z]) (PNum 32%Z) false) = true
  /\ gate_eq Z (zeqmod eq_modulus_units eq_modulus_long_units) gtables
          (G "RX" [0%Z] None (PNum 0%Z) false) (G "RX" [0%Z] None (PNum 16%Z) false) = true.
Proof. vm_compute. repeat split. Qed.

(* the exact comparison used by the correspondence confirms the semantics of the witnesses:
   CRZ(2*pi) after H on its control is NOT the identity up to phase; CRZ(4*pi) is *)
Example C09_ctrl_2pi_not_identity :
  compare_circuits 2 [G "H" [1%Z] None PNone false; G "CRZ" [0%Z] (Some [1%Z]) (PNum 16%Z) false]
                     [G "H" [1%Z] None PNone false] = "N"
  /\ compare_circuits 2 [G "H" [1%Z] None PNone false; G "CRZ" [0%Z] (Some [1%Z]) (PNum 32%Z) false]
                        [G "H" [1%Z] None PNone false] = "E".
Proof. vm_compute. repeat split. Qed.

(* non-vacuity of theorem 1: a concrete circuit with controls, S, T and real angles *)
Example C09_inverse_nonvacuous :
  exists c c', build R gtables [PGate "H" [0%Z] None PNone false; PGate "S" [1%Z] None PNone false;
                                PGate "CRX" [1%Z] (Some [0%Z; 2%Z]) (PNum (PI / 3)%R) true;
                                PGate "XX" [0%Z; 2%Z] None (PNum 1%R) false] None = Ok c
               /\ rinverse c = Ok c' /\ length (cgates R c') = 4.
Proof.
  (* real-number constants must stay folded: cbv with the arithmetic of R kept opaque *)
  do 2 eexists. split; [cbv - [Ropp Rmult Rdiv Rinv Rplus Rminus IZR PI of_units]; reflexivity|].
  split; [cbv - [Ropp Rmult Rdiv Rinv Rplus Rminus IZR PI of_units]; reflexivity | reflexivity].
Qed.

(* non-vacuity of 12-15: a valid interpretable circuit on which every pass acts: the two RZ on qubit 1
   merge across the gates on qubit 0 and 2; RX(3*pi/8) RX(13*pi/8) cancel (the inverse of the first
   equals the second modulo 2*pi) although their product is RX(2*pi) = -1: the sign of theorem 14 is
   needed ("P": equal up to a global phase, not "E"); H H cancel exactly. *)
Definition ex_pass : list zgate :=
  [G "RZ" [1%Z] None (PNum 3%Z) false; G "H" [0%Z] None PNone false; G "CNOT" [2%Z] (Some [0%Z]) PNone false;
   G "RZ" [1%Z] None (PNum 5%Z) true; G "RX" [3%Z] None (PNum 3%Z) false; G "RX" [3%Z] None (PNum 13%Z) false;
   G "H" [2%Z] None PNone false; G "H" [2%Z] None PNone false].
Example C09_passes_nonvacuous :
  forallb (gate_okb Z) ex_pass = true
  /\ (match cy_interp_all ex_pass with Some _ => true | None => false end) = true
  /\ option_map show_gates
       (match merge_core Z Z.add (zeqmod eq_modulus_units eq_modulus_long_units) gtables ex_pass with Ok l => Some l | Err _ => None end)
     = Some "RZ(1;N;8;T) H(0;N;_;F) CNOT(2;0;_;F) RX(3;N;16;F) H(2;N;_;F) H(2;N;_;F)"
  /\ option_map show_gates
       (match redundant_core Z Z.opp (zeqmod eq_modulus_units eq_modulus_long_units) inv_S_units inv_T_units gtables ex_pass with Ok l => Some l | Err _ => None end)
     = Some "RZ(1;N;3;F) H(0;N;_;F) CNOT(2;0;_;F) RZ(1;N;5;T)"
  /\ compare_circuits 4 ex_pass [G "RZ" [1%Z] None (PNum 8%Z) true; G "H" [0%Z] None PNone false; G "CNOT" [2%Z] (Some [0%Z]) PNone false] = "P".
Proof. vm_compute. repeat split. Qed.
