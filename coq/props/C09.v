(* C09 — Circuit transformations preserve the implemented operation.
   Property theorems only (closed by exact/apply of lemmas from coq/theories), each followed by
   Print Assumptions.  Statements over real angles use the instance CRealS (K = R*R, A = R).
   Tables regenerated from the source: Gen.GateTables (gate.py, circuit.py), Gen.CliffordTables. *)
From Coq Require Import String ZArith NArith List Bool Reals.
From Tangelo Require Import Num.KStruct Num.CReal Num.Cyc QSem.State QSem.StateLemmas QSem.CircuitLemmas QSem.Commute
     QSem.Relabel QSem.RelabelProofs.
From Tangelo Require Import Linq.GateModel Linq.CircuitModel Linq.History Linq.CircuitProofs Linq.Interp
     Linq.InterpProofs Linq.PassLemmas Linq.Clifford Linq.CliffordProofs Linq.RealInst Linq.LinqZ Linq.Equiv Linq.SmallRot.
From Tangelo Require Import Linq.ScanLemmas Linq.InterpFacts Linq.MergeProofs Linq.GateEqSound Linq.RedundantProofs
     Linq.RedundantExact Linq.SimplifyProofs Linq.RelabelProofs.
From Gen Require Import GateTables CliffordTables.
Import ListNotations.
Open Scope string_scope.

Notation RS := CRealS.
Definition rinterp_all := interp_all RS R (fun a : R => a).
Definition rinverse := inverse_c R Ropp (of_units inv_S_units) (of_units inv_T_units) gtables.

(* 1. Circuit.inverse: for EVERY circuit (any length, gates, real angles, any controls) that the model
      of Circuit.inverse accepts, the result denotes a two-sided inverse of the circuit's operation on
      every state (= the adjoint, the operation being unitary).  Depends on the regenerated inverse
      parameters of S and T (inv_S_units = -4, inv_T_units = -2 pi/8-units) and on gate.py's tables. *)
Theorem C09_inverse_is_inverse :
  forall (c c' : circ R) C,
    rinverse c = Ok c' -> rinterp_all (cgates R c) = Some C -> Forall (gate_wf RS) C ->
    exists C', rinterp_all (cgates R c') = Some C'
               /\ (forall psi, den RS C' (den RS C psi) = psi)
               /\ (forall psi, den RS C (den RS C' psi) = psi).
Proof.
  intros c c' C. unfold rinverse, rinterp_all.
  apply (inverse_is_inverse RS R (fun a => a) Ropp (of_units inv_S_units) (of_units inv_T_units) gtables).
  - intro a. reflexivity.
  - exact of_units_m4.
  - exact of_units_m2.
Qed.
Print Assumptions C09_inverse_is_inverse.

(* 2. Concatenation denotes composition. *)
Theorem C09_concat_is_composition :
  forall (a b c : circ R) A B,
    concat R gtables a b = Ok c -> rinterp_all (cgates R a) = Some A -> rinterp_all (cgates R b) = Some B ->
    rinterp_all (cgates R c) = Some (A ++ B)%list /\ forall psi, den RS (A ++ B)%list psi = den RS B (den RS A psi).
Proof. exact (concat_is_composition RS R (fun a => a) gtables). Qed.
Print Assumptions C09_concat_is_composition.

(* 3. Copy keeps the gate list (hence the operation). *)
Theorem C09_copy_same_gates : forall (c c' : circ R), copy_c R gtables c = Ok c' -> cgates R c' = cgates R c.
Proof. exact (copy_same_den R gtables). Qed.
Print Assumptions C09_copy_same_gates.

(* 4. Gates (any base gate, any controls) acting on disjoint qubit sets commute — the fact behind
      merging / cancelling across gates on other qubits and behind splitting. *)
Theorem C09_disjoint_gates_commute :
  forall (g1 g2 : gate RS) psi,
    disjoint (State.gate_qubits RS g1) (State.gate_qubits RS g2) ->
    den_gate RS g1 (den_gate RS g2 psi) = den_gate RS g2 (den_gate RS g1 psi).
Proof. exact (den_gate_comm RS). Qed.
Print Assumptions C09_disjoint_gates_commute.

(* 5. Merging successive rotations (RX, RY, RZ, PHASE and their controlled forms, any controls) on the
      same site is exact, also across gates that act on other qubits. *)
Theorem C09_merge_across :
  forall k (a b : R) q cs (mid_ : circuit RS) psi,
    ~ In q cs ->
    Forall (fun h => disjoint (State.gate_qubits RS (rot_gate RS k b q cs)) (State.gate_qubits RS h)) mid_ ->
    den RS ([rot_gate RS k a q cs] ++ mid_ ++ [rot_gate RS k b q cs])%list psi
    = den RS ([rot_gate RS k (a + b)%R q cs] ++ mid_)%list psi.
Proof. exact (merge_across RS). Qed.
Print Assumptions C09_merge_across.

(* 6. Dropping an UNCONTROLLED rotation by 2*pi is a global phase (-1) ... *)
Theorem C09_rot_2pi_uncontrolled :
  forall k q psi x, k <> RotP -> den_gate RS (rot_gate RS k (a2pi RS) q []) psi x = kopp (psi x).
Proof. exact (rot_2pi_uncontrolled RS). Qed.
Print Assumptions C09_rot_2pi_uncontrolled.

(* ... but a CONTROLLED rotation by 2*pi flips the sign of exactly the control-set-1 components: it is
   not the identity up to phase.  This is the exact content of the defect in remove_small_rotations /
   Gate.__eq__ / remove_redundant_gates (controlled rotations treated as 2*pi-periodic). *)
Theorem C09_rot_2pi_controlled :
  forall k q cs psi x, k <> RotP ->
    den_gate RS (rot_gate RS k (a2pi RS) q cs) psi x = if allset x cs then kopp (psi x) else psi x.
Proof. exact (rot_2pi_controlled RS). Qed.
Print Assumptions C09_rot_2pi_controlled.

(* 7. Clifford decomposition table (regenerated from clifford_circuits.py), exact in Q(zeta_32):
      every entry is proportional to its rotation matrix; every rotation gate x non-zero Clifford angle
      has an entry; the zero angle is the identity; matching angles modulo 2*pi is sound up to phase. *)
Theorem C09_clifford_table_correct :
  forall e, In e clifford_table -> entry_ok e = true.
Proof. apply forallb_forall. vm_compute. reflexivity. Qed.
Print Assumptions C09_clifford_table_correct.

Theorem C09_clifford_table_complete :
  table_complete clifford_values clifford_table = true /\ zero_is_identity = true /\ period_ok = true.
Proof. vm_compute. repeat split. Qed.
Print Assumptions C09_clifford_table_complete.

(* 7b. decompose_gate_to_cliffords for EVERY integer k: on the pi/8 grid the angle k*pi/2 (4k units; any
      angle with  theta mod clifford_step = 0, which is Gate.is_clifford) is accepted, and the Clifford word
      selected by the regenerated selection rule (zero -> [], else first clifford_value equal modulo
      clifford_period, row of the table, default []) is the rotation up to a global phase.  Unbounded in k:
      the selection depends on k modulo 2*pi and the matrices on k modulo 4*pi (CliffordProofs.v). *)
Theorem C09_clifford_decompose_every_k :
  forall name k, In name rotation_names -> (k mod clifford_step = 0)%Z ->
  exists names, decompose_rot clifford_values clifford_table clifford_period clifford_step name k = Some names
                /\ decomp_ok names name k = true.
Proof. apply decompose_rot_sound. vm_compute. reflexivity. Qed.
Print Assumptions C09_clifford_decompose_every_k.

Example C09_clifford_decompose_nonvacuous :
  decompose_rot clifford_values clifford_table clifford_period clifford_step "RX" (-44)%Z = Some ["SDAG"; "H"; "SDAG"]
  /\ decompose_rot clifford_values clifford_table clifford_period clifford_step "RZ" 6%Z = None.
Proof. vm_compute. split; reflexivity. Qed.

(* 8. Out-of-place transformations leave their input unchanged (model of the repaired source):
      every operation other than the in-place methods keeps every existing circuit of the store. *)
Theorem C09_out_of_place_leave_input :
  forall Ang add opp small eqmod mpi2 mpi4 T (s : list (circ Ang)) (o : op Ang) k,
    k < length s -> in_place Ang o <> Some k ->
    nth_error (fst (step Ang add opp small eqmod mpi2 mpi4 T s o)) k = nth_error s k.
Proof. exact read_only_ops_unchanged. Qed.
Print Assumptions C09_out_of_place_leave_input.

(* 9. remove_small_rotations (model over the regenerated tables: names, short period 2*pi, long period
      4*pi for the names in small_long), on the exact angle grid k*pi/8: every dropped gate is the
      identity or — only without controls — minus the identity; the kept gates denote the original
      operation up to ONE global sign, for every circuit.  The side condition on the tables (every
      controlled rotation subject to dropping uses the long period) is checked on the regenerated
      tables: it FAILS for the original source (period 2*pi for all), which is the defect repaired by
      the fix: commit (see C09_rot_2pi_controlled). *)
Theorem C09_small_tables_ok : small_tables_ok gtables = true
                              /\ small_modulus_units = 16%Z /\ small_modulus_long_units = 32%Z.
Proof. vm_compute. repeat split. Qed.
Print Assumptions C09_small_tables_ok.

Theorem C09_remove_small_rotations_sound :
  forall (gs gs' : list zgate) C,
    Forall ctrl_ok gs ->
    filterM (is_small gtables small_modulus_units small_modulus_long_units) gs = Ok gs' ->
    cy_interp_all gs = Some C ->
    exists C' neg, cy_interp_all gs' = Some C'
                   /\ forall psi, den CycS C psi = sscale CycS (sgn neg) (den CycS C' psi).
Proof.
  intros gs gs' C. apply (remove_small_sound gtables gs gs' C).
  exact (proj1 C09_small_tables_ok).
Qed.
Print Assumptions C09_remove_small_rotations_sound.

(* 10. what "the angle is a multiple of the period" means, for every real angle and any controls:
       cis a = e^{i a/2} = 1 (a = 0 mod 4*pi) makes every rotation the identity *)
Theorem C09_rot_4pi_identity :
  forall k (a : R) q cs psi, @cis RS a = @k1 RS -> den_gate RS (rot_gate RS k a q cs) psi = psi.
Proof. exact (rot_cis1_identity RS). Qed.
Print Assumptions C09_rot_4pi_identity.

(* 11. The pass theorems below are stated for VALID gates: non-negative pairwise distinct qubit indices,
       a control list only under a name starting with C (gate_okb).  Every gate of every circuit accepted
       by the constructor Circuit(gates, n_qubits) — hence of every circuit returned by any operation of
       the model — is valid. *)
Theorem C09_built_gates_valid :
  forall Ang T (gs : list (pgate Ang)) nq c, build Ang T gs nq = Ok c -> Forall (fun g => gate_okb Ang g = true) gs.
Proof. exact build_okb. Qed.
Print Assumptions C09_built_gates_valid.

(* side conditions of the pass theorems on the tables regenerated from gate.py / circuit.py: only
   rotation names are merged; CRX CRY CRZ are compared modulo the long period; the moduli and the
   inverse parameters of S and T have the values the theorems are stated for.  The second conjunct
   FAILS for the original source (all names compared modulo 2*pi): the defect repaired by a fix: commit. *)
Theorem C09_pass_tables_ok :
  merge_tables_ok gtables = true /\ eq_tables_ok gtables = true /\ pass_tables_ok gtables = true
  /\ eq_modulus_units = 16%Z /\ eq_modulus_long_units = 32%Z /\ inv_S_units = (-4)%Z /\ inv_T_units = (-2)%Z.
Proof. vm_compute. repeat split. Qed.
Print Assumptions C09_pass_tables_ok.

(* 12. merge_rotations (model of the function over the regenerated tables) preserves the operation
       EXACTLY: for every list of valid interpretable gates, EVERY real angle, any number of controls,
       and whatever the float comparison of Gate.__eq__ answers (eqmod is universally quantified), the
       gates returned denote the same operation on every state. *)
Theorem C09_merge_rotations_sound :
  forall (eqmod : bool -> R -> R -> bool) (gs out : list (pgate R)) C,
    Forall (fun g => gate_okb R g = true) gs -> rinterp_all gs = Some C ->
    merge_core R Rplus eqmod gtables gs = Ok out ->
    Forall (fun g => gate_okb R g = true) out
    /\ exists C', rinterp_all out = Some C' /\ forall psi, den RS C' psi = den RS C psi.
Proof.
  intros eqmod gs out C Hok HC H.
  exact (merge_rotations_sound RS R (fun a => a) Rplus eqmod gtables (fun a b => eq_refl) gs out C
                               (proj1 C09_pass_tables_ok) Hok HC H).
Qed.
Print Assumptions C09_merge_rotations_sound.

Theorem C09_merge_rotations_fn_sound :
  forall (eqmod : bool -> R -> R -> bool) (c c' : circ R) C,
    Forall (fun g => gate_okb R g = true) (cgates R c) -> rinterp_all (cgates R c) = Some C ->
    merge_rotations_fn R Rplus eqmod gtables c = Ok c' ->
    Forall (fun g => gate_okb R g = true) (cgates R c')
    /\ exists C', rinterp_all (cgates R c') = Some C' /\ forall psi, den RS C' psi = den RS C psi.
Proof.
  intros eqmod c c' C Hok HC H.
  exact (merge_rotations_fn_sound RS R (fun a => a) Rplus eqmod gtables (fun a b => eq_refl) c c' C
                                  (proj1 C09_pass_tables_ok) Hok HC H).
Qed.
Print Assumptions C09_merge_rotations_fn_sound.

(* 13. Gate.__eq__ (model over the regenerated tables and moduli) on the exact grid k*pi/8: two gates
       that compare equal implement the same operation up to ONE global sign, and exactly the same
       operation when the gate has controls. *)
Theorem C09_gate_eq_sound :
  forall (g h : zgate) G H,
    gate_okb Z g = true ->
    gate_eq Z (zeqmod eq_modulus_units eq_modulus_long_units) gtables g h = true ->
    cy_interp g = Some G -> cy_interp h = Some H ->
    exists neg, (gctrl G <> [] -> neg = false)
                /\ forall psi, den_gate CycS G psi = sscale CycS (sgn neg) (den_gate CycS H psi).
Proof. exact (fun g h G H => gate_eq_sound gtables g h G H (proj1 (proj2 C09_pass_tables_ok))). Qed.
Print Assumptions C09_gate_eq_sound.

(* 14. remove_redundant_gates (model over the regenerated tables; Gate.inverse and Gate.__eq__ as
       regenerated) on the exact grid: for every list of valid interpretable gates, the gates kept
       denote the operation of the input up to ONE global sign. *)
Theorem C09_remove_redundant_sound :
  forall (gs out : list zgate) C,
    Forall (fun g => gate_okb Z g = true) gs -> cy_interp_all gs = Some C ->
    redundant_core Z Z.opp (zeqmod eq_modulus_units eq_modulus_long_units) inv_S_units inv_T_units gtables gs = Ok out ->
    Forall (fun g => gate_okb Z g = true) out
    /\ exists C' neg, cy_interp_all out = Some C'
                      /\ forall psi, den CycS C psi = sscale CycS (sgn neg) (den CycS C' psi).
Proof.
  intros gs out C.
  exact (remove_redundant_sound gtables inv_S_units inv_T_units eq_refl eq_refl gs out C
                                (proj1 (proj2 C09_pass_tables_ok))).
Qed.
Print Assumptions C09_remove_redundant_sound.

(* 14b. ... and EXACTLY (no sign), for every real angle, when the cancelled pairs are exact inverses:
        for any comparison of parameters that only accepts equal angles (eqmod universally quantified
        under that hypothesis), the gates kept by remove_redundant_gates denote the same operation. *)
Theorem C09_remove_redundant_exact :
  forall (eqmod : bool -> R -> R -> bool),
    (forall l a b, eqmod l a b = true -> a = b) ->
    forall (gs out : list (pgate R)) C,
      Forall (fun g => gate_okb R g = true) gs -> rinterp_all gs = Some C ->
      redundant_core R Ropp eqmod (of_units inv_S_units) (of_units inv_T_units) gtables gs = Ok out ->
      Forall (fun g => gate_okb R g = true) out
      /\ exists C', rinterp_all out = Some C' /\ forall psi, den RS C' psi = den RS C psi.
Proof.
  intros eqmod Hex.
  exact (remove_redundant_exact RS R (fun a => a) Ropp eqmod (of_units inv_S_units) (of_units inv_T_units) gtables
                                (fun a => eq_refl) of_units_m4 of_units_m2 Hex).
Qed.
Print Assumptions C09_remove_redundant_exact.

(* 15. simplify (copy, then cycles of merge_rotations / remove_small_rotations / remove_redundant_gates
       until nothing changes or max_cycles is reached), on the exact grid: for every valid circuit,
       every cycle bound and both values of remove_qubits, the result denotes the operation of the
       input up to ONE global sign. *)
Theorem C09_simplify_sound :
  forall (c : zcirc) (max_cycles : nat) (remove_qubits : bool) (c' : zcirc) C,
    Forall (fun g => gate_okb Z g = true) (cgates Z c) -> cy_interp_all (cgates Z c) = Some C ->
    simplify Z Z.add Z.opp (zsmall small_modulus_units small_modulus_long_units)
             (zeqmod eq_modulus_units eq_modulus_long_units) inv_S_units inv_T_units gtables c max_cycles remove_qubits = Ok c' ->
    Forall (fun g => gate_okb Z g = true) (cgates Z c')
    /\ exists C' neg, cy_interp_all (cgates Z c') = Some C'
                      /\ forall psi, den CycS C psi = sscale CycS (sgn neg) (den CycS C' psi).
Proof.
  exact (simplify_sound gtables inv_S_units inv_T_units eq_refl eq_refl
                        (proj1 (proj2 (proj2 C09_pass_tables_ok)))).
Qed.
Print Assumptions C09_simplify_sound.

(* ---- witnesses (exact, cyclotomic instance, regenerated tables) ---- *)
(* the repaired source keeps CRZ(2*pi) and drops CRZ(4*pi) and RZ(2*pi) *)
Example C09_remove_small_keeps_ctrl_2pi :
  exists c c', build Z gtables [G "H" [1%Z] None PNone false; G "CRZ" [0%Z] (Some [1%Z]) (PNum 16%Z) false;
                                G "CRZ" [0%Z] (Some [1%Z]) (PNum 32%Z) false; G "RZ" [0%Z] None (PNum 16%Z) false] None = Ok c
    /\ remove_small_rotations Z (zsmall small_modulus_units small_modulus_long_units) gtables c false = Ok c'
    /\ map (fun g => show_gate g) (cgates Z c') = ["H(1;N;_;F)"; "CRZ(0;1;16;F)"].
Proof. do 2 eexists. vm_compute. repeat split. Qed.

(* Gate.__eq__ (repaired): CRX(0) <> CRX(2*pi), CRX(0) == CRX(4*pi), RX(0) == RX(2*pi) *)
Example C09_gate_eq_periods :
  gate_eq Z (zeqmod eq_modulus_units eq_modulus_long_units) gtables
          (G "CRX" [0%Z] (Some [1%Z]) (PNum 0%Z) false) (G "CRX" [0%Z] (Some [1%Z]) (PNum 16%Z) false) = false
  /\ gate_eq Z (zeqmod eq_modulus_units eq_modulus_long_units) gtables
          (G "CRX" [0%Z] (Some [1%Z]) (PNum 0%Z) false) (G "CRX" [0%Z] (Some [1%Z]) (PNum 32%Z) false) = true
  /\ gate_eq Z (zeqmod eq_modulus_units eq_modulus_long_units) gtables
          (G "RX" [0%Z] None (PNum 0%Z) false) (G "RX" [0%Z] None (PNum 16%Z) false) = true.
Proof. vm_compute. repeat split. Qed.

(* the exact comparison used by the correspondence confirms the semantics of the witnesses:
   CRZ(2*pi) after H on its control is NOT the identity up to phase; CRZ(4*pi) is *)
Example C09_ctrl_2pi_not_identity :
  compare_circuits 2 [G "H" [1%Z] None PNone false; G "CRZ" [0%Z] (Some [1%Z]) (PNum 16%Z) false]
                     [G "H" [1%Z] None PNone false] = "N"
  /\ compare_circuits 2 [G "H" [1%Z] None PNone false; G "CRZ" [0%Z] (Some [1%Z]) (PNum 32%Z) false]
                        [G "H" [1%Z] None PNone false] = "E".
Proof. vm_compute. repeat split. Qed.

(* non-vacuity of theorem 1: a concrete circuit with controls, S, T and real angles *)
Example C09_inverse_nonvacuous :
  exists c c', build R gtables [PGate "H" [0%Z] None PNone false; PGate "S" [1%Z] None PNone false;
                                PGate "CRX" [1%Z] (Some [0%Z; 2%Z]) (PNum (PI / 3)%R) true;
                                PGate "XX" [0%Z; 2%Z] None (PNum 1%R) false] None = Ok c
               /\ rinverse c = Ok c' /\ length (cgates R c') = 4.
Proof.
  (* real-number constants must stay folded: cbv with the arithmetic of R kept opaque *)
  do 2 eexists. split; [cbv - [Ropp Rmult Rdiv Rinv Rplus Rminus IZR PI of_units]; reflexivity|].
  split; [cbv - [Ropp Rmult Rdiv Rinv Rplus Rminus IZR PI of_units]; reflexivity | reflexivity].
Qed.

(* non-vacuity of 12-15: a valid interpretable circuit on which every pass acts: the two RZ on qubit 1
   merge across the gates on qubit 0 and 2; RX(3*pi/8) RX(13*pi/8) cancel (the inverse of the first
   equals the second modulo 2*pi) although their product is RX(2*pi) = -1: the sign of theorem 14 is
   needed ("P": equal up to a global phase, not "E"); H H cancel exactly. *)
Definition ex_pass : list zgate :=
  [G "RZ" [1%Z] None (PNum 3%Z) false; G "H" [0%Z] None PNone false; G "CNOT" [2%Z] (Some [0%Z]) PNone false;
   G "RZ" [1%Z] None (PNum 5%Z) true; G "RX" [3%Z] None (PNum 3%Z) false; G "RX" [3%Z] None (PNum 13%Z) false;
   G "H" [2%Z] None PNone false; G "H" [2%Z] None PNone false].
Example C09_passes_nonvacuous :
  forallb (gate_okb Z) ex_pass = true
  /\ (match cy_interp_all ex_pass with Some _ => true | None => false end) = true
  /\ option_map show_gates
       (match merge_core Z Z.add (zeqmod eq_modulus_units eq_modulus_long_units) gtables ex_pass with Ok l => Some l | Err _ => None end)
     = Some "RZ(1;N;8;T) H(0;N;_;F) CNOT(2;0;_;F) RX(3;N;16;F) H(2;N;_;F) H(2;N;_;F)"
  /\ option_map show_gates
       (match redundant_core Z Z.opp (zeqmod eq_modulus_units eq_modulus_long_units) inv_S_units inv_T_units gtables ex_pass with Ok l => Some l | Err _ => None end)
     = Some "RZ(1;N;3;F) H(0;N;_;F) CNOT(2;0;_;F) RZ(1;N;5;T)"
  /\ compare_circuits 4 ex_pass [G "RZ" [1%Z] None (PNum 8%Z) true; G "H" [0%Z] None PNone false; G "CNOT" [2%Z] (Some [0%Z]) PNone false] = "P".
Proof. vm_compute. repeat split. Qed.

(* ================================================================================================== *)
(* Index operations: trim_qubits, reindex_qubits, split, stack.                                        *)
(* "The action equals that of the original on the corresponding qubits" is stated in two forms, for a  *)
(* renaming f of qubit indices with bit (pull y) q = bit y (f q):                                      *)
(*   pull-back   den (rename f c) (psi o pull) = (den c psi) o pull                                    *)
(*   frame       for EVERY state phi:  den (rename f c) phi y = den c (x |-> phi (emb x y)) (pull y)   *)
(*               (emb x y: the bits of x placed on the qubits f q, all other bits taken from y), i.e.  *)
(*               the renamed circuit does to the qubits f q what c does to q and nothing to the rest.  *)
(* ================================================================================================== *)

(* 16. Renaming qubits, abstract form: any f, any pull with the bit specification, f injective against
       the qubits of the gates; every base gate, any number of controls. *)
Theorem C09_rename_pullback :
  forall (f pull : N -> N) (c : circuit RS) (psi : state RS),
    (forall y q, N.testbit (pull y) q = N.testbit y (f q)) ->
    Forall (fun g => forall r q, In q (State.gate_qubits RS g) -> f r = f q -> r = q) c ->
    den RS (rename RS f c) (pullback RS pull psi) = pullback RS pull (den RS c psi).
Proof. intros f pull c psi H. exact (den_rename RS f pull H c psi). Qed.
Print Assumptions C09_rename_pullback.

(* 17. The maps the code uses: a finite association list m with pairwise distinct keys and values
       (relabel_ok) defines a total INJECTIVE map relabel_f m (keys to their values, every other index
       above all values) with computable partial inverse, pull and emb meeting their bit specifications:
       the hypotheses of 16 are satisfiable for every such m (no vacuity). *)
Theorem C09_relabel_map_ok :
  forall m, relabel_ok m ->
    (forall r q, relabel_f m r = relabel_f m q -> r = q)
    /\ (forall y q, relabel_inv m y = Some q <-> relabel_f m q = y)
    /\ (forall y q, N.testbit (relabel_pull m y) q = N.testbit y (relabel_f m q))
    /\ (forall x y0 r, N.testbit (relabel_emb m x y0) r
                       = match relabel_inv m r with Some q => N.testbit x q | None => N.testbit y0 r end).
Proof.
  intros m H. split; [exact (relabel_f_inj m H)|]. split; [exact (relabel_inv_spec m H)|].
  split; [exact (relabel_pull_spec m H) | exact (relabel_emb_spec m H)].
Qed.
Print Assumptions C09_relabel_map_ok.

Theorem C09_relabel_pullback :
  forall m (c : circuit RS) (psi : state RS), relabel_ok m ->
    den RS (rename RS (relabel_f m) c) (pullback RS (relabel_pull m) psi)
    = pullback RS (relabel_pull m) (den RS c psi).
Proof. exact (relabel_pullback RS). Qed.
Print Assumptions C09_relabel_pullback.

Theorem C09_relabel_frame :
  forall m (c : circuit RS) (phi : state RS) y, relabel_ok m ->
    den RS (rename RS (relabel_f m) c) phi y
    = den RS c (fun x => phi (relabel_emb m x y)) (relabel_pull m y).
Proof. exact (relabel_frame RS). Qed.
Print Assumptions C09_relabel_frame.

(* 18. Parts acting on disjoint qubits: EVERY interleaving (relative orders kept) of c1 and c2 denotes
       c1 then c2; k parts: every interleaving of pairwise qubit-disjoint parts denotes their composition
       in the listed order. *)
Theorem C09_interleaving_sound :
  forall (c c1 c2 : circuit RS), interleave c c1 c2 -> cross RS c1 c2 ->
    forall psi, den RS c psi = den RS (c1 ++ c2)%list psi.
Proof. exact (interleave_den RS). Qed.
Print Assumptions C09_interleaving_sound.

Theorem C09_k_interleaving_sound :
  forall (c : circuit RS) (parts : list (circuit RS)), kinterleave c parts -> pdisj RS parts ->
    forall psi, den RS c psi = den RS (List.concat parts) psi.
Proof. exact (kinterleave_den RS). Qed.
Print Assumptions C09_k_interleaving_sound.

(* 19. The index theorems are stated for circuits whose gates have non-negative indices and, for
       reindex_qubits, whose _qubit_indices are distinct and non-negative.  Every circuit accepted by
       the constructor satisfies this (and has every gate qubit in _qubit_indices). *)
Theorem C09_built_circuits_wf :
  forall T (gs : list (pgate R)) nq c, build R T gs nq = Ok c ->
    Forall (fun g => gate_okb R g = true) (cgates R c)
    /\ NoDup (cidx R c) /\ Forall (fun q => (0 <= q)%Z) (cidx R c) /\ covered R c.
Proof. exact (build_wf R). Qed.
Print Assumptions C09_built_circuits_wf.

Theorem C09_valid_gates_nonneg :
  forall (gs : list (pgate R)), Forall (fun g => gate_okb R g = true) gs -> nonneg_gates R gs.
Proof. exact (okb_nonneg_gates R). Qed.
Print Assumptions C09_valid_gates_nonneg.

(* ... and so does every circuit returned by trim_qubits and by reindex_qubits with non-negative new
   indices (split and stack return circuits made by the constructor), so the index theorems chain. *)
Theorem C09_index_ops_keep_wf :
  (forall (c c' : circ R), trim_qubits R c = Ok c' ->
     nonneg_gates R (cgates R c') /\ NoDup (cidx R c') /\ Forall (fun q => (0 <= q)%Z) (cidx R c') /\ covered R c')
  /\ (forall (c c' : circ R) new, reindex_qubits R c new = (c', Ok tt) -> Forall (fun q => (0 <= q)%Z) new ->
     nonneg_gates R (cgates R c') /\ NoDup (cidx R c') /\ Forall (fun q => (0 <= q)%Z) (cidx R c') /\ covered R c').
Proof. split; [exact (trim_wf R) | exact (reindex_wf R)]. Qed.
Print Assumptions C09_index_ops_keep_wf.

(* 20. trim_qubits (model of the method, every circuit, every real angle, any controls): the result is
       the original with its used qubits, in increasing order, renamed to 0, 1, 2, ...; the renaming is
       injective; pull-back and frame forms of "same action on the corresponding qubits". *)
Theorem C09_trim_sound :
  forall (c c' : circ R) C,
    nonneg_gates R (cgates R c) -> trim_qubits R c = Ok c' -> rinterp_all (cgates R c) = Some C ->
    let m := nmap (trim_map (cgates R c)) in
    relabel_ok m
    /\ rinterp_all (cgates R c') = Some (rename RS (relabel_f m) C)
    /\ (forall psi, den RS (rename RS (relabel_f m) C) (pullback RS (relabel_pull m) psi)
                    = pullback RS (relabel_pull m) (den RS C psi))
    /\ (forall phi y, den RS (rename RS (relabel_f m) C) phi y
                      = den RS C (fun x => phi (relabel_emb m x y)) (relabel_pull m y)).
Proof. exact (trim_sound RS R (fun a => a)). Qed.
Print Assumptions C09_trim_sound.

(* 21. reindex_qubits: for EVERY list of new indices the model accepts, the result is the original
       renamed by (sorted _qubit_indices |-> new indices).  The code does not check the new indices: when
       they are pairwise distinct and non-negative the renaming is injective and the action on the
       corresponding qubits is the original's; with a repeated index two qubits are merged and the
       operation is not preserved (C09_reindex_needs_distinct below). *)
Theorem C09_reindex_sound :
  forall (c c' : circ R) (new : list Z) C,
    nonneg_gates R (cgates R c) -> NoDup (cidx R c) -> Forall (fun q => (0 <= q)%Z) (cidx R c) ->
    reindex_qubits R c new = (c', Ok tt) -> rinterp_all (cgates R c) = Some C ->
    let m := nmap (combine (cidx R c) new) in
    rinterp_all (cgates R c') = Some (rename RS (relabel_f m) C)
    /\ (NoDup new -> Forall (fun q => (0 <= q)%Z) new ->
        relabel_ok m
        /\ (forall psi, den RS (rename RS (relabel_f m) C) (pullback RS (relabel_pull m) psi)
                        = pullback RS (relabel_pull m) (den RS C psi))
        /\ (forall phi y, den RS (rename RS (relabel_f m) C) phi y
                          = den RS C (fun x => phi (relabel_emb m x y)) (relabel_pull m y))).
Proof. exact (reindex_sound RS R (fun a => a)). Qed.
Print Assumptions C09_reindex_sound.

(* 22. get_entangled_indices (model): the sets returned are pairwise disjoint and every gate lies inside
       one of them. *)
Theorem C09_entangled_sets :
  forall (gs : list (pgate R)),
    pwd (entangled_indices R gs)
    /\ forall g, In g gs -> covers (entangled_indices R gs) (GateModel.gate_qubits g).
Proof. exact (entangled_spec R). Qed.
Print Assumptions C09_entangled_sets.

(* 23. split (model of the method, every interpretable circuit with non-negative indices): the gate list
       is an order-preserving interleaving of the parts returned, gates of different parts act on
       disjoint qubits, and the circuit denotes the composition of the parts; with trim_qubits=True each
       returned circuit is its part renamed by the part's own (injective) trim map, to which 17/20 apply. *)
Theorem C09_split_sound :
  forall (c : circ R) (trim : bool) (cs : list (circ R)) C,
    (forall g q, In g (cgates R c) -> In q (GateModel.gate_qubits g) -> (0 <= q)%Z) ->
    split_c R gtables c trim = Ok cs -> rinterp_all (cgates R c) = Some C ->
    exists Ps, kinterleave C Ps /\ pdisj RS Ps
      /\ (forall psi, den RS C psi = den RS (List.concat Ps) psi)
      /\ Forall2 (fun c' pP =>
                    rinterp_all (cgates R c')
                    = Some (if trim then rename RS (relabel_f (nmap (trim_map (fst pP)))) (snd pP) else snd pP)
                    /\ (trim = true -> relabel_ok (nmap (trim_map (fst pP)))))
                 cs (combine (split_parts (cgates R c)) Ps).
Proof. exact (split_sound RS R (fun a => a) gtables). Qed.
Print Assumptions C09_split_sound.

(* 24. stack (model of the function): the result is the concatenation of the parts, part i being the
       i-th circuit with its used qubits (sorted) renamed to off_i, off_i + 1, ...; the offsets are
       non-negative, every such renaming is injective (second theorem), and the renamed parts act on
       pairwise disjoint qubits (so each part keeps acting on its own block as the original does on its
       qubits: 17, and the order between parts is immaterial: 18). *)
Theorem C09_stack_sound :
  forall (cs : list (circ R)) (r : circ R) (Cs : list (circuit RS)),
    Forall (fun c => nonneg_gates R (cgates R c)) cs -> stack_c R gtables cs = Ok r ->
    Forall2 (fun c C => rinterp_all (cgates R c) = Some C) cs Cs ->
    exists offs, length offs = length cs /\ Forall (fun o => (0 <= o)%Z) offs
      /\ rinterp_all (cgates R r) = Some (List.concat (stack_parts RS R offs cs Cs))
      /\ pdisj RS (stack_parts RS R offs cs Cs).
Proof. exact (stack_interp RS R (fun a => a) gtables). Qed.
Print Assumptions C09_stack_sound.

Theorem C09_stack_maps_injective :
  forall (gs : list (pgate R)) (off : Z), (0 <= off)%Z -> nonneg_gates R gs -> relabel_ok (nmap (stack_map off gs)).
Proof. exact (stack_map_ok R). Qed.
Print Assumptions C09_stack_maps_injective.

(* ---- witnesses for 16-24 (exact instance, regenerated tables) ---- *)
(* a circuit with gaps and three unentangled groups {6}, {9,12}, {1,4}: every operation is accepted, the
   hypotheses of the theorems hold, the results are the expected ones *)
Definition ex_idx : list zgate :=
  [G "H" [1%Z] None PNone false; G "CNOT" [4%Z] (Some [1%Z]) PNone false; G "RY" [9%Z] None (PNum 3%Z) false;
   G "X" [6%Z] None PNone false; G "CRZ" [9%Z] (Some [12%Z]) (PNum 5%Z) true; G "RX" [1%Z] None (PNum 7%Z) false].
Definition show_res (r : res zcirc) : string := match r with Ok c => show_gates (cgates Z c) | Err _ => "ERR" end.
Definition show_ress (r : res (list zcirc)) : list string :=
  match r with Ok cs => map (fun c => show_gates (cgates Z c)) cs | Err _ => ["ERR"] end.
Definition reindexed (c : zcirc) (new : list Z) : res zcirc :=
  match reindex_qubits Z c new with (c', Ok _) => Ok c' | (_, Err e) => Err e end.

Example C09_index_ops_nonvacuous :
  exists c, build Z gtables ex_idx None = Ok c
    /\ forallb (gate_okb Z) ex_idx = true
    /\ (match cy_interp_all ex_idx with Some _ => true | None => false end) = true
    /\ cidx Z c = [1; 4; 6; 9; 12]%Z
    /\ trim_map ex_idx = [(1, 0); (4, 1); (6, 2); (9, 3); (12, 4)]%Z
    /\ relabel_okb (nmap (trim_map ex_idx)) = true
    /\ show_res (trim_qubits Z c) = "H(0;N;_;F) CNOT(1;0;_;F) RY(3;N;3;F) X(2;N;_;F) CRZ(3;4;5;T) RX(0;N;7;F)"
    /\ show_res (reindexed c [7; 0; 3; 2; 5]%Z) = "H(7;N;_;F) CNOT(0;7;_;F) RY(2;N;3;F) X(3;N;_;F) CRZ(2;5;5;T) RX(7;N;7;F)"
    /\ entangled_indices Z ex_idx = [[6]; [9; 12]; [1; 4]]%Z
    /\ show_ress (split_c Z gtables c false) = ["X(6;N;_;F)"; "RY(9;N;3;F) CRZ(9;12;5;T)"; "H(1;N;_;F) CNOT(4;1;_;F) RX(1;N;7;F)"]
    /\ show_ress (split_c Z gtables c true) = ["X(0;N;_;F)"; "RY(0;N;3;F) CRZ(0;1;5;T)"; "H(0;N;_;F) CNOT(1;0;_;F) RX(0;N;7;F)"]
    /\ show_res (do cs <- split_c Z gtables c true; stack_c Z gtables cs)
       = "X(0;N;_;F) RY(1;N;3;F) CRZ(1;2;5;T) H(3;N;_;F) CNOT(4;3;_;F) RX(3;N;7;F)".
Proof. eexists. split; [vm_compute; reflexivity|]. vm_compute. repeat split. Qed.

(* a small instance (qubits 2, 5, 7; groups {7}, {2,5}): split-then-stack is the original with its qubits
   renamed (2,5,7) -> (1,2,0) and the gates of different groups reordered; run exactly (Q(zeta_32)) from
   |000> both give the same state.  (Only one column is compared here to keep the independent
   checker coqchk, which has no VM, within its memory limit; full unitaries are compared by the oracle.) *)
Definition ex_idx3 : list zgate :=
  [G "H" [5%Z] None PNone false; G "CNOT" [2%Z] (Some [5%Z]) PNone false; G "RY" [7%Z] None (PNum 3%Z) false;
   G "RX" [5%Z] None (PNum 7%Z) false].
Definition same_from_zero (n : nat) (g1 g2 : list zgate) : bool :=
  match cy_interp_all g1, cy_interp_all g2 with
  | Some a, Some b => cyc_list_eqb (run0 CycS n a) (run0 CycS n b)
  | _, _ => false
  end.
Example C09_split_stack_small :
  exists c, build Z gtables ex_idx3 None = Ok c
    /\ show_ress (split_c Z gtables c true) = ["RY(0;N;3;F)"; "H(1;N;_;F) CNOT(0;1;_;F) RX(1;N;7;F)"]
    /\ show_res (do cs <- split_c Z gtables c true; stack_c Z gtables cs) = "RY(0;N;3;F) H(2;N;_;F) CNOT(1;2;_;F) RX(2;N;7;F)"
    /\ show_res (reindexed c [1; 2; 0]%Z) = "H(2;N;_;F) CNOT(1;2;_;F) RY(0;N;3;F) RX(2;N;7;F)"
    /\ same_from_zero 3 (match reindexed c [1; 2; 0]%Z with Ok c' => cgates Z c' | Err _ => [] end)
                        (match (do cs <- split_c Z gtables c true; stack_c Z gtables cs) with Ok c' => cgates Z c' | Err _ => [] end) = true.
Proof. eexists. split; [vm_compute; reflexivity|]. vm_compute. repeat split. Qed.

(* reindex_qubits does not validate the new indices: a repeated index merges two qubits (here CNOT gets
   target = control) and the operation changes — the hypothesis NoDup new of theorem 21 is necessary *)
Example C09_reindex_needs_distinct :
  exists c c', build Z gtables [G "H" [0%Z] None PNone false; G "CNOT" [1%Z] (Some [0%Z]) PNone false] None = Ok c
    /\ reindex_qubits Z c [0; 0]%Z = (c', Ok tt)
    /\ show_gates (cgates Z c') = "H(0;N;_;F) CNOT(0;0;_;F)"
    /\ compare_circuits 2 (cgates Z c) (cgates Z c') = "N".
Proof.
  do 2 eexists. split; [vm_compute; reflexivity|]. split; [vm_compute; reflexivity|].
  vm_compute. repeat split.
Qed.
