(* C17, as-is variant: a controlled kind built without controls (Gate("CNOT", 1): accepted by
   Gate.__init__) is written with "controls": null and read back as the uncontrolled gate.
   Compiled only while the implementation still shows C17/ionq/CNOT-without-control-read-as-X. *)
From Coq Require Import String ZArith List Bool.
From Tangelo Require Import Linq.GateModel Linq.CircuitModel Linq.Formats Linq.FormatsProofs Linq.LinqZ Linq.FormatsZ.
From Gen Require Import GateTables FormatTables.
Import ListNotations.
Open Scope string_scope.
Notation zeq := (zeqmod eq_modulus_units eq_modulus_long_units).
(* a well-formed source circuit: valid gates, width covering them, all kinds accepted by the writer,
   nothing variational *)
Definition src_ok (accepts : string -> bool) (c : fcirc Z) : Prop :=
  circ_ok Z gtables c /\ Forall (fun g : zgate => accepts (pname g) = true) (fgates c)
  /\ Forall (fun g : zgate => pvar g = false) (fgates c).
Ltac src_ok_tac := unfold src_ok, circ_ok; repeat split; try (vm_compute; discriminate); repeat (constructor; try (vm_compute; reflexivity)).

Theorem C17_ionq_silently_alters_missing_control :
  exists c j c', src_ok (iq_accepts ionq_tbl) c
                 /\ iq_write Z ionq_tbl c = Ok j /\ iq_read Z gtables ionq_tbl j = Ok c'
                 /\ circ_eq Z zeq gtables c c' = false /\ map pname (fgates c') = ["X"].
Proof.
  exists (FCirc [G "CNOT" [1%Z] None PNone false] 2%Z),
         (IJson 2%Z [IRec "x" None (Some [1%Z]) None None None]),
         (FCirc [G "X" [1%Z] None PNone false] 2%Z).
  split; [src_ok_tac|]. vm_compute. repeat split.
Qed.
Print Assumptions C17_ionq_silently_alters_missing_control.
