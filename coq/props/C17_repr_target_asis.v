(* C17, as-is variant: a custom gate with no target is printed without its target and cannot be re-created.
   Compiled only while the implementation still shows C17/repr/empty-target-omitted. *)
From Coq Require Import String ZArith List Bool.
From Tangelo Require Import Linq.GateModel Linq.CircuitModel Linq.Formats Linq.FormatsProofs Linq.LinqZ Linq.FormatsZ.
From Gen Require Import GateTables FormatTables.
Import ListNotations.
Open Scope string_scope.
Notation zeq := (zeqmod eq_modulus_units eq_modulus_long_units).
(* a well-formed source circuit: valid gates, width covering them, all kinds accepted by the writer,
   nothing variational *)
Definition src_ok (accepts : string -> bool) (c : fcirc Z) : Prop :=
  circ_ok Z gtables c /\ Forall (fun g : zgate => accepts (pname g) = true) (fgates c)
  /\ Forall (fun g : zgate => pvar g = false) (fgates c).
Ltac src_ok_tac := unfold src_ok, circ_ok; repeat split; try (vm_compute; discriminate); repeat (constructor; try (vm_compute; reflexivity)).
Theorem C17_repr_refuted_empty_target :
  exists g : zgate, gate_valid Z gtables g
                    /\ repr_eval Z gtables (gate_repr Z repr_tbl g) = Err TypeError.
Proof. exists (G "FOO" [] None PNone false). vm_compute. split; reflexivity. Qed.
Print Assumptions C17_repr_refuted_empty_target.
