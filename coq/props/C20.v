(* C20 — Fourier transform, state initialisation and phase estimation are exact.
   Property theorems only (closed by exact/apply of lemmas from coq/theories/Chem), each followed by
   Print Assumptions.  Statements "for all real angles / amplitudes" use the instance CRealS (K = R*R, A = R)
   with the angle family rhp k = PI / 2^k.  Tables regenerated from the source: Gen.QftTables
   (ansatz_utils.py), Gen.GateTables (gate.py). *)
From Coq Require Import String ZArith NArith List Bool Reals.
From Tangelo Require Import Num.KStruct.
From Tangelo Require Import Num.CReal.
From Tangelo Require Import Num.Cyc.
From Tangelo Require Import QSem.State.
From Tangelo Require Import QSem.StateLemmas.
From Tangelo Require Import QSem.CircuitLemmas.
From Tangelo Require Import Linq.GateModel.
From Tangelo Require Import Linq.Interp.
From Tangelo Require Import Linq.LinqZ.
From Tangelo Require Import Chem.Qft.
From Tangelo Require Import Chem.QftProofs.
From Tangelo Require Import Chem.QftReal.
From Tangelo Require Import Chem.QftRun.
From Tangelo Require Import QSem.MeasureProofs.
From Tangelo Require Import Chem.Qpe.
From Tangelo Require Import Chem.QpeProofs.
From Tangelo Require Import Chem.StateInit.
From Tangelo Require Import Chem.StateInitProofs.
From Gen Require Import QftTables GateTables.
Import ListNotations.
Open Scope string_scope.

Notation RS := CRealS.

(* ---------------------------------------------------------------------------------------------
   0. The hand-written model uses the gate names, the sign of the inverse prefactor and the default
      of `swap` that the source has now (regenerated constants). *)
Theorem C20_model_matches_source :
  pname (gH 0) = src_h_name /\ pname (gCPHASE false 0 1 1) = src_cp_name /\ pname (gSWAP 0 1) = src_swap_name
  /\ src_inverse_neg = true /\ src_default_swap = true.
Proof. repeat split. Qed.
Print Assumptions C20_model_matches_source.

(* ---------------------------------------------------------------------------------------------
   1. get_qft_circuit implements the discrete Fourier transform, for EVERY accepted argument (an int or
      any list of distinct non-negative qubit indices: any length, any order, anywhere in a wider
      register), default swap=True.  For a state psi whose listed qubits hold the basis value x (and any
      state on the other qubits):   <z|QFT psi> = 2^{-n/2} w_n^{X Z} psi(z with the listed bits := x's),
      X = val qs x, Z = val qs z  read with the FIRST LISTED QUBIT LEAST SIGNIFICANT,  w_n = e^{2 pi i/2^n}. *)
Theorem C20_qft_is_dft :
  forall (a : qubits_arg) (gs : list qgate),
    qft_circuit a false true = Ok gs ->
    exists C, interp_all RS qang (ang_of RS rhp) gs = Some C /\
      let qs := map zn (qubit_list a) in
      forall (psi : state RS) x, supp RS qs x psi -> forall z,
        den RS C psi z = kmul (kmul (kpow RS krs2 (length qs)) (kpow RS (w RS rhp (length qs)) (val qs x * val qs z)))
                              (psi (put qs x z)).
Proof. exact (qft_model_dft RS rhp rhp_0 rhp_S). Qed.
Print Assumptions C20_qft_is_dft.

(* the same on the semantic circuit, and the swap=False variant (output register read in reversed order) *)
Theorem C20_qft_is_dft_sem :
  forall (qs : list N), NoDup qs -> forall (psi : state RS) x, supp RS qs x psi -> forall z,
    den RS (s_qft RS rhp qs false true) psi z
    = kmul (kmul (kpow RS krs2 (length qs)) (kpow RS (w RS rhp (length qs)) (val qs x * val qs z))) (psi (put qs x z)).
Proof. exact (qft_dft RS rhp rhp_0 rhp_S). Qed.
Print Assumptions C20_qft_is_dft_sem.

Theorem C20_qft_noswap_is_reversed_dft :
  forall (qs : list N), NoDup qs -> forall (psi : state RS) x, supp RS qs x psi -> forall z,
    den RS (s_qft RS rhp qs false false) psi z
    = kmul (kmul (kpow RS krs2 (length qs)) (kpow RS (w RS rhp (length qs)) (val qs x * val (rev qs) z))) (psi (put qs x z)).
Proof. exact (qft_noswap_dft RS rhp rhp_0 rhp_S). Qed.
Print Assumptions C20_qft_noswap_is_reversed_dft.

(* w_n is what the statement says it is: w_0 = 1, w_1 = -1, w_(k+1)^2 = w_k, w_n^(2^n) = 1 *)
Theorem C20_roots_of_unity :
  w RS rhp 0 = k1 /\ w RS rhp 1 = kopp k1 /\ (forall k, kmul (w RS rhp (S k)) (w RS rhp (S k)) = w RS rhp k)
  /\ forall n, kpow RS (w RS rhp n) (2 ^ n) = k1.
Proof.
  split; [reflexivity|]. split; [exact (w_1 RS rhp rhp_0)|]. split; [exact (w_sq RS rhp rhp_0 rhp_S)|].
  exact (kpow_w_full RS rhp rhp_0 rhp_S).
Qed.
Print Assumptions C20_roots_of_unity.

(* ---------------------------------------------------------------------------------------------
   2. inverse=True gives the inverse: for every accepted argument and both swap settings the two gate
      lists denote mutually inverse operations on every state (= the adjoint, the gates being unitary). *)
Theorem C20_qft_inverse :
  forall (a : qubits_arg) (swap : bool) (gf gi : list qgate),
    qft_circuit a false swap = Ok gf -> qft_circuit a true swap = Ok gi ->
    exists F I, interp_all RS qang (ang_of RS rhp) gf = Some F /\ interp_all RS qang (ang_of RS rhp) gi = Some I
                /\ (forall psi, den RS I (den RS F psi) = psi) /\ (forall psi, den RS F (den RS I psi) = psi).
Proof. exact (qft_model_inverse RS rhp). Qed.
Print Assumptions C20_qft_inverse.

(* the inverse=True list is the list Circuit.inverse computes from the forward list (reverse, Gate.inverse on
   each gate with the regenerated table of invertible gates), except that the swap layer is not reversed *)
Theorem C20_qft_inverse_list :
  forall qs swap,
    mapM (qinverse gtables) (rev (qft_gates qs false swap))
    = Ok ((if swap then rev (swap_registers qs) else []) ++ rev (qft_rotations true qs))%list
    /\ qft_gates qs true swap = ((if swap then swap_registers qs else []) ++ rev (qft_rotations true qs))%list.
Proof. apply qft_inverse_list; reflexivity. Qed.
Print Assumptions C20_qft_inverse_list.

(* ---------------------------------------------------------------------------------------------
   3. Phase kick-back (pointwise): U does not touch the qubits cs and is homogeneous, U u = lam u; then a
      U controlled on c in cs, applied to (function g of the cs-qubits) * u, multiplies the |1> branch of
      the control by lam.  All real/complex amplitudes. *)
Theorem C20_kickback :
  forall (U : state RS -> state RS) (cs : list N) (c : N) (lam : K RS) (u : state RS) (g : N -> K RS),
    local_off RS cs U -> linear RS U -> (forall z, U u z = kmul lam (u z)) -> only_on RS cs g -> In c cs ->
    forall z, ctrl RS [c] U (fun y => kmul (g y) (u y)) z = kmul (if bit z c then lam else k1) (kmul (g z) (u z)).
Proof. exact (kickback RS). Qed.
Print Assumptions C20_kickback.

(* 4. CircuitUnitary.add_controls, method "all": for EVERY circuit whose gates are valid (control list only on
      "C" names) and whose controlled version is made of gates the semantics knows, the result denotes the
      controlled circuit: den C' = ctrl cl (den C).  Any number of added controls, any angles. *)
Theorem C20_add_controls_den :
  forall (cl : list Z) (gs gs' : list (pgate R)) C C',
    Forall (ctrl_named R) gs ->
    add_controls cl gs = Ok gs' ->
    interp_all RS R (fun a : R => a) gs = Some C -> interp_all RS R (fun a : R => a) gs' = Some C' ->
    Forall (base_off RS (map zn cl)) C ->
    forall psi, den RS C' psi = ctrl RS (map zn cl) (den RS C) psi.
Proof. exact (add_controls_controlled RS R (fun a => a)). Qed.
Print Assumptions C20_add_controls_den.

Theorem C20_add_controls_den_sem :
  forall (c : circuit RS) (cl : list N),
    Forall (base_off RS cl) c -> forall psi, den RS (map (s_add_ctrl RS cl) c) psi = ctrl RS cl (den RS c) psi.
Proof. exact (add_controls_den RS). Qed.
Print Assumptions C20_add_controls_den_sem.

(* 5. Phase estimation is exact (abstract level, every register size n = length qs and every m):
      register qs (distinct qubits; the i-th listed qubit controls the i-th operation, as in QPESolver.build),
      system state u not involving the register, the i-th operation U_i leaves the register alone, is
      homogeneous and has U_i u = lam^(2^i) u with lam = w_n^m = e^{2 pi i m / 2^n}.  Then
          QFT ; controlled U_i ; inverse QFT   maps  |0..0>_qs (x) u   EXACTLY to  |m>_qs (x) u :
      every amplitude outside register value m vanishes — outcome m with probability 1. *)
Theorem C20_qpe_exact_phase :
  forall (qs : list N) (u : state RS) (Us : list (state RS -> state RS)) (m : nat) (x0 xm : N),
    NoDup qs -> indep RS qs u -> length Us = length qs ->
    all_eig RS qs u (kpow RS (w RS rhp (length qs)) m) Us 0 ->
    val qs x0 = 0%nat -> val qs xm = m ->
    qpe_run RS rhp qs Us (masked RS qs x0 u) = masked RS qs xm u.
Proof. exact (qpe_exact RS rhp rhp_0 rhp_S). Qed.
Print Assumptions C20_qpe_exact_phase.

(* the hypotheses of theorem 5 are satisfiable by a non-trivial object: register = qubit 1, system qubit 0 in
   |1>, U = Z (eigenvalue -1 = w_1^1), x0 = 0, xm = 2 (register value 1) *)
Example C20_qpe_nonvacuous :
  let u : state RS := fun z => if bit z 0 then k1 else k0 in
  let U : state RS -> state RS := den_gate RS (Gate (B1 GZ 0%N) []) in
  indep RS [1%N] u /\ all_eig RS [1%N] u (kpow RS (w RS rhp 1) 1) [U] 0 /\ u 1%N = k1
  /\ val [1%N] 2%N = 1%nat /\ val [1%N] 0%N = 0%nat.
Proof. exact (qpe_hyps_example RS rhp rhp_0). Qed.

(* the state after the controlled powers is the Fourier state of the phase *)
Theorem C20_controlled_powers_fourier_state :
  forall (qs : list N) (u : state RS) (lam : K RS) (qs' : list N) (Us : list (state RS -> state RS)) (i : nat) (g : N -> K RS),
    (forall q, In q qs' -> In q qs) -> length Us = length qs' -> all_eig RS qs u lam Us i -> only_on RS qs g ->
    forall z, cpowers RS qs' Us (fun y => kmul (g y) (u y)) z
              = kmul (kpow RS (kpow RS lam (2 ^ i)) (val qs' z)) (kmul (g z) (u z)).
Proof. exact (cpowers_kick RS). Qed.
Print Assumptions C20_controlled_powers_fourier_state.

(* 5b. Iterative phase estimation, the arithmetic of the feedback loop (IterativeQPEControl.return_gates), every
       round j and every m:  the eigenvalue of U^(2^(n-1-j)) is w_(j+1)^m, the correction PHASE(-pi*phase*2^(n-1-j))
       built from the digits measured so far has the entry conj(w_(j+1)^(m mod 2^j)); their product — the relative
       phase the ancilla sees — is (-1)^(digit j of m), so the final H leaves the ancilla in |digit j> exactly.
       PARTIAL: this is the number-level core only; the induction over the measurement/feedback loop on states
       (collapse, reset X, the ignored first measurement, bitstring reversal) is not modelled — those are covered
       by the oracle, which drives the real IterativeQPEControl. *)
Theorem C20_iqpe_bits_partial :
  forall j m : nat,
    kmul (kpow RS (w RS rhp (S j)) m) (kconj (kpow RS (w RS rhp (S j)) (m mod 2 ^ j)))
    = if Nat.odd (m / 2 ^ j) then kopp k1 else k1.
Proof. exact (iqpe_feedback_phase RS rhp rhp_0 rhp_S). Qed.
Print Assumptions C20_iqpe_bits_partial.

(* ---------------------------------------------------------------------------------------------
   6. State initialisation, the one-qubit step (all real moduli / arguments).  StateVector._bloch_angles
      computes theta = 2 arccos(|a|/r), phi = arg b - arg a, remains = r e^{i (arg a + arg b)/2}.
      PARTIAL in one respect only: theta enters through the two half-angle values that characterise
      2*arccos(|a|/r)  (cos(theta/2) = |a|/r, sin(theta/2) = |b|/r)  instead of the term `2 * acos (|a|/r)`,
      because Reals.Ratan.acos depends on Classical_Prop.classic, an axiom outside the allowed list.  For every
      such theta:   RY(-theta) RZ(-phi) (a, b)^T = (remains, 0). *)
Theorem C20_bloch_disentangle_partial :
  forall ma mb al be theta : R, (0 < ma * ma + mb * mb)%R -> is_bloch_theta ma mb theta ->
    mapply RS (disentangler RS theta (bloch_phi al be)) (polar ma al) (polar mb be)
    = (bloch_remains ma mb al be, C0).
Proof. exact bloch_disentangle. Qed.
Print Assumptions C20_bloch_disentangle_partial.

(* the hypothesis is satisfiable: a = b = 1/sqrt2 ... here the unnormalised pair (1, 0): theta = 0 *)
Example C20_bloch_theta_exists : is_bloch_theta 1 0 0.
Proof.
  unfold is_bloch_theta, bloch_r.
  replace (1 * 1 + 0 * 0)%R with 1%R by ring. rewrite sqrt_1.
  replace (0 / 2)%R with 0%R by (unfold Rdiv; ring). rewrite cos_0, sin_0. split; unfold Rdiv; rewrite Rinv_1; ring.
Qed.

(* ---------------------------------------------------------------------------------------------
   witnesses (exact, cyclotomic instance) *)
(* the model's circuits on concrete unordered lists are the DFT, amplitude by amplitude *)
Example C20_qft_exact_witness :
  model_check 3 [2; 0; 1]%Z false true = "E" /\ model_check 3 [2; 0; 1]%Z true true = "E"
  /\ model_check 3 [2; 0]%Z false false = "E" /\ model_check 3 [1; 2]%Z true false = "E".
Proof. vm_compute. repeat split. Qed.

(* the specification is not vacuous: the exact checker rejects a list with one wrong angle *)
Example C20_qft_checker_rejects :
  qft_check 2 [0; 1]%Z false true
    [G "H" [1%Z] None PNone false; G "CPHASE" [1%Z] (Some [0%Z]) (PNum 2%Z) false; G "H" [0%Z] None PNone false;
     G "SWAP" [0%Z; 1%Z] None PNone false] = "N"
  /\ qft_check 2 [0; 1]%Z false true
    [G "H" [1%Z] None PNone false; G "CPHASE" [1%Z] (Some [0%Z]) (PNum 4%Z) false; G "H" [0%Z] None PNone false;
     G "SWAP" [0%Z; 1%Z] None PNone false] = "E".
Proof. vm_compute. repeat split. Qed.

(* hypotheses of theorem 1 are satisfiable: an accepted unordered list inside a wider register *)
Example C20_qft_nonvacuous :
  exists gs, qft_circuit (QList [3; 0; 2]%Z) false true = Ok gs /\ length gs = 7.
Proof. eexists. split; reflexivity. Qed.
