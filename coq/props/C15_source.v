(* C15 — the statements of coq/props/C15.v that depend on HOW /repo currently writes two pieces of code, stated over
   the facts regenerated from the source on every run (Gen.DecompFacts, translator/decomp_facts.py):
     dmet_checks   the chain of raising index checks of DMETProblemDecomposition.__init__ (nested fragment_atoms)
     oniom_copies  whether distribute_atoms copies self.geometry for a selected_atoms=None fragment
     optimizer_checks_initial  whether _default_optimizer returns the initial chemical potential when |cost| < tol there
   Each proof is [exact (<lemma> <fact> eq_refl ...)]: it type-checks only if the regenerated chain contains the four
   tests / the copy is made.  On a tree where a check is missing or the list is aliased this file stops compiling
   (the as-is variants and their refutation witnesses stay in C15.v). *)
From Coq Require Import ZArith String Bool Arith Permutation List.
From Tangelo Require Import Chem.Decomp.
From Tangelo Require Import Chem.DecompProofs.
From Gen Require Import DecompFacts.
Import ListNotations.
Open Scope list_scope.

(* for all nested index lists / counts the constructor of the CURRENT source accepts: the new atom order is a
   permutation of 0..natm-1, it is the flattened id list itself, and the fragment sizes sum to natm *)
Theorem C15_source_dmet_reorder_is_permutation :
  forall natm fa nf sv op b,
    dmet_book_src dmet_checks natm fa nf sv op = Ok b ->
    Permutation (b_order b) (seq 0 natm) /\ zsum (b_counts b) = Z.of_nat natm
    /\ match fa with
       | FaCounts l => b_order b = seq 0 natm /\ b_counts b = l
       | FaNested l => b_order b = map Z.to_nat (concat l) /\ b_counts b = map (fun f => Z.of_nat (length f)) l
       end.
Proof. exact (dmet_src_permutation dmet_checks eq_refl). Qed.
Print Assumptions C15_source_dmet_reorder_is_permutation.

(* ONIOM pipeline with distribute_atoms as the CURRENT source writes it: identical levels telescope to the
   low-level energy of the geometry the user supplied, and the system geometry is never changed *)
Theorem C15_source_oniom_telescopes :
  forall (R : CRing) (E : level -> geometry R -> R) (sys : geometry R) pre post L e,
    Forall (same_level R) (pre ++ post) ->
    oniom_src oniom_copies E sys (pre ++ sys_fragment R L :: post) = Ok e -> e = E L sys.
Proof. exact (fun R E => oniom_src_telescopes R E oniom_copies eq_refl). Qed.
Print Assumptions C15_source_oniom_telescopes.

Theorem C15_source_distribute_atoms_unchanged :
  forall (R : CRing) (sys : geometry R) frs d,
    distribute_src oniom_copies sys frs = Ok d -> fst d = sys /\ length (snd d) = length frs.
Proof. exact (fun R => distribute_src_unchanged R oniom_copies eq_refl). Qed.
Print Assumptions C15_source_distribute_atoms_unchanged.

(* the default optimizer of the CURRENT source: when the fragment electron numbers already sum to the total (within tol)
   at the initial chemical potential, that value is returned for every behaviour of the external root search -- in
   particular for a cost that does not depend on the chemical potential (single fragment; empty baths), where the
   secant method raises.  (Last in this file: a tree without the guard stops here, the statements above still check.) *)
Theorem C15_source_dmet_optimizer_accepts_solved_start :
  forall (K : Type) (small : K -> bool) newton cost mu0,
    small (cost mu0) = true ->
    default_optimizer_src optimizer_checks_initial small newton cost mu0 = Ok mu0.
Proof. exact (fun K => optimizer_accepts_solved_start K optimizer_checks_initial eq_refl). Qed.
Print Assumptions C15_source_dmet_optimizer_accepts_solved_start.
