(* C18 — Measurement grouping and histogram processing conserve information.
   Property theorems only: each is closed by [exact <lemma>] and followed by Print Assumptions.
   Models: coq/theories/Post/{Histogram,Grouping}.v (tied to /repo by the correspondence run of
   harness/props/C18.py); proofs: Post/{HistogramProofs,GroupingProofs}.v; constants regenerated from
   histogram.py / post_selection.py / backend.py: Gen.PostTables.
   A histogram is the entry list of a Python dict (any number of entries, keys of any length, values
   any rationals: shot counts or probabilities); [hsum w h] is the sum of w(key)*value, so
   [total] (w = 1) is the number of shots / the normalisation and [mass p] the weight of an event.
   Statements of the form "forall w, hsum w (op h) = hsum (w o f) h" say that op is the push-forward
   of the histogram along f on keys: nothing is lost, created or moved to a wrong key. *)
From Coq Require Import String ZArith QArith Qcanon List Bool.
From Tangelo Require Import Num.Show Post.Histogram Post.Grouping Post.HistogramProofs Post.ApportionProofs Post.GroupingProofs Post.Packaging Post.Resample Post.ResampleProofs.
From Gen Require Import PostTables.
Import ListNotations.
Local Open Scope Qc_scope.

(* ------------------------------------------------------------------------------------------------
   1. Removing / marginalising qubits *)
Theorem C18_remove_indices_conserves :
  forall (R : list Z) (h : hist), total (remove_qubit_indices R h) = total h.
Proof. exact remove_indices_conserves. Qed.
Print Assumptions C18_remove_indices_conserves.

(* the result is the marginal: its value at k' is the total weight of the keys that reduce to k';
   equivalently every weighted sum is transported along key -> reduced key *)
Theorem C18_remove_indices_is_marginal :
  forall (R : list Z) (h : hist),
    (forall k', hget (remove_qubit_indices R h) k' = mass (fun k => key_eqb k' (remove_key R k)) h)
    /\ (forall w, hsum w (remove_qubit_indices R h) = hsum (fun k => w (remove_key R k)) h)
    /\ distinct_keys (remove_qubit_indices R h).
Proof. exact pk_remove_indices_is_marginal. Qed.
Print Assumptions C18_remove_indices_is_marginal.

(* ------------------------------------------------------------------------------------------------
   2. Aggregation (aggregate_histograms, +, +=) of histograms with non-negative values *)
Theorem C18_aggregate_conserves :
  forall (hs : list hist) (h : hist), Forall nonneg hs -> aggregate_histograms hs = Ok h ->
    total h = fold_right (fun h s => total h + s) 0 hs
    /\ forall w, hsum w h = sum_over w hs.
Proof. exact pk_aggregate_conserves. Qed.
Print Assumptions C18_aggregate_conserves.

(* ------------------------------------------------------------------------------------------------
   3. Post-selection: the surviving shots are exactly the matching ones; the frequency version
      renormalises by the selected mass *)
Theorem C18_post_select_keeps_selected :
  forall (exp : outcomes) (h h' : hist), hist_post_select exp h = Ok h' ->
    total h' = mass (selected exp) h
    /\ forall w, hsum w h' = hsum (fun k => if selected exp k then w (remove_key (map fst exp) k) else 0) h.
Proof. exact pk_post_select_keeps_selected. Qed.
Print Assumptions C18_post_select_keeps_selected.

Theorem C18_post_select_renormalises :
  forall (freqs : hist) (exp : outcomes) (eps : Qc) (f : hist), post_select_fn freqs exp eps = Ok f ->
    (f <> [] -> total f = 1)
    /\ forall w, hsum w f = hsum (fun k => if selected exp k then w (remove_key (map fst exp) k) else 0) freqs
                            / mass (selected exp) freqs.
Proof. exact pk_post_select_renormalises. Qed.
Print Assumptions C18_post_select_renormalises.

Theorem C18_frequencies_normalised :
  forall (h f : hist), frequencies h = Ok f -> h <> [] ->
    total f = 1 /\ forall w, hsum w f = hsum w h / total h.
Proof. exact pk_frequencies_normalised. Qed.
Print Assumptions C18_frequencies_normalised.

(* ------------------------------------------------------------------------------------------------
   4. Bit-order reversal (msq_first): key reversal of what msq_first=False gives; an involution;
      totals and values unchanged *)
Theorem C18_reverse_is_bijection :
  forall (o : hist) (n : Z) (eps : Qc),
    mk_histogram_with conversion_rule o n true eps
    = match mk_histogram_with conversion_rule o n false eps with Ok h => Ok (rev_keys h) | Err e => Err e end
    /\ (forall h, rev_keys (rev_keys h) = h)
    /\ (forall h w, hsum w (rev_keys h) = hsum (fun k => w (rev k)) h)
    /\ (forall h k, hget (rev_keys h) (rev k) = hget h k).
Proof. exact (pk_reverse_is_bijection conversion_rule). Qed.
Print Assumptions C18_reverse_is_bijection.

Theorem C18_reverse_twice :
  forall (o : hist) (eps : Qc), lengths_consistent o = true ->
    exists h, mk_histogram o 0 true eps = Ok h /\ mk_histogram h 0 true eps = Ok o /\ total h = total o.
Proof. exact reverse_twice. Qed.
Print Assumptions C18_reverse_twice.

(* ------------------------------------------------------------------------------------------------
   5. Splitting mid-circuit from final results *)
Theorem C18_split_conserves :
  forall (freqs : hist) (indices : list Z) (eps : Qc) (mid marg : hist) (n : nat),
    split_frequency_dict freqs indices None eps = Ok (mid, marg) -> n_qubits_of freqs = Ok n ->
    total mid = 1 /\ total marg = 1
    /\ (forall w, hsum w mid = hsum (fun k => w (remove_key (complement n indices) k)) freqs / total freqs)
    /\ (forall w, hsum w marg = hsum (fun k => w (remove_key indices k)) freqs / total freqs).
Proof. exact split_conserves. Qed.
Print Assumptions C18_split_conserves.

Theorem C18_split_desired_renormalises :
  forall (freqs : hist) (indices : list Z) (d : list bool) (eps : Qc) (mid marg : hist),
    split_frequency_dict freqs indices (Some d) eps = Ok (mid, marg) ->
    total mid = 1 /\ (marg <> [] -> total marg = 1).
Proof. exact split_desired_renormalises. Qed.
Print Assumptions C18_split_desired_renormalises.

Theorem C18_split_last_n_conserves :
  forall (freqs : hist) (n : Z),
    total (fst (split_last_n freqs n)) = total freqs /\ total (snd (split_last_n freqs n)) = total freqs
    /\ (forall w, hsum w (fst (split_last_n freqs n)) = hsum (fun k => w (firstn (slice_point (length k) n) k)) freqs)
    /\ (forall w, hsum w (snd (split_last_n freqs n)) = hsum (fun k => w (skipn (slice_point (length k) n) k)) freqs).
Proof. exact pk_split_last_n_conserves. Qed.
Print Assumptions C18_split_last_n_conserves.

(* ------------------------------------------------------------------------------------------------
   6. Marginalising qubits a term does not act on leaves its expectation value unchanged
      (t' = the term in the numbering of the remaining qubits) *)
Theorem C18_marginal_keeps_expectation :
  forall (R : list Z) (t t' : list nat) (h : hist) (n n' : nat),
    h <> [] -> uniform n h -> (forall q, In q t -> (q < n)%nat) ->
    renumbered R t t' -> (forall k, length k = n -> length (remove_key R k) = n') -> (forall q, In q t' -> (q < n')%nat) ->
    oneterm t' (remove_qubit_indices R h) = oneterm t h /\ oneterm t h = Ok (expect t h).
Proof. exact marginal_keeps_expectation. Qed.
Print Assumptions C18_marginal_keeps_expectation.

(* removing ancillas that come after every qubit of the term needs no renumbering *)
Theorem C18_trailing_ancillas_need_no_renumbering :
  forall (R : list Z) (t : list nat) (lo : nat),
    (forall x, In x t -> (x < lo)%nat) -> (forall r, In r R -> (Z.of_nat lo <= r)%Z) -> renumbered R t t.
Proof. exact trailing_renumbered. Qed.
Print Assumptions C18_trailing_ancillas_need_no_renumbering.

(* ------------------------------------------------------------------------------------------------
   7. Histogram(probabilities, n_shots).  [conversion_rule] is regenerated from Histogram.__init__: the
      repaired code (fix 944f963) floors every v*n_shots and hands the missing shots to the largest
      remainders, ties in key order.  The statements below are about the code's current rule; they do
      not type-check for the rule before the repair (see the as-is Examples further down). *)
Theorem C18_histogram_total :
  forall (o : hist) (n : Z) (msq : bool) (eps : Qc) (h : hist), (0 < n)%Z -> NoDup (keys o) ->
    mk_histogram_with conversion_rule o n msq eps = Ok h -> total h = Z2Qc (round_half_even (total o * Z2Qc n)).
Proof. exact histogram_total_full. Qed.
Print Assumptions C18_histogram_total.

(* normalised probabilities: the histogram holds exactly n_shots shots *)
Theorem C18_histogram_total_is_n_shots :
  forall (o : hist) (n : Z) (msq : bool) (eps : Qc) (h : hist), (0 < n)%Z -> NoDup (keys o) -> total o = 1 ->
    mk_histogram_with conversion_rule o n msq eps = Ok h -> total h = Z2Qc n.
Proof. exact histogram_total_is_n_shots. Qed.
Print Assumptions C18_histogram_total_is_n_shots.

(* same keys in the same order, every count within 1 of p*n_shots *)
Theorem C18_histogram_counts_within_one :
  forall (o : hist) (n : Z) (eps : Qc) (h : hist), (0 < n)%Z -> mk_histogram_with conversion_rule o n false eps = Ok h ->
    Forall2 (fun kv kc => fst kc = fst kv /\ snd kv * Z2Qc n - 1 < snd kc /\ snd kc <= snd kv * Z2Qc n + 1) o h.
Proof. exact histogram_within_one. Qed.
Print Assumptions C18_histogram_counts_within_one.

(* frequencies that are multiples of 1/n_shots: counts = p*n_shots exactly (as before the repair) *)
Theorem C18_histogram_exact_when_integral :
  forall (o : hist) (n : Z) (msq : bool) (eps : Qc) (h : hist), (0 < n)%Z -> integral_at n o ->
    mk_histogram_with conversion_rule o n msq eps = Ok h ->
    h = (if msq then rev_keys (scaled n o) else scaled n o) /\ total h = total o * Z2Qc n.
Proof. exact (histogram_exact_when_integral conversion_rule). Qed.
Print Assumptions C18_histogram_exact_when_integral.

(* the deterministic step of Histogram.resample: Histogram(h.frequencies, n_shots) is h again *)
Theorem C18_frequencies_roundtrip :
  forall (h : hist) (n : Z) (eps : Qc), (0 < n)%Z -> integer_counts h -> total h = Z2Qc n ->
    lengths_consistent h = true -> Qc_gtb 0 eps = false ->
    exists f, frequencies h = Ok f /\ mk_histogram_with conversion_rule f n false eps = Ok h.
Proof. exact (frequencies_roundtrip conversion_rule). Qed.
Print Assumptions C18_frequencies_roundtrip.

(* the chunk loop of get_resampled_frequencies (chunk size regenerated from bootstrapping.py): the sizes
   requested from the sampler add up to the requested number of samples, for EVERY number of samples
   (in particular exact multiples of the chunk size) — and for every positive chunk size *)
Theorem C18_resample_chunks_conserve :
  forall ncount : Z, (0 <= ncount)%Z -> zsum (chunk_sizes ncount resample_chunk_size) = ncount.
Proof. exact (fun ncount H => resample_chunks_sum ncount resample_chunk_size eq_refl H). Qed.
Print Assumptions C18_resample_chunks_conserve.

Theorem C18_resample_chunks_conserve_any_chunk :
  forall ncount chunk_size : Z, (0 < chunk_size)%Z -> (0 <= ncount)%Z ->
    zsum (chunk_sizes ncount chunk_size) = ncount /\ Forall (fun s => (0 <= s)%Z) (chunk_sizes ncount chunk_size).
Proof. exact (fun n c Hc Hn => conj (resample_chunks_sum n c Hc Hn) (resample_chunks_nonneg n c Hc)). Qed.
Print Assumptions C18_resample_chunks_conserve_any_chunk.

(* ------------------------------------------------------------------------------------------------
   8. Grouping: a grouping accepted by the checker contains each term of H exactly once with its
      coefficient, and for histograms of one state in each basis the assembled value is the
      term-by-term value *)
Theorem C18_qwc_partition_each_term_once :
  forall (H : qop) (g : grouping), is_qwc_partition H g = true ->
    length (all_terms g) = length H /\ (forall tc, In tc (all_terms g) <-> In tc H).
Proof. exact qwc_partition_each_term_once. Qed.
Print Assumptions C18_qwc_partition_each_term_once.

Theorem C18_qwc_partition_gives_termwise :
  forall (n : nat) (hist_of : term -> hist) (H : qop) (g : grouping),
    consistent hist_of -> (forall b, hist_ok n (hist_of b)) -> fits n H ->
    is_qwc_partition H g = true ->
    exp_value_from_measurement_bases g (map (fun bo => (fst bo, hist_of (fst bo))) g) = Ok (termwise H hist_of).
Proof. exact qwc_partition_gives_termwise. Qed.
Print Assumptions C18_qwc_partition_gives_termwise.

Theorem C18_openfermion_style_groups_are_diagonal :
  forall (t b : term), sub_term t b = true -> diag_in t b = true /\ check_bases_commute_qwc t b = true.
Proof. exact pk_openfermion_style_groups_are_diagonal. Qed.
Print Assumptions C18_openfermion_style_groups_are_diagonal.

(* ================================================================================================
   Examples: the hypotheses above are satisfiable by non-trivial objects *)
Definition ex_hist : hist := [(K "0110", Qf 5 1); (K "1110", Qf 3 1); (K "0011", Qf 2 1); (K "1001", Qf 7 1)].

(* marginalisation, totals, expectation: qubits 1 and 3 removed, term Z0 Z2 becomes Z0 Z1 *)
Example C18_example_marginal :
  show_hist (remove_qubit_indices [1%Z; 3%Z] ex_hist) = "{01:7,10:7,11:3}"%string
  /\ show_Qc (total ex_hist) = "17"%string
  /\ show_res show_Qc (oneterm [0; 2]%nat ex_hist) = "-11"%string
  /\ show_res show_Qc (oneterm [0; 1]%nat (remove_qubit_indices [1%Z; 3%Z] ex_hist)) = "-11"%string.
Proof. vm_compute. repeat split. Qed.

Example C18_example_renumbered : renumbered [2%Z; 3%Z] [0; 1]%nat [0; 1]%nat.
Proof.
  apply (trailing_renumbered [2%Z; 3%Z] [0; 1]%nat 2).
  - intros x [E|[E|[]]]; subst x; repeat constructor.
  - intros r [E|[E|[]]]; subst r; discriminate.
Qed.

Example C18_example_aggregate_post_select_split :
  show_res show_hist (aggregate_histograms [ex_hist; [(K "0110", Qf 1 1); (K "0000", Qf 0 1)]]) = "{0011:2,0110:6,1001:7,1110:3}"%string
  /\ Forall nonneg [ex_hist; [(K "0110", Qf 1 1); (K "0000", Qf 0 1)]]
  /\ show_res show_hist (hist_post_select [(3%Z, false); (1%Z, true)] ex_hist) = "{01:5,11:3}"%string
  /\ show_res show_hist (post_select_fn ex_hist [(3%Z, false); (1%Z, true)] default_epsilon) = "{01:5/8,11:3/8}"%string
  /\ show_res show_pair (split_frequency_dict ex_hist [3%Z] None default_epsilon) = "{0:8/17,1:9/17}|{001:2/17,011:5/17,100:7/17,111:3/17}"%string
  /\ show_pair (split_last_n ex_hist 1) = "{001:2,011:5,100:7,111:3}|{0:8,1:9}"%string
  /\ show_res show_hist (mk_histogram ex_hist 0 true default_epsilon) = "{0110:5,0111:3,1001:7,1100:2}"%string.
Proof.
  vm_compute. repeat split.
  all: repeat constructor; unfold Qcle; simpl; discriminate.
Qed.

(* the repaired rule on the former witness, on exact .5 ties (key order), and an exact case *)
Example C18_example_apportion :
  conversion_rule = LargestRemainder
  /\ show_res show_hist (mk_histogram witness_thirds 10 false default_epsilon) = "{00:4,01:3,10:3}"%string
  /\ show_res show_hist (mk_histogram [(K "1", Qf 3 4); (K "0", Qf 1 4)] 2 false default_epsilon) = "{0:1,1:1}"%string
  /\ show_res show_hist (mk_histogram [(K "0", Qf 1 2); (K "1", Qf 1 2)] 3 false default_epsilon) = "{0:2,1:1}"%string
  /\ show_res show_hist (mk_histogram [(K "0", Qf 1 4); (K "1", Qf 3 4)] 8 true default_epsilon) = "{0:2,1:6}"%string
  /\ NoDup (keys witness_thirds).
Proof.
  split; [reflexivity|]. split; [vm_compute; reflexivity|]. split; [vm_compute; reflexivity|].
  split; [vm_compute; reflexivity|]. split; [vm_compute; reflexivity|].
  repeat constructor; simpl; intuition discriminate.
Qed.

(* the rule BEFORE the repair (per-key round(v*n_shots)), kept as the as-is variant: conservation of the
   number of shots is refuted by three equiprobable outcomes and 10 shots; only a bound held *)
Example C18_asis_per_key_rounding_refuted :
  exists (o : hist) (n : Z) (h : hist),
    total o = 1 /\ mk_histogram_asis o n default_msq_first default_epsilon = Ok h /\ total h <> Z2Qc n.
Proof.
  assert (He : Qc_gtb 0 default_epsilon = false) by (vm_compute; reflexivity).
  destruct (asis_total_refuted_at default_epsilon He) as [h [T1 [Hm [_ Hne]]]].
  exists witness_thirds, 10%Z, h. split; [exact T1|]. split; [exact Hm|exact Hne].
Qed.
Example C18_asis_total_bound :
  forall (o : hist) (n : Z) (msq : bool) (eps : Qc) (h : hist), (0 < n)%Z -> mk_histogram_asis o n msq eps = Ok h ->
    total o * Z2Qc n - count o * half <= total h /\ total h <= total o * Z2Qc n + count o * half.
Proof. exact asis_total_bound. Qed.
Example C18_asis_examples :
  show_res show_hist (mk_histogram_asis witness_thirds 10 false default_epsilon) = "{00:3,01:3,10:3}"%string
  /\ show_res show_hist (mk_histogram_asis [(K "1", Qf 3 4); (K "0", Qf 1 4)] 2 false default_epsilon) = "{0:0,1:2}"%string
  /\ show_res show_hist (mk_histogram_asis [(K "0", Qf 1 2); (K "1", Qf 1 2)] 3 false default_epsilon) = "{0:2,1:2}"%string.
Proof. vm_compute. repeat split. Qed.

(* grouping: H = 2 I + 1/2 X0 + 1/4 Z0 on the state |+>; two bases; value 2 + 1/2 *)
Definition ex_H : qop := [([], (Qf 2 1, Qf 0 1)); ([(0%nat, PX)], (Qf 1 2, Qf 0 1)); ([(0%nat, PZ)], (Qf 1 4, Qf 0 1))].
Definition ex_g : grouping :=
  [([(0%nat, PX)], [([], (Qf 2 1, Qf 0 1)); ([(0%nat, PX)], (Qf 1 2, Qf 0 1))]);
   ([(0%nat, PZ)], [([(0%nat, PZ)], (Qf 1 4, Qf 0 1))])].
Example C18_example_grouping :
  is_qwc_partition ex_H ex_g = true
  /\ consistent plus_state /\ (forall b, hist_ok 1 (plus_state b)) /\ fits 1 ex_H
  /\ show_res show_coef (exp_value_from_measurement_bases ex_g (map (fun bo => (fst bo, plus_state (fst bo))) ex_g)) = "5/2+0j"%string
  /\ show_coef (termwise ex_H plus_state) = "5/2+0j"%string.
Proof.
  split; [vm_compute; reflexivity|]. split; [exact plus_state_consistent|]. split; [exact plus_state_ok|].
  split; [|split; vm_compute; reflexivity].
  intros tc q Htc Hq. simpl in Htc. destruct Htc as [E|[E|[E|[]]]]; subst tc; simpl in Hq; try tauto;
    destruct Hq as [E|[]]; subst q; constructor.
Qed.

Example C18_example_chunks :
  chunk_sizes 25 10 = [10; 10; 5]%Z /\ chunk_sizes 20 10 = [10; 10; 0]%Z /\ chunk_sizes 7 10 = [7]%Z
  /\ chunk_sizes (2 * resample_chunk_size) resample_chunk_size = [resample_chunk_size; resample_chunk_size; 0]%Z.
Proof. vm_compute. repeat split. Qed.

(* qubit-wise commuting is weaker than diagonal: X1 commutes qubit-wise with the basis (X0) — which is
   what map_measurements_qwc lists — but a circuit for basis (X0) measures qubit 1 along Z *)
Example C18_example_commuting_is_not_diagonal :
  check_bases_commute_qwc [(1%nat, PX)] [(0%nat, PX)] = true /\ diag_in [(1%nat, PX)] [(0%nat, PX)] = false.
Proof. vm_compute. split; reflexivity. Qed.
