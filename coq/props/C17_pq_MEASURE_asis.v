(* C17, as-is variant: the ProjectQ reader deletes Measure instructions, the writer emits them.
   Compiled only while the implementation still shows C17/projectq/MEASURE-dropped-by-reader. *)
From Coq Require Import String ZArith List Bool.
From Tangelo Require Import Linq.GateModel Linq.CircuitModel Linq.Formats Linq.FormatsProofs Linq.LinqZ Linq.FormatsZ.
From Gen Require Import GateTables FormatTables.
Import ListNotations.
Open Scope string_scope.
Notation zeq := (zeqmod eq_modulus_units eq_modulus_long_units).
(* a well-formed source circuit: valid gates, width covering them, all kinds accepted by the writer,
   nothing variational *)
Definition src_ok (accepts : string -> bool) (c : fcirc Z) : Prop :=
  circ_ok Z gtables c /\ Forall (fun g : zgate => accepts (pname g) = true) (fgates c)
  /\ Forall (fun g : zgate => pvar g = false) (fgates c).
Ltac px_tac := repeat (first [apply Forall_nil | apply Forall_cons; [split; [eexists; reflexivity | vm_compute; first [reflexivity | eexists; reflexivity | split; [reflexivity | eexists; reflexivity]]] | ]]).
Ltac src_ok_tac := unfold src_ok, circ_ok; repeat split; try (vm_compute; discriminate); repeat (constructor; try (vm_compute; reflexivity)).

Theorem C17_projectq_roundtrip_refuted_MEASURE :
  exists c ls c', src_ok (pq_accepts pq_tbl) c /\ fwidth c = gates_width Z (fgates c)
                  /\ Forall (pq_expressible Z pq_tbl) (fgates c)
                  /\ pq_write Z pq_tbl c = Ok ls /\ pq_read Z gtables pq_tbl ls = Ok c'
                  /\ circ_eq Z zeq gtables c c' = false /\ length (fgates c') < length (fgates c).
Proof.
  exists (FCirc [G "H" [0%Z] None PNone false; G "MEASURE" [0%Z] None PNone false] 1%Z). eexists. eexists.
  split; [src_ok_tac|]. split; [vm_compute; reflexivity|].
  split; [px_tac|]. vm_compute. repeat split. repeat constructor.
Qed.
Print Assumptions C17_projectq_roundtrip_refuted_MEASURE.

Theorem C17_projectq_MEASURE_lost :
  pq_survives gtables pq_tbl "MEASURE" = false /\ lookup "MEASURE" (pq_names pq_tbl) = Some "Measure"
  /\ existsb (fun lit => containsb lit "Measure") (pq_ignored pq_tbl) = true.
Proof. vm_compute. repeat split. Qed.
Print Assumptions C17_projectq_MEASURE_lost.
