(* C17, as-is variant: MEASURE has no fixed arity in gate.py, the ProjectQ writer prints target[0] only, so a
   MEASURE gate on several targets is exported without error as a measurement of its first target.
   Compiled only while the implementation still shows C17/projectq/MEASURE-target-altered. *)
From Coq Require Import String ZArith List Bool.
From Tangelo Require Import Linq.GateModel Linq.CircuitModel Linq.Formats Linq.FormatsProofs Linq.LinqZ Linq.FormatsZ.
From Gen Require Import GateTables FormatTables.
Import ListNotations.
Open Scope string_scope.
Notation zeq := (zeqmod eq_modulus_units eq_modulus_long_units).
(* a well-formed source circuit: valid gates, width covering them, all kinds accepted by the writer,
   nothing variational *)
Definition src_ok (accepts : string -> bool) (c : fcirc Z) : Prop :=
  circ_ok Z gtables c /\ Forall (fun g : zgate => accepts (pname g) = true) (fgates c)
  /\ Forall (fun g : zgate => pvar g = false) (fgates c).
Ltac src_ok_tac := unfold src_ok, circ_ok; repeat split; try (vm_compute; discriminate); repeat (constructor; try (vm_compute; reflexivity)).
Theorem C17_projectq_silently_alters_multitarget_measure :
  exists c ls c', src_ok (pq_accepts pq_tbl) c
                  /\ pq_write Z pq_tbl c = Ok ls /\ pq_read Z gtables pq_tbl ls = Ok c'
                  /\ circ_eq Z zeq gtables c c' = false /\ map ptarget (fgates c') = [[2%Z]].
Proof.
  exists (FCirc [G "MEASURE" [2%Z; 0%Z] None PNone false] 3%Z),
         [PQLine "Allocate" None [0%Z]; PQLine "Allocate" None [1%Z]; PQLine "Allocate" None [2%Z]; PQLine "Measure" None [2%Z]],
         (FCirc [G "MEASURE" [2%Z] None PNone false] 3%Z).
  split; [src_ok_tac|]. vm_compute. repeat split.
Qed.
Print Assumptions C17_projectq_silently_alters_multitarget_measure.
