(* C17, as-is variant: the ProjectQ writer prints control[0] only; further controls of a CNOT vanish
   without an error.  Compiled only while the implementation still shows
   C17/projectq/CNOT-extra-controls-dropped. *)
From Coq Require Import String ZArith List Bool.
From Tangelo Require Import Linq.GateModel Linq.CircuitModel Linq.Formats Linq.FormatsProofs Linq.LinqZ Linq.FormatsZ.
From Gen Require Import GateTables FormatTables.
Import ListNotations.
Open Scope string_scope.
Notation zeq := (zeqmod eq_modulus_units eq_modulus_long_units).
(* a well-formed source circuit: valid gates, width covering them, all kinds accepted by the writer,
   nothing variational *)
Definition src_ok (accepts : string -> bool) (c : fcirc Z) : Prop :=
  circ_ok Z gtables c /\ Forall (fun g : zgate => accepts (pname g) = true) (fgates c)
  /\ Forall (fun g : zgate => pvar g = false) (fgates c).
Ltac src_ok_tac := unfold src_ok, circ_ok; repeat split; try (vm_compute; discriminate); repeat (constructor; try (vm_compute; reflexivity)).

Theorem C17_projectq_silently_alters_multicontrol :
  exists c ls c', src_ok (pq_accepts pq_tbl) c /\ fwidth c = gates_width Z (fgates c)
                  /\ pq_write Z pq_tbl c = Ok ls /\ pq_read Z gtables pq_tbl ls = Ok c'
                  /\ circ_eq Z zeq gtables c c' = false.
Proof.
  exists (FCirc [G "CNOT" [0%Z] (Some [1%Z; 2%Z]) PNone false] 3%Z). eexists. eexists.
  split; [src_ok_tac|]. split; [vm_compute; reflexivity|]. vm_compute. repeat split.
Qed.
Print Assumptions C17_projectq_silently_alters_multicontrol.
