(* C05 — Reference-state circuits encode the requested occupations.
   Property theorems only: each is closed by [exact <lemma>] and followed by Print Assumptions.
   Models: coq/theories/Fermion/RefState.v (statevector_mapping.py, jkmn.jkmn_prep_vector) on top of the
   encoding models of C03 (Fermion/{CAR,JW,BK,SCBK,JKMN,Mapping}.v); proofs: Fermion/RefStateProofs.v.
   Tie to /repo: exact correspondence run of harness/props/C05.py + regenerated jkmn.py tables.
   Occupation vectors are [list bool]; the basis state of a vector is [bits_to_N v] (bit q = entry q);
   <x| A |x> is [op_elem S A x x] (closed-form word action, Pauli/ActionProofs.word_den_closed_form).
   Statements over [S : KS] hold in EVERY number structure (the complex numbers CRealS, the exact CycS). *)
From Coq Require Import String NArith ZArith List Bool.
From Tangelo Require Import Num.KStruct.
From Tangelo Require Import Num.Cyc.
From Tangelo Require Import QSem.State.
From Tangelo Require Import Pauli.Word.
From Tangelo Require Import Fermion.Fock.
From Tangelo Require Import Fermion.CAR.
From Tangelo Require Import Fermion.JW.
From Tangelo Require Import Fermion.BK.
From Tangelo Require Import Fermion.SCBK.
From Tangelo Require Import Fermion.JKMN.
From Tangelo Require Import Fermion.Mapping.
From Tangelo Require Import Fermion.ShowEnc.
From Tangelo Require Import Fermion.RefState.
From Tangelo Require Import Fermion.RefStateProofs.
From Tangelo Require Import Linq.GateModel.
From Tangelo Require Import Linq.Interp.
From Gen Require Import EncodingTables.
Import ListNotations.
Close Scope string_scope.
Open Scope list_scope.

(* ------------------------------------------------------------------------------------------------
   1. Filling (get_vector): for ALL m = n/2, ALL integers n_electrons and spin = None / any integer
      (negative, odd, zero) such that (n_e + s) is even and n_alpha = (n_e+s)/2, n_beta = (n_e-s)/2 lie
      in 0..m, where s is the spin as `if spin:` sees it (None and 0 -> n_e mod 2): the vector has
      length 2m, its even positions 2k are set exactly for k < n_alpha and its odd positions 2k+1 exactly
      for k < n_beta (lowest first).  Python //, %, and slice clipping are modelled over Z. *)
Theorem C05_filling_counts :
  forall (m : nat) (ne : Z) (spin : option Z),
    let s := hf_eff_spin spin ne in
    let na := ((ne + s) / 2)%Z in
    let nb := ((ne - s) / 2)%Z in
    Z.even (ne + s) = true -> (0 <= na <= Z.of_nat m)%Z -> (0 <= nb <= Z.of_nat m)%Z ->
    exists v, hf_filling (Z.of_nat (2 * m)) ne spin = ROk v /\ length v = (2 * m)%nat /\
              forall k, (k < m)%nat ->
                        nth (2 * k) v false = (Z.of_nat k <? na)%Z /\
                        nth (2 * k + 1) v false = (Z.of_nat k <? nb)%Z.
Proof. exact filling_counts. Qed.
Print Assumptions C05_filling_counts.

(* ... hence exactly n_alpha alpha and n_beta beta spin-orbitals, n_electrons in total; in up_then_down
   ordering the blocks 1^n_alpha 0^(m-n_alpha) 1^n_beta 0^(m-n_beta) *)
Theorem C05_filling_blocks_counts :
  forall (m : nat) (ne : Z) (spin : option Z),
    let s := hf_eff_spin spin ne in
    let na := ((ne + s) / 2)%Z in
    let nb := ((ne - s) / 2)%Z in
    Z.even (ne + s) = true -> (0 <= na <= Z.of_nat m)%Z -> (0 <= nb <= Z.of_nat m)%Z ->
    exists v, hf_filling (Z.of_nat (2 * m)) ne spin = ROk v /\
              utd_vec v = map (fun k => (Z.of_nat k <? na)%Z) (seq 0 m) ++ map (fun k => (Z.of_nat k <? nb)%Z) (seq 0 m) /\
              count_true (evens v) = na /\ count_true (odds v) = nb /\ count_true v = ne.
Proof. exact filling_blocks_counts. Qed.
Print Assumptions C05_filling_blocks_counts.

(* hypotheses are satisfiable by non-trivial inputs: odd electron number with negative spin, spin None *)
Example C05_filling_examples :
  hf_filling 6 3 (Some (-1)%Z) = ROk [true; true; false; true; false; false] /\
  hf_filling 6 3 None = ROk [true; true; true; false; false; false] /\
  hf_filling 4 2 (Some (-2)%Z) = ROk [false; true; false; true] /\
  Z.even (3 + hf_eff_spin (Some (-1)%Z) 3) = true /\
  (* outside the hypotheses the source accepts the input silently (no exception): 3 electrons for n_e = 2 *)
  hf_filling 4 2 (Some 4%Z) = ROk [true; true; true; false].
Proof. vm_compute. repeat split; reflexivity. Qed.

(* ordering conversion: entry i of the alternating vector sits at position utd_index n i (the index map of
   make_up_then_down, C03_up_then_down_index) of np.concatenate((v[::2], v[1::2])) — every length *)
Theorem C05_up_then_down_vector :
  forall (v : vec) (i : nat), (i < length v)%nat ->
    nth (N.to_nat (utd_index (N.of_nat (length v)) (N.of_nat i))) (utd_vec v) false = nth i v false.
Proof. exact utd_vec_nth. Qed.
Print Assumptions C05_up_then_down_vector.

(* ------------------------------------------------------------------------------------------------
   2. vector_to_circuit: for EVERY 0/1 vector the X gates prepare |v> from |0..0> in the reference
      semantics QSem (pointwise equality of states, any number structure, no axiom); the Python-level gate
      list Gate("X", target=k) is interpreted as exactly these gates. *)
Theorem C05_x_gates_prepare_bits :
  forall (S : KS) (v : vec) (x : N),
    den S (x_circuit S (snd (vector_to_circuit v))) (ket S 0) x = ket S (bits_to_N v) x.
Proof. exact x_gates_prepare_bits. Qed.
Print Assumptions C05_x_gates_prepare_bits.

Theorem C05_x_gates_interpretation :
  forall (S : KS) (ang : unit -> A S) (ts : list N),
    interp_all S unit ang (x_pgates ts) = Some (x_circuit S ts).
Proof. exact interp_x_pgates. Qed.
Print Assumptions C05_x_gates_interpretation.

Theorem C05_bits_of_vector : forall (v : vec) (q : N), N.testbit (bits_to_N v) q = nth (N.to_nat q) v false.
Proof. exact bits_to_N_testbit. Qed.
Print Assumptions C05_bits_of_vector.

(* ------------------------------------------------------------------------------------------------
   3. Jordan-Wigner, unbounded: <x| JW(a_p^dagger a_p) |x> = bit p of x for every mode and basis state
      (X_p Y_p = i Z_p behind the common Z prefix, by induction over the prefix), and the whole path
      get_mapped_vector / fermion_to_qubit_mapping for both orderings, every vector of every length
      (even length for up_then_down, as make_up_then_down demands). *)
Theorem C05_jw_occupations :
  forall (S : KS) (p x : N),
    op_elem S (jw_fop S [(numop_term p, k1)]) x x = if N.testbit x p then k1 else k0.
Proof. exact jw_occupations. Qed.
Print Assumptions C05_jw_occupations.

Theorem C05_jw_reference_occupations :
  forall (S : KS) (T : jkmn_tab) (kzero : K S -> bool) (ne spin : Z) (v : vec) (utd : bool) (i : nat),
    (i < length v)%nat -> (utd = true -> N.odd (N.of_nat (length v)) = false) ->
    exists y q,
      get_mapped_vector T MJW utd v = ROk y /\
      f2q S T kzero MJW (N.of_nat (length v)) ne spin utd [(numop_term (N.of_nat i), k1)] = Ok q /\
      op_elem S q (bits_to_N y) (bits_to_N y) = if nth i v false then k1 else k0.
Proof. exact jw_reference_occupations. Qed.
Print Assumptions C05_jw_reference_occupations.

(* ------------------------------------------------------------------------------------------------
   4. Generic core (any encoding by Majorana pairs, any n): if c_p d_p = i^(odd) w with w a Z-only word
      (checked by [mode_check], which also checks that the vacuum gets occupation 0), then
      <x| a_p^dagger a_p |x> is the parity of x over w; and if the preparation vector is GF(2)-linear
      in the occupations with toggle matrix M whose column sums over w are the unit vector e_p
      ([enc_check]), the number operator of mode p has diagonal element u_p on the encoded state of EVERY
      occupation vector u. *)
Theorem C05_number_operator_of_majorana_pair :
  forall (S : KS) (c d : maj) (w : word), mode_check c d = Some w ->
    zonly w = true /\ forall x, op_elem S (numop_of S c d) x x = if zpar x w then k1 else k0.
Proof. exact mode_check_sound. Qed.
Print Assumptions C05_number_operator_of_majorana_pair.

Theorem C05_linear_encoder_sound :
  forall (S : KS) (n nq : nat) (majs : nat -> maj * maj) (M : N -> nat -> bool),
    enc_check n nq majs M = true ->
    forall p, (p < n)%nat -> forall (u : nat -> bool) (x : N),
        (forall q, (q < N.of_nat nq)%N -> bit x q = xsum (fun k => M q k && u k) n) ->
        op_elem S (numop_of S (fst (majs p)) (snd (majs p))) x x = if u p then k1 else k0.
Proof. exact enc_check_sound. Qed.
Print Assumptions C05_linear_encoder_sound.

(* ------------------------------------------------------------------------------------------------
   5. PARTIAL (register size bounded IN the statement; the checker is run by vm_compute for n <= 64, then
      lifted by C05_linear_encoder_sound): ALL occupation vectors of length n <= 64, all modes.
      General statements (no bound) — not proved: *)
Definition C05_bk_statement (S : KS) (n : nat) : Prop :=
  forall (v : vec), length v = n -> forall p, (p < n)%nat ->
    exists y, bk_encode v = ROk y /\
              op_elem S (bk_fop S (N.of_nat n) [(numop_term (N.of_nat p), k1)]) (bits_to_N y) (bits_to_N y)
              = if nth p v false then k1 else k0.
Definition C05_bkt_statement (S : KS) (n : nat) : Prop :=
  forall (v : vec), length v = n -> forall p, (p < n)%nat ->
    let x := bits_to_N (scbk_tree_vector v) in
    op_elem S (bkt_fop S (N.of_nat n) [(numop_term (N.of_nat p), k1)]) x x = if nth p v false then k1 else k0.
Definition C05_jkmn_statement (S : KS) (n : nat) : Prop :=
  forall (v : vec), length v = n -> forall p, (p < n)%nat ->
    exists majs y, jkmn_majs jkmn_std (N.of_nat n) = Ok majs /\ jkmn_prep jkmn_std v = ROk y /\
                   op_elem S (enc_fop S (jkmn_ladder S majs) [(numop_term (N.of_nat p), k1)]) (bits_to_N y) (bits_to_N y)
                   = if nth p v false then k1 else k0.

(* Bravyi-Kitaev: do_bk_transform (encoder matrix times vector mod 2) against openfermion's bravyi_kitaev *)
Theorem C05_bk_occupations_partial : forall (S : KS) n, (n <= 64)%nat -> C05_bk_statement S n.
Proof. exact bk_occupations_partial. Qed.
Print Assumptions C05_bk_occupations_partial.

(* JKMN: jkmn_prep_vector against jkmn() (after Hadamard re-labelling and signed re-assignment) *)
Theorem C05_jkmn_occupations_partial : forall (S : KS) n, (n <= 64)%nat -> C05_jkmn_statement S n.
Proof. exact jkmn_occupations_partial. Qed.
Print Assumptions C05_jkmn_occupations_partial.

(* scBK, step 1: the BK-tree vector (X/Y support of prod (a_i^dagger - a_i)) before the two qubits are
   deleted, against openfermion's bravyi_kitaev_tree *)
Theorem C05_scbk_tree_occupations_partial : forall (S : KS) n, (n <= 64)%nat -> C05_bkt_statement S n.
Proof. exact bkt_occupations_partial. Qed.
Print Assumptions C05_scbk_tree_occupations_partial.

(* scBK, step 2: the deleted qubits n-1 and n/2-1 of that vector carry the electron-number parity and the
   alpha-number parity — the eigenvalues symmetry_conserving_bravyi_kitaev substitutes for Z on them
   (C03_scbk_parity_signs) — and do_scbk_transform returns the vector with exactly these two deleted *)
Theorem C05_scbk_sector_bits_partial :
  forall n, (n <= 64)%nat -> Nat.even n = true -> (2 <= n)%nat ->
    forall (v : vec), length v = n ->
      let x := bits_to_N (scbk_tree_vector v) in
      bit x (N.of_nat (n - 1)) = xsum (fun k => nth k v false) n /\
      bit x (N.of_nat (n / 2 - 1)) = xsum (fun k => Nat.ltb k (n / 2) && nth k v false) n /\
      scbk_vector v = ROk (delete_at (n / 2 - 1) (delete_at (n - 1) (scbk_tree_vector v))).
Proof. exact scbk_sector_bits_partial. Qed.
Print Assumptions C05_scbk_sector_bits_partial.

(* scBK, whole path (re-ordering, BK tree, compress, both Z-substitutions with the parities of the vector's
   own sector (n_electrons, spin = n_alpha - n_beta), pruning; vector with two qubits deleted), both
   orderings, EVERY occupation vector of even length 2..8 — exact arithmetic in Q(zeta_32), exhaustive
   computation; the general statement is the same with [S : KS], a sound zero test and any even n.
   Not proved in general: the Z-substitution / pruning step for n > 8 (steps 1 and 2 above reach n <= 64). *)
Definition C05_scbk_statement (S : KS) (kzero : K S -> bool) (n : nat) : Prop :=
  forall (v : vec), length v = n -> forall (utd : bool) (p : nat), (p < n)%nat ->
    exists y q,
      get_mapped_vector jkmn_std MSCBK utd v = ROk y /\
      f2q S jkmn_std kzero MSCBK (N.of_nat n) (fst (sector_of v)) (snd (sector_of v)) utd
          [(numop_term (N.of_nat p), k1)] = Ok q /\
      op_elem S q (bits_to_N y) (bits_to_N y) = if nth p v false then k1 else k0.
Theorem C05_scbk_occupations_partial :
  forall n, In n [2; 4; 6; 8]%nat -> C05_scbk_statement CycS cy_zero n.
Proof. exact scbk_reference_occupations_small. Qed.
Print Assumptions C05_scbk_occupations_partial.

(* non-vacuity: concrete non-trivial instances of the checkers and of the encoded vectors *)
Example C05_checkers_run :
  bk_ok 6 = true /\ bkt_ok 6 = true /\ jkmn_ok 7 = true /\
  bk_encode [true; false; true; false; false; true] = ROk [true; true; true; false; false; true] /\
  scbk_vector [true; true; false; true; false; false] = ROk [true; false; true; true] /\
  sector_of [true; true; true; false; false; false] = (3, 1)%Z.
Proof. vm_compute. repeat split; reflexivity. Qed.

(* ------------------------------------------------------------------------------------------------
   6. The JKMN tables regenerated from the current source are the ones the model and theorems use. *)
Theorem C05_jkmn_tables_regenerated : jkmn_tab_gen = jkmn_std.
Proof. exact eq_refl. Qed.
Print Assumptions C05_jkmn_tables_regenerated.
