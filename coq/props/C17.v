(* C17 — Circuits and operators survive export/import round trips.
   Property theorems only: each is closed by [exact <lemma>] / [vm_compute] on the regenerated tables
   and followed by Print Assumptions.
   Model: coq/theories/Linq/Formats.v (IonQ JSON records, ProjectQ command lines, Gate.__repr__ field
   list); proofs: Linq/FormatsProofs.v; executable instance + printers: Linq/FormatsZ.v.
   Tables regenerated from the source on every run: Gen.FormatTables (translate_json_ionq.py,
   translate_projectq.py) and Gen.GateTables (gate.py).
   Statements that depend on a recorded defect of the current source being present / absent live in
   props/C17_*_asis.v and props/C17_pq_repaired.v; the check compiles the variant that matches what the
   implementation does now (DESIGN 5.2). *)
From Coq Require Import String ZArith List Bool.
From Tangelo Require Import Linq.GateModel Linq.CircuitModel Linq.Formats Linq.FormatsProofs Linq.LinqZ Linq.FormatsZ.
From Gen Require Import GateTables FormatTables.
Import ListNotations.
Open Scope string_scope.

(* ---- IonQ JSON ------------------------------------------------------------------------------- *)
(* 1. the boolean condition on the regenerated dictionaries and branch sets: every name the writer
      accepts comes back, through the reader's renaming and branch selection, as an equivalent name
      with the same keys used.  A changed dictionary entry or branch set in /repo changes this term. *)
Theorem C17_ionq_tables_ok : iq_tables_ok gtables ionq_tbl = true.
Proof. vm_compute. reflexivity. Qed.
Print Assumptions C17_ionq_tables_ok.

(* 2. for EVERY circuit (any length; induction over the gate list) over any angle type: if its gates are
      accepted by the writer and expressible (no parameter on a kind without rotation key, controls
      present on a controlled kind), then read (write c) = Ok c' and c' == c in the sense of
      Circuit.__eq__ / Gate.__eq__ (gates pairwise equal with CNOT = CX, same width) *)
Theorem C17_ionq_roundtrip :
  forall (Ang : Type) (eqmod : bool -> Ang -> Ang -> bool), (forall l a, eqmod l a a = true) ->
  forall c : fcirc Ang,
    circ_ok Ang gtables c -> Forall (iq_expressible Ang ionq_tbl) (fgates c) ->
    Forall (fun g : pgate Ang => pvar g = false) (fgates c) ->
    exists j c', iq_write Ang ionq_tbl c = Ok j /\ iq_read Ang gtables ionq_tbl j = Ok c'
                 /\ circ_eq Ang eqmod gtables c c' = true.
Proof. exact (fun Ang eqmod H => ionq_roundtrip Ang eqmod H gtables ionq_tbl C17_ionq_tables_ok). Qed.
Print Assumptions C17_ionq_roundtrip.

(* 3. the same without the restriction to non-variational gates: the is_variational flag (not part of
      either format) is the only thing lost *)
Theorem C17_ionq_roundtrip_variational :
  forall (Ang : Type) (eqmod : bool -> Ang -> Ang -> bool), (forall l a, eqmod l a a = true) ->
  forall c : fcirc Ang,
    circ_ok Ang gtables c -> Forall (iq_expressible Ang ionq_tbl) (fgates c) ->
    exists j c', iq_write Ang ionq_tbl c = Ok j /\ iq_read Ang gtables ionq_tbl j = Ok c'
                 /\ circ_eq Ang eqmod gtables (clear_var_c Ang c) c' = true.
Proof. exact (fun Ang eqmod H => ionq_roundtrip_gen Ang eqmod H gtables ionq_tbl C17_ionq_tables_ok). Qed.
Print Assumptions C17_ionq_roundtrip_variational.

(* ---- ProjectQ command text -------------------------------------------------------------------- *)
(* 4. the writer's Allocate instructions are among those the reader deletes *)
Theorem C17_projectq_alloc_ignored : pq_alloc_ignored pq_tbl = true.
Proof. vm_compute. reflexivity. Qed.
Print Assumptions C17_projectq_alloc_ignored.

(* 5. for EVERY circuit over the gate kinds that survive ([pq_survives], a boolean computed from the
      regenerated tables), with one target, numeric parameters and exactly one control on the two-qubit
      shape; idle qubits above the last used one are allowed exactly when the reader restores the width
      from the Allocate instructions ([pq_restores_width], regenerated).  The variant files
      props/C17_pq_*_repaired.v / _asis.v instantiate the two regenerated guards to what the source says
      now; props/C17_pq_repaired.v states the result without them. *)
Theorem C17_projectq_roundtrip_partial :
  forall (Ang : Type) (eqmod : bool -> Ang -> Ang -> bool), (forall l a, eqmod l a a = true) ->
  forall c : fcirc Ang,
    circ_ok Ang gtables c -> (pq_restores_width pq_tbl = false -> fwidth c = gates_width Ang (fgates c)) ->
    Forall (fun g : pgate Ang => pq_survives gtables pq_tbl (pname g) = true) (fgates c) ->
    Forall (pq_expressible Ang pq_tbl) (fgates c) ->
    Forall (fun g : pgate Ang => pvar g = false) (fgates c) ->
    exists ls c', pq_write Ang pq_tbl c = Ok ls /\ pq_read Ang gtables pq_tbl ls = Ok c'
                  /\ circ_eq Ang eqmod gtables c c' = true.
Proof.
  exact (fun Ang eqmod H c => projectq_roundtrip_partial Ang eqmod H gtables pq_tbl c C17_projectq_alloc_ignored).
Qed.
Print Assumptions C17_projectq_roundtrip_partial.

(* ---- refusal ---------------------------------------------------------------------------------- *)
(* 6. a circuit containing a gate whose kind is outside a writer's accepted set is refused as a whole
      (an error, never a program for a different circuit) ... *)
Theorem C17_writers_refuse_unsupported :
  forall (Ang : Type) (c : fcirc Ang) (g : pgate Ang), In g (fgates c) ->
    (iq_accepts ionq_tbl (pname g) = false -> exists e, iq_write Ang ionq_tbl c = Err e)
    /\ (pq_accepts pq_tbl (pname g) = false -> exists e, pq_write Ang pq_tbl c = Err e).
Proof. exact (fun Ang => writers_refuse_unsupported Ang ionq_tbl pq_tbl). Qed.
Print Assumptions C17_writers_refuse_unsupported.

(* 7. ... and what the IonQ writer does emit is one record per gate, under the dictionary entry of the
      gate's own name, on the gate's own targets / controls / parameter *)
Theorem C17_ionq_write_faithful :
  forall (Ang : Type) (c : fcirc Ang) j, iq_write Ang ionq_tbl c = Ok j ->
    length (ij_circuit j) = length (fgates c) /\ ij_qubits j = fwidth c
    /\ forall g, In g (fgates c) -> iq_accepts ionq_tbl (pname g) = true.
Proof. exact (fun Ang => iq_write_only_accepted Ang ionq_tbl). Qed.
Print Assumptions C17_ionq_write_faithful.

Theorem C17_ionq_record_faithful :
  forall (Ang : Type) (g : pgate Ang) r, iq_write_gate Ang ionq_tbl g = Ok r ->
    lookup (pname g) (iq_names ionq_tbl) = Some (ir_gate r) /\ ir_targets r = Some (ptarget g) /\ ir_target r = None
    /\ (ir_controls r = None \/ ir_controls r = pcontrol g) /\ ir_control r = None
    /\ (ir_rotation r = None \/ ir_rotation r = Some (pparam g)).
Proof. exact (fun Ang => iq_write_gate_faithful Ang ionq_tbl). Qed.
Print Assumptions C17_ionq_record_faithful.

(* ---- repr ------------------------------------------------------------------------------------- *)
(* 8. the keyword list printed by Gate.__repr__ determines the gate: evaluating it through Gate.__init__
      gives back the very same gate (hence an equal one), for every valid gate when target / control are
      printed "when not None"; when they are printed "when truthy" the gates with an empty target or
      control list are excluded ([rp_when_not_none repr_tbl] is regenerated from gate.py; see
      props/C17_repr_repaired.v resp. C17_repr_*_asis.v) *)
Theorem C17_repr_fields_roundtrip :
  forall (Ang : Type) (eqmod : bool -> Ang -> Ang -> bool), (forall l a, eqmod l a a = true) ->
  forall g : pgate Ang,
    gate_valid Ang gtables g ->
    (rp_when_not_none repr_tbl = false -> ptarget g <> [] /\ pcontrol g <> Some []) ->
    repr_eval Ang gtables (gate_repr Ang repr_tbl g) = Ok g /\ gate_eq Ang eqmod gtables g g = true.
Proof. exact (fun Ang eqmod H => repr_fields_roundtrip Ang eqmod H gtables repr_tbl). Qed.
Print Assumptions C17_repr_fields_roundtrip.

(* ---- non-vacuity: a concrete circuit meeting all hypotheses of 2 and 5, and what comes back ------ *)
Definition ex_circ : fcirc Z :=
  FCirc [G "H" [2%Z] None PNone false; G "RX" [0%Z] None (PNum 3%Z) false;
         G "CNOT" [1%Z] (Some [2%Z]) PNone false; G "RZ" [1%Z] None (PNum (-5)%Z) false] 3%Z.
Definition ex_circ_ionq : fcirc Z :=
  FCirc (fgates ex_circ ++ [G "PHASE" [0%Z] None (PNum 4%Z) false; G "CRZ" [3%Z] (Some [0%Z; 1%Z]) (PStr "theta") false;
                            G "XX" [0%Z; 4%Z] None (PNum 16%Z) false; G "CPHASE" [1%Z] (Some [0%Z]) (PNum 1%Z) false]) 7%Z.

Example C17_example_hypotheses :
  circ_ok Z gtables ex_circ /\ fwidth ex_circ = gates_width Z (fgates ex_circ)   (* not needed when the width is restored *)
  /\ Forall (fun g : zgate => pq_survives gtables pq_tbl (pname g) = true) (fgates ex_circ)
  /\ Forall (pq_expressible Z pq_tbl) (fgates ex_circ)
  /\ circ_ok Z gtables ex_circ_ionq /\ Forall (iq_expressible Z ionq_tbl) (fgates ex_circ_ionq).
Proof.
  unfold circ_ok. repeat split; try (vm_compute; discriminate);
    repeat (constructor; try (vm_compute; (reflexivity || (repeat split; (discriminate || eauto))))).
Qed.

Example C17_example_roundtrip :
  (do j <- iq_write Z ionq_tbl ex_circ_ionq; iq_read Z gtables ionq_tbl j)
  = Ok (FCirc [G "H" [2%Z] None PNone false; G "RX" [0%Z] None (PNum 3%Z) false;
               G "CX" [1%Z] (Some [2%Z]) PNone false; G "RZ" [1%Z] None (PNum (-5)%Z) false;
               G "PHASE" [0%Z] None (PNum 4%Z) false; G "CRZ" [3%Z] (Some [0%Z; 1%Z]) (PStr "theta") false;
               G "XX" [0%Z; 4%Z] None (PNum 16%Z) false; G "CPHASE" [1%Z] (Some [0%Z]) (PNum 1%Z) false] 7%Z)
  /\ (do l <- pq_write Z pq_tbl ex_circ; pq_read Z gtables pq_tbl l) = Ok ex_circ.
Proof. vm_compute. split; reflexivity. Qed.
