(* C17, as-is variant: the ProjectQ reader deletes the Allocate instructions and infers the width from
   the gates, so idle qubits above the last used one are lost.  Compiled only while the implementation
   still shows C17/projectq/width-not-restored. *)
From Coq Require Import String ZArith List Bool.
From Tangelo Require Import Linq.GateModel Linq.CircuitModel Linq.Formats Linq.FormatsProofs Linq.LinqZ Linq.FormatsZ.
From Gen Require Import GateTables FormatTables.
Import ListNotations.
Open Scope string_scope.
Notation zeq := (zeqmod eq_modulus_units eq_modulus_long_units).
(* a well-formed source circuit: valid gates, width covering them, all kinds accepted by the writer,
   nothing variational *)
Definition src_ok (accepts : string -> bool) (c : fcirc Z) : Prop :=
  circ_ok Z gtables c /\ Forall (fun g : zgate => accepts (pname g) = true) (fgates c)
  /\ Forall (fun g : zgate => pvar g = false) (fgates c).
Ltac px_tac := repeat (first [apply Forall_nil | apply Forall_cons; [split; [eexists; reflexivity | vm_compute; first [reflexivity | eexists; reflexivity | split; [reflexivity | eexists; reflexivity]]] | ]]).
Ltac src_ok_tac := unfold src_ok, circ_ok; repeat split; try (vm_compute; discriminate); repeat (constructor; try (vm_compute; reflexivity)).

Theorem C17_projectq_roundtrip_refuted_width :
  exists c ls c', src_ok (pq_accepts pq_tbl) c
                  /\ Forall (fun g : zgate => pq_survives gtables pq_tbl (pname g) = true) (fgates c)
                  /\ Forall (pq_expressible Z pq_tbl) (fgates c)
                  /\ pq_write Z pq_tbl c = Ok ls /\ pq_read Z gtables pq_tbl ls = Ok c'
                  /\ gates_eq Z zeq gtables (fgates c) (fgates c') = true /\ (fwidth c' < fwidth c)%Z.
Proof.
  exists (FCirc [G "H" [0%Z] None PNone false] 4%Z). eexists. eexists.
  split; [src_ok_tac|]. split; [repeat constructor|]. split; [px_tac|]. vm_compute. repeat split.
Qed.
Print Assumptions C17_projectq_roundtrip_refuted_width.
