(* C17, repaired variant: compiled only when the implementation shows none of the recorded ProjectQ defects
   (PHASE, MEASURE, width, multi-control CNOT, multi-target MEASURE).  Then every kind the writer accepts
   survives, the width is restored, everything a line cannot carry is refused by a guard, and
   C17_projectq_written_roundtrips holds: for EVERY circuit object, whatever the writer accepts to write is
   read back as an equal circuit - the only gate-level condition is on the parameter (a number on the rotation
   kinds, none elsewhere); no condition on arity (MEASURE included), number of controls or width. *)
From Coq Require Import String ZArith List Bool.
From Tangelo Require Import Linq.GateModel Linq.CircuitModel Linq.Formats Linq.FormatsProofs Linq.LinqZ Linq.FormatsZ.
From Gen Require Import GateTables FormatTables.
Import ListNotations.
Open Scope string_scope.
Notation zeq := (zeqmod eq_modulus_units eq_modulus_long_units).
(* a well-formed source circuit: valid gates, width covering them, all kinds accepted by the writer,
   nothing variational *)
Definition src_ok (accepts : string -> bool) (c : fcirc Z) : Prop :=
  circ_ok Z gtables c /\ Forall (fun g : zgate => accepts (pname g) = true) (fgates c)
  /\ Forall (fun g : zgate => pvar g = false) (fgates c).
Ltac src_ok_tac := unfold src_ok, circ_ok; repeat split; try (vm_compute; discriminate); repeat (constructor; try (vm_compute; reflexivity)).
Theorem C17_projectq_tables_ok : pq_tables_ok gtables pq_tbl = true /\ pq_restores_width pq_tbl = true.
Proof. vm_compute. split; reflexivity. Qed.
Print Assumptions C17_projectq_tables_ok.

Theorem C17_projectq_roundtrip :
  forall (Ang : Type) (eqmod : bool -> Ang -> Ang -> bool), (forall l a, eqmod l a a = true) ->
  forall c : fcirc Ang,
    circ_ok Ang gtables c ->
    Forall (pq_expressible Ang pq_tbl) (fgates c) ->
    Forall (fun g : pgate Ang => pvar g = false) (fgates c) ->
    exists ls c', pq_write Ang pq_tbl c = Ok ls /\ pq_read Ang gtables pq_tbl ls = Ok c'
                  /\ circ_eq Ang eqmod gtables c c' = true.
Proof.
  intros Ang eqmod H c Hok.
  apply (projectq_roundtrip Ang eqmod H gtables pq_tbl c (proj1 C17_projectq_tables_ok)); [vm_compute; reflexivity | exact Hok |].
  rewrite (proj2 C17_projectq_tables_ok). discriminate.
Qed.
Print Assumptions C17_projectq_roundtrip.

(* the guards regenerated from the writer and gate.py's arity table leave nothing unexpressible *)
Theorem C17_projectq_guards_ok : pq_guards_ok gtables pq_tbl = true.
Proof. vm_compute. reflexivity. Qed.
Print Assumptions C17_projectq_guards_ok.

Theorem C17_projectq_written_roundtrips :
  forall (Ang : Type) (eqmod : bool -> Ang -> Ang -> bool), (forall l a, eqmod l a a = true) ->
  forall (c : fcirc Ang) ls,
    circ_ok Ang gtables c ->
    Forall (pq_param_ok Ang pq_tbl) (fgates c) ->
    Forall (fun g : pgate Ang => pvar g = false) (fgates c) ->
    pq_write Ang pq_tbl c = Ok ls ->
    exists c', pq_read Ang gtables pq_tbl ls = Ok c' /\ circ_eq Ang eqmod gtables c c' = true.
Proof.
  intros Ang eqmod H c ls Hok.
  apply (projectq_written_roundtrips Ang eqmod H gtables pq_tbl c ls (proj1 C17_projectq_tables_ok));
    [vm_compute; reflexivity | exact C17_projectq_guards_ok | exact Hok |].
  rewrite (proj2 C17_projectq_tables_ok). discriminate.
Qed.
Print Assumptions C17_projectq_written_roundtrips.

(* non-vacuity: measurement, PHASE and idle qubits all present *)
Definition ex_full : fcirc Z :=
  FCirc [G "H" [2%Z] None PNone false; G "PHASE" [0%Z] None (PNum 3%Z) false; G "CNOT" [1%Z] (Some [2%Z]) PNone false;
         G "RZ" [1%Z] None (PNum (-5)%Z) false; G "MEASURE" [2%Z] None PNone false] 6%Z.
Example C17_projectq_full_example :
  (do l <- pq_write Z pq_tbl ex_full; pq_read Z gtables pq_tbl l) = Ok ex_full.
Proof. vm_compute. reflexivity. Qed.
