(* C17, repaired variant: compiled only when the implementation no longer shows the PHASE / MEASURE
   defects.  Then every kind the writer accepts survives and the round trip holds for the writer's whole
   accepted set. *)
From Coq Require Import String ZArith List Bool.
From Tangelo Require Import Linq.GateModel Linq.CircuitModel Linq.Formats Linq.FormatsProofs Linq.LinqZ Linq.FormatsZ.
From Gen Require Import GateTables FormatTables.
Import ListNotations.
Open Scope string_scope.
Notation zeq := (zeqmod eq_modulus_units eq_modulus_long_units).
(* a well-formed source circuit: valid gates, width covering them, all kinds accepted by the writer,
   nothing variational *)
Definition src_ok (accepts : string -> bool) (c : fcirc Z) : Prop :=
  circ_ok Z gtables c /\ Forall (fun g : zgate => accepts (pname g) = true) (fgates c)
  /\ Forall (fun g : zgate => pvar g = false) (fgates c).
Ltac src_ok_tac := unfold src_ok, circ_ok; repeat split; try (vm_compute; discriminate); repeat (constructor; try (vm_compute; reflexivity)).

Theorem C17_projectq_tables_ok : pq_tables_ok gtables pq_tbl = true.
Proof. vm_compute. reflexivity. Qed.
Print Assumptions C17_projectq_tables_ok.

Theorem C17_projectq_roundtrip :
  forall (Ang : Type) (eqmod : bool -> Ang -> Ang -> bool), (forall l a, eqmod l a a = true) ->
  forall c : fcirc Ang,
    circ_ok Ang gtables c -> fwidth c = gates_width Ang (fgates c) ->
    Forall (pq_expressible Ang pq_tbl) (fgates c) ->
    Forall (fun g : pgate Ang => pvar g = false) (fgates c) ->
    exists ls c', pq_write Ang pq_tbl c = Ok ls /\ pq_read Ang gtables pq_tbl ls = Ok c'
                  /\ circ_eq Ang eqmod gtables c c' = true.
Proof.
  intros Ang eqmod H c. apply (projectq_roundtrip Ang eqmod H gtables pq_tbl c C17_projectq_tables_ok).
  vm_compute. reflexivity.
Qed.
Print Assumptions C17_projectq_roundtrip.
