(* C11 — Circuit metadata stays consistent under any operation history.
   Property theorems only: each is closed by [exact <lemma>] and followed by Print Assumptions.
   Model: coq/theories/Linq/{GateModel,CircuitModel,History}.v; proofs: Linq/CircuitProofs.v;
   tables regenerated from tangelo/linq/gate.py, circuit.py: Gen.GateTables. *)
From Coq Require Import String ZArith List Bool.
From Tangelo Require Import Linq.GateModel Linq.CircuitModel Linq.History Linq.CircuitProofs Linq.LinqZ.
From Tangelo Require Import Linq.DepthProofs.
From Gen Require Import GateTables.
Import ListNotations.
Open Scope string_scope.

(* 1. For EVERY history of operations (any length, any interleaving of add_gate, +, *, copy, inverse,
      trim_qubits, reindex_qubits, split, stack, the four passes in function and method form, reads),
      over any angle type, any float predicates and any gate tables, every circuit alive satisfies
      the invariant. *)
Theorem C11_inv_reachable :
  forall Ang add opp small eqmod mpi2 mpi4 T (ops : list (op Ang)),
    SInv Ang (final Ang add opp small eqmod mpi2 mpi4 T [] ops).
Proof. intros. apply inv_reachable. constructor. Qed.
Print Assumptions C11_inv_reachable.

(* 2. The invariant means: reported size, counts, counts_n_qubit, is_variational, is_mixed_state equal
      the recount from the current gate list, and width covers every qubit used. *)
Theorem C11_reported_eq_recount :
  forall Ang (c : circ Ang), Inv Ang c ->
    size Ang c = length (cgates Ang c)
    /\ ccounts Ang c = counts_of Ang (cgates Ang c)
    /\ cncounts Ang c = ncounts_of Ang (cgates Ang c)
    /\ is_variational Ang c = existsb (fun g => pvar g) (cgates Ang c)
    /\ is_mixed_state Ang c = existsb (fun g => String.eqb "MEASURE" (pname g) || String.eqb "CMEASURE" (pname g)) (cgates Ang c)
    /\ (forall g q, In g (cgates Ang c) -> In q (gate_qubits g) -> (q < width Ang c)%Z).
Proof. exact reported_eq_recount. Qed.
Print Assumptions C11_reported_eq_recount.

(* 3. Operations other than the in-place ones leave every circuit already in the store unchanged. *)
Theorem C11_read_only_ops_unchanged :
  forall Ang add opp small eqmod mpi2 mpi4 T (s : list (circ Ang)) (o : op Ang) k,
    k < length s -> in_place Ang o <> Some k ->
    nth_error (fst (step Ang add opp small eqmod mpi2 mpi4 T s o)) k = nth_error s k.
Proof. exact read_only_ops_unchanged. Qed.
Print Assumptions C11_read_only_ops_unchanged.

(* 4. A rejected add_gate leaves the circuit exactly as it was. *)
Theorem C11_add_gate_err_unchanged :
  forall Ang T (c : circ Ang) g c' e, add_gate Ang T c g = (c', Err e) -> c' = c.
Proof. exact add_gate_err_unchanged. Qed.
Print Assumptions C11_add_gate_err_unchanged.

(* 5. Gate acceptance: exactly the well-formed gates (for the regenerated arity tables as for any). *)
Theorem C11_gate_valid_iff :
  forall Ang name target control (p : param Ang) v,
    (exists g, mk_gate gtables name target control p v = Ok g) <->
    Forall idx_good target
    /\ match control with None => True | Some cl => starts_with_C name = true /\ Forall idx_good cl end
    /\ NoDup (idx_vals target ++ match control with None => [] | Some cl => idx_vals cl end)
    /\ length target = n_targets gtables name (idx_vals target).
Proof. exact (fun Ang => gate_valid_iff Ang gtables). Qed.
Print Assumptions C11_gate_valid_iff.

(* 6. With a fixed width, add_gate accepts a gate iff it is valid and all its qubits are in range. *)
Theorem C11_add_gate_range_iff :
  forall Ang T (c : circ Ang) (g : pgate Ang),
    (exists c', add_gate Ang T c g = (c', Ok tt)) <->
    (exists gate, regate T g = Ok gate) /\
    (truthy (cnq Ang c) = true -> forall n, cnq Ang c = Some n -> forall q, In q (gate_qubits g) -> (q < n)%Z).
Proof. exact add_gate_range_iff. Qed.
Print Assumptions C11_add_gate_range_iff.

(* 7. Circuit.depth (the "moments" fold of the source), for EVERY circuit over any angle type and any
      index lists: it is the largest LEVEL, where the level of a gate is 1 + the largest level of an
      earlier gate sharing a qubit with it (1 if there is none) ... *)
Theorem C11_depth_is_max_level :
  forall Ang (c : circ Ang), depth Ang c = depth_spec Ang (cgates Ang c).
Proof. exact depth_is_max_level. Qed.
Print Assumptions C11_depth_is_max_level.

(* ... equivalently the length of a longest chain: no subsequence of the gate list in which every gate
   shares a qubit with its predecessor is longer than the reported depth, and one has exactly that length. *)
Theorem C11_depth_is_longest_chain :
  forall Ang (c : circ Ang),
    (forall s, subseq s (cgates Ang c) -> linked Ang s -> (Z.of_nat (length s) <= depth Ang c)%Z)
    /\ (exists s, subseq s (cgates Ang c) /\ linked Ang s /\ Z.of_nat (length s) = depth Ang c).
Proof. exact depth_is_longest_chain. Qed.
Print Assumptions C11_depth_is_longest_chain.

(* ---- non-vacuity: a concrete non-trivial history, its final store, and the invariant on it ---- *)
Definition ex_ops : list (op Z) :=
  [ ONew [G "H" [0%Z] None PNone false; G "CNOT" [1%Z] (Some [0%Z]) PNone false;
          G "RZ" [1%Z] None (PNum 3%Z) true; G "RZ" [1%Z] None (PNum 13%Z) false] (Some 4%Z);
    OAddGate 0 (G "X" [7%Z] None PNone false);          (* rejected: out of range *)
    OMergeFn 0; OInverse 1; OConcat 1 2; OAddGate 3 (G "MEASURE" [5%Z] None PNone false);
    OTrim 3; OSplit 3 true; OSimplifyFn 3 100 true ].
Definition ex_final := final Z Z.add Z.opp (zsmall small_modulus_units small_modulus_long_units) (zeqmod eq_modulus_units eq_modulus_long_units)
                             inv_S_units inv_T_units gtables [] ex_ops.
Example C11_example_nontrivial :
  length ex_final = 7 /\ forallb (metadata_ok Z) ex_final = true
  /\ map (fun c => length (cgates Z c)) ex_final = [4; 3; 3; 7; 6; 1; 1]%nat.
Proof. vm_compute. repeat split. Qed.

(* ---- the two defects of the original source, on the faithful "as is" definitions ---- *)
(* add_gate as originally written kept a rejected gate in _gates: size 1, counts empty *)
Example C11_add_gate_asis_corrupts :
  exists c g c', metadata_ok Z c = true
                 /\ add_gate_asis Z gtables c g = (c', Err ValueError) /\ metadata_ok Z c' = false.
Proof.
  exists (empty_circ Z (Some 2%Z)), (G "X" [5%Z] None PNone false).
  eexists. vm_compute. repeat split.
Qed.
(* merge_rotations (function) as originally written changed its input: the merged-into gate of the
   INPUT circuit gets the summed parameter and the variational flag *)
Example C11_merge_rotations_asis_mutates_input :
  exists c c1 r, build Z gtables [G "RZ" [0%Z] None (PNum 3%Z) false; G "RZ" [0%Z] None (PNum 5%Z) true] None = Ok c
    /\ merge_rotations_asis Z Z.add (zeqmod eq_modulus_units eq_modulus_long_units) gtables c = Ok (c1, r)
    /\ metadata_ok Z c = true /\ metadata_ok Z c1 = false.
Proof. do 3 eexists. vm_compute. repeat split. Qed.

(* depth on a concrete circuit: H0, X3 in moment 1, CNOT(1;0) in 2, RZ1 and CNOT(3;2) ... : levels 1 2 3 1 2 *)
Example C11_depth_example :
  exists c, build Z gtables [G "H" [0%Z] None PNone false; G "CNOT" [1%Z] (Some [0%Z]) PNone false;
                             G "RZ" [1%Z] None (PNum 3%Z) false; G "X" [3%Z] None PNone false;
                             G "CNOT" [3%Z] (Some [2%Z]) PNone false] None = Ok c
            /\ depth Z c = 3%Z /\ map snd (leveled Z (cgates Z c)) = [1; 2; 3; 1; 2]%Z.
Proof. eexists. vm_compute. repeat split. Qed.
