(* C14 — Qubit-reduction techniques keep the eigenvalue they are meant to keep.
   Property theorems only.  Models: coq/theories/Chem/{Taper,Trim,Frobenius,Subst,Bridge}.v;
   proofs: Chem/{TaperProofs,CliffordProofs,TrimProofs,FrobeniusProofs,SubstProofs,BridgeProofs}.v;
   tables regenerated from /repo on every run: Gen.ReductionTables (translator/reduction_tables.py). *)
From Coq Require Import String ZArith NArith QArith Qcanon List Bool Arith Lia.
From Tangelo Require Import Num.KStruct Num.Cyc QSem.State Pauli.Word Pauli.Action
     Linq.GateModel Linq.CircuitModel
     Chem.Taper Chem.TaperProofs Chem.CliffordProofs Chem.Bridge Chem.BridgeProofs
     Chem.Subst Chem.SubstProofs Chem.Trim Chem.TrimProofs Chem.Frobenius Chem.FrobeniusProofs
     Chem.ReductionShow.
From Gen Require Import ReductionTables.
Import ListNotations.
Close Scope Q_scope.
Close Scope Qc_scope.
Open Scope nat_scope.
Open Scope string_scope.

(* ---- the regenerated tables are the ones the theorems are about ---- *)
Example C14_gen_c_calc_is_pauli_table : gen_c_calc = c_calc_expected.
Proof. reflexivity. Qed.
Example C14_gen_convert_pauli_is_coding : gen_convert_pauli = convert_pauli_expected.
Proof. reflexivity. Qed.
Example C14_gen_trim_tables_sound : tables_sound gen_trim_tables = true.
Proof. reflexivity. Qed.

(* ================================================================== Z2 tapering *)
(* 1. bool_col_echelon, for EVERY boolean matrix of every shape: any property of columns that is closed
      under xor holds of every column of the result (the routine only xors and permutes columns). *)
Theorem C14_echelon_invariant :
  forall (P : col -> Prop), (forall a b, P a -> P b -> P (vxor b a)) ->
  forall nrows M M', Forall P M -> echelon nrows M = Ok M' -> Forall P M'.
Proof. exact echelon_invariant. Qed.
Print Assumptions C14_echelon_invariant.

(* 2. get_kernel, for EVERY operator (binary matrix with rows (x|z) of length 2n): every returned vector
      commutes — stabilizer product as computed by do_commute — with every term. *)
Theorem C14_kernel_rows_commute :
  forall (n : nat) (rows : list col), (forall r, In r rows -> List.length r = 2 * n) ->
  forall ker, get_kernel n rows = Ok ker ->
  forall v r, In v ker -> In r rows -> anticommute_bin n r v = false.
Proof. exact kernel_rows_commute. Qed.
Print Assumptions C14_kernel_rows_commute.

(* 2'. the stabilizer product is commutation of Pauli words: dense rows read as sparse words (Pauli/Word.v) *)
Theorem C14_row_commute_is_word_commute :
  forall a b : row, List.length a = List.length b ->
  wcommute (row_word a) (row_word b) = row_commute a b.
Proof. exact wcommute_row_word. Qed.
Print Assumptions C14_row_commute_is_word_commute.

(* 2''. MultiformOperator.__mul__'s xor-and-phase-table product IS the product of Pauli words *)
Theorem C14_row_product_is_word_product :
  forall a b : row, List.length a = List.length b ->
  wmul (row_word a) (row_word b) = (row_word (row_xor a b), row_phase gen_c_calc a b).
Proof. exact wmul_row_word. Qed.
Print Assumptions C14_row_product_is_word_product.

(* 3. Clifford rotation, for every number structure and EVERY pair of anticommuting Pauli rows:
      U = (sigma + tau)/sqrt2 satisfies U U = I and U tau U = sigma (coefficient of every row),
      with the product and phase table of the source. *)
Theorem C14_clifford_rotation_maps :
  forall (S : KS) (sigma tau : row),
    List.length sigma = List.length tau -> row_commute sigma tau = false ->
    mf_equiv S (mf_mul_raw S gen_c_calc (U S sigma tau) (U S sigma tau)) [(repeat P4I (List.length sigma), k1)]
    /\ mf_equiv S (mf_mul_raw S gen_c_calc (U S sigma tau) (mf_mul_raw S gen_c_calc [(tau, k1)] (U S sigma tau)))
                [(sigma, k1)].
Proof. exact clifford_rotation_maps. Qed.
Print Assumptions C14_clifford_rotation_maps.

(* 4. Substitution lemmas behind tapering and trimming, for every operator and state:
      if every term has I or Z on qubit q, then on the subspace "qubit q is |b>" the operator acts as the
      operator with Z_q replaced by (-1)^b (and that subspace is invariant); same for I or X and the
      eigenspaces of X_q. *)
Theorem C14_z_substitution :
  forall (S : KS) (q : N) (b : bool) (a : op S) (psi : state S),
    (forall t, In t a -> zdiag_on q (fst t) = true) -> supported_on S q b psi ->
    forall x, op_den S a psi x = op_den S (subst_q S q b a) psi x.
Proof. exact z_substitution. Qed.
Print Assumptions C14_z_substitution.

Theorem C14_x_substitution :
  forall (S : KS) (q : N) (s : bool) (a : op S) (psi : state S),
    (forall t, In t a -> xdiag_on q (fst t) = true) -> x_eigen S q s psi ->
    forall x, op_den S a psi x = op_den S (subst_q S q s a) psi x.
Proof. exact x_substitution. Qed.
Print Assumptions C14_x_substitution.

Theorem C14_sector_invariant :
  forall (S : KS) (q : N) (b : bool) (a : op S) (psi : state S),
    supported_on S q b psi -> (forall t, In t a -> zdiag_on q (fst t) = true) ->
    supported_on S q b (op_den S a psi).
Proof. exact subst_preserves_support. Qed.
Print Assumptions C14_sector_invariant.

(* ================================================================== trimming *)
(* 5. trim_trivial_operator's string surgery, for ALL strictly increasing key lists in the register. *)
Theorem C14_trim_operator_surgery :
  forall (term : pstr) (ks : tstates),
    increasing_from 0 (map fst ks) = true ->
    (forall q, In q (map fst ks) -> q < List.length term) ->
    trim_loop true term ks 0 false term
    = Ok (if has_xy term ks then None else Some (sign_of term ks, del_from 0 (map fst ks) term)).
Proof. exact trim_operator_surgery. Qed.
Print Assumptions C14_trim_operator_surgery.

(* 6. every pattern classified by trim_trivial_circuit (REGENERATED name sets and states) leaves the qubit,
      started in |0>, in the recorded basis state up to a phase; for every number structure, every angle
      accepted by the predicate (meaning: e^{i a/2} = +-i, i.e. a is an odd multiple of pi) and every value
      of symbolic parameters. *)
Theorem C14_trim_case_table_sound :
  forall (S : KS) (odd_pi : A S -> bool),
    (forall a, odd_pi a = true -> cis a = (ki : K S) \/ cis a = kopp (ki : K S)) ->
    forall (val : string -> A S) (gs : list (pgate (A S))) (b : bool),
      classify (A S) odd_pi gen_trim_tables gs = Some b ->
      exists v, run1 S val gs (k1, k0) = Some v /\ basis_up_to_phase S b v.
Proof. exact (fun S odd_pi Hodd => trim_case_table_sound S odd_pi Hodd gen_trim_tables C14_gen_trim_tables_sound). Qed.
Print Assumptions C14_trim_case_table_sound.

(* the regenerated grid predicate  k mod 16 = 8  (units of pi/8) has that meaning in the exact instance *)
Lemma C14_odd_pi_cyc_sound :
  forall k : Z, zodd_pi gen_odd_mod gen_odd_off k = true ->
                @cis CycS k = @ki CycS \/ @cis CycS k = @kopp CycS (@ki CycS).
Proof.
  intros k H. unfold zodd_pi, gen_odd_mod, gen_odd_off in H. apply Z.eqb_eq in H.
  assert (Hk : (k mod 32 = 8 \/ k mod 32 = 24)%Z).
  { pose proof (Z.mod_pos_bound k 32 ltac:(lia)). pose proof (Z.mod_pos_bound k 16 ltac:(lia)).
    pose proof (Z.div_mod k 32 ltac:(lia)). pose proof (Z.div_mod k 16 ltac:(lia)). lia. }
  change (@cis CycS k) with (cy_cis k). unfold cy_cis.
  destruct Hk as [-> | ->]; [left | right]; apply (proj1 (ceqb_eq L4 _ _)); vm_compute; reflexivity.
Qed.

(* ================================================================== compression *)
Lemma gen_keep_sound : keep_sound gen_frob_keep.
Proof. first [exact cmp_sqrt_gt_sound | exact cmp_sqrt_ge_sound]. Qed.

(* 7. for EVERY operator, tolerance (any sign) and register size, with the REGENERATED exponent and
      comparison: the discarded coefficients satisfy  sum |c|^2 * frob_factor^2 <= epsilon^2
      (frob_factor^2 = 2^n for the repaired source, 2^(2 floor(n/2)) for the source as it was). *)
Theorem C14_frobenius_discard_bound :
  forall (W : Type) (e : Q) (n : nat) (l : list (term W)),
    (sum_abs2 (discarded gen_frob_x2 gen_frob_keep e n l) * pow2 (gen_frob_x2 n) <= e * e)%Q.
Proof. exact (fun W => discard_bound W gen_frob_keep gen_keep_sound gen_frob_x2). Qed.
Print Assumptions C14_frobenius_discard_bound.

(* 8. the source now reads  frob_factor = 2**(n_qubits / 2)  (repaired; the regenerated exponent is the true half):
      sqrt(coef2_sum) > epsilon / 2**(n/2)  is, exactly,  coef2_sum * 2**n > epsilon**2, which is what the
      model evaluates over the rationals.  If the source goes back to the floor exponent this Example fails
      and the check searches the odd-n witness of 9 on the real code. *)
Example C14_gen_frob_is_repaired : gen_frob_x2 = x2_true_half.
Proof. reflexivity. Qed.

Lemma gen_x2_all : forall n, n <= gen_frob_x2 n.
Proof. intro n. unfold gen_frob_x2, x2_true_half. lia. Qed.

(*    With that definition, for EVERY operator, tolerance and register size (odd or even): the Frobenius norm
      of the discarded part, ||D||_F^2 = 2^n sum |c|^2, is at most epsilon^2.  (||D||_op <= ||D||_F and Weyl's
      inequality, which turn this into the eigenvalue clause, are not formalised: "outside" in the manifest.) *)
Theorem C14_frobenius_norm_bound :
  forall (W : Type) (e : Q) (n : nat) (l : list (term W)),
    (sum_abs2 (discarded gen_frob_x2 gen_frob_keep e n l) * pow2 n <= e * e)%Q.
Proof.
  exact (fun W e n l => frobenius_norm_bound W gen_frob_keep gen_keep_sound gen_frob_x2 e n l (gen_x2_all n)).
Qed.
Print Assumptions C14_frobenius_norm_bound.

(*    The definition as it was before the repair, 2**(n_qubits // 2): the same bound only for EVEN n ... *)
Theorem C14_frobenius_norm_bound_asis_even_partial :
  forall (W : Type) (e : Q) (n : nat) (l : list (term W)), Nat.even n = true ->
    (sum_abs2 (discarded x2_floor_half cmp_sqrt_gt e n l) * pow2 n <= e * e)%Q.
Proof.
  exact (fun W e n l Hn => frobenius_norm_bound W cmp_sqrt_gt cmp_sqrt_gt_sound x2_floor_half e n l (x2_floor_even n Hn)).
Qed.
Print Assumptions C14_frobenius_norm_bound_asis_even_partial.

(* 9. ... and for ODD n the eigenvalue clause was false with that floor exponent (witness kept on the as-is
      definition; the defect was repaired in /repo): 0.6 I + 0.6 Z0, one qubit, epsilon = 1: everything is
      discarded, eigenvalue 6/5 -> 0.  The repaired definition keeps 0.6 Z0 on the same input (Example below). *)
Theorem C14_frobenius_odd_refuted :
  exists (l : list (term word)) (e : Q) (n : nat) (lam : Q),
    Nat.odd n = true
    /\ compress x2_floor_half cmp_sqrt_gt e n l = []
    /\ (forall x, (x < 2)%N ->
          op_den CycS (op_of_terms l) (ket CycS 0) x = @kmul CycS (cy_of_Qc (Q2Qc lam)) (ket CycS 0 x))
    /\ (e < lam)%Q.
Proof. exact frobenius_odd_refuted. Qed.
Print Assumptions C14_frobenius_odd_refuted.

(* the same witness under the repaired definition: one term survives, the shift is 3/5 <= 1 *)
Example C14_frobenius_witness_repaired :
  List.length (compress x2_true_half cmp_sqrt_gt 1 1 odd_witness) = 1.
Proof. vm_compute. reflexivity. Qed.

(* ================================================================== non-vacuity / witnesses *)
(* H = X0 X1 + Z0 Z1 (binary rows (x|z)): the kernel is {X0X1, Z0Z1} and both commute with both terms *)
Example C14_kernel_example :
  get_kernel 2 [[true; true; false; false]; [false; false; true; true]]
  = Ok [[true; true; false; false]; [false; false; true; true]].
Proof. reflexivity. Qed.

(* sigma = X on qubit 1, tau = Z0 Z1 anticommute: the hypotheses of theorem 3 are satisfiable *)
Example C14_clifford_example :
  row_commute [P4I; P4X] [P4Z; P4Z] = false
  /\ get_cliffords 2 [[P4Z; P4Z]] = [(0, [P4X; P4I], [P4Z; P4Z])].
Proof. split; reflexivity. Qed.

(* get_clifford_operators does not keep the chosen qubits distinct when the symmetries are of mixed type:
   for the symmetries X0X2, X1, Z0Z2, Z3 (of -7/8 X0X2 - 15/8 Z0Z2 + 1/4 X1 + Z3) it picks Z on qubit 0 for
   X0X2 and X on qubit 0 for Z0Z2 — two anticommuting "single-qubit Paulis", q_indices [0;1;0;3].
   (Cannot happen when all symmetries are Z-type, as for molecular Hamiltonians under JW.) *)
Example C14_cliffords_duplicate_column_witness :
  map (fun c => fst (fst c))
      (get_cliffords 4 [[P4X; P4I; P4X; P4I]; [P4I; P4X; P4I; P4I]; [P4Z; P4I; P4Z; P4I]; [P4I; P4I; P4I; P4Z]])
  = [0; 1; 0; 3].
Proof. reflexivity. Qed.

(* trimming Z0 X1 I2 Z3 on qubits {0:1, 3:0}: sign -, string X1 I2 -> "XI" *)
Example C14_trim_example :
  trim_loop true [Some PZ; Some PX; None; Some PZ] [(0, true); (3, false)] 0 false [Some PZ; Some PX; None; Some PZ]
  = Ok (Some (true, [Some PX; None])).
Proof. reflexivity. Qed.

Example C14_classify_example :
  classify Z (zodd_pi gen_odd_mod gen_odd_off) gen_trim_tables
           [PGate "RZ" [0%Z] None (PNum 3%Z) false; PGate "RX" [0%Z] None (PNum 24%Z) false] = Some true
  /\ classify Z (zodd_pi gen_odd_mod gen_odd_off) gen_trim_tables
              [PGate "RX" [0%Z] None (PNum 4%Z) false] = None.
Proof. split; reflexivity. Qed.

(* compression that discards some but not all terms (two qubits, epsilon = 1/2) *)
Example C14_compress_example :
  run_compress gen_frob_x2 gen_frob_keep (1 # 2)%Q 2
               [(0, ((1 # 8)%Q, 0%Q)); (1, (1%Q, 0%Q)); (2, (0%Q, (1 # 8)%Q)); (3, ((1 # 4)%Q, 0%Q))]
  = "3,1 # 0,2".
Proof. vm_compute. reflexivity. Qed.
