(* C02 — Expectation values equal <psi|H|psi> on every evaluation path.
   Property theorems only (closed by exact/apply of lemmas from coq/theories), each followed by
   Print Assumptions.  Statements "for all real angles / amplitudes" use the instance CRealS (K = R*R).
   Tables regenerated from the source on every run: Gen.ExpvalTables (measurement_basis.py: Pauli ->
   basis-change gate and angle; backend.py: the conditions of the dispatch).
   Conventions: register of n qubits, basis index x : N, bit q of x = qubit q, sums over x < 2^n;
   a Pauli word is the sorted list of its non-identity factors (word_wf), word_in n w = all its qubits
   are < n; supp w = its qubits; operators are lists of (word, coefficient). *)
From Coq Require Import String ZArith NArith QArith Qcanon List Bool Reals.
From Tangelo Require Import Num.KStruct.
From Tangelo Require Import Num.CReal.
From Tangelo Require Import Num.Cyc.
From Tangelo Require Import QSem.State.
From Tangelo Require Import QSem.Measure.
From Tangelo Require Import QSem.Unitary.
From Tangelo Require Import QSem.Expect.
From Tangelo Require Import QSem.ExpectProofs.
From Tangelo Require Import Pauli.Word.
From Tangelo Require Import Pauli.Action.
From Tangelo Require Import Pauli.ActionProofs.
From Tangelo Require Import Linq.GateModel.
From Tangelo Require Import Linq.Interp.
From Tangelo Require Import Linq.RealInst.
From Tangelo Require Import Linq.ExpPaths.
From Tangelo Require Import Linq.ExpPathsProofs.
From Tangelo Require Import Linq.ExpPathsReal.
From Tangelo Require Import Linq.ExpPathsRun.
From Gen Require Import ExpvalTables.
Import ListNotations.
Open Scope string_scope.

Notation RS := CRealS.
Notation rstate := (state RS).
Definition rborn : rstate -> N -> K RS := born RS.
Definition rid (a : R) : A RS := a.

(* 1. The parity of the masked bitstring, weighted with the Born distribution, IS the expectation of the
      Z-type word: for every register size, every list of qubits, every state (no normalisation needed). *)
Theorem C02_parity_is_Z_expectation :
  forall (n : nat) (qs : list N) (psi : rstate),
    parity_expect RS n qs psi = expect_word RS n (zword qs) psi.
Proof. exact (parity_is_Z_expectation RS). Qed.
Print Assumptions C02_parity_is_Z_expectation.

(* the code's formulation — count of '1' in (mask & key), modulo 2 — is that parity *)
Theorem C02_parity_mask_formulation :
  forall n qs x, NoDup qs -> Forall (fun q => (q < N.of_nat n)%N) qs ->
    parity_mask n x (mask_of qs) = parity x qs.
Proof. exact parity_mask_eq. Qed.
Print Assumptions C02_parity_mask_formulation.

(* 2. One-qubit basis facts, as matrix identities over the real-complex numbers, with the angles
      -pi/2 and pi/2:  RY(-pi/2)^dagger Z RY(-pi/2) = X,  RX(pi/2)^dagger Z RX(pi/2) = Y. *)
Theorem C02_basis_matrices :
  mmul RS (madj RS (mRY RS (aopp api2))) (mmul RS (mZ RS) (mRY RS (aopp api2))) = mX RS
  /\ mmul RS (madj RS (mRX RS api2)) (mmul RS (mZ RS) (mRX RS api2)) = mY RS
  /\ mmul RS (mZ RS) (mRY RS (aopp api2)) = mmul RS (mRY RS (aopp api2)) (mX RS)
  /\ mmul RS (mZ RS) (mRX RS api2) = mmul RS (mRX RS api2) (mY RS).
Proof. exact (conj (basis_X_dag RS) (conj (basis_Y_dag RS) (conj (basis_X RS) (basis_Y RS)))). Qed.
Print Assumptions C02_basis_matrices.

(* 3. Lift to words, against the REGENERATED table of measurement_basis_gates: for every well-formed
      Pauli word inside the register the model of measurement_basis_gates succeeds, its gates denote a
      circuit B, and measuring the parity of the support after B gives <psi|P|psi>, for every state.
      Also the operator identity  Z_supp(P) B = B P  on states. *)
Theorem C02_basis_rotation_word :
  forall (n : nat) (w : word) (psi : rstate), word_wf w = true -> word_in n w ->
    exists gs B,
      measurement_basis_gates R of_units basis_table (term_of_word w) = POk gs
      /\ interp_all RS R rid gs = Some B
      /\ parity_expect RS n (supp w) (den RS B psi) = expect_word RS n w psi
      /\ (forall phi, word_den RS (zword (supp w)) (den RS B phi) = den RS B (word_den RS w phi)).
Proof.
  intros n w psi Hwf Hin.
  destruct (basis_gates_interp RS R rid of_units basis_table (-4)%Z 4%Z eq_refl eq_refl eq_refl
                               of_units_m4' of_units_p4 w) as [gs [E1 E2]].
  exists gs, (basis_circ RS w). repeat split; try assumption.
  - apply basis_rotation_word; assumption.
  - intro phi. rewrite !den_basis_circ. apply basis_operator_identity. exact Hwf.
Qed.
Print Assumptions C02_basis_rotation_word.

(* 4. Statevector route: the circuit [Gate(pauli, index) ...] of a word denotes the word, and
      Re <psi | Pauli circuit | psi> = <psi|P|psi>. *)
Theorem C02_statevector_route :
  forall (n : nat) (w : word) (psi : rstate), word_wf w = true -> word_in n w ->
    interp_all RS R rid (pauli_gates R (term_of_word w)) = Some (pauli_circuit RS w)
    /\ sv_term RS n w psi = expect_word RS n w psi.
Proof.
  intros n w psi Hwf Hin. split; [apply pauli_gates_interp|apply sv_term_correct; assumption].
Qed.
Print Assumptions C02_statevector_route.

(* 5. Both routes return sum_k c_k <psi|P_k|psi> = <psi|H|psi> for every operator (any finite list of
      well-formed words inside the register, any complex coefficients), every normalised state; the
      identity term contributes its coefficient.  Exact distribution (freqs = Born weights). *)
Theorem C02_routes_agree :
  forall (n : nat) (H : op RS) (psi : rstate),
    norm2 RS n psi = @k1 RS -> op_wf RS H -> op_in RS n H ->
    freq_route RS rborn n H psi = expect_op RS n H psi
    /\ sv_route RS n H psi = expect_op RS n H psi
    /\ expect_op RS n H psi = expect_lin RS n H psi.
Proof.
  intros n H psi Hn Hwf Hin.
  destruct (routes_agree RS rborn (fun _ _ => eq_refl) n H psi Hn Hwf Hin) as [E1 E2].
  repeat split; [exact E1|exact E2|apply expect_op_lin].
Qed.
Print Assumptions C02_routes_agree.

(* 6. E(H) = E(Re H) + i E(Im H), and both parts are real. *)
Theorem C02_complex_split :
  forall (n : nat) (H : op RS) (psi : rstate),
    expect_lin RS n H psi = kadd (expect_lin RS n (op_re RS H) psi) (kmul ki (expect_lin RS n (op_im RS H) psi)).
Proof. exact (expect_split RS). Qed.
Print Assumptions C02_complex_split.

Theorem C02_split_parts_real :
  forall (n : nat) (H : op RS) (psi : rstate), op_wf RS H -> op_in RS n H ->
    kconj (expect_lin RS n (op_re RS H) psi) = expect_lin RS n (op_re RS H) psi
    /\ kconj (expect_lin RS n (op_im RS H) psi) = expect_lin RS n (op_im RS H) psi.
Proof.
  intros n H psi Hwf Hin. split; apply expect_lin_real;
    try (apply op_wf_map; exact Hwf); try (apply op_in_map; exact Hin);
    intros t Ht; apply in_map_iff in Ht; destruct Ht as [t' [<- _]]; [apply re_real|apply im_real].
Qed.
Print Assumptions C02_split_parts_real.

(* 7. Variance of a +-1 valued outcome: for every distribution of total weight 1 over the basis states
      (and over any explicit finite list of outcomes), sum p (mu - s)^2 = 1 - mu^2; the variance reported
      by the frequency route is sum_k c_k^2 (1 - <P_k>^2); standard_error^2 * n_shots = variance. *)
Theorem C02_variance_pm1 :
  forall (n : nat) (qs : list N) (f : N -> K RS),
    total RS n f = @k1 RS ->
    parity_var RS n qs f = ksub k1 (kmul (parity_mean RS n qs f) (parity_mean RS n qs f)).
Proof. exact (variance_pm1 RS). Qed.
Print Assumptions C02_variance_pm1.

Theorem C02_variance_pm1_list :
  forall l : list (K RS * K RS),
    (forall ps, In ps l -> kmul (snd ps) (snd ps) = k1) -> lsum RS fst l = k1 ->
    let mu := lsum RS (fun ps => kmul (fst ps) (snd ps)) l in
    lsum RS (fun ps => kmul (fst ps) (kmul (ksub mu (snd ps)) (ksub mu (snd ps)))) l = ksub k1 (kmul mu mu).
Proof. exact (variance_pm1_list RS). Qed.
Print Assumptions C02_variance_pm1_list.

Theorem C02_variance_reported :
  forall (n : nat) (H : op RS) (psi : rstate),
    norm2 RS n psi = @k1 RS -> op_wf RS H -> op_in RS n H ->
    var_route RS rborn n H psi = var_formula RS n H psi.
Proof. intros n H psi. exact (var_route_correct RS rborn (fun _ _ => eq_refl) n H psi). Qed.
Print Assumptions C02_variance_reported.

Theorem C02_standard_error :
  forall (v : Qc) (p : positive),
    (std_err_sq v (Some (Npos p)) * Q2Qc (inject_Z (Zpos p)) = v)%Qc
    /\ std_err_sq v None = 0%Qc /\ std_err_sq v (Some 0%N) = 0%Qc.
Proof. intros v p. split; [apply std_err_sq_spec|apply std_err_sq_none]. Qed.
Print Assumptions C02_standard_error.

(* 8. The dispatch, with the conditions REGENERATED from backend.py, is a total decision function:
      - it never falls through (the `elif self.statevector_available` cannot fail after the `if`),
      - the statevector route is taken exactly when: no raise, real coefficients, no noise model,
        statevector available, n_shots is None, circuit not empty; the frequency route exactly when
        no raise, real coefficients and one of (noise, no statevector, n_shots given, empty circuit);
      - the sampled sub-branch of the statevector route is unreachable through the dispatch;
      - whichever branch is taken, the value is <psi|H|psi> (exact distribution, normalised state). *)
Definition is_sv (r : route) : bool := match r with RSVNative | RSVPauli => true | _ => false end.
Definition is_freq (r : route) : bool := match r with RFreq => true | _ => false end.
Definition no_raise (c : cfg) : bool := negb (c_isv c && negb (c_sv c)) && c_width_ok c.
Notation dispatch := (dispatch_expect freq_cond sv_cond sv_exact_cond).

Theorem C02_dispatch_total :
  forall c : cfg,
    dispatch c <> RFallthrough /\ dispatch c <> RSVSampled
    /\ is_sv (dispatch c) = no_raise c && negb (c_complex c) && negb (c_noise c) && c_sv c
                            && negb (shots_set c) && negb (c_size0 c)
    /\ is_freq (dispatch c) = no_raise c && negb (c_complex c)
                              && (c_noise c || negb (c_sv c) || shots_set c || c_size0 c)
    /\ (dispatch c = RSplit <-> no_raise c && c_complex c = true)
    /\ (dispatch c = RRaise <-> no_raise c = false)
    /\ isv_guard c = c_isv c && negb (c_sv c).
Proof.
  intros [[] [] [[|p]|] [] [] [] [] [] []]; vm_compute;
    repeat split; try discriminate; try reflexivity; intros; discriminate.
Qed.
Print Assumptions C02_dispatch_total.

Theorem C02_dispatch_value :
  forall (c : cfg) (n : nat) (H : op RS) (psi : rstate) (v : K RS),
    norm2 RS n psi = @k1 RS -> op_wf RS H -> op_in RS n H ->
    eval_expect RS rborn freq_cond sv_cond sv_exact_cond c n H psi = Some v -> v = expect_op RS n H psi.
Proof. intros c n H psi v. exact (eval_expect_correct RS rborn (fun _ _ => eq_refl) freq_cond sv_cond sv_exact_cond c n H psi v). Qed.
Print Assumptions C02_dispatch_value.

Theorem C02_dispatch_variance :
  forall (c : cfg) (n : nat) (H : op RS) (psi : rstate) (v : K RS),
    norm2 RS n psi = @k1 RS -> op_wf RS H -> op_in RS n H ->
    eval_var RS rborn c n H psi = Some v ->
    v = (if c_complex c then kadd (var_formula RS n (op_re RS H) psi) (var_formula RS n (op_im RS H) psi)
         else var_formula RS n H psi).
Proof. intros c n H psi v. exact (eval_var_correct RS rborn (fun _ _ => eq_refl) c n H psi v). Qed.
Print Assumptions C02_dispatch_variance.

(* 9. Post-selection (composes with C10: the branch vector of an outcome string is unnormalised; the
      state handed to the routes is that vector rescaled) and mixed states (sum over branches). *)
Theorem C02_postselected_scaling :
  forall (n : nat) (H : op RS) (c : K RS) (psi : rstate),
    expect_lin RS n H (sscale RS c psi) = kmul (kmul (kconj c) c) (expect_lin RS n H psi).
Proof. exact (expect_lin_scale RS). Qed.
Print Assumptions C02_postselected_scaling.

Theorem C02_mixed_state_frequencies :
  forall (n : nat) (w : word) (e : ensemble RS), word_wf w = true -> word_in n w ->
    freq_term_ens RS n w e = expect_word_ens RS n w e.
Proof. exact (freq_term_ens_correct RS). Qed.
Print Assumptions C02_mixed_state_frequencies.

(* ---- witnesses and non-vacuity (exact, cyclotomic instance, regenerated tables) ---- *)
Definition ex_word : word := [(0%N, PX); (2%N, PY); (3%N, PZ)].
Example C02_word_hypotheses_satisfiable : word_wf ex_word = true /\ word_in 4 ex_word.
Proof. split; [reflexivity|]. unfold word_in, ex_word. simpl. repeat constructor. Qed.

(* the regenerated table, run through the model: X -> RY(-4 * pi/8), Y -> RX(4 * pi/8), Z -> nothing *)
Example C02_table_gates :
  show_basis_gates basis_table (term_of_word ex_word) = "RY(0;N;-4;F) RX(2;N;4;F)"
  /\ show_basis_gates basis_table [(0%Z, "Q")] = (if basis_else_raises then "Err:RuntimeError" else "").
Proof. vm_compute. split; reflexivity. Qed.

(* a non-trivial state (H0, T0, CNOT 1<-0, RY(3pi/8) on 1): the three evaluations of X0 Y1 coincide and are
   not zero; with the WRONG sign of the X angle (RY(+pi/2)) the frequency value would be the opposite *)
Definition ex_prefix : list LinqZ.zgate :=
  [LinqZ.G "H" [0%Z] None PNone false; LinqZ.G "T" [0%Z] None PNone false;
   LinqZ.G "CNOT" [1%Z] (Some [0%Z]) PNone false; LinqZ.G "RY" [1%Z] None (PNum 3%Z) false].
Definition ex_psi : state CycS := untab CycS (prepare 2 ex_prefix []).
Definition ex_w2 : word := [(0%N, PX); (1%N, PY)].
Example C02_three_evaluations_agree :
  ceqb L4 (freq_term CycS xfreqs 2 ex_w2 ex_psi) (expect_word CycS 2 ex_w2 ex_psi) = true
  /\ ceqb L4 (sv_term CycS 2 ex_w2 ex_psi) (expect_word CycS 2 ex_w2 ex_psi) = true
  /\ ceqb L4 (expect_word CycS 2 ex_w2 ex_psi) (c0 L4) = false.
Proof. vm_compute. repeat split. Qed.

Example C02_wrong_sign_detected :
  let bad := [Gate (B1 (GRY (@api2 CycS)) 0%N) []; Gate (B1 (GRX (@api2 CycS)) 1%N) []] in
  ceqb L4 (parity_expect CycS 2 (supp ex_w2) (den CycS bad ex_psi))
          (copp L4 (expect_word CycS 2 ex_w2 ex_psi)) = true.
Proof. vm_compute. reflexivity. Qed.

(* an operator with an identity term and complex coefficients on that state: all evaluations give the
   same number, equal to the dispatch's value for a cirq-like configuration *)
Definition ex_H : xop := [([], coef (3#2) 0); (ex_w2, coef (1#2) (-1#4)); ([(1%N, PZ)], coef (-1#1) 0)].
Definition ex_cfg : cfg := Cfg false true None false false true true false true.
Example C02_operator_routes_agree :
  ceqb L4 (freq_route CycS xfreqs 2 ex_H ex_psi) (expect_op CycS 2 ex_H ex_psi) = true
  /\ ceqb L4 (sv_route CycS 2 ex_H ex_psi) (expect_op CycS 2 ex_H ex_psi) = true
  /\ match eval_expect CycS xfreqs freq_cond sv_cond sv_exact_cond ex_cfg 2 ex_H ex_psi with
     | Some v => ceqb L4 v (expect_op CycS 2 ex_H ex_psi) | None => false end = true
  /\ ceqb L4 (norm2 CycS 2 ex_psi) (c1 L4) = true.
Proof. vm_compute. repeat split. Qed.
