(* C17, repaired variant: the ProjectQ writer refuses a CNOT that does not have exactly one control
   (guard at the top of the branch, regenerated into pq_w_single_ctrl).  Compiled when the implementation no
   longer shows C17/projectq/CNOT-extra-controls-dropped. *)
From Coq Require Import String ZArith List Bool.
From Tangelo Require Import Linq.GateModel Linq.CircuitModel Linq.Formats Linq.FormatsProofs Linq.LinqZ Linq.FormatsZ.
From Gen Require Import GateTables FormatTables.
Import ListNotations.
Open Scope string_scope.
Notation zeq := (zeqmod eq_modulus_units eq_modulus_long_units).
(* a well-formed source circuit: valid gates, width covering them, all kinds accepted by the writer,
   nothing variational *)
Definition src_ok (accepts : string -> bool) (c : fcirc Z) : Prop :=
  circ_ok Z gtables c /\ Forall (fun g : zgate => accepts (pname g) = true) (fgates c)
  /\ Forall (fun g : zgate => pvar g = false) (fgates c).
Ltac src_ok_tac := unfold src_ok, circ_ok; repeat split; try (vm_compute; discriminate); repeat (constructor; try (vm_compute; reflexivity)).

(* for EVERY circuit: a CNOT with no, an empty or more than one control makes the writer fail *)
Theorem C17_projectq_refuses_multicontrol :
  forall (Ang : Type) (c : fcirc Ang) (g : pgate Ang),
    In g (fgates c) -> pname g = "CNOT" -> (forall c0, pcontrol g <> Some [c0]) ->
    exists e, pq_write Ang pq_tbl c = Err e.
Proof.
  intros Ang c g Hin Hn Hc. apply (pq_refuses_multicontrol Ang pq_tbl c g Hin); [rewrite Hn; vm_compute; reflexivity .. | exact Hc].
Qed.
Print Assumptions C17_projectq_refuses_multicontrol.

(* the former witness of the silent alteration is now an error *)
Theorem C17_projectq_multicontrol_witness_refused :
  pq_write Z pq_tbl (FCirc [G "CNOT" [0%Z] (Some [1%Z; 2%Z]) PNone false] 3%Z) = Err ValueError.
Proof. vm_compute. reflexivity. Qed.
Print Assumptions C17_projectq_multicontrol_witness_refused.
