(* C17, repaired variant: the ProjectQ writer refuses a gate of its first branch (H X Y Z S T MEASURE) that
   does not have exactly one target (guard at the top of the branch, regenerated into pq_w_single_target).
   Compiled when the implementation no longer shows C17/projectq/MEASURE-target-altered. *)
From Coq Require Import String ZArith List Bool.
From Tangelo Require Import Linq.GateModel Linq.CircuitModel Linq.Formats Linq.FormatsProofs Linq.LinqZ Linq.FormatsZ.
From Gen Require Import GateTables FormatTables.
Import ListNotations.
Open Scope string_scope.
Notation zeq := (zeqmod eq_modulus_units eq_modulus_long_units).
(* a well-formed source circuit: valid gates, width covering them, all kinds accepted by the writer,
   nothing variational *)
Definition src_ok (accepts : string -> bool) (c : fcirc Z) : Prop :=
  circ_ok Z gtables c /\ Forall (fun g : zgate => accepts (pname g) = true) (fgates c)
  /\ Forall (fun g : zgate => pvar g = false) (fgates c).
Ltac src_ok_tac := unfold src_ok, circ_ok; repeat split; try (vm_compute; discriminate); repeat (constructor; try (vm_compute; reflexivity)).

(* for EVERY circuit: a MEASURE gate on no or several targets makes the writer fail *)
Theorem C17_projectq_refuses_multitarget :
  forall (Ang : Type) (c : fcirc Ang) (g : pgate Ang),
    In g (fgates c) -> pname g = "MEASURE" -> length (ptarget g) <> 1 ->
    exists e, pq_write Ang pq_tbl c = Err e.
Proof.
  intros Ang c g Hin Hn Hl. apply (pq_refuses_multitarget Ang pq_tbl c g Hin); [rewrite Hn; vm_compute; reflexivity .. | exact Hl].
Qed.
Print Assumptions C17_projectq_refuses_multitarget.

(* the former witness of the silent alteration is now an error *)
Theorem C17_projectq_multitarget_witness_refused :
  pq_write Z pq_tbl (FCirc [G "MEASURE" [2%Z; 0%Z] None PNone false] 3%Z) = Err ValueError.
Proof. vm_compute. reflexivity. Qed.
Print Assumptions C17_projectq_multitarget_witness_refused.
