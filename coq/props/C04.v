(* C04 — Qubit Hamiltonians reproduce mean-field and full-CI energies (the bookkeeping part).
   Property theorems only; model: coq/theories/Chem/Integrals.v; proofs: Chem/IntegralsProofs.v;
   transpose tuples regenerated from integral_solver_pyscf.py / molecule.py / rdms.py: Gen.ChemTables.
   All statements are for every commutative ring R with 1/2 (record CRing), every number of orbitals,
   abstract integrals h : nat -> nat -> K, g : nat -> nat -> nat -> nat -> K. *)
From Coq Require Import String ZArith List Bool Arith Permutation Sorted Lia.
From Tangelo Require Import Chem.Integrals.
From Tangelo Require Import Chem.IntegralsProofs.
From Tangelo Require Import Chem.Rdm.
From Tangelo Require Import Chem.ChemQ.
From Gen Require Import ChemTables.
Import ListNotations.

(* 1. convert_frozen_orbitals (restricted): for every mo_occ and every accepted specification without a
      repeated index, the four lists are pairwise disjoint and cover all orbitals (permutation of
      0..n-1), the active lists are increasing, occupied/virtual classes are respected, and
      n_active_electrons + electrons in frozen occupied orbitals = all electrons; there is at least one
      active electron and the active space is not full. *)
Theorem C04_partition_is_partition :
  forall occ s p, spec_nodup_r s -> convert_r occ s = COk p ->
    part_ok occ p /\ 0 < nel occ (aocc p) /\ nel occ (aocc p) <> 2 * length (active_mos p).
Proof. exact partition_is_partition_r. Qed.
Print Assumptions C04_partition_is_partition.

(* 2. the same for UHF (per-spin lists, int applied to both spins) *)
Theorem C04_partition_is_partition_uhf :
  forall occa occb s pa pb, spec_nodup_u s -> convert_u occa occb s = COk (pa, pb) ->
    part_ok occa pa /\ part_ok occb pb /\ 0 < nel occa (aocc pa) + nel occb (aocc pb).
Proof. exact partition_is_partition_u. Qed.
Print Assumptions C04_partition_is_partition_uhf.

(* 3. an int (first n orbitals) or None is always a valid specification *)
Theorem C04_int_spec_valid :
  forall n, spec_nodup_r (FInt n) /\ spec_nodup_u (FInt n) /\ spec_nodup_r FNone.
Proof. intro n. split; [apply spec_nodup_int_r | split; [apply spec_nodup_int_u | apply spec_nodup_none_r]]. Qed.
Print Assumptions C04_int_spec_valid.

(* 4. frozen lists keep the caller's order: increasing when the caller's list is *)
Theorem C04_frozen_lists_sorted :
  forall occ fz, StronglySorted Z.lt fz ->
    StronglySorted lt (focc (split_one occ fz)) /\ StronglySorted lt (fvir (split_one occ fz)).
Proof. exact split_one_frozen_sorted. Qed.
Print Assumptions C04_frozen_lists_sorted.

(* 5. error cases: TypeError exactly for the malformed specifications, ValueError exactly when there is
      no active electron or the active space is full; freeze_mos rejects frozen half-filled orbitals *)
Theorem C04_convert_errors :
  forall occ s,
  (forall e, frozen_list_r s = CErr e -> convert_r occ s = CErr CTypeError /\ e = CTypeError) /\
  (forall fz, frozen_list_r s = COk fz ->
     (convert_r occ s = CErr CValueError <->
      nel occ (aocc (split_one occ fz)) = 0 \/ nel occ (aocc (split_one occ fz)) = 2 * length (active_mos (split_one occ fz)))).
Proof. exact convert_r_errors. Qed.
Print Assumptions C04_convert_errors.

Theorem C04_freeze_no_half_filled :
  forall occ s p, freeze_r occ s = COk p ->
    convert_r occ s = COk p /\ forall i, In i (focc p) -> occ_at occ i <> 1.
Proof. exact freeze_r_no_half. Qed.
Print Assumptions C04_freeze_no_half_filled.

(* 6. electron / spin bookkeeping of n_active_ab_electrons / active_spin *)
Theorem C04_n_active_electrons :
  forall occ spin p, n_active_electrons (n_active_ab_r occ spin p) = Z.of_nat (nel occ (aocc p)).
Proof. exact n_active_ab_r_sum. Qed.
Print Assumptions C04_n_active_electrons.

Theorem C04_n_active_ab_correct :
  forall occ (spin : Z) p,
  (forall i, In i (aocc p) -> occ_at occ i <= 2) ->
  (Z.of_nat (count_ge occ 1 (aocc p)) - Z.of_nat (count_ge occ 2 (aocc p)) = spin)%Z ->
  n_active_ab_r occ spin p = (Z.of_nat (count_ge occ 1 (aocc p)), Z.of_nat (count_ge occ 2 (aocc p)))%Z
  /\ active_spin (n_active_ab_r occ spin p) = spin.
Proof. exact n_active_ab_r_correct. Qed.
Print Assumptions C04_n_active_ab_correct.

(* 7. folding the frozen doubly occupied orbitals (restricted; the arrays get_active_space_integrals
      returns): core constant + Slater-Condon energy of ANY active determinant (closed or open shell:
      alpha positions Pa, beta positions Pb in the active list A) in the folded integrals
      = Slater-Condon energy of frozen + active occupation in the full integrals. *)
Theorem C04_fold_restricted_energy :
  forall (R : CRing) (h : T2t R) (g : T4t R) (F A Pa Pb : list nat),
    exch_sym R g ->
    cadd (of_core R h g F) (e_det R (restrict2 R A A (of_h1 R h g F)) (restrict4 R A A A A g) Pa Pb)
    = e_det R h g (F ++ map (fun p => nth p A 0) Pa) (F ++ map (fun p => nth p A 0) Pb).
Proof. exact fold_restricted_energy_arrays. Qed.
Print Assumptions C04_fold_restricted_energy.

(* 8. UHF folding (_get_active_space_integrals_uhf with its swapped reads gab[j,i,i,j], gab[u,i,i,v]) *)
Theorem C04_fold_unrestricted_energy :
  forall (R : CRing) (ha hb : T2t R) (gaa gab gbb : T4t R) (Fa Fb Oa Ob : list nat),
    exch_sym R gaa -> exch_sym R gbb ->
    cadd (uhf_core R ha hb gaa gab gbb Fa Fb)
         (e_det_u R (uhf_h1a R ha gaa gab Fa Fb) (uhf_h1b R hb gbb gab Fa Fb) gaa gab gbb Oa Ob)
    = e_det_u R ha hb gaa gab gbb (Fa ++ Oa) (Fb ++ Ob).
Proof. exact fold_unrestricted_energy. Qed.
Print Assumptions C04_fold_unrestricted_energy.

(* 9. spinorb_from_spatial + InteractionOperator(c, one, 1/2 two): the diagonal element on the determinant
      with alpha orbitals Oa (spin-orbitals 2i) and beta orbitals Ob (2i+1) is the spatial Slater-Condon energy *)
Theorem C04_interaction_operator_matches :
  forall (R : CRing) (h : T2t R) (g : T4t R) (Oa Ob : list nat),
    e_so R (so1 R h) (io2_r R g) (det_so Oa Ob) = e_det R h g Oa Ob.
Proof. exact interaction_operator_matches_r. Qed.
Print Assumptions C04_interaction_operator_matches.

(* 10. index conventions, over the tuples REGENERATED from the source: every transpose applied to the
       PySCF (chemist) integrals gives g[p,q,r,s] = (ps|qr); the Slater-Condon energy computed from it is the
       textbook chemist formula; chemist symmetry gives the exchange symmetry used in 7/8. *)
Theorem C04_index_convention :
  forall (R : CRing) (ax : axes), In ax (pyscf_rhf_axes ++ pyscf_uhf_axes) ->
  forall (h : T2t R) (eri : T4t R),
    (forall p q r s, transpose4 ax eri p q r s = eri p s q r)
    /\ (forall Oa Ob, e_det R h (transpose4 ax eri) Oa Ob = e_det_chem R h eri Oa Ob)
    /\ ((forall i j k l, eri i j k l = eri k l i j) -> exch_sym R (transpose4 ax eri)).
Proof.
  intros R ax Hin h eri.
  assert (E : ax = CHEM_TO_PHYS) by (apply (all_axes_eq CHEM_TO_PHYS (pyscf_rhf_axes ++ pyscf_uhf_axes) (eq_refl true)); exact Hin).
  split; [apply chem_to_phys_spec; exact E|].
  split; [intros; apply index_convention_energy; exact E | apply phys_sym_of_chem_sym; exact E].
Qed.
Print Assumptions C04_index_convention.

(* 11. the reverse tuples of the energy contractions (molecule.py, rdms.py) undo the forward ones *)
Theorem C04_reverse_tuples_undo_forward :
  forall (X : Type) (fwd back : axes),
    In fwd (pyscf_rhf_axes ++ pyscf_uhf_axes) ->
    In back [mol_energy_rhf_axes; mol_energy_uhf_axes; rdms_energy_axes] ->
    forall (eri : nat -> nat -> nat -> nat -> X) p q r s, transpose4 back (transpose4 fwd eri) p q r s = eri p q r s.
Proof.
  intros X fwd back Hf Hb eri.
  apply (phys_chem_roundtrip fwd back eri).
  - apply (all_axes_eq CHEM_TO_PHYS (pyscf_rhf_axes ++ pyscf_uhf_axes) (eq_refl true)); exact Hf.
  - apply (all_axes_eq PHYS_TO_CHEM [mol_energy_rhf_axes; mol_energy_uhf_axes; rdms_energy_axes] (eq_refl true)); exact Hb.
Qed.
Print Assumptions C04_reverse_tuples_undo_forward.

(* ---- non-vacuity and witnesses ---- *)
(* a non-contiguous frozen pattern over a ROHF-like occupation *)
Example C04_example_partition :
  convert_r [2; 2; 2; 1; 0; 0; 0] (FList [FI 1; FI 5; FI 0])
  = COk (mkPart [2; 3] [1; 0] [4; 6] [5])
  /\ spec_nodup_r (FList [FI 1; FI 5; FI 0])
  /\ n_active_ab_r [2; 2; 2; 1; 0; 0; 0] 1 (mkPart [2; 3] [1; 0] [4; 6] [5]) = (2, 1)%Z.
Proof.
  split; [reflexivity|]. split; [|reflexivity].
  intros fz H. inversion H. repeat constructor; simpl; intuition discriminate.
Qed.
Example C04_example_errors :
  convert_r [2; 0] (FList [FI 0; FBad]) = CErr CTypeError /\ convert_r [2; 0] (FList [FNp 0]) = CErr CTypeError
  /\ convert_r [2; 2; 0] (FInt 2) = CErr CValueError /\ convert_r [2; 2; 0] (FList [FI 2]) = CErr CValueError
  /\ freeze_r [2; 1; 0] (FList [FI 1]) = CErr CNotImplemented
  /\ convert_u [1; 1; 0] [1; 0; 0] (FList [FI 0]) = CErr CTypeError
  /\ convert_u [1; 1; 0] [1; 0; 0] (FPair [FNp 0] []) = COk (mkPart [1] [0] [2] [], mkPart [0] [] [1; 2] []).
Proof. repeat split. Qed.
(* outside the hypothesis of 1: a specification with a repeated index is accepted by the code and
   produces a frozen list with a repeated orbital (the core energy would count it twice) *)
Example C04_duplicate_index_not_rejected :
  exists occ s p, convert_r occ s = COk p /\ ~ NoDup (focc p).
Proof.
  exists [2; 2; 0], (FList [FI 0; FI 0]), (mkPart [1] [0; 0] [2] []). split; [reflexivity|].
  intro H. inversion H as [|x l Hn _]; subst. apply Hn. simpl. auto.
Qed.
(* the symmetry hypothesis of 7/8 is satisfiable by a tensor that is not constant, and the identity
   evaluates on it *)
Definition ex_g : T4t QcR := fun p q r s => qz (Z.of_nat ((p + 1) * (s + 1) * (q + 2) * (r + 2) + (q + 1) * (r + 1) * (p + 2) * (s + 2))).
Definition ex_h : T2t QcR := fun p q => qz (Z.of_nat (p + 3 * q + 1)).
Example C04_example_symmetric_tensor :
  exch_sym QcR ex_g
  /\ Qcanon.Qc_eq_bool (Qcanon.Qcplus (of_core QcR ex_h ex_g [0; 2]) (e_det QcR (of_h1 QcR ex_h ex_g [0; 2]) ex_g [1; 3] [1]))
                (e_det QcR ex_h ex_g ([0; 2] ++ [1; 3]) ([0; 2] ++ [1])) = true
  /\ Qcanon.Qc_eq_bool (ex_g 0 1 2 3) (ex_g 0 1 3 2) = false.
Proof.
  split; [|split; vm_compute; reflexivity].
  intros p q r s. unfold ex_g. f_equal. f_equal. lia.
Qed.
