(* C16 — Operator arithmetic returns correct values and never mutates operands.
   Property theorems only.  Models: Pauli/{Word,Action,Store,Multiform}.v, Fermion/Fock.v;
   proofs: QSem/BitLemmas.v, Pauli/{WordProofs,ActionProofs,StoreProofs,MultiformProofs}.v;
   tables regenerated from tangelo/toolboxes/operators/multiformoperator.py: Gen.MultiformTables.
   Generic statements hold for every number structure S : KS (in particular CRealS, the complex
   numbers, and CycS, the executable one).  [asis = true] is the source as written, [asis = false] the
   minimal repair recorded in known_findings.d/C16.json. *)
From Coq Require Import NArith ZArith List Bool String.
From Tangelo Require Import Num.KStruct Num.Cyc QSem.State QSem.BitLemmas Fermion.Fock
     Pauli.Word Pauli.Action Pauli.WordProofs Pauli.ActionProofs
     Pauli.Store Pauli.StoreProofs Pauli.Multiform Pauli.MultiformProofs Pauli.C16Exec.
From Gen Require Import MultiformTables.
Import ListNotations.
Open Scope list_scope.

(* ======================================================================== symbolic qubit operators *)
(* products of well-formed words are well-formed, and denote the composition up to the phase i^e *)
Theorem C16_word_product :
  forall S a b, word_wf a = true -> word_wf b = true ->
    word_wf (fst (wmul a b)) = true /\
    forall psi x, kmul (ipow S (snd (wmul a b))) (word_den S (fst (wmul a b)) psi x)
                  = word_den S a (word_den S b psi) x.
Proof. intros S a b Ha Hb. split; [apply wmul_wf; assumption | apply word_den_wmul; assumption]. Qed.
Print Assumptions C16_word_product.

(* qubitop_mul_action: den (A*B) = den A o den B, for all operators over well-formed words *)
Theorem C16_qubitop_mul_action :
  forall S (a b : op S), op_wf S a -> op_wf S b ->
    forall psi x, op_den S (op_mul S a b) psi x = op_den S a (op_den S b psi) x.
Proof. exact op_den_mul. Qed.
Print Assumptions C16_qubitop_mul_action.

(* sums, differences, scalar multiples, merging of duplicate words and dropping of zero terms *)
Theorem C16_qubitop_linear_action :
  forall S (a b : op S) (c : K S) psi x,
    op_den S (op_add S a b) psi x = kadd (op_den S a psi x) (op_den S b psi x)
    /\ op_den S (op_sub S a b) psi x = ksub (op_den S a psi x) (op_den S b psi x)
    /\ op_den S (op_scale S c a) psi x = kmul c (op_den S a psi x)
    /\ op_den S (op_merge S a) psi x = op_den S a psi x
    /\ (forall kzero, (forall c, kzero c = true -> c = k0) ->
                      op_den S (collapse S kzero a) psi x = op_den S a psi x).
Proof.
  intros. repeat split; [apply op_den_add | apply op_den_sub | apply op_den_scale | apply op_den_merge |].
  intros kzero Hz. apply op_den_collapse. exact Hz.
Qed.
Print Assumptions C16_qubitop_linear_action.

(* commutation of words: decided by wcommute, visible in the phases of the two products and in the
   denotations (the converse needs 1 <> 0) *)
Theorem C16_wcommute_iff :
  forall a b,
    fst (wmul b a) = fst (wmul a b)
    /\ (wcommute a b = true <-> (snd (wmul a b) mod 4 = snd (wmul b a) mod 4)%Z)
    /\ (wcommute a b = false -> (snd (wmul b a) mod 4 = (snd (wmul a b) + 2) mod 4)%Z).
Proof.
  intros a b. split; [apply wmul_swap_word|]. split; [apply wcommute_iff_phase|apply wanticommute_phase].
Qed.
Print Assumptions C16_wcommute_iff.

Theorem C16_wcommute_iff_den :
  forall S a b, @k1 S <> k0 -> word_wf a = true -> word_wf b = true ->
    (wcommute a b = true <->
     forall psi x, word_den S a (word_den S b psi) x = word_den S b (word_den S a psi) x).
Proof. exact wcommute_iff_den. Qed.
Print Assumptions C16_wcommute_iff_den.

(* every Pauli word is an involution: w * w is the empty word with phase i^0, for every word (no
   well-formedness needed), hence den w (den w psi) = psi for well-formed words; commutation is
   symmetric and reflexive *)
Theorem C16_word_involution :
  forall w, wmul w w = ([], 0%Z).
Proof. exact wmul_self. Qed.
Print Assumptions C16_word_involution.

Theorem C16_word_involution_den :
  forall S w, word_wf w = true -> forall psi x, word_den S w (word_den S w psi) x = psi x.
Proof. intros S w. exact (word_den_involution S w). Qed.
Print Assumptions C16_word_involution_den.

Theorem C16_wcommute_symmetric_reflexive :
  forall a b, wcommute b a = wcommute a b /\ wcommute a a = true /\ wcommute [] b = true.
Proof. intros a b. split; [apply wcommute_sym|]. split; [apply wcommute_self|apply wcommute_nil_l]. Qed.
Print Assumptions C16_wcommute_symmetric_reflexive.

(* ======================================================================== fermionic operators: values *)
(* every linear observable f of the dictionaries produced by the openfermion loops the Tangelo methods
   delegate to is the algebraic one (f = indicator of a key: a coefficient; f = melem: a matrix element) *)
Theorem C16_fermion_dict_values :
  forall S (small : K S -> bool), (forall c, small c = true -> c = k0) ->
  forall (a b : fdict S) (c : K S) f,
    fsum S (iadd_terms S small a b) f = kadd (fsum S a f) (fsum S b f)
    /\ fsum S (isub_terms S small a b) f = ksub (fsum S a f) (fsum S b f)
    /\ fsum S (imul_terms S a b) f = fsum S a (fun s => fsum S b (fun t => f (s ++ t)))
    /\ fsum S (scale_terms S c a) f = kmul c (fsum S a f)
    /\ fsum S (add_const S c a) f = kadd (fsum S a f) (kmul c (f [])).
Proof.
  intros S small Hs a b c f. repeat split.
  - apply iadd_terms_sum, Hs.
  - apply isub_terms_sum, Hs.
  - apply imul_terms_sum.
  - apply scale_terms_sum.
  - apply add_const_sum.
Qed.
Print Assumptions C16_fermion_dict_values.

(* matrix elements: the dictionaries have the matrix elements of Fock.fop_add / fop_mul / fop_scale;
   concatenated keys act as the composition of the factors *)
Theorem C16_fermion_matrix_elements :
  forall S (small : K S -> bool), (forall c, small c = true -> c = k0) ->
  forall (a b : fdict S) (c : K S) d' d,
    fop_elem S (iadd_terms S small a b) d' d = fop_elem S (fop_add S a b) d' d
    /\ fop_elem S (imul_terms S a b) d' d = fop_elem S (fop_mul S a b) d' d
    /\ fop_elem S (scale_terms S c a) d' d = fop_elem S (fop_scale S c a) d' d
    /\ forall s t, apply_term (s ++ t) d =
                   match apply_term t d with
                   | None => None
                   | Some (sg, e) => match apply_term s e with
                                     | None => None
                                     | Some (sg', e') => Some (xorb sg sg', e')
                                     end
                   end.
Proof.
  intros S small Hs a b c d' d. repeat split.
  - apply iadd_terms_elem, Hs.
  - apply imul_terms_elem.
  - apply scale_terms_elem.
  - intros s t. apply apply_term_app.
Qed.
Print Assumptions C16_fermion_matrix_elements.

(* fermion_arith_values, heap level, repaired definitions: + - * of two Tangelo operators with equal
   attributes return a NEW object of the same class and attributes whose dictionary is the result *)
Theorem C16_fermion_arith_values :
  forall S (small : K S -> bool), (forall c, small c = true -> c = k0) ->
  forall h i j, both_tg S h i j ->
    (exists o, binop S small false Add h (VObj i) (VObj j) = (h ++ [o], Ok (List.length h)) /\
               o_cls o = CTg /\ o_attrs o = o_attrs (hget S h i) /\
               forall f, fsum S (o_terms o) f = kadd (fsum S (o_terms (hget S h i)) f) (fsum S (o_terms (hget S h j)) f))
    /\ (exists o, binop S small false Sub h (VObj i) (VObj j) = (h ++ [o], Ok (List.length h)) /\
               o_cls o = CTg /\ o_attrs o = o_attrs (hget S h i) /\
               forall f, fsum S (o_terms o) f = ksub (fsum S (o_terms (hget S h i)) f) (fsum S (o_terms (hget S h j)) f))
    /\ (exists o, binop S small false Mul h (VObj i) (VObj j) = (h ++ [o], Ok (List.length h)) /\
               o_cls o = CTg /\ o_attrs o = o_attrs (hget S h i) /\
               forall f, fsum S (o_terms o) f =
                         fsum S (o_terms (hget S h i)) (fun s => fsum S (o_terms (hget S h j)) (fun t => f (s ++ t)))).
Proof.
  intros S small Hs h i j Hb. repeat split.
  - apply tg_add_values_repaired; assumption.
  - apply tg_sub_values_repaired; assumption.
  - apply tg_mul_values_repaired; assumption.
Qed.
Print Assumptions C16_fermion_arith_values.

(* scalar forms with the object on either side (repaired definitions) *)
Theorem C16_fermion_scalar_values :
  forall S (small : K S -> bool) h i (c : K S), obj_cls S h i = CTg ->
    (exists o, binop S small false Mul h (VObj i) (VNum c) = (h ++ [o], Ok (List.length h)) /\
               forall f, fsum S (o_terms o) f = kmul c (fsum S (o_terms (hget S h i)) f)) /\
    (exists o, binop S small false Mul h (VNum c) (VObj i) = (h ++ [o], Ok (List.length h)) /\
               forall f, fsum S (o_terms o) f = kmul c (fsum S (o_terms (hget S h i)) f)) /\
    (exists o, binop S small false Add h (VObj i) (VNum c) = (h ++ [o], Ok (List.length h)) /\
               forall f, fsum S (o_terms o) f = kadd (fsum S (o_terms (hget S h i)) f) (kmul c (f []))) /\
    (exists o, binop S small false Add h (VNum c) (VObj i) = (h ++ [o], Ok (List.length h)) /\
               forall f, fsum S (o_terms o) f = kadd (fsum S (o_terms (hget S h i)) f) (kmul c (f []))) /\
    (exists o, binop S small false Sub h (VObj i) (VNum c) = (h ++ [o], Ok (List.length h)) /\
               forall f, fsum S (o_terms o) f = ksub (fsum S (o_terms (hget S h i)) f) (kmul c (f []))) /\
    (exists o, binop S small false Sub h (VNum c) (VObj i) = (h ++ [o], Ok (List.length h)) /\
               forall f, fsum S (o_terms o) f = ksub (kmul c (f [])) (fsum S (o_terms (hget S h i)) f)).
Proof. exact tg_scalar_values_repaired. Qed.
Print Assumptions C16_fermion_scalar_values.

(* ======================================================================== fermionic operators: purity *)
(* repaired definitions: for ALL operand kinds (Tangelo / openfermion objects, scalars, None, aliased
   operands) and all three operators, either a new object is appended and no existing object changes,
   or an exception is raised and the heap is unchanged *)
Theorem C16_fermion_arith_pure :
  forall S (small : K S -> bool) op (h : heap S) x y,
    (exists o, fst (binop S small false op h x y) = h ++ [o] /\ snd (binop S small false op h x y) = Ok (List.length h))
    \/ (fst (binop S small false op h x y) = h /\ exists e, snd (binop S small false op h x y) = Err e).
Proof. exact binop_repaired_pure. Qed.
Print Assumptions C16_fermion_arith_pure.

(* the in-place operators += -= *= change nothing but their left operand (repaired definitions) *)
Theorem C16_fermion_inplace_frame :
  forall S (small : K S -> bool) op (h : heap S) i y k, k <> i ->
    hget S (fst (iop S small false op h i y)) k = hget S h k.
Proof. exact iop_repaired_frame. Qed.
Print Assumptions C16_fermion_inplace_frame.

(* as written: a + b, a - b, a * b return a itself, modified; a - b also negates b; a - a is -2a *)
Definition tA : fdict CycS := [([(1%N, true); (0%N, false)], cyz 2)].
Definition tB : fdict CycS := [([(2%N, true); (1%N, false)], cyz 3)].
Definition h0 : heap CycS := [mkObj CTg no_attrs tA; mkObj CTg no_attrs tB].

Theorem C16_fermion_arith_pure_refuted :
  forall op, exists h x y k,
    snd (binop CycS small_cy true op h x y) = Ok k /\ k < List.length h
    /\ show_obj (hget CycS (fst (binop CycS small_cy true op h x y)) k) <> show_obj (hget CycS h k).
Proof.
  intro op. exists h0, (VObj 0), (VObj 1), 0.
  destruct op; (split; [vm_compute; reflexivity|]); (split; [repeat constructor|]);
    vm_compute; discriminate.
Qed.
Print Assumptions C16_fermion_arith_pure_refuted.

Example C16_asis_reflected_forms_mutate :
  (* 3 + a, 3 - a, 3 * a with a = 2 [1^ 0] : the result is a itself *)
  map (fun op => show_out (snd (binop CycS small_cy true op h0 (VNum (cyz 3)) (VObj 0)))) [Add; Sub; Mul]
  = ["Ok 0"; "Ok 0"; "Ok 0"]%string
  /\ map (fun op => show_obj (hget CycS (fst (binop CycS small_cy true op h0 (VNum (cyz 3)) (VObj 0))) 0)) [Add; Sub; Mul]
  = ["Tg[N,N,N]{(1^ 0):2,0; ():3,0}"; "Tg[N,N,N]{(1^ 0):-2,0; ():3,0}"; "Tg[N,N,N]{(1^ 0):6,0}"]%string.
Proof. vm_compute. split; reflexivity. Qed.

Example C16_asis_sub_negates_right_operand :
  show_heap (fst (binop CycS small_cy true Sub h0 (VObj 0) (VObj 1)))
  = "Tg[N,N,N]{(1^ 0):2,0; (2^ 1):-3,0} | Tg[N,N,N]{(2^ 1):-3,0}"%string.
Proof. vm_compute. reflexivity. Qed.

Example C16_asis_sub_aliased_wrong_value :
  (* a - a with a = 2 [1^ 0] : -4 [1^ 0] as written, the empty operator when repaired *)
  show_heap (fst (binop CycS small_cy true Sub h0 (VObj 0) (VObj 0)))
  = "Tg[N,N,N]{(1^ 0):-4,0} | Tg[N,N,N]{(2^ 1):3,0}"%string
  /\ show_heap (fst (binop CycS small_cy false Sub h0 (VObj 0) (VObj 0)))
  = "Tg[N,N,N]{(1^ 0):2,0} | Tg[N,N,N]{(2^ 1):3,0} | Tg[N,N,N]{}"%string.
Proof. vm_compute. split; reflexivity. Qed.

(* non-vacuity of the hypotheses of C16_fermion_arith_values and the sound zero test *)
Example C16_values_nonvacuous :
  both_tg CycS h0 0 1 /\ (forall c, small_cy c = true -> c = @k0 CycS)
  /\ show_heap (fst (binop CycS small_cy false Mul h0 (VObj 0) (VObj 1)))
     = "Tg[N,N,N]{(1^ 0):2,0} | Tg[N,N,N]{(2^ 1):3,0} | Tg[N,N,N]{(1^ 0 2^ 1):6,0}"%string.
Proof. split; [|split]; [vm_compute; repeat split | exact small_cy_sound | vm_compute; reflexivity]. Qed.

(* ======================================================================== QubitHamiltonian with a plain operand *)
Theorem C16_qubitham_plain_operand_refuted :
  exists self, forall upper,
    qh_iadd_outcome upper true self None = Err AttributeError
    /\ qh_eq_outcome upper true self None = Err AttributeError.
Proof. exists (mkQ (Some "JW"%string) (Some false)). intro upper. split; reflexivity. Qed.
Print Assumptions C16_qubitham_plain_operand_refuted.

Theorem C16_qubitham_bare_plain_operand_refuted :
  exists self, forall upper, qh_iadd_outcome upper true self None = Err TypeError.
Proof. exists (mkQ None None). intro upper. reflexivity. Qed.

(* repaired: for every annotation of self, a plain operand passes the check, is added, and == compares
   the dictionaries (the documented "check is ignored") *)
Theorem C16_qubitham_plain_operand :
  forall upper self,
    qh_iadd_outcome upper false self None = Ok tt /\ qh_eq_outcome upper false self None = Ok true.
Proof.
  intros upper [[m|] [u|]]; split; reflexivity.
Qed.
Print Assumptions C16_qubitham_plain_operand.

(* two annotated Hamiltonians: accepted iff mappings agree up to case and orderings agree (both variants) *)
Theorem C16_qubitham_annotated :
  forall upper asis m1 u1 m2 u2,
    qh_iadd_outcome upper asis (mkQ (Some m1) (Some u1)) (Some (mkQ (Some m2) (Some u2))) = Ok tt
    <-> (upper m1 = upper m2 /\ u1 = u2).
Proof.
  intros upper asis m1 u1 m2 u2. unfold qh_iadd_outcome, qh_check. simpl.
  destruct (String.eqb_spec (upper m1) (upper m2)) as [E|E]; simpl.
  - destruct u1, u2; simpl; split; intro H; try discriminate; try (destruct H; discriminate); auto.
  - split; [discriminate|intros [H _]; contradiction].
Qed.
Print Assumptions C16_qubitham_annotated.

(* ======================================================================== array form *)
(* c_calc_is_pauli_phase: the 16 regenerated entries are the phases of pmul1 (identity included), the
   xor of the integer codes is the code of the product, the table is 4 x 4 *)
Theorem C16_c_calc_is_pauli_phase : c_calc_check c_calc_tab = true.
Proof. vm_compute. reflexivity. Qed.
Print Assumptions C16_c_calc_is_pauli_phase.

Theorem C16_c_calc_is_pauli_phase_lifted :
  forall S x y, (x < 4)%N -> (y < 4)%N ->
    cc_of_table S c_calc_tab x y = ipow S (snd (pmul_opt (pdecode x) (pdecode y)))
    /\ N.lxor x y = pcode (fst (pmul_opt (pdecode x) (pdecode y))).
Proof. intro S. exact (c_calc_check_sound S c_calc_tab C16_c_calc_is_pauli_phase). Qed.
Print Assumptions C16_c_calc_is_pauli_phase_lifted.

(* the regenerated ConvertPauli table is pcode/pdecode with x = integer >> 1, z = integer mod 2 *)
Definition translation_check (tab : list (nat * N * (bool * bool))) : bool :=
  Nat.eqb (List.length tab) 4
  && forallb (fun k => existsb (fun r => Nat.eqb (fst (fst r)) k) tab) [0; 1; 2; 3]
  && forallb (fun r => match pauli_of_letter (fst (fst r)) with
                       | Some p => N.eqb (pcode p) (snd (fst r))
                                   && Bool.eqb (xbit (snd (fst r))) (fst (snd r))
                                   && Bool.eqb (zbit (snd (fst r))) (snd (snd r))
                       | None => false
                       end) tab.
Theorem C16_pauli_translation_ok : translation_check pauli_translation = true.
Proof. vm_compute. reflexivity. Qed.
Print Assumptions C16_pauli_translation_ok.

(* multiform_mul_agrees: for all array-form operators of a common width with codes 0..3, the double
   loop of __mul__ (xor of rows, factor f_i f_j prod c_calc) is op_mul on the decoded operators, term
   by term; with collapse it denotes the composition; collapse leaves no zero factor *)
Theorem C16_multiform_mul_agrees :
  forall S n (A B : mfop S), mf_ok S n A -> mf_ok S n B ->
    mf_dec S (mf_mul_raw S (cc_of_table S c_calc_tab) A B) = op_mul S (mf_dec S A) (mf_dec S B)
    /\ mf_ok S n (mf_mul_raw S (cc_of_table S c_calc_tab) A B).
Proof.
  intros S n A B HA HB.
  assert (Hcc : forall x y, (x < 4)%N -> (y < 4)%N ->
     cc_of_table S c_calc_tab x y = ipow S (snd (pmul_opt (pdecode x) (pdecode y)))).
  { intros x y Hx Hy. apply (C16_c_calc_is_pauli_phase_lifted S x y Hx Hy). }
  split; [apply (mf_mul_raw_agrees S _ Hcc n); assumption | apply mf_mul_raw_ok; assumption].
Qed.
Print Assumptions C16_multiform_mul_agrees.

Theorem C16_multiform_mul_action :
  forall S (kzero : K S -> bool), (forall c, kzero c = true -> c = k0) ->
  forall n (A B : mfop S), mf_ok S n A -> mf_ok S n B ->
    (forall psi x, op_den S (mf_dec S (mf_mul S (cc_of_table S c_calc_tab) kzero A B)) psi x
                   = op_den S (mf_dec S A) (op_den S (mf_dec S B) psi) x)
    /\ Forall (fun t => kzero (snd t) = false) (mf_mul S (cc_of_table S c_calc_tab) kzero A B).
Proof.
  intros S kzero Hz n A B HA HB.
  assert (Hcc : forall x y, (x < 4)%N -> (y < 4)%N ->
     cc_of_table S c_calc_tab x y = ipow S (snd (pmul_opt (pdecode x) (pdecode y)))).
  { intros x y Hx Hy. apply (C16_c_calc_is_pauli_phase_lifted S x y Hx Hy). }
  split; [apply (mf_mul_den S _ Hcc kzero n); assumption | apply mf_collapse_nonzero].
Qed.
Print Assumptions C16_multiform_mul_action.

(* collapse alone preserves the operator *)
Theorem C16_multiform_collapse :
  forall S (kzero : K S -> bool), (forall c, kzero c = true -> c = k0) ->
  forall (A : mfop S) psi x,
    op_den S (mf_dec S (mf_collapse S kzero A)) psi x = op_den S (mf_dec S A) psi x.
Proof. intros S kzero Hz A psi x. apply mf_collapse_den. exact Hz. Qed.
Print Assumptions C16_multiform_collapse.

(* the row numbers collapse works with are unbounded, as the positions in the model's list are: the dtype of the
   index column read from the source holds every row number (an int8 column would wrap at 128 rows) *)
Theorem C16_collapse_index_unbounded : index_column_unbounded collapse_index_max.
Proof. exact (fun _ => I). Qed.
Print Assumptions C16_collapse_index_unbounded.

(* remove_terms (as regenerated: the attributes it shortens) keeps integer, binary = (x|z) and binary_swap = (z|x)
   describing the same rows, for all objects and all index sets; a variant that forgets one form is refuted;
   _update assigns every form *)
Theorem C16_remove_terms_keeps_forms :
  forall idx F, forms_ok F -> forms_ok (mf_remove_forms remove_terms_updates idx F).
Proof. intros idx F. apply remove_forms_ok. vm_compute. reflexivity. Qed.
Print Assumptions C16_remove_terms_keeps_forms.

Theorem C16_remove_terms_stale_form_refuted :
  exists F idx, forms_ok F /\
    ~ forms_ok (mf_remove_forms ["factors"; "integer"; "binary_swap"; "terms"]%string idx F).
Proof. exact remove_forms_stale_binary_refuted. Qed.

Theorem C16_update_assigns_all_forms :
  forallb (fun a => has_name a update_assigns) ["n_qubits"; "factors"; "integer"; "binary"; "binary_swap"]%string = true.
Proof. vm_compute. reflexivity. Qed.
Print Assumptions C16_update_assigns_all_forms.

(* symplectic_iff_commute, all rows *)
Theorem C16_symplectic_iff_commute :
  forall a b, List.length a = List.length b -> iword_ok a -> iword_ok b ->
    symp a b = negb (wcommute (dec a) (dec b)).
Proof. exact symplectic_iff_commute. Qed.
Print Assumptions C16_symplectic_iff_commute.

(* do_commute at operator level: with `not any` it is true iff all term pairs commute; term_resolved
   is right in both variants; the reduction as written (`not all`) is refuted *)
Theorem C16_do_commute_operator_level :
  forall n A B, rows_ok n A -> rows_ok n B ->
    (do_commute_repaired A B = true <-> forall a b, In a A -> In b B -> wcommute (dec a) (dec b) = true)
    /\ Forall2 (fun a r => r = true <-> forall b, In b B -> wcommute (dec a) (dec b) = true)
               A (do_commute_terms A B).
Proof.
  intros n A B HA HB. split; [apply (do_commute_repaired_iff n) | apply (do_commute_terms_spec n)]; assumption.
Qed.
Print Assumptions C16_do_commute_operator_level.

Theorem C16_do_commute_operator_level_refuted :
  exists A B, rows_ok 2 A /\ rows_ok 2 B /\ do_commute_asis A B = true /\
              exists a b, In a A /\ In b B /\ wcommute (dec a) (dec b) = false.
Proof. exact do_commute_asis_refuted. Qed.
Print Assumptions C16_do_commute_operator_level_refuted.

(* non-vacuity: a concrete array product, X0 Z1 * (Y0 + 1/2 Z1), through the regenerated table *)
Example C16_multiform_example :
  show_mfop (mf_mul CycS (cc_of_table CycS c_calc_tab) small_cy
                    [([2; 1]%N, cyz 1)] [([3; 0]%N, cyz 1); ([0; 1]%N, cyq 1 2 0 1)])
  = "{11:0,1; 20:1/2,0}"%string
  /\ show_op (canon (op_mul CycS [([(0%N, PX); (1%N, PZ)], cyz 1)]
                            [([(0%N, PY)], cyz 1); ([(1%N, PZ)], cyq 1 2 0 1)]))
  = "{(X0):1/2,0; (Z0 Z1):0,1}"%string.
Proof. vm_compute. split; reflexivity. Qed.
