(* C19 — Noisy simulation applies exactly the specified channels.
   Property theorems only (closed by exact/apply of lemmas from coq/theories), each followed by
   Print Assumptions.  Models: QSem/Density.v (density matrices, Pauli / depolarising channels),
   Linq/Noise.v (NoiseModel.add_quantum_error, the channel-insertion loop of translate_c_to_cirq,
   Backend.__init__); proofs: QSem/DensityProofs.v, Linq/NoiseProofs.v, Linq/NoiseReal.v.
   Constants regenerated from the source on every run: Gen.NoiseTables (noise type names, list length,
   SUPPORTED_NOISE_MODELS, CNOT->CX renaming rule and which name is looked up, the rate expression
   np*(4**k-1)/4**k over Qc and over R, backend_info flags).
   Theorems are stated for EVERY number structure S : KS (so for the complex numbers CRealS with real
   rates, and for the exact executable instance CycS); rates are arbitrary ring elements. *)
From Coq Require Import String ZArith NArith QArith Qcanon List Bool Reals.
From Tangelo Require Import Num.KStruct Num.CReal Num.Cyc Num.Show QSem.State QSem.Density QSem.DensityProofs QSem.DensityRefine.
From Tangelo Require Import Linq.GateModel Linq.Interp Linq.LinqZ Linq.Noise Linq.NoiseProofs Linq.NoiseReal Linq.NoiseRun.
From Gen Require Import NoiseTables.
Import ListNotations.
Open Scope string_scope.

(* ------------------------------------------------------------------------------------------------
   1. noise_placement.  For every circuit (any gates, any length), every noise model (any errors on any
      gate names, incl. a Pauli and a depolarising error on one name), any look-up rule `key` and any
      validity predicates of the channel constructors: whatever the translation loop appends is the
      specified placement  flat_map (g |-> g :: channels(g))  where channels(g) lists every error
      attached to key(g), in attachment order, Pauli errors as one channel per qubit on targets then
      controls, depolarising errors as one channel on targets ++ controls. *)
Theorem C19_noise_placement :
  forall Rate Ang pauli_ok depol_ok T key (nm : nmodel Rate) (gates : list (pgate Ang)) ops,
    translate_noisy Rate Ang pauli_ok depol_ok T key nm gates = Ok ops ->
    ops = spec_insert Rate Ang T key nm gates.
Proof. exact noise_placement. Qed.
Print Assumptions C19_noise_placement.

(* ... and the loop succeeds whenever every channel it has to build is accepted by cirq *)
Theorem C19_noise_placement_total :
  forall Rate Ang pauli_ok depol_ok T key (nm : nmodel Rate) (gates : list (pgate Ang)),
    (forall g e, In g gates -> In e (errors_on Rate nm (key g)) ->
                 chan_valid Rate Ang pauli_ok depol_ok T g e = true) ->
    translate_noisy Rate Ang pauli_ok depol_ok T key nm gates = Ok (spec_insert Rate Ang T key nm gates).
Proof. exact noise_placement_total. Qed.
Print Assumptions C19_noise_placement_total.

(* "after every occurrence, in gate order": the placement is local to each occurrence ... *)
Theorem C19_placement_after_every_occurrence :
  forall Rate Ang T key (nm : nmodel Rate) (a : list (pgate Ang)) g b,
    spec_insert Rate Ang T key nm (a ++ g :: b)%list
    = (spec_insert Rate Ang T key nm a ++ LGate g :: spec_after Rate Ang T key nm g ++ spec_insert Rate Ang T key nm b)%list.
Proof. exact spec_insert_occurrence. Qed.
Print Assumptions C19_placement_after_every_occurrence.

(* ... and erasing the channels gives back the gates, in order (nothing else is added or dropped) *)
Theorem C19_placement_keeps_gates :
  forall Rate Ang T key (nm : nmodel Rate) (gates : list (pgate Ang)),
    lgates_of Rate Ang (spec_insert Rate Ang T key nm gates) = gates.
Proof. exact spec_insert_gates. Qed.
Print Assumptions C19_placement_keeps_gates.

(* ------------------------------------------------------------------------------------------------
   2. pauli_channel_kraus.  The asymmetric depolarising channel
        rho |-> (1-px-py-pz) rho + px X rho X + py Y rho Y + pz Z rho Z      (a mixture of unitary conjugations)
      has weights adding up to one, the entrywise closed form below, is the identity when all rates are 0
      and preserves the sum of each diagonal pair {x, x xor 2^q} (entrywise trace preservation). *)
Theorem C19_pauli_channel_kraus :
  forall (S : KS) (px py pz : K S) (q : N) (rho : dens S),
    kadd (kadd (kadd (ksub (ksub (ksub k1 px) py) pz) px) py) pz = k1
    /\ deq S (pauli_chan S px py pz q rho) (pauli_chan_closed S px py pz q rho)
    /\ deq S (pauli_chan S k0 k0 k0 q rho) rho
    /\ (forall x, kadd (pauli_chan S px py pz q rho x x) (pauli_chan S px py pz q rho (flip x q) (flip x q))
                  = kadd (rho x x) (rho (flip x q) (flip x q))).
Proof.
  intros S px py pz q rho. split; [apply pauli_chan_weights|]. split; [apply pauli_chan_closed_ok|].
  split; [apply pauli_chan_zero | apply pauli_chan_trace_pair].
Qed.
Print Assumptions C19_pauli_channel_kraus.

(* the Kraus operators are unitary: every Pauli conjugation is an involution *)
Theorem C19_pauli_conjugation_involutive :
  forall (S : KS) l q (rho : dens S), deq S (pconj S l q (pconj S l q rho)) rho.
Proof. exact pconj_invol. Qed.
Print Assumptions C19_pauli_conjugation_involutive.

(* trace preservation over an n-qubit register *)
Theorem C19_pauli_channel_trace :
  forall (S : KS) n (px py pz : K S) q (rho : dens S),
    (q < N.of_nat n)%N -> dtrace S n (pauli_chan S px py pz q rho) = dtrace S n rho.
Proof. exact pauli_chan_trace. Qed.
Print Assumptions C19_pauli_channel_trace.

(* ------------------------------------------------------------------------------------------------
   3. depolarize_rate_conversion, for EVERY number of qubits k = length qs (not only k = 1, 2).
      cirq.depolarize(p', k) puts weight 1-p' on the identity string and the same weight on each of the
      4^k - 1 other Pauli strings.  With Tangelo's p' = p (4^k-1)/4^k:
        (a) the 4^k - 1 equal weights p/4^k add up to p', the identity weight is 1 - p + p/4^k, all
            weights add up to 1;
        (b) the channel is  rho |-> (1-p) rho + p * (uniform Pauli twirl of rho);
        (c) the twirl is  I/2^k (x) tr_k rho  (qubit by qubit: zero unless row and column agree on the
            qubit, else the mean of the two diagonal blocks);
        (d) it preserves the trace. *)
Theorem C19_depolarize_weights :
  forall (S : KS) (p : K S) k,
    kmul (ksub (kpow S (four S) k) k1) (each_weight S p k) = tangelo_rate S p k
    /\ ksub k1 (tangelo_rate S p k) = kadd (ksub k1 p) (each_weight S p k)
    /\ ksuml S (map (cirq_weights S (ksub k1 (tangelo_rate S p k)) (each_weight S p k)) (strings k)) = k1.
Proof.
  intros S p k. split; [apply tangelo_rate_split|]. split; [apply tangelo_identity_weight | apply depol_weights_total].
Qed.
Print Assumptions C19_depolarize_weights.

Theorem C19_depolarize_rate_conversion :
  forall (S : KS) (p : K S) (qs : list N) (rho : dens S),
    deq S (depol_tangelo S p qs rho) (depol_twirl S p qs rho).
Proof. exact depol_tangelo_twirl. Qed.
Print Assumptions C19_depolarize_rate_conversion.

Theorem C19_twirl_is_partial_trace :
  forall (S : KS) (qs : list N) (rho : dens S), deq S (twirl S qs rho) (ptrace_mix_all S qs rho).
Proof. exact twirl_ptrace. Qed.
Print Assumptions C19_twirl_is_partial_trace.

Theorem C19_depolarize_trace :
  forall (S : KS) n (p : K S) qs (rho : dens S),
    Forall (fun q => (q < N.of_nat n)%N) qs -> dtrace S n (depol_tangelo S p qs rho) = dtrace S n rho.
Proof. exact depol_trace. Qed.
Print Assumptions C19_depolarize_trace.

(* the same for real rates, on the expression REGENERATED from translate_cirq.py (depol_rate_R):
   each non-identity string gets p'/(4^k-1) = p/4^k, the identity 1 - p' = 1 - p + p/4^k; a rate in [0,1]
   gives a probability; and Density.v's ring-level rate computed in the complex numbers is this expression *)
Theorem C19_depolarize_rate_conversion_real :
  forall (p : R) (k : nat), (1 <= k)%nat ->
    (depol_rate_R p k / (4 ^ k - 1) = p / 4 ^ k)%R /\ (1 - depol_rate_R p k = 1 - p + p / 4 ^ k)%R.
Proof. exact rate_conversion_real. Qed.
Print Assumptions C19_depolarize_rate_conversion_real.

Theorem C19_depolarize_rate_range_real :
  forall (p : R) (k : nat), (0 <= p <= 1)%R -> (0 <= depol_rate_R p k <= 1 - / 4 ^ k)%R.
Proof. exact rate_range_real. Qed.
Print Assumptions C19_depolarize_rate_range_real.

(* which parameters are channels: the value handed to cirq.depolarize is a probability exactly when
   0 <= p <= 4^k/(4^k-1).  So every p in [0,1] is accepted, p in (1, 4^k/(4^k-1)] is a valid channel too (the
   algebraic theorems above hold for every ring element p, hence on this whole range), and only p outside
   [0, 4^k/(4^k-1)] has to be rejected (cirq's constructor does it when the noisy circuit is translated). *)
Theorem C19_depolarize_channel_range_real :
  forall (p : R) (k : nat), (1 <= k)%nat ->
    ((0 <= depol_rate_R p k <= 1)%R <-> (0 <= p <= 4 ^ k / (4 ^ k - 1))%R).
Proof. exact rate_channel_range_real. Qed.
Print Assumptions C19_depolarize_channel_range_real.

Theorem C19_model_rate_is_source_expression :
  forall (p : R) (k : nat),
    tangelo_rate CRealS (RtoC p) k = RtoC (depol_rate_R p k)
    /\ each_weight CRealS (RtoC p) k = RtoC (p / 4 ^ k)%R.
Proof. intros p k. split; [apply tangelo_rate_real | apply each_weight_real]. Qed.
Print Assumptions C19_model_rate_is_source_expression.

(* ------------------------------------------------------------------------------------------------
   4. zero_noise_is_noiseless.  For every circuit, every noise model all of whose rates are zero, every
      look-up rule: if the translation succeeds and its operations are interpretable, the gate list is
      interpretable and the noisy denotation of |psi><psi| is |C psi><C psi| for the noiseless circuit C. *)
Theorem C19_zero_noise_is_noiseless :
  forall Rate Ang pauli_ok depol_ok (S : KS) (ang : Ang -> A S) (rk : Rate -> K S)
         T key (nm : nmodel Rate) (gates : list (pgate Ang)) ops nops,
    nm_zero Rate S rk nm ->
    translate_noisy Rate Ang pauli_ok depol_ok T key nm gates = Ok ops ->
    interp_lops Rate Ang S ang rk ops = Some nops ->
    exists C, interp_all S Ang ang gates = Some C
              /\ forall psi, deq S (den_nops S nops (pure S psi)) (pure S (den S C psi)).
Proof. exact zero_noise_is_noiseless. Qed.
Print Assumptions C19_zero_noise_is_noiseless.

(* the semantic core: a noisy program with zero rates acts on pure states as its gates do *)
Theorem C19_zero_rates_pure :
  forall (S : KS) (ops : list (nop S)) psi,
    Forall (nop_zero S) ops -> deq S (den_nops S ops (pure S psi)) (pure S (den S (gates_of S ops) psi)).
Proof. exact zero_noise_noiseless. Qed.
Print Assumptions C19_zero_rates_pure.

(* the closed forms used for exact execution denote the same as the Kraus forms *)
Theorem C19_fast_forms_correct :
  forall (S : KS) (o : nop S) (rho : dens S), deq S (den_nop_fast S o rho) (den_nop S o rho).
Proof. exact den_nop_fast_ok. Qed.
Print Assumptions C19_fast_forms_correct.

(* the tabulated execution used for the exact model values (2^n x 2^n tables, re-tabulated after every
   operation, from |0..0><0..0|) computes the denotation on all indices below 2^n, for every program that
   touches qubits below n only *)
Theorem C19_tabulated_execution_correct :
  forall (S : KS) n (ops : list (nop S)),
    Forall (fun o => Forall (fun q => (q < N.of_nat n)%N) (nop_qubits S o)) ops ->
    forall r c, lt2n n r -> lt2n n c ->
      duntab S (run_nops S n ops (rho0 S n)) r c = den_nops S ops (pure S (ket S 0)) r c.
Proof. exact run_nops_from_zero. Qed.
Print Assumptions C19_tabulated_execution_correct.

(* ------------------------------------------------------------------------------------------------
   5. noise_spec_validation_iff, on the regenerated constants: add_quantum_error accepts exactly the
      specifications whose type is supported, whose parameters have the shape the type requires, and whose
      type is not yet attached to that gate name; an accepted call appends to that gate's list only. *)
Theorem C19_noise_spec_validation_iff :
  forall Rate (nm : nmodel Rate) g nt np,
    (exists nm', add_quantum_error Rate ntab nm g nt np = Ok nm') <-> spec_wellformed Rate ntab nm g nt np.
Proof. exact (fun Rate => add_quantum_error_iff Rate ntab). Qed.
Print Assumptions C19_noise_spec_validation_iff.

Theorem C19_noise_spec_wellformed_explicit :
  forall Rate (nm : nmodel Rate) g nt np,
    spec_wellformed Rate ntab nm g nt np <->
    ((nt = "pauli" /\ exists l, np = VList l /\ length l = 3%nat) \/ (nt = "depol" /\ exists r, np = VFloat r))
    /\ ~ In nt (types_on Rate nm g).
Proof.
  intros Rate nm g nt np. unfold spec_wellformed. simpl. split.
  - intros [Hs [Hp [Hd Hn]]]. split; [|exact Hn].
    destruct Hs as [<-|[<-|[]]]; [right | left]; split; auto.
  - intros [[[-> Hl]|[-> Hr]] Hn]; (split; [auto|]); (split; [|split; [|exact Hn]]); intro E; try discriminate; auto.
Qed.
Print Assumptions C19_noise_spec_wellformed_explicit.

Theorem C19_noise_spec_effect :
  forall Rate (nm nm' : nmodel Rate) g nt np,
    add_quantum_error Rate ntab nm g nt np = Ok nm' ->
    errors_on Rate nm' g = (errors_on Rate nm g ++ [(nt, np)])%list
    /\ (forall h, h <> g -> errors_on Rate nm' h = errors_on Rate nm h).
Proof. exact (fun Rate nm nm' g nt np => add_quantum_error_effect Rate ntab nm g nt np nm'). Qed.
Print Assumptions C19_noise_spec_effect.

(* backends (flags regenerated from backend_info()): sympy rejects every noise model; cirq accepts one iff
   a number of shots is given *)
Theorem C19_backend_rejection :
  (forall shots, backend_init sympy_noisy sympy_sv shots true = Err ValueError)
  /\ (forall shots, backend_init cirq_noisy cirq_sv shots true = Ok tt <-> shots = true).
Proof.
  split.
  - intros [|]; reflexivity.
  - intros [|]; simpl; split; intro H; try reflexivity; discriminate.
Qed.
Print Assumptions C19_backend_rejection.

(* ------------------------------------------------------------------------------------------------
   6. The look-up rule.  translate_c_to_cirq renames a multi-controlled CNOT to CX on a copy.  The CURRENT
      source looks the noise up under the name the user gave the gate (saved before the renaming): with
      the regenerated constants the look-up key of every gate is its own name, so theorems 1-4 read "after
      every occurrence of each noisy gate".  The source BEFORE that repair looked the copy's name up
      (key_asis); the faithful model of that rule refutes the property for multi-controlled CNOT gates
      (kept as regression witnesses: the harness replays them on the real code on every run), and agrees
      with the intended rule on every circuit without such a gate. *)
Theorem C19_lookup_is_own_name : forall g : pgate Z, key_mode ntab lookup_renamed g = pname g.
Proof. intro g. reflexivity. Qed.
Print Assumptions C19_lookup_is_own_name.

Definition key_asis : pgate Z -> string := key_of Z (Some ("CNOT", "CX", 1%nat)).
Definition key_repaired : pgate Z -> string := key_of Z None.

Example C19_asis_rule_is_the_sources :
  if lookup_renamed then rename_rule ntab = Some ("CNOT", "CX", 1%nat) else True.
Proof. vm_compute. first [reflexivity | exact I]. Qed.

Definition ok3 (_ _ _ : Qc) : bool := true.
Definition okd (_ : Qc) (_ : nat) : bool := true.
Definition ccnot : zgate := G "CNOT" [2%Z] (Some [0%Z; 1%Z]) PNone false.

(* noise attached to "CNOT" is NOT applied after a CNOT gate with two controls ... *)
Theorem C19_noise_on_multicontrolled_cnot_refuted :
  exists (nm : znm) (gates : list zgate),
    errors_on Qc nm "CNOT" <> [] /\ Forall (fun g => pname g = "CNOT") gates
    /\ translate_noisy Qc Z ok3 okd ntab key_asis nm gates = Ok (map LGate gates)
    /\ spec_insert Qc Z ntab key_repaired nm gates <> map LGate gates.
Proof.
  exists [("CNOT", [("depol", VFloat (qrate 1 4))])], [ccnot].
  split; [discriminate|]. split; [repeat constructor|]. split; [reflexivity | discriminate].
Qed.
Print Assumptions C19_noise_on_multicontrolled_cnot_refuted.

(* ... while noise attached to "CX" IS applied after a gate named "CNOT" *)
Theorem C19_noise_on_cx_hits_cnot_refuted :
  exists (nm : znm) (gates : list zgate),
    errors_on Qc nm "CNOT" = [] /\ Forall (fun g => pname g = "CNOT") gates
    /\ translate_noisy Qc Z ok3 okd ntab key_asis nm gates
       = Ok [LGate ccnot; LDepol (qrate 1 4) [2%Z; 0%Z; 1%Z]].
Proof.
  exists [("CX", [("depol", VFloat (qrate 1 4))])], [ccnot].
  split; [reflexivity|]. split; [repeat constructor | reflexivity].
Qed.
Print Assumptions C19_noise_on_cx_hits_cnot_refuted.

(* the as-is rule agrees with the intended one on every circuit without a multi-controlled CNOT *)
Theorem C19_asis_placement_partial :
  forall pauli_ok depol_ok T (nm : znm) (gates : list zgate),
    Forall (fun g => String.eqb (pname g) "CNOT" && Nat.ltb 1 (n_controls Z g) = false) gates ->
    translate_noisy Qc Z pauli_ok depol_ok T key_asis nm gates
    = translate_noisy Qc Z pauli_ok depol_ok T key_repaired nm gates.
Proof. intros. apply translate_noisy_rename_partial. assumption. Qed.
Print Assumptions C19_asis_placement_partial.

(* the missing channel changes the simulated state: exact density matrices (3 qubits, H H CCNOT from
   |000>, depolarising rate 1/4 on "CNOT") under the two look-up rules (after / before the renaming
   regenerated from the source) differ whenever the source has such a renaming *)
Example C19_asis_changes_state :
  let calls : list zcall := [("CNOT", "depol", VFloat (qrate 1 4))] in
  let gates := [G "H" [0%Z] None PNone false; G "H" [1%Z] None PNone false; ccnot] in
  String.eqb (run_density ntab depol_rate_Qc true 3 calls gates)
             (run_density ntab depol_rate_Qc false 3 calls gates)
  = match rename_rule ntab with Some _ => false | None => true end.
Proof. vm_compute. reflexivity. Qed.

(* ------------------------------------------------------------------------------------------------
   non-vacuity: a concrete noise model with zero rates on two names (both kinds on one name), a circuit
   with a multi-controlled gate and rotations; the hypotheses of theorem 4 hold in the exact instance *)
Definition ex_gates : list zgate :=
  [G "H" [0%Z] None PNone false; G "CNOT" [1%Z] (Some [0%Z]) PNone false;
   G "CRX" [2%Z] (Some [0%Z; 1%Z]) (PNum 3%Z) false; G "XX" [0%Z; 2%Z] None (PNum 5%Z) false].
Definition ex_nm : znm :=
  [("CNOT", [("pauli", VList [ENum (qrate 0 1); ENum (qrate 0 1); ENum (qrate 0 1)]); ("depol", VFloat (qrate 0 1))]);
   ("CRX", [("depol", VFloat (qrate 0 1))])].
Example C19_zero_noise_nonvacuous :
  build_nm Qc ntab [] [("CNOT", "pauli", VList [ENum (qrate 0 1); ENum (qrate 0 1); ENum (qrate 0 1)]);
                       ("CNOT", "depol", VFloat (qrate 0 1)); ("CRX", "depol", VFloat (qrate 0 1))] = Ok ex_nm
  /\ nm_zero Qc CycS cy_of_Qc ex_nm
  /\ match translate_noisy Qc Z pauli_okQ (depol_okQ depol_rate_Qc) ntab key_repaired ex_nm ex_gates with
     | Ok ops => match interp_lops Qc Z CycS (fun k => k) cy_of_Qc ops with
                 | Some nops => length nops = 8%nat
                 | None => False
                 end
     | Err _ => False
     end.
Proof.
  split; [vm_compute; reflexivity|]. split; [|vm_compute; reflexivity].
  unfold ex_nm. repeat (constructor; simpl); reflexivity.
Qed.

(* a well-formed and an ill-formed specification for theorem 5 *)
Example C19_validation_examples :
  (exists nm', add_quantum_error Qc ntab [] "X" "pauli" (VList [ENum (qrate 1 10); ENum (qrate 0 1); ENum (qrate 1 5)]) = Ok nm')
  /\ add_quantum_error Qc ntab [] "X" "pauli" (VList [ENum (qrate 1 10); ENum (qrate 1 5)]) = Err ValueError
  /\ add_quantum_error Qc ntab [] "X" "depol" (VList []) = Err ValueError
  /\ add_quantum_error Qc ntab [] "X" "amplitude_damping" (VFloat (qrate 1 10)) = Err ValueError
  /\ add_quantum_error Qc ntab [("X", [("depol", VFloat (qrate 1 10))])] "X" "depol" (VFloat (qrate 1 5)) = Err ValueError.
Proof. repeat split; try reflexivity. eexists. reflexivity. Qed.
