(* C07 — Ansatz parameter updates are equivalent to rebuilding the circuit.
   Property theorems only: each is closed by [exact <lemma>] and followed by Print Assumptions.
   Model: coq/theories/Chem/Ansatz.v (index-table state machines); proofs: Chem/AnsatzProofs.v.
   The operator generator (openfermion + qubit encoding) is a universally quantified function
   [gen]; what is assumed about it is written in each statement (H_order, H_nodup / HL_layers). *)
From Coq Require Import String List Arith Bool ZArith Permutation Lia.
From Tangelo Require Import Linq.GateModel Chem.Ansatz Chem.AnsatzProofs Chem.AnsatzRun.
From Gen Require Import AnsatzFacts.
Import ListNotations.
Open Scope nat_scope.

(* 1. UCCSD (closed / open shell / UHF) and QCC-as-repaired: one table word -> gate index over the
      length-sorted words.  For EVERY history th_1..th_m of update_var_params calls on an object built
      with th_0, the final state (table, exponentiated words in circuit order, parameters of the
      variational gates) is the state of a fresh build with th_m. *)
Theorem C07_update_equiv_rebuild :
  forall (W C V : Type) (weqb : W -> W -> bool), (forall a b, weqb a b = true <-> a = b) ->
  forall (wlen : W -> nat) (ang : C -> V) (P : Type) (gen : P -> op W C),
    H_order W C weqb P gen -> H_nodup W C P gen ->
    forall ths th0,
      run_hist (uccsd_update W C V weqb wlen ang P gen) (uccsd_build W C V wlen ang P gen th0) ths
      = Ok (uccsd_build W C V wlen ang P gen (last ths th0)).
Proof. exact uccsd_update_equiv_rebuild. Qed.
Print Assumptions C07_update_equiv_rebuild.

(* 2. UCCGD: stored pauli_order, positional write through the stored order *)
Theorem C07_uccgd_update_equiv_rebuild :
  forall (W C V : Type) (weqb : W -> W -> bool), (forall a b, weqb a b = true <-> a = b) ->
  forall (wlen : W -> nat) (ang : C -> V) (P : Type) (gen : P -> op W C),
    H_order W C weqb P gen -> H_nodup W C P gen ->
    forall ths th0,
      run_hist (uccgd_update W C V weqb ang P gen) (uccgd_build W C V ang P gen th0) ths
      = Ok (uccgd_build W C V ang P gen (last ths th0)).
Proof. exact uccgd_update_equiv_rebuild. Qed.
Print Assumptions C07_uccgd_update_equiv_rebuild.

(* 3. UpCCGSD with cumulative layer offsets (the repaired definition), any number of layers k *)
Theorem C07_upccgsd_update_equiv_rebuild_repaired :
  forall (W C V : Type) (weqb : W -> W -> bool), (forall a b, weqb a b = true <-> a = b) ->
  forall (wlen : W -> nat) (ang : C -> V) (P : Type) (gens : P -> list (op W C)),
    HL_layers W C P weqb gens ->
    forall ths th0,
      run_hist (upccgsd_update W C V P weqb wlen ang gens (ltabs_fixed W C))
               (upccgsd_build W C V P wlen ang gens (ltabs_fixed W C) th0) ths
      = Ok (upccgsd_build W C V P wlen ang gens (ltabs_fixed W C) (last ths th0)).
Proof. exact upccgsd_update_equiv_rebuild. Qed.
Print Assumptions C07_upccgsd_update_equiv_rebuild_repaired.

(* 3b. the offsets as written (sum_prev[k+1] = len_k) are the running sums only up to two layers *)
Theorem C07_upccgsd_offsets_asis_k_le_2 :
  forall W C (ss : list (op W C)), length ss <= 2 -> ltabs_asis W C 0 ss = ltabs_fixed W C 0 ss.
Proof. exact ltabs_asis_le2. Qed.
Print Assumptions C07_upccgsd_offsets_asis_k_le_2.

(* 3c. refutation on the faithful model, witness k = 3: three layers of two words each; the table of
      layer 2 points at the gates of layer 1 (offset 2 instead of 4), so an update leaves layer 2's
      gates stale and overwrites layer 1's. *)
Definition w3_gens (th : nat) : list (op exc nat) :=
  [ [((0, 1), th + 1); ((1, 2), th + 2)]; [((0, 1), th + 3); ((1, 2), th + 4)]; [((0, 1), th + 5); ((1, 2), th + 6)] ].
Lemma w3_nodup : NoDup [(0, 1); (1, 2)].
Proof. repeat constructor; simpl; intuition discriminate. Qed.
Lemma w3_HL : HL_layers exc nat nat exc_eqb w3_gens.
Proof.
  intros th th'. unfold w3_gens.
  repeat (apply Forall2_cons; [split; [exact w3_nodup|split; [exact w3_nodup|intros _; reflexivity]]|]).
  apply Forall2_nil.
Qed.
Theorem C07_upccgsd_offsets_refuted :
  exists (gens : nat -> list (op exc nat)) (th0 th1 : nat),
    HL_layers exc nat nat exc_eqb gens /\ length (gens th0) = 3 /\
    run_hist (upccgsd_update exc nat nat nat exc_eqb wlen2 (fun c => c) gens (ltabs_asis exc nat))
             (upccgsd_build exc nat nat nat wlen2 (fun c => c) gens (ltabs_asis exc nat) th0) [th1]
    <> Ok (upccgsd_build exc nat nat nat wlen2 (fun c => c) gens (ltabs_asis exc nat) th1)
    /\ ltabs_asis exc nat 0 (gens th0) <> ltabs_fixed exc nat 0 (gens th0).
Proof.
  exists w3_gens, 0, 10. split. exact w3_HL. split. reflexivity.
  split; vm_compute; intros H; discriminate H.
Qed.
Print Assumptions C07_upccgsd_offsets_refuted.

(* 4. QCC as written keeps stale words in pauli_to_angles_mapping after a rebuild: refuted.
      o0 = {A,B,C}; o1 = {A,C} (B's amplitude is 0: rebuild, B keeps index 1); o2 = {A,B,C} again:
      the key sets agree, so B and C are both written to gate 1 of a 2-gate circuit. *)
Theorem C07_qcc_stale_mapping_refuted :
  exists (o0 o1 o2 : op exc nat) s,
    NoDup (keys exc nat o0) /\ NoDup (keys exc nat o1) /\ NoDup (keys exc nat o2) /\
    run_hist (qcc_update_asis exc nat nat exc_eqb wlen2 (fun c => c))
             (qcc_build_asis exc nat nat exc_eqb wlen2 (fun c => c) [] o0) [o1; o2] = Ok s /\
    tvg exc nat s <> tvg exc nat (tbuild exc nat nat wlen2 (fun c => c) o2).
Proof.
  exists [((0, 4), 1); ((1, 4), 2); ((2, 4), 3)], [((0, 4), 1); ((2, 4), 3)],
         [((0, 4), 4); ((1, 4), 5); ((2, 4), 6)].
  eexists.
  split; [repeat constructor; simpl; intuition discriminate|].
  split; [repeat constructor; simpl; intuition discriminate|].
  split; [repeat constructor; simpl; intuition discriminate|].
  split; [vm_compute; reflexivity|]. vm_compute. intros H; discriminate H.
Qed.
Print Assumptions C07_qcc_stale_mapping_refuted.

(* 5. VSQS: every write lands on its gate, for all interval counts, both Trotter orders, with or
      without navigator, GIVEN that build_circuit emitted all gates (no_drop) *)
Theorem C07_vsqs_offsets :
  forall (T C V : Type) (gu : T -> C -> V) (gb : T -> C -> option V) (R : V -> V -> Prop),
    (forall t c v, gb t c = Some v -> R v (gu t c)) ->
    forall (c : vsqs_cfg C) th0 th d,
      no_drop T C V gb c th0 d -> vsqs_n_var_params C c <= length th ->
      vsqs_update T C V gu c (vsqs_build T C V gb c th0 d) th = Ok (vsqs_layout T C c gu th d)
      /\ (no_drop T C V gb c th d -> Forall2 R (vsqs_build T C V gb c th d) (vsqs_layout T C c gu th d)).
Proof. exact vsqs_offsets. Qed.
Print Assumptions C07_vsqs_offsets.

(* 5b. a parameter that is exactly zero at build time drops gates; with the update as first written the next
       update indexes past the end of circuit._variational_gates (old variant; see 5d for the current code) *)
Definition vz_gb (t c : nat) : option nat := if t * c =? 0 then None else Some (t * c).
Theorem C07_vsqs_zero_param_refuted :
  exists (c : vsqs_cfg nat) (th0 th1 : list nat),
    length th0 = vsqs_n_var_params nat c /\ length th1 = vsqs_n_var_params nat c /\
    length (vsqs_build nat nat nat vz_gb c th0 0) < n_var_gates nat c * n_steps nat c /\
    vsqs_update nat nat nat Nat.mul c (vsqs_build nat nat nat vz_gb c th0 0) th1 = Err IndexError.
Proof.
  exists (VCfg nat [1] [2] None false 1), [0; 1], [1; 1]. vm_compute. repeat split. lia.
Qed.
Print Assumptions C07_vsqs_zero_param_refuted.

(* 5c. [build as it was before fix ad5ab8e: negligible terms dropped, hence the hypothesis no_drop]
       the repaired update_var_params (size test + offset n_ref = len(variational gates) - n_var_gates*(intervals-1)):
       for ANY variational gates `pre` of a user-supplied reference circuit, all interval counts, both Trotter
       orders, optional navigator: a vector of the advertised length writes exactly the VSQS segment, any other
       length is rejected — given that build_circuit emitted all gates (no_drop) *)
Theorem C07_vsqs_offsets_any_reference_dropping_build :
  forall (T C V : Type) (gu : T -> C -> V) (gb : T -> C -> option V) (c : vsqs_cfg C) (pre : list V) th0 th d,
    no_drop T C V gb c th0 d ->
    (length th = vsqs_n_var_params C c ->
       vsqs_update_fixed T C V gu c (pre ++ vsqs_build T C V gb c th0 d)%list th
       = Ok (pre ++ vsqs_layout T C c gu th d)%list)
    /\ (length th <> vsqs_n_var_params C c ->
       vsqs_update_fixed T C V gu c (pre ++ vsqs_build T C V gb c th0 d)%list th = Err ValueError).
Proof. exact vsqs_offsets_any_reference. Qed.
Print Assumptions C07_vsqs_offsets_any_reference_dropping_build.

(* 5d. no_drop is still needed on the repaired code: after a build with a zero parameter n_ref is negative, the
       writes wrap around (Python negative indices): no exception any more, but a 1-gate circuit where a fresh
       build has 2 gates *)
Theorem C07_vsqs_zero_param_refuted_repaired_offsets :
  exists (c : vsqs_cfg nat) (th0 th1 : list nat) v,
    length th0 = vsqs_n_var_params nat c /\ length th1 = vsqs_n_var_params nat c /\
    vsqs_update_fixed nat nat nat Nat.mul c (vsqs_build nat nat nat vz_gb c th0 0) th1 = Ok v /\
    v <> vsqs_build nat nat nat vz_gb c th1 0.
Proof.
  exists (VCfg nat [1] [2] None false 1), [0; 1], [1; 1]. eexists. vm_compute.
  split; [reflexivity|]. split; [reflexivity|]. split; [reflexivity|]. intros H; discriminate H.
Qed.
Print Assumptions C07_vsqs_zero_param_refuted_repaired_offsets.

(* 6. pUCCD: first-fit layer packing is a permutation of the excitations (all sizes, all lists);
      an update of n_occ*n_virt parameters succeeds, overwrites every gate, and gate j of the packed
      order carries the parameter of its own excitation *)
Theorem C07_puccd_packing_is_permutation : forall n exs, Permutation (packed n exs) exs.
Proof. exact packed_perm. Qed.
Print Assumptions C07_puccd_packing_is_permutation.
Theorem C07_puccd_update_total :
  forall (V : Type) nocc nvirt (v th : list V),
    length v = nocc * nvirt -> length th = nocc * nvirt ->
    exists v', puccd_update V nocc nvirt v th = Ok v' /\ length v' = nocc * nvirt /\
      forall j e i, nth_error (packed (nocc + nvirt) (puccd_excitations nocc nvirt)) j = Some e ->
                    nth_error (puccd_excitations nocc nvirt) i = Some e ->
                    nth_error v' j = nth_error th i.
Proof. exact puccd_update_spec. Qed.
Print Assumptions C07_puccd_update_total.

(* 7. ADAPT: after ANY history of add_operator / update_var_params calls, an update with a vector of
      the advertised length equals a fresh ADAPTAnsatz(operators=...).build_circuit(vector):
      sign_j * theta_i on every gate j of operator i *)
Theorem C07_adapt_indices :
  forall (Sg T V : Type) (mulp : Sg -> T -> V) (init : V) h s th,
    run_hist (adapt_step Sg T V mulp init) (adapt_fresh Sg V init []) h = Ok s ->
    length th = length (adds Sg T h) ->
    exists s1 s2, adapt_update Sg T V mulp s th = Ok s1
                  /\ adapt_build Sg T V mulp init (adds Sg T h) th = Ok s2
                  /\ avg Sg V s1 = avg Sg V s2 /\ avg Sg V s1 = adapt_layout Sg T V mulp (adds Sg T h) th
                  /\ nterms Sg V s1 = nterms Sg V s2 /\ prefs Sg V s1 = prefs Sg V s2.
Proof. exact adapt_update_equiv_rebuild. Qed.
Print Assumptions C07_adapt_indices.

(* 8. HEA / RUCC / VariationalCircuitAnsatz: positional; a vector is accepted iff its length is
      n_var_params, and then it IS the list of variational parameters *)
Theorem C07_positional_update :
  forall (V : Type) n (v th : list V), length v = n ->
    (length th = n /\ pos_update V n v th = Ok th) \/ (length th <> n /\ pos_update V n v th = Err ValueError).
Proof. exact pos_update_spec. Qed.
Print Assumptions C07_positional_update.
Theorem C07_positional_history :
  forall (V : Type) n ths (v v' : list V), length v = n ->
    run_hist (pos_update V n) v ths = Ok v' -> v' = last ths v /\ length v' = n.
Proof. exact pos_history. Qed.
Print Assumptions C07_positional_history.

(* 9. n_var_params: the closed forms equal the number of amplitudes the generators consume *)
Theorem C07_n_var_params_uccsd_singlet :
  forall nocc nvirt, uccsd_singlet_params nocc nvirt = uccsd_singlet_closed nocc nvirt.
Proof. exact uccsd_singlet_count. Qed.
Print Assumptions C07_n_var_params_uccsd_singlet.
Theorem C07_n_var_params_uccsd_openshell :
  forall na nb oa ob, uccsd_open_params na nb oa ob = uccsd_open_closed na nb oa ob.
Proof. exact uccsd_openshell_count. Qed.
Print Assumptions C07_n_var_params_uccsd_openshell.
Theorem C07_n_var_params_upccgsd : forall n k, k * upccgsd_layer_terms n = upccgsd_closed n k.
Proof. exact upccgsd_count. Qed.
Print Assumptions C07_n_var_params_upccgsd.
Theorem C07_n_var_params_puccd : forall nocc nvirt, length (puccd_excitations nocc nvirt) = nocc * nvirt.
Proof. exact puccd_count. Qed.
Print Assumptions C07_n_var_params_puccd.
Theorem C07_n_var_params_hea : forall nq per layers, hea_params nq per layers = nq * per * (layers + 1).
Proof. exact hea_count. Qed.
Print Assumptions C07_n_var_params_hea.
(* UCCGD: bounded (n_mos <= 9), by computation: the loop consumes len(cwr(range(n),4)) - n amplitudes,
   which is C(n+3,4) - n *)
Theorem C07_n_var_params_uccgd_upto_9 :
  forall n, n <= 9 -> uccgd_params n = uccgd_closed n /\ uccgd_closed n = n * (n + 1) * (n + 2) * (n + 3) / 24 - n.
Proof. exact uccgd_count_upto_9. Qed.
Print Assumptions C07_n_var_params_uccgd_upto_9.

(* 10. all-zero parameters: when the generated operator is empty the ansatz emits no gate *)
Theorem C07_zero_params_give_reference :
  forall W C V wlen ang, tbuild W C V wlen ang [] = TState W V [] [] []
                         /\ gbuild W C V ang [] = GState W V [] [].
Proof. exact zero_params_empty. Qed.
Print Assumptions C07_zero_params_give_reference.

(* 11. circuit = <user / mean-field sub-circuit> + <ansatz part>: a table whose indices are shifted by the
       number of variational gates of the prefix writes exactly the ansatz segment — for ANY prefix
       (QCC / ILC with any qmf_circuit, VSQS with any reference circuit), and only for that offset *)
Theorem C07_concat_offset :
  forall (W C V : Type) (weqb : W -> W -> bool) (ang : C -> V) (ws : list W) (o : op W C)
         (pre seg post seg' : list V),
    twrite W C V weqb ang (number 0 ws) o seg = Ok seg' ->
    twrite W C V weqb ang (number (length pre) ws) o (pre ++ seg ++ post)%list = Ok (pre ++ seg' ++ post)%list.
Proof. exact twrite_seg. Qed.
Print Assumptions C07_concat_offset.
(* a fixed offset (here 2, "the mean-field circuit has 2 variational gates") on a prefix of 3 gates writes
   into the prefix; on a prefix of 0 gates it runs past the end *)
Example C07_fixed_offset_refuted :
  twrite exc nat nat exc_eqb (fun c => c) (number 2 [(0, 4); (1, 4)]) [((0, 4), 7); ((1, 4), 8)] ([91; 92; 93] ++ [1; 2])%list
    = Ok [91; 92; 7; 8; 2]
  /\ twrite exc nat nat exc_eqb (fun c => c) (number 2 [(0, 4); (1, 4)]) [((0, 4), 7); ((1, 4), 8)] ([] ++ [1; 2])%list
    = Err IndexError.
Proof. vm_compute. split; reflexivity. Qed.
(* VSQS as FIRST written (before fix 7da6b27; kept on the old variant vsqs_update) indexed circuit._variational_gates from 0: with a reference circuit that has a
   variational gate (99) the schedule is written over it and the last ansatz gate keeps its old value *)
Example C07_vsqs_variational_reference_refuted :
  vsqs_update nat nat nat Nat.mul (VCfg nat [1] [2] None false 1) ([99] ++ [7; 7])%list [3; 4] = Ok [3; 8; 7]
  /\ [3; 8; 7] <> ([99] ++ vsqs_layout nat nat (VCfg nat [1] [2] None false 1) Nat.mul [3; 4] 0)%list.
Proof. vm_compute. split. reflexivity. intros H; discriminate H. Qed.

(* ---- the size test is missing in VSQS.update_var_params: a longer vector is accepted (model) ---- *)
Example C07_vsqs_longer_vector_accepted :
  vsqs_update nat nat nat Nat.mul (VCfg nat [1] [2] None false 1) [7; 7] [3; 4; 99] = Ok [3; 8].
Proof. vm_compute. reflexivity. Qed.
Example C07_adapt_longer_vector_accepted :
  exists s, adapt_update Z Z Z Z.mul (adapt_fresh Z Z 0%Z [[1%Z; (-1)%Z]]) [5%Z; 99%Z] = Ok s /\ avg Z Z s = [5%Z; (-5)%Z].
Proof. eexists. vm_compute. split; reflexivity. Qed.

(* ---- non-vacuity: a generator with H_order and H_nodup whose key set changes (both paths) ---- *)
Definition ex_gen (th : nat) : op exc nat :=
  if th =? 0 then [((0, 4), 1)] else [((0, 4), th); ((1, 2), 2 * th); ((2, 4), 3 * th); ((3, 2), th + 7)].
Example C07_example_hypotheses : H_order exc nat exc_eqb nat ex_gen /\ H_nodup exc nat nat ex_gen.
Proof.
  split.
  - intros th th'. unfold ex_gen. destruct (th =? 0), (th' =? 0); vm_compute; intros H; try reflexivity; discriminate H.
  - intros th. unfold ex_gen. destruct (th =? 0); repeat constructor; simpl; intuition discriminate.
Qed.
Example C07_example_history :
  run_hist (uccsd_update exc nat nat exc_eqb wlen2 (fun c => c) nat ex_gen)
           (uccsd_build exc nat nat wlen2 (fun c => c) nat ex_gen 3) [5; 0; 0; 2; 2; 9]
  = Ok (uccsd_build exc nat nat wlen2 (fun c => c) nat ex_gen 9)
  /\ tvg exc nat (uccsd_build exc nat nat wlen2 (fun c => c) nat ex_gen 9) = [18; 16; 9; 27]
  /\ no_drop nat nat nat vz_gb (VCfg nat [1; 3] [2] (Some [5]) true 2) [1; 2; 3; 4; 5; 6] 0
  /\ run_puccd 2 2 [10; 20; 30; 40]%Z = "exc=0-2,0-3,1-2,1-3|tab=0-2:0,1-3:1,0-3:2,1-2:3|vg=10,40,20,30"%string.
Proof. vm_compute. repeat split; repeat constructor; discriminate. Qed.

(* ================================================================================================ *)
(* 12. VSQS over the facts regenerated from vsqs.py in this run (Gen.AnsatzFacts: does build_circuit drop negligible
       terms? does update_var_params test the size? are the offsets counted from n_ref?).  For the code as it is now
       (false, true, true) the FULL statement holds with NO hypothesis on the parameter values (exact zeros and tiny
       values included): for any variational gates `pre` of the reference circuit, any build parameters th0, every
       interval count, both Trotter orders, optional navigator:
         - an update of the advertised length leaves pre ++ <layout of th>; any other length is rejected;
         - a fresh build with th fills the same slots with R-related values (R: equal modulo 4*pi).
       If a defect returns (facts change) this obligation no longer type-checks.  Kept last in the file so that every
       other theorem is still checked in that case. *)
Theorem C07_vsqs_offsets_any_reference :
  forall (T C V : Type) (gu : T -> C -> V) (gb : T -> C -> option V) (R : V -> V -> Prop) (gbv : T -> C -> V),
    (forall t c, R (gbv t c) (gu t c)) ->
    forall (c : vsqs_cfg C) (pre : list V) (th0 th : list T) (d : T),
      (length th = vsqs_n_var_params C c ->
         vsqs_update_src T C V gu vsqs_update_size_test vsqs_update_offsets_ref c
                         (pre ++ vsqs_build_src T C V gb gbv vsqs_build_drops c th0 d)%list th
         = Ok (pre ++ vsqs_layout T C c gu th d)%list)
      /\ (length th <> vsqs_n_var_params C c ->
         vsqs_update_src T C V gu vsqs_update_size_test vsqs_update_offsets_ref c
                         (pre ++ vsqs_build_src T C V gb gbv vsqs_build_drops c th0 d)%list th = Err ValueError)
      /\ Forall2 R (vsqs_build_src T C V gb gbv vsqs_build_drops c th d) (vsqs_layout T C c gu th d).
Proof. exact vsqs_src_full. Qed.
Print Assumptions C07_vsqs_offsets_any_reference.
