(* C03 — Fermion-to-qubit encodings are faithful representations.
   Property theorems only: each is closed by [exact <lemma>] and followed by Print Assumptions.
   Models: coq/theories/Fermion/{CAR,JW,BK,SCBK,JKMN,Mapping,HCB,Comb}.v (tied to /repo by the correspondence
   run of harness/props/C03.py); proofs: Fermion/{CARProofs,JWProofs,MappingProofs,CombProofs}.v; tables
   regenerated from jkmn.py / combinatorial.py: Gen.EncodingTables.
   All statements hold over EVERY number structure S : KS (in particular CRealS = the complex numbers
   and the exact CycS the correspondence evaluates in). *)
From Coq Require Import NArith ZArith List Bool.
From Tangelo Require Import Num.KStruct Pauli.Word Pauli.Action Fermion.Fock Fermion.CAR Fermion.CARProofs
     Fermion.JW Fermion.JWProofs Fermion.BK Fermion.SCBK Fermion.JKMN Fermion.Mapping Fermion.MappingProofs
     Fermion.Comb Fermion.CombProofs Fermion.HCB Fermion.EncProofs Linq.GateModel.
From Gen Require Import EncodingTables.
Import ListNotations.

(* 1. Generic: signed Pauli strings c_0, d_0, ..., c_{n-1}, d_{n-1} (Hermitian, squaring to 1 by
      construction) that pairwise anticommute make a_p = (c_p + i d_p)/2, a_p^dagger = (c_p - i d_p)/2
      satisfy {a_p, a_q^dagger} = delta_pq, {a_p, a_q} = {a_p^dagger, a_q^dagger} = 0 — equalities of
      operators as linear combinations of Pauli words (op_eqv), any n. *)
Theorem C03_majoranas_give_car :
  forall (S : KS) (n : N) (c d : N -> maj),
    (forall p q, (p < n)%N -> (q < n)%N -> p <> q ->
                 anti (c p) (c q) /\ anti (c p) (d q) /\ anti (d p) (c q) /\ anti (d p) (d q)) ->
    (forall p, (p < n)%N -> anti (c p) (d p)) ->
    car_holds S (fun l => ladder_of_maj S (c (fst l)) (d (fst l)) (snd l)) n.
Proof. exact majoranas_give_car. Qed.
Print Assumptions C03_majoranas_give_car.

Theorem C03_word_squares_to_one : forall w, wmul w w = ([], 0%Z).
Proof. exact wmul_self. Qed.
Print Assumptions C03_word_squares_to_one.

(* anticommuting words: same product word, phases differing by i^2 *)
Theorem C03_anticommuting_words_phase :
  forall a b, wcommute a b = false ->
    fst (wmul a b) = fst (wmul b a) /\ ((snd (wmul a b) - snd (wmul b a)) mod 4 = 2)%Z.
Proof. exact wmul_anticommute. Qed.
Print Assumptions C03_anticommuting_words_phase.

Example C03_anticommuting_family_exists :
  all_anticommute (jw_gammas 3) = true /\ all_anticommute (bk_gammas 5) = true /\
  all_anticommute (bkt_gammas 6) = true /\ jkmn_check 7 = true /\ length (bk_gammas 5) = 10%nat.
Proof. exact anticommuting_family_exists. Qed.

(* 2. Jordan-Wigner, every register size: the Majorana strings Z..Z X_p, Z..Z Y_p pairwise anticommute *)
Theorem C03_jw_strings_anticommute :
  forall p q x y, x <> PZ -> y <> PZ -> (p <> q \/ x <> y) -> wcommute (jw_word p x) (jw_word q y) = false.
Proof. exact jw_strings_anticommute. Qed.
Print Assumptions C03_jw_strings_anticommute.

Theorem C03_jw_car : forall (S : KS) (n : N), car_holds S (jw_ladder S) n.
Proof. exact jw_car. Qed.
Print Assumptions C03_jw_car.

(* 3. Jordan-Wigner matrix elements: <D'| JW(a) |D> = <D'| a |D> for every ladder operator and all
      determinants D, D' (Fock.apply_ladder: sign (-1)^{#occupied below}; qubit side: closed-form word
      action word_flip / word_phase), any register size. *)
Theorem C03_jw_matrix_elements :
  forall (S : KS) (l : ladder) (d' d : N),
    op_elem S (jw_ladder S l) d' d = fop_elem S [([l], k1)] d' d.
Proof. exact jw_matrix_elements. Qed.
Print Assumptions C03_jw_matrix_elements.

(* 4. Spin re-ordering (make_up_then_down and openfermion's up_then_down): for every even n a
      permutation of 0..n-1 sending (orbital k, spin s) = 2k+s to k + s*n/2. *)
Theorem C03_up_then_down_is_permutation :
  forall n, N.even n = true ->
    (forall p, (p < n)%N -> (utd_index n p < n)%N) /\
    (forall p q, (p < n)%N -> (q < n)%N -> utd_index n p = utd_index n q -> p = q).
Proof. exact up_then_down_is_permutation. Qed.
Print Assumptions C03_up_then_down_is_permutation.

Theorem C03_up_then_down_index :
  forall n k s, N.even n = true -> (s < 2)%N -> (2 * k + s < n)%N -> utd_index n (2 * k + s) = (k + s * (n / 2))%N.
Proof. exact utd_index_spec. Qed.
Print Assumptions C03_up_then_down_index.

Example C03_utd_example : map (utd_index 6) [0; 1; 2; 3; 4; 5]%N = [0; 3; 1; 4; 2; 5]%N.
Proof. exact utd_example. Qed.

(* 5. scBK parity factors for ALL integers n_electrons, spin of equal parity (negative and odd included):
      n_e//2 + spin//2 + n_e%2 = (n_e + spin)/2, so the two factors are (-1)^N and (-1)^N_alpha. *)
Theorem C03_scbk_parity_factors :
  forall ne spin : Z, Z.even (ne + spin) = true -> scbk_n_alpha ne spin = ((ne + spin) / 2)%Z.
Proof. exact scbk_parity_factors. Qed.
Print Assumptions C03_scbk_parity_factors.

Theorem C03_scbk_parity_signs :
  forall na nb : Z,
    parity_neg (na + nb) = xorb (Z.odd na) (Z.odd nb) /\ parity_neg (scbk_n_alpha (na + nb) (na - nb)) = Z.odd na.
Proof. exact scbk_parity_signs. Qed.
Print Assumptions C03_scbk_parity_signs.

Example C03_scbk_parity_example :
  scbk_n_alpha 3 (-1) = 1%Z /\ scbk_n_alpha 5 (-3) = 1%Z /\ scbk_n_alpha 4 (-2) = 1%Z /\ Z.even (3 + -1) = true.
Proof. exact scbk_parity_example. Qed.

(* 6. PARTIAL (bound in the statement, by computation): Majorana strings of Bravyi-Kitaev (Fenwick bit
      formulas), of the BK-tree variant used by scBK, and of JKMN (after Hadamard re-labelling and signed
      re-assignment; every key assigned) pairwise anticommute for all n <= 64; hence the CAR there. *)
Theorem C03_bk_strings_anticommute_partial :
  forall n, (n <= 64)%nat -> all_anticommute (bk_gammas (N.of_nat n)) = true.
Proof. exact bk_strings_anticommute_partial. Qed.
Print Assumptions C03_bk_strings_anticommute_partial.

Theorem C03_bkt_strings_anticommute_partial :
  forall n, (n <= 64)%nat -> all_anticommute (bkt_gammas (N.of_nat n)) = true.
Proof. exact bkt_strings_anticommute_partial. Qed.
Print Assumptions C03_bkt_strings_anticommute_partial.

Theorem C03_jkmn_strings_anticommute_partial :
  forall n, (n <= 64)%nat ->
    exists l, jkmn_majs jkmn_std (N.of_nat n) = Ok l /\ length l = (2 * n)%nat /\ all_anticommute (map snd l) = true.
Proof. exact jkmn_strings_anticommute_partial. Qed.
Print Assumptions C03_jkmn_strings_anticommute_partial.

Theorem C03_bk_car_partial :
  forall (S : KS) n, (n <= 64)%nat -> car_holds S (bk_ladder S (N.of_nat n)) (N.of_nat n).
Proof. exact bk_car_partial. Qed.
Print Assumptions C03_bk_car_partial.

Theorem C03_bkt_car_partial :
  forall (S : KS) n, (n <= 64)%nat -> car_holds S (bkt_ladder S (fen_tree (N.of_nat n))) (N.of_nat n).
Proof. exact bkt_car_partial. Qed.
Print Assumptions C03_bkt_car_partial.

Theorem C03_jkmn_car_partial :
  forall (S : KS) n, (n <= 64)%nat ->
    exists majs, jkmn_majs jkmn_std (N.of_nat n) = Ok majs /\ car_holds S (jkmn_ladder S majs) (N.of_nat n).
Proof. exact jkmn_car_partial. Qed.
Print Assumptions C03_jkmn_car_partial.

(* 7. The tables regenerated from the current source are the ones the models and theorems use. *)
Theorem C03_jkmn_tables_regenerated : jkmn_tab_gen = jkmn_std.
Proof. exact eq_refl. Qed.
Print Assumptions C03_jkmn_tables_regenerated.

Theorem C03_comb_tables_regenerated : comb_base_gen = comb_base_std /\ comb_pairs_gen = comb_pairs_std.
Proof. exact (conj eq_refl eq_refl). Qed.
Print Assumptions C03_comb_tables_regenerated.

(* every tensor access of hard_core_boson_operator (hcb.py) and spatial_from_spinorb (coefficients.py), as
   regenerated from the current source, is the one of the model table: swapping two index patterns breaks this *)
Theorem C03_hcb_tables_regenerated : hcb_tab_gen = hcb_std.
Proof. exact eq_refl. Qed.
Print Assumptions C03_hcb_tables_regenerated.

(* 8. combinatorial.py, recursive_mapping base case (over the regenerated table = standard table): the four
      emitted coefficients denote the 2x2 matrix M, i.e. c_I I + c_X X + c_Z Z + c_Y Y = M entrywise. *)
Theorem C03_comb_base_case_denotes :
  forall (S : KS) (m00 m01 m10 m11 : K S),
    let c := comb_base_coeffs S comb_base_std m00 m01 m10 m11 in
    pauli_sum_entry S c false false = m00 /\ pauli_sum_entry S c false true = m01 /\
    pauli_sum_entry S c true false = m10 /\ pauli_sum_entry S c true true = m11.
Proof. exact comb_base_case_denotes. Qed.
Print Assumptions C03_comb_base_case_denotes.

(* 9. Linearity and adjoints, for every encoding given by Majorana pairs (JW, BK, BK-tree, JKMN, HCB):
      sums map to sums, scalar multiples to scalar multiples (equal term lists), and the image of a_p^dagger
      is the adjoint of the image of a_p.  Products map to products by construction of the models
      (enc_term multiplies the ladder images left to right with op_mul). *)
Theorem C03_enc_add :
  forall (S : KS) enc (a b : fop S), enc_fop S enc (fop_add S a b) = op_add S (enc_fop S enc a) (enc_fop S enc b).
Proof. exact enc_fop_add. Qed.
Print Assumptions C03_enc_add.

Theorem C03_enc_scale :
  forall (S : KS) enc (c : K S) (a : fop S), enc_fop S enc (fop_scale S c a) = op_scale S c (enc_fop S enc a).
Proof. exact enc_fop_scale. Qed.
Print Assumptions C03_enc_scale.

Theorem C03_ladder_adjoint :
  forall (S : KS) (c d : maj) (cr : bool), op_adj S (ladder_of_maj S c d cr) = ladder_of_maj S c d (negb cr).
Proof. exact ladder_adjoint. Qed.
Print Assumptions C03_ladder_adjoint.

Theorem C03_jkmn_adjoint :
  forall (S : KS) majs p cr, op_adj S (jkmn_ladder S majs (p, cr)) = jkmn_ladder S majs (p, negb cr).
Proof. exact jkmn_adjoint. Qed.
Print Assumptions C03_jkmn_adjoint.
