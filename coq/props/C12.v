(* C12 — Symmetry operators and penalties are exact; default ansaetze conserve them.
   Property theorems only (each closed by a lemma of coq/theories/Fermion/*Proofs.v) + Print Assumptions.
   Model: Fermion/{Symmetry,Penalty,Conserve}.v over Fermion/Fock.v; the term patterns, coefficients and
   spin-orbital index expressions are regenerated from fermionic_operators.py / _general_unitary_cc.py on
   every run (Gen.SymmetryTables.symtab_gen) and the theorems are stated about the interpreted
   generated table.  All statements are for EVERY number of orbitals n, both orderings ud, every
   determinant (a binary natural number, bit p = occupation of spin-orbital p), every KS number
   structure S unless said otherwise. *)
From Coq Require Import NArith ZArith QArith Qcanon List Bool.
From Tangelo Require Import Num.KStruct Num.Cyc Num.CycRat Fermion.Fock Fermion.Symmetry Fermion.SymmetryProofs
     Fermion.Conserve Fermion.ConserveProofs Fermion.Penalty Fermion.PenaltyProofs Fermion.Spin2Proofs
     Fermion.PopcountProofs.
From Gen Require Import SymmetryTables.
Import ListNotations.

(* 0. what the translator read from the source today is the table the proofs are about *)
Theorem C12_tables_regenerated : symtab_gen = std_symtab.
Proof. reflexivity. Qed.
Print Assumptions C12_tables_regenerated.

(* 1. N |D> = (n_alpha + n_beta) |D> : the matrix of the generated term list is diagonal with the
      electron count as entry *)
Theorem C12_number_eigen :
  forall (S : KS) (n : nat) (ud : bool) (d' d : N),
    fop_elem S (tab_number S symtab_gen n ud) d' d = if N.eqb d' d then number_val S ud n d else k0.
Proof. intros. rewrite C12_tables_regenerated, tab_number_std. apply number_eigen. Qed.
Print Assumptions C12_number_eigen.

(* 1'. ... and that count is |D|: the number of occupied spin-orbitals among the 2n the operator addresses
       (Fock.count_below d p = number of set bits of d below p), in both orderings *)
Theorem C12_electron_count_is_popcount :
  forall (ud : bool) (n : nat) (d : N),
    (n_alpha ud n d + n_beta ud n d)%nat = count_below d (N.of_nat (2 * n)).
Proof. exact electrons_is_popcount. Qed.
Print Assumptions C12_electron_count_is_popcount.

(* 2. Sz |D> = (n_alpha - n_beta)/2 |D> *)
Theorem C12_spinz_eigen :
  forall (S : KS) (n : nat) (ud : bool) (d' d : N),
    fop_elem S (tab_spinz S symtab_gen n ud) d' d = if N.eqb d' d then spinz_val S ud n d else k0.
Proof. intros. rewrite C12_tables_regenerated, tab_spinz_std. apply spinz_eigen. Qed.
Print Assumptions C12_spinz_eigen.

(* 3. the S^2 term list is S- S+ + Sz Sz + Sz (all matrix elements, all n) *)
Theorem C12_spin2_identity :
  forall (S : KS) (n : nat) (ud : bool) (d' d : N),
    fop_elem S (tab_spin2 S symtab_gen n ud) d' d = fop_elem S (spin2_ref S n ud) d' d.
Proof. intros. rewrite C12_tables_regenerated, tab_spin2_std. apply spin2_identity. Qed.
Print Assumptions C12_spin2_identity.

(* 4. on a determinant annihilated by S+ (no orbital with spin-down occupied and spin-up empty; e.g. every
      closed-shell and every high-spin determinant) S^2 has the eigenvalue m (m + 1), m = Sz eigenvalue.
      PARTIAL with respect to "every spin eigenfunction": linear combinations of determinants are not
      covered by a theorem (supported numerically by the harness). *)
Theorem C12_spin2_on_highest_weight_det_partial :
  forall (S : KS) (n : nat) (ud : bool) (d' d : N),
    highest_weight_det ud n d = true ->
    fop_elem S (tab_spin2 S symtab_gen n ud) d' d
    = if N.eqb d' d then kadd (kmul (spinz_val S ud n d) (spinz_val S ud n d)) (spinz_val S ud n d) else k0.
Proof. intros. rewrite C12_tables_regenerated, tab_spin2_std. apply spin2_on_highest_weight_det. assumption. Qed.
Print Assumptions C12_spin2_on_highest_weight_det_partial.

(* 5. penalties mu (O - target)^2 as penalty_terms.py builds them (formal square of the shifted list), for
      O = N and O = Sz: diagonal with entry mu (lambda - target)^2, in every number structure *)
Theorem C12_number_penalty_value :
  forall (S : KS) (n : nat) (ud : bool) (mu t : K S) (d' d : N),
    fop_elem S (tab_number_penalty S symtab_gen n ud mu t) d' d
    = if N.eqb d' d then kmul mu (kmul (ksub (number_val S ud n d) t) (ksub (number_val S ud n d) t)) else k0.
Proof.
  intros. unfold tab_number_penalty. rewrite C12_tables_regenerated, tab_number_std. apply number_penalty_diag.
Qed.
Print Assumptions C12_number_penalty_value.

Theorem C12_spinz_penalty_value :
  forall (S : KS) (n : nat) (ud : bool) (mu t : K S) (d' d : N),
    fop_elem S (tab_spinz_penalty S symtab_gen n ud mu t) d' d
    = if N.eqb d' d then kmul mu (kmul (ksub (spinz_val S ud n d) t) (ksub (spinz_val S ud n d) t)) else k0.
Proof.
  intros. unfold tab_spinz_penalty. rewrite C12_tables_regenerated, tab_spinz_std. apply spinz_penalty_diag.
Qed.
Print Assumptions C12_spinz_penalty_value.

(* 6. over the rationals (exact instance; cy_of_Qc is the injective embedding of Q): for every rational
      target and weight mu > 0 the entry is the rational mu (lambda - target)^2 >= 0 and it vanishes exactly
      on the targeted sector *)
Theorem C12_penalty_nonneg_and_zero_iff_number :
  forall (n : nat) (ud : bool) (mu t : Qc) (d : N), (0 < mu)%Qc ->
    (forall d', fop_elem CycS (tab_number_penalty CycS symtab_gen n ud (cy_of_Qc mu) (cy_of_Qc t)) d' d
                = if N.eqb d' d then cy_of_Qc (penalty_q mu (number_q ud n d) t) else cy_of_Qc 0%Qc)
    /\ (0 <= penalty_q mu (number_q ud n d) t)%Qc
    /\ (fop_elem CycS (tab_number_penalty CycS symtab_gen n ud (cy_of_Qc mu) (cy_of_Qc t)) d d = @k0 CycS
        <-> number_q ud n d = t).
Proof.
  intros. unfold tab_number_penalty. rewrite C12_tables_regenerated, tab_number_std.
  apply number_penalty_nonneg_zero_iff. assumption.
Qed.
Print Assumptions C12_penalty_nonneg_and_zero_iff_number.

Theorem C12_penalty_nonneg_and_zero_iff_spinz :
  forall (n : nat) (ud : bool) (mu t : Qc) (d : N), (0 < mu)%Qc ->
    (forall d', fop_elem CycS (tab_spinz_penalty CycS symtab_gen n ud (cy_of_Qc mu) (cy_of_Qc t)) d' d
                = if N.eqb d' d then cy_of_Qc (penalty_q mu (spinz_q ud n d) t) else cy_of_Qc 0%Qc)
    /\ (0 <= penalty_q mu (spinz_q ud n d) t)%Qc
    /\ (fop_elem CycS (tab_spinz_penalty CycS symtab_gen n ud (cy_of_Qc mu) (cy_of_Qc t)) d d = @k0 CycS
        <-> spinz_q ud n d = t).
Proof.
  intros. unfold tab_spinz_penalty. rewrite C12_tables_regenerated, tab_spinz_std.
  apply spinz_penalty_nonneg_zero_iff. assumption.
Qed.
Print Assumptions C12_penalty_nonneg_and_zero_iff_spinz.

Theorem C12_penalty_rational_fact :
  forall mu lam t : Qc, (0 < mu)%Qc ->
    (0 <= penalty_q mu lam t)%Qc /\ (penalty_q mu lam t = 0%Qc <-> lam = t).
Proof. exact penalty_q_nonneg_zero_iff. Qed.
Print Assumptions C12_penalty_rational_fact.

(* 7. a term changes the occupation of any set A of spin-orbitals by (#creators - #annihilators) in A *)
Theorem C12_term_changes_count_by_balance :
  forall (A : list N) (t : fterm), NoDup A -> forall d s d',
    apply_term t d = Some (s, d') ->
    Z.of_nat (count_in A d') = (Z.of_nat (count_in A d) + term_delta A t)%Z.
Proof. exact apply_term_count. Qed.
Print Assumptions C12_term_changes_count_by_balance.

(* 8. conserving terms map every (n_alpha, n_beta) sector into itself; the executable checker is sound *)
Theorem C12_conserving_terms_commute :
  forall ud n t d s d', term_conserves ud n t = true -> apply_term t d = Some (s, d') ->
    n_alpha ud n d' = n_alpha ud n d /\ n_beta ud n d' = n_beta ud n d.
Proof. exact conserving_term_sectors. Qed.
Print Assumptions C12_conserving_terms_commute.

Theorem C12_conserves_sectors_sound :
  forall ud n g, conserves_sectors ud n g = true ->
    forall t, In t g -> forall d s d', apply_term t d = Some (s, d') ->
      n_alpha ud n d' = n_alpha ud n d /\ n_beta ud n d' = n_beta ud n d.
Proof. exact conserves_sectors_sound. Qed.
Print Assumptions C12_conserves_sectors_sound.

Theorem C12_conserving_operator_is_block_diagonal :
  forall (S : KS) ud n (a : fop S) d' d,
    conserves_sectors ud n (map fst a) = true ->
    (n_alpha ud n d' <> n_alpha ud n d \/ n_beta ud n d' <> n_beta ud n d) ->
    fop_elem S a d' d = k0.
Proof. exact conserving_op_block. Qed.
Print Assumptions C12_conserving_operator_is_block_diagonal.

(* 9. [N, A] = 0 and [Sz, A] = 0 (all matrix elements) for every operator A assembled from conserving terms,
      in particular every molecular Hamiltonian sum h_pq a+_p a_q + h_pqrs a+_p a+_q a_r a_s whose
      integrals are spin-free (checked on the real Hamiltonians by the harness through the checker) *)
Theorem C12_number_commutes_with_conserving :
  forall (S : KS) ud n (a : fop S) d' d,
    conserves_sectors ud n (map fst a) = true ->
    fop_elem S (fop_mul S (tab_number S symtab_gen n ud) a) d' d
    = fop_elem S (fop_mul S a (tab_number S symtab_gen n ud)) d' d.
Proof. intros. rewrite C12_tables_regenerated, tab_number_std. apply number_commutes. assumption. Qed.
Print Assumptions C12_number_commutes_with_conserving.

Theorem C12_spinz_commutes_with_conserving :
  forall (S : KS) ud n (a : fop S) d' d,
    conserves_sectors ud n (map fst a) = true ->
    fop_elem S (fop_mul S (tab_spinz S symtab_gen n ud) a) d' d
    = fop_elem S (fop_mul S a (tab_spinz S symtab_gen n ud)) d' d.
Proof. intros. rewrite C12_tables_regenerated, tab_spinz_std. apply spinz_commutes. assumption. Qed.
Print Assumptions C12_spinz_commutes_with_conserving.

(* ---------------- non-vacuity and witnesses ---------------- *)
(* a UCCSD-like generator on 2 orbitals (interleaved): single 0->2, 1->3 and the double 01->23, with h.c. *)
Definition ex_gen : list fterm :=
  [ [(2, true); (0, false)]; [(0, true); (2, false)]; [(3, true); (1, false)]; [(1, true); (3, false)];
    [(2, true); (3, true); (1, false); (0, false)]; [(0, true); (1, true); (3, false); (2, false)] ]%N.
Example C12_checker_accepts_uccsd_like :
  conserves_sectors false 2%nat ex_gen = true /\ conserves_sectors true 2%nat ex_gen = false.
Proof. vm_compute. split; reflexivity. Qed.
(* and rejects a spin flip, a pair creation and a Majorana-like string *)
Definition ex_spin_flip : fterm := [(1, true); (0, false)]%N.
Definition ex_pair_creation : fterm := [(0, true); (1, true)]%N.
Example C12_checker_rejects :
  conserves_sectors false 2%nat [ex_spin_flip] = false
  /\ conserves_sectors false 2%nat [ex_pair_creation] = false
  /\ term_conserves_number false 2%nat ex_spin_flip = true.
Proof. vm_compute. repeat split. Qed.
(* the double excitation really moves |0011> to |1100> (same sector), sign included *)
Definition ex_double : fterm := [(2, true); (3, true); (1, false); (0, false)]%N.
Example C12_double_excitation_acts :
  apply_term ex_double 3%N = Some (false, 12%N)
  /\ n_alpha false 2%nat 3%N = 1%nat /\ n_alpha false 2%nat 12%N = 1%nat
  /\ n_beta false 2%nat 3%N = 1%nat /\ n_beta false 2%nat 12%N = 1%nat.
Proof. vm_compute. repeat split. Qed.

(* eigenvalues on a concrete open-shell determinant: n = 3, interleaved, D = {0 up, 1 up, 1 dn} *)
Example C12_eigen_example :
  number_q false 3%nat 13%N = Q2Qc 3 /\ spinz_q false 3%nat 13%N = Q2Qc (1 # 2)
  /\ highest_weight_det false 3%nat 13%N = true /\ highest_weight_det false 3%nat 6%N = false.
Proof. vm_compute. repeat split; apply Qc_is_canon; reflexivity. Qed.

(* S^2 is NOT diagonal on determinants: the open-shell determinant |up0 dn1> is coupled to |dn0 up1>
   (so hypothesis 4 cannot be dropped) *)
Example C12_spin2_offdiagonal_witness :
  ceqb L4 (fop_elem CycS (tab_spin2 CycS symtab_gen 2%nat false) 6%N 9%N) (@k1 CycS) = true
  /\ ceqb L4 (fop_elem CycS (tab_spin2 CycS symtab_gen 2%nat false) 9%N 9%N) (@k1 CycS) = true
  /\ ceqb L4 (fop_elem CycS (tab_spin2 CycS symtab_gen 2%nat false) 3%N 3%N) (@k0 CycS) = true.
Proof. vm_compute. repeat split. Qed.

(* the penalty hypotheses are satisfiable and the value is as stated: N-penalty with mu = 3/2, target 2 on
   a 3-electron determinant is 3/2 *)
Example C12_penalty_example :
  (0 < Q2Qc (3 # 2))%Qc /\ penalty_q (Q2Qc (3 # 2)) (number_q false 3%nat 13%N) (Q2Qc 2) = Q2Qc (3 # 2)
  /\ penalty_q (Q2Qc (3 # 2)) (number_q false 3%nat 13%N) (Q2Qc 3) = 0%Qc.
Proof. split; [reflexivity|]. split; apply Qc_is_canon; vm_compute; reflexivity. Qed.
