(* C17, repaired variant: translate_c_to_json_ionq refuses a controlled kind without control qubit.
   Compiled when the implementation no longer shows
   C17/ionq/controlled-kind-without-control-read-as-uncontrolled. *)
From Coq Require Import String ZArith List Bool.
From Tangelo Require Import Linq.GateModel Linq.CircuitModel Linq.Formats Linq.FormatsProofs Linq.LinqZ Linq.FormatsZ.
From Gen Require Import GateTables FormatTables.
Import ListNotations.
Open Scope string_scope.
Notation zeq := (zeqmod eq_modulus_units eq_modulus_long_units).
(* a well-formed source circuit: valid gates, width covering them, all kinds accepted by the writer,
   nothing variational *)
Definition src_ok (accepts : string -> bool) (c : fcirc Z) : Prop :=
  circ_ok Z gtables c /\ Forall (fun g : zgate => accepts (pname g) = true) (fgates c)
  /\ Forall (fun g : zgate => pvar g = false) (fgates c).
Ltac src_ok_tac := unfold src_ok, circ_ok; repeat split; try (vm_compute; discriminate); repeat (constructor; try (vm_compute; reflexivity)).

(* every kind written with a controls key is covered by the refusing branch (regenerated lists) *)
Theorem C17_ionq_controls_guarded : iq_controls_guarded ionq_tbl = true.
Proof. vm_compute. reflexivity. Qed.
Print Assumptions C17_ionq_controls_guarded.

(* for EVERY circuit: a gate of a controlled kind whose control is None or [] makes the writer fail *)
Theorem C17_ionq_refuses_missing_control :
  forall (Ang : Type) (c : fcirc Ang) (g : pgate Ang) b,
    In g (fgates c) -> find_wbranch (pname g) (iq_wbranches ionq_tbl) = Some b -> wb_controls b = true ->
    truthy_list (pcontrol g) = false -> exists e, iq_write Ang ionq_tbl c = Err e.
Proof. exact (fun Ang c g b => iq_refuses_nocontrol Ang ionq_tbl c g b C17_ionq_controls_guarded). Qed.
Print Assumptions C17_ionq_refuses_missing_control.

Theorem C17_ionq_missing_control_witness_refused :
  iq_write Z ionq_tbl (FCirc [G "CNOT" [1%Z] None PNone false] 2%Z) = Err ValueError.
Proof. vm_compute. reflexivity. Qed.
Print Assumptions C17_ionq_missing_control_witness_refused.
