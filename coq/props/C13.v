(* C13 — Reduced density matrices reproduce energies and electron counts.
   Property theorems only; model: coq/theories/Chem/Rdm.v (+ Integrals.v); proofs: Chem/RdmProofs.v;
   transpose tuples and contraction factors regenerated from molecule.py / rdms.py: Gen.ChemTables.
   Statements hold for every commutative ring R with 1/2, every orbital count, every list of measured
   terms and every (linear) expectation functional ev : term -> K. *)
From Coq Require Import String ZArith List Bool Arith Permutation Lia.
From Tangelo Require Import Chem.Integrals.
From Tangelo Require Import Chem.IntegralsProofs.
From Tangelo Require Import Chem.Rdm.
From Tangelo Require Import Chem.RdmProofs.
From Tangelo Require Import Chem.ChemQ.
From Gen Require Import ChemTables.
Import ListNotations.

(* 1. energy contraction, spin-summed (get_rdm(sum_spin=True) + SecondQuantizedMolecule.energy_from_rdms with the
      REGENERATED tuple and factor): contracting the placed tensors with the integrals equals
      core + sum over the measured terms of (coefficient of the term in the Hamiltonian) * ev(term). *)
Theorem C13_energy_contraction :
  forall (R : CRing) (ev : term -> K R) n core (h : T2t R) (g : T4t R) ts,
    Forall (phi_lt halfidx n) ts -> Forall (fun t => spin_ok t = true) ts ->
    energy_r R mol_energy_rhf_axes mol_energy_rhf_factor n core h g (rdm1_sum_f R ev ts) (rdm2_sum_f R ev ts)
    = cadd core (sumL ts (fun t => cmul (coef_r R h g t) (ev t))).
Proof. intros R ev n core h g ts. exact (energy_contraction R ev mol_energy_rhf_axes n core h g ts (eq_refl _)). Qed.
Print Assumptions C13_energy_contraction.

(* 2. the closed forms used in 1 are what the spin-summation loops of get_rdm compute *)
Theorem C13_spin_sum_loops :
  forall (R : CRing) (ev : term -> K R) nso ts, Forall (phi_lt (fun i => i) nso) ts ->
    (forall p q, rdm1_sum R ev nso ts p q = rdm1_sum_f R ev ts p q)
    /\ (forall p q r s, rdm2_sum R ev nso ts p q r s = rdm2_sum_f R ev ts p q r s).
Proof.
  intros R ev nso ts H. split; intros; [apply rdm1_sum_closed | apply rdm2_sum_closed]; exact H.
Qed.
Print Assumptions C13_spin_sum_loops.

(* 3. energy contraction, spin-resolved (sum_spin=False) against spin-orbital coefficient tensors, with the
      tuple and (absent) factor of rdms.energy_from_rdms *)
Theorem C13_energy_contraction_spin_resolved :
  forall (R : CRing) (ev : term -> K R) nso core (one : T2t R) (twob : T4t R) ts,
    Forall (phi_lt (fun i => i) nso) ts ->
    energy_r R rdms_energy_axes rdms_energy_factor nso core one twob (rdm1_spin R ev ts) (rdm2_spin R ev ts)
    = cadd core (sumL ts (fun t => cmul (match t with T1 i j => one i j | T2 i j k l => twob i j k l end) (ev t))).
Proof. intros R ev nso core one twob ts. exact (energy_contraction_spin_resolved R ev rdms_energy_axes nso core one twob ts (eq_refl _)). Qed.
Print Assumptions C13_energy_contraction_spin_resolved.

(* 4. terms that are not measured because their coefficient is zero do not change the expectation value *)
Theorem C13_unmeasured_zero_terms :
  forall (R : CRing) (ev : term -> K R) (h : T2t R) (g : T4t R) ts ts0,
    (forall t, In t ts0 -> coef_r R h g t = c0) ->
    sumL (ts ++ ts0) (fun t => cmul (coef_r R h g t) (ev t)) = sumL ts (fun t => cmul (coef_r R h g t) (ev t)).
Proof. exact unmeasured_zero_terms. Qed.
Print Assumptions C13_unmeasured_zero_terms.

(* 5. Hermiticity, spin-resolved (phi = identity) and spin-summed (phi = halfidx) *)
Theorem C13_rdm_hermitian :
  forall (R : CRing) (ev : term -> K R) (conj : K R -> K R),
    (forall a b, conj (cadd a b) = cadd (conj a) (conj b)) -> conj c0 = c0 ->
  forall phi ts, (forall t, ev (dag t) = conj (ev t)) -> Permutation (map dag ts) ts ->
    (forall p q, place1 R ev phi ts q p = conj (place1 R ev phi ts p q))
    /\ (forall p q r s, place2 R ev phi ts q p s r = conj (place2 R ev phi ts p q r s)).
Proof. exact rdm_hermitian. Qed.
Print Assumptions C13_rdm_hermitian.

(* 6. traces: the 1-RDM traces to the sum of the expectation values of the number operators, provided all of
      them are measured (h_PP <> 0); spin-summed version for spin-conserving term lists *)
Theorem C13_rdm1_trace :
  forall (R : CRing) (ev : term -> K R) nso ts,
    NoDup ts -> Forall (phi_lt (fun i => i) nso) ts -> (forall P, P < nso -> In (T1 P P) ts) ->
    sumn nso (fun P => rdm1_spin R ev ts P P) = sumn nso (fun P => ev (T1 P P)).
Proof. exact rdm1_trace. Qed.
Print Assumptions C13_rdm1_trace.

Theorem C13_rdm1_trace_spin_summed :
  forall (R : CRing) (ev : term -> K R) n ts,
    Forall (phi_lt (fun i => i) (2 * n)) ts -> Forall (fun t => spin_ok t = true) ts ->
    sumn n (fun p => rdm1_sum_f R ev ts p p) = sumL (filter is_num ts) ev.
Proof. exact rdm1_trace_spin_summed. Qed.
Print Assumptions C13_rdm1_trace_spin_summed.

(* 7. padding: the padded 1-RDM has the active trace plus 2 per occupied orbital outside the active list *)
Theorem C13_pad_restricted_trace :
  forall (R : CRing) alias n nocc nocc0 (A : list nat) (d1 : T2t R) (d2 : T4t R),
    NoDup A -> (forall P, In P A -> P < n) ->
    sumn n (fun P => fst (fst (pad_restricted R alias pad_r_in_axes pad_r_out_axes nocc nocc0 A d1 d2)) P P)
    = cadd (sumn (length A) (fun p => d1 p p)) (sumL (frozen_occ_of n nocc A) (fun _ => two)).
Proof. intros R alias. exact (pad_restricted_trace R alias pad_r_in_axes pad_r_out_axes). Qed.
Print Assumptions C13_pad_restricted_trace.

(* 8. "without altering the arrays passed in": REFUTED on the faithful model (alias = true: the transposed
      VIEW of the caller's 2-RDM is updated in place).  Witness (replayed on the real code by the harness):
      mo_occ = [2,2,0], frozen orbital 0, active orbitals [1,2]; RDMs of the closed-shell determinant:
      D1 = diag(2,0), D2[0,0,0,0] = 2.  After the call the caller's D2[0,0,0,0] holds 0. *)
Definition wit_d1 : list (list Z) := [[2; 0]; [0; 0]]%Z.
Definition wit_d2 : list (list (list (list Z))) :=
  [[[[2; 0]; [0; 0]]; [[0; 0]; [0; 0]]]; [[[0; 0]; [0; 0]]; [[0; 0]; [0; 0]]]]%Z.
Theorem C13_pad_leaves_inputs_refuted :
  exists (d1 : T2t QcR) (d2 : T4t QcR) p q r s,
    snd (pad_restricted QcR true pad_r_in_axes pad_r_out_axes 2 1 [1; 2] d1 d2) p q r s <> d2 p q r s.
Proof.
  exists (mk2 wit_d1), (mk4 wit_d2), 0, 0, 0, 0. intro H.
  apply (f_equal Qcanon.this) in H. vm_compute in H. discriminate.
Qed.
Print Assumptions C13_pad_leaves_inputs_refuted.

(* 9. the minimal repair (work on a copy: alias = false) returns the same matrices and leaves the input *)
Theorem C13_pad_repaired_leaves_inputs :
  forall (R : CRing) nocc nocc0 A (d1 : T2t R) (d2 : T4t R),
    fst (pad_restricted R true pad_r_in_axes pad_r_out_axes nocc nocc0 A d1 d2)
    = fst (pad_restricted R false pad_r_in_axes pad_r_out_axes nocc nocc0 A d1 d2)
    /\ snd (pad_restricted R false pad_r_in_axes pad_r_out_axes nocc nocc0 A d1 d2) = d2.
Proof. intros R. exact (pad_restricted_repair_same_outputs R pad_r_in_axes pad_r_out_axes). Qed.
Print Assumptions C13_pad_repaired_leaves_inputs.

(* 10. the tuples the padding helpers apply on the way in and on the way out are the same involution *)
Theorem C13_pad_tuples_involution :
  forall (X : Type) (ax : axes), In ax ([pad_r_in_axes; pad_r_out_axes] ++ pad_u_in_axes ++ pad_u_out_axes) ->
  forall (t : nat -> nat -> nat -> nat -> X) p q r s, transpose4 ax (transpose4 ax t) p q r s = t p q r s.
Proof.
  intros X ax Hin t. apply rdm_swap_involution.
  apply (all_axes_eq RDM_SWAP ([pad_r_in_axes; pad_r_out_axes] ++ pad_u_in_axes ++ pad_u_out_axes) (eq_refl true)); exact Hin.
Qed.
Print Assumptions C13_pad_tuples_involution.

(* ---- non-vacuity ---- *)
(* a term list closed under conjugation, spin-conserving, with all number operators; ev real-valued
   symmetric (conj = identity) *)
Definition ex_ts : list term := [T1 0 0; T1 1 1; T1 2 2; T1 3 3; T1 0 2; T1 2 0; T1 1 3; T1 3 1;
                                 T2 0 1 1 0; T2 0 1 3 2; T2 2 3 1 0; T2 2 3 3 2].
Example C13_example_hypotheses :
  Permutation (map dag ex_ts) ex_ts
  /\ Forall (phi_lt halfidx 2) ex_ts /\ Forall (phi_lt (fun i => i) 4) ex_ts
  /\ forallb spin_ok ex_ts = true /\ NoDup ex_ts /\ (forall P, P < 4 -> In (T1 P P) ex_ts).
Proof.
  split; [|split; [|split; [|split; [|split]]]].
  - unfold ex_ts. simpl.
    apply perm_skip. apply perm_skip. apply perm_skip. apply perm_skip.
    eapply perm_trans; [apply perm_swap|]. apply perm_skip. apply perm_skip.
    eapply perm_trans; [apply perm_swap|]. apply perm_skip. apply perm_skip.
    apply perm_skip. eapply perm_trans; [apply perm_swap|]. apply Permutation_refl.
  - unfold ex_ts, halfidx. repeat constructor; simpl; lia.
  - unfold ex_ts. repeat constructor; simpl; lia.
  - reflexivity.
  - unfold ex_ts. repeat constructor; simpl; intuition discriminate.
  - intros P HP. unfold ex_ts. destruct P as [|[|[|[|P]]]]; simpl; auto 12; lia.
Qed.
