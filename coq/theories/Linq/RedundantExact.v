(* RedundantExact.v — remove_redundant_gates for ALL angles (generic number structure): when the
   comparison of parameters used by Gate.__eq__ only accepts equal angles, two gates that compare equal
   are interpreted as the SAME gate, every cancelled pair is a gate followed by its exact inverse, and
   the gates kept denote EXACTLY the operation of the input (no phase).  The comparison of the source
   is modulo the period: that case is RedundantProofs.v (exact grid, up to one global sign). *)
From Coq Require Import String ZArith NArith List Bool Lia.
From Tangelo Require Import Num.KStruct QSem.State QSem.StateLemmas QSem.GateLemmas QSem.CircuitLemmas QSem.Commute.
From Tangelo Require Import Linq.GateModel Linq.CircuitModel Linq.CircuitProofs Linq.Interp Linq.InterpProofs
     Linq.PassLemmas Linq.ScanLemmas Linq.InterpFacts Linq.MergeProofs.
Import ListNotations.
Open Scope string_scope.
Open Scope list_scope.

Lemma fold_bind_err' {X Y} (f : X -> Y -> res X) (l : list Y) e :
  fold_left (fun acc g => do k <- acc; f k g) l (Err e) = Err e.
Proof. induction l as [|x l IH]; simpl; [reflexivity | exact IH]. Qed.

Section RedExact.
  Variable S : KS.
  Variable Ang : Type.
  Variable ang : Ang -> A S.
  Variable ang_opp : Ang -> Ang.
  Variable ang_eqmod : bool -> Ang -> Ang -> bool.
  Variable ang_mpi2 ang_mpi4 : Ang.
  Variable T : tables.
  Hypothesis ang_opp_ok : forall a, ang (ang_opp a) = aopp (ang a).
  Hypothesis ang_mpi2_ok : ang ang_mpi2 = aopp api2.
  Hypothesis ang_mpi4_ok : ang ang_mpi4 = aopp api4.
  Hypothesis eq_exact : forall l a b, ang_eqmod l a b = true -> ang a = ang b.

  Notation pgate := (pgate Ang).
  Notation interp := (interp S Ang ang).
  Notation interp_all := (interp_all S Ang ang).
  Notation gate_okb := (gate_okb Ang).
  Notation okall := (okall Ang).
  Notation ginv := (gate_inverse Ang ang_opp ang_mpi2 ang_mpi4 T).
  Notation geq := (gate_eq Ang ang_eqmod T).
  Notation rstep := (redundant_step Ang ang_opp ang_eqmod ang_mpi2 ang_mpi4 T).
  Notation rcore := (redundant_core Ang ang_opp ang_eqmod ang_mpi2 ang_mpi4 T).
  Notation rall := (all_cancel Ang ang_opp ang_eqmod ang_mpi2 ang_mpi4 T).

  (* under an exact comparison of angles, gates that compare equal denote the same gate *)
  Lemma gate_eq_exact (g h : pgate) G H :
    geq g h = true -> interp g = Some G -> interp h = Some H -> G = H.
  Proof.
    intros He HG HH. unfold gate_eq in He.
    apply andb_true_iff in He. destruct He as [He Hp]. apply andb_true_iff in He. destruct He as [He _].
    apply andb_true_iff in He. destruct He as [He Hc]. apply andb_true_iff in He. destruct He as [Hn Ht].
    apply zlist_eqb_eq in Ht. apply ozlist_eqb_eq in Hc.
    destruct g as [n1 t c p1 v1], h as [n2 t' c' p2 v2]; simpl in *. subst t' c'.
    destruct p1 as [|a|s1], p2 as [|b|s2]; simpl in Hp; try discriminate.
    - destruct (is_cnot n1 && is_cnot n2) eqn:Ecn.
      + apply andb_true_iff in Ecn. destruct Ecn as [E1 E2]. unfold is_cnot in E1, E2.
        apply orb_true_iff in E1. apply orb_true_iff in E2.
        unfold Interp.interp in HG, HH; simpl in HG, HH.
        destruct E1 as [E1|E1], E2 as [E2|E2]; apply String.eqb_eq in E1; apply String.eqb_eq in E2; subst;
          destruct t as [|t1 [|t2 [|t3 r]]]; simpl in HG, HH; congruence.
      + apply String.eqb_eq in Hn. subst n2.
        assert (E : interp (PGate n1 t c PNone v1) = interp (PGate n1 t c PNone v2)) by reflexivity.
        congruence.
    - assert (En : n2 = n1).
      { destruct (is_cnot n1 && is_cnot n2) eqn:Ecn; [|apply String.eqb_eq in Hn; congruence].
        exfalso. apply andb_true_iff in Ecn. destruct Ecn as [E1 _]. unfold is_cnot in E1.
        apply orb_true_iff in E1. unfold Interp.interp in HG; simpl in HG. unfold g1_of_name in HG.
        destruct E1 as [E1|E1]; apply String.eqb_eq in E1; subst;
          destruct t as [|t1 [|t2 [|t3 r]]]; simpl in HG; discriminate. }
      subst n2. pose proof (eq_exact _ a b Hp) as Eab.
      assert (E : interp (PGate n1 t c (PNum a) v1) = interp (PGate n1 t c (PNum b) v2)).
      { unfold Interp.interp, g1_of_name; simpl. rewrite Eab. reflexivity. }
      congruence.
    - unfold Interp.interp in HG; simpl in HG. unfold g1_of_name in HG.
      destruct t as [|t1 [|t2 [|t3 r]]]; try discriminate.
      destruct (_ || _); [discriminate|]. destruct (String.eqb n1 "XX"); discriminate.
  Qed.

  Lemma ginv_site (h hi : pgate) : ginv h = Ok hi -> ptarget hi = ptarget h /\ pcontrol hi = pcontrol h.
  Proof.
    unfold gate_inverse. destruct (negb _); [discriminate|].
    destruct (String.eqb (pname h) "S"); [intro E; inversion E; auto|].
    destruct (String.eqb (pname h) "T"); [intro E; inversion E; auto|].
    destruct (pparam h); intro E; inversion E; auto.
  Qed.

  Lemma ginv_qubits (h hi : pgate) : ginv h = Ok hi -> gate_qubits hi = gate_qubits h.
  Proof. intro E. destruct (ginv_site h hi E) as [Ht Hc]. unfold gate_qubits. rewrite Ht, Hc. reflexivity. Qed.

  Lemma all_cancel_true' kept gate : forall qs,
    rall kept qs gate = Ok true ->
    forall q, In q qs -> exists p h hi, last_touch Ang kept q = Some p /\ nth_error kept p = Some h
                                        /\ ginv h = Ok hi /\ geq hi gate = true.
  Proof.
    induction qs as [|q0 r IH]; simpl; intros H q Hq; [contradiction|].
    destruct (last_touch Ang kept q0) as [top|] eqn:Hl; [|discriminate].
    unfold cancels, nth_gate in H.
    destruct (nth_error kept top) as [h|] eqn:Hn; simpl in H; [|discriminate].
    destruct (ginv h) as [hi|] eqn:Hi; simpl in H; [|discriminate].
    destruct (geq hi gate) eqn:He; [|discriminate].
    destruct Hq as [<-|Hq].
    - exists top, h, hi. auto.
    - apply IH; assumption.
  Qed.

  Lemma redundant_step_exact kept (gate : pgate) kept' K G :
    okall kept -> gate_okb gate = true -> interp_all kept = Some K -> interp gate = Some G ->
    rstep kept gate = Ok kept' ->
    okall kept' /\ exists K', interp_all kept' = Some K' /\ forall psi, den S K' psi = den_gate S G (den S K psi).
  Proof.
    intros Hok Hg HK HG H. unfold redundant_step in H.
    destruct (rall kept (gate_qubits gate) gate) as [rm|] eqn:Hac; simpl in H; [|discriminate].
    destruct rm.
    2:{ inversion H; subst kept'. split.
        - apply Forall_app. split; [exact Hok | constructor; [exact Hg | constructor]].
        - exists (K ++ [G]). split; [apply interp_all_snoc; assumption|].
          intro psi. rewrite den_app. reflexivity. }
    destruct (gate_qubits gate) as [|q0 qr] eqn:Eqs; [discriminate|].
    destruct (last_touch Ang kept q0) as [top|] eqn:Hl0; [|discriminate]. inversion H; subst kept'; clear H.
    rewrite <- Eqs in Hac.
    pose proof (all_cancel_true' kept gate _ Hac) as Hall.
    assert (Hall' : forall q, In q (gate_qubits gate) ->
                      exists p h, last_touch Ang kept q = Some p /\ nth_error kept p = Some h
                                  /\ gate_qubits h = gate_qubits gate).
    { intros q Hq. destruct (Hall q Hq) as (p & h & hi & Hp & Hn & Hi & He).
      exists p, h. repeat split; auto.
      rewrite <- (ginv_qubits h hi Hi). apply (gate_eq_qubits Ang ang_eqmod T). exact He. }
    destruct (same_last Ang kept (gate_qubits gate) Hall' q0 top ltac:(rewrite Eqs; left; reflexivity) Hl0)
      as (pre & h & post & Ek & Lp & _ & Hpost).
    destruct (Hall q0 ltac:(rewrite Eqs; left; reflexivity)) as (p & h' & hi & Hp & Hn & Hi & He).
    rewrite Hl0 in Hp. assert (p = top) by congruence. subst p.
    assert (h' = h) by (rewrite Ek, <- Lp, nth_error_split_mid in Hn; congruence). subst h'.
    rewrite Ek, <- Lp, del_nth_split.
    rewrite Ek in HK.
    destruct (interp_all_split S Ang ang pre h post K HK) as (Pre & Hh & Post & -> & HPre & HHh & HPost).
    rewrite Ek in Hok. apply Forall_app in Hok. destruct Hok as [Hokpre Hok2].
    pose proof (Forall_inv Hok2) as Hokh. pose proof (Forall_inv_tail Hok2) as Hokpost.
    pose proof (interp_inverse S Ang ang ang_opp ang_mpi2 ang_mpi4 T ang_opp_ok ang_mpi2_ok ang_mpi4_ok h hi Hh Hi HHh) as HHi.
    pose proof (gate_eq_exact hi gate _ G He HHi HG) as EG.
    split.
    - apply Forall_app. split; assumption.
    - exists (Pre ++ Post). split.
      + apply (interp_all_app S Ang ang); assumption.
      + intro psi. rewrite !den_app, den_cons.
        assert (Hdis : Forall (fun X => disjoint (State.gate_qubits S G) (State.gate_qubits S X)) Post).
        { apply (interp_all_disjoint S Ang ang gate G Hg HG post Post Hokpost HPost). exact Hpost. }
        rewrite <- (den_gate_comm_circuit S G Post _ Hdis). rewrite <- EG.
        rewrite den_gate_inv_l by (apply (interp_wf S Ang ang h Hh Hokh HHh)). reflexivity.
  Qed.

  Lemma redundant_fold_exact gs : forall kept out K C,
    okall kept -> okall gs -> interp_all kept = Some K -> interp_all gs = Some C ->
    fold_left (fun acc g => do k <- acc; rstep k g) gs (Ok kept) = Ok out ->
    okall out /\ exists C', interp_all out = Some C' /\ forall psi, den S C' psi = den S C (den S K psi).
  Proof.
    induction gs as [|g r IH]; simpl; intros kept out K C Hok Hgs HK HC H.
    - assert (out = kept) by congruence. subst out. assert (C = []) by congruence. subst C.
      split; [exact Hok|]. exists K. split; [exact HK | reflexivity].
    - destruct (interp g) as [G|] eqn:HG; [|discriminate].
      destruct (interp_all r) as [R|] eqn:HR; [|discriminate]. assert (C = G :: R) by congruence. subst C. clear HC.
      destruct (rstep kept g) as [kept1|e] eqn:Hs.
      + destruct (redundant_step_exact kept g kept1 K G Hok (Forall_inv Hgs) HK HG Hs) as (Hok1 & K1 & HK1 & Hden1).
        destruct (IH kept1 out K1 R Hok1 (Forall_inv_tail Hgs) HK1 eq_refl H) as (Hoko & C' & HC' & Hden).
        split; [exact Hoko|]. exists C'. split; [exact HC'|]. intro psi.
        rewrite Hden, Hden1, den_cons. reflexivity.
      + simpl in H. rewrite fold_bind_err' in H. discriminate.
  Qed.

  Theorem remove_redundant_exact gs out C :
    okall gs -> interp_all gs = Some C -> rcore gs = Ok out ->
    okall out /\ exists C', interp_all out = Some C' /\ forall psi, den S C' psi = den S C psi.
  Proof.
    intros Hok HC H. unfold redundant_core in H.
    apply (redundant_fold_exact gs [] out [] C (Forall_nil _) Hok eq_refl HC H).
  Qed.
End RedExact.
