(* MidCircuitReal.v — non-vacuity of the hypotheses of the branch_prob_chain theorems
   (MidCircuitProofs.v, Section ChainProofs): over the complex numbers (instance CRealS) a norm
   function, a smallness test and an inverse with the assumed properties exist; and a concrete
   non-trivial piece (Hadamard on a one-qubit register) preserves the squared norm, generically. *)
From Coq Require Import Reals Lra Lia NArith List Bool.
From Tangelo Require Import Num.KStruct Num.CReal QSem.State QSem.StateLemmas QSem.Measure QSem.MeasureProofs.
Import ListNotations.
Local Open Scope R_scope.

Lemma ksum_real_nonneg (f : nat -> C) (m : nat) :
  (forall i, snd (f i) = 0 /\ 0 <= fst (f i)) ->
  snd (ksum CRealS f m) = 0 /\ 0 <= fst (ksum CRealS f m).
Proof.
  intro H. induction m as [|k IH]; simpl.
  - split; [reflexivity|lra].
  - destruct IH as [I1 I2]. destruct (H k) as [H1 H2]. unfold Cadd; simpl. split; lra.
Qed.

Lemma norm2_real_nonneg (n : nat) (w : state CRealS) :
  snd (norm2 CRealS n w) = 0 /\ 0 <= fst (norm2 CRealS n w).
Proof.
  unfold norm2, inner. apply ksum_real_nonneg. intro i.
  destruct (w (N.of_nat i)) as [a b]. simpl. split; [ring|]. nra.
Qed.

Definition r_norm (n : nat) (w : state CRealS) : C := (sqrt (fst (norm2 CRealS n w)), 0).
Definition r_abs2 (r : C) : R := fst r * fst r + snd r * snd r.
Definition r_tiny (r : C) : bool := if Rlt_dec (r_abs2 r) (1 / 10 ^ 28) then true else false.
Definition r_inv (r : C) : C := (fst r / r_abs2 r, - snd r / r_abs2 r).

Theorem numerics_hypotheses_satisfiable (n : nat) :
  (forall w, @kconj CRealS (r_norm n w) = r_norm n w)
  /\ (forall r, r_tiny r = false -> @kmul CRealS r (r_inv r) = @k1 CRealS)
  /\ (forall w, @kmul CRealS (r_norm n w) (r_norm n w) = norm2 CRealS n w)
  /\ (forall r, @kconj CRealS r = r -> @kconj CRealS (r_inv r) = r_inv r).
Proof.
  repeat split.
  - intro w. apply C_eq; simpl; lra.
  - intros [a b]. unfold r_tiny, r_inv, r_abs2.
    change (fst (a, b)) with a. change (snd (a, b)) with b.
    assert (Hpos : 0 < 1 / 10 ^ 28) by (apply Rdiv_lt_0_compat; [lra|apply pow_lt; lra]).
    destruct (Rlt_dec (a * a + b * b) (1 / 10 ^ 28)) as [Hlt|Hge]; intro Hd; [discriminate Hd|].
    assert (Hne : a * a + b * b <> 0) by lra.
    apply C_eq; unfold Cmul; simpl; field; exact Hne.
  - intro w. destruct (norm2_real_nonneg n w) as [Hs Hf].
    apply C_eq; unfold r_norm; simpl.
    + rewrite sqrt_sqrt by exact Hf. ring.
    + rewrite Hs. ring.
  - intros [a b] H. apply (f_equal snd) in H. simpl in H.
    assert (Hb : b = 0) by lra. subst b.
    apply C_eq; unfold r_inv, r_abs2; simpl; [reflexivity|].
    unfold Rdiv. rewrite !Ropp_0, !Rmult_0_l. apply Ropp_0.
Qed.

(* a non-trivial norm-preserving piece, for every number structure: H on qubit 0 of a 1-qubit register *)
Section UnitExample.
  Variable S : KS.
  Add Ring kringr : (k_ring S).
  Local Open Scope K_scope.
  Lemma hadamard_preserves_norm : preserves_norm S 1 (den_gate S (Gate (B1 GH 0%N) [])).
  Proof.
    intro phi. unfold norm2, inner, den_gate, ctrl, den_base, app1; simpl.
    unfold bit, flip; simpl.
    rewrite !kconj_add, !kconj_mul, ?kconj_opp, !kconj_rs2.
    set (a := phi 0%N). set (b := phi 1%N).
    transitivity ((krs2 * krs2 + krs2 * krs2) * (kconj a * a + kconj b * b)); [ring|].
    rewrite k_rs2, k_half. ring.
  Qed.
End UnitExample.
