(* GateEqSound.v — soundness of Gate.__eq__ (model: GateModel.gate_eq) on the exact angle grid
   (angles k*pi/8, Cyc semantics, moduli 2*pi = 16 and 4*pi = 32 units as regenerated from the source):
   two gates that compare equal implement the same operation up to ONE global sign, and exactly the
   same operation when the gate has controls.  Side condition on the regenerated table eq_long (the
   controlled rotations CRX CRY CRZ are compared modulo the long period): a boolean, see props/C09.v;
   it fails for the original source (2*pi for all names), which was the defect repaired by a fix: commit. *)
From Coq Require Import String ZArith NArith List Bool Lia.
From Tangelo Require Import Num.KStruct Num.Cyc QSem.State QSem.StateLemmas QSem.GateLemmas QSem.CircuitLemmas
     QSem.Commute QSem.Measure QSem.MeasureProofs.
From Tangelo Require Import Linq.GateModel Linq.CircuitModel Linq.CircuitProofs Linq.Interp Linq.InterpProofs
     Linq.PassLemmas Linq.LinqZ Linq.Equiv Linq.SmallRot Linq.ScanLemmas Linq.InterpFacts.
Import ListNotations.
Open Scope string_scope.
Open Scope list_scope.

(* ---- shifting the angle of a rotation by a multiple of the period: all angles, generic ---- *)
Section Shift.
  Variable S : KS.
  Add Ring kring : (k_ring S).
  Open Scope K_scope.
  Notation A := (A S).

  Lemma cis_opp_1 (d : A) : cis d = 1 -> cis (aopp d) = (1 : K S).
  Proof. intro H. rewrite <- cis_conj, H. apply kconj_1. Qed.
  Lemma cis_opp_m1 (d : A) : cis d = - (1) -> cis (aopp d) = - (1 : K S).
  Proof. intro H. rewrite <- cis_conj, H, kconj_opp, kconj_1. reflexivity. Qed.

  Lemma cosh_cis1 (d : A) : cis d = 1 -> cosh_ S d = 1.
  Proof.
    intro H. unfold cosh_. rewrite H, (cis_opp_1 d H).
    transitivity (khalf + khalf : K S); [ring | apply k_half].
  Qed.
  Lemma misinh_cis1 (d : A) : cis d = 1 -> misinh S d = 0.
  Proof. intro H. unfold misinh. rewrite H, (cis_opp_1 d H). ring. Qed.
  Lemma cosh_cism1 (d : A) : cis d = - (1) -> cosh_ S d = - (1).
  Proof.
    intro H. unfold cosh_. rewrite H, (cis_opp_m1 d H).
    transitivity (- (khalf + khalf) : K S); [ring | rewrite k_half; reflexivity].
  Qed.
  Lemma misinh_cism1 (d : A) : cis d = - (1) -> misinh S d = 0.
  Proof. intro H. unfold misinh. rewrite H, (cis_opp_m1 d H). ring. Qed.

  Lemma rot_shift_same k (b d : A) q cs psi :
    ~ In q cs -> cis d = 1 ->
    den_gate S (rot_gate S k (aadd b d) q cs) psi = den_gate S (rot_gate S k b q cs) psi.
  Proof.
    intros Hq Hd. rewrite <- (merge_adjacent S k b d q cs psi Hq). apply rot_cis1_identity. exact Hd.
  Qed.

  Lemma rot_shift_phase (b d : A) q cs psi :
    ~ In q cs -> cis d = - (1) ->
    den_gate S (rot_gate S RotP (aadd b d) q cs) psi = den_gate S (rot_gate S RotP b q cs) psi.
  Proof.
    intros Hq Hd. rewrite <- (merge_adjacent S RotP b d q cs psi Hq). apply phase_cism1_identity. exact Hd.
  Qed.

  Lemma rot_shift_neg k (b d : A) q psi :
    k <> RotP -> cis d = - (1) ->
    den_gate S (rot_gate S k (aadd b d) q []) psi = sscale S (- (1)) (den_gate S (rot_gate S k b q []) psi).
  Proof.
    intros Hk Hd. rewrite <- (merge_adjacent S k b d q [] psi (fun F => F)).
    apply state_ext. intro x. rewrite (rot_cism1_sign S k d q [] _ x Hk Hd).
    unfold allset, sscale. cbn [forallb]. ring.
  Qed.

  Lemma xx_shift_same (b d : A) q1 q2 cs psi :
    cis d = 1 -> den_gate S (Gate (BXX (aadd b d) q1 q2) cs) psi = den_gate S (Gate (BXX b q1 q2) cs) psi.
  Proof.
    intro Hd. unfold den_gate; simpl. apply ctrl_ext. intro s. apply state_ext. intro x. unfold app_xx.
    rewrite cosh_add, misinh_add, (cosh_cis1 d Hd), (misinh_cis1 d Hd). ring.
  Qed.

  Lemma xx_shift_neg (b d : A) q1 q2 psi :
    cis d = - (1) ->
    den_gate S (Gate (BXX (aadd b d) q1 q2) []) psi = sscale S (- (1)) (den_gate S (Gate (BXX b q1 q2) []) psi).
  Proof.
    intro Hd. unfold den_gate; simpl. rewrite !ctrl_nil. apply state_ext. intro x. unfold app_xx, sscale.
    rewrite cosh_add, misinh_add, (cosh_cism1 d Hd), (misinh_cism1 d Hd). ring.
  Qed.
End Shift.

(* ---- the Cyc / Z instance ---- *)
Notation CS := CycS.

Lemma cy_cis_mod32_0 d : (d mod 32 = 0)%Z -> @cis CS d = @k1 CS.
Proof. intro H. rewrite cy_cis_mod, H. apply cy_cis_0. Qed.

Lemma cy_cis_mod16_0 d : (d mod 16 = 0)%Z -> @cis CS d = @k1 CS \/ @cis CS d = @kopp CS (@k1 CS).
Proof.
  intro H. rewrite cy_cis_mod.
  assert (E : (d mod 32 = 0 \/ d mod 32 = 16)%Z) by (Z.to_euclidean_division_equations; lia).
  destruct E as [E|E]; rewrite E; [left; apply cy_cis_0 | right; apply cy_cis_16].
Qed.

Lemma zeqmod_diff long a b :
  zeqmod 16 32 long a b = true -> ((a - b) mod 16 = 0)%Z /\ (long = true -> ((a - b) mod 32 = 0)%Z).
Proof.
  unfold zeqmod. intro H. apply Z.eqb_eq in H. destruct long.
  - split; [|intros _]; Z.to_euclidean_division_equations; lia.
  - split; [|discriminate]. Z.to_euclidean_division_equations; lia.
Qed.

Definition eq_tables_ok (T : tables) : bool :=
  smem "CRX" (eq_long T) && smem "CRY" (eq_long T) && smem "CRZ" (eq_long T).

Add Ring cyring2 : (k_ring CS).

Lemma sscale_sgn_false (psi : state CS) : sscale CS (sgn false) psi = psi.
Proof. unfold sgn. apply sscale_one. Qed.

Ltac str_cases :=
  repeat match goal with
         | |- context [String.eqb ?a ?b] => destruct (String.eqb_spec a b); subst; simpl in *
         | H : context [String.eqb ?a ?b] |- _ => destruct (String.eqb_spec a b); subst; simpl in *
         end.

(* equal names, targets, controls and parameters: same interpretation; CNOT and CX denote the same gate *)
Lemma interp_name_cnot (n1 n2 : string) t c v1 v2 G H :
  is_cnot n1 = true -> is_cnot n2 = true ->
  cy_interp (PGate n1 t c PNone v1) = Some G -> cy_interp (PGate n2 t c PNone v2) = Some H -> G = H.
Proof.
  unfold is_cnot, cy_interp, interp; simpl. intros H1 H2.
  apply orb_true_iff in H1. apply orb_true_iff in H2.
  destruct H1 as [H1|H1], H2 as [H2|H2]; apply String.eqb_eq in H1; apply String.eqb_eq in H2; subst;
    destruct t as [|t1 [|t2 [|t3 r]]]; simpl; congruence.
Qed.

Lemma interp_pvar_irrelevant (n : string) t c (p : param Z) v1 v2 :
  cy_interp (PGate n t c p v1) = cy_interp (PGate n t c p v2).
Proof. reflexivity. Qed.

(* a name compared modulo the short period that denotes a rotation other than PHASE is not a C-name *)
Lemma short_rot_uncontrolled T (g : zgate) k :
  eq_tables_ok T = true -> gate_okb Z g = true ->
  smem (pname g) (eq_long T) = false -> rot_of_name (pname g) = Some k -> k <> RotP -> pcontrol g = None.
Proof.
  intros HT Hok Hl Hk Hne. pose proof (okb_ctrl Z g Hok) as Hc.
  destruct g as [name t c p v]; simpl in *.
  destruct c as [c|]; [|reflexivity]. exfalso.
  unfold eq_tables_ok in HT. apply andb_true_iff in HT. destruct HT as [HT Hz].
  apply andb_true_iff in HT. destruct HT as [Hx Hy].
  unfold rot_of_name in Hk.
  str_cases; try discriminate; try congruence.
Qed.

Theorem gate_eq_sound T (g h : zgate) G H :
  eq_tables_ok T = true -> gate_okb Z g = true ->
  gate_eq Z (zeqmod 16 32) T g h = true -> cy_interp g = Some G -> cy_interp h = Some H ->
  exists neg, (gctrl G <> [] -> neg = false)
              /\ forall psi, den_gate CS G psi = sscale CS (sgn neg) (den_gate CS H psi).
Proof.
  intros HT Hok He HG HH.
  assert (Same : G = H -> exists neg, (gctrl G <> [] -> neg = false)
                                      /\ forall psi, den_gate CS G psi = sscale CS (sgn neg) (den_gate CS H psi)).
  { intros ->. exists false. split; [reflexivity|]. intro psi. rewrite sscale_sgn_false. reflexivity. }
  unfold gate_eq in He.
  apply andb_true_iff in He. destruct He as [He Hp]. apply andb_true_iff in He. destruct He as [He _].
  apply andb_true_iff in He. destruct He as [He Hc]. apply andb_true_iff in He. destruct He as [Hn Ht].
  apply zlist_eqb_eq in Ht. apply ozlist_eqb_eq in Hc.
  destruct g as [n1 t c p1 v1], h as [n2 t' c' p2 v2]; simpl in *. subst t' c'.
  destruct p1 as [|a|s1], p2 as [|b|s2]; simpl in Hp; try discriminate.
  - (* no parameter *)
    destruct (is_cnot n1 && is_cnot n2) eqn:Ecn.
    + apply andb_true_iff in Ecn. destruct Ecn as [E1 E2]. apply Same.
      exact (interp_name_cnot n1 n2 t c v1 v2 G H E1 E2 HG HH).
    + apply String.eqb_eq in Hn. subst n2. apply Same.
      rewrite (interp_pvar_irrelevant n1 t c PNone v1 v2) in HG. congruence.
  - (* numeric parameters *)
    assert (En : n2 = n1).
    { destruct (is_cnot n1 && is_cnot n2) eqn:Ecn; [|apply String.eqb_eq in Hn; congruence].
      exfalso. apply andb_true_iff in Ecn. destruct Ecn as [E1 _]. unfold is_cnot in E1.
      unfold cy_interp, interp in HG; simpl in HG. unfold g1_of_name in HG.
      destruct t as [|t1 [|t2 [|t3 r]]]; try discriminate; str_cases; discriminate. }
    subst n2. clear Hn.
    destruct (zeqmod_diff _ a b Hp) as [Hd16 Hd32].
    destruct t as [|t1 [|t2 [|t3 r]]]; try (unfold cy_interp, interp in HG; simpl in HG; discriminate).
    + (* one target: a rotation *)
      assert (Hrot : smem n1 rot8 = true).
      { unfold cy_interp, interp in HG; simpl in HG. unfold g1_of_name in HG. unfold smem, rot8; simpl.
        str_cases; try discriminate; reflexivity. }
      destruct (interp_rot CS Z (fun k => k) (PGate n1 [t1] c (PNum a) v1) G Hrot HG) as (k & a' & t' & Hk & Hpa & Hta & EG).
      destruct (interp_rot CS Z (fun k => k) (PGate n1 [t1] c (PNum b) v2) H Hrot HH) as (k' & b' & t'' & Hk' & Hpb & Htb & EH).
      simpl in *. inversion Hpa; subst a'. inversion Hpb; subst b'. inversion Hta; subst t'. inversion Htb; subst t''.
      rewrite Hk in Hk'. inversion Hk'; subst k'. clear Hpa Hpb Hta Htb Hk'.
      assert (Hq : ~ In (zn t1) (ctrl_list c)).
      { pose proof (interp_wf CS Z (fun k => k) (PGate n1 [t1] c (PNum a) v1) G Hok HG) as Hwf. rewrite EG in Hwf.
        unfold gate_wf in Hwf. simpl in Hwf. apply Hwf. left. reflexivity. }
      subst G H. replace a with (b + (a - b))%Z by lia.
      change (b + (a - b))%Z with (@aadd CS b (a - b)%Z).
      destruct (smem n1 (eq_long T)) eqn:Hlong.
      * exists false. split; [reflexivity|]. intro psi. rewrite sscale_sgn_false.
        apply rot_shift_same; [exact Hq | apply cy_cis_mod32_0; auto].
      * destruct (cy_cis_mod16_0 _ Hd16) as [Hc1|Hc1].
        -- exists false. split; [reflexivity|]. intro psi. rewrite sscale_sgn_false.
           apply rot_shift_same; assumption.
        -- assert (Hkp : k = RotP \/ k <> RotP) by (destruct k; [right|right|right|left]; congruence).
           destruct Hkp as [->|Hkp].
           ++ exists false. split; [reflexivity|]. intro psi. rewrite sscale_sgn_false.
              apply rot_shift_phase; assumption.
           ++ pose proof (short_rot_uncontrolled T (PGate n1 [t1] c (PNum a) v1) k HT Hok Hlong Hk Hkp) as Hnc.
              simpl in Hnc. subst c. exists true. split; [simpl; congruence|]. intro psi.
              apply rot_shift_neg; assumption.
    + (* two targets: XX (no control possible) *)
      unfold cy_interp, interp in HG, HH; simpl in HG, HH.
      destruct (String.eqb n1 "SWAP" || String.eqb n1 "CSWAP"); [discriminate|].
      destruct (String.eqb_spec n1 "XX") as [->|]; [|discriminate].
      pose proof (okb_ctrl Z _ Hok) as Hctl. simpl in Hctl.
      assert (c = None) by (destruct c; [discriminate | reflexivity]). subst c.
      inversion HG; inversion HH; subst G H. replace a with (b + (a - b))%Z by lia.
      change (b + (a - b))%Z with (@aadd CS b (a - b)%Z).
      destruct (cy_cis_mod16_0 _ Hd16) as [Hc1|Hc1].
      * exists false. split; [reflexivity|]. intro psi. rewrite sscale_sgn_false.
        apply xx_shift_same; assumption.
      * exists true. split; [simpl; congruence|]. intro psi. apply xx_shift_neg; assumption.
  - (* string parameters are not interpretable *)
    unfold cy_interp, interp in HG; simpl in HG. unfold g1_of_name in HG.
    destruct t as [|t1 [|t2 [|t3 r]]]; try discriminate.
    destruct (_ || _); [discriminate|]. destruct (String.eqb n1 "XX"); discriminate.
Qed.
