(* InterpFacts.v — how validity and qubit lists of the Python-level gates carry over to the reference
   semantics: qubits of the interpreted gate, well-formedness, disjointness, splitting of interpreted
   lists, and the shape of the interpreted rotation gates (RX RY RZ PHASE and their C-forms). *)
From Coq Require Import String ZArith NArith List Bool Lia.
From Tangelo Require Import Num.KStruct QSem.State QSem.StateLemmas QSem.GateLemmas QSem.CircuitLemmas QSem.Commute.
From Tangelo Require Import Linq.GateModel Linq.CircuitModel Linq.CircuitProofs Linq.Interp Linq.InterpProofs
     Linq.PassLemmas Linq.ScanLemmas.
Import ListNotations.
Open Scope string_scope.
Open Scope list_scope.

Lemma NoDup_map_inj_on {X Y} (f : X -> Y) (l : list X) :
  NoDup l -> (forall x y, In x l -> In y l -> f x = f y -> x = y) -> NoDup (map f l).
Proof.
  induction l as [|a l IH]; simpl; intros Hn Hinj; [constructor|].
  inversion Hn as [|a' l' Ha Hl]; subst. constructor.
  - intro Hin. apply in_map_iff in Hin. destruct Hin as (b & Hb & Hbl).
    assert (b = a) by (apply Hinj; auto). subst. contradiction.
  - apply IH; [exact Hl|]. intros x y Hx Hy. apply Hinj; auto.
Qed.

Lemma NoDup_app_disj {X} (a b : list X) : NoDup (a ++ b) -> forall x, In x a -> ~ In x b.
Proof.
  induction a as [|y a IH]; simpl; intros Hn x Hx; [contradiction|].
  inversion Hn as [|y' l' Hy Hl]; subst. destruct Hx as [->|Hx].
  - intro Hb. apply Hy. apply in_or_app. auto.
  - apply IH; assumption.
Qed.

Definition rot8 : list string := ["RX"; "RY"; "RZ"; "PHASE"; "CRX"; "CRY"; "CRZ"; "CPHASE"].

Section InterpFacts.
  Variable S : KS.
  Variable Ang : Type.
  Variable ang : Ang -> A S.

  Notation pgate := (pgate Ang).
  Notation interp := (interp S Ang ang).
  Notation interp_all := (interp_all S Ang ang).
  Notation gate_okb := (gate_okb Ang).

  Ltac str_cases :=
    repeat match goal with
           | |- context [String.eqb ?a ?b] => destruct (String.eqb_spec a b); subst; simpl in *
           | H : context [String.eqb ?a ?b] |- _ => destruct (String.eqb_spec a b); subst; simpl in *
           end.

  Definition ctrl_list (c : option (list Z)) : list N := match c with None => [] | Some c => map zn c end.

  Lemma interp_ctrl (g : pgate) G : interp g = Some G -> gctrl G = ctrl_list (pcontrol g).
  Proof.
    unfold Interp.interp, ctrl_list. destruct g as [name t c p v]; simpl.
    destruct t as [|t1 [|t2 [|t3 r]]]; try discriminate.
    - destruct (g1_of_name S Ang ang name p); [|discriminate]. intro H; inversion H; reflexivity.
    - destruct (_ || _); [destruct p; try discriminate; intro H; inversion H; reflexivity|].
      destruct (String.eqb name "XX"); [|discriminate].
      destruct p; try discriminate; intro H; inversion H; reflexivity.
  Qed.

  Lemma interp_qubits (g : pgate) G : interp g = Some G -> State.gate_qubits S G = map zn (gate_qubits g).
  Proof.
    unfold Interp.interp, State.gate_qubits, GateModel.gate_qubits. destruct g as [name t c p v]; simpl.
    destruct t as [|t1 [|t2 [|t3 r]]]; try discriminate.
    - destruct (g1_of_name S Ang ang name p); [|discriminate]. intro H; inversion H; subst; simpl.
      destruct c; simpl; reflexivity.
    - destruct (_ || _).
      + destruct p; try discriminate; intro H; inversion H; subst; simpl. destruct c; reflexivity.
      + destruct (String.eqb name "XX"); [|discriminate].
        destruct p; try discriminate; intro H; inversion H; subst; simpl. destruct c; reflexivity.
  Qed.

  Lemma zn_inj a b : (0 <= a)%Z -> (0 <= b)%Z -> zn a = zn b -> a = b.
  Proof. unfold zn. intros. lia. Qed.

  Lemma interp_nodup (g : pgate) G : gate_okb g = true -> interp g = Some G -> NoDup (State.gate_qubits S G).
  Proof.
    intros Hok HG. rewrite (interp_qubits g G HG). apply NoDup_map_inj_on.
    - apply okb_nodup. exact Hok.
    - intros x y Hx Hy. apply zn_inj; [exact (okb_nonneg Ang g x Hok Hx) | exact (okb_nonneg Ang g y Hok Hy)].
  Qed.

  (* a valid gate is interpreted as a well-formed gate: controls disjoint from the base qubits *)
  Lemma interp_wf (g : pgate) G : gate_okb g = true -> interp g = Some G -> gate_wf S G.
  Proof.
    intros Hok HG. pose proof (interp_nodup g G Hok HG) as Hn. unfold State.gate_qubits in Hn.
    unfold gate_wf. apply NoDup_app_disj. exact Hn.
  Qed.

  Lemma interp_disjoint (g h : pgate) G H :
    gate_okb g = true -> gate_okb h = true -> interp g = Some G -> interp h = Some H ->
    (forall q, In q (gate_qubits g) -> untouched Ang q h) ->
    disjoint (State.gate_qubits S G) (State.gate_qubits S H).
  Proof.
    intros Hg Hh HG HH Hd. rewrite (interp_qubits g G HG), (interp_qubits h H HH).
    intros q H1 H2. apply in_map_iff in H1. destruct H1 as (a & <- & Ha).
    apply in_map_iff in H2. destruct H2 as (b & Hab & Hb).
    assert (b = a) by (apply zn_inj; [exact (okb_nonneg Ang h b Hh Hb) | exact (okb_nonneg Ang g a Hg Ha) | exact Hab]).
    subst b. specialize (Hd a Ha). unfold untouched in Hd. apply zmem_false_nIn in Hd. contradiction.
  Qed.

  Lemma interp_all_disjoint (g : pgate) G : gate_okb g = true -> interp g = Some G ->
    forall post Post, Forall (fun h => gate_okb h = true) post -> interp_all post = Some Post ->
    Forall (fun h => forall q, In q (gate_qubits g) -> untouched Ang q h) post ->
    Forall (fun H => disjoint (State.gate_qubits S G) (State.gate_qubits S H)) Post.
  Proof.
    intros Hg HG. induction post as [|h r IH]; simpl; intros Post Hok HP Hu.
    - inversion HP; constructor.
    - destruct (interp h) as [H|] eqn:HH; [|discriminate].
      destruct (interp_all r) as [R|] eqn:HR; [|discriminate]. inversion HP; subst; clear HP.
      constructor.
      + apply (interp_disjoint g h G H Hg (Forall_inv Hok) HG HH (Forall_inv Hu)).
      + apply IH; [exact (Forall_inv_tail Hok) | reflexivity | exact (Forall_inv_tail Hu)].
  Qed.

  Lemma interp_all_split pre (g : pgate) post K :
    interp_all (pre ++ g :: post) = Some K ->
    exists Pre G Post, K = Pre ++ G :: Post /\ interp_all pre = Some Pre /\ interp g = Some G
                       /\ interp_all post = Some Post.
  Proof.
    revert K. induction pre as [|x pre IH]; simpl; intros K H.
    - destruct (interp g) as [G|]; [|discriminate]. destruct (interp_all post) as [Post|]; [|discriminate].
      inversion H; subst. exists [], G, Post. auto.
    - destruct (interp x) as [X|]; [|discriminate].
      destruct (interp_all (pre ++ g :: post)) as [R|] eqn:HR; [|discriminate]. inversion H; subst.
      destruct (IH R eq_refl) as (Pre & G & Post & -> & HPre & HG & HPost).
      exists (X :: Pre), G, Post. rewrite HPre. auto.
  Qed.

  Lemma interp_all_snoc gs (g : pgate) K G :
    interp_all gs = Some K -> interp g = Some G -> interp_all (gs ++ [g]) = Some (K ++ [G]).
  Proof.
    intros HK HG. apply (interp_all_app S Ang ang gs [g] K [G] HK). simpl. rewrite HG. reflexivity.
  Qed.

  (* ---- the rotation names ---- *)
  Definition rot_of_name (n : string) : option (rot) :=
    if String.eqb n "RX" || String.eqb n "CRX" then Some RotX
    else if String.eqb n "RY" || String.eqb n "CRY" then Some RotY
    else if String.eqb n "RZ" || String.eqb n "CRZ" then Some RotZ
    else if String.eqb n "PHASE" || String.eqb n "CPHASE" then Some RotP
    else None.

  Lemma interp_rot (g : pgate) G :
    smem (pname g) rot8 = true -> interp g = Some G ->
    exists k a t, rot_of_name (pname g) = Some k /\ pparam g = PNum a /\ ptarget g = [t]
                  /\ G = rot_gate S k (ang a) (zn t) (ctrl_list (pcontrol g)).
  Proof.
    unfold Interp.interp, rot_of_name, rot_gate, ctrl_list, smem, rot8.
    destruct g as [name t c p v]; simpl. intros Hn HG.
    destruct t as [|t1 [|t2 [|t3 r]]]; try discriminate.
    - destruct p as [|a|s]; unfold g1_of_name in HG.
      + str_cases; discriminate.
      + str_cases; try discriminate; inversion HG; subst;
          (eexists; exists a, t1; repeat split; reflexivity).
      + discriminate.
    - str_cases; discriminate.
  Qed.

  Lemma interp_rot_conv name t c a v k :
    rot_of_name name = Some k ->
    interp (PGate name [t] c (PNum a) v) = Some (rot_gate S k (ang a) (zn t) (ctrl_list c)).
  Proof.
    unfold Interp.interp, rot_of_name, rot_gate, ctrl_list, g1_of_name; simpl.
    intro H. str_cases; try discriminate; inversion H; subst; reflexivity.
  Qed.
End InterpFacts.
