(* SimplifyProofs.v — soundness of simplify (model: CircuitModel.simplify / simplify_loop: copy, then
   cycles of merge_rotations, remove_small_rotations, remove_redundant_gates until a fixed point or
   the cycle bound) on the exact angle grid (angles k*pi/8, Cyc semantics, moduli 16 / 32 units):
   for EVERY valid circuit and every cycle bound, the result denotes the operation of the input up to
   ONE global sign.  Composition of merge_rotations_sound, remove_small_sound, remove_redundant_sound. *)
From Coq Require Import String ZArith NArith List Bool Lia.
From Tangelo Require Import Num.KStruct Num.Cyc QSem.State QSem.StateLemmas QSem.GateLemmas QSem.CircuitLemmas
     QSem.Commute QSem.Measure QSem.MeasureProofs.
From Tangelo Require Import Linq.GateModel Linq.CircuitModel Linq.CircuitProofs Linq.Interp Linq.InterpProofs
     Linq.PassLemmas Linq.LinqZ Linq.Equiv Linq.SmallRot Linq.ScanLemmas Linq.InterpFacts Linq.MergeProofs
     Linq.GateEqSound Linq.RedundantProofs.
Import ListNotations.
Open Scope string_scope.
Open Scope list_scope.

Lemma okall_ctrl_ok (gs : list zgate) : zokall gs -> Forall ctrl_ok gs.
Proof.
  intro H. induction H as [|g r Hg Hr IH]; constructor; [|exact IH].
  unfold ctrl_ok. apply (okb_ctrl Z g Hg).
Qed.

Definition pass_tables_ok (T : tables) : bool := merge_tables_ok T && small_tables_ok T && eq_tables_ok T.

Section Simp.
  Variable T : tables.
  Variable mpi2 mpi4 : Z.
  Hypothesis mpi2_ok : mpi2 = (-4)%Z.
  Hypothesis mpi4_ok : mpi4 = (-2)%Z.
  Hypothesis HT : pass_tables_ok T = true.

  Notation zmerge := (merge_rotations_fn Z Z.add (zeqmod 16 32) T).
  Notation zsmallp := (remove_small_rotations Z (zsmall 16 32) T).
  Notation zred := (remove_redundant_gates Z Z.opp (zeqmod 16 32) mpi2 mpi4 T).
  Notation zloop := (simplify_loop Z Z.add Z.opp (zsmall 16 32) (zeqmod 16 32) mpi2 mpi4 T).
  Notation zsimplify := (simplify Z Z.add Z.opp (zsmall 16 32) (zeqmod 16 32) mpi2 mpi4 T).

  Lemma tables_split : merge_tables_ok T = true /\ small_tables_ok T = true /\ eq_tables_ok T = true.
  Proof.
    unfold pass_tables_ok in HT. apply andb_true_iff in HT. destruct HT as [H Hc].
    apply andb_true_iff in H. destruct H as [Ha Hb]. auto.
  Qed.

  (* the three passes, at the level of circuits *)
  Lemma zmerge_sound c c' C :
    zokall (cgates Z c) -> cy_interp_all (cgates Z c) = Some C -> zmerge c = Ok c' ->
    zokall (cgates Z c') /\ exists C', cy_interp_all (cgates Z c') = Some C' /\ forall psi, den CS C' psi = den CS C psi.
  Proof.
    intros Hok HC H. destruct tables_split as (Hm & _ & _).
    apply (merge_rotations_fn_sound CS Z (fun k => k) Z.add (zeqmod 16 32) T (fun a b => eq_refl) c c' C Hm Hok HC H).
  Qed.

  Lemma zsmall_sound c rq c' C :
    zokall (cgates Z c) -> cy_interp_all (cgates Z c) = Some C -> zsmallp c rq = Ok c' ->
    zokall (cgates Z c') /\ exists C' neg, cy_interp_all (cgates Z c') = Some C'
                                           /\ forall psi, den CS C psi = sscale CS (sgn neg) (den CS C' psi).
  Proof.
    intros Hok HC H. destruct tables_split as (_ & Hs & _). unfold remove_small_rotations in H.
    destruct (filterM _ (cgates Z c)) as [gs|] eqn:Hf; simpl in H; [|discriminate].
    pose proof (build_okb Z T _ _ _ H) as Hok'. apply build_gates in H. rewrite H.
    split; [exact Hok'|].
    apply (remove_small_sound T (cgates Z c) gs C Hs (okall_ctrl_ok _ Hok) Hf HC).
  Qed.

  Lemma zred_sound c rq c' C :
    zokall (cgates Z c) -> cy_interp_all (cgates Z c) = Some C -> zred c rq = Ok c' ->
    zokall (cgates Z c') /\ exists C' neg, cy_interp_all (cgates Z c') = Some C'
                                           /\ forall psi, den CS C psi = sscale CS (sgn neg) (den CS C' psi).
  Proof.
    intros Hok HC H. destruct tables_split as (_ & _ & He). unfold remove_redundant_gates in H.
    destruct (redundant_core _ _ _ _ _ _ (cgates Z c)) as [gs|] eqn:Hf; simpl in H; [|discriminate].
    apply build_gates in H. rewrite H.
    apply (remove_redundant_sound T mpi2 mpi4 mpi2_ok mpi4_ok (cgates Z c) gs C He Hok HC Hf).
  Qed.

  Lemma simplify_loop_sound rq fuel : forall c_old c_new c' C,
    zokall (cgates Z c_old) -> cy_interp_all (cgates Z c_old) = Some C ->
    zloop fuel c_old c_new rq = Ok c' ->
    zokall (cgates Z c') /\ exists C' neg, cy_interp_all (cgates Z c') = Some C'
                                           /\ forall psi, den CS C psi = sscale CS (sgn neg) (den CS C' psi).
  Proof.
    assert (Stop : forall c_old c' C, zokall (cgates Z c_old) -> cy_interp_all (cgates Z c_old) = Some C ->
                     Ok c_old = Ok c' ->
                     zokall (cgates Z c') /\ exists C' neg, cy_interp_all (cgates Z c') = Some C'
                        /\ forall psi, den CS C psi = sscale CS (sgn neg) (den CS C' psi)).
    { intros c_old c' C Hok HC E. assert (c' = c_old) by congruence. subst c'. split; [exact Hok|].
      exists C, false. split; [exact HC|]. intro psi. rewrite sscale_sgn_false. reflexivity. }
    induction fuel as [|k IH]; simpl; intros c_old c_new c' C Hok HC H.
    - eapply Stop; eassumption.
    - destruct (circ_eq Z (zeqmod 16 32) T c_old c_new); [eapply Stop; eassumption|].
      destruct (zmerge c_old) as [m|] eqn:Hm; simpl in H; [|discriminate].
      destruct (zsmallp m rq) as [s|] eqn:Hs; simpl in H; [|discriminate].
      destruct (zred s rq) as [r|] eqn:Hr; simpl in H; [|discriminate].
      destruct (zmerge_sound c_old m C Hok HC Hm) as (Hokm & M & HM & HdM).
      destruct (zsmall_sound m rq s M Hokm HM Hs) as (Hoks & S1 & n1 & HS1 & HdS).
      destruct (zred_sound s rq r S1 Hoks HS1 Hr) as (Hokr & R & n2 & HR & HdR).
      destruct (IH r c_old c' R Hokr HR H) as (Hok' & C' & n3 & HC' & HdC).
      split; [exact Hok'|]. exists C', (xorb (xorb n1 n2) n3). split; [exact HC'|].
      intro psi. rewrite <- HdM, HdS, HdR, HdC, !sscale_sgn_sgn. reflexivity.
  Qed.

  (* simplify: the result denotes the operation of the input up to one global sign *)
  Theorem simplify_sound c n rq c' C :
    zokall (cgates Z c) -> cy_interp_all (cgates Z c) = Some C -> zsimplify c n rq = Ok c' ->
    zokall (cgates Z c') /\ exists C' neg, cy_interp_all (cgates Z c') = Some C'
                                           /\ forall psi, den CS C psi = sscale CS (sgn neg) (den CS C' psi).
  Proof.
    intros Hok HC H. unfold simplify in H.
    destruct (copy_c Z T c) as [c0|] eqn:Hc; simpl in H; [|discriminate].
    pose proof (copy_same_den Z T c c0 Hc) as E.
    apply (simplify_loop_sound rq n c0 (empty_circ Z None) c' C); [rewrite E; exact Hok | rewrite E; exact HC | exact H].
  Qed.
End Simp.
