(* NoiseRun.v — the executable instance of the noise model (definitions only): error rates are
   canonical rationals Qc, angles integers in units of pi/8, the number structure is the exact
   cyclotomic instance CycS.  Also the printers used by the correspondence harness (C19).
   [rate_expr] is the expression np*(4**k-1)/4**k regenerated from translate_cirq.py. *)
From Coq Require Import String ZArith NArith QArith Qcanon List Bool.
From Tangelo Require Import Num.KStruct Num.Cyc Num.Show QSem.State QSem.Density
     Linq.GateModel Linq.Interp Linq.CircuitModel Linq.History Linq.LinqZ Linq.Noise.
Import ListNotations.
Open Scope string_scope.

Definition qrate (a : Z) (b : positive) : Qc := Q2Qc (a # b).
Fixpoint Qcpow (a : Qc) (n : nat) : Qc := match n with O => 1%Qc | S m => (a * Qcpow a m)%Qc end.
Definition Qc_leb (a b : Qc) : bool := Qle_bool (this a) (this b).

Definition zlop : Type := @lop Qc Z.
Definition znm : Type := nmodel Qc.
Definition zcall : Type := (string * string * pyparams Qc)%type.

Section Run.
  Variable T : ntables.
  Variable rate_expr : Qc -> nat -> Qc.

  (* cirq's probability validation: asymmetric_depolarize needs 0 <= px,py,pz and px+py+pz <= 1;
     depolarize(p') needs 0 <= p' <= 1 *)
  Definition pauli_okQ (x y z : Qc) : bool :=
    Qc_leb 0 x && Qc_leb 0 y && Qc_leb 0 z && Qc_leb (x + y + z) 1.
  Definition depol_okQ (p : Qc) (k : nat) : bool :=
    Qc_leb 0 (rate_expr p k) && Qc_leb (rate_expr p k) 1.

  Definition show_lop (o : zlop) : string :=
    match o with
    | LGate g => "G:" ++ show_gate g
    | LPauli x y z q => "P(" ++ show_Qc x ++ "," ++ show_Qc y ++ "," ++ show_Qc z ++ ";" ++ show_Z q ++ ")"
    | LDepol p qs => "D(" ++ show_Qc (rate_expr p (length qs)) ++ ";" ++ show_zs qs ++ ")"
    end.
  Definition show_ops (r : res (list zlop)) : string :=
    match r with Ok ops => "Ok " ++ join " " (map show_lop ops) | Err e => "Err:" ++ show_err e end.

  (* a sequence of add_quantum_error calls on one NoiseModel object; a rejected call raises and
     leaves the object as it was (the harness catches the exception and goes on) *)
  Fixpoint add_all (nm : znm) (calls : list zcall) : znm * list bool :=
    match calls with
    | [] => (nm, [])
    | (g, nt, np) :: r =>
      match add_quantum_error Qc T nm g nt np with
      | Ok nm' => let (f, l) := add_all nm' r in (f, true :: l)
      | Err _ => let (f, l) := add_all nm r in (f, false :: l)
      end
    end.
  Definition show_flags (l : list bool) : string := join "" (map show_bool l).

  Definition show_pelem (e : pelem Qc) : string := match e with ENum r => show_Qc r | EBad => "?" end.
  Definition show_params (p : pyparams Qc) : string :=
    match p with
    | VFloat r => "f" ++ show_Qc r
    | VList l => "[" ++ join "," (map show_pelem l) ++ "]"
    | VOther => "?"
    end.
  Definition show_nm (nm : znm) : string :=
    join " " (map (fun kv => fst kv ++ "=" ++ join "+" (map (fun e => fst e ++ ":" ++ show_params (snd e)) (snd kv))) nm).

  (* validation stream: accept/reject flag of every call and the stored dictionary *)
  Definition run_validation (calls : list zcall) : string :=
    let (nm, flags) := add_all [] calls in show_flags flags ++ " | " ++ show_nm nm.

  Definition key_mode (renamed : bool) : pgate Z -> string :=
    key_of Z (if renamed then rename_rule T else None).

  (* structural stream: the operation list appended by translate_c_to_cirq *)
  Definition run_translate (renamed : bool) (calls : list zcall) (gates : list zgate) : string :=
    let (nm, _) := add_all [] calls in
    show_ops (translate_noisy Qc Z pauli_okQ depol_okQ T (key_mode renamed) nm gates).

  (* density stream: the final density matrix on n qubits from |0..0>, exact in Q(zeta_32) *)
  Definition show_dens (t : list (list Cy)) : string := join ";" (map (fun row => join "," (map show_Cy row)) t).
  Definition run_density (renamed : bool) (n : nat) (calls : list zcall) (gates : list zgate) : string :=
    let (nm, _) := add_all [] calls in
    match translate_noisy Qc Z pauli_okQ depol_okQ T (key_mode renamed) nm gates with
    | Err e => "Err:" ++ show_err e
    | Ok ops =>
      match interp_lops Qc Z CycS (fun k => k) cy_of_Qc ops with
      | None => "uninterpreted"
      | Some nops => show_dens (run_nops CycS n nops (rho0 CycS n))
      end
    end.

  Definition show_backend (r : res unit) : string := match r with Ok _ => "Ok" | Err e => "Err:" ++ show_err e end.
End Run.
