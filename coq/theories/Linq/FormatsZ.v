(* FormatsZ.v — the executable instance of Linq/Formats.v on the pi/8 angle grid (angles : Z, as in
   LinqZ.v) and the canonical printers used by the correspondence harness (harness/props/C17.py
   renders the implementation's dictionaries / text / circuits into the same strings). *)
From Coq Require Import String Ascii ZArith List Bool.
From Tangelo Require Import Num.Show Linq.GateModel Linq.CircuitModel Linq.Formats Linq.LinqZ.
Import ListNotations.
Open Scope string_scope.

Lemma zeqmod_refl m ml l a : zeqmod m ml l a a = true.
Proof. unfold zeqmod. apply Z.eqb_refl. Qed.

Definition show_ozs (o : option (list Z)) : string :=
  match o with None => "N" | Some l => "[" ++ show_zs l ++ "]" end.
Definition show_oparam (o : option (param Z)) : string :=
  match o with None => "N" | Some p => show_param p end.

Definition show_irec (r : irec Z) : string :=
  ir_gate r ++ ":t=" ++ show_ozs (ir_target r) ++ ":ts=" ++ show_ozs (ir_targets r)
            ++ ":c=" ++ show_ozs (ir_control r) ++ ":cs=" ++ show_ozs (ir_controls r)
            ++ ":r=" ++ show_oparam (ir_rotation r).
Definition show_ijson (j : ijson Z) : string :=
  "Q" ++ show_Z (ij_qubits j) ++ "|" ++ join ";" (map show_irec (ij_circuit j)).
Definition show_pqline (l : pqline Z) : string :=
  ql_name l ++ "(" ++ show_oparam (ql_param l) ++ "){" ++ show_zs (ql_qubits l) ++ "}".
Definition show_pqprog (ls : list (pqline Z)) : string := join ";" (map show_pqline ls).
Definition show_fcirc (c : fcirc Z) : string := show_gates (fgates c) ++ " w=" ++ show_Z (fwidth c).

Definition show_res {X} (f : X -> string) (r : res X) : string :=
  match r with Ok x => "Ok " ++ f x | Err e => "Err:" ++ show_err e end.

Section Inst.
  Variable T : tables.
  Variable I : ionq_tables.
  Variable P : pq_tables.
  Variable RP : repr_tables.

  (* writer output, then the reader applied to it *)
  Definition iq_case (c : fcirc Z) : string :=
    let w := iq_write Z I c in
    show_res show_ijson w ++ " # " ++ show_res show_fcirc (do j <- w; iq_read Z T I j).
  Definition pq_case (c : fcirc Z) : string :=
    let w := pq_write Z P c in
    show_res show_pqprog w ++ " # " ++ show_res show_fcirc (do j <- w; pq_read Z T P j).
  (* reader alone, on hand-made programs *)
  Definition iq_read_case (j : ijson Z) : string := show_res show_fcirc (iq_read Z T I j).
  Definition pq_read_case (ls : list (pqline Z)) : string := show_res show_fcirc (pq_read Z T P ls).

  Definition show_repr_fields (f : repr_fields Z) : string :=
    rf_name Z f ++ ":t=" ++ show_ozs (rf_target Z f) ++ ":c=" ++ show_ozs (rf_control Z f)
            ++ ":p=" ++ show_oparam (rf_param Z f)
            ++ ":v=" ++ (match rf_var Z f with None => "N" | Some b => show_bool b end).
  Definition repr_case (g : zgate) : string :=
    show_repr_fields (gate_repr Z RP g) ++ " # " ++ show_res show_gate (repr_eval Z T (gate_repr Z RP g)).
End Inst.
