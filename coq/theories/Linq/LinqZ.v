(* LinqZ.v — the executable instance of the Linq models: angles are integers in units of pi/8
   (the Cyc grid).  mS, mE : the moduli (in the same units) of remove_small_rotations and Gate.__eq__,
   regenerated from the source.  Also the printers used by the correspondence harness. *)
From Coq Require Import String Ascii ZArith List Bool.
From Tangelo Require Import Num.Show Linq.GateModel Linq.CircuitModel Linq.History.
Import ListNotations.
Open Scope string_scope.

(* m = the short modulus (2*pi), ml = the long one (4*pi), both in units of pi/8 *)
Definition zsmall (m ml : Z) (long : bool) (k : Z) : bool := Z.eqb (Z.abs k mod (if long then ml else m)) 0.
Definition zeqmod (m ml : Z) (long : bool) (a b : Z) : bool :=
  Z.eqb (a mod (if long then ml else m)) (b mod (if long then ml else m)).

Definition zgate := pgate Z.
Definition zcirc := circ Z.

Definition show_param (p : param Z) : string :=
  match p with PNone => "_" | PNum k => show_Z k | PStr s => "'" ++ s end.
Definition show_zs (l : list Z) : string := join "." (map show_Z l).
Definition show_gate (g : zgate) : string :=
  pname g ++ "(" ++ show_zs (ptarget g) ++ ";"
        ++ (match pcontrol g with None => "N" | Some c => show_zs c end) ++ ";"
        ++ show_param (pparam g) ++ ";" ++ show_bool (pvar g) ++ ")".
Definition show_gates (l : list zgate) : string := join " " (map show_gate l).

Section Inst.
  Variable T : tables.
  Variable mS mSl mE mEl : Z.
  Variable mpi2 mpi4 : Z.

  Definition show_circ (c : zcirc) : string :=
    "{g=" ++ show_gates (cgates Z c)
    ++ "|nq=" ++ (match cnq Z c with None => "N" | Some n => show_Z n end)
    ++ "|idx=" ++ show_zs (cidx Z c)
    ++ "|cnt=" ++ join "," (map (fun kv => fst kv ++ ":" ++ show_nat (snd kv)) (ccounts Z c))
    ++ "|ncnt=" ++ join "," (map (fun kv => show_nat (fst kv) ++ ":" ++ show_nat (snd kv)) (cncounts Z c))
    ++ "|var=" ++ show_gates (cvar Z c)
    ++ "|w=" ++ show_Z (width Z c) ++ "|size=" ++ show_nat (size Z c)
    ++ "|isvar=" ++ show_bool (is_variational Z c) ++ "|mixed=" ++ show_bool (is_mixed_state Z c)
    ++ "|depth=" ++ show_Z (depth Z c) ++ "}".

  Definition show_err (e : err) : string :=
    match e with ValueError => "ValueError" | TypeError => "TypeError" | AttributeError => "AttributeError"
            | IndexError => "IndexError" | KeyError => "KeyError" end.
  Definition show_outcome (o : res unit) : string := match o with Ok _ => "Ok" | Err e => "Err:" ++ show_err e end.

  Definition zstep := step Z Z.add Z.opp (zsmall mS mSl) (zeqmod mE mEl) mpi2 mpi4 T.
  Definition zrun (ops : list (op Z)) : string :=
    join " ## " (map (fun so => show_outcome (snd so) ++ " " ++ join " ; " (map show_circ (fst so)))
                     (run_hist Z Z.add Z.opp (zsmall mS mSl) (zeqmod mE mEl) mpi2 mpi4 T [] ops)).
End Inst.

(* constructors with short names for generated case files *)
Definition G (n : string) (t : list Z) (c : option (list Z)) (p : param Z) (v : bool) : zgate := PGate n t c p v.
