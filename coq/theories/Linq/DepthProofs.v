(* DepthProofs.v — what Circuit.depth (model: CircuitModel.depth, the "moments" fold) computes, for
   EVERY gate list.  Independent specification: the LEVEL of a gate is 1 + the largest level among
   the earlier gates that share a qubit with it (1 if there is none); the depth is the largest level
   (0 for the empty circuit).  Equivalently (second part): the depth is the length of a longest CHAIN,
   a subsequence of the gate list in which every gate shares a qubit with its predecessor in the chain.
   No validity assumption on the gates: any index lists. *)
From Coq Require Import String ZArith List Bool Lia.
From Tangelo Require Import Linq.GateModel Linq.CircuitModel Linq.ScanLemmas.
Import ListNotations.
Open Scope list_scope.
Local Open Scope Z_scope.

Fixpoint zmax0 (l : list Z) : Z := match l with [] => 0 | x :: r => Z.max x (zmax0 r) end.

Lemma zmax0_nonneg l : 0 <= zmax0 l.
Proof. induction l as [|x r IH]; simpl; lia. Qed.

Lemma zmax0_le_iff l z : zmax0 l <= z <-> 0 <= z /\ forall x, In x l -> x <= z.
Proof.
  induction l as [|y r IH]; simpl.
  - split; [intro; split; [assumption | intros x []] | tauto].
  - rewrite Z.max_lub_iff, IH. split.
    + intros (Hy & H0 & Hr). split; [exact H0|]. intros x [<-|Hx]; auto.
    + intros (H0 & H). repeat split; auto.
Qed.

Lemma zmax0_ge l x : In x l -> x <= zmax0 l.
Proof. intro H. pose proof (proj1 (zmax0_le_iff l (zmax0 l)) (Z.le_refl _)) as [_ H']. auto. Qed.

Lemma zmax0_app a b : zmax0 (a ++ b) = Z.max (zmax0 a) (zmax0 b).
Proof. induction a as [|x a IH]; simpl; [pose proof (zmax0_nonneg b); lia | rewrite IH; lia]. Qed.

(* the maximum is attained, or it is 0 and nothing in the list is positive *)
Lemma zmax0_attained l : 0 < zmax0 l -> In (zmax0 l) l.
Proof.
  induction l as [|x r IH]; simpl; intro H; [lia|].
  destruct (Z.max_spec x (zmax0 r)) as [[Hlt E]|[Hge E]]; rewrite E in *; auto.
Qed.

Lemma fold_max_le_iff {X} (f : X -> Z) (qs : list X) : forall b0 z,
  fold_left (fun b q => Z.max b (f q)) qs b0 <= z <-> b0 <= z /\ forall q, In q qs -> f q <= z.
Proof.
  induction qs as [|a r IH]; simpl; intros b0 z.
  - split; [intro; split; [assumption | intros q []] | tauto].
  - rewrite IH, Z.max_lub_iff. split.
    + intros ((Hb & Ha) & Hr). split; [exact Hb|]. intros q [<-|Hq]; auto.
    + intros (Hb & H). repeat split; auto.
Qed.

(* s is a subsequence of l (same relative order), generated from the right end *)
Inductive subseq {X} : list X -> list X -> Prop :=
| ss_nil : subseq [] []
| ss_skip s l x : subseq s l -> subseq s (l ++ [x])
| ss_take s l x : subseq s l -> subseq (s ++ [x]) (l ++ [x]).

Lemma subseq_nil {X} (l : list X) : subseq [] l.
Proof. induction l as [|x l IH] using rev_ind; [constructor | apply ss_skip; exact IH]. Qed.

Lemma subseq_length {X} (s l : list X) : subseq s l -> (length s <= length l)%nat.
Proof. induction 1; rewrite ?app_length; simpl; lia. Qed.

Lemma subseq_in {X} (s l : list X) : subseq s l -> forall x, In x s -> In x l.
Proof.
  induction 1; intros y Hy; [contradiction | apply in_or_app; left; auto |].
  apply in_app_or in Hy. apply in_or_app. destruct Hy as [Hy|Hy]; auto.
Qed.

Section Depth.
  Variable Ang : Type.
  Notation pgate := (pgate Ang).

  (* g and h act on a common qubit *)
  Definition shares (g h : pgate) : bool := existsb (fun q => zmem q (gate_qubits h)) (gate_qubits g).

  Lemma shares_iff g h : shares g h = true <-> exists q, In q (gate_qubits g) /\ In q (gate_qubits h).
  Proof.
    unfold shares. rewrite existsb_exists. split; intros (q & Hq & H); exists q; split; auto; apply zmem_true_In; exact H.
  Qed.

  Lemma shares_sym g h : shares g h = true -> shares h g = true.
  Proof. rewrite !shares_iff. intros (q & H1 & H2). exists q. auto. Qed.

  (* ---- the specification ---- *)
  Definition level_of (earlier : list (pgate * Z)) (g : pgate) : Z :=
    1 + zmax0 (map snd (filter (fun hl => shares g (fst hl)) earlier)).
  (* the gates in circuit order, each with its level *)
  Definition leveled_from (acc : list (pgate * Z)) (gs : list pgate) : list (pgate * Z) :=
    fold_left (fun acc g => acc ++ [(g, level_of acc g)]) gs acc.
  Definition leveled (gs : list pgate) : list (pgate * Z) := leveled_from [] gs.
  Definition depth_spec (gs : list pgate) : Z := zmax0 (map snd (leveled gs)).

  Lemma leveled_snoc gs g : leveled (gs ++ [g]) = leveled gs ++ [(g, level_of (leveled gs) g)].
  Proof. unfold leveled, leveled_from. rewrite fold_left_app. reflexivity. Qed.

  Lemma leveled_fst gs : map fst (leveled gs) = gs.
  Proof.
    induction gs as [|g gs IH] using rev_ind; [reflexivity|].
    rewrite leveled_snoc, map_app, IH. reflexivity.
  Qed.

  Lemma level_of_pos acc g : 1 <= level_of acc g.
  Proof. unfold level_of. pose proof (zmax0_nonneg (map snd (filter (fun hl => shares g (fst hl)) acc))). lia. Qed.

  (* ---- the fold of Circuit.depth ---- *)
  Definition dstep : list (Z * Z) * Z -> pgate -> list (Z * Z) * Z :=
    fun '(latest, d) g =>
    let qs := gate_qubits g in
    let b := fold_left (fun b q => Z.max b (zget latest q)) qs (-1)%Z in
    (fold_left (fun m q => (q, (b + 1)%Z) :: m) qs latest, Z.max d (b + 2)%Z).

  Lemma depth_unfold c : depth Ang c = snd (fold_left dstep (cgates Ang c) ([], 0)).
  Proof.
    reflexivity.
  Qed.

  Definition touchmax (acc : list (pgate * Z)) (q : Z) : Z :=
    zmax0 (map snd (filter (fun hl => zmem q (gate_qubits (fst hl))) acc)).

  Definition DInv (latest : list (Z * Z)) (d : Z) (acc : list (pgate * Z)) : Prop :=
    (forall q, zget latest q = touchmax acc q - 1) /\ d = zmax0 (map snd acc).

  Lemma zget_push qs v : forall m q,
    zget (fold_left (fun m q => (q, v) :: m) qs m) q = if zmem q qs then v else zget m q.
  Proof.
    induction qs as [|a r IH]; simpl; intros m q; [reflexivity|].
    rewrite IH.
    assert (E : zget ((a, v) :: m) q = if Z.eqb q a then v else zget m q)
      by (unfold zget; simpl; destruct (Z.eqb q a); reflexivity).
    rewrite E. destruct (Z.eqb q a); simpl; [|reflexivity].
    destruct (zmem q r); reflexivity.
  Qed.

  Lemma in_filter_snd {X} (f : X * Z -> bool) acc x : In x (map snd (filter f acc)) <-> exists h, In (h, x) acc /\ f (h, x) = true.
  Proof.
    rewrite in_map_iff. split.
    - intros ([h x'] & E & Hin). simpl in E. subst x'. apply filter_In in Hin. exists h. exact Hin.
    - intros (h & Hin & Hf). exists (h, x). split; [reflexivity|]. apply filter_In. auto.
  Qed.

  (* the moment found by the source (b + 1, counted from 0) is the largest level of an earlier gate
     sharing a qubit *)
  Lemma moment_is_level latest d acc g :
    DInv latest d acc ->
    fold_left (fun b q => Z.max b (zget latest q)) (gate_qubits g) (-1) + 1
    = zmax0 (map snd (filter (fun hl => shares g (fst hl)) acc)).
  Proof.
    intros [Hl _].
    set (b := fold_left _ _ _). set (M := zmax0 _).
    assert (Hle : forall z, b + 1 <= z <-> M <= z).
    { intro z. unfold b, M.
      transitivity (fold_left (fun b q => Z.max b (zget latest q)) (gate_qubits g) (-1) <= z - 1); [lia|].
      rewrite fold_max_le_iff, zmax0_le_iff. split.
      - intros [H0 H]. split; [lia|]. intros x Hx. apply in_filter_snd in Hx. destruct Hx as (h & Hin & Hs).
        simpl in Hs. apply shares_iff in Hs. destruct Hs as (q & Hq & Hqh).
        specialize (H q Hq). rewrite Hl in H.
        assert (x <= touchmax acc q); [|lia]. apply zmax0_ge. apply in_filter_snd. exists h. split; [exact Hin|].
        simpl. apply zmem_true_In. exact Hqh.
      - intros [H0 H]. split; [lia|]. intros q Hq. rewrite Hl.
        assert (touchmax acc q <= z); [|lia]. apply zmax0_le_iff. split; [exact H0|].
        intros x Hx. apply in_filter_snd in Hx. destruct Hx as (h & Hin & Hs). simpl in Hs.
        apply H. apply in_filter_snd. exists h. split; [exact Hin|]. simpl. apply shares_iff.
        exists q. split; [exact Hq | apply zmem_true_In; exact Hs]. }
    apply Z.le_antisymm; [apply Hle | apply Hle]; lia.
  Qed.

  Lemma touchmax_snoc acc g l q :
    touchmax (acc ++ [(g, l)]) q
    = if zmem q (gate_qubits g) then Z.max (touchmax acc q) (Z.max l 0) else touchmax acc q.
  Proof.
    unfold touchmax. rewrite filter_app, map_app, zmax0_app. simpl.
    destruct (zmem q (gate_qubits g)); simpl; [reflexivity|].
    pose proof (zmax0_nonneg (map snd (filter (fun hl => zmem q (gate_qubits (fst hl))) acc))). lia.
  Qed.

  Lemma dstep_inv latest d acc g latest' d' :
    DInv latest d acc -> dstep (latest, d) g = (latest', d') ->
    DInv latest' d' (acc ++ [(g, level_of acc g)]).
  Proof.
    intros HI Hs. pose proof (moment_is_level latest d acc g HI) as HM.
    destruct HI as [Hl Hd]. unfold dstep in Hs. cbv beta iota zeta in Hs.
    set (b := fold_left (fun b q => Z.max b (zget latest q)) (gate_qubits g) (-1)) in *.
    inversion Hs; subst latest' d'; clear Hs.
    assert (Hlev : level_of acc g = b + 2) by (unfold level_of; lia).
    assert (Hb0 : 0 <= b + 1) by (rewrite HM; apply zmax0_nonneg).
    split.
    - intro q. rewrite zget_push, touchmax_snoc.
      destruct (zmem q (gate_qubits g)) eqn:Eq.
      + rewrite Hlev.
        assert (touchmax acc q <= b + 1); [|lia].
        rewrite HM. apply zmax0_le_iff. split; [apply zmax0_nonneg|].
        intros x Hx. apply in_filter_snd in Hx. destruct Hx as (h & Hin & Hs). simpl in Hs.
        apply zmax0_ge. apply in_filter_snd. exists h. split; [exact Hin|]. simpl. apply shares_iff.
        exists q. split; apply zmem_true_In; assumption.
      + apply Hl.
    - rewrite map_app, zmax0_app. simpl. rewrite Hlev, Hd. pose proof (zmax0_nonneg (map snd acc)). lia.
  Qed.

  Lemma depth_fold gs : forall latest d acc,
    DInv latest d acc -> snd (fold_left dstep gs (latest, d)) = zmax0 (map snd (leveled_from acc gs)).
  Proof.
    induction gs as [|g r IH]; intros latest d acc HI.
    - destruct HI as [_ Hd]. exact Hd.
    - change (fold_left dstep (g :: r) (latest, d)) with (fold_left dstep r (dstep (latest, d) g)).
      change (leveled_from acc (g :: r)) with (leveled_from (acc ++ [(g, level_of acc g)]) r).
      destruct (dstep (latest, d) g) as [latest' d'] eqn:Hs.
      apply IH. exact (dstep_inv _ _ _ _ _ _ HI Hs).
  Qed.

  (* Circuit.depth is the largest level *)
  Theorem depth_is_max_level (c : circ Ang) : depth Ang c = depth_spec (cgates Ang c).
  Proof.
    rewrite depth_unfold. unfold depth_spec, leveled. apply depth_fold.
    split; [intro q; reflexivity | reflexivity].
  Qed.

  (* ---- longest chains ---- *)
  (* every gate of the list, from the second on, shares a qubit with the one before it *)
  Inductive linked : list pgate -> Prop :=
  | lk_nil : linked []
  | lk_one g : linked [g]
  | lk_snoc s g h : linked (s ++ [g]) -> shares h g = true -> linked ((s ++ [g]) ++ [h]).

  Lemma linked_inv s x :
    linked (s ++ [x]) -> linked s /\ (forall s' y, s = s' ++ [y] -> shares x y = true).
  Proof.
    intro H. inversion H as [E | g E | s0 g h Hl Hs E].
    - exfalso. symmetry in E. apply app_eq_nil in E. destruct E; discriminate.
    - destruct s as [|a s]; simpl in E.
      + split; [constructor|]. intros s' y E'. exfalso. symmetry in E'. apply app_eq_nil in E'. destruct E'; discriminate.
      + exfalso. inversion E as [[Ea Es]]. symmetry in Es. apply app_eq_nil in Es. destruct Es; discriminate.
    - apply app_inj_tail in E. destruct E as [Es Eh]. subst s h. split; [exact Hl|].
      intros s' y E'. apply app_inj_tail in E'. destruct E' as [_ <-]. exact Hs.
  Qed.

  Lemma in_leveled_snoc l g x lx : In (x, lx) (leveled l) -> In (x, lx) (leveled (l ++ [g])).
  Proof. intro H. rewrite leveled_snoc. apply in_or_app. left. exact H. Qed.

  (* no chain is longer than the level of its last gate *)
  Lemma chain_le_level s gs :
    subseq s gs -> linked s ->
    s = [] \/ exists s' x lx, s = s' ++ [x] /\ In (x, lx) (leveled gs) /\ Z.of_nat (length s) <= lx.
  Proof.
    induction 1 as [|s l x Hsub IH|s l x Hsub IH]; intro Hl.
    - left. reflexivity.
    - destruct (IH Hl) as [->|(s' & y & ly & -> & Hin & Hle)]; [left; reflexivity|].
      right. exists s', y, ly. repeat split; auto. apply in_leveled_snoc. exact Hin.
    - right. destruct (linked_inv s x Hl) as [Hls Hsh].
      exists s, x, (level_of (leveled l) x). split; [reflexivity|]. split.
      + rewrite leveled_snoc. apply in_or_app. right. left. reflexivity.
      + rewrite app_length. cbn [length].
        destruct (IH Hls) as [->|(s' & y & ly & -> & Hin & Hle)].
        * cbn [length]. pose proof (level_of_pos (leveled l) x). lia.
        * specialize (Hsh s' y eq_refl). unfold level_of.
          assert (ly <= zmax0 (map snd (filter (fun hl => shares x (fst hl)) (leveled l)))).
          { apply zmax0_ge. apply in_filter_snd. exists y. auto. }
          rewrite app_length in *. cbn [length] in *. lia.
  Qed.

  (* every gate ends a chain whose length is its level *)
  Lemma level_chain gs : forall x lx,
    In (x, lx) (leveled gs) ->
    exists s', subseq (s' ++ [x]) gs /\ linked (s' ++ [x]) /\ Z.of_nat (length (s' ++ [x])) = lx.
  Proof.
    induction gs as [|g l IH] using rev_ind; intros x lx Hin; [contradiction|].
    rewrite leveled_snoc in Hin. apply in_app_or in Hin. destruct Hin as [Hin|[E|[]]].
    - destruct (IH x lx Hin) as (s' & Hs & Hl & Hlen). exists s'. repeat split; auto. apply ss_skip. exact Hs.
    - inversion E; subst x lx; clear E. unfold level_of.
      set (M := zmax0 (map snd (filter (fun hl => shares g (fst hl)) (leveled l)))).
      destruct (Z_lt_le_dec 0 M) as [Hpos|Hzero].
      + pose proof (zmax0_attained _ Hpos) as Hatt. fold M in Hatt.
        apply in_filter_snd in Hatt. destruct Hatt as (h & Hh & Hsh). simpl in Hsh.
        destruct (IH h M Hh) as (s'' & Hs & Hl & Hlen).
        exists (s'' ++ [h]). split; [apply ss_take; exact Hs|]. split; [apply lk_snoc; assumption|].
        rewrite app_length in Hlen. rewrite !app_length. cbn [length] in *. lia.
      + pose proof (zmax0_nonneg (map snd (filter (fun hl => shares g (fst hl)) (leveled l)))) as H0. fold M in H0.
        exists []. split; [apply (ss_take [] l g); apply subseq_nil|]. split; [constructor|]. cbn [app length]. lia.
  Qed.

  (* the depth is the length of a longest chain: no chain of the gate list is longer, and one attains it *)
  Theorem depth_spec_longest_chain gs :
    (forall s, subseq s gs -> linked s -> Z.of_nat (length s) <= depth_spec gs)
    /\ (exists s, subseq s gs /\ linked s /\ Z.of_nat (length s) = depth_spec gs).
  Proof.
    unfold depth_spec. split.
    - intros s Hs Hl. destruct (chain_le_level s gs Hs Hl) as [->|(s' & x & lx & -> & Hin & Hle)].
      + simpl. apply zmax0_nonneg.
      + assert (lx <= zmax0 (map snd (leveled gs))); [|lia].
        apply zmax0_ge. apply in_map_iff. exists (x, lx). auto.
    - destruct (Z_lt_le_dec 0 (zmax0 (map snd (leveled gs)))) as [Hpos|Hzero].
      + pose proof (zmax0_attained _ Hpos) as Hatt. apply in_map_iff in Hatt.
        destruct Hatt as ([x lx] & E & Hin). simpl in E. subst lx.
        destruct (level_chain gs x _ Hin) as (s' & Hs & Hl & Hlen). exists (s' ++ [x]). auto.
      + exists []. split; [apply subseq_nil|]. split; [constructor|].
        pose proof (zmax0_nonneg (map snd (leveled gs))). simpl. lia.
  Qed.

  Theorem depth_is_longest_chain (c : circ Ang) :
    (forall s, subseq s (cgates Ang c) -> linked s -> Z.of_nat (length s) <= depth Ang c)
    /\ (exists s, subseq s (cgates Ang c) /\ linked s /\ Z.of_nat (length s) = depth Ang c).
  Proof. rewrite depth_is_max_level. apply depth_spec_longest_chain. Qed.
End Depth.
