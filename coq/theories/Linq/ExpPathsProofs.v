(* ExpPathsProofs.v — theorems about the evaluation paths of Backend.get_expectation_value (model:
   Linq/ExpPaths.v).  Generic over the number structure (all real angles / amplitudes in the instance
   CRealS), unbounded: every register size, every well-formed Pauli word / operator inside the register,
   every state.  State equalities use functional extensionality (StateLemmas.state_ext); the sums are
   the finite register sums of QSem.

     cosh_pi2 ... basis_X, basis_Y, basis_X_dag, basis_Y_dag      one-qubit facts, by ring:
                         Z RY(-pi/2) = RY(-pi/2) X,  RY(-pi/2)^dagger Z RY(-pi/2) = X,  same for RX(pi/2), Y
     den_basis_circ      den (basis_circ w) = bapply w
     basis_sesqui        <B a | Z_supp(w) B b> = <a | P_w b>           (B = basis change of w)
     basis_rotation_word parity_expect n (supp w) (B psi) = <psi|P_w|psi>
     basis_operator_identity   Z_supp(w) (B psi) = B (P_w psi)          (operator identity on states)
     bapply_unit         the basis change preserves the squared norm
     pauli_circuit_den   den (pauli_circuit w) = word_den w ;  sv_term_correct
     freq_term_correct, routes_agree, freq_route_h_eq, var_route_correct
     basis_gates_interp  the table-driven model of measurement_basis_gates denotes basis_circ, under the
                         three facts about the regenerated table that props/C02.v discharges
     dispatch facts      dispatch_total, dispatch_sv_iff, eval_expect_correct, eval_var_correct
     std_err_sq_spec                                                                                     *)
From Coq Require Import String ZArith NArith QArith Qcanon List Bool Lia.
From Tangelo Require Import Num.KStruct QSem.State QSem.BitLemmas QSem.StateLemmas QSem.GateLemmas
     QSem.Measure QSem.MeasureProofs QSem.Unitary Pauli.Word Pauli.Action Pauli.WordProofs Pauli.ActionProofs
     QSem.Expect QSem.ExpectProofs Linq.GateModel Linq.Interp Linq.ExpPaths.
Import ListNotations.

Section ExpPathsProofs.
  Variable S : KS.
  Add Ring kring : (k_ring S).
  Open Scope K_scope.
  Notation K := (K S).
  Notation state := (state S).
  Notation inner := (inner S).
  Notation norm2 := (norm2 S).

  (* ---------------------------------------------------------------- the two basis angles *)
  Lemma cis_mpi2 : cis (aopp api2) = krs2 * (1 - ki : K).
  Proof.
    rewrite <- cis_conj, cis_pi2, kconj_mul, kconj_rs2, kconj_add, kconj_1, kconj_i. ring.
  Qed.

  Lemma cosh_pi2 : cosh_ S api2 = krs2.
  Proof.
    unfold cosh_. rewrite cis_mpi2, cis_pi2.
    transitivity (khalf * (krs2 + krs2 : K)); [ring|apply half_double].
  Qed.

  Lemma misinh_pi2 : misinh S api2 = - (ki * krs2).
  Proof.
    unfold misinh. rewrite cis_mpi2, cis_pi2.
    transitivity (khalf * (- (ki * krs2) + - (ki * krs2) : K)); [ring|apply half_double].
  Qed.

  Lemma cosh_mpi2 : cosh_ S (aopp api2) = krs2.
  Proof. rewrite cosh_opp. apply cosh_pi2. Qed.

  Lemma sinh_mpi2 : sinh_ S (aopp api2) = - krs2.
  Proof.
    rewrite sinh_opp. unfold sinh_. rewrite misinh_pi2.
    transitivity (- (- (ki * ki) * krs2 : K)); [ring|]. rewrite k_ii. ring.
  Qed.

  Lemma rs2_sq2' : krs2 * krs2 + krs2 * krs2 = (1 : K).
  Proof. rewrite k_rs2. apply k_half. Qed.

  (* Z RY(-pi/2) = RY(-pi/2) X   and   Z RX(pi/2) = RX(pi/2) Y *)
  Theorem basis_X : mmul S (mZ S) (mRY S (aopp api2)) = mmul S (mRY S (aopp api2)) (mX S).
  Proof.
    unfold mmul, mRY, mZ, mX. cbn [m00 m01 m10 m11]. rewrite cosh_mpi2, sinh_mpi2. f_equal; ring.
  Qed.

  Theorem basis_Y : mmul S (mZ S) (mRX S api2) = mmul S (mRX S api2) (mY S).
  Proof.
    unfold mmul, mRX, mZ, mY. cbn [m00 m01 m10 m11]. rewrite cosh_pi2, misinh_pi2.
    f_equal; try ring.
    - transitivity (- (ki * ki) * krs2 : K); [rewrite k_ii|]; ring.
    - transitivity ((ki * ki) * krs2 : K); [rewrite k_ii|]; ring.
  Qed.

  Lemma mmul_assoc (u v w : mat2 S) : mmul S u (mmul S v w) = mmul S (mmul S u v) w.
  Proof. unfold mmul. cbn [m00 m01 m10 m11]. f_equal; ring. Qed.
  Lemma mmul_id_l (u : mat2 S) : mmul S (mid S) u = u.
  Proof. destruct u as [a b c d]. unfold mmul, mid. cbn [m00 m01 m10 m11]. f_equal; ring. Qed.

  (* RY(-pi/2)^dagger Z RY(-pi/2) = X   and   RX(pi/2)^dagger Z RX(pi/2) = Y *)
  Theorem basis_X_dag :
    mmul S (madj S (mRY S (aopp api2))) (mmul S (mZ S) (mRY S (aopp api2))) = mX S.
  Proof.
    rewrite basis_X, mmul_assoc.
    pose proof (mat_of_unitary S (GRY (aopp api2))) as U. unfold unitary2 in U. cbn [mat_of] in U.
    rewrite U. apply mmul_id_l.
  Qed.

  Theorem basis_Y_dag :
    mmul S (madj S (mRX S api2)) (mmul S (mZ S) (mRX S api2)) = mY S.
  Proof.
    rewrite basis_Y, mmul_assoc.
    pose proof (mat_of_unitary S (GRX api2)) as U. unfold unitary2 in U. cbn [mat_of] in U.
    rewrite U. apply mmul_id_l.
  Qed.

  (* ---------------------------------------------------------------- basis change as a fold of app1 *)
  Lemma bmat_unitary p u : bmat S p = Some u -> unitary2 S u.
  Proof.
    destruct p; simpl; intro E; inversion E; subst.
    - exact (mat_of_unitary S (GRY (aopp api2))).
    - exact (mat_of_unitary S (GRX api2)).
  Qed.

  Lemma bapply_cons qp w (psi : state) : bapply S (qp :: w) psi = bapply S w (bstep S qp psi).
  Proof. reflexivity. Qed.

  Lemma den_basis_circ w : forall psi, den S (basis_circ S w) psi = bapply S w psi.
  Proof.
    induction w as [|[q p] w IH]; intro psi; [reflexivity|].
    unfold basis_circ. cbn [flat_map]. fold (basis_circ S w). rewrite den_app, IH.
    destruct p; reflexivity.
  Qed.

  (* Z_q (U_p psi) = U_p (P_q psi) on the qubit of the factor *)
  Lemma bstep_key q p (b : state) :
    app1 S (mZ S) q (bstep S (q, p) b) = bstep S (q, p) (app1 S (pauli_mat S p) q b).
  Proof.
    unfold bstep. destruct p; cbn [snd fst bmat pauli_mat].
    - rewrite !app1_compose, basis_X. reflexivity.
    - rewrite !app1_compose, basis_Y. reflexivity.
    - reflexivity.
  Qed.

  Lemma bstep_inner_unit n q p (a b : state) :
    (q < N.of_nat n)%N -> inner n (bstep S (q, p) a) (bstep S (q, p) b) = inner n a b.
  Proof.
    intro Hq. unfold bstep. cbn [snd fst]. destruct (bmat S p) as [u|] eqn:E; [|reflexivity].
    apply app1_inner_unit; [exact (bmat_unitary p u E)|exact Hq].
  Qed.

  Lemma bapply_app1_comm (u : mat2 S) q w : ~ In q (qubits w) ->
    forall chi, app1 S u q (bapply S w chi) = bapply S w (app1 S u q chi).
  Proof.
    induction w as [|[q' p] w IH]; intros Hn chi; [reflexivity|].
    assert (Hq : q <> q') by (intro E; apply Hn; left; symmetry; exact E).
    assert (Hw : ~ In q (qubits w)) by (intro E; apply Hn; right; exact E).
    rewrite !bapply_cons. rewrite (IH Hw). f_equal.
    unfold bstep. cbn [snd fst]. destruct (bmat S p); [|reflexivity].
    apply StateLemmas.app1_comm. exact Hq.
  Qed.

  Lemma word_den_app1_comm_eq (u : mat2 S) q w (psi : state) : ~ In q (qubits w) ->
    word_den S w (app1 S u q psi) = app1 S u q (word_den S w psi).
  Proof. intro Hn. apply state_ext. intro x. apply word_den_app1_comm. exact Hn. Qed.

  Lemma word_den_bstep_comm q p w (chi : state) : ~ In q (qubits w) ->
    word_den S w (bstep S (q, p) chi) = bstep S (q, p) (word_den S w chi).
  Proof.
    intro Hn. unfold bstep. cbn [snd fst]. destruct (bmat S p); [|reflexivity].
    apply word_den_app1_comm_eq. exact Hn.
  Qed.

  (* ---------------------------------------------------------------- the lift to words *)
  Theorem basis_sesqui n w : word_wf w = true -> word_in n w ->
    forall (a b : state),
      inner n (bapply S w a) (word_den S (zword (supp w)) (bapply S w b)) = inner n a (word_den S w b).
  Proof.
    induction w as [|[q p] w IH]; intros Hwf Hin a b; [reflexivity|].
    pose proof (word_wf_head_notin _ _ _ Hwf) as Hn.
    pose proof (word_wf_tail _ _ _ Hwf) as Hwf'.
    unfold word_in in Hin. cbn [supp map fst] in Hin. inversion Hin as [|? ? Hq Hin']; subst.
    rewrite !bapply_cons.
    cbn [supp map fst zword]. fold (supp w). fold (zword (supp w)).
    rewrite (word_den_cons S q PZ). cbn [pauli_mat].
    rewrite (bapply_app1_comm (mZ S) q w Hn).
    rewrite (IH Hwf' Hin').
    rewrite bstep_key, (word_den_bstep_comm q p w _ Hn), (bstep_inner_unit n q p _ _ Hq).
    reflexivity.
  Qed.

  (* the operator identity on states:  Z_supp(w) (B psi) = B (P_w psi) *)
  Theorem basis_operator_identity w : word_wf w = true ->
    forall psi : state, word_den S (zword (supp w)) (bapply S w psi) = bapply S w (word_den S w psi).
  Proof.
    induction w as [|[q p] w IH]; intros Hwf psi; [reflexivity|].
    pose proof (word_wf_head_notin _ _ _ Hwf) as Hn.
    pose proof (word_wf_tail _ _ _ Hwf) as Hwf'.
    rewrite !bapply_cons.
    cbn [supp map fst zword]. fold (supp w). fold (zword (supp w)).
    rewrite (word_den_cons S q PZ), (word_den_cons S q p). cbn [pauli_mat].
    rewrite (bapply_app1_comm (mZ S) q w Hn), (IH Hwf'), bstep_key.
    rewrite (word_den_bstep_comm q p w _ Hn). reflexivity.
  Qed.

  Theorem basis_rotation_word n w (psi : state) : word_wf w = true -> word_in n w ->
    parity_expect S n (supp w) (den S (basis_circ S w) psi) = expect_word S n w psi.
  Proof.
    intros Hwf Hin. rewrite den_basis_circ, parity_is_Z_expectation. unfold expect_word.
    apply basis_sesqui; assumption.
  Qed.

  Lemma bapply_unit n w : word_in n w -> forall psi : state, norm2 n (bapply S w psi) = norm2 n psi.
  Proof.
    induction w as [|[q p] w IH]; intros Hin psi; [reflexivity|].
    unfold word_in in Hin. cbn [supp map fst] in Hin. inversion Hin as [|? ? Hq Hin']; subst.
    rewrite !bapply_cons. rewrite (IH Hin').
    unfold Measure.norm2. apply bstep_inner_unit. exact Hq.
  Qed.

  (* ---------------------------------------------------------------- statevector route *)
  Lemma pauli_circuit_den w : forall psi : state, den S (pauli_circuit S w) psi = word_den S w psi.
  Proof.
    induction w as [|[q p] w IH]; intro psi; [reflexivity|].
    unfold pauli_circuit. cbn [map]. fold (pauli_circuit S w). rewrite den_cons, IH.
    rewrite word_den_cons. destruct p; reflexivity.
  Qed.

  Theorem sv_term_correct n w (psi : state) : word_wf w = true -> word_in n w ->
    sv_term S n w psi = expect_word S n w psi.
  Proof.
    intros Hwf Hin. unfold sv_term. rewrite pauli_circuit_den. fold (expect_word S n w psi).
    apply re_of_real. apply expect_word_real; assumption.
  Qed.

  (* ---------------------------------------------------------------- frequency route, exact mode *)
  Variable freqs : state -> N -> K.
  Hypothesis exact : forall phi x, freqs phi x = born S phi x.

  Lemma parity_mean_ext n qs (f g : N -> K) : (forall x, f x = g x) -> parity_mean S n qs f = parity_mean S n qs g.
  Proof. intro E. unfold parity_mean. apply ksum_ext. intros i _. rewrite E. reflexivity. Qed.

  Lemma total_ext n (f g : N -> K) : (forall x, f x = g x) -> total S n f = total S n g.
  Proof. intro E. unfold total. apply ksum_ext. intros i _. apply E. Qed.

  Theorem freq_term_correct n w (psi : state) : word_wf w = true -> word_in n w ->
    freq_term S freqs n w psi = expect_word S n w psi.
  Proof.
    intros Hwf Hin. unfold freq_term. rewrite (parity_mean_ext n (supp w) _ _ (exact _)).
    apply basis_rotation_word; assumption.
  Qed.

  Lemma route_sum_lin (f : word -> K) n (H : op S) (psi : state) :
    norm2 n psi = 1 ->
    (forall t, In t H -> f (fst t) = expect_word S n (fst t) psi) ->
    route_sum S f H = expect_lin S n H psi.
  Proof.
    intros Hnorm Hf. induction H as [|[w c] H IH]; [reflexivity|].
    unfold route_sum, expect_lin. cbn [fold_right fst snd]. fold (route_sum S f H). fold (expect_lin S n H psi).
    rewrite IH by (intros; apply Hf; right; assumption).
    specialize (Hf (w, c) (or_introl eq_refl)). cbn [fst] in Hf.
    destruct w as [|qp w]; cbn [is_nil].
    - rewrite expect_word_nil, Hnorm. reflexivity.
    - rewrite Hf. reflexivity.
  Qed.

  (* both routes return sum_k c_k <psi|P_k|psi> = <psi|H|psi>; the identity term contributes its coefficient *)
  Theorem routes_agree n (H : op S) (psi : state) :
    norm2 n psi = 1 -> op_wf S H -> op_in S n H ->
    freq_route S freqs n H psi = expect_op S n H psi /\ sv_route S n H psi = expect_op S n H psi.
  Proof.
    intros Hnorm Hwf Hin. rewrite expect_op_lin.
    unfold op_wf in Hwf. unfold op_in in Hin. rewrite Forall_forall in Hwf, Hin.
    split; apply route_sum_lin; try exact Hnorm; intros t Ht.
    - apply freq_term_correct; [apply Hwf|apply Hin]; exact Ht.
    - apply sv_term_correct; [apply Hwf|apply Hin]; exact Ht.
  Qed.

  Theorem freq_route_h_correct n (H : op S) (psi : state) :
    op_wf S H -> op_in S n H -> freq_route_h S freqs n H psi = expect_op S n H psi.
  Proof.
    intros Hwf Hin. rewrite expect_op_lin. induction H as [|t H IH]; [reflexivity|].
    inversion Hwf as [|? ? Hw Hwf']; subst. inversion Hin as [|? ? Hi Hin']; subst.
    cbn [freq_route_h expect_lin fold_right]. fold (freq_route_h S freqs n H psi). fold (expect_lin S n H psi).
    rewrite (IH Hwf' Hin'), freq_term_correct by assumption. reflexivity.
  Qed.

  Corollary freq_route_h_eq n (H : op S) (psi : state) :
    norm2 n psi = 1 -> op_wf S H -> op_in S n H -> freq_route_h S freqs n H psi = freq_route S freqs n H psi.
  Proof.
    intros Hn Hwf Hin. rewrite freq_route_h_correct by assumption.
    symmetry. apply (routes_agree n H psi Hn Hwf Hin).
  Qed.

  (* ---------------------------------------------------------------- variance *)
  Theorem var_term_correct n w (psi : state) : norm2 n psi = 1 -> word_wf w = true -> word_in n w ->
    var_term S freqs n w psi = 1 - expect_word S n w psi * expect_word S n w psi.
  Proof.
    intros Hnorm Hwf Hin. unfold var_term.
    rewrite variance_pm1.
    - fold (freq_term S freqs n w psi). rewrite freq_term_correct by assumption. reflexivity.
    - rewrite (total_ext n _ _ (exact _)), total_born, den_basis_circ, bapply_unit by exact Hin. exact Hnorm.
  Qed.

  Theorem var_route_correct n (H : op S) (psi : state) :
    norm2 n psi = 1 -> op_wf S H -> op_in S n H -> var_route S freqs n H psi = var_formula S n H psi.
  Proof.
    intros Hnorm Hwf Hin. induction H as [|t H IH]; [reflexivity|].
    inversion Hwf as [|? ? Hw Hwf']; subst. inversion Hin as [|? ? Hi Hin']; subst.
    cbn [var_route var_formula fold_right]. fold (var_route S freqs n H psi). fold (var_formula S n H psi).
    rewrite (IH Hwf' Hin'), var_term_correct by assumption. reflexivity.
  Qed.

  (* ---------------------------------------------------------------- mixed states (ensembles) *)
  Lemma parity_mean_add n qs (f g : N -> K) :
    parity_mean S n qs (fun x => f x + g x) = parity_mean S n qs f + parity_mean S n qs g.
  Proof. unfold parity_mean. rewrite <- ksum_add. apply ksum_ext. intros i _. ring. Qed.

  Theorem freq_term_ens_correct n w (e : ensemble S) : word_wf w = true -> word_in n w ->
    freq_term_ens S n w e = expect_word_ens S n w e.
  Proof.
    intros Hwf Hin. unfold freq_term_ens, expect_word_ens. induction e as [|psi e IH].
    - cbn [ens_apply map]. unfold parity_mean.
      transitivity (ksum S (fun _ => 0) (Nat.pow 2 n)); [|rewrite ksum_zero; reflexivity].
      apply ksum_ext. intros i _. unfold ens_diag. cbn [lsum fold_right]. ring.
    - cbn [ens_apply map lsum fold_right]. fold (lsum S (expect_word S n w) e).
      rewrite (parity_mean_ext n (supp w) _
                 (fun x => born S (den S (basis_circ S w) psi) x
                           + ens_diag S (map (den S (basis_circ S w)) e) x)) by (intro x; reflexivity).
      rewrite parity_mean_add. unfold ens_apply in IH. rewrite IH.
      fold (parity_expect S n (supp w) (den S (basis_circ S w) psi)).
      rewrite basis_rotation_word by assumption. reflexivity.
  Qed.

  (* ---------------------------------------------------------------- evaluation through the dispatch *)
  Variable freq_cond sv_cond sv_exact_cond : cfg -> bool.

  Lemma eval_real_correct c n (H : op S) (psi : state) v :
    norm2 n psi = 1 -> op_wf S H -> op_in S n H ->
    eval_real S freqs freq_cond sv_cond sv_exact_cond c n H psi = Some v -> v = expect_op S n H psi.
  Proof.
    intros Hnorm Hwf Hin. unfold eval_real.
    destruct (routes_agree n H psi Hnorm Hwf Hin) as [E1 E2].
    destruct (dispatch_expect _ _ _ _); intro E; inversion E; subst; auto.
  Qed.

  Lemma op_wf_map (g : K -> K) (H : op S) : op_wf S H -> op_wf S (map (fun t => (fst t, g (snd t))) H).
  Proof. unfold op_wf. rewrite !Forall_forall. intros Hw t Ht. apply in_map_iff in Ht. destruct Ht as [t' [<- Ht']]. cbn [fst]. exact (Hw t' Ht'). Qed.
  Lemma op_in_map (g : K -> K) n (H : op S) : op_in S n H -> op_in S n (map (fun t => (fst t, g (snd t))) H).
  Proof. unfold op_in. rewrite !Forall_forall. intros Hw t Ht. apply in_map_iff in Ht. destruct Ht as [t' [<- Ht']]. cbn [fst]. exact (Hw t' Ht'). Qed.

  (* whatever branch the dispatch takes, the value is <psi|H|psi> (exact distribution, normalised
     state, operator inside the register) *)
  Theorem eval_expect_correct c n (H : op S) (psi : state) v :
    norm2 n psi = 1 -> op_wf S H -> op_in S n H ->
    eval_expect S freqs freq_cond sv_cond sv_exact_cond c n H psi = Some v -> v = expect_op S n H psi.
  Proof.
    intros Hnorm Hwf Hin. unfold eval_expect.
    destruct (dispatch_expect freq_cond sv_cond sv_exact_cond c) eqn:D;
      try (apply eval_real_correct; assumption); try discriminate.
    destruct (eval_real S freqs freq_cond sv_cond sv_exact_cond c n (op_re S H) psi) as [a|] eqn:Ea; [|discriminate].
    destruct (eval_real S freqs freq_cond sv_cond sv_exact_cond c n (op_im S H) psi) as [b|] eqn:Eb; [|discriminate].
    intro E. inversion E; subst.
    rewrite (eval_real_correct c n (op_re S H) psi a Hnorm (op_wf_map _ H Hwf) (op_in_map _ n H Hin) Ea).
    rewrite (eval_real_correct c n (op_im S H) psi b Hnorm (op_wf_map _ H Hwf) (op_in_map _ n H Hin) Eb).
    rewrite !expect_op_lin. symmetry. apply expect_split.
  Qed.

  Theorem eval_var_correct c n (H : op S) (psi : state) v :
    norm2 n psi = 1 -> op_wf S H -> op_in S n H ->
    eval_var S freqs c n H psi = Some v ->
    v = (if c_complex c then var_formula S n (op_re S H) psi + var_formula S n (op_im S H) psi
         else var_formula S n H psi).
  Proof.
    intros Hnorm Hwf Hin. unfold eval_var, dispatch_var.
    destruct (c_isv c && negb (c_sv c)); [discriminate|].
    destruct (negb (c_width_ok c)); [discriminate|].
    destruct (c_complex c); intro E; inversion E; subst.
    - rewrite (var_route_correct n (op_re S H) psi Hnorm (op_wf_map _ H Hwf) (op_in_map _ n H Hin)).
      rewrite (var_route_correct n (op_im S H) psi Hnorm (op_wf_map _ H Hwf) (op_in_map _ n H Hin)).
      reflexivity.
    - apply var_route_correct; assumption.
  Qed.
End ExpPathsProofs.

(* ---------------------------------------------------------------- the table-driven model denotes basis_circ *)
Section Tables.
  Variable S : KS.
  Variable Ang : Type.
  Variable ang : Ang -> A S.
  Variable of_units : Z -> Ang.
  Variable T : btable.
  Variable ux uy : Z.
  Hypothesis HX : blookup T "X" = Some (Some ("RY", ux)).
  Hypothesis HY : blookup T "Y" = Some (Some ("RX", uy)).
  Hypothesis HZ : blookup T "Z" = Some None.
  Hypothesis Hux : ang (of_units ux) = aopp api2.
  Hypothesis Huy : ang (of_units uy) = api2.

  Theorem basis_gates_interp w :
    exists gs, measurement_basis_gates Ang of_units T (term_of_word w) = POk gs
               /\ interp_all S Ang ang gs = Some (basis_circ S w).
  Proof.
    induction w as [|[q p] w [gs [E1 E2]]]; [exists []; split; reflexivity|].
    unfold term_of_word. cbn [map fst snd]. fold (term_of_word w).
    destruct p; cbn [pauli_letter measurement_basis_gates]; rewrite ?HX, ?HY, ?HZ, E1.
    - eexists; split; [reflexivity|]. cbn [interp_all]. rewrite E2.
      unfold interp. cbn. unfold zn. rewrite N2Z.id, Hux. reflexivity.
    - eexists; split; [reflexivity|]. cbn [interp_all]. rewrite E2.
      unfold interp. cbn. unfold zn. rewrite N2Z.id, Huy. reflexivity.
    - exists gs; split; [reflexivity|]. exact E2.
  Qed.

  Theorem pauli_gates_interp w :
    interp_all S Ang ang (pauli_gates Ang (term_of_word w)) = Some (pauli_circuit S w).
  Proof.
    induction w as [|[q p] w IH]; [reflexivity|].
    unfold term_of_word, pauli_gates. cbn [map fst snd]. fold (term_of_word w). fold (pauli_gates Ang (term_of_word w)).
    cbn [interp_all]. rewrite IH.
    destruct p; unfold interp; cbn; unfold zn; rewrite N2Z.id; reflexivity.
  Qed.
End Tables.

(* ---------------------------------------------------------------- standard error *)
Lemma std_err_sq_spec (v : Qc) (p : positive) :
  (std_err_sq v (Some (Npos p)) * Q2Qc (inject_Z (Zpos p)) = v)%Qc.
Proof.
  unfold std_err_sq. unfold Qcdiv. rewrite <- Qcmult_assoc, (Qcmult_comm (/ _)), Qcmult_inv_r, Qcmult_1_r; [reflexivity|].
  intro E. apply Q2Qc_eq_iff in E. unfold Qeq in E. simpl in E. discriminate.
Qed.

Lemma std_err_sq_none (v : Qc) : std_err_sq v None = 0%Qc /\ std_err_sq v (Some 0%N) = 0%Qc.
Proof. split; reflexivity. Qed.
