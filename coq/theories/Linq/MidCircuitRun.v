(* MidCircuitRun.v — the executable instance of Linq/MidCircuit.v used by the correspondence harness:
   gates are the Python-level gate model on the pi/8 angle grid (LinqZ.zgate), amplitudes are exact
   cyclotomic numbers (Cyc), statevectors are tabulated (State.tab / run_gate), the collapse is the
   exact division-free one (MidCircuit.collapse_exact on tabulated vectors).  Also the dispatch of
   Backend.simulate / CirqSimulator.simulate_circuit for desired_meas_result with n_shots = None, and
   the printers. Definitions only. *)
From Coq Require Import String ZArith NArith List Bool.
From Tangelo Require Import Num.KStruct Num.Cyc Num.Show QSem.State QSem.Measure
     Linq.GateModel Linq.CircuitModel Linq.History Linq.Interp Linq.LinqZ Linq.MidCircuit.
Import ListNotations.
Open Scope string_scope.

Definition zinstr := instr zgate.
Definition cvec := list Cy.

(* ---- classical control given as data ---- *)
(* CTree: a stateful control (ClassicalControl instance or closure): the reply to the k-th call depends
   on all outcomes it has been called with; after a leaf it replies with no gates.
   CPure: a stateless function of the latest outcome. *)
Inductive ctree : Type := CLeaf | CNode (g0 : list zinstr) (t0 : ctree) (g1 : list zinstr) (t1 : ctree).
Inductive cspec : Type := CNoCtl | CPure (g0 g1 : list zinstr) | CTree (t : ctree).

Fixpoint walk (t : ctree) (path : list bool) : list zinstr :=
  match t, path with
  | CNode g0 t0 g1 t1, [b] => if b then g1 else g0
  | CNode g0 t0 g1 t1, b :: r => walk (if b then t1 else t0) r
  | _, _ => []
  end.
Definition ctl_of (c : cspec) : option (list bool -> list zinstr) :=
  match c with
  | CNoCtl => None
  | CPure g0 g1 => Some (fun h : list bool => match h with b :: _ => if b then g1 else g0 | [] => [] end)
  | CTree t => Some (fun h : list bool => walk t (rev h))
  end.

(* ---- exact tabulated backend ---- *)
Definition cy_is_zero (c : Cy) : bool := ceqb L4 c (c0 L4).
Definition zgate_run (n : nat) (g : zgate) (l : cvec) : cvec :=
  match interp CycS Z (fun k => k) g with
  | Some G => run_gate CycS n G l
  | None => l
  end.
Definition zapply (n : nat) (c : list zgate) (l : cvec) : cvec := fold_left (fun s g => zgate_run n g s) c l.
Definition zcollapse (n : nat) (l : cvec) (q : Z) (b : bool) : mres (cvec * Cy) :=
  let w := proj_tab CycS n (Z.to_N q) b l in
  let p := norm2_tab CycS w in
  if cy_is_zero p then MErr EValue else MOk (w, p).
Definition pmul_exact (old new : Cy) : Cy := new.
Definition ket0 (n : nat) : cvec := tab CycS n (ket CycS 0).
Definition cy_one : Cy := c1 L4.

(* ---- dispatch of simulate(..., desired_meas_result = d) with n_shots = None ---- *)
Definition count_meas (prog : list zinstr) : nat :=
  length (filter (fun i => match i with IMeas _ => true | _ => false end) prog).
Definition count_cmeas (prog : list zinstr) : nat :=
  length (filter (fun i => match i with ICMeasD _ _ _ => true | ICMeasF _ => true | _ => false end) prog).

(* result: applied_gates, key of success_probabilities, final (unnormalised) vector, probability *)
Definition simulate_desired (asis : bool) (n : nat) (fuel : nat) (c : cspec) (prog : list zinstr)
           (d : list bool) (sv0 : cvec) : mres (list (aitem zgate) * list bool * cvec * Cy) :=
  if (0 <? count_cmeas prog)%nat then
    sim_replay zgate (ctl_of c) Cy cvec (zapply n) (zcollapse n) pmul_exact asis fuel
               (src_of (Some d)) [] (init_queue zgate prog) sv0 cy_one
  else if negb (Nat.eqb (length d) (count_meas prog)) then MErr EValue
  else mbind (piecewise zgate Cy cvec (zapply n) (zcollapse n) pmul_exact prog d sv0 cy_one)
             (fun r => MOk ([], d, fst r, snd r)).

(* ---- printers ---- *)
Definition show_bit (b : bool) : string := if b then "1" else "0".
Definition show_bits (l : list bool) : string := String.concat "" (map show_bit l).
Definition show_aitem (it : aitem zgate) : string :=
  match it with
  | AG g => show_gate g
  | AMeas q b => "MEASURE(" ++ show_Z q ++ ";N;'" ++ show_bit b ++ ";F)"
  | ACMeas q b => "CMEASURE(" ++ show_Z q ++ ";N;'" ++ show_bit b ++ ";F)"
  end.
Definition show_items (l : list (aitem zgate)) : string := join " " (map show_aitem l).
Definition show_merr (e : merr) : string :=
  match e with EIndex => "IndexError" | EValue => "ValueError" | EType => "TypeError" | EKey => "KeyError"
          | EFuel => "OutOfFuel" end.
Definition show_cvec (l : cvec) : string := join " " (map show_Cy l).

Definition show_applied (r : mres (list (aitem zgate) * list bool)) : string :=
  match r with
  | MOk (items, ms) => show_items items ++ " | " ++ show_bits ms
  | MErr e => "Err:" ++ show_merr e
  end.
(* records (keys of all_frequencies) of the branch of outcome string d: outcomes used + every final basis state
   with a non-zero exact amplitude *)
Definition support (v : cvec) : list N :=
  map (fun ia => N.of_nat (fst ia)) (filter (fun ia => negb (cy_is_zero (snd ia))) (combine (seq 0 (length v)) v)).
Definition show_records (n : nat) (r : mres (list (aitem zgate) * list bool * cvec * Cy)) : string :=
  match r with
  | MOk (_, ms, v, _) => join "," (map (fun x => show_bits (record n ms x)) (support v))
  | MErr e => "Err:" ++ show_merr e
  end.

Definition show_sim_core (r : mres (list (aitem zgate) * list bool * cvec * Cy)) : string :=
  match r with
  | MOk (items, ms, v, p) => show_items items ++ " | " ++ show_bits ms ++ " | " ++ show_Cy p ++ " | " ++ show_cvec v
  | MErr e => "Err:" ++ show_merr e
  end.

(* full line of the harness: applied gates | outcomes | probability | vector | records *)
Definition show_sim (n : nat) (r : mres (list (aitem zgate) * list bool * cvec * Cy)) : string :=
  match r with
  | MOk _ => show_sim_core r ++ " | " ++ show_records n r
  | MErr _ => show_sim_core r
  end.

(* entry points of the harness *)
Definition run_gen (asis : bool) (fuel : nat) (c : cspec) (prog : list zinstr) (d : option (list bool)) : string :=
  show_applied (generate_applied_gates zgate (ctl_of c) asis fuel d prog).
Definition run_selected (fuel : nat) (c : cspec) (prog : list zinstr) (d : option (list bool)) : string :=
  show_applied (selected zgate (ctl_of c) fuel (src_of d) [] prog).
Definition run_sim (asis : bool) (n : nat) (fuel : nat) (c : cspec) (prefix : list zgate) (prog : list zinstr)
           (d : list bool) : string :=
  show_sim n (simulate_desired asis n fuel c prog d (zapply n prefix (ket0 n))).
Definition run_records (asis : bool) (n : nat) (fuel : nat) (c : cspec) (prefix : list zgate) (prog : list zinstr)
           (d : list bool) : string :=
  show_records n (simulate_desired asis n fuel c prog d (zapply n prefix (ket0 n))).
