(* MidCircuitProofs.v — theorems about the model of Tangelo's mid-circuit measurement machinery
   (Linq/MidCircuit.v):
     collapse_indexing            the reshape / zero-slice logic keeps exactly the indices whose qubit
                                  has the requested value, for both orders; on cirq's big-endian index
                                  it is QSem's projector
     replay_is_selected           the REPAIRED queue loop produces exactly the gates selected by the
                                  outcomes (for all programs, controls, outcome sources, fuel; errors
                                  included)
     replay_asis_refuted          ... the loop as written in the source does not (witness)
     replay_asis_is_selected_partial   it does when every controlled gate list that contains a
                                  measurement ends with one (hereditarily)
     sim_replay_items             the copy of the loop in target_cirq.py yields the same gates/outcomes
                                  as generate_applied_gates
     sim_replay_chain, piecewise_chain   the recorded probability and returned state are the squared
                                  norm / the normalisation of the unnormalised branch vector *)
From Coq Require Import String ZArith NArith List Bool Lia FunctionalExtensionality.
From Tangelo Require Import Num.KStruct QSem.State QSem.StateLemmas QSem.Measure QSem.MeasureProofs Linq.MidCircuit.
Import ListNotations.

(* ================= collapse_statevector_to_desired_measurement ================= *)
Lemma mid_index_bit o n q i : mid_index o n q i = N.b2n (qubit_of o n q i).
Proof. unfold mid_index, qubit_of, after_len. destruct o; symmetry; apply N.testbit_spec'. Qed.

Theorem collapse_indexing o n q r i :
  (r = 0 \/ r = 1)%N -> collapse_keep o n q r i = Bool.eqb (qubit_of o n q i) (N.eqb r 1).
Proof.
  intros [->| ->]; unfold collapse_keep; rewrite mid_index_bit; destruct (qubit_of o n q i); reflexivity.
Qed.

(* the reshape is legitimate: before * 2 * after = 2^n for every qubit of the register *)
Lemma collapse_reshape_valid o n q : (q < n)%N -> (before_len o n q * 2 * after_len o n q = 2 ^ n)%N.
Proof.
  intro H. unfold before_len, after_len.
  destruct o.
  - rewrite <- (N.pow_1_r 2) at 2. rewrite <- !N.pow_add_r. f_equal. lia.
  - rewrite <- (N.pow_1_r 2) at 2. rewrite <- !N.pow_add_r. f_equal. lia.
Qed.

Lemma collapse_check_ok n q r : collapse_check n q r = MOk tt <-> (q <= n - 1 /\ (r = 0 \/ r = 1))%N.
Proof.
  unfold collapse_check. destruct (N.ltb_spec (n - 1) q) as [H|H].
  - split; [discriminate|lia].
  - destruct (N.eqb_spec r 0), (N.eqb_spec r 1); simpl; split; try discriminate; try lia; intros; reflexivity.
Qed.

Section CollapseState.
  Variable S : KS.
  Open Scope K_scope.
  (* on a vector stored in cirq's order ("lsq_first": entry i holds the amplitude of the basis state whose
     QSem index is the bit reversal of i) the kept entries are those of QSem's projector ... *)
  Theorem collapse_lsq_is_proj (n : nat) q r (psi : state S) i :
    (q < N.of_nat n)%N -> (r = 0 \/ r = 1)%N ->
    (if collapse_keep LsqFirst (N.of_nat n) q r i then psi (brev n i) else 0)
    = proj S q (N.eqb r 1) psi (brev n i).
  Proof.
    intros Hq Hr. rewrite collapse_indexing by exact Hr. unfold proj, bit, qubit_of.
    rewrite brev_testbit by exact Hq. reflexivity.
  Qed.
  (* ... and in the little-endian order ("msq_first") the index is QSem's own *)
  Theorem collapse_msq_is_proj n q r (psi : state S) i :
    (r = 0 \/ r = 1)%N ->
    (if collapse_keep MsqFirst n q r i then psi i else 0) = proj S q (N.eqb r 1) psi i.
  Proof. intro Hr. rewrite collapse_indexing by exact Hr. reflexivity. Qed.
End CollapseState.

(* ================= shot records ================= *)
Theorem record_layout n ms x :
  length (record n ms x) = (length ms + n)%nat
  /\ firstn (length ms) (record n ms x) = ms
  /\ (forall q, (q < n)%nat -> nth (length ms + q) (record n ms x) false = N.testbit x (N.of_nat q)).
Proof.
  unfold record. split; [rewrite app_length, map_length, seq_length; reflexivity|]. split.
  - rewrite firstn_app, Nat.sub_diag, firstn_all. simpl. apply app_nil_r.
  - intros q Hq. rewrite app_nth2 by lia.
    replace (length ms + q - length ms)%nat with q by lia.
    set (f := fun q0 : nat => N.testbit x (N.of_nat q0)).
    rewrite (nth_indep _ false (f 0%nat)) by (rewrite map_length, seq_length; exact Hq).
    rewrite map_nth, seq_nth by exact Hq. reflexivity.
Qed.

(* reading the measurement columns in numeric key order gives the record, for ANY number of keys *)
Theorem assemble_is_record (meas : nat -> bool) n ms x :
  (forall i, (i < length ms)%nat -> meas i = nth i ms false) ->
  (forall q, (q < n)%nat -> meas (length ms + q)%nat = N.testbit x (N.of_nat q)) ->
  assemble meas (length ms) n = record n ms x.
Proof.
  intros Hm Hq. unfold assemble, record. rewrite seq_app, map_app. f_equal.
  - clear Hq. revert meas Hm. induction ms as [|b r IH]; intros meas Hm; [reflexivity|].
    simpl length. rewrite <- cons_seq, <- seq_shift. simpl. rewrite map_map. f_equal.
    + apply (Hm 0%nat). simpl. lia.
    + apply (IH (fun i => meas (Datatypes.S i))). intros i Hi. apply (Hm (Datatypes.S i)). simpl. lia.
  - simpl.
    assert (Hs : seq (length ms) n = map (fun q => (length ms + q)%nat) (seq 0 n)).
    { clear. induction n as [|k IH]; [reflexivity|]. rewrite !seq_S, map_app, <- IH. reflexivity. }
    rewrite Hs, map_map. apply map_ext_in. intros q Hin. apply in_seq in Hin. apply Hq. lia.
Qed.

(* ================= the replay loop ================= *)
Local Arguments MidCircuit.requeue : simpl never.
Local Arguments MidCircuit.expand : simpl never.
Local Arguments MidCircuit.pieces : simpl never.
Local Arguments MidCircuit.pop : simpl never.
Section ReplayProofs.
  Variable G : Type.
  Variable ctl : option (list bool -> list (instr G)).
  Notation instr := (instr G).
  Notation flag := (flag G).
  Notation aitem := (aitem G).
  Notation queue := (queue G).
  Notation pieces_from := (pieces_from G).
  Notation pieces := (pieces G).
  Notation replay := (replay G ctl).
  Notation selected := (selected G ctl).
  Notation split_first := (split_first G).
  Notation expand := (expand G ctl).
  Notation requeue := (requeue G).

  Definition minstr (q : Z) (f : flag) : instr :=
    match f with FNone => IMeas q | FStr => ICMeasF q | FDict d0 d1 => ICMeasD q d0 d1 end.

  (* the program still to be run that a queue state stands for *)
  Fixpoint reprog (ucs : list (list G)) (qs : list Z) (fs : list flag) (pre : list (list G)) : list instr :=
    match ucs, pre with
    | u :: ucs', p :: pre' =>
      map IU (p ++ u) ++ match qs, fs with
                         | q :: qs', f :: fs' => minstr q f :: reprog ucs' qs' fs' pre'
                         | _, _ => []
                         end
    | _, _ => []
    end.
  Definition reprog_q (s : queue) : list instr := reprog (q_ucs s) (q_qs s) (q_fs s) (q_pre s).

  Definition wf (s : queue) : Prop :=
    length (q_ucs s) = Datatypes.S (length (q_qs s)) /\ length (q_fs s) = length (q_qs s)
    /\ length (q_pre s) = length (q_ucs s).

  Lemma pieces_from_shape prog g :
    length (fst (fst (pieces_from prog g))) = Datatypes.S (length (snd (fst (pieces_from prog g))))
    /\ length (snd (pieces_from prog g)) = length (snd (fst (pieces_from prog g))).
  Proof.
    revert g. induction prog as [|i r IH]; intro g; simpl.
    - split; reflexivity.
    - destruct i as [x|q|q d0 d1|q]; [apply IH| | |];
        specialize (IH []); destruct (pieces_from r []) as [[cs qs] fs]; simpl in *; lia.
  Qed.

  Lemma reprog_pieces prog g :
    reprog (fst (fst (pieces_from prog g))) (snd (fst (pieces_from prog g))) (snd (pieces_from prog g))
           (repeat [] (length (fst (fst (pieces_from prog g))))) = map IU g ++ prog.
  Proof.
    revert g. induction prog as [|i r IH]; intro g.
    - simpl. rewrite app_nil_r. reflexivity.
    - destruct i as [x|q|q d0 d1|q].
      + simpl pieces_from. rewrite IH, map_app, <- app_assoc. reflexivity.
      + simpl pieces_from. specialize (IH []). destruct (pieces_from r []) as [[cs qs] fs]; simpl in *.
        rewrite IH. reflexivity.
      + simpl pieces_from. specialize (IH []). destruct (pieces_from r []) as [[cs qs] fs]; simpl in *.
        rewrite IH. reflexivity.
      + simpl pieces_from. specialize (IH []). destruct (pieces_from r []) as [[cs qs] fs]; simpl in *.
        rewrite IH. reflexivity.
  Qed.

  Lemma split_first_units (us : list G) (rest : list instr) :
    split_first (map IU us ++ rest) = (us ++ fst (split_first rest), snd (split_first rest)).
  Proof.
    induction us as [|u r IH]; simpl.
    - destruct (split_first rest); reflexivity.
    - rewrite IH. reflexivity.
  Qed.

  Lemma split_first_minstr q f rest : split_first (minstr q f :: rest) = ([], Some (q, f, rest)).
  Proof. destruct f; reflexivity. Qed.

  Lemma reprog_concat init : forall nq nf lastc p1 u1 ucs'' qs' fs' pre'',
    length nq = length init -> length nf = length init ->
    reprog (init ++ u1 :: ucs'') (nq ++ qs') (nf ++ fs') (repeat [] (length init) ++ (lastc ++ p1) :: pre'')
    = reprog (init ++ [lastc]) nq nf (repeat [] (Datatypes.S (length init))) ++ reprog (u1 :: ucs'') qs' fs' (p1 :: pre'').
  Proof.
    induction init as [|c init' IH]; intros nq nf lastc p1 u1 ucs'' qs' fs' pre'' Hq Hf.
    - destruct nq; [|discriminate]. destruct nf; [|discriminate]. simpl.
      rewrite app_nil_r, !map_app, <- !app_assoc. reflexivity.
    - destruct nq as [|q nq']; [discriminate|]. destruct nf as [|f nf']; [discriminate|].
      simpl in Hq, Hf. injection Hq as Hq. injection Hf as Hf.
      simpl. rewrite (IH nq' nf' lastc p1 u1 ucs'' qs' fs' pre'' Hq Hf).
      rewrite <- !app_assoc. reflexivity.
  Qed.

  (* the repaired queue update represents "new gates, then what was queued" *)
  Lemma requeue_spec newg u1 ucs'' qs' fs' p1 pre'' :
    wf (Q (u1 :: ucs'') qs' fs' (p1 :: pre'')) ->
    exists s', requeue false (u1 :: ucs'') qs' fs' (p1 :: pre'')
                       (fst (fst (pieces newg))) (snd (fst (pieces newg))) (snd (pieces newg)) = MOk s'
               /\ wf s' /\ reprog_q s' = newg ++ reprog (u1 :: ucs'') qs' fs' (p1 :: pre'').
  Proof.
    intros [W1 [W2 W3]]. simpl in W1, W2, W3.
    pose proof (pieces_from_shape newg []) as [S1 S2].
    pose proof (reprog_pieces newg []) as RP. simpl map in RP. simpl app in RP.
    unfold pieces. destruct (pieces_from newg []) as [[nu nq] nf]. simpl fst in *. simpl snd in *.
    assert (Hne : nu <> []) by (destruct nu; [discriminate|congruence]).
    pose proof (app_removelast_last [] Hne) as Hnu.
    set (init := removelast nu) in *. set (lastc := last nu []) in *.
    assert (Hlen : length nq = length init).
    { rewrite Hnu, app_length in S1. simpl in S1. lia. }
    assert (Hlenf : length nf = length init) by lia.
    assert (RP' : reprog (init ++ [lastc]) nq nf (repeat [] (Datatypes.S (length init))) = newg).
    { rewrite <- RP. rewrite Hnu at 1. f_equal. f_equal. rewrite Hnu at 1. rewrite app_length. simpl. lia. }
    unfold MidCircuit.requeue. fold init lastc.
    destruct (1 <? length nu)%nat eqn:E.
    - eexists. split; [reflexivity|]. split.
      + unfold wf; simpl. rewrite !app_length, repeat_length. simpl. lia.
      + unfold reprog_q; simpl q_ucs; simpl q_qs; simpl q_fs; simpl q_pre.
        rewrite Hlen. rewrite reprog_concat by assumption. rewrite RP'. reflexivity.
    - apply Nat.ltb_ge in E. rewrite Hnu, app_length in E. simpl in E.
      assert (Hi : init = []) by (destruct init; [reflexivity|simpl in E; lia]).
      destruct nq; [|rewrite Hi in Hlen; discriminate]. destruct nf; [|rewrite Hi in Hlenf; discriminate].
      eexists. split; [reflexivity|]. split.
      + unfold wf; simpl. lia.
      + unfold reprog_q; simpl q_ucs; simpl q_qs; simpl q_fs; simpl q_pre.
        rewrite Hi in RP'. simpl in RP'. rewrite app_nil_r in RP'. rewrite <- RP'.
        simpl. rewrite !map_app, <- !app_assoc. reflexivity.
  Qed.

  Lemma init_queue_wf prog : wf (init_queue G prog).
  Proof.
    unfold init_queue, pieces. pose proof (pieces_from_shape prog []) as [S1 S2].
    destruct (pieces_from prog []) as [[cs qs] fs]. simpl in *.
    unfold wf; simpl. rewrite repeat_length. lia.
  Qed.

  Lemma init_queue_reprog prog : reprog_q (init_queue G prog) = prog.
  Proof.
    unfold init_queue, pieces. pose proof (reprog_pieces prog []) as RP.
    destruct (pieces_from prog []) as [[cs qs] fs]. exact RP.
  Qed.

  (* ---- the repaired loop computes the specification, on every input, errors included ---- *)
  Lemma replay_is_selected_q fuel : forall src hist s,
    wf s -> replay false fuel src hist s = selected fuel src hist (reprog_q s).
  Proof.
    induction fuel as [|fu IH]; intros src hist [ucs qs fs pre] [W1 [W2 W3]]; simpl in W1, W2, W3;
      unfold reprog_q; simpl q_ucs; simpl q_qs; simpl q_fs; simpl q_pre.
    - destruct ucs as [|u0 [|u1 ucs'']]; [discriminate| |].
      + destruct qs; [|discriminate]. destruct fs; [|discriminate].
        destruct pre as [|p [|? ?]]; try discriminate.
        simpl. rewrite split_first_units. simpl. rewrite app_nil_r. reflexivity.
      + destruct qs as [|q0 qs']; [discriminate|]. destruct fs as [|f0 fs']; [discriminate|].
        destruct pre as [|p0 [|p1 pre'']]; try discriminate.
        simpl reprog. simpl. rewrite split_first_units, split_first_minstr. reflexivity.
    - destruct ucs as [|u0 [|u1 ucs'']]; [discriminate| |].
      + destruct qs; [|discriminate]. destruct fs; [|discriminate].
        destruct pre as [|p [|? ?]]; try discriminate.
        simpl. rewrite split_first_units. simpl. rewrite app_nil_r. reflexivity.
      + destruct qs as [|q0 qs']; [discriminate|]. destruct fs as [|f0 fs']; [discriminate|].
        destruct pre as [|p0 [|p1 pre'']]; try discriminate.
        assert (Wr : wf (Q (u1 :: ucs'') qs' fs' (p1 :: pre''))) by (unfold wf; simpl in *; lia).
        change (reprog (u0 :: u1 :: ucs'') (q0 :: qs') (f0 :: fs') (p0 :: p1 :: pre''))
          with (map IU (p0 ++ u0) ++ minstr q0 f0 :: reprog (u1 :: ucs'') qs' fs' (p1 :: pre'')).
        simpl MidCircuit.replay. simpl MidCircuit.selected.
        rewrite split_first_units, split_first_minstr. simpl fst. simpl snd. rewrite app_nil_r.
        destruct (pop src) as [[b src']|e]; [|reflexivity]. simpl mbind. simpl fst. simpl snd.
        destruct (expand f0 q0 b hist) as [[[tag newg] hist']|e]; [|reflexivity]. simpl mbind.
        destruct (requeue_spec newg u1 ucs'' qs' fs' p1 pre'' Wr) as [s' [Hs' [Ws' Rs']]].
        destruct (pieces newg) as [[nu nq] nf]. simpl fst in Hs'. simpl snd in Hs'.
        rewrite Hs'. simpl mbind. rewrite (IH src' hist' s' Ws'), Rs'. reflexivity.
  Qed.

  Theorem replay_is_selected fuel d prog :
    generate_applied_gates G ctl false fuel d prog = selected fuel (src_of d) [] prog.
  Proof.
    unfold generate_applied_gates. rewrite replay_is_selected_q by apply init_queue_wf.
    rewrite init_queue_reprog. reflexivity.
  Qed.

  (* ---- the two copies of the loop agree: the simulator's loop returns the same gates and outcomes ---- *)
  Section SimItems.
    Variable K St : Type.
    Variable qapply : list G -> St -> St.
    Variable qcollapse : St -> Z -> bool -> mres (St * K).
    Variable pmul : K -> K -> K.
    Notation sim_replay := (sim_replay G ctl K St qapply qcollapse pmul).

    Theorem sim_replay_items asis fuel : forall src hist s sv P items ms svf Pf,
      sim_replay asis fuel src hist s sv P = MOk (items, ms, svf, Pf) ->
      MidCircuit.replay G ctl asis fuel src hist s = MOk (items, ms).
    Proof.
      induction fuel as [|fu IH]; intros src hist [ucs qs fs pre] sv P items ms svf Pf H.
      - simpl in *. destruct ucs as [|u0 [|u1 ucs'']]; try discriminate.
        destruct pre; [discriminate|]. injection H as <- <- _ _. reflexivity.
      - simpl in *. destruct ucs as [|u0 [|u1 ucs'']]; try discriminate.
        + destruct pre; [discriminate|]. injection H as <- <- _ _. reflexivity.
        + destruct pre as [|p0 pre']; [discriminate|]. destruct qs as [|q0 qs']; [discriminate|].
          destruct fs as [|f0 fs']; [discriminate|].
          destruct (pop src) as [[b src']|e]; [|discriminate]. simpl mbind in *. simpl fst in *. simpl snd in *.
          destruct (qcollapse _ q0 b) as [[w cp]|e]; [|discriminate]. simpl mbind in *. simpl fst in *. simpl snd in *.
          destruct (expand f0 q0 b hist) as [[[tag newg] hist']|e]; [|discriminate]. simpl mbind in *.
          destruct (pieces newg) as [[nu nq] nf].
          destruct (requeue asis (u1 :: ucs'') qs' fs' pre' nu nq nf) as [s'|e]; [|discriminate]. simpl mbind in *.
          destruct (sim_replay asis fu src' hist' s' w (pmul P cp)) as [[[[items' ms'] svf'] Pf']|e] eqn:E; [|discriminate].
          simpl mbind in H. injection H as <- <- _ _.
          rewrite (IH _ _ _ _ _ _ _ _ _ E). reflexivity.
    Qed.
  End SimItems.

End ReplayProofs.

(* ================= probabilities and states ================= *)
Section ChainProofs.
  Variable S : KS.
  Add Ring kring2 : (k_ring S).
  Open Scope K_scope.
  Variable G : Type.
  Variable ctl : option (list bool -> list (instr G)).
  Variable gden : G -> state S -> state S.
  Variable n : nat.
  Variable rnorm : state S -> K S.
  Variable tiny : K S -> bool.
  Variable rinv : K S -> K S.
  Notation state := (state S).
  Notation gapply := (gapply S G gden).
  Notation run_items := (run_items S G gden).
  Notation collapse_norm := (collapse_norm S rnorm tiny rinv).
  Notation norm2 := (norm2 S).

  (* ASSUMPTIONS about the numerics of numpy, stated as hypotheses:
       Hlin   every gate denotation is linear (proved for QSem's den_gate: MeasureProofs.den_gate_linear)
       Hreal  np.linalg.norm returns a real number
       Hinv   x / r undoes the multiplication by r whenever the 1e-14 guard lets r through *)
  Hypothesis Hlin : forall g, linear S (gden g).
  Hypothesis Hreal : forall w, kconj (rnorm w) = rnorm w.
  Hypothesis Hinv : forall r, tiny r = false -> r * rinv r = 1.

  Lemma gapply_linear c : linear S (gapply c).
  Proof.
    induction c as [|g r IH]; intros k psi; [reflexivity|].
    unfold MidCircuit.gapply in *. simpl. rewrite Hlin. apply IH.
  Qed.

  Lemma item_den_linear it : linear S (item_den S G gden it).
  Proof. intros k psi. destruct it; simpl; [apply Hlin|apply proj_scale|apply proj_scale]. Qed.

  Lemma run_items_linear items : linear S (run_items items).
  Proof.
    induction items as [|it r IH]; intros k psi; [reflexivity|].
    unfold MidCircuit.run_items in *. simpl. rewrite item_den_linear. apply IH.
  Qed.

  Lemma run_items_app a b psi : run_items (a ++ b) psi = run_items b (run_items a psi).
  Proof. unfold MidCircuit.run_items. apply fold_left_app. Qed.

  Lemma run_items_AG c psi : run_items (map AG c) psi = gapply c psi.
  Proof.
    revert psi. induction c as [|g r IH]; intro psi; [reflexivity|].
    unfold MidCircuit.run_items, MidCircuit.gapply in *. simpl. apply IH.
  Qed.

  Lemma sim_piece_gapply c psi : sim_piece G state gapply c psi = gapply c psi.
  Proof. destruct c; reflexivity. Qed.

  Lemma expand_tag f q b hist tag newg hist' :
    expand G ctl f q b hist = MOk (tag, newg, hist') -> item_den S G gden tag = proj S (zq q) b.
  Proof.
    unfold expand. destruct f as [| |d0 d1].
    - intro H. injection H as <- _ _. reflexivity.
    - destruct ctl; [|discriminate]. intro H. injection H as <- _ _. reflexivity.
    - destruct (if b then d1 else d0); [|discriminate]. intro H. injection H as <- _ _. reflexivity.
  Qed.

  (* one collapse: the returned state times the norm is the projected vector *)
  Lemma collapse_norm_spec psi q b sv' cp :
    collapse_norm psi q b = MOk (sv', cp) ->
    let r := rnorm (proj S (zq q) b psi) in
    cp = r * r /\ kconj r = r /\ sscale S r sv' = proj S (zq q) b psi.
  Proof.
    unfold MidCircuit.collapse_norm. destruct (tiny _) eqn:Et; [discriminate|].
    intro H. injection H as <- <-. split; [reflexivity|]. split; [apply Hreal|].
    rewrite sscale_sscale, (Hinv _ Et). apply sscale_one.
  Qed.

  (* ---- the CMEASURE loop of target_cirq.py ---- *)
  Notation sim_replay := (sim_replay G ctl (K S) state gapply collapse_norm (@kmul S)).

  Theorem sim_replay_chain asis fuel : forall src hist s sv P items ms svf Pf,
    sim_replay asis fuel src hist s sv P = MOk (items, ms, svf, Pf) ->
    exists c, kconj c = c /\ Pf = P * (c * c) /\ sscale S c svf = run_items items sv.
  Proof.
    induction fuel as [|fu IH]; intros src hist [ucs qs fs pre] sv P items ms svf Pf H.
    - simpl in H. destruct ucs as [|u0 [|u1 ucs'']]; try discriminate.
      destruct pre as [|p pre']; [discriminate|]. injection H as <- _ <- <-.
      exists 1. split; [apply kconj_1|]. split; [ring|]. rewrite sscale_one, run_items_AG. reflexivity.
    - simpl in H. destruct ucs as [|u0 [|u1 ucs'']]; try discriminate.
      + destruct pre as [|p pre']; [discriminate|]. injection H as <- _ <- <-.
        exists 1. split; [apply kconj_1|]. split; [ring|]. rewrite sscale_one, run_items_AG. reflexivity.
      + destruct pre as [|p0 pre']; [discriminate|]. destruct qs as [|q0 qs']; [discriminate|].
        destruct fs as [|f0 fs']; [discriminate|].
        destruct (pop src) as [[b src']|e]; [|discriminate]. simpl mbind in H. simpl fst in H. simpl snd in H.
        destruct (collapse_norm _ q0 b) as [[w cp]|e] eqn:Ec; [|discriminate]. simpl mbind in H. simpl fst in H. simpl snd in H.
        destruct (expand G ctl f0 q0 b hist) as [[[tag newg] hist']|e] eqn:Ee; [|discriminate]. simpl mbind in H.
        destruct (pieces G newg) as [[nu nq] nf].
        destruct (requeue G asis (u1 :: ucs'') qs' fs' pre' nu nq nf) as [s'|e]; [|discriminate]. simpl mbind in H.
        destruct (sim_replay asis fu src' hist' s' w (P * cp)) as [[[[items' ms'] svf'] Pf']|e] eqn:E; [|discriminate].
        simpl mbind in H. injection H as <- _ <- <-.
        destruct (IH _ _ _ _ _ _ _ _ _ E) as [c' [Hc' [HP' Hs']]].
        apply collapse_norm_spec in Ec. rewrite sim_piece_gapply in Ec. destruct Ec as [Hcp [Hr Hw]].
        set (r := rnorm (proj S (zq q0) b (gapply (p0 ++ u0) sv))) in *.
        exists (r * c'). split; [rewrite kconj_mul, Hr, Hc'; reflexivity|]. split; [rewrite HP', Hcp; ring|].
        rewrite run_items_app, run_items_AG.
        change (run_items (tag :: items') (gapply (p0 ++ u0) sv))
          with (run_items items' (item_den S G gden tag (gapply (p0 ++ u0) sv))).
        rewrite (expand_tag _ _ _ _ _ _ _ Ee), <- Hw, run_items_linear, <- Hs', sscale_sscale. reflexivity.
  Qed.

  (* with success_probability starting at 1: P * ||returned||^2 = ||unnormalised branch vector||^2 *)
  Corollary sim_replay_prob asis fuel src hist s sv items ms svf Pf :
    sim_replay asis fuel src hist s sv 1 = MOk (items, ms, svf, Pf) ->
    Pf * norm2 n svf = norm2 n (run_items items sv).
  Proof.
    intro H. destruct (sim_replay_chain _ _ _ _ _ _ _ _ _ _ _ H) as [c [Hc [HP Hs]]].
    rewrite <- Hs, norm2_scale, Hc, HP. ring.
  Qed.

  (* ---- normalisation: needs the unitarity HYPOTHESIS and two more facts about numpy's numerics ---- *)
  Hypothesis Hunit : forall g phi, norm2 n (gden g phi) = norm2 n phi.
  Hypothesis Hsq : forall w, rnorm w * rnorm w = norm2 n w.
  Hypothesis Hinv_real : forall r, kconj r = r -> kconj (rinv r) = rinv r.

  Lemma gapply_unit c phi : norm2 n (gapply c phi) = norm2 n phi.
  Proof.
    revert phi. induction c as [|g r IH]; intro phi; [reflexivity|].
    unfold MidCircuit.gapply in *. simpl. rewrite IH. apply Hunit.
  Qed.

  Lemma collapse_norm_normalised psi q b sv' cp : collapse_norm psi q b = MOk (sv', cp) -> norm2 n sv' = 1.
  Proof.
    unfold MidCircuit.collapse_norm. destruct (tiny _) eqn:Et; [discriminate|].
    intro H. injection H as <- _. rewrite norm2_scale, Hinv_real by apply Hreal. rewrite <- Hsq.
    set (r := rnorm _) in *. transitivity ((r * rinv r) * (r * rinv r)); [ring|]. rewrite (Hinv _ Et). ring.
  Qed.

  Theorem sim_replay_normalised asis fuel : forall src hist s sv P items ms svf Pf,
    sim_replay asis fuel src hist s sv P = MOk (items, ms, svf, Pf) ->
    (norm2 n sv = 1 \/ ms <> []) -> norm2 n svf = 1.
  Proof.
    induction fuel as [|fu IH]; intros src hist [ucs qs fs pre] sv P items ms svf Pf H Hn.
    - simpl in H. destruct ucs as [|u0 [|u1 ucs'']]; try discriminate.
      destruct pre as [|p pre']; [discriminate|]. injection H as _ <- <- _.
      rewrite gapply_unit. destruct Hn as [Hn|Hn]; [exact Hn|contradiction].
    - simpl in H. destruct ucs as [|u0 [|u1 ucs'']]; try discriminate.
      + destruct pre as [|p pre']; [discriminate|]. injection H as _ <- <- _.
        rewrite gapply_unit. destruct Hn as [Hn|Hn]; [exact Hn|contradiction].
      + destruct pre as [|p0 pre']; [discriminate|]. destruct qs as [|q0 qs']; [discriminate|].
        destruct fs as [|f0 fs']; [discriminate|].
        destruct (pop src) as [[b src']|e]; [|discriminate]. simpl mbind in H. simpl fst in H. simpl snd in H.
        destruct (collapse_norm _ q0 b) as [[w cp]|e] eqn:Ec; [|discriminate]. simpl mbind in H. simpl fst in H. simpl snd in H.
        destruct (expand G ctl f0 q0 b hist) as [[[tag newg] hist']|e] eqn:Ee; [|discriminate]. simpl mbind in H.
        destruct (pieces G newg) as [[nu nq] nf].
        destruct (requeue G asis (u1 :: ucs'') qs' fs' pre' nu nq nf) as [s'|e]; [|discriminate]. simpl mbind in H.
        destruct (sim_replay asis fu src' hist' s' w (P * cp)) as [[[[items' ms'] svf'] Pf']|e] eqn:E; [|discriminate].
        simpl mbind in H. injection H as _ _ <- _.
        apply (IH _ _ _ _ _ _ _ _ _ E). left. apply (collapse_norm_normalised _ _ _ _ _ Ec).
  Qed.

  (* the recorded probability IS the squared norm of the unnormalised branch vector *)
  Corollary sim_replay_born asis fuel src hist s sv items ms svf Pf :
    sim_replay asis fuel src hist s sv 1 = MOk (items, ms, svf, Pf) ->
    (norm2 n sv = 1 \/ ms <> []) -> Pf = norm2 n (run_items items sv).
  Proof.
    intros H Hn. rewrite <- (sim_replay_prob _ _ _ _ _ _ _ _ _ _ H).
    rewrite (sim_replay_normalised _ _ _ _ _ _ _ _ _ _ _ H Hn). ring.
  Qed.

  (* ---- the piecewise loop of target_cirq.py 232-260 (MEASURE gates only) ---- *)
  Definition steps_of (ucs : list (list G)) (qs : list Z) : list (mstep S) :=
    map (fun cq => (gapply (fst cq), zq (snd cq))) (combine ucs qs).

  Notation piecewise_loop := (piecewise_loop G (K S) state gapply collapse_norm (@kmul S)).

  Lemma branch_steps_linear ucs : forall qs bs, linear S (branch S (steps_of ucs qs) bs).
  Proof.
    induction ucs as [|c r IH]; intros qs bs k psi; [reflexivity|].
    destruct qs as [|q qs']; [reflexivity|]. destruct bs as [|b bs']; [reflexivity|].
    simpl. unfold branch1. simpl. rewrite gapply_linear, proj_scale. apply IH.
  Qed.

  Lemma branch_cons c0 r q qs' b d' sv :
    branch S (steps_of (c0 :: r) (q :: qs')) (b :: d') sv
    = branch S (steps_of r qs') d' (proj S (zq q) b (gapply c0 sv)).
  Proof. reflexivity. Qed.

  Theorem piecewise_loop_chain ucs : forall qs d sv P svf Pf,
    piecewise_loop ucs qs d sv P = MOk (svf, Pf) ->
    exists c, kconj c = c /\ Pf = P * (c * c) /\ sscale S c svf = branch S (steps_of ucs qs) d sv
              /\ (ucs <> [] -> c * c = norm2 n (branch S (steps_of ucs qs) d sv)).
  Proof.
    induction ucs as [|c0 r IH]; intros qs d sv P svf Pf H.
    - simpl in H. injection H as <- <-. exists 1. split; [apply kconj_1|]. split; [ring|].
      split; [apply sscale_one|]. intro Hc. contradiction.
    - simpl in H. destruct qs as [|q qs']; [discriminate|]. destruct d as [|b d']; [discriminate|].
      destruct (collapse_norm _ q b) as [[w cp]|e] eqn:Ec; [|discriminate]. simpl mbind in H. simpl fst in H. simpl snd in H.
      destruct (IH _ _ _ _ _ _ H) as [c' [Hc' [HP' [Hs' Hn']]]].
      pose proof Ec as Ec'.
      apply collapse_norm_spec in Ec. rewrite sim_piece_gapply in Ec. destruct Ec as [Hcp [Hr Hw]].
      set (rr := rnorm (proj S (zq q) b (gapply c0 sv))) in *.
      assert (Hbr : sscale S (rr * c') svf = branch S (steps_of (c0 :: r) (q :: qs')) (b :: d') sv).
      { rewrite branch_cons, <- Hw, branch_steps_linear, <- Hs', sscale_sscale. reflexivity. }
      exists (rr * c'). split; [rewrite kconj_mul, Hr, Hc'; reflexivity|]. split; [rewrite HP', Hcp; ring|].
      split; [exact Hbr|]. intros _.
      assert (HX : c' * c' = norm2 n (branch S (steps_of r qs') d' w)).
      { destruct r as [|c1 r'].
        - simpl in H. injection H as <- _. simpl in Hs'. simpl.
          pose proof (collapse_norm_normalised _ _ _ _ _ Ec') as Hw1.
          transitivity ((kconj c' * c') * norm2 n w); [rewrite Hw1, Hc'; ring|].
          rewrite <- norm2_scale, Hs'. reflexivity.
        - apply Hn'. discriminate. }
      rewrite branch_cons, <- Hw, branch_steps_linear, norm2_scale, Hr, <- HX. ring.
  Qed.
End ChainProofs.

(* ================= the loop exactly as written: correct under a guard ================= *)
Local Arguments MidCircuit.requeue : simpl never.
Local Arguments MidCircuit.expand : simpl never.
Local Arguments MidCircuit.pieces : simpl never.
Local Arguments MidCircuit.pop : simpl never.

Section ReplayPartial.
  Variable G : Type.
  Variable ctl : option (list bool -> list (instr G)).
  Notation instr := (instr G).
  Notation flag := (flag G).
  Notation queue := (queue G).

  (* a gate list is CLOSED when it contains no measurement, or nothing follows its last measurement:
     get_unitary_circuit_pieces returns a single piece, or an empty last piece *)
  Definition closed (l : list instr) : bool :=
    (length (fst (fst (pieces G l))) <=? 1)%nat
    || match last (fst (fst (pieces G l))) [] with [] => true | _ => false end.

  (* hereditarily: every dictionary entry, at any depth, is closed *)
  Fixpoint instr_ok (i : instr) : bool :=
    match i with
    | ICMeasD _ d0 d1 =>
      (match d0 with Some l => closed l && forallb instr_ok l | None => true end)
      && (match d1 with Some l => closed l && forallb instr_ok l | None => true end)
    | _ => true
    end.
  Definition block_ok (l : list instr) : bool := closed l && forallb instr_ok l.
  Definition flag_ok (f : flag) : bool :=
    match f with
    | FDict d0 d1 => (match d0 with Some l => block_ok l | None => true end)
                     && (match d1 with Some l => block_ok l | None => true end)
    | _ => true
    end.
  (* ... and every reply of the control function is *)
  Definition ctl_ok : Prop := match ctl with Some c => forall h, block_ok (c h) = true | None => True end.

  Lemma pieces_flags_ok l : forall g, forallb instr_ok l = true -> Forall (fun f => flag_ok f = true) (snd (pieces_from G l g)).
  Proof.
    induction l as [|i r IH]; intros g H; simpl.
    - constructor.
    - simpl in H. apply andb_true_iff in H. destruct H as [Hi Hr].
      destruct i as [x|q|q d0 d1|q]; simpl.
      + apply IH. exact Hr.
      + specialize (IH [] Hr). destruct (pieces_from G r []) as [[cs qs] fs]. simpl in *. constructor; [reflexivity|exact IH].
      + specialize (IH [] Hr). destruct (pieces_from G r []) as [[cs qs] fs]. simpl in *. constructor; [|exact IH].
        simpl in Hi. exact Hi.
      + specialize (IH [] Hr). destruct (pieces_from G r []) as [[cs qs] fs]. simpl in *. constructor; [reflexivity|exact IH].
  Qed.

  Lemma expand_ok f q b hist tag newg hist' :
    ctl_ok -> flag_ok f = true -> expand G ctl f q b hist = MOk (tag, newg, hist') -> block_ok newg = true.
  Proof.
    unfold expand, ctl_ok. intros Hc Hf. destruct f as [| |d0 d1].
    - intro H. injection H as _ <- _. reflexivity.
    - destruct ctl as [c|]; [|discriminate]. intro H. injection H as _ <- _. apply Hc.
    - simpl in Hf. apply andb_true_iff in Hf. destruct Hf as [H0 H1].
      destruct b.
      + destruct d1 as [l|]; [|discriminate]. intro H. injection H as _ <- _. exact H1.
      + destruct d0 as [l|]; [|discriminate]. intro H. injection H as _ <- _. exact H0.
  Qed.

  Definition all_nil (l : list (list G)) : Prop := Forall (fun x => x = []) l.

  (* the two loops run in lock step: same queues, same head of precirc, only empty circuits behind it *)
  Definition sim_rel (sa sr : queue) : Prop :=
    q_ucs sa = q_ucs sr /\ q_qs sa = q_qs sr /\ q_fs sa = q_fs sr
    /\ exists p ta tr, q_pre sa = p :: ta /\ q_pre sr = p :: tr /\ all_nil ta /\ all_nil tr
                       /\ (length tr <= length ta)%nat.

  Lemma all_nil_repeat k : all_nil (repeat [] k).
  Proof. induction k; simpl; constructor; [reflexivity|assumption]. Qed.

  Lemma all_nil_app a b : all_nil a -> all_nil b -> all_nil (a ++ b).
  Proof. unfold all_nil. rewrite Forall_app. tauto. Qed.

  Lemma replay_asis_lockstep fuel : forall src hist sa sr,
    ctl_ok -> sim_rel sa sr -> wf G sr -> Forall (fun f => flag_ok f = true) (q_fs sr) ->
    replay G ctl true fuel src hist sa = replay G ctl false fuel src hist sr.
  Proof.
    induction fuel as [|fu IH]; intros src hist [ucsa qsa fsa prea] [ucs qs fs pre] Hc
                                       [E1 [E2 [E3 [p [ta [tr [Ea [Er [Na [Nr Hl]]]]]]]]]] [W1 [W2 W3]] Hf;
      simpl in E1, E2, E3, Ea, Er, W1, W2, W3, Hf; subst ucsa qsa fsa prea pre.
    - simpl. destruct ucs as [|u0 [|u1 ucs'']]; reflexivity.
    - destruct ucs as [|u0 [|u1 ucs'']]; [reflexivity|reflexivity|].
      destruct qs as [|q0 qs']; [discriminate|]. destruct fs as [|f0 fs']; [discriminate|].
      destruct tr as [|p1r tr']; [discriminate|]. destruct ta as [|p1a ta']; [simpl in Hl; lia|].
      inversion Na as [|? ? Hp1a Na']; subst. inversion Nr as [|? ? Hp1r Nr']; subst.
      inversion Hf as [|? ? Hf0 Hf']; subst.
      simpl MidCircuit.replay.
      destruct (pop src) as [[b src']|e]; [|reflexivity]. simpl mbind. simpl fst. simpl snd.
      destruct (expand G ctl f0 q0 b hist) as [[[tag newg] hist']|e] eqn:Ee; [|reflexivity]. simpl mbind.
      pose proof (expand_ok _ _ _ _ _ _ _ Hc Hf0 Ee) as Hok.
      unfold block_ok in Hok. apply andb_true_iff in Hok. destruct Hok as [Hcl Hher].
      pose proof (pieces_from_shape G newg []) as [S1 S2].
      pose proof (pieces_flags_ok newg [] Hher) as Hnf.
      unfold closed in Hcl. unfold pieces in *.
      destruct (pieces_from G newg []) as [[nu nq] nf]. simpl fst in *. simpl snd in *.
      unfold MidCircuit.requeue.
      destruct (1 <? length nu)%nat eqn:E.
      + apply Nat.ltb_lt in E.
        assert (Hlast : last nu [] = []).
        { apply orb_true_iff in Hcl. destruct Hcl as [Hcl|Hcl].
          - apply Nat.leb_le in Hcl. lia.
          - destruct (last nu []); [reflexivity|discriminate]. }
        rewrite Hlast. simpl app. simpl mbind.
        destruct nq as [|nq0 nq']; [simpl in S1; lia|].
        assert (Hne : nu <> []) by (destruct nu; [simpl in E; lia|discriminate]).
        pose proof (app_removelast_last [] Hne) as Hnu.
        assert (Hrl : length (removelast nu) = length (nq0 :: nq')).
        { rewrite Hnu, app_length in S1. simpl in S1. simpl. lia. }
        rewrite (IH src' hist'
                    (Q (removelast nu ++ u1 :: ucs'') ((nq0 :: nq') ++ qs') (nf ++ fs')
                       (repeat [] (length ((nq0 :: nq') ++ qs')) ++ [] :: ta'))
                    (Q (removelast nu ++ u1 :: ucs'') ((nq0 :: nq') ++ qs') (nf ++ fs')
                       (repeat [] (length (nq0 :: nq')) ++ [] :: tr'))); [reflexivity|exact Hc| | |].
        * unfold sim_rel; simpl. repeat split.
          exists [], (repeat [] (length (nq' ++ qs')) ++ [] :: ta'), (repeat [] (length nq') ++ [] :: tr').
          repeat split.
          -- apply all_nil_app; [apply all_nil_repeat|constructor; [reflexivity|exact Na']].
          -- apply all_nil_app; [apply all_nil_repeat|constructor; [reflexivity|exact Nr']].
          -- rewrite !app_length, !repeat_length. simpl in *. rewrite ?app_length. lia.
        * unfold wf; simpl. rewrite !app_length, repeat_length. simpl in *. rewrite Hrl. simpl. lia.
        * simpl. apply Forall_app. split; [exact Hnf|exact Hf'].
      + simpl mbind.
        rewrite (IH src' hist' (Q (u1 :: ucs'') qs' fs' ((last nu [] ++ []) :: ta'))
                    (Q (u1 :: ucs'') qs' fs' ((last nu [] ++ []) :: tr'))); [reflexivity|exact Hc| | |].
        * unfold sim_rel; simpl. repeat split.
          exists (last nu [] ++ []), ta', tr'. repeat split; try assumption. simpl in Hl. lia.
        * unfold wf; simpl in *. lia.
        * simpl. exact Hf'.
  Qed.

  (* the loop as written in the source is correct for guarded programs *)
  Theorem replay_asis_is_selected_partial fuel d prog :
    ctl_ok -> forallb instr_ok prog = true ->
    generate_applied_gates G ctl true fuel d prog = selected G ctl fuel (src_of d) [] prog.
  Proof.
    intros Hc Hp. rewrite <- replay_is_selected. unfold generate_applied_gates.
    apply replay_asis_lockstep.
    - exact Hc.
    - unfold sim_rel. repeat split.
      unfold init_queue, pieces. pose proof (pieces_from_shape G prog []) as [S1 _].
      destruct (pieces_from G prog []) as [[cs qs] fs]. simpl in *.
      destruct cs as [|c cs']; [discriminate|]. simpl.
      exists [], (repeat [] (length cs')), (repeat [] (length cs')).
      repeat split; try apply all_nil_repeat. lia.
    - apply init_queue_wf.
    - unfold init_queue, pieces. pose proof (pieces_flags_ok prog [] Hp) as H.
      destruct (pieces_from G prog []) as [[cs qs] fs]. exact H.
  Qed.
End ReplayPartial.
