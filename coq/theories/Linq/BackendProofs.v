(* BackendProofs.v — lemmas about the models of Backend.v (property C01). *)
From Coq Require Import String NArith ZArith List Bool Lia FunctionalExtensionality.
From Tangelo Require Import Num.KStruct.
From Tangelo Require Import QSem.State.
From Tangelo Require Import QSem.StateLemmas.
From Tangelo Require Import QSem.GateLemmas.
From Tangelo Require Import QSem.CircuitLemmas.
From Tangelo Require Import QSem.Measure.
From Tangelo Require Import QSem.MeasureProofs.
From Tangelo Require Import QSem.Unitary.
From Tangelo Require Import Linq.GateModel.
From Tangelo Require Import Linq.Backend.
Import ListNotations.

(* ================================================================== bit strings *)
Lemma pos_bits_nth (p : positive) (k : nat) : nth k (pos_bits p) false = N.testbit (Npos p) (N.of_nat k).
Proof.
  revert k. induction p as [p IH|p IH|]; intro k; simpl pos_bits.
  - destruct k as [|k]; [reflexivity|]. simpl nth. rewrite IH, Nat2N.inj_succ.
    change (N.pos p~1) with (2 * N.pos p + 1)%N. rewrite N.testbit_odd_succ by lia. reflexivity.
  - destruct k as [|k]; [reflexivity|]. simpl nth. rewrite IH, Nat2N.inj_succ.
    change (N.pos p~0) with (2 * N.pos p)%N. rewrite N.testbit_even_succ by lia. reflexivity.
  - destruct k as [|k]; [reflexivity|]. simpl nth. rewrite Nat2N.inj_succ.
    destruct k; reflexivity.
Qed.

Lemma pos_bits_last (p : positive) : nth (length (pos_bits p) - 1) (pos_bits p) false = true.
Proof.
  induction p as [p IH|p IH|]; simpl; try reflexivity;
    (destruct (pos_bits p) as [|b r] eqn:E; [destruct p; discriminate|]);
    simpl in *; rewrite Nat.sub_0_r in IH; exact IH.
Qed.

Lemma pos_bits_length (p : positive) (n : nat) : (Npos p < 2 ^ N.of_nat n)%N -> length (pos_bits p) <= n.
Proof.
  intro H. destruct (Nat.le_gt_cases (length (pos_bits p)) n) as [Hl|Hl]; [exact Hl|exfalso].
  pose proof (pos_bits_last p) as Hb. rewrite pos_bits_nth in Hb.
  rewrite (proj1 (lt_pow2_bits _ _) H) in Hb by lia. discriminate.
Qed.

Lemma bin_length (i : N) (n : nat) : 0 < n -> (i < 2 ^ N.of_nat n)%N -> length (bin i) <= n.
Proof.
  intros Hn H. destruct i as [|p]; simpl; [lia|]. rewrite rev_length. apply pos_bits_length. exact H.
Qed.

(* digit k (from the least significant end) of bin i *)
Lemma bin_digit (i : N) (k : nat) : nth k (rev (bin i)) false = N.testbit i (N.of_nat k).
Proof.
  destruct i as [|p]; simpl bin.
  - simpl. destruct k as [|[|k]]; reflexivity.
  - rewrite rev_involutive. apply pos_bits_nth.
Qed.

Lemma zfill_length (n : nat) (l : list bool) : length l <= n -> length (zfill n l) = n.
Proof. intro H. unfold zfill. rewrite app_length, repeat_length. lia. Qed.

Lemma msb_first_length n i : length (msb_first n i) = n.
Proof. unfold msb_first. rewrite map_length, seq_length. reflexivity. Qed.
Lemma qubit0_first_length n x : length (qubit0_first n x) = n.
Proof. unfold qubit0_first. rewrite map_length, seq_length. reflexivity. Qed.

Lemma msb_first_nth n i q : q < n -> nth q (msb_first n i) false = N.testbit i (N.of_nat (n - 1 - q)).
Proof.
  intro Hq. unfold msb_first.
  rewrite (nth_indep _ false (N.testbit i (N.of_nat (n - 1 - 0)))) by (rewrite map_length, seq_length; exact Hq).
  rewrite (map_nth (fun q => N.testbit i (N.of_nat (n - 1 - q))) (seq 0 n) 0 q), seq_nth by exact Hq.
  reflexivity.
Qed.

Lemma qubit0_first_nth n x q : q < n -> nth q (qubit0_first n x) false = N.testbit x (N.of_nat q).
Proof.
  intro Hq. unfold qubit0_first.
  rewrite (nth_indep _ false (N.testbit x (N.of_nat 0))) by (rewrite map_length, seq_length; exact Hq).
  rewrite (map_nth (fun q => N.testbit x (N.of_nat q)) (seq 0 n) 0 q), seq_nth by exact Hq.
  reflexivity.
Qed.

Lemma zfill_bin_msb (n : nat) (i : N) : 0 < n -> (i < 2 ^ N.of_nat n)%N -> zfill n (bin i) = msb_first n i.
Proof.
  intros Hn Hi. pose proof (bin_length i n Hn Hi) as Hl.
  apply (nth_ext _ _ false false).
  - rewrite zfill_length by exact Hl. rewrite msb_first_length. reflexivity.
  - intros q Hq. rewrite zfill_length in Hq by exact Hl.
    rewrite msb_first_nth by exact Hq. unfold zfill.
    destruct (Nat.lt_ge_cases q (n - length (bin i))) as [Hlo|Hhi].
    + rewrite app_nth1 by (rewrite repeat_length; exact Hlo).
      rewrite nth_repeat.
      rewrite <- bin_digit. symmetry. apply nth_overflow. rewrite rev_length. lia.
    + rewrite app_nth2 by (rewrite repeat_length; exact Hhi). rewrite repeat_length.
      rewrite <- bin_digit.
      rewrite rev_nth by (rewrite ?rev_length; lia).
      f_equal. lia.
Qed.

Lemma rev_msb_first n i : rev (msb_first n i) = qubit0_first n i.
Proof.
  apply (nth_ext _ _ false false).
  - rewrite rev_length, msb_first_length, qubit0_first_length. reflexivity.
  - intros q Hq. rewrite rev_length, msb_first_length in Hq.
    rewrite rev_nth by (rewrite msb_first_length; exact Hq).
    rewrite msb_first_length, msb_first_nth, qubit0_first_nth by lia.
    f_equal. f_equal. lia.
Qed.

(* ---- bit reversal ---- *)
Lemma brev_lt (n : nat) (i : N) : (brev n i < 2 ^ N.of_nat n)%N.
Proof. apply lt_pow2_bits. intros k Hk. apply brev_high. exact Hk. Qed.

Lemma brev_invol (n : nat) (x : N) : (x < 2 ^ N.of_nat n)%N -> brev n (brev n x) = x.
Proof.
  intro Hx. apply N.bits_inj. intro k.
  destruct (N.lt_ge_cases k (N.of_nat n)) as [Hk|Hk].
  - rewrite brev_testbit by exact Hk. rewrite brev_testbit by lia. f_equal. lia.
  - rewrite brev_high by exact Hk. symmetry. apply (proj1 (lt_pow2_bits x (N.of_nat n)) Hx). exact Hk.
Qed.

Lemma msb_first_brev n x : msb_first n (brev n x) = qubit0_first n x.
Proof.
  apply (nth_ext _ _ false false).
  - rewrite msb_first_length, qubit0_first_length. reflexivity.
  - intros q Hq. rewrite msb_first_length in Hq.
    rewrite msb_first_nth, qubit0_first_nth by exact Hq.
    rewrite brev_testbit by lia. f_equal. lia.
Qed.

(* ---- _int_to_binstr ---- *)
Open Scope string_scope.

Lemma binstr_lsq (n : nat) (i : N) :
  0 < n -> (i < 2 ^ N.of_nat n)%N -> int_to_binstr "lsq_first" n i true = msb_first n i.
Proof. intros Hn Hi. unfold int_to_binstr. simpl. apply zfill_bin_msb; assumption. Qed.

Lemma binstr_other (ord : string) (n : nat) (i : N) (u : bool) :
  0 < n -> (i < 2 ^ N.of_nat n)%N -> u && String.eqb ord "lsq_first" = false ->
  int_to_binstr ord n i u = qubit0_first n i.
Proof.
  intros Hn Hi E. unfold int_to_binstr. rewrite E, zfill_bin_msb by assumption. apply rev_msb_first.
Qed.

(* the property's clause "outcome bitstrings list qubit 0 first":
   - a backend that advertises lsq_first and whose vector is big-endian in the qubit index (cirq):
     character q of the key of amplitude i is bit n-1-q of i = the value of qubit q in that basis state;
   - a backend that advertises msq_first and whose vector is little-endian: character q is bit q of i. *)
Theorem binstr_lists_qubit0_first (n : nat) (i : N) (q : nat) :
  (i < 2 ^ N.of_nat n)%N -> q < n ->
  nth q (int_to_binstr "lsq_first" n i true) false = N.testbit i (N.of_nat (n - 1 - q))
  /\ nth q (int_to_binstr "lsq_first" n i true) false = N.testbit (brev n i) (N.of_nat q)
  /\ nth q (int_to_binstr "msq_first" n i true) false = N.testbit i (N.of_nat q)
  /\ length (int_to_binstr "lsq_first" n i true) = n /\ length (int_to_binstr "msq_first" n i true) = n.
Proof.
  intros Hi Hq. assert (Hn : 0 < n) by lia.
  rewrite binstr_lsq by assumption. rewrite (binstr_other "msq_first") by (assumption || reflexivity).
  rewrite msb_first_nth, qubit0_first_nth, msb_first_length, qubit0_first_length by exact Hq.
  repeat split; try reflexivity.
  rewrite brev_testbit by lia. f_equal. lia.
Qed.

(* in terms of the QSem index x (qubit q = bit q): the key of x's amplitude lists qubit 0 first on
   both conventions *)
Theorem binstr_key_of_state (n : nat) (x : N) :
  0 < n -> (x < 2 ^ N.of_nat n)%N ->
  int_to_binstr "lsq_first" n (brev n x) true = qubit0_first n x
  /\ int_to_binstr "msq_first" n x true = qubit0_first n x
  /\ sympy_key n x = qubit0_first n x.
Proof.
  intros Hn Hx. split; [|split].
  - rewrite binstr_lsq by (exact Hn || apply brev_lt). apply msb_first_brev.
  - apply binstr_other; (assumption || reflexivity).
  - apply rev_msb_first.
Qed.

(* keys determine the basis state *)
Lemma qubit0_first_inj (n : nat) (x y : N) :
  (x < 2 ^ N.of_nat n)%N -> (y < 2 ^ N.of_nat n)%N -> qubit0_first n x = qubit0_first n y -> x = y.
Proof.
  intros Hx Hy E. apply N.bits_inj. intro k.
  destruct (N.lt_ge_cases k (N.of_nat n)) as [Hk|Hk].
  - assert (Hq : N.to_nat k < n) by lia.
    pose proof (qubit0_first_nth n x _ Hq) as E1. pose proof (qubit0_first_nth n y _ Hq) as E2.
    rewrite E, E2, N2Nat.id in E1. symmetry. exact E1.
  - rewrite (proj1 (lt_pow2_bits x _) Hx), (proj1 (lt_pow2_bits y _) Hy) by exact Hk. reflexivity.
Qed.

(* ---- sampled part: key -> int(k[::-1], 2) -> _int_to_binstr(., n, False) is the identity on keys ---- *)
Lemma int_of_bits_app (l : list bool) (b : bool) : int_of_bits (l ++ [b]) = (2 * int_of_bits l + N.b2n b)%N.
Proof. unfold int_of_bits. rewrite fold_left_app. reflexivity. Qed.

Lemma sample_value_cons (b : bool) (key : list bool) : sample_value (b :: key) = (2 * sample_value key + N.b2n b)%N.
Proof. unfold sample_value. simpl rev. apply int_of_bits_app. Qed.

Lemma sample_value_testbit (key : list bool) (q : nat) :
  N.testbit (sample_value key) (N.of_nat q) = nth q key false.
Proof.
  revert q. induction key as [|b r IH]; intro q.
  - unfold sample_value, int_of_bits. simpl. destruct q; reflexivity.
  - rewrite sample_value_cons. destruct q as [|q].
    + simpl N.of_nat. apply N.testbit_0_r.
    + rewrite Nat2N.inj_succ. simpl nth. rewrite <- IH. apply N.testbit_succ_r.
Qed.

Lemma sample_value_lt (key : list bool) : (sample_value key < 2 ^ N.of_nat (length key))%N.
Proof.
  apply lt_pow2_bits. intros k Hk.
  replace k with (N.of_nat (N.to_nat k)) by apply N2Nat.id.
  rewrite sample_value_testbit. apply nth_overflow. lia.
Qed.

Theorem sample_roundtrip (ord : string) (key : list bool) :
  key <> [] -> sample_key ord (length key) (sample_value key) = key.
Proof.
  intro Hne. assert (Hn : 0 < length key) by (destruct key; [contradiction|simpl; lia]).
  unfold sample_key. rewrite binstr_other by (exact Hn || apply sample_value_lt || reflexivity).
  apply (nth_ext _ _ false false).
  - apply qubit0_first_length.
  - intros q Hq. rewrite qubit0_first_length in Hq. rewrite qubit0_first_nth by exact Hq.
    apply sample_value_testbit.
Qed.
Close Scope string_scope.

(* ================================================================== sampling chunks *)
Lemma list_sum_const_seq (f : nat -> nat) (c a q : nat) :
  (forall i, a <= i < a + q -> f i = c) -> list_sum (map f (seq a q)) = q * c.
Proof.
  revert a. induction q as [|q IH]; intros a H; [reflexivity|].
  simpl. rewrite H by lia. rewrite IH; [lia|]. intros i Hi. apply H. lia.
Qed.

(* the chunks drawn by the sampling loop add up to n_shots, for every n_shots and every chunk size *)
Theorem chunk_sizes_total (n c : nat) : 0 < c -> list_sum (chunk_sizes n c) = n.
Proof.
  intro Hc. unfold chunk_sizes. rewrite Nat.add_1_r, seq_S, map_app, list_sum_app. simpl.
  rewrite Nat.eqb_refl.
  rewrite (list_sum_const_seq _ c 0 (n / c)).
  - rewrite (Nat.div_mod n c) at 3 by lia. lia.
  - intros i Hi. destruct (Nat.eqb_spec i (n / c)); [lia|reflexivity].
Qed.

(* ================================================================== dispatch tables *)
Lemma smem_In (s : string) (l : list string) : smem s l = true <-> In s l.
Proof.
  unfold smem. rewrite existsb_exists. split.
  - intros [x [Hx E]]. apply String.eqb_eq in E. subst. exact Hx.
  - intro H. exists s. split; [exact H|apply String.eqb_refl].
Qed.

Lemma find_branch_some (d : dispatch) (name : string) (b : branch) :
  find_branch d name = Some b -> In b (dp_branches d) /\ In name (br_names b).
Proof.
  unfold find_branch. intro H. apply find_some in H. destruct H as [H1 H2].
  split; [exact H1|apply smem_In; exact H2].
Qed.

Lemma rename_keeps_C (d : dispatch) (name : string) (n : nat) :
  cnone_ok d = true -> starts_with_C name = true -> starts_with_C (apply_rename (dp_rename d) name n) = true.
Proof.
  unfold cnone_ok, apply_rename. intros H HC. apply andb_true_iff in H. destruct H as [_ H].
  destruct (Nat.ltb 1 n); [|exact HC].
  destruct (find (fun r => String.eqb (rn_from r) name) (dp_rename d)) as [r|] eqn:E; [|exact HC].
  apply find_some in E. destruct E as [Hin _].
  rewrite forallb_forall in H. apply H. exact Hin.
Qed.

Lemma cnone_branch_no_C (d : dispatch) (b : branch) (name : string) :
  cnone_ok d = true -> In b (dp_branches d) -> br_ctrl b = CNone -> In name (br_names b) -> starts_with_C name = false.
Proof.
  unfold cnone_ok. intros H Hb Ec Hn. apply andb_true_iff in H. destruct H as [H _].
  rewrite forallb_forall in H. specialize (H b Hb). rewrite Ec in H.
  rewrite forallb_forall in H. specialize (H name Hn). apply negb_true_iff in H. exact H.
Qed.

(* with ONE control every branch that accepts a "C..." name passes the control on *)
Theorem controls_single (d : dispatch) (name : string) (c : Z) (used : list Z) :
  cnone_ok d = true -> starts_with_C name = true -> controls_used d name [c] = Some used -> used = [c].
Proof.
  intros Hok HC. unfold controls_used.
  assert (E : apply_rename (dp_rename d) name (length [c]) = name) by reflexivity.
  rewrite E. destruct (find_branch d name) as [b|] eqn:Hb; [|discriminate].
  intro H. inversion H; subst; clear H.
  destruct (find_branch_some _ _ _ Hb) as [Hin Hnm].
  destruct (br_ctrl b) eqn:Ec; try reflexivity.
  exfalso. rewrite (cnone_branch_no_C d b name Hok Hin Ec Hnm) in HC. discriminate.
Qed.

(* with any number of controls *)
Theorem controls_all (d : dispatch) (name : string) (cs used : list Z) :
  all_controls_ok d = true -> cs <> [] -> starts_with_C name = true ->
  controls_used d name cs = Some used -> used = cs.
Proof.
  unfold all_controls_ok. intros Hok Hne HC. apply andb_true_iff in Hok. destruct Hok as [Hn Hf].
  unfold controls_used.
  pose proof (rename_keeps_C d name (length cs) Hn HC) as HC'.
  destruct (find_branch d (apply_rename (dp_rename d) name (length cs))) as [b|] eqn:Hb; [|discriminate].
  intro H. inversion H; subst; clear H.
  destruct (find_branch_some _ _ _ Hb) as [Hin Hnm].
  destruct (br_ctrl b) eqn:Ec; try reflexivity.
  - exfalso. rewrite (cnone_branch_no_C d b _ Hn Hin Ec Hnm) in HC'. discriminate.
  - destruct cs as [|c r]; [contradiction|]. destruct r as [|c2 r]; [reflexivity|exfalso].
    unfold cfirst_ok in Hf. rewrite forallb_forall in Hf. specialize (Hf b Hin). rewrite Ec in Hf.
    rewrite forallb_forall in Hf. specialize (Hf _ Hnm).
    apply andb_true_iff in Hf. destruct Hf as [Hfrom Hto]. apply negb_true_iff in Hto.
    unfold apply_rename in Hfrom, Hto. simpl length in Hfrom, Hto.
    change (Nat.ltb 1 (Datatypes.S (Datatypes.S (length r)))) with true in Hfrom, Hto. cbv iota in Hfrom, Hto.
    destruct (find (fun r0 => String.eqb (rn_from r0) name) (dp_rename d)) as [r0|] eqn:E.
    + apply find_some in E. destruct E as [Hr0 _].
      assert (Hc : smem (rn_to r0) (map rn_to (dp_rename d)) = true).
      { apply smem_In. apply in_map. exact Hr0. }
      rewrite Hc in Hto. discriminate.
    + apply smem_In in Hfrom. apply in_map_iff in Hfrom. destruct Hfrom as [r1 [E1 Hr1]].
      pose proof (find_none _ _ E r1 Hr1) as Hc. simpl in Hc. rewrite E1, String.eqb_refl in Hc. discriminate.
  - destruct cs as [|c [|c2 r]]; reflexivity.
Qed.

(* ================================================================== list helpers *)
Lemma combine_map_same {X Y Z} (f : X -> Y) (g : X -> Z) (l : list X) :
  combine (map f l) (map g l) = map (fun x => (f x, g x)) l.
Proof. induction l as [|x r IH]; simpl; [reflexivity|]. rewrite IH. reflexivity. Qed.

Lemma filter_true {X} (l : list X) : filter (fun _ => true) l = l.
Proof. induction l as [|x r IH]; simpl; [reflexivity|]. rewrite IH. reflexivity. Qed.

Lemma nth_map_seq {X} (f : nat -> X) (m i : nat) (d : X) : i < m -> nth i (map f (seq 0 m)) d = f i.
Proof.
  intro H. rewrite (nth_indep _ d (f 0)) by (rewrite map_length, seq_length; exact H).
  rewrite (map_nth f (seq 0 m) 0 i), seq_nth by exact H. reflexivity.
Qed.

Lemma pow2_pos (n : nat) : 0 < Nat.pow 2 n.
Proof. induction n; simpl; lia. Qed.

Lemma lt_pow2_nat (n : nat) (x : N) : (x < 2 ^ N.of_nat n)%N <-> N.to_nat x < Nat.pow 2 n.
Proof. rewrite <- pow2_nat. lia. Qed.

Section BackendProofs.
  Variable S : KS.
  Add Ring kringb : (k_ring S).
  Open Scope K_scope.
  Notation K := (K S).
  Notation A := (A S).
  Notation state := (state S).

  (* ================================================================ controls *)
  (* "C..." = the base gate applied iff ALL listed controls are 1, for any number of controls *)
  Theorem ctrl_den_spec (g : gate S) (psi : state) (x : N) :
    ((forall c, In c (gctrl g) -> bit x c = true) -> den_gate S g psi x = den_base S (gbase g) psi x)
    /\ ((exists c, In c (gctrl g) /\ bit x c = false) -> den_gate S g psi x = psi x).
  Proof.
    unfold den_gate, ctrl, allset. split.
    - intro H. assert (E : forallb (bit x) (gctrl g) = true) by (apply forallb_forall; exact H).
      rewrite E. reflexivity.
    - intros [c [Hc Hb]]. destruct (forallb (bit x) (gctrl g)) eqn:E; [|reflexivity].
      rewrite forallb_forall in E. rewrite (E c Hc) in Hb. discriminate.
  Qed.

  (* ================================================================ idle qubits *)
  Definition zero_on (q : N) (psi : state) : Prop := forall x, bit x q = true -> psi x = 0.

  Lemma den_gate_idle (g : gate S) (q : N) (psi : state) :
    ~ In q (base_qubits S (gbase g)) -> zero_on q psi -> zero_on q (den_gate S g psi).
  Proof.
    intros Hq Hz x Hx. unfold den_gate, ctrl. destruct (allset x (gctrl g)); [|apply Hz; exact Hx].
    destruct (gbase g) as [u t|q1 q2|a q1 q2]; simpl in *.
    - assert (Hne : t <> q) by (intro E; apply Hq; left; exact E).
      unfold app1. rewrite (Hz x Hx), (Hz (flip x t)) by (rewrite bit_flip_other by exact Hne; exact Hx).
      destruct (bit x t); ring.
    - unfold app_swap. apply Hz. rewrite swapq_other; [exact Hx| |]; intro E; apply Hq; subst; auto.
    - unfold app_xx. rewrite (Hz x Hx), (Hz (flip2 x q1 q2)).
      + ring.
      + rewrite flip2_other; [exact Hx| |]; intro E; apply Hq; subst; auto.
  Qed.

  (* a circuit none of whose gates targets qubit q leaves it in |0> (q may be used as a control) *)
  Theorem idle_qubits_kept (c : circuit S) (q : N) (psi : state) :
    Forall (fun g => ~ In q (base_qubits S (gbase g))) c -> zero_on q psi -> zero_on q (den S c psi).
  Proof.
    revert psi. induction c as [|g r IH]; intros psi H Hz; [exact Hz|].
    inversion H; subst. rewrite den_cons. apply IH; [assumption|]. apply den_gate_idle; assumption.
  Qed.

  Lemma ket0_zero_on (q : N) : zero_on q (ket S 0).
  Proof.
    intros x Hx. unfold ket. destruct (N.eqb_spec x 0) as [->|]; [|reflexivity].
    unfold bit in Hx. rewrite N.bits_0 in Hx. discriminate.
  Qed.

  (* ================================================================ frequencies *)
  Lemma enumerate_map_seq (f : nat -> K) (m : nat) :
    enumerate (map f (seq 0 m)) = map (fun i => (N.of_nat i, f i)) (seq 0 m).
  Proof. unfold enumerate. rewrite map_length, seq_length. apply combine_map_same. Qed.

  Lemma sv_to_freqs_all (ord : string) (n : nat) (f : nat -> K) :
    sv_to_freqs S ord (fun _ => true) (map f (seq 0 (Nat.pow 2 n)))
    = map (fun i => (int_to_binstr ord n (N.of_nat i) true, abs2 S (f i))) (seq 0 (Nat.pow 2 n)).
  Proof.
    unfold sv_to_freqs. rewrite filter_true, map_length, seq_length, Nat.log2_pow2 by lia.
    rewrite enumerate_map_seq, map_map. reflexivity.
  Qed.

  (* the threshold only removes entries *)
  Lemma sv_to_freqs_threshold (ord : string) (keep : K -> bool) (sv : list K) :
    sv_to_freqs S ord keep sv = filter (fun p => keep (snd p)) (sv_to_freqs S ord (fun _ => true) sv).
  Proof. unfold sv_to_freqs. rewrite filter_true. reflexivity. Qed.

  Theorem freqs_threshold_spec (ord : string) (keep : K -> bool) (sv : list K) (b : list bool) (f : K) :
    In (b, f) (sv_to_freqs S ord keep sv) <-> In (b, f) (sv_to_freqs S ord (fun _ => true) sv) /\ keep f = true.
  Proof. rewrite sv_to_freqs_threshold, filter_In. reflexivity. Qed.

  Lemma freq_total_app (a b : list (list bool * K)) : freq_total S (a ++ b) = freq_total S a + freq_total S b.
  Proof. unfold freq_total. induction a as [|p r IH]; simpl; [ring|]. rewrite IH. ring. Qed.

  Lemma freq_total_seq (key : nat -> list bool) (a : nat -> K) (m : nat) :
    freq_total S (map (fun i => (key i, a i)) (seq 0 m)) = ksum S a m.
  Proof.
    induction m as [|k IH]; [reflexivity|].
    rewrite seq_S, map_app, freq_total_app, IH. simpl. ring.
  Qed.

  (* ---- cirq: big-endian vector, advertised lsq_first ---- *)
  Lemma cirq_freqs_all (n : nat) (psi : state) :
    sv_to_freqs S "lsq_first" (fun _ => true) (cirq_sv S n psi)
    = map (fun i => (int_to_binstr "lsq_first" n (N.of_nat i) true, born S psi (brev n (N.of_nat i))))
          (seq 0 (Nat.pow 2 n)).
  Proof. unfold cirq_sv. rewrite sv_to_freqs_all. reflexivity. Qed.

  (* the frequency stored under the string that lists qubit 0 first is |psi(x)|^2 ... *)
  Theorem cirq_freqs_are_born (n : nat) (psi : state) (x : N) :
    0 < n -> (x < 2 ^ N.of_nat n)%N ->
    In (qubit0_first n x, born S psi x) (sv_to_freqs S "lsq_first" (fun _ => true) (cirq_sv S n psi)).
  Proof.
    intros Hn Hx. rewrite cirq_freqs_all. apply in_map_iff. exists (N.to_nat (brev n x)).
    rewrite N2Nat.id, brev_invol by exact Hx. split.
    - f_equal. apply (binstr_key_of_state n x Hn Hx).
    - apply in_seq. split; [lia|]. simpl. apply lt_pow2_nat. apply brev_lt.
  Qed.

  (* ... and it is the only entry under that key *)
  Theorem cirq_freqs_unique (n : nat) (psi : state) (x : N) (f : K) :
    0 < n -> (x < 2 ^ N.of_nat n)%N ->
    In (qubit0_first n x, f) (sv_to_freqs S "lsq_first" (fun _ => true) (cirq_sv S n psi)) -> f = born S psi x.
  Proof.
    intros Hn Hx. rewrite cirq_freqs_all. intro H. apply in_map_iff in H. destruct H as [i [E Hi]].
    apply in_seq in Hi. inversion E as [[E1 E2]]; clear E.
    assert (Hlt : (N.of_nat i < 2 ^ N.of_nat n)%N) by (apply lt_pow2_nat; rewrite Nat2N.id; lia).
    rewrite binstr_lsq in E1 by assumption.
    rewrite <- (brev_invol n (N.of_nat i) Hlt), msb_first_brev in E1.
    apply qubit0_first_inj in E1; [|apply brev_lt|exact Hx]. rewrite E1. reflexivity.
  Qed.

  (* the frequencies add up to the squared norm *)
  Definition brev_total (n : nat) (x : N) : N := if N.ltb x (2 ^ N.of_nat n) then brev n x else x.

  Theorem cirq_freqs_total (n : nat) (psi : state) :
    freq_total S (sv_to_freqs S "lsq_first" (fun _ => true) (cirq_sv S n psi)) = norm2 S n psi.
  Proof.
    rewrite cirq_freqs_all, freq_total_seq. unfold norm2, inner.
    rewrite <- (ksum_reindex S (brev_total n) (fun x => kconj (psi x) * psi x) n).
    - apply ksum_ext. intros i Hi. unfold brev_total, born.
      assert (Hlt : (N.of_nat i < 2 ^ N.of_nat n)%N) by (apply lt_pow2_nat; rewrite Nat2N.id; exact Hi).
      apply N.ltb_lt in Hlt. rewrite Hlt. reflexivity.
    - intro x. unfold brev_total. destruct (N.ltb x (2 ^ N.of_nat n)) eqn:E.
      + pose proof (brev_lt n x) as Hb. apply N.ltb_lt in Hb. rewrite Hb. apply brev_invol. apply N.ltb_lt. exact E.
      + rewrite E. reflexivity.
    - intros x Hx. unfold brev_total. apply N.ltb_lt in Hx. rewrite Hx. apply brev_lt.
  Qed.

  (* ---- a little-endian vector under "msq_first" (what the sympy backend would have to advertise) ---- *)
  Theorem msq_freqs_are_born (n : nat) (psi : state) (x : N) :
    0 < n -> (x < 2 ^ N.of_nat n)%N ->
    In (qubit0_first n x, born S psi x) (sv_to_freqs S "msq_first" (fun _ => true) (sympy_sv S n psi)).
  Proof.
    intros Hn Hx. unfold sympy_sv, tab. rewrite sv_to_freqs_all. apply in_map_iff. exists (N.to_nat x).
    rewrite N2Nat.id. split.
    - f_equal. apply (binstr_key_of_state n x Hn Hx).
    - apply in_seq. split; [lia|]. simpl. apply lt_pow2_nat. exact Hx.
  Qed.

  Theorem msq_freqs_total (n : nat) (psi : state) :
    freq_total S (sv_to_freqs S "msq_first" (fun _ => true) (sympy_sv S n psi)) = norm2 S n psi.
  Proof. unfold sympy_sv, tab. rewrite sv_to_freqs_all, freq_total_seq. reflexivity. Qed.

  (* ================================================================ advertised statevector order *)
  Theorem advertised_order_cirq (n : nat) (psi : state) (x : N) :
    (x < 2 ^ N.of_nat n)%N -> read_sv S "lsq_first" n (cirq_sv S n psi) x = psi x.
  Proof.
    intro Hx. unfold read_sv, cirq_sv. simpl String.eqb. cbv iota.
    rewrite nth_map_seq by (apply lt_pow2_nat; apply brev_lt).
    rewrite N2Nat.id, brev_invol by exact Hx. reflexivity.
  Qed.

  Theorem advertised_order_little_endian (ord : string) (n : nat) (psi : state) (x : N) :
    String.eqb ord "lsq_first" = false ->
    (x < 2 ^ N.of_nat n)%N -> read_sv S ord n (sympy_sv S n psi) x = psi x.
  Proof.
    intros E Hx. unfold read_sv, sympy_sv, tab. rewrite E.
    rewrite nth_map_seq by (apply lt_pow2_nat; exact Hx). rewrite N2Nat.id. reflexivity.
  Qed.

  (* reading a little-endian vector as lsq_first gives the amplitude of the bit-reversed basis state *)
  Theorem advertised_order_mismatch (n : nat) (psi : state) (x : N) :
    (x < 2 ^ N.of_nat n)%N -> read_sv S "lsq_first" n (sympy_sv S n psi) x = psi (brev n x).
  Proof.
    intro Hx. unfold read_sv, sympy_sv, tab. simpl String.eqb. cbv iota.
    rewrite nth_map_seq by (apply lt_pow2_nat; apply brev_lt). rewrite N2Nat.id. reflexivity.
  Qed.

  (* initial states: each backend reads the supplied vector in its own convention *)
  Theorem cirq_initial_roundtrip (n : nat) (psi : state) (x : N) :
    (x < 2 ^ N.of_nat n)%N -> cirq_initial S n (cirq_sv S n psi) x = psi x.
  Proof. exact (advertised_order_cirq n psi x). Qed.

  (* ================================================================ cirq's power gates *)
  Theorem zpow_is_phase (a : A) : zpow_matrix S a 0 = mPHASE S a.
  Proof. unfold zpow_matrix, mPHASE, cis_z. simpl. apply mat2_eq; simpl; ring. Qed.

  Theorem xxpow_is_xx (a : A) (q1 q2 : N) (psi : state) (x : N) :
    app_xxpow S a (-1) q1 q2 psi x = app_xx S a q1 q2 psi x.
  Proof.
    unfold app_xxpow, app_xx, xxpow_cI, xxpow_cXX, cis_z, cosh_, misinh. simpl. ring.
  Qed.

  (* ================================================================ sympy's operator product *)
  Theorem sympy_product_order (c : circuit S) (psi : state) :
    sympy_product S true true c psi = den S c psi.
  Proof.
    unfold sympy_product. revert psi. induction c as [|g r IH]; intro psi; [reflexivity|].
    simpl rev. rewrite fold_left_app. simpl fold_left. unfold op_mul at 1.
    rewrite IH. reflexivity.
  Qed.

  (* the other consistent way of writing the loop: iterate forward, multiply on the left *)
  Lemma sympy_product_fwd_acc (c : circuit S) (acc : state -> state) (psi : state) :
    fold_left (fun a g => op_mul S (den_gate S g) a) c acc psi = den S c (acc psi).
  Proof.
    revert acc. induction c as [|g r IH]; intro acc; [reflexivity|].
    simpl fold_left. rewrite IH. reflexivity.
  Qed.

  Theorem sympy_product_order_fwd (c : circuit S) (psi : state) :
    sympy_product S false false c psi = den S c psi.
  Proof. unfold sympy_product. apply sympy_product_fwd_acc. Qed.
End BackendProofs.

(* ================================================================== rewriting lemmas for regenerated matrices *)
Section MatrixShapes.
  Variable S : KS.
  Add Ring kringm : (k_ring S).
  Open Scope K_scope.

  Lemma mi_sinh (a : A S) : (- ki) * sinh_ S a = misinh S a.
  Proof. unfold sinh_. transitivity ((- (ki * ki)) * misinh S a); [ring|]. rewrite k_ii. ring. Qed.
  Lemma cis_z_0 (a : A S) : cis_z S a 0 = 1.
  Proof. reflexivity. Qed.
  Lemma cis_z_1 (a : A S) : cis_z S a 1 = cis a.
  Proof. unfold cis_z. simpl. ring. Qed.
  Lemma cis_z_m1 (a : A S) : cis_z S a (-1) = cis (aopp a).
  Proof. unfold cis_z. simpl. ring. Qed.
  Lemma cis_z_2 (a : A S) : cis_z S a 2 = cis a * cis a.
  Proof. unfold cis_z. simpl. ring. Qed.
  Lemma cis_z_m2 (a : A S) : cis_z S a (-2) = cis (aopp a) * cis (aopp a).
  Proof. unfold cis_z. simpl. ring. Qed.

  (* norm preservation carries over to the frequencies: they add up to the squared norm of the input *)
  Theorem cirq_freqs_total_circuit (n : nat) (c : circuit S) (psi : state S) :
    Forall (gate_in S n) c ->
    freq_total S (sv_to_freqs S "lsq_first" (fun _ => true) (cirq_sv S n (den S c psi))) = norm2 S n psi.
  Proof. intro H. rewrite cirq_freqs_total. apply den_unit. exact H. Qed.
End MatrixShapes.
