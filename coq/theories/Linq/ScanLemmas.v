(* ScanLemmas.v — list-level facts shared by the soundness proofs of merge_rotations and
   remove_redundant_gates (MergeProofs.v, RedundantProofs.v): what [last_touch] returns, why the
   comparison BY VALUE of the "last gates" of all qubits of a gate forces them to be one and the same
   kept gate, and the validity predicate [gate_okb] established by Gate.__init__ (regate). *)
From Coq Require Import String ZArith List Bool Lia.
From Tangelo Require Import Linq.GateModel Linq.CircuitModel Linq.CircuitProofs.
Import ListNotations.
Open Scope list_scope.

Lemma zlist_eqb_eq a : forall b, zlist_eqb a b = true -> a = b.
Proof.
  induction a as [|x a IH]; intros [|y b] H; simpl in H; try discriminate; [reflexivity|].
  apply andb_true_iff in H. destruct H as [H1 H2]. apply Z.eqb_eq in H1. subst. f_equal. auto.
Qed.

Lemma ozlist_eqb_eq a b : ozlist_eqb a b = true -> a = b.
Proof.
  destruct a, b; simpl; intro H; try discriminate; [|reflexivity]. f_equal. apply zlist_eqb_eq. exact H.
Qed.

Lemma zmem_true_In z l : zmem z l = true <-> In z l.
Proof.
  induction l as [|y r IH]; simpl; [split; [discriminate|tauto]|].
  rewrite orb_true_iff, Z.eqb_eq, IH. split; intros [H|H]; auto.
Qed.

Lemma zmem_false_nIn z l : zmem z l = false <-> ~ In z l.
Proof. rewrite <- zmem_true_In. destruct (zmem z l); split; congruence. Qed.

Lemma znodup_NoDup' l : znodup l = true -> NoDup l.
Proof.
  induction l as [|y r IH]; simpl; intro H; [constructor|].
  apply andb_true_iff in H. destruct H as [H1 H2]. constructor; [|auto].
  apply negb_true_iff in H1. apply zmem_false_nIn. exact H1.
Qed.

Lemma app_eq_len {X} (a a' : list X) x x' b b' :
  a ++ x :: b = a' ++ x' :: b' -> length a = length a' -> a = a' /\ x = x' /\ b = b'.
Proof.
  revert a'. induction a as [|y a IH]; intros [|y' a'] H L; simpl in *; try discriminate.
  - inversion H; auto.
  - inversion H; subst. destruct (IH a' H2 ltac:(lia)) as (-> & -> & ->). auto.
Qed.

Lemma nth_error_split_mid {X} (pre : list X) g post : nth_error (pre ++ g :: post) (length pre) = Some g.
Proof. induction pre; simpl; auto. Qed.

Lemma nth_error_after {X} (pre : list X) g post p h :
  nth_error (pre ++ g :: post) p = Some h -> length pre < p -> In h post.
Proof.
  revert p. induction pre as [|y pre IH]; intros p H L; simpl in *.
  - destruct p as [|p]; [lia|]. simpl in H. eapply nth_error_In; eassumption.
  - destruct p as [|p]; [lia|]. simpl in H. apply (IH p H). lia.
Qed.

Lemma nth_error_before {X} (pre : list X) g post p h :
  nth_error (pre ++ g :: post) p = Some h -> p < length pre -> In h pre.
Proof.
  intros H L. rewrite nth_error_app1 in H by exact L. eapply nth_error_In; eassumption.
Qed.

Section Scan.
  Variable Ang : Type.
  Notation pgate := (pgate Ang).
  Notation last_touch := (last_touch Ang).

  Definition untouched (q : Z) (h : pgate) : Prop := zmem q (gate_qubits h) = false.

  Lemma last_touch_none kept q : last_touch kept q = None -> Forall (untouched q) kept.
  Proof.
    induction kept as [|g r IH]; simpl; intro H; [constructor|].
    destruct (last_touch r q) as [i|]; [discriminate|].
    destruct (zmem q (gate_qubits g)) eqn:E; [discriminate|]. constructor; [exact E | apply IH; reflexivity].
  Qed.

  Lemma last_touch_split kept : forall q i,
    last_touch kept q = Some i ->
    exists pre g post, kept = pre ++ g :: post /\ length pre = i
                       /\ zmem q (gate_qubits g) = true /\ Forall (untouched q) post.
  Proof.
    induction kept as [|g r IH]; simpl; intros q i H; [discriminate|].
    destruct (last_touch r q) as [j|] eqn:E.
    - inversion H; subst. destruct (IH q j E) as (pre & g' & post & -> & L & Hq & Hp).
      exists (g :: pre), g', post. simpl. auto.
    - destruct (zmem q (gate_qubits g)) eqn:Eg; [|discriminate]. inversion H; subst.
      exists [], g, r. simpl. repeat split; auto. apply last_touch_none. exact E.
  Qed.

  (* the heart of both passes: if, for every qubit of the list qs, the last kept gate acting on it acts
     exactly on qs, then all these last gates are ONE kept gate, and nothing kept after it acts on qs *)
  Lemma same_last kept (qs : list Z) :
    (forall q, In q qs -> exists p h, last_touch kept q = Some p /\ nth_error kept p = Some h /\ gate_qubits h = qs) ->
    forall q0 p0, In q0 qs -> last_touch kept q0 = Some p0 ->
    exists pre g post, kept = pre ++ g :: post /\ length pre = p0 /\ gate_qubits g = qs
                       /\ Forall (fun h => forall q, In q qs -> untouched q h) post.
  Proof.
    intros Hall q0 p0 Hq0 H0.
    destruct (last_touch_split kept q0 p0 H0) as (pre & g & post & Hk & L & Hg & Hpost).
    assert (Hgq : gate_qubits g = qs).
    { destruct (Hall q0 Hq0) as (p & h & Hp & Hn & Hh). rewrite H0 in Hp. assert (p = p0) by congruence. subst p.
      rewrite Hk, <- L, nth_error_split_mid in Hn. replace g with h by congruence. exact Hh. }
    exists pre, g, post. repeat split; auto.
    apply Forall_forall. intros h Hin q Hq.
    destruct (Hall q Hq) as (p & h' & Hp & Hn & Hh').
    destruct (last_touch_split kept q p Hp) as (pre' & g' & post' & Hk' & L' & Hg' & Hpost').
    assert (Hh'g : h' = g').
    { rewrite Hk', <- L', nth_error_split_mid in Hn. congruence. }
    subst h'.
    assert (Hpp : p = p0).
    { destruct (Nat.lt_trichotomy p p0) as [Hlt|[He|Hgt]]; [|exact He|].
      - (* g' sits before g: then g is in post', untouched by q; but q is a qubit of g *)
        exfalso. assert (Hin' : In g post').
        { apply (nth_error_after pre' g' post' p0 g); [|lia].
          rewrite <- Hk', Hk, <- L. apply nth_error_split_mid. }
        rewrite Forall_forall in Hpost'. specialize (Hpost' g Hin'). unfold untouched in Hpost'.
        rewrite Hgq in Hpost'. apply zmem_false_nIn in Hpost'. contradiction.
      - (* g' sits after g: g' is in post, untouched by q0; but q0 is a qubit of g' *)
        exfalso. assert (Hin' : In g' post).
        { apply (nth_error_after pre g post p g'); [|lia].
          rewrite <- Hk, Hk', <- L'. apply nth_error_split_mid. }
        rewrite Forall_forall in Hpost. specialize (Hpost g' Hin'). unfold untouched in Hpost.
        rewrite Hh' in Hpost. apply zmem_false_nIn in Hpost. contradiction. }
    subst p. rewrite Hk in Hk'.
    destruct (app_eq_len pre pre' g g' post post' Hk' ltac:(lia)) as (_ & _ & <-).
    rewrite Forall_forall in Hpost'. apply Hpost'. exact Hin.
  Qed.

  Lemma set_nth_split pre g post (x : pgate) : set_nth Ang (pre ++ g :: post) (length pre) x = pre ++ x :: post.
  Proof. induction pre as [|y pre IH]; simpl; [reflexivity | rewrite IH; reflexivity]. Qed.

  Lemma del_nth_split pre g post : del_nth Ang (pre ++ g :: post) (length pre) = pre ++ post.
  Proof. induction pre as [|y pre IH]; simpl; [reflexivity | rewrite IH; reflexivity]. Qed.

  (* ---- validity established by Gate.__init__: non-negative pairwise distinct indices; a control list
     only under a name starting with C ---- *)
  Definition gate_okb (g : pgate) : bool :=
    forallb (Z.leb 0) (gate_qubits g) && znodup (gate_qubits g)
    && match pcontrol g with Some _ => starts_with_C (pname g) | None => true end.

  Lemma idx_ok_IInt l : idx_ok (map IInt l) = forallb (Z.leb 0) l.
  Proof. induction l as [|z l IH]; simpl; [reflexivity | rewrite IH; reflexivity]. Qed.

  Lemma idx_vals_IInt (l : list Z) : idx_vals (map IInt l) = l.
  Proof. induction l as [|z l IH]; simpl; [reflexivity | rewrite IH; reflexivity]. Qed.

  Lemma regate_okb T (g g' : pgate) : regate T g = Ok g' -> gate_okb g = true.
  Proof.
    unfold regate, mk_gate, gate_okb, gate_qubits. destruct g as [name t c p v]; simpl.
    rewrite idx_ok_IInt, idx_vals_IInt.
    destruct (forallb (Z.leb 0) t) eqn:Et; simpl; [|discriminate].
    destruct c as [c|]; simpl.
    - destruct (starts_with_C name) eqn:Es; simpl; [|discriminate].
      rewrite idx_ok_IInt, idx_vals_IInt.
      destruct (forallb (Z.leb 0) c) eqn:Ec; simpl; [|discriminate].
      destruct (znodup (t ++ c)) eqn:En; simpl; [|discriminate].
      intros _. rewrite ?forallb_app, ?Et, ?Ec, ?En. reflexivity.
    - destruct (znodup t) eqn:En; simpl; [|discriminate]. intros _. rewrite ?Et, ?En. reflexivity.
  Qed.

  Lemma add_all_okb T gs : forall c c', add_all Ang T c gs = Ok c' -> Forall (fun g => gate_okb g = true) gs.
  Proof.
    induction gs as [|g r IH]; simpl; intros c c' H; [constructor|].
    destruct (add_gate Ang T c g) as [c1 [u|e]] eqn:Ha; [|discriminate].
    constructor; [|eapply IH; eassumption].
    unfold add_gate in Ha. destruct (regate T g) as [gate|] eqn:Hg; [|inversion Ha].
    eapply regate_okb; eassumption.
  Qed.

  (* every gate of a circuit accepted by the constructor is valid *)
  Lemma build_okb T gs nq c : build Ang T gs nq = Ok c -> Forall (fun g => gate_okb g = true) gs.
  Proof. unfold build. apply add_all_okb. Qed.

  Lemma okb_nonneg g q : gate_okb g = true -> In q (gate_qubits g) -> (0 <= q)%Z.
  Proof.
    unfold gate_okb. intros H Hq. apply andb_true_iff in H. destruct H as [H _].
    apply andb_true_iff in H. destruct H as [H _]. rewrite forallb_forall in H.
    specialize (H q Hq). lia.
  Qed.

  Lemma okb_nodup g : gate_okb g = true -> NoDup (gate_qubits g).
  Proof.
    unfold gate_okb. intros H. apply andb_true_iff in H. destruct H as [H _].
    apply andb_true_iff in H. destruct H as [_ H]. apply znodup_NoDup'. exact H.
  Qed.

  Lemma okb_ctrl g : gate_okb g = true -> match pcontrol g with Some _ => starts_with_C (pname g) = true | None => True end.
  Proof.
    unfold gate_okb. intros H. apply andb_true_iff in H. destruct H as [_ H].
    destruct (pcontrol g); [exact H | exact I].
  Qed.

  (* validity depends on the name (first letter), target and control only *)
  Lemma okb_same_site (g h : pgate) :
    pname g = pname h -> ptarget g = ptarget h -> pcontrol g = pcontrol h -> gate_okb g = gate_okb h.
  Proof. unfold gate_okb, gate_qubits. intros -> -> ->. reflexivity. Qed.
End Scan.
