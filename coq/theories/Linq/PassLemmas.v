(* PassLemmas.v — semantic facts behind the simplification passes, for all angles / controls:
   adjacent same-site rotations merge exactly; a rotation by 2*pi is minus the identity (a global
   phase when uncontrolled, NOT when controlled); rotation by 4*pi is the identity. *)
From Coq Require Import NArith List Bool Lia.
From Tangelo Require Import Num.KStruct QSem.State QSem.StateLemmas QSem.GateLemmas QSem.CircuitLemmas QSem.Commute.
Import ListNotations.

Section PassLemmas.
  Variable S : KS.
  Add Ring kring : (k_ring S).
  Open Scope K_scope.
  Notation A := (A S).

  Inductive rot : Type := RotX | RotY | RotZ | RotP.
  Definition rot_g1 (k : rot) (a : A) : g1 S :=
    match k with RotX => GRX a | RotY => GRY a | RotZ => GRZ a | RotP => GPHASE a end.
  Definition rot_gate (k : rot) (a : A) (q : N) (cs : list N) : gate S := Gate (B1 (rot_g1 k a) q) cs.

  Lemma rot_mat_add k a b : mmul S (mat_of S (rot_g1 k b)) (mat_of S (rot_g1 k a)) = mat_of S (rot_g1 k (aadd a b)).
  Proof. destruct k; simpl; [apply mRX_add | apply mRY_add | apply mRZ_add | apply mPHASE_add]. Qed.

  (* merging two successive rotations of the same kind on the same target and controls is exact *)
  Theorem merge_adjacent k a b q cs psi :
    ~ In q cs ->
    den_gate S (rot_gate k b q cs) (den_gate S (rot_gate k a q cs) psi) = den_gate S (rot_gate k (aadd a b) q cs) psi.
  Proof.
    intro Hq. unfold den_gate, rot_gate; simpl.
    rewrite ctrl_compose by (apply app1_local; exact Hq).
    apply ctrl_ext. intro s. rewrite app1_compose, rot_mat_add. reflexivity.
  Qed.

  (* ... also when other gates acting on other qubits sit in between *)
  Theorem merge_across k a b q cs (mid_ : circuit S) psi :
    ~ In q cs ->
    Forall (fun h => disjoint (gate_qubits S (rot_gate k b q cs)) (gate_qubits S h)) mid_ ->
    den S ([rot_gate k a q cs] ++ mid_ ++ [rot_gate k b q cs]) psi
    = den S ([rot_gate k (aadd a b) q cs] ++ mid_) psi.
  Proof.
    intros Hq Hd. simpl app. rewrite !den_cons, den_app, den_cons, den_nil.
    rewrite <- (den_gate_comm_circuit S _ mid_ _ Hd).
    rewrite merge_adjacent by exact Hq. reflexivity.
  Qed.

  (* rotation by 2*pi is minus the identity, by 4*pi the identity (RX, RY, RZ); PHASE has period 2*pi *)
  Lemma cosh_2pi : cosh_ S (a2pi S) = - (1).
  Proof.
    unfold cosh_. rewrite <- cis_conj, cis_2pi, kconj_opp, kconj_1.
    transitivity (- (khalf + khalf) : K S); [ring | rewrite k_half; reflexivity].
  Qed.
  Lemma misinh_2pi : misinh S (a2pi S) = 0.
  Proof. unfold misinh. rewrite <- cis_conj, cis_2pi, kconj_opp, kconj_1. ring. Qed.

  Definition mneg : mat2 S := Mat2 (- (1)) 0 0 (- (1)).
  Lemma mRX_2pi : mRX S (a2pi S) = mneg.
  Proof. unfold mRX, mneg. rewrite cosh_2pi, misinh_2pi. reflexivity. Qed.
  Lemma mRY_2pi : mRY S (a2pi S) = mneg.
  Proof. unfold mRY, mneg, sinh_. rewrite cosh_2pi, misinh_2pi. apply mat2_eq; simpl; ring. Qed.
  Lemma mRZ_2pi : mRZ S (a2pi S) = mneg.
  Proof. unfold mRZ, mneg. rewrite <- cis_conj, cis_2pi, kconj_opp, kconj_1. reflexivity. Qed.
  Lemma mPHASE_2pi : mPHASE S (a2pi S) = mid S.
  Proof. unfold mPHASE, mid. rewrite cis_2pi. apply mat2_eq; simpl; ring. Qed.

  (* uncontrolled: dropping a rotation by 2*pi changes the state by the global phase -1 *)
  Theorem rot_2pi_uncontrolled k q psi x :
    k <> RotP -> den_gate S (rot_gate k (a2pi S) q []) psi x = - psi x.
  Proof.
    intro Hk. unfold den_gate, rot_gate; simpl. rewrite ctrl_nil.
    destruct k; simpl; try congruence; rewrite ?mRX_2pi, ?mRY_2pi, ?mRZ_2pi;
      unfold app1, mneg; simpl; destruct (bit x q); ring.
  Qed.

  (* controlled: a rotation by 2*pi is NOT a global phase: it multiplies by -1 exactly the basis
     states whose controls are all 1, i.e. it is a (multi-)controlled Z-type phase on the controls *)
  Theorem rot_2pi_controlled k q cs psi x :
    k <> RotP -> den_gate S (rot_gate k (a2pi S) q cs) psi x = if allset x cs then - psi x else psi x.
  Proof.
    intro Hk. unfold den_gate, rot_gate, ctrl; simpl. destruct (allset x cs); [|reflexivity].
    destruct k; simpl; try congruence; rewrite ?mRX_2pi, ?mRY_2pi, ?mRZ_2pi;
      unfold app1, mneg; simpl; destruct (bit x q); ring.
  Qed.

  (* ---- what "the angle is a multiple of the period" buys, for all gates with any controls ---- *)
  (* cis a = 1  (a = 0 mod 4*pi): the rotation is the identity *)
  Lemma rot_mat_cis1 k a : cis a = 1 -> mat_of S (rot_g1 k a) = mid S.
  Proof.
    intro H. assert (H' : cis (aopp a) = (1 : K S)) by (rewrite <- cis_conj, H; apply kconj_1).
    destruct k; simpl.
    - unfold mRX, mid, cosh_, misinh. rewrite H, H'. apply mat2_eq; simpl; try ring;
        transitivity (khalf + khalf : K S); try ring; apply k_half.
    - unfold mRY, mid, sinh_, cosh_, misinh. rewrite H, H'. apply mat2_eq; simpl; try ring;
        transitivity (khalf + khalf : K S); try ring; apply k_half.
    - unfold mRZ, mid. rewrite H, H'. reflexivity.
    - unfold mPHASE, mid. rewrite H. apply mat2_eq; simpl; ring.
  Qed.

  Theorem rot_cis1_identity k a q cs psi : cis a = 1 -> den_gate S (rot_gate k a q cs) psi = psi.
  Proof.
    intro H. unfold den_gate, rot_gate; simpl. rewrite rot_mat_cis1 by exact H.
    rewrite (ctrl_ext S cs _ (fun s => s)); [apply ctrl_id | intro s; apply app1_id].
  Qed.

  (* cis a = -1 (a = 2*pi mod 4*pi): minus the identity on the controlled branch *)
  Lemma rot_mat_cism1 k a : k <> RotP -> cis a = - (1) -> mat_of S (rot_g1 k a) = mneg.
  Proof.
    intros Hk H. assert (H' : cis (aopp a) = - (1 : K S)) by (rewrite <- cis_conj, H, kconj_opp, kconj_1; reflexivity).
    destruct k; simpl; try congruence.
    - unfold mRX, mneg, cosh_, misinh. rewrite H, H'. apply mat2_eq; simpl; try ring;
        transitivity (- (khalf + khalf) : K S); try ring; rewrite k_half; ring.
    - unfold mRY, mneg, sinh_, cosh_, misinh. rewrite H, H'. apply mat2_eq; simpl; try ring;
        transitivity (- (khalf + khalf) : K S); try ring; rewrite k_half; ring.
    - unfold mRZ, mneg. rewrite H, H'. reflexivity.
  Qed.

  Theorem rot_cism1_sign k a q cs psi x :
    k <> RotP -> cis a = - (1) ->
    den_gate S (rot_gate k a q cs) psi x = if allset x cs then - psi x else psi x.
  Proof.
    intros Hk H. unfold den_gate, rot_gate, ctrl; simpl. destruct (allset x cs); [|reflexivity].
    rewrite rot_mat_cism1 by assumption. unfold app1, mneg; simpl. destruct (bit x q); ring.
  Qed.

  (* PHASE has period 2*pi exactly: cis a = -1 gives the identity as well *)
  Theorem phase_cism1_identity a q cs psi : cis a = - (1) -> den_gate S (rot_gate RotP a q cs) psi = psi.
  Proof.
    intro H. unfold den_gate, rot_gate; simpl.
    assert (E : mPHASE S a = mid S) by (unfold mPHASE, mid; rewrite H; apply mat2_eq; simpl; ring).
    rewrite E. rewrite (ctrl_ext S cs _ (fun s => s)); [apply ctrl_id | intro s; apply app1_id].
  Qed.
End PassLemmas.
