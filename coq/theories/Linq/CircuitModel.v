(* CircuitModel.v — executable model of tangelo/linq/circuit.py: class Circuit as a state machine
   with exactly the Python bookkeeping fields, the module-level passes, split / stack.
   Value semantics is faithful because Circuit.add_gate stores a fresh Gate with fresh index lists
   (circuits never share gate objects); the correspondence check snapshots every operand to
   confirm it.  Two defects of the original source are kept here as [add_gate_asis] and
   [merge_rotations_asis] (with their refutation witnesses in CircuitProofs.v); the model proper
   follows the repaired source (see known_findings.json, "fixed").
   Proofs are in CircuitProofs.v. *)
From Coq Require Import String Ascii ZArith List Bool Arith.
From Tangelo Require Import Linq.GateModel.
Import ListNotations.
Open Scope string_scope.
Open Scope list_scope.

(* ---- small finite-set / dictionary helpers over Z and strings ---- *)
Fixpoint zinsert (z : Z) (l : list Z) : list Z :=          (* sorted insert without duplicates *)
  match l with
  | [] => [z]
  | y :: r => if Z.ltb z y then z :: l else if Z.eqb z y then l else y :: zinsert z r
  end.
Definition zset_of (l : list Z) : list Z := fold_left (fun s z => zinsert z s) l [].
Definition zrange (n : Z) : list Z := map Z.of_nat (seq 0 (Z.to_nat n)).
Fixpoint zmax (l : list Z) : Z := match l with [] => (-1)%Z | y :: r => Z.max y (zmax r) end.
Definition zinter (a b : list Z) : bool := existsb (fun z => zmem z b) a.

Fixpoint incr_s (k : string) (m : list (string * nat)) : list (string * nat) :=
  match m with
  | [] => [(k, 1)]
  | (k', n) :: r => if String.eqb k k' then (k', S n) :: r else (k', n) :: incr_s k r
  end.
Fixpoint incr_n (k : nat) (m : list (nat * nat)) : list (nat * nat) :=
  match m with
  | [] => [(k, 1)]
  | (k', n) :: r => if Nat.eqb k k' then (k', S n) :: r else (k', n) :: incr_n k r
  end.
Definition has_key (k : string) (m : list (string * nat)) : bool :=
  existsb (fun kv => String.eqb k (fst kv)) m.
Fixpoint zlookup (k : Z) (m : list (Z * Z)) : option Z :=
  match m with [] => None | (a, b) :: r => if Z.eqb k a then Some b else zlookup k r end.

Section Circ.
  Variable Ang : Type.
  Variable ang_add : Ang -> Ang -> Ang.
  Variable ang_opp : Ang -> Ang.
  Variable ang_small : bool -> Ang -> bool.
  Variable ang_eqmod : bool -> Ang -> Ang -> bool.
  Variable ang_mpi2 : Ang.
  Variable ang_mpi4 : Ang.
  Variable T : tables.

  Notation pgate := (pgate Ang).
  Notation gate_eq := (gate_eq Ang ang_eqmod T).
  Notation gate_inverse := (gate_inverse Ang ang_opp ang_mpi2 ang_mpi4 T).

  Record circ : Type := Circ {
    cgates : list pgate;                 (* _gates *)
    cnq : option Z;                      (* _qubits_simulated *)
    cidx : list Z;                       (* _qubit_indices, kept sorted *)
    ccounts : list (string * nat);       (* _gate_counts, insertion order *)
    cncounts : list (nat * nat);         (* _n_qubit_gate_counts, insertion order *)
    cvar : list pgate                    (* _variational_gates *)
  }.

  Definition truthy (nq : option Z) : bool := match nq with Some n => negb (Z.eqb n 0) | None => false end.

  Definition empty_circ (nq : option Z) : circ :=
    Circ [] nq (match nq with Some n => zrange n | None => [] end) [] [] [].

  Definition width (c : circ) : Z := (zmax (cidx c) + 1)%Z.
  Definition size (c : circ) : nat := length (cgates c).
  Definition is_variational (c : circ) : bool := match cvar c with [] => false | _ => true end.
  Definition is_mixed_state (c : circ) : bool := has_key "MEASURE" (ccounts c) || has_key "CMEASURE" (ccounts c).

  (* the loop "for q in all_involved_qubits: check_index_valid(q); self._qubit_indices.add(q)" *)
  Fixpoint track (nq : option Z) (qs : list Z) (idx : list Z) : list Z * bool :=
    match qs with
    | [] => (idx, true)
    | q :: r =>
      if truthy nq && (match nq with Some n => Z.leb n q | None => false end) then (idx, false)
      else track nq r (zinsert q idx)
    end.

  (* Circuit.add_gate as originally written: the gate was appended BEFORE the range check, so a
     rejected gate stayed in _gates (defect, repaired in the source by a fix: commit) *)
  Definition add_gate_asis (c : circ) (g : pgate) : circ * res unit :=
    match regate T g with
    | Err e => (c, Err e)
    | Ok gate =>
      let gs := cgates c ++ [gate] in
      let vs := if pvar gate then cvar c ++ [gate] else cvar c in
      match track (cnq c) (gate_qubits gate) (cidx c) with
      | (idx, false) => (Circ gs (cnq c) idx (ccounts c) (cncounts c) vs, Err ValueError)
      | (idx, true) =>
        (Circ gs (cnq c) idx (incr_s (pname gate) (ccounts c))
              (incr_n (length (gate_qubits gate)) (cncounts c)) vs, Ok tt)
      end
    end.

  (* Circuit.add_gate: validate (gate construction, index range), then update every field *)
  Definition add_gate (c : circ) (g : pgate) : circ * res unit :=
    match regate T g with
    | Err e => (c, Err e)
    | Ok gate =>
      match track (cnq c) (gate_qubits gate) (cidx c) with
      | (_, false) => (c, Err ValueError)
      | (idx, true) =>
        (Circ (cgates c ++ [gate]) (cnq c) idx (incr_s (pname gate) (ccounts c))
              (incr_n (length (gate_qubits gate)) (cncounts c))
              (if pvar gate then cvar c ++ [gate] else cvar c), Ok tt)
      end
    end.

  (* Circuit(gates, n_qubits): an exception inside __init__ means no object is created *)
  Fixpoint add_all (c : circ) (gs : list pgate) : res circ :=
    match gs with
    | [] => Ok c
    | g :: r => match add_gate c g with
                | (c', Ok _) => add_all c' r
                | (_, Err e) => Err e
                end
    end.
  Definition build (gs : list pgate) (nq : option Z) : res circ := add_all (empty_circ nq) gs.

  (* ---- what the property calls "recomputed from the current gate list" ---- *)
  Definition counts_of (gs : list pgate) : list (string * nat) :=
    fold_left (fun m g => incr_s (pname g) m) gs [].
  Definition ncounts_of (gs : list pgate) : list (nat * nat) :=
    fold_left (fun m g => incr_n (length (gate_qubits g)) m) gs [].
  Definition qubits_of (gs : list pgate) : list Z :=
    fold_left (fun s g => fold_left (fun s q => zinsert q s) (gate_qubits g) s) gs [].

  (* ---- out-of-place operations ---- *)
  Definition concat (a b : circ) : res circ :=
    build (cgates a ++ cgates b)
          (if truthy (cnq a) || truthy (cnq b) then Some (Z.max (width a) (width b)) else None).

  Definition repeat_c (a : circ) (n : Z) : res circ :=
    if Z.leb n 0 then Err ValueError
    else build (List.concat (repeat (cgates a) (Z.to_nat n))) (cnq a).

  Definition copy_c (a : circ) : res circ := build (cgates a) (cnq a).

  Definition inverse_c (a : circ) : res circ :=
    do gs <- mapM gate_inverse (rev (cgates a)); build gs (cnq a).

  Definition circ_eq (a b : circ) : bool :=
    (fix leq (x y : list pgate) : bool :=
       match x, y with
       | [], [] => true
       | g :: x', h :: y' => gate_eq g h && leq x' y'
       | _, _ => false
       end) (cgates a) (cgates b) && Z.eqb (width a) (width b).

  (* ---- in-place index operations ---- *)
  Definition remap_list (m : list (Z * Z)) (l : list Z) : res (list Z) :=
    mapM (fun q => match zlookup q m with Some v => Ok v | None => Err KeyError end) l.
  Definition remap_gate (m : list (Z * Z)) (g : pgate) : res pgate :=
    do t <- remap_list m (ptarget g);
    do c <- match pcontrol g with
            | None => Ok None
            | Some [] => Ok (Some [])                  (* "if g.control:" is false for [] *)
            | Some cl => do cl' <- remap_list m cl; Ok (Some cl')
            end;
    Ok (PGate (pname g) t c (pparam g) (pvar g)).

  Definition trim_qubits (c : circ) : res circ :=
    let used := qubits_of (cgates c) in
    let m := combine used (zrange (Z.of_nat (length used))) in
    do gs <- mapM (remap_gate m) (cgates c);
    do vs <- mapM (remap_gate m) (cvar c);
    Ok (Circ gs (cnq c) (zrange (Z.of_nat (length used))) (ccounts c) (cncounts c) vs).

  Definition reindex_qubits (c : circ) (new : list Z) : circ * res unit :=
    if negb (Nat.eqb (length new) (length (cidx c))) then (c, Err ValueError) else
    let m := combine (cidx c) new in
    match mapM (remap_gate m) (cgates c), mapM (remap_gate m) (cvar c) with
    | Ok gs, Ok vs => (Circ gs (cnq c) (zset_of new) (ccounts c) (cncounts c) vs, Ok tt)
    | _, _ => (c, Err KeyError)
    end.

  (* ---- get_entangled_indices / split / stack ---- *)
  Definition zunion (a b : list Z) : list Z := fold_left (fun s z => zinsert z s) a b.
  (* one gate: scan the accumulated subsets from last to first, absorbing those that intersect *)
  Definition absorb (qnew : list Z) (sets : list (list Z)) : list (list Z) :=
    let '(q, kept) :=
      fold_left (fun '(q, kept) qs => if zinter q qs then (zunion q qs, kept) else (q, qs :: kept))
                (rev sets) (qnew, []) in
    kept ++ [q].
  Definition entangled_indices (gs : list pgate) : list (list Z) :=
    fold_left (fun sets g => absorb (zset_of (gate_qubits g)) sets) gs [].

  Fixpoint first_index {X} (f : X -> bool) (l : list X) (i : nat) : option nat :=
    match l with [] => None | x :: r => if f x then Some i else first_index f r (S i) end.

  Definition split_c (c : circ) (trim : bool) : res (list circ) :=
    let sets := entangled_indices (cgates c) in
    let parts := map (fun s => filter (fun g => zinter (gate_qubits g) s) (cgates c)) sets in
    do cs <- mapM (fun gs => build gs None) parts;
    if trim then mapM trim_qubits cs else Ok cs.

  Definition stack_c (cs : list circ) : res circ :=
    match cs with
    | [] => Ok (empty_circ None)
    | _ =>
      do cs1 <- mapM trim_qubits cs;              (* on deep copies: same values *)
      match cs1 with
      | [] => Ok (empty_circ None)
      | c0 :: rest =>
        fold_left (fun acc c =>
                     do st <- acc;
                     match reindex_qubits c (map (fun k => (width st + k)%Z) (zrange (width c))) with
                     | (c', Ok _) => concat st c'
                     | (_, Err e) => Err e
                     end) rest (Ok c0)
      end
    end.

  (* ---- passes ---- *)
  Definition is_small_rot (g : pgate) : res bool :=
    if smem (pname g) (rot_small T) then
      match pparam g with
      | PNum a => Ok (ang_small (smem (pname g) (small_long T)) a)
      | _ => Err TypeError                         (* abs("") / abs("x") raises *)
      end
    else Ok false.

  Fixpoint filterM {X} (f : X -> res bool) (l : list X) : res (list X) :=
    match l with
    | [] => Ok []
    | x :: r => do b <- f x; do r' <- filterM f r; Ok (if b then r' else x :: r')
    end.

  Definition remove_small_rotations (c : circ) (remove_qubits : bool) : res circ :=
    do gs <- filterM is_small_rot (cgates c);
    build gs (if remove_qubits then None else Some (width c)).

  (* ---- merge_rotations / remove_redundant_gates ----
     Both passes scan the gates once and keep, per qubit, the list of the gates kept so far that act
     on it (Python: gate_qubits[q], a list of (index, gate object)); they only ever look at its last
     element.  The model keeps the list [kept] of the gates kept so far (Python: new_gates, resp. the
     gates whose index is not in indices_to_remove) and computes "the last kept gate acting on q" from
     it: [last_touch kept q] is its position in [kept].  The gate objects in gate_qubits[q] are the
     objects of new_gates, so an in-place update of a kept gate is seen through both. *)
  Fixpoint last_touch (kept : list pgate) (q : Z) : option nat :=
    match kept with
    | [] => None
    | g :: r => match last_touch r q with
                | Some i => Some (S i)
                | None => if zmem q (gate_qubits g) then Some O else None
                end
    end.

  Definition nth_gate (l : list pgate) (i : nat) : option pgate := nth_error l i.
  Fixpoint set_nth (l : list pgate) (i : nat) (g : pgate) : list pgate :=
    match l, i with
    | [], _ => []
    | _ :: r, O => g :: r
    | x :: r, S k => x :: set_nth r k g
    end.
  Fixpoint del_nth (l : list pgate) (i : nat) : list pgate :=
    match l, i with
    | [], _ => []
    | _ :: r, O => r
    | x :: r, S k => x :: del_nth r k
    end.

  Definition same_site (g h : pgate) : bool :=
    String.eqb (pname g) (pname h) && zlist_eqb (ptarget g) (ptarget h)
    && ozlist_eqb (pcontrol g) (pcontrol h).

  Definition param_add (p q : param Ang) : res (param Ang) :=
    match p, q with
    | PNum a, PNum b => Ok (PNum (ang_add a b))
    | PNone, PNone => Ok PNone                      (* "" + "" *)
    | _, _ => Err TypeError
    end.

  (* merge_rotations, one iteration of the loop: [kept] is new_gates (deep copies of the input gates,
     the merged parameters accumulate in them) *)
  Definition merge_step (kept : list pgate) (gate : pgate) : res (list pgate) :=
    let qs := gate_qubits gate in
    let keep := Ok (kept ++ [gate]) in
    match mapM (fun q => match last_touch kept q with Some i => Ok i | None => Err KeyError end) qs with
    | Err _ => keep                                  (* NoneGate in g_prevs: some qubit has no previous gate *)
    | Ok [] => keep
    | Ok (p0 :: ps) =>
      match nth_gate kept p0 with
      | None => Err IndexError
      | Some gprev =>
        (* all(gg == g_prevs[0] for gg in g_prevs): comparison by VALUE (Gate.__eq__) *)
        if forallb (fun p => match nth_gate kept p with Some h => gate_eq h gprev | None => false end) ps
        then
          if smem (pname gate) (rot_merge T) && same_site gate gprev then
            do p' <- param_add (pparam gprev) (pparam gate);
            Ok (set_nth kept p0 (PGate (pname gprev) (ptarget gprev) (pcontrol gprev) p'
                                       (pvar gprev || pvar gate)))
          else keep
        else keep
      end
    end.

  Definition merge_core (gs : list pgate) : res (list pgate) :=
    fold_left (fun acc g => do k <- acc; merge_step k g) gs (Ok []).

  Definition merge_rotations_fn (c : circ) : res circ :=
    do out <- merge_core (cgates c); build out None.

  (* merge_rotations as originally written (defect, repaired by a fix: commit): the source added into
     the gate objects of its INPUT.  Kept in the index-based form that tracks the input list [cur]:
     [last] maps a qubit to the index (in cur) of the last kept gate acting on it; [kept] lists the
     indices appended to new_gates.  Result: (input circuit after the call, result). *)
  Definition lastq (m : list (Z * nat)) (q : Z) : option nat :=
    (fix go (m : list (Z * nat)) : option nat :=
       match m with [] => None | (a, b) :: r => if Z.eqb q a then Some b else go r end) m.
  Definition setq (m : list (Z * nat)) (q : Z) (i : nat) : list (Z * nat) := (q, i) :: m.

  Definition merge_step_asis (st : list pgate * list (Z * nat) * list nat) (gi : nat)
    : res (list pgate * list (Z * nat) * list nat) :=
    let '(cur, last, kept) := st in
    match nth_gate cur gi with
    | None => Err IndexError
    | Some gate =>
      let qs := gate_qubits gate in
      let keep := Ok (cur, fold_left (fun m q => setq m q gi) qs last, kept ++ [gi]) in
      match mapM (fun q => match lastq last q with Some i => Ok i | None => Err KeyError end) qs with
      | Err _ => keep
      | Ok [] => keep
      | Ok (p0 :: ps) =>
        match nth_gate cur p0 with
        | None => Err IndexError
        | Some gprev =>
          if forallb (fun p => match nth_gate cur p with Some h => gate_eq h gprev | None => false end) ps
          then
            if smem (pname gate) (rot_merge T) && same_site gate gprev then
              do p' <- param_add (pparam gprev) (pparam gate);
              Ok (set_nth cur p0 (PGate (pname gprev) (ptarget gprev) (pcontrol gprev) p'
                                        (pvar gprev || pvar gate)), last, kept)
            else keep
          else keep
        end
      end
    end.

  Definition merge_core_asis (gs : list pgate) : res (list pgate * list pgate) :=
    do st <- fold_left (fun acc gi => do s <- acc; merge_step_asis s gi) (seq 0 (length gs)) (Ok (gs, [], []));
    let '(cur, _, kept) := st in
    do out <- mapM (fun i => match nth_gate cur i with Some g => Ok g | None => Err IndexError end) kept;
    Ok (cur, out).

  Definition merge_rotations_asis (c : circ) : res (circ * circ) :=
    do co <- merge_core_asis (cgates c);
    let '(cur, out) := co in
    do r <- build out None;
    (* the input's _variational_gates list holds the same objects: those at the positions that
       were variational when they were added *)
    let vs := map snd (filter (fun og => pvar (fst og)) (combine (cgates c) cur)) in
    Ok (Circ cur (cnq c) (cidx c) (ccounts c) (cncounts c) vs, r).

  (* remove_redundant_gates: gate_qubits[q] is used as a stack; [kept] = the gates seen so far whose
     index is not in indices_to_remove.  "gate_qubits[q][-1][1].inverse() != gate" for the qubits in
     order, stopping at the first that fails (an exception of inverse() propagates). *)
  Definition cancels (kept : list pgate) (top : nat) (gate : pgate) : res bool :=
    match nth_gate kept top with
    | None => Err IndexError
    | Some h => do hi <- gate_inverse h; Ok (gate_eq hi gate)
    end.

  Fixpoint all_cancel (kept : list pgate) (qs : list Z) (gate : pgate) : res bool :=
    match qs with
    | [] => Ok true
    | q :: r => match last_touch kept q with
                | None => Ok false
                | Some top => do b <- cancels kept top gate; if b then all_cancel kept r gate else Ok false
                end
    end.

  Definition redundant_step (kept : list pgate) (gate : pgate) : res (list pgate) :=
    let qs := gate_qubits gate in
    do rm <- all_cancel kept qs gate;
    if rm then
      match qs with
      | [] => Err IndexError                             (* qubits[0] *)
      | q0 :: _ => match last_touch kept q0 with
                   | None => Err IndexError
                   | Some top => Ok (del_nth kept top)   (* both gates go: the new one is not kept *)
                   end
      end
    else Ok (kept ++ [gate]).

  Definition redundant_core (gs : list pgate) : res (list pgate) :=
    fold_left (fun acc g => do k <- acc; redundant_step k g) gs (Ok []).

  Definition remove_redundant_gates (c : circ) (remove_qubits : bool) : res circ :=
    do gs <- redundant_core (cgates c);
    build gs (if remove_qubits then None else Some (width c)).

  Fixpoint simplify_loop (fuel : nat) (c_old c_new : circ) (rq : bool) : res circ :=
    match fuel with
    | O => Ok c_old
    | S k =>
      if circ_eq c_old c_new then Ok c_old else
      do m <- merge_rotations_fn c_old;
      do s <- remove_small_rotations m rq;
      do r <- remove_redundant_gates s rq;
      simplify_loop k r c_old rq
    end.
  Definition simplify (c : circ) (max_cycles : nat) (rq : bool) : res circ :=
    do c0 <- copy_c c; simplify_loop max_cycles c0 (empty_circ None) rq.

  (* ---- depth: number of moments ---- *)
  Definition zget (m : list (Z * Z)) (q : Z) : Z := match zlookup q m with Some v => v | None => (-1)%Z end.
  Definition depth (c : circ) : Z :=
    let '(_, d) :=
      fold_left (fun '(latest, d) g =>
                   let qs := gate_qubits g in
                   let b := fold_left (fun b q => Z.max b (zget latest q)) qs (-1)%Z in
                   (fold_left (fun m q => (q, (b + 1)%Z) :: m) qs latest, Z.max d (b + 2)%Z))
                (cgates c) ([], 0%Z) in d.

  (* ---- the invariant of C11 ---- *)
  Definition metadata_ok (c : circ) : bool :=
    (fix leq (x y : list (string * nat)) : bool :=
       match x, y with
       | [], [] => true
       | (a, n) :: x', (b, m) :: y' => String.eqb a b && Nat.eqb n m && leq x' y'
       | _, _ => false
       end) (ccounts c) (counts_of (cgates c))
    && (fix leq (x y : list (nat * nat)) : bool :=
          match x, y with
          | [], [] => true
          | (a, n) :: x', (b, m) :: y' => Nat.eqb a b && Nat.eqb n m && leq x' y'
          | _, _ => false
          end) (cncounts c) (ncounts_of (cgates c))
    && Nat.eqb (length (cvar c)) (length (filter (fun g => pvar g) (cgates c)))
    && forallb (fun q => zmem q (cidx c)) (qubits_of (cgates c)).
End Circ.
