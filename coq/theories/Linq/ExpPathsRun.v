(* ExpPathsRun.v — the executable instance of Linq/ExpPaths.v used by the C02 correspondence harness:
   amplitudes and coefficients are exact cyclotomic numbers (Cyc), circuits are Python-level gates on
   the pi/8 angle grid, statevectors are tabulated.  The values printed are those of the SAME generic
   definitions the theorems are about (expect_op, freq_route, sv_route, var_route, eval_expect, ...),
   instantiated at CycS with the exact distribution (freqs = born).  Definitions only. *)
From Coq Require Import String ZArith NArith QArith Qcanon List Bool.
From Tangelo Require Import Num.KStruct Num.Cyc Num.Show QSem.State QSem.Measure QSem.Expect Pauli.Word Pauli.Action
     Linq.GateModel Linq.Interp Linq.LinqZ Linq.ExpPaths.
Import ListNotations.
Open Scope string_scope.

Definition cvec := list Cy.
Definition xgate_run (n : nat) (g : zgate) (l : cvec) : cvec :=
  match interp CycS Z (fun k => k) g with
  | Some G => run_gate CycS n G l
  | None => l
  end.
Definition xapply (n : nat) (c : list zgate) (l : cvec) : cvec := fold_left (fun s g => xgate_run n g s) c l.

(* a state preparation: prefix circuit (supplies the initial statevector), then segments
   "gates, optionally followed by a measurement of qubit q post-selected on outcome b" (unnormalised) *)
Definition seg : Type := (list zgate * option (Z * bool))%type.
Definition run_seg (n : nat) (l : cvec) (s : seg) : cvec :=
  let l1 := xapply n (fst s) l in
  match snd s with
  | Some (q, b) => proj_tab CycS n (Z.to_N q) b l1
  | None => l1
  end.
Definition prepare (n : nat) (prefix : list zgate) (segs : list seg) : cvec :=
  fold_left (run_seg n) segs (xapply n prefix (tab CycS n (ket CycS 0))).

(* coefficient a + i b with a, b rational *)
Definition coef (a b : Q) : Cy :=
  cadd L4 (cy_of_Qc (Q2Qc a)) (cmul L4 cy_i (cy_of_Qc (Q2Qc b))).
Definition xop : Type := op CycS.

Definition xfreqs : state CycS -> N -> Cy := born CycS.

Definition show_route (r : route) : string :=
  match r with
  | RFreq => "freq" | RSVNative => "sv-native" | RSVPauli => "sv-pauli" | RSVSampled => "sv-sampled"
  | RSplit => "split" | RRaise => "raise" | RFallthrough => "none"
  end.
Definition show_vroute (r : vroute) : string :=
  match r with VFreq => "freq" | VSplit => "split" | VRaise => "raise" end.
Definition show_ocy (o : option Cy) : string := match o with Some c => show_Cy c | None => "None" end.

Section Conds.
  Variable freq_cond sv_cond sv_exact_cond : cfg -> bool.

  (* one line per case with a normalised prepared vector (no post-selection): squared norm, <psi|H|psi>,
     the two routes, the value and the variance through the dispatch *)
  Definition run_case (c : cfg) (n : nat) (prefix : list zgate) (segs : list seg) (H : xop) : string :=
    let l := prepare n prefix segs in
    let psi := untab CycS l in
    "p=" ++ show_Cy (norm2_tab CycS l)
    ++ " spec=" ++ show_Cy (expect_op CycS n H psi)
    ++ " freq=" ++ show_Cy (freq_route CycS xfreqs n H psi)
    ++ " sv=" ++ show_Cy (sv_route CycS n H psi)
    ++ " eval=" ++ show_ocy (eval_expect CycS xfreqs freq_cond sv_cond sv_exact_cond c n H psi)
    ++ " var=" ++ show_ocy (eval_var CycS xfreqs c n H psi)
    ++ " route=" ++ join "," (map show_route (trace_expect freq_cond sv_cond sv_exact_cond c))
    ++ " vroute=" ++ show_vroute (dispatch_var c).

  (* post-selected preparation: the vector is the unnormalised branch; the values are numerators over p
     (homogeneous frequency route: the identity term goes through the general formula) *)
  Definition run_case_ps (c : cfg) (n : nat) (prefix : list zgate) (segs : list seg) (H : xop) : string :=
    let l := prepare n prefix segs in
    let psi := untab CycS l in
    "p=" ++ show_Cy (norm2_tab CycS l)
    ++ " spec=" ++ show_Cy (expect_op CycS n H psi)
    ++ " freqh=" ++ show_Cy (freq_route_h CycS xfreqs n H psi)
    ++ " route=" ++ join "," (map show_route (trace_expect freq_cond sv_cond sv_exact_cond c))
    ++ " vroute=" ++ show_vroute (dispatch_var c).

  Definition run_dispatch (c : cfg) : string :=
    join "," (map show_route (trace_expect freq_cond sv_cond sv_exact_cond c)) ++ "|" ++ show_vroute (dispatch_var c).
End Conds.

(* per-term values (numerators) of a word on a prepared vector: spec, frequency route, statevector route *)
Definition run_word (n : nat) (prefix : list zgate) (segs : list seg) (w : word) : string :=
  let l := prepare n prefix segs in
  let psi := untab CycS l in
  "p=" ++ show_Cy (norm2_tab CycS l)
  ++ " spec=" ++ show_Cy (expect_word CycS n w psi)
  ++ " freq=" ++ show_Cy (freq_term CycS xfreqs n w psi)
  ++ " sv=" ++ show_Cy (sv_term CycS n w psi).

(* the gates the table-driven model of measurement_basis_gates returns, printed like LinqZ.show_gates *)
Definition show_basis_gates (T : btable) (term : pyterm) : string :=
  match measurement_basis_gates Z (fun u => u) T term with
  | POk gs => show_gates gs
  | PErr ERuntimeError => "Err:RuntimeError"
  | PErr _ => "Err:other"
  end.
