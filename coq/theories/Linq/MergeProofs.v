(* MergeProofs.v — soundness of merge_rotations (model: CircuitModel.merge_step / merge_core), for
   EVERY gate list, every angle (generic number structure S, angle embedding ang compatible with the
   model's addition): the gates kept denote exactly the operation of the input.  Side condition on the
   regenerated table rot_merge (only rotation names are merged): a boolean, checked in props/C09.v. *)
From Coq Require Import String ZArith NArith List Bool Lia.
From Tangelo Require Import Num.KStruct QSem.State QSem.StateLemmas QSem.GateLemmas QSem.CircuitLemmas QSem.Commute.
From Tangelo Require Import Linq.GateModel Linq.CircuitModel Linq.CircuitProofs Linq.Interp Linq.InterpProofs
     Linq.PassLemmas Linq.ScanLemmas Linq.InterpFacts.
Import ListNotations.
Open Scope string_scope.
Open Scope list_scope.

Definition merge_tables_ok (T : tables) : bool := forallb (fun n => smem n rot8) (rot_merge T).

Lemma smem_sub n l1 l2 : forallb (fun x => smem x l2) l1 = true -> smem n l1 = true -> smem n l2 = true.
Proof.
  intros Hs Hn. unfold smem in Hn. apply existsb_exists in Hn. destruct Hn as (x & Hx & E).
  apply String.eqb_eq in E. subst x. rewrite forallb_forall in Hs. apply Hs. exact Hx.
Qed.

Lemma mapM_forward {X Y} (f : X -> res Y) l l' :
  mapM f l = Ok l' -> forall x, In x l -> exists y, f x = Ok y /\ In y l'.
Proof.
  revert l'. induction l as [|a l IH]; simpl; intros l' H x Hx; [contradiction|].
  destruct (f a) as [b|] eqn:Hb; simpl in H; [|discriminate].
  destruct (mapM f l) as [r|] eqn:Hr; simpl in H; [|discriminate]. inversion H; subst.
  destruct Hx as [->|Hx]; [exists b; simpl; auto|].
  destruct (IH r eq_refl x Hx) as (y & Hy & Hin). exists y. simpl. auto.
Qed.

Lemma mapM_head {X Y} (f : X -> res Y) l y ys :
  mapM f l = Ok (y :: ys) -> exists x r, l = x :: r /\ f x = Ok y.
Proof.
  destruct l as [|a l]; simpl; intro H; [discriminate|].
  destruct (f a) as [b|] eqn:Hb; simpl in H; [|discriminate].
  destruct (mapM f l) as [r|]; simpl in H; [|discriminate]. inversion H; subst. eauto.
Qed.

Section MergeProofs.
  Variable S : KS.
  Variable Ang : Type.
  Variable ang : Ang -> A S.
  Variable ang_add : Ang -> Ang -> Ang.
  Variable ang_eqmod : bool -> Ang -> Ang -> bool.
  Variable T : tables.
  Hypothesis ang_add_ok : forall a b, ang (ang_add a b) = aadd (ang a) (ang b).

  Notation pgate := (pgate Ang).
  Notation interp := (interp S Ang ang).
  Notation interp_all := (interp_all S Ang ang).
  Notation gate_okb := (gate_okb Ang).
  Notation gate_eq := (gate_eq Ang ang_eqmod T).
  Notation merge_step := (merge_step Ang ang_add ang_eqmod T).
  Notation merge_core := (merge_core Ang ang_add ang_eqmod T).

  (* two gates that compare equal act on the same qubits, listed in the same order *)
  Lemma gate_eq_site (g h : pgate) :
    gate_eq g h = true -> ptarget g = ptarget h /\ pcontrol g = pcontrol h.
  Proof.
    unfold GateModel.gate_eq. intro H.
    apply andb_true_iff in H. destruct H as [H _]. apply andb_true_iff in H. destruct H as [H _].
    apply andb_true_iff in H. destruct H as [H Hc]. apply andb_true_iff in H. destruct H as [_ Ht].
    split; [apply zlist_eqb_eq; exact Ht | apply ozlist_eqb_eq; exact Hc].
  Qed.

  Lemma gate_eq_qubits (g h : pgate) : gate_eq g h = true -> gate_qubits g = gate_qubits h.
  Proof. intro H. destruct (gate_eq_site g h H) as [Ht Hc]. unfold gate_qubits. rewrite Ht, Hc. reflexivity. Qed.

  Lemma same_site_eq (g h : pgate) :
    same_site Ang g h = true -> pname g = pname h /\ ptarget g = ptarget h /\ pcontrol g = pcontrol h.
  Proof.
    unfold same_site. intro H. apply andb_true_iff in H. destruct H as [H Hc].
    apply andb_true_iff in H. destruct H as [Hn Ht].
    repeat split; [apply String.eqb_eq; exact Hn | apply zlist_eqb_eq; exact Ht | apply ozlist_eqb_eq; exact Hc].
  Qed.

  Definition okall (l : list pgate) : Prop := Forall (fun g => gate_okb g = true) l.

  (* one iteration of the loop: the kept list after it denotes the kept list before it followed by
     the current gate *)
  Lemma merge_step_sound kept gate kept' K G :
    merge_tables_ok T = true -> okall kept -> gate_okb gate = true ->
    interp_all kept = Some K -> interp gate = Some G ->
    merge_step kept gate = Ok kept' ->
    okall kept' /\ exists K', interp_all kept' = Some K'
                              /\ forall psi, den S K' psi = den_gate S G (den S K psi).
  Proof.
    intros HT Hok Hg HK HG H.
    assert (Keep : kept' = kept ++ [gate] ->
                   okall kept' /\ exists K', interp_all kept' = Some K'
                                             /\ forall psi, den S K' psi = den_gate S G (den S K psi)).
    { intros ->. split.
      - apply Forall_app. split; [exact Hok | constructor; [exact Hg | constructor]].
      - exists (K ++ [G]). split; [apply interp_all_snoc; assumption|].
        intro psi. rewrite den_app. reflexivity. }
    unfold CircuitModel.merge_step in H.
    destruct (mapM _ (gate_qubits gate)) as [[|p0 ps]|e] eqn:Hm;
      [apply Keep; congruence | | apply Keep; congruence].
    destruct (nth_gate Ang kept p0) as [gprev|] eqn:Hn; [|discriminate].
    destruct (forallb _ ps) eqn:Hfa; [|apply Keep; congruence].
    destruct (smem (pname gate) (rot_merge T) && same_site Ang gate gprev) eqn:Hms; [|apply Keep; congruence].
    destruct (param_add Ang ang_add (pparam gprev) (pparam gate)) as [p'|] eqn:Hpa; simpl in H; [|discriminate].
    inversion H; subst kept'; clear H Keep.
    apply andb_true_iff in Hms. destruct Hms as [Hsm Hss].
    destruct (same_site_eq _ _ Hss) as (Ename & Etgt & Ectl).
    assert (Eq : gate_qubits gprev = gate_qubits gate) by (unfold gate_qubits; rewrite Etgt, Ectl; reflexivity).
    unfold nth_gate in Hn.
    (* all "last gates" are the kept gate number p0 *)
    destruct (mapM_head _ _ _ _ Hm) as (q0 & qr & Eqs & Hq0).
    destruct (last_touch Ang kept q0) as [p0'|] eqn:Hl0; [|discriminate]. inversion Hq0; subst p0'; clear Hq0.
    assert (Hall : forall q, In q (gate_qubits gate) ->
                     exists p h, last_touch Ang kept q = Some p /\ nth_error kept p = Some h
                                 /\ gate_qubits h = gate_qubits gate).
    { intros q Hq. destruct (mapM_forward _ _ _ Hm q Hq) as (p & Hp & Hin).
      destruct (last_touch Ang kept q) as [p1|]; [|discriminate]. inversion Hp; subst p1; clear Hp.
      destruct Hin as [<-|Hin].
      - exists p0, gprev. auto.
      - rewrite forallb_forall in Hfa. specialize (Hfa p Hin). unfold nth_gate in Hfa.
        destruct (nth_error kept p) as [h|] eqn:Hh; [|discriminate].
        exists p, h. repeat split; auto. rewrite (gate_eq_qubits h gprev Hfa). exact Eq. }
    destruct (same_last Ang kept (gate_qubits gate) Hall q0 p0 ltac:(rewrite Eqs; left; reflexivity) Hl0)
      as (pre & g & post & Ek & Lp & _ & Hpost).
    assert (g = gprev).
    { rewrite Ek, <- Lp, nth_error_split_mid in Hn. congruence. }
    subst g. rewrite Ek, <- Lp, set_nth_split.
    (* interpretation of the pieces *)
    rewrite Ek in HK. destruct (interp_all_split S Ang ang pre gprev post K HK) as (Pre & Gp & Post & -> & HPre & HGp & HPost).
    rewrite Ek in Hok. apply Forall_app in Hok. destruct Hok as [Hokpre Hok2].
    pose proof (Forall_inv Hok2) as Hokg. pose proof (Forall_inv_tail Hok2) as Hokpost.
    pose proof (smem_sub _ _ _ HT Hsm) as Hrot.
    destruct (interp_rot S Ang ang gate G Hrot HG) as (k & b & t & Hk & Hpb & Htb & EG).
    assert (Hrot' : smem (pname gprev) rot8 = true) by (rewrite <- Ename; exact Hrot).
    destruct (interp_rot S Ang ang gprev Gp Hrot' HGp) as (k' & a & t' & Hk' & Hpa' & Hta & EGp).
    rewrite <- Ename, Hk in Hk'. inversion Hk'; subst k'; clear Hk'.
    rewrite <- Etgt, Htb in Hta. inversion Hta; subst t'; clear Hta.
    rewrite <- Ectl in EGp.
    rewrite Hpa', Hpb in Hpa. simpl in Hpa. inversion Hpa; subst p'; clear Hpa.
    set (merged := PGate (pname gprev) (ptarget gprev) (pcontrol gprev) (PNum (ang_add a b)) (pvar gprev || pvar gate)).
    assert (HGm : interp merged = Some (rot_gate S k (aadd (ang a) (ang b)) (zn t) (ctrl_list (pcontrol gate)))).
    { unfold merged. rewrite <- Etgt, <- Ectl, Htb, <- ang_add_ok. apply interp_rot_conv.
      rewrite <- Ename. exact Hk. }
    split.
    - apply Forall_app. split; [exact Hokpre|]. constructor; [|exact Hokpost].
      rewrite <- Hokg. apply okb_same_site; reflexivity.
    - eexists. split.
      + eapply interp_all_app; [exact HPre|]. simpl. rewrite HGm, HPost. reflexivity.
      + intro psi. rewrite !den_app, !den_cons.
        assert (Hdis : Forall (fun H => disjoint (State.gate_qubits S G) (State.gate_qubits S H)) Post).
        { apply (interp_all_disjoint S Ang ang gate G Hg HG post Post Hokpost HPost). exact Hpost. }
        rewrite <- (den_gate_comm_circuit S G Post _ Hdis). f_equal.
        subst G Gp. rewrite merge_adjacent; [reflexivity|].
        (* the target is not among the controls: validity of the gate *)
        pose proof (interp_wf S Ang ang gate _ Hg HG) as Hwf. unfold gate_wf in Hwf. simpl in Hwf.
        apply Hwf. left. reflexivity.
  Qed.

  Lemma merge_fold_sound gs : forall kept out K C,
    merge_tables_ok T = true -> okall kept -> okall gs ->
    interp_all kept = Some K -> interp_all gs = Some C ->
    fold_left (fun acc g => do k <- acc; merge_step k g) gs (Ok kept) = Ok out ->
    okall out /\ exists C', interp_all out = Some C' /\ forall psi, den S C' psi = den S C (den S K psi).
  Proof.
    induction gs as [|g r IH]; simpl; intros kept out K C HT Hok Hgs HK HC H.
    - inversion H; subst. inversion HC; subst. split; [exact Hok|]. exists K. split; [exact HK | reflexivity].
    - destruct (interp g) as [G|] eqn:HG; [|discriminate].
      destruct (interp_all r) as [R|] eqn:HR; [|discriminate]. inversion HC; subst; clear HC.
      destruct (merge_step kept g) as [kept1|e] eqn:Hs.
      + destruct (merge_step_sound kept g kept1 K G HT Hok (Forall_inv Hgs) HK HG Hs) as (Hok1 & K1 & HK1 & Hden1).
        destruct (IH kept1 out K1 R HT Hok1 (Forall_inv_tail Hgs) HK1 eq_refl H) as (Hoko & C' & HC' & Hden).
        split; [exact Hoko|]. exists C'. split; [exact HC'|]. intro psi.
        rewrite Hden, Hden1, den_cons. reflexivity.
      + (* an error is absorbing *)
        exfalso. clear -H. induction r as [|x r IHr]; simpl in H; [discriminate | auto].
  Qed.

  (* merge_rotations: the gates it returns denote exactly the operation of the gates it was given *)
  Theorem merge_rotations_sound gs out C :
    merge_tables_ok T = true -> okall gs -> interp_all gs = Some C -> merge_core gs = Ok out ->
    okall out /\ exists C', interp_all out = Some C' /\ forall psi, den S C' psi = den S C psi.
  Proof.
    intros HT Hok HC H. unfold CircuitModel.merge_core in H.
    apply (merge_fold_sound gs [] out [] C HT (Forall_nil _) Hok eq_refl HC H).
  Qed.

  (* the same for the circuit-level function *)
  Theorem merge_rotations_fn_sound c c' C :
    merge_tables_ok T = true -> okall (cgates Ang c) -> interp_all (cgates Ang c) = Some C ->
    merge_rotations_fn Ang ang_add ang_eqmod T c = Ok c' ->
    okall (cgates Ang c') /\ exists C', interp_all (cgates Ang c') = Some C' /\ forall psi, den S C' psi = den S C psi.
  Proof.
    intros HT Hok HC H. unfold merge_rotations_fn in H.
    destruct (merge_core (cgates Ang c)) as [out|] eqn:Hm; simpl in H; [|discriminate].
    apply build_gates in H. rewrite H. eapply merge_rotations_sound; eassumption.
  Qed.
End MergeProofs.
