(* Equiv.v — exact comparison of two gate lists in the cyclotomic instance (validation of the
   implementation's artefacts by the proved interpreter, DESIGN §4.3): both lists are interpreted
   (Interp) and run on every basis state of an n-qubit register; the results are compared exactly,
   either for equality or for equality up to one global phase (all columns proportional with the
   SAME factor: checked by cross-multiplication over the concatenated columns). *)
From Coq Require Import String ZArith NArith List Bool.
From Tangelo Require Import Num.KStruct Num.Cyc Num.Show QSem.State Linq.GateModel Linq.Interp Linq.LinqZ.
Import ListNotations.

Definition cy_interp_all (gs : list zgate) : option (circuit CycS) := interp_all CycS Z (fun k => k) gs.

Definition columns (n : nat) (c : circuit CycS) : list (K CycS) :=
  flat_map (fun x => run CycS n c (tab CycS n (ket CycS (N.of_nat x)))) (seq 0 (Nat.pow 2 n)).

Definition cyeq (a b : K CycS) : bool := ceqb L4 a b.
Definition is0 (a : K CycS) : bool := cyeq a k0.

Fixpoint list_eqb (u v : list (K CycS)) : bool :=
  match u, v with
  | [], [] => true
  | a :: u', b :: v' => cyeq a b && list_eqb u' v'
  | _, _ => false
  end.

(* u = c * v for a single scalar c, both non-zero: with (a, b) the first pair where b <> 0,
   u_i * b = v_i * a for all i *)
Fixpoint first_nz (u v : list (K CycS)) : option (K CycS * K CycS) :=
  match u, v with
  | a :: u', b :: v' => if is0 b then (if is0 a then first_nz u' v' else None) else Some (a, b)
  | _, _ => None
  end.
Definition prop_list (u v : list (K CycS)) : bool :=
  Nat.eqb (length u) (length v) &&
  match first_nz u v with
  | Some (a, b) => negb (is0 a) &&
                   forallb (fun p => cyeq (kmul (fst p) b) (kmul (snd p) a)) (combine u v)
  | None => false
  end.

(* "E" equal, "P" equal up to a global phase, "N" different, "?" not interpretable *)
Definition compare_circuits (n : nat) (g1 g2 : list zgate) : string :=
  match cy_interp_all g1, cy_interp_all g2 with
  | Some c1, Some c2 =>
    let u := columns n c1 in let v := columns n c2 in
    if list_eqb u v then "E" else if prop_list u v then "P" else "N"
  | _, _ => "?"
  end%string.
