(* Clifford.v — checking a table of Clifford decompositions of rotation gates (regenerated from
   clifford_circuits.py) against the rotation matrices, exactly, in the cyclotomic instance.
   Two 2x2 matrices are proportional (equal up to a global phase, both being unitary) iff all
   cross products u_ij * v_kl = u_kl * v_ij agree and neither is zero. *)
From Coq Require Import String ZArith List Bool.
From Tangelo Require Import Num.KStruct Num.Cyc QSem.State.
Import ListNotations.
Open Scope string_scope.

Definition cyeqb (a b : K CycS) : bool := ceqb L4 a b.

Definition entries (u : mat2 CycS) : list (K CycS) := [m00 u; m01 u; m10 u; m11 u].

Definition mat_prop (u v : mat2 CycS) : bool :=
  forallb (fun ij => forallb (fun kl =>
      cyeqb (kmul (nth ij (entries u) k0) (nth kl (entries v) k0))
            (kmul (nth kl (entries u) k0) (nth ij (entries v) k0))) [0;1;2;3]%nat) [0;1;2;3]%nat
  && existsb (fun x => negb (cyeqb x k0)) (entries u)
  && existsb (fun x => negb (cyeqb x k0)) (entries v).

Definition cliff_mat (name : string) : option (mat2 CycS) :=
  if String.eqb name "H" then Some (mH CycS)
  else if String.eqb name "X" then Some (mX CycS)
  else if String.eqb name "Y" then Some (mY CycS)
  else if String.eqb name "Z" then Some (mZ CycS)
  else if String.eqb name "S" then Some (mS CycS)
  else if String.eqb name "SDAG" then Some (madj CycS (mS CycS))
  else None.

Definition rot_mat (name : string) (k : Z) : option (mat2 CycS) :=
  if String.eqb name "RX" then Some (mRX CycS k)
  else if String.eqb name "RY" then Some (mRY CycS k)
  else if String.eqb name "RZ" then Some (mRZ CycS k)
  else if String.eqb name "PHASE" then Some (mPHASE CycS k)
  else None.

(* gates are applied in list order: the last one is the leftmost factor *)
Fixpoint seq_mat (names : list string) (acc : mat2 CycS) : option (mat2 CycS) :=
  match names with
  | [] => Some acc
  | n :: r => match cliff_mat n with Some m => seq_mat r (mmul CycS m acc) | None => None end
  end.

Definition entry_ok (e : string * Z * list string) : bool :=
  let '(name, k, names) := e in
  match rot_mat name k, seq_mat names (mid CycS) with
  | Some u, Some v => mat_prop u v
  | _, _ => false
  end.

(* every rotation gate x every non-zero Clifford angle has an entry *)
Definition table_complete (values : list Z) (table : list (string * Z * list string)) : bool :=
  forallb (fun name => forallb (fun k =>
      Z.eqb k 0 || existsb (fun e => let '(n, k', _) := e in String.eqb n name && Z.eqb k' k) table) values)
    ["RX"; "RY"; "RZ"; "PHASE"].

(* the zero angle is dropped by the code (returns []): the rotation at 0 is the identity *)
Definition zero_is_identity : bool :=
  forallb (fun name => match rot_mat name 0%Z with Some u => mat_prop u (mid CycS) | None => false end)
          ["RX"; "RY"; "RZ"; "PHASE"].

(* 2*pi-periodicity up to phase of the uncontrolled rotations (the code matches angles modulo 2*pi) *)
Definition period_ok : bool :=
  forallb (fun name => forallb (fun k =>
     match rot_mat name k, rot_mat name (k + 16)%Z with Some u, Some v => mat_prop u v | _, _ => false end)
     [(-4)%Z; 0%Z; 4%Z; 8%Z]) ["RX"; "RY"; "RZ"; "PHASE"].

(* ---- the selection around the table (decompose_gate_to_cliffords, angles on the pi/8 grid) ----
   is_clifford:  k mod step = 0                       (Gate.is_clifford: parameter % (pi/2) close to 0)
   k = 0         -> []                                 (isclose(parameter, 0))
   otherwise     the first value v of `values` with  k mod period = v mod period ; none -> refused ;
                 the row (name, v) of the table, [] when the table has no such row (default gate_list). *)
Definition select_value (values : list Z) (period k : Z) : option Z :=
  find (fun v => Z.eqb (k mod period) (v mod period)) values.

Definition lookup_row (table : list (string * Z * list string)) (name : string) (v : Z) : list string :=
  match find (fun e => let '(n, k', _) := e in String.eqb n name && Z.eqb k' v) table with
  | Some (_, _, names) => names
  | None => []
  end.

Definition decompose_nz (values : list Z) (table : list (string * Z * list string)) (period : Z)
           (name : string) (k : Z) : option (list string) :=
  match select_value values period k with
  | Some v => Some (lookup_row table name v)
  | None => None
  end.

Definition decompose_rot (values : list Z) (table : list (string * Z * list string)) (period step : Z)
           (name : string) (k : Z) : option (list string) :=
  if negb (Z.eqb (k mod step) 0) then None
  else if Z.eqb k 0 then Some []
  else decompose_nz values table period name k.

Definition rotation_names : list string := ["RX"; "RY"; "RZ"; "PHASE"].

(* decomposition of `name` at angle k is the rotation up to a global phase *)
Definition decomp_ok (names : list string) (name : string) (k : Z) : bool :=
  match rot_mat name k, seq_mat names (mid CycS) with
  | Some u, Some v => mat_prop u v
  | _, _ => false
  end.

(* the finite obligation behind the theorem for every k: residues r of k modulo the period that are
   Clifford, each paired with the two residues of k modulo 4*pi (32 units) compatible with r *)
Definition selection_ok (values : list Z) (table : list (string * Z * list string)) (period step : Z) : bool :=
  Z.eqb period 16 && Z.eqb step 4 &&
  forallb (fun name => forallb (fun r =>
      match decompose_nz values table period name r with
      | Some names => decomp_ok names name r && decomp_ok names name (r + 16)
      | None => false
      end) [0; 4; 8; 12]%Z) rotation_names.
