(* Noise.v — executable model of Tangelo's noisy-simulation front end (definitions only; proofs in
   NoiseProofs.v):
     * tangelo/linq/noisy_simulation/noise_models.py : NoiseModel.add_quantum_error (validation, storage)
     * tangelo/linq/translator/translate_cirq.py     : the "Add noisy gates" block of translate_c_to_cirq
       (which channel operations are appended after which gate, on which qubits, in which order)
     * tangelo/linq/target/backend.py                : the two constructor checks of Backend.__init__
   The literal constants of the source ('pauli', 'depol', 3, SUPPORTED_NOISE_MODELS, the CNOT -> CX
   renaming of multi-controlled CNOT gates, the rate expression) are NOT typed here: they are the
   record [ntables] regenerated from the source on every run (gen/NoiseTables.v).
   Rate is the type of error rates (Qc for execution, R / any ring for the theorems). *)
From Coq Require Import String ZArith NArith List Bool.
From Tangelo Require Import Num.KStruct QSem.State QSem.Density Linq.GateModel Linq.Interp.
Import ListNotations.
Open Scope string_scope.
Open Scope list_scope.

Record ntables : Type := NTables {
  supported : list string;          (* SUPPORTED_NOISE_MODELS *)
  v_pauli : string;                 (* add_quantum_error: noise_type == 'pauli' ... *)
  v_pauli_len : nat;                (* ... len(noise_params) != 3 *)
  v_depol : string;                 (* add_quantum_error: noise_type == 'depol' ... isinstance float *)
  t_pauli : string;                 (* translate_c_to_cirq: nt == 'pauli' *)
  t_depol : string;                 (* translate_c_to_cirq: nt == 'depol' *)
  rename_rule : option (string * string * nat)
                                    (* (from, to, m): a gate named `from` with more than m controls is
                                       looked up in the noise model under the name `to` *)
}.

Section Noise.
  Variable Rate : Type.
  Variable Ang : Type.
  Notation pgate := (pgate Ang).

  (* ---------------- Python values offered as noise parameters ---------------- *)
  Inductive pelem : Type := ENum (r : Rate) | EBad.                 (* a number | anything else *)
  Inductive pyparams : Type := VFloat (r : Rate) | VList (l : list pelem) | VOther.

  Definition nerr : Type := (string * pyparams)%type.              (* (noise_type, noise_params) *)
  Definition nmodel : Type := list (string * list nerr).           (* _quantum_errors (insertion ordered) *)

  Fixpoint lookup (g : string) (nm : nmodel) : option (list nerr) :=
    match nm with
    | [] => None
    | (k, v) :: r => if String.eqb g k then Some v else lookup g r
    end.
  Fixpoint update (g : string) (v : list nerr) (nm : nmodel) : nmodel :=
    match nm with
    | [] => []
    | (k, w) :: r => if String.eqb g k then (k, v) :: r else (k, w) :: update g v r
    end.
  Definition noisy_gates (nm : nmodel) : list string := map fst nm.
  Definition types_on (nm : nmodel) (g : string) : list string :=
    match lookup g nm with Some errs => map fst errs | None => [] end.

  Definition is_list_len (n : nat) (p : pyparams) : bool :=
    match p with VList l => Nat.eqb (length l) n | _ => false end.
  Definition is_float (p : pyparams) : bool := match p with VFloat _ => true | _ => false end.

  (* NoiseModel.add_quantum_error, checks in the order of the source *)
  Definition add_quantum_error (T : ntables) (nm : nmodel) (g nt : string) (np : pyparams) : res nmodel :=
    if negb (smem nt (supported T)) then Err ValueError else
    if String.eqb nt (v_pauli T) && negb (is_list_len (v_pauli_len T) np) then Err ValueError else
    if String.eqb nt (v_depol T) && negb (is_float np) then Err ValueError else
    match lookup g nm with
    | Some errs =>
      if negb (smem nt (map fst errs)) then Ok (update g (errs ++ [(nt, np)]) nm) else Err ValueError
    | None => Ok (nm ++ [(g, [(nt, np)])])
    end.

  (* a sequence of add_quantum_error calls; stops at the first rejected one *)
  Fixpoint build_nm (T : ntables) (nm : nmodel) (calls : list (string * string * pyparams)) : res nmodel :=
    match calls with
    | [] => Ok nm
    | (g, nt, np) :: r => do nm' <- add_quantum_error T nm g nt np; build_nm T nm' r
    end.

  (* ---------------- channel insertion ---------------- *)
  Inductive lop : Type :=
  | LGate (g : pgate)
  | LPauli (x y z : Rate) (q : Z)           (* cirq.asymmetric_depolarize(x, y, z) on qubit q *)
  | LDepol (p : Rate) (qs : list Z).        (* cirq.depolarize(p*(4**k-1)/4**k, k) on qubits qs, k = len qs *)

  (* what cirq accepts as probabilities (its constructors raise ValueError otherwise) *)
  Variable pauli_ok : Rate -> Rate -> Rate -> bool.
  Variable depol_ok : Rate -> nat -> bool.

  Definition n_controls (g : pgate) : nat := match pcontrol g with Some c => length c | None => 0 end.

  (* the name under which a gate is looked up in the noise model *)
  Definition key_of (rr : option (string * string * nat)) (g : pgate) : string :=
    match rr with
    | Some (from, to, m) => if String.eqb (pname g) from && Nat.ltb m (n_controls g) then to else pname g
    | None => pname g
    end.

  (* body of `for nt, np in noise_model._quantum_errors[gate.name]` for one (nt, np) *)
  Definition chan_ops (T : ntables) (g : pgate) (e : nerr) : res (list lop) :=
    let (nt, np) := e in
    if String.eqb nt (t_pauli T) then
      match np with
      | VList (ENum x :: ENum y :: ENum z :: _) =>
        if negb (pauli_ok x y z) then Err ValueError else
        let on_targets := map (LPauli x y z) (ptarget g) in
        match pcontrol g with
        | Some c => Ok (on_targets ++ map (LPauli x y z) c)
        | None => Ok on_targets
        end
      | _ => Err TypeError
      end
    else if String.eqb nt (t_depol T) then
      match np with
      | VFloat p =>
        let depo_list := match pcontrol g with Some c => ptarget g ++ c | None => ptarget g end in
        if negb (depol_ok p (length depo_list)) then Err ValueError else Ok [LDepol p depo_list]
      | _ => Err TypeError
      end
    else Ok [].

  Definition noise_for (T : ntables) (key : pgate -> string) (nm : nmodel) (g : pgate) : res (list lop) :=
    if smem (key g) (noisy_gates nm) then
      match lookup (key g) nm with
      | Some errs => fold_left (fun acc e => do a <- acc; do o <- chan_ops T g e; Ok (a ++ o)) errs (Ok [])
      | None => Err KeyError
      end
    else Ok [].

  (* the loop of translate_c_to_cirq restricted to what is appended to the target circuit *)
  Definition translate_noisy (T : ntables) (key : pgate -> string) (nm : nmodel) (gates : list pgate)
    : res (list lop) :=
    fold_left (fun acc g => do a <- acc; do n <- noise_for T key nm g; Ok (a ++ LGate g :: n)) gates (Ok []).

  (* ---------------- declarative specification of the placement ---------------- *)
  Definition spec_chan (T : ntables) (g : pgate) (e : nerr) : list lop :=
    let (nt, np) := e in
    if String.eqb nt (t_pauli T) then
      match np with
      | VList (ENum x :: ENum y :: ENum z :: _) => map (LPauli x y z) (gate_qubits g)
      | _ => []
      end
    else if String.eqb nt (t_depol T) then
      match np with VFloat p => [LDepol p (gate_qubits g)] | _ => [] end
    else [].
  Definition errors_on (nm : nmodel) (name : string) : list nerr :=
    match lookup name nm with Some errs => errs | None => [] end.
  (* the channels that follow one occurrence of g: every error attached to its name, in the order in
     which they were attached, each on targets then controls *)
  Definition spec_after (T : ntables) (key : pgate -> string) (nm : nmodel) (g : pgate) : list lop :=
    flat_map (spec_chan T g) (errors_on nm (key g)).
  Definition spec_insert (T : ntables) (key : pgate -> string) (nm : nmodel) (gates : list pgate) : list lop :=
    flat_map (fun g => LGate g :: spec_after T key nm g) gates.

  (* every channel the model would have to build is one cirq accepts *)
  Definition chan_valid (T : ntables) (g : pgate) (e : nerr) : bool :=
    match chan_ops T g e with Ok _ => true | Err _ => false end.

  Definition lgates_of (ops : list lop) : list pgate :=
    flat_map (fun o => match o with LGate g => [g] | _ => [] end) ops.

  (* ---------------- Backend.__init__ ---------------- *)
  (* noisy_sim, sv_avail: backend_info(); shots: truthiness of n_shots; has_nm: truthiness of noise_model *)
  Definition backend_init (noisy_sim sv_avail shots has_nm : bool) : res unit :=
    if has_nm && negb noisy_sim then Err ValueError else
    if negb shots && (negb sv_avail || has_nm) then Err ValueError else Ok tt.

  (* ---------------- interpretation in the mixed-state semantics ---------------- *)
  Variable S : KS.
  Variable ang : Ang -> A S.
  Variable rk : Rate -> K S.

  Definition interp_lop (o : lop) : option (nop S) :=
    match o with
    | LGate g => match interp S Ang ang g with Some G => Some (NGate G) | None => None end
    | LPauli x y z q => Some (NPauli (rk x) (rk y) (rk z) (zn q))
    | LDepol p qs => Some (NDepol (rk p) (map zn qs))
    end.
  Fixpoint interp_lops (ops : list lop) : option (list (nop S)) :=
    match ops with
    | [] => Some []
    | o :: r => match interp_lop o, interp_lops r with
                | Some o1, Some r1 => Some (o1 :: r1)
                | _, _ => None
                end
    end.

  Definition pelem_zero (e : pelem) : Prop := match e with ENum r => rk r = k0 | EBad => True end.
  Definition nerr_zero (e : nerr) : Prop :=
    match snd e with VFloat r => rk r = k0 | VList l => Forall pelem_zero l | VOther => True end.
  Definition nm_zero (nm : nmodel) : Prop := Forall (fun kv => Forall nerr_zero (snd kv)) nm.
End Noise.

Arguments ENum {_}. Arguments EBad {_}.
Arguments VFloat {_}. Arguments VList {_}. Arguments VOther {_}.
Arguments LGate {_ _}. Arguments LPauli {_ _}. Arguments LDepol {_ _}.
