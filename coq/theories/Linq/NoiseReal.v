(* NoiseReal.v — the real-number reading of the depolarising rate conversion (proofs):
   for real rates p, Tangelo's argument to cirq.depolarize, p' = p*(4^k-1)/4^k, gives the identity
   string the weight 1 - p + p/4^k and each of the 4^k - 1 other Pauli strings p'/(4^k-1) = p/4^k;
   and the ring-level definitions of Density.v (tangelo_rate, each_weight) computed in the instance
   CRealS on a real rate are exactly these real expressions. *)
From Coq Require Import Reals Lra Lia.
From Tangelo Require Import Num.KStruct Num.CReal QSem.State QSem.Density.
Local Open Scope R_scope.

Definition RtoC (p : R) : K CRealS := (p, 0).

Lemma pow4_pos k : 0 < 4 ^ k.
Proof. apply pow_lt. lra. Qed.

Lemma pow4_gt1 k : (1 <= k)%nat -> 1 < 4 ^ k.
Proof. intro H. apply Rlt_pow_R1; [lra | lia]. Qed.

(* each of the 4^k - 1 non-identity strings gets p'/(4^k-1) = p/4^k, the identity 1 - p' = 1 - p + p/4^k *)
Lemma rate_conversion_real (p : R) (k : nat) :
  (1 <= k)%nat ->
  let p' := p * (4 ^ k - 1) / 4 ^ k in
  p' / (4 ^ k - 1) = p / 4 ^ k /\ 1 - p' = 1 - p + p / 4 ^ k.
Proof.
  intro Hk. pose proof (pow4_gt1 k Hk) as H1. pose proof (pow4_pos k) as H0.
  simpl. split; field; lra.
Qed.

(* p in [0,1] gives a probability p' in [0, 1 - 1/4^k] *)
Lemma rate_range_real (p : R) (k : nat) :
  0 <= p <= 1 -> 0 <= p * (4 ^ k - 1) / 4 ^ k <= 1 - / 4 ^ k.
Proof.
  intros [Hp0 Hp1]. pose proof (pow4_pos k) as H0.
  assert (Hge : 1 <= 4 ^ k) by (apply pow_R1_Rle; lra).
  assert (E : p * (4 ^ k - 1) / 4 ^ k = p * (1 - / 4 ^ k)) by (field; lra).
  rewrite E.
  assert (Hi : 0 < / 4 ^ k) by (apply Rinv_0_lt_compat; exact H0).
  assert (Hi1 : / 4 ^ k <= 1) by (rewrite <- Rinv_1; apply Rinv_le_contravar; lra).
  split; nra.
Qed.

Lemma C_ext (x y : K CRealS) : fst x = fst y -> snd x = snd y -> x = y.
Proof. exact (C_eq x y). Qed.

Lemma four_real : four CRealS = RtoC 4.
Proof. apply C_ext; unfold four, RtoC; simpl; ring. Qed.

Lemma quarter_real : quarter CRealS = RtoC (/ 4).
Proof. apply C_ext; unfold quarter, RtoC; simpl; field. Qed.

Lemma kpow_real (a : R) k : kpow CRealS (RtoC a) k = RtoC (a ^ k).
Proof.
  induction k as [|k IH]; [reflexivity|].
  simpl kpow. rewrite IH. apply C_ext; unfold RtoC; simpl; ring.
Qed.

Theorem tangelo_rate_real (p : R) (k : nat) :
  tangelo_rate CRealS (RtoC p) k = RtoC (p * (4 ^ k - 1) / 4 ^ k).
Proof.
  unfold tangelo_rate. rewrite four_real, quarter_real, !kpow_real.
  pose proof (pow4_pos k) as H0.
  apply C_ext; unfold RtoC; simpl; rewrite pow_inv; field; lra.
Qed.

Theorem each_weight_real (p : R) (k : nat) : each_weight CRealS (RtoC p) k = RtoC (p / 4 ^ k).
Proof.
  unfold each_weight. rewrite quarter_real, kpow_real.
  pose proof (pow4_pos k) as H0.
  apply C_ext; unfold RtoC; simpl; rewrite pow_inv; field; lra.
Qed.

(* which parameters p are channels: in Tangelo's parametrisation (1-p) rho + p I/2^k the value handed to
   cirq.depolarize is a probability exactly when 0 <= p <= 4^k/(4^k-1); in particular every p in [0,1] and
   also p in (1, 4^k/(4^k-1)] (e.g. 4/3 on one qubit, 16/15 on two) *)
Lemma rate_channel_range_real (p : R) (k : nat) :
  (1 <= k)%nat ->
  (0 <= p * (4 ^ k - 1) / 4 ^ k <= 1 <-> 0 <= p <= 4 ^ k / (4 ^ k - 1)).
Proof.
  intro Hk. pose proof (pow4_gt1 k Hk) as H1. pose proof (pow4_pos k) as H0.
  assert (Hd : 0 < 4 ^ k - 1) by lra.
  assert (E : p * (4 ^ k - 1) / 4 ^ k = p * ((4 ^ k - 1) / 4 ^ k)) by (field; lra).
  assert (Hc : 0 < (4 ^ k - 1) / 4 ^ k) by (apply Rdiv_lt_0_compat; lra).
  assert (Ei : 4 ^ k / (4 ^ k - 1) * ((4 ^ k - 1) / 4 ^ k) = 1) by (field; lra).
  rewrite E. split.
  - intros [Ha Hb]. split.
    + apply (Rmult_le_reg_r ((4 ^ k - 1) / 4 ^ k)); [exact Hc | lra].
    + apply (Rmult_le_reg_r ((4 ^ k - 1) / 4 ^ k)); [exact Hc | lra].
  - intros [Ha Hb]. split.
    + apply Rmult_le_pos; lra.
    + apply Rle_trans with (4 ^ k / (4 ^ k - 1) * ((4 ^ k - 1) / 4 ^ k)); [apply Rmult_le_compat_r; lra | rewrite Ei; lra].
Qed.
