(* NoiseProofs.v — theorems about the model of Tangelo's noisy-simulation front end (Noise.v):
   add_quantum_error accepts exactly the well-formed specifications; the channel list built by the
   translation loop is "after every occurrence of each noisy gate, in gate order, every attached error
   in attachment order, on targets then controls"; a noise model whose rates are all zero denotes the
   noiseless circuit. *)
From Coq Require Import String ZArith NArith List Bool Lia.
From Tangelo Require Import Num.KStruct QSem.State QSem.StateLemmas QSem.Density QSem.DensityProofs
     Linq.GateModel Linq.Interp Linq.Noise.
Import ListNotations.
Open Scope string_scope.
Open Scope list_scope.

Lemma smem_In (s : string) (l : list string) : smem s l = true <-> In s l.
Proof.
  unfold smem. rewrite existsb_exists. split.
  - intros [x [Hx He]]. apply String.eqb_eq in He. subst. exact Hx.
  - intro H. exists s. split; [exact H | apply String.eqb_refl].
Qed.

Lemma smem_not_In (s : string) (l : list string) : smem s l = false <-> ~ In s l.
Proof. rewrite <- smem_In. destruct (smem s l); split; congruence. Qed.

(* folds that accumulate a list inside the error monad *)
Lemma fold_res_err {X Y} (step : res (list Y) -> X -> res (list Y)) (l : list X) e :
  (forall x, step (Err e) x = Err e) -> fold_left step l (Err e) = Err e.
Proof. intro H. induction l as [|x l IH]; simpl; [reflexivity|]. rewrite H. exact IH. Qed.

Lemma fold_res_app {X Y} (f : X -> res (list Y)) (l : list X) : forall a0,
  fold_left (fun acc x => do a <- acc; do n <- f x; Ok (a ++ n)) l (Ok a0)
  = do ns <- mapM f l; Ok (a0 ++ concat ns).
Proof.
  induction l as [|x l IH]; intro a0; simpl.
  - rewrite app_nil_r. reflexivity.
  - destruct (f x) as [n|e]; simpl.
    + rewrite IH. destruct (mapM f l) as [ns|e]; simpl; [|reflexivity]. rewrite app_assoc. reflexivity.
    + apply fold_res_err. intro y. reflexivity.
Qed.

Lemma fold_left_ext_all {X Y} (f g : Y -> X -> Y) (l : list X) :
  (forall a x, f a x = g a x) -> forall a, fold_left f l a = fold_left g l a.
Proof. intro H. induction l as [|x l IH]; intro a; simpl; [reflexivity|]. rewrite H. apply IH. Qed.

Lemma mapM_ext_in {X Y} (f g : X -> res Y) (l : list X) :
  (forall x, In x l -> f x = g x) -> mapM f l = mapM g l.
Proof.
  induction l as [|x l IH]; intro H; simpl; [reflexivity|].
  rewrite (H x (or_introl eq_refl)), IH; [reflexivity|]. intros y Hy. apply H. right. exact Hy.
Qed.

Lemma mapM_ok_flat {X Y} (f : X -> res (list Y)) (s : X -> list Y) (l : list X) ns :
  (forall x o, f x = Ok o -> o = s x) -> mapM f l = Ok ns -> concat ns = flat_map s l.
Proof.
  intro H. revert ns. induction l as [|x l IH]; intros ns Hm; simpl in *.
  - injection Hm as <-. reflexivity.
  - destruct (f x) as [o|e] eqn:Hf; simpl in Hm; [|discriminate].
    destruct (mapM f l) as [os|e] eqn:Hl; simpl in Hm; [|discriminate].
    injection Hm as <-. simpl. rewrite (H x o Hf), (IH os eq_refl). reflexivity.
Qed.

Lemma mapM_all_ok {X Y} (f : X -> res Y) (s : X -> Y) (l : list X) :
  (forall x, In x l -> f x = Ok (s x)) -> mapM f l = Ok (map s l).
Proof.
  induction l as [|x l IH]; intro H; simpl; [reflexivity|].
  rewrite (H x (or_introl eq_refl)). simpl. rewrite IH; [reflexivity|].
  intros y Hy. apply H. right. exact Hy.
Qed.

Lemma concat_map_flat {X Y} (s : X -> list Y) (l : list X) : concat (map s l) = flat_map s l.
Proof. induction l as [|x l IH]; simpl; [reflexivity|]. rewrite IH. reflexivity. Qed.

Section NoiseProofs.
  Variable Rate : Type.
  Variable Ang : Type.
  Notation pgate := (pgate Ang).
  Notation nmodel := (nmodel Rate).
  Notation nerr := (nerr Rate).
  Notation lop := (@lop Rate Ang).

  (* ---------------- the dictionary ---------------- *)
  Lemma lookup_none (g : string) (nm : nmodel) : lookup Rate g nm = None <-> ~ In g (noisy_gates Rate nm).
  Proof.
    induction nm as [|[k v] r IH]; simpl.
    - split; [intros _ H; exact H | reflexivity].
    - destruct (String.eqb_spec g k) as [->|Hne].
      + split; [discriminate | intro H; exfalso; apply H; left; reflexivity].
      + rewrite IH. split.
        * intros H [E|G]; [apply Hne; symmetry; exact E | apply H; exact G].
        * intros H G. apply H. right. exact G.
  Qed.

  Lemma lookup_update_same g v (nm : nmodel) w :
    lookup Rate g nm = Some w -> lookup Rate g (update Rate g v nm) = Some v.
  Proof.
    induction nm as [|[k u] r IH]; simpl; [discriminate|].
    destruct (String.eqb_spec g k) as [->|Hne]; simpl.
    - rewrite String.eqb_refl. reflexivity.
    - destruct (String.eqb_spec g k); [contradiction|]. exact IH.
  Qed.

  Lemma lookup_update_other g h v (nm : nmodel) :
    h <> g -> lookup Rate h (update Rate g v nm) = lookup Rate h nm.
  Proof.
    intro Hne. induction nm as [|[k u] r IH]; simpl; [reflexivity|].
    destruct (String.eqb_spec g k) as [->|Hgk]; simpl.
    - destruct (String.eqb_spec h k); [contradiction | reflexivity].
    - destruct (String.eqb_spec h k); [reflexivity | exact IH].
  Qed.

  Lemma update_keys g v (nm : nmodel) : noisy_gates Rate (update Rate g v nm) = noisy_gates Rate nm.
  Proof.
    induction nm as [|[k u] r IH]; simpl; [reflexivity|].
    destruct (String.eqb g k); simpl; [reflexivity|]. f_equal. exact IH.
  Qed.

  Lemma lookup_app_new g v (nm : nmodel) :
    lookup Rate g nm = None -> lookup Rate g (nm ++ [(g, v)]) = Some v.
  Proof.
    induction nm as [|[k u] r IH]; simpl.
    - rewrite String.eqb_refl. reflexivity.
    - destruct (String.eqb g k); [discriminate | exact IH].
  Qed.

  Lemma lookup_app_other g h v (nm : nmodel) :
    h <> g -> lookup Rate h (nm ++ [(g, v)]) = lookup Rate h nm.
  Proof.
    intro Hne. induction nm as [|[k u] r IH]; simpl.
    - destruct (String.eqb_spec h g); [contradiction | reflexivity].
    - destruct (String.eqb h k); [reflexivity | exact IH].
  Qed.

  (* ---------------- add_quantum_error accepts exactly the well-formed specifications ---------------- *)
  Definition spec_wellformed (T : ntables) (nm : nmodel) (g nt : string) (np : pyparams Rate) : Prop :=
    In nt (supported T)
    /\ (nt = v_pauli T -> exists l, np = VList l /\ length l = v_pauli_len T)
    /\ (nt = v_depol T -> exists r, np = VFloat r)
    /\ ~ In nt (types_on Rate nm g).

  Theorem add_quantum_error_iff T nm g nt np :
    (exists nm', add_quantum_error Rate T nm g nt np = Ok nm') <-> spec_wellformed T nm g nt np.
  Proof.
    unfold add_quantum_error, spec_wellformed, types_on.
    destruct (smem nt (supported T)) eqn:Hs; simpl.
    2:{ apply smem_not_In in Hs. split; [intros [? H]; discriminate | intros [H _]; contradiction]. }
    apply smem_In in Hs.
    destruct (String.eqb_spec nt (v_pauli T)) as [Hp|Hp]; simpl.
    - destruct np as [r|l|]; simpl.
      + split; [intros [? H]; discriminate|]. intros [_ [H _]]. destruct (H Hp) as [l [E _]]. discriminate.
      + destruct (Nat.eqb_spec (length l) (v_pauli_len T)) as [Hl|Hl]; simpl.
        * destruct (String.eqb_spec nt (v_depol T)) as [Hd|Hd]; simpl.
          -- split; [intros [? H]; discriminate|]. intros [_ [_ [H _]]]. destruct (H Hd) as [r E]. discriminate.
          -- destruct (lookup Rate g nm) as [errs|].
             ++ destruct (smem nt (map fst errs)) eqn:Hm; simpl.
                ** apply smem_In in Hm. split; [intros [? H]; discriminate|]. intros [_ [_ [_ H]]]. contradiction.
                ** apply smem_not_In in Hm. split; [|intros _; eexists; reflexivity].
                   intros _. repeat split; auto; [intros _; exists l; split; auto | intro; contradiction].
             ++ split; [|intros _; eexists; reflexivity].
                intros _. repeat split; auto; [intros _; exists l; split; auto | intro; contradiction].
        * split; [intros [? H]; discriminate|]. intros [_ [H _]]. destruct (H Hp) as [l' [E El]].
          injection E as <-. contradiction.
      + split; [intros [? H]; discriminate|]. intros [_ [H _]]. destruct (H Hp) as [l [E _]]. discriminate.
    - destruct (String.eqb_spec nt (v_depol T)) as [Hd|Hd]; simpl.
      + destruct np as [r|l|]; simpl.
        * destruct (lookup Rate g nm) as [errs|].
          -- destruct (smem nt (map fst errs)) eqn:Hm; simpl.
             ++ apply smem_In in Hm. split; [intros [? H]; discriminate|]. intros [_ [_ [_ H]]]. contradiction.
             ++ apply smem_not_In in Hm. split; [|intros _; eexists; reflexivity].
                intros _. repeat split; auto; [intro; contradiction | intros _; exists r; reflexivity].
          -- split; [|intros _; eexists; reflexivity].
             intros _. repeat split; auto; [intro; contradiction | intros _; exists r; reflexivity].
        * split; [intros [? H]; discriminate|]. intros [_ [_ [H _]]]. destruct (H Hd) as [r E]. discriminate.
        * split; [intros [? H]; discriminate|]. intros [_ [_ [H _]]]. destruct (H Hd) as [r E]. discriminate.
      + destruct (lookup Rate g nm) as [errs|].
        * destruct (smem nt (map fst errs)) eqn:Hm; simpl.
          -- apply smem_In in Hm. split; [intros [? H]; discriminate|]. intros [_ [_ [_ H]]]. contradiction.
          -- apply smem_not_In in Hm. split; [|intros _; eexists; reflexivity].
             intros _. repeat split; auto; intro; contradiction.
        * split; [|intros _; eexists; reflexivity].
          intros _. repeat split; auto; intro; contradiction.
  Qed.

  (* effect of an accepted call: the error is appended to the list of its gate, nothing else changes *)
  Theorem add_quantum_error_effect T nm g nt np nm' :
    add_quantum_error Rate T nm g nt np = Ok nm' ->
    errors_on Rate nm' g = errors_on Rate nm g ++ [(nt, np)]
    /\ (forall h, h <> g -> errors_on Rate nm' h = errors_on Rate nm h).
  Proof.
    unfold add_quantum_error, errors_on.
    destruct (negb (smem nt (supported T))); [discriminate|].
    destruct (String.eqb nt (v_pauli T) && negb (is_list_len Rate (v_pauli_len T) np)); [discriminate|].
    destruct (String.eqb nt (v_depol T) && negb (is_float Rate np)); [discriminate|].
    destruct (lookup Rate g nm) as [errs|] eqn:Hl.
    - destruct (negb (smem nt (map fst errs))); [|discriminate]. intro H. injection H as <-. split.
      + rewrite (lookup_update_same g _ nm errs Hl). reflexivity.
      + intros h Hh. rewrite lookup_update_other by exact Hh. reflexivity.
    - intro H. injection H as <-. split.
      + rewrite lookup_app_new by exact Hl. reflexivity.
      + intros h Hh. rewrite lookup_app_other by exact Hh. reflexivity.
  Qed.

  (* ---------------- placement ---------------- *)
  Variable pauli_ok : Rate -> Rate -> Rate -> bool.
  Variable depol_ok : Rate -> nat -> bool.
  Notation chan_ops := (chan_ops Rate Ang pauli_ok depol_ok).
  Notation noise_for := (noise_for Rate Ang pauli_ok depol_ok).
  Notation translate_noisy := (translate_noisy Rate Ang pauli_ok depol_ok).
  Notation spec_chan := (spec_chan Rate Ang).
  Notation spec_after := (spec_after Rate Ang).
  Notation spec_insert := (spec_insert Rate Ang).

  Lemma chan_ops_spec T g e o : chan_ops T g e = Ok o -> o = spec_chan T g e.
  Proof.
    destruct e as [nt np]. unfold Noise.chan_ops, Noise.spec_chan, gate_qubits.
    destruct (String.eqb nt (t_pauli T)).
    - destruct np as [r|l|]; try discriminate.
      destruct l as [|[x|] [|[y|] [|[z|] l]]]; try discriminate.
      destruct (negb (pauli_ok x y z)); [discriminate|].
      destruct (pcontrol g) as [c|]; intro H; injection H as <-; [rewrite map_app|]; reflexivity.
    - destruct (String.eqb nt (t_depol T)).
      + destruct np as [p|l|]; try discriminate.
        destruct (negb (depol_ok p _)); [discriminate|].
        intro H; injection H as <-. destruct (pcontrol g); reflexivity.
      + intro H; injection H as <-. reflexivity.
  Qed.

  Lemma noise_for_spec T key nm g n : noise_for T key nm g = Ok n -> n = spec_after T key nm g.
  Proof.
    unfold Noise.noise_for, Noise.spec_after, errors_on.
    destruct (smem (key g) (noisy_gates Rate nm)) eqn:Hs.
    - destruct (lookup Rate (key g) nm) as [errs|]; [|discriminate].
      rewrite (fold_res_app (chan_ops T g) errs []).
      destruct (mapM (chan_ops T g) errs) as [ns|e] eqn:Hm; simpl; [|discriminate].
      intro H; injection H as <-.
      apply (mapM_ok_flat (chan_ops T g) (spec_chan T g) errs ns); [|exact Hm].
      intros x o. apply chan_ops_spec.
    - apply smem_not_In in Hs. apply lookup_none in Hs. rewrite Hs.
      intro H; injection H as <-. reflexivity.
  Qed.

  Lemma translate_noisy_mapM T key nm gates :
    translate_noisy T key nm gates
    = do ns <- mapM (fun g => do n <- noise_for T key nm g; Ok (LGate g :: n)) gates; Ok (concat ns).
  Proof.
    unfold Noise.translate_noisy.
    transitivity (fold_left (fun acc x => do a <- acc;
                                          do n <- (fun g => do n <- noise_for T key nm g; Ok (LGate g :: n)) x;
                                          Ok (a ++ n)) gates (Ok [])).
    - apply fold_left_ext_all. intros acc g. destruct acc as [a|e]; simpl; [|reflexivity].
      destruct (noise_for T key nm g); reflexivity.
    - apply (fold_res_app (fun g => do n <- noise_for T key nm g; Ok (LGate g :: n)) gates []).
  Qed.

  (* MAIN: whatever the translation loop builds is the specified placement ... *)
  Theorem noise_placement T key nm gates ops :
    translate_noisy T key nm gates = Ok ops -> ops = spec_insert T key nm gates.
  Proof.
    rewrite translate_noisy_mapM.
    destruct (mapM _ gates) as [ns|e] eqn:Hm; simpl; [|discriminate].
    intro H; injection H as <-. unfold Noise.spec_insert.
    apply (mapM_ok_flat (fun g => do n <- noise_for T key nm g; Ok (LGate g :: n))
                        (fun g => LGate g :: spec_after T key nm g) gates ns); [|exact Hm].
    intros g o. destruct (noise_for T key nm g) as [n|e] eqn:Hn; simpl; [|discriminate].
    intro H; injection H as <-. rewrite (noise_for_spec T key nm g n Hn). reflexivity.
  Qed.

  (* ... and it is built whenever every channel it needs is one cirq accepts *)
  Lemma noise_for_total T key nm g :
    (forall e, In e (errors_on Rate nm (key g)) -> chan_valid Rate Ang pauli_ok depol_ok T g e = true) ->
    noise_for T key nm g = Ok (spec_after T key nm g).
  Proof.
    intro Hv. unfold Noise.noise_for, Noise.spec_after, errors_on in *.
    destruct (smem (key g) (noisy_gates Rate nm)) eqn:Hs.
    - destruct (lookup Rate (key g) nm) as [errs|] eqn:Hl.
      + rewrite (fold_res_app (chan_ops T g) errs []).
        rewrite (mapM_all_ok (chan_ops T g) (spec_chan T g) errs).
        * simpl. rewrite concat_map_flat. reflexivity.
        * intros e He. specialize (Hv e He). unfold chan_valid in Hv.
          destruct (chan_ops T g e) as [o|err] eqn:Ho; [|discriminate].
          rewrite (chan_ops_spec T g e o Ho). reflexivity.
      + apply smem_In in Hs. apply lookup_none in Hl. contradiction.
    - apply smem_not_In in Hs. apply lookup_none in Hs. rewrite Hs. reflexivity.
  Qed.

  Theorem noise_placement_total T key nm gates :
    (forall g e, In g gates -> In e (errors_on Rate nm (key g)) ->
                 chan_valid Rate Ang pauli_ok depol_ok T g e = true) ->
    translate_noisy T key nm gates = Ok (spec_insert T key nm gates).
  Proof.
    intro Hv. rewrite translate_noisy_mapM.
    rewrite (mapM_all_ok (fun g => do n <- noise_for T key nm g; Ok (LGate g :: n))
                         (fun g => LGate g :: spec_after T key nm g) gates).
    - simpl. rewrite concat_map_flat. reflexivity.
    - intros g Hg. rewrite noise_for_total; [reflexivity|]. intros e He. apply (Hv g e Hg He).
  Qed.

  (* "after every occurrence": the placement is local to each occurrence of a gate *)
  Theorem spec_insert_occurrence T key nm a g b :
    spec_insert T key nm (a ++ g :: b)
    = spec_insert T key nm a ++ LGate g :: spec_after T key nm g ++ spec_insert T key nm b.
  Proof. unfold Noise.spec_insert. rewrite flat_map_app. reflexivity. Qed.

  (* erasing the channels gives back the gate list, in order *)
  Lemma lgates_of_app (a b : list lop) : lgates_of Rate Ang (a ++ b) = lgates_of Rate Ang a ++ lgates_of Rate Ang b.
  Proof. unfold lgates_of. apply flat_map_app. Qed.

  Lemma spec_chan_no_gate T g e : lgates_of Rate Ang (spec_chan T g e) = [].
  Proof.
    destruct e as [nt np]. unfold Noise.spec_chan.
    destruct (String.eqb nt (t_pauli T)).
    - destruct np as [r|l|]; try reflexivity.
      destruct l as [|[x|] [|[y|] [|[z|] l]]]; try reflexivity.
      induction (gate_qubits g) as [|q qs IH]; [reflexivity | exact IH].
    - destruct (String.eqb nt (t_depol T)); [|reflexivity]. destruct np; reflexivity.
  Qed.

  Lemma spec_after_no_gate T key nm g : lgates_of Rate Ang (spec_after T key nm g) = [].
  Proof.
    unfold Noise.spec_after. induction (errors_on Rate nm (key g)) as [|e l IH]; [reflexivity|].
    simpl. rewrite lgates_of_app, spec_chan_no_gate, IH. reflexivity.
  Qed.

  Theorem spec_insert_gates T key nm gates : lgates_of Rate Ang (spec_insert T key nm gates) = gates.
  Proof.
    induction gates as [|g r IH]; [reflexivity|].
    unfold Noise.spec_insert in *. simpl flat_map.
    change (lgates_of Rate Ang (LGate g :: (spec_after T key nm g ++ flat_map (fun g0 => LGate g0 :: spec_after T key nm g0) r)))
      with (g :: lgates_of Rate Ang (spec_after T key nm g ++ flat_map (fun g0 => LGate g0 :: spec_after T key nm g0) r)).
    rewrite lgates_of_app, spec_after_no_gate, IH. reflexivity.
  Qed.

  (* two look-up rules that agree on the gates of a circuit give the same placement *)
  Theorem spec_insert_key_ext T key1 key2 nm gates :
    (forall g, In g gates -> key1 g = key2 g) -> spec_insert T key1 nm gates = spec_insert T key2 nm gates.
  Proof.
    intro H. unfold Noise.spec_insert. induction gates as [|g r IH]; [reflexivity|].
    simpl. unfold Noise.spec_after at 1 3. rewrite (H g (or_introl eq_refl)).
    f_equal. f_equal. apply IH. intros h Hh. apply H. right. exact Hh.
  Qed.

  Theorem translate_noisy_key_ext T key1 key2 nm gates :
    (forall g, In g gates -> key1 g = key2 g) -> translate_noisy T key1 nm gates = translate_noisy T key2 nm gates.
  Proof.
    intro H. rewrite !translate_noisy_mapM. f_equal.
    apply mapM_ext_in. intros g Hg. unfold Noise.noise_for. rewrite (H g Hg). reflexivity.
  Qed.

  (* the renaming rule only matters for gates it renames *)
  Lemma key_of_unrenamed from to m (g : pgate) :
    String.eqb (pname g) from && Nat.ltb m (n_controls Ang g) = false ->
    key_of Ang (Some (from, to, m)) g = pname g.
  Proof. intro H. unfold key_of. rewrite H. reflexivity. Qed.

  Theorem translate_noisy_rename_partial T from to m nm gates :
    Forall (fun g => String.eqb (pname g) from && Nat.ltb m (n_controls Ang g) = false) gates ->
    translate_noisy T (key_of Ang (Some (from, to, m))) nm gates = translate_noisy T (key_of Ang None) nm gates.
  Proof.
    intro H. apply translate_noisy_key_ext. intros g Hg. rewrite Forall_forall in H.
    rewrite (key_of_unrenamed from to m g (H g Hg)). reflexivity.
  Qed.

  (* ---------------- zero noise ---------------- *)
  Variable S : KS.
  Variable ang : Ang -> A S.
  Variable rk : Rate -> K S.
  Notation interp_lop := (interp_lop Rate Ang S ang rk).
  Notation interp_lops := (interp_lops Rate Ang S ang rk).

  Definition lop_zero (o : lop) : Prop :=
    match o with
    | LGate _ => True
    | LPauli x y z _ => rk x = k0 /\ rk y = k0 /\ rk z = k0
    | LDepol p _ => rk p = k0
    end.

  Lemma interp_lops_gates ops : forall nops,
    interp_lops ops = Some nops -> interp_all S Ang ang (lgates_of Rate Ang ops) = Some (gates_of S nops).
  Proof.
    induction ops as [|o ops IH]; intros nops H; simpl in H.
    - injection H as <-. reflexivity.
    - destruct (interp_lop o) as [O|] eqn:Ho; [|discriminate].
      destruct (interp_lops ops) as [R|] eqn:Hr; [|discriminate].
      injection H as <-. specialize (IH R eq_refl).
      destruct o as [g|x y z q|p qs]; simpl in Ho.
      + destruct (interp S Ang ang g) as [G|] eqn:Hg; [|discriminate]. injection Ho as <-.
        change (lgates_of Rate Ang (LGate g :: ops)) with (g :: lgates_of Rate Ang ops).
        simpl. rewrite Hg, IH. reflexivity.
      + injection Ho as <-. exact IH.
      + injection Ho as <-. exact IH.
  Qed.

  Lemma interp_lops_zero ops : forall nops,
    Forall lop_zero ops -> interp_lops ops = Some nops -> Forall (nop_zero S) nops.
  Proof.
    induction ops as [|o ops IH]; intros nops Hz H; simpl in H.
    - injection H as <-. constructor.
    - destruct (interp_lop o) as [O|] eqn:Ho; [|discriminate].
      destruct (interp_lops ops) as [R|] eqn:Hr; [|discriminate].
      injection H as <-. inversion Hz as [|o' ops' Hz1 Hz2]; subst. constructor; [|apply IH; auto].
      destruct o as [g|x y z q|p qs]; simpl in Ho.
      + destruct (interp S Ang ang g); [|discriminate]. injection Ho as <-. exact I.
      + injection Ho as <-. exact Hz1.
      + injection Ho as <-. exact Hz1.
  Qed.

  Lemma errors_on_zero (nm : nmodel) name : nm_zero Rate S rk nm -> Forall (nerr_zero Rate S rk) (errors_on Rate nm name).
  Proof.
    unfold nm_zero, errors_on. induction nm as [|[k v] r IH]; intro H; simpl; [constructor|].
    inversion H as [|kv r' H1 H2]; subst. destruct (String.eqb name k); [exact H1 | apply IH; exact H2].
  Qed.

  Lemma spec_chan_zero T g e : nerr_zero Rate S rk e -> Forall lop_zero (spec_chan T g e).
  Proof.
    destruct e as [nt np]. unfold nerr_zero, Noise.spec_chan. simpl.
    destruct (String.eqb nt (t_pauli T)).
    - destruct np as [r|l|]; try constructor.
      destruct l as [|[x|] [|[y|] [|[z|] l]]]; try constructor.
      intro H. inversion H as [|? ? Hx H1]; subst. inversion H1 as [|? ? Hy H2]; subst.
      inversion H2 as [|? ? Hz H3]; subst. simpl in Hx, Hy, Hz.
      apply Forall_forall. intros o Ho. apply in_map_iff in Ho. destruct Ho as [q [<- _]].
      simpl. auto.
    - destruct (String.eqb nt (t_depol T)); [|constructor].
      destruct np as [p|l|]; try constructor; [|constructor]. exact H.
  Qed.

  Lemma spec_insert_zero T key nm gates : nm_zero Rate S rk nm -> Forall lop_zero (spec_insert T key nm gates).
  Proof.
    intro Hz. unfold Noise.spec_insert. induction gates as [|g r IH]; [constructor|].
    simpl. constructor; [exact I|]. apply Forall_app. split; [|exact IH].
    unfold Noise.spec_after. pose proof (errors_on_zero nm (key g) Hz) as He.
    induction He as [|e l He1 _ IHe]; [constructor|]. simpl. apply Forall_app. split; [|exact IHe].
    apply spec_chan_zero. exact He1.
  Qed.

  (* MAIN: with all rates zero the noisy denotation of ANY circuit is |psi><psi| of the noiseless one *)
  Theorem zero_noise_is_noiseless T key nm gates ops nops :
    nm_zero Rate S rk nm ->
    translate_noisy T key nm gates = Ok ops -> interp_lops ops = Some nops ->
    exists C, interp_all S Ang ang gates = Some C
              /\ forall psi, deq S (den_nops S nops (pure S psi)) (pure S (den S C psi)).
  Proof.
    intros Hz Ht Hi. pose proof (noise_placement T key nm gates ops Ht) as ->.
    exists (gates_of S nops). split.
    - rewrite <- (spec_insert_gates T key nm gates) at 1. apply interp_lops_gates. exact Hi.
    - intro psi. apply zero_noise_noiseless.
      apply (interp_lops_zero _ _ (spec_insert_zero T key nm gates Hz) Hi).
  Qed.
End NoiseProofs.
