(* GateModel.v — executable model of tangelo/linq/gate.py (class Gate): construction with its
   validation, equality, inverse.  The name sets of gate.py are NOT typed here: they are a
   record [tables] which the translator regenerates from the source on every run (gen/GateTables.v).
   The angle type and the two float predicates used by the code are parameters:
     ang_small l a   models   abs(a) % period < param_threshold
     ang_eqmod l a b models   round(a % period, 7) == round(b % period, 7)
   where period is the long one (4*pi, controlled rotations) when l = true, else 2*pi.          *)
From Coq Require Import String Ascii ZArith List Bool.
Import ListNotations.
Open Scope string_scope.

Inductive err : Type := ValueError | TypeError | AttributeError | IndexError | KeyError.
Inductive res (X : Type) : Type := Ok (x : X) | Err (e : err).
Arguments Ok {_}. Arguments Err {_}.
Definition bind {X Y} (r : res X) (f : X -> res Y) : res Y :=
  match r with Ok x => f x | Err e => Err e end.
Notation "'do' x <- r ; k" := (bind r (fun x => k)) (at level 200, x name, r at level 100, k at level 200).

Fixpoint mapM {X Y} (f : X -> res Y) (l : list X) : res (list Y) :=
  match l with
  | [] => Ok []
  | x :: r => do y <- f x; do ys <- mapM f r; Ok (y :: ys)
  end.

Record tables : Type := Tables {
  one_target : list string;
  two_target : list string;
  parameterized : list string;
  invertible : list string;
  clifford : list string;
  rot_small : list string;       (* rot_gates of remove_small_rotations *)
  rot_merge : list string;       (* rot_gates of merge_rotations *)
  eq_long : list string;         (* names compared modulo the long period (4*pi) in Gate.__eq__ *)
  small_long : list string       (* names reduced modulo the long period in remove_small_rotations *)
}.

Definition smem (s : string) (l : list string) : bool := existsb (String.eqb s) l.

Fixpoint zmem (z : Z) (l : list Z) : bool :=
  match l with [] => false | y :: r => Z.eqb z y || zmem z r end.
Fixpoint znodup (l : list Z) : bool :=
  match l with [] => true | y :: r => negb (zmem y r) && znodup r end.
Fixpoint zlist_eqb (a b : list Z) : bool :=
  match a, b with
  | [], [] => true
  | x :: a', y :: b' => Z.eqb x y && zlist_eqb a' b'
  | _, _ => false
  end.
Definition ozlist_eqb (a b : option (list Z)) : bool :=
  match a, b with
  | None, None => true
  | Some x, Some y => zlist_eqb x y
  | _, _ => false
  end.

Section Gate.
  Variable Ang : Type.
  Variable ang_opp : Ang -> Ang.
  Variable ang_eqmod : bool -> Ang -> Ang -> bool.

  Inductive param : Type := PNone | PNum (a : Ang) | PStr (s : string).

  (* a Python value offered as a qubit index: an int, or something whose type is not int *)
  Inductive pyidx : Type := IInt (z : Z) | IBad.

  Record pgate : Type := PGate {
    pname : string; ptarget : list Z; pcontrol : option (list Z); pparam : param; pvar : bool }.

  Definition idx_ok (l : list pyidx) : bool :=
    forallb (fun i => match i with IInt z => Z.leb 0 z | IBad => false end) l.
  Definition idx_vals (l : list pyidx) : list Z :=
    map (fun i => match i with IInt z => z | IBad => 0%Z end) l.

  Definition starts_with_C (s : string) : bool :=
    match s with String c _ => Ascii.eqb c "C"%char | EmptyString => false end.

  Definition n_targets (T : tables) (name : string) (t : list Z) : nat :=
    if smem name (one_target T) then 1
    else if smem name (two_target T) then 2
    else length t.

  (* Gate.__init__ : order of the checks as in the source *)
  Definition mk_gate (T : tables) (name : string) (target : list pyidx)
             (control : option (list pyidx)) (p : param) (v : bool) : res pgate :=
    if negb (idx_ok target) then Err ValueError else
    let t := idx_vals target in
    do c <- match control with
            | None => Ok None
            | Some cl => if negb (starts_with_C name) then Err ValueError
                         else if negb (idx_ok cl) then Err ValueError
                         else Ok (Some (idx_vals cl))
            end;
    let all := match c with None => t | Some cl => (t ++ cl)%list end in
    if negb (znodup all) then Err ValueError else
    if negb (Nat.eqb (length t) (n_targets T name t)) then Err ValueError else
    Ok (PGate name t c p v).

  (* re-validation of an existing gate, as done by Circuit.add_gate's Gate(g.name, g.target, ...) *)
  Definition regate (T : tables) (g : pgate) : res pgate :=
    mk_gate T (pname g) (map IInt (ptarget g))
            (match pcontrol g with None => None | Some c => Some (map IInt c) end) (pparam g) (pvar g).

  Definition gate_qubits (g : pgate) : list Z :=
    match pcontrol g with None => ptarget g | Some c => (ptarget g ++ c)%list end.

  Definition is_cnot (s : string) : bool := String.eqb s "CNOT" || String.eqb s "CX".

  Definition param_eq (long : bool) (p q : param) : bool :=
    match p, q with
    | PNone, PNone => true
    | PNum a, PNum b => ang_eqmod long a b
    | PStr s, PStr t => String.eqb s t
    | _, _ => false
    end.

  (* Gate.__eq__ *)
  Definition gate_eq (T : tables) (g h : pgate) : bool :=
    (if is_cnot (pname g) && is_cnot (pname h) then true else String.eqb (pname g) (pname h))
    && zlist_eqb (ptarget g) (ptarget h) && ozlist_eqb (pcontrol g) (pcontrol h)
    && Bool.eqb (pvar g) (pvar h) && param_eq (smem (pname g) (eq_long T)) (pparam g) (pparam h).

  (* Gate.inverse; sym_s / sym_t : the parameters -pi/2 and -pi/4 of the inverse of S and T *)
  Variable ang_mpi2 : Ang.
  Variable ang_mpi4 : Ang.
  Definition gate_inverse (T : tables) (g : pgate) : res pgate :=
    if negb (smem (pname g) (invertible T)) then Err AttributeError else
    if String.eqb (pname g) "S" then Ok (PGate "PHASE" (ptarget g) (pcontrol g) (PNum ang_mpi2) (pvar g)) else
    if String.eqb (pname g) "T" then Ok (PGate "PHASE" (ptarget g) (pcontrol g) (PNum ang_mpi4) (pvar g)) else
    match pparam g with
    | PNone => Ok g
    | PNum a => Ok (PGate (pname g) (ptarget g) (pcontrol g) (PNum (ang_opp a)) (pvar g))
    | PStr _ => Err AttributeError
    end.
End Gate.

Arguments PNone {_}. Arguments PNum {_}. Arguments PStr {_}.
Arguments PGate {_}. Arguments pname {_}. Arguments ptarget {_}. Arguments pcontrol {_}.
Arguments pparam {_}. Arguments pvar {_}.
Arguments gate_qubits {_}. Arguments regate {_}. Arguments mk_gate {_}.
