(* MidCircuit.v — executable model of Tangelo's mid-circuit measurement machinery (definitions only;
   proofs in MidCircuitProofs.v):

   * [pieces]            circuit.py get_unitary_circuit_pieces
   * [replay]            the MEASURE/CMEASURE replay loop of circuit.py generate_applied_gates — queues
                         unitary_circuits / qubits / cmeasure_flags / precirc and all.  The flag [asis]
                         selects the loop exactly as written in the source ([asis = true]:
                         `precirc = [Circuit()]*len(qubits) + precirc` evaluated AFTER `qubits` was
                         extended) or the repaired loop ([asis = false]: as many empty circuits as NEW
                         measurements)
   * [sim_replay]        the second copy of the same loop in target_cirq.py (CMEASURE branch of
                         simulate_circuit), which also threads the statevector and the success
                         probability through an abstract backend (apply a gate list, collapse a qubit)
   * [piecewise]         target_cirq.py lines 232-260: the loop over unitary pieces for circuits with
                         MEASURE gates only (desired_meas_result given, n_shots None)
   * [selected]          the SPECIFICATION: the gates selected by the outcomes, by direct recursion on
                         the program text (a controlled measurement is replaced, in place, by the gate
                         list its outcome selects)
   * [collapse_keep]     the index logic of backend.py collapse_statevector_to_desired_measurement
                         (reshape to (before, 2, after), zero the slice of the other value), both orders
   * [collapse_norm]     its numerical part: projection, norm, 1e-14 guard, division

   Classical control: a CMEASURE gate whose parameter is a dictionary carries the two gate lists
   (a missing key is KeyError); a CMEASURE with a string parameter calls the circuit's
   cmeasure_control (function or ClassicalControl instance).  That callable may keep state, so it is
   modelled as a function of the list of all outcomes it has been called with so far (latest first).
   Loops run on explicit fuel: one unit per measurement performed; [EFuel] is the out-of-fuel value.
   When a desired outcome string is given, each measurement also consumes one character and running
   out is Python's IndexError ([EIndex]). *)
From Coq Require Import String ZArith NArith List Bool.
From Tangelo Require Import Num.KStruct QSem.State QSem.Measure.
Import ListNotations.

Inductive merr : Type := EIndex | EValue | EType | EKey | EFuel.
Inductive mres (X : Type) : Type := MOk (x : X) | MErr (e : merr).
Arguments MOk {_}. Arguments MErr {_}.
Definition mbind {X Y} (r : mres X) (f : X -> mres Y) : mres Y :=
  match r with MOk x => f x | MErr e => MErr e end.

(* ---------------- collapse_statevector_to_desired_measurement: index logic ---------------- *)
Inductive order : Type := LsqFirst | MsqFirst.

Definition before_len (o : order) (n q : N) : N :=
  match o with LsqFirst => 2 ^ q | MsqFirst => 2 ^ (n - 1 - q) end%N.
Definition after_len (o : order) (n q : N) : N :=
  match o with LsqFirst => 2 ^ (n - 1 - q) | MsqFirst => 2 ^ q end%N.
(* np.reshape(sv, (before, 2, after)) in C order: flat index i has middle coordinate (i / after) mod 2 *)
Definition mid_index (o : order) (n q i : N) : N := ((i / after_len o n q) mod 2)%N.
(* sv_selected[:, (result + 1) % 2, :] = 0 : the entry at flat index i survives iff its middle
   coordinate is not (result + 1) % 2 *)
Definition collapse_keep (o : order) (n q r i : N) : bool := negb (N.eqb (mid_index o n q i) ((r + 1) mod 2)%N).
(* the argument checks, in the order of the source (len = 2^n is implicit in the tabulation) *)
Definition collapse_check (n q r : N) : mres unit :=
  if (n - 1 <? q)%N then MErr EValue else if negb (N.eqb r 0 || N.eqb r 1) then MErr EValue else MOk tt.
(* which bit of the flat index holds qubit q in each convention: "lsq_first" is cirq's big-endian
   index (qubit 0 = most significant of n bits), "msq_first" the little-endian one *)
Definition qubit_of (o : order) (n q i : N) : bool :=
  match o with LsqFirst => N.testbit i (n - 1 - q) | MsqFirst => N.testbit i q end.

(* ---------------- shot records ---------------- *)
(* the record of one shot kept under save_mid_circuit_meas (keys of all_frequencies): the outcomes of the
   mid-circuit measurements in order of appearance, then the final measurement of qubits 0..n-1
   (x = little-endian basis index of the final register) *)
Definition record (n : nat) (ms : list bool) (x : N) : list bool :=
  ms ++ map (fun q => N.testbit x (N.of_nat q)) (seq 0 n).
(* the "run all shots at once" branch of target_cirq.py stores one column per cirq measurement key
   str(i), i = 0 .. n_meas + n - 1, and reads a shot's record off in NUMERIC key order *)
Definition assemble (meas : nat -> bool) (n_meas n : nat) : list bool := map meas (seq 0 (n_meas + n)).

(* ---------------- programs ---------------- *)
Section Program.
  Variable G : Type.                       (* unitary gates *)

  Inductive instr : Type :=
  | IU (g : G)
  | IMeas (q : Z)                                              (* Gate("MEASURE", q) *)
  | ICMeasD (q : Z) (d0 d1 : option (list instr))              (* Gate("CMEASURE", q, parameter={"0": .., "1": ..}) *)
  | ICMeasF (q : Z).                                           (* Gate("CMEASURE", q): parameter is a string *)

  (* cmeasure_flags entries: None / the string parameter / the dictionary *)
  Inductive flag : Type := FNone | FStr | FDict (d0 d1 : option (list instr)).

  (* entries of applied_gates: a unitary gate, or MEASURE / CMEASURE with the outcome as parameter *)
  Inductive aitem : Type := AG (g : G) | AMeas (q : Z) (b : bool) | ACMeas (q : Z) (b : bool).

  (* get_unitary_circuit_pieces: (circuits, measure_qubits, cmeasure_flags) *)
  Fixpoint pieces_from (prog : list instr) (gates : list G) : list (list G) * list Z * list flag :=
    match prog with
    | [] => ([gates], [], [])
    | IU g :: r => pieces_from r (gates ++ [g])
    | IMeas q :: r => let '(cs, qs, fs) := pieces_from r [] in (gates :: cs, q :: qs, FNone :: fs)
    | ICMeasD q d0 d1 :: r => let '(cs, qs, fs) := pieces_from r [] in (gates :: cs, q :: qs, FDict d0 d1 :: fs)
    | ICMeasF q :: r => let '(cs, qs, fs) := pieces_from r [] in (gates :: cs, q :: qs, FStr :: fs)
    end.
  Definition pieces (prog : list instr) := pieces_from prog [].

  (* where the outcomes come from: the characters of desired_meas_result, or (generate_applied_gates
     without a desired string) the constant "1" *)
  Inductive osrc : Type := ODesired (l : list bool) | OConst1.
  (* dmeas = None if not desired_meas_result else list(desired_meas_result): the empty string counts as None *)
  Definition src_of (d : option (list bool)) : osrc :=
    match d with Some (b :: r) => ODesired (b :: r) | _ => OConst1 end.
  Definition pop (s : osrc) : mres (bool * osrc) :=
    match s with
    | ODesired [] => MErr EIndex
    | ODesired (b :: r) => MOk (b, ODesired r)
    | OConst1 => MOk (true, OConst1)
    end.

  (* cmeasure_control: None, or a function of the outcomes it has been called with (latest first) *)
  Variable ctl : option (list bool -> list instr).

  (* what follows a measurement of qubit q with outcome b under flag f:
     (entry of applied_gates, gate list to splice in, updated call history of the control) *)
  Definition expand (f : flag) (q : Z) (b : bool) (hist : list bool) : mres (aitem * list instr * list bool) :=
    match f with
    | FNone => MOk (AMeas q b, [], hist)
    | FStr => match ctl with
              | None => MErr EType
              | Some c => MOk (ACMeas q b, c (b :: hist), b :: hist)
              end
    | FDict d0 d1 => match (if b then d1 else d0) with
                     | None => MErr EKey
                     | Some l => MOk (ACMeas q b, l, hist)
                     end
    end.

  (* ---- the four queues of the replay loop ---- *)
  Record queue : Type := Q { q_ucs : list (list G); q_qs : list Z; q_fs : list flag; q_pre : list (list G) }.

  Definition init_queue (prog : list instr) : queue :=
    let '(cs, qs, fs) := pieces prog in Q cs qs fs (repeat [] (length cs)).

  (* queue update at the end of one pass of `while len(unitary_circuits) > 1`, after the four `del`s:
       precirc[0] = new_unitary_circuits[-1] + precirc[0]
       if len(new_unitary_circuits) > 1: prepend the new pieces / qubits / flags, and empty circuits to precirc *)
  Definition requeue (asis : bool) (ucs' : list (list G)) (qs' : list Z) (fs' : list flag) (pre' : list (list G))
             (nu : list (list G)) (nq : list Z) (nf : list flag) : mres queue :=
    match pre' with
    | [] => MErr EIndex
    | p1 :: pre'' =>
      let pre1 := (last nu [] ++ p1) :: pre'' in
      if (1 <? length nu)%nat then
        let qs2 := nq ++ qs' in
        MOk (Q (removelast nu ++ ucs') qs2 (nf ++ fs')
               (repeat [] (if asis then length qs2 else length nq) ++ pre1))
      else MOk (Q ucs' qs' fs' pre1)
    end.

  (* generate_applied_gates: returns (applied gates from here on, outcomes used from here on) *)
  Fixpoint replay (asis : bool) (fuel : nat) (src : osrc) (hist : list bool) (s : queue)
    : mres (list aitem * list bool) :=
    match q_ucs s with
    | [] => MErr EIndex
    | [u] => match q_pre s with
             | p :: _ => MOk (map AG (p ++ u), [])
             | [] => MErr EIndex
             end
    | u0 :: ucs' =>
      match fuel with
      | O => MErr EFuel
      | S fu =>
        match q_pre s, q_qs s, q_fs s with
        | p0 :: pre', q0 :: qs', f0 :: fs' =>
          mbind (pop src) (fun bs =>
          mbind (expand f0 q0 (fst bs) hist) (fun e =>
            let '(tag, newg, hist') := e in
            let '(nu, nq, nf) := pieces newg in
            mbind (requeue asis ucs' qs' fs' pre' nu nq nf) (fun s' =>
            mbind (replay asis fu (snd bs) hist' s') (fun r =>
              MOk (map AG (p0 ++ u0) ++ tag :: fst r, fst bs :: snd r)))))
        | _, _, _ => MErr EIndex
        end
      end
    end.

  Definition generate_applied_gates (asis : bool) (fuel : nat) (d : option (list bool)) (prog : list instr) :=
    replay asis fuel (src_of d) [] (init_queue prog).

  (* ---- specification: the gates selected by the outcomes ---- *)
  Fixpoint split_first (prog : list instr) : list G * option (Z * flag * list instr) :=
    match prog with
    | [] => ([], None)
    | IU g :: r => let '(us, m) := split_first r in (g :: us, m)
    | IMeas q :: r => ([], Some (q, FNone, r))
    | ICMeasD q d0 d1 :: r => ([], Some (q, FDict d0 d1, r))
    | ICMeasF q :: r => ([], Some (q, FStr, r))
    end.

  Fixpoint selected (fuel : nat) (src : osrc) (hist : list bool) (prog : list instr)
    : mres (list aitem * list bool) :=
    match split_first prog with
    | (us, None) => MOk (map AG us, [])
    | (us, Some (q, f, rest)) =>
      match fuel with
      | O => MErr EFuel
      | S fu =>
        mbind (pop src) (fun bs =>
        mbind (expand f q (fst bs) hist) (fun e =>
          let '(tag, newg, hist') := e in
          mbind (selected fu (snd bs) hist' (newg ++ rest)) (fun r =>
            MOk (map AG us ++ tag :: fst r, fst bs :: snd r))))
      end
    end.

  (* ---- the copy of the loop in target_cirq.py, threading statevector and success probability ---- *)
  Section Sim.
    Variable K : Type.
    Variable St : Type.                                       (* statevector representation *)
    Variable qapply : list G -> St -> St.                     (* translate + simulate a unitary gate list *)
    Variable qcollapse : St -> Z -> bool -> mres (St * K).    (* collapse_statevector_to_desired_measurement *)
    Variable pmul : K -> K -> K.                              (* success_probability *= cprob *)

    (* `if c.size > 0: simulate` *)
    Definition sim_piece (c : list G) (sv : St) : St := match c with [] => sv | _ => qapply c sv end.

    Fixpoint sim_replay (asis : bool) (fuel : nat) (src : osrc) (hist : list bool) (s : queue) (sv : St) (P : K)
      : mres (list aitem * list bool * St * K) :=
      match q_ucs s with
      | [] => MErr EIndex
      | [u] => match q_pre s with
               | p :: _ => MOk (map AG (p ++ u), [], qapply (p ++ u) sv, P)
               | [] => MErr EIndex
               end
      | u0 :: ucs' =>
        match fuel with
        | O => MErr EFuel
        | S fu =>
          match q_pre s, q_qs s, q_fs s with
          | p0 :: pre', q0 :: qs', f0 :: fs' =>
            let sv1 := sim_piece (p0 ++ u0) sv in
            mbind (pop src) (fun bs =>
            mbind (qcollapse sv1 q0 (fst bs)) (fun wc =>
            mbind (expand f0 q0 (fst bs) hist) (fun e =>
              let '(tag, newg, hist') := e in
              let '(nu, nq, nf) := pieces newg in
              mbind (requeue asis ucs' qs' fs' pre' nu nq nf) (fun s' =>
              mbind (sim_replay asis fu (snd bs) hist' s' (fst wc) (pmul P (snd wc))) (fun r =>
                let '(items, ms, svf, Pf) := r in
                MOk (map AG (p0 ++ u0) ++ tag :: items, fst bs :: ms, svf, Pf))))))
          | _, _, _ => MErr EIndex
          end
        end
      end.

    (* target_cirq.py 232-260 (no CMEASURE): for i, circ in enumerate(unitary_circuits[:-1]) *)
    Fixpoint piecewise_loop (ucs : list (list G)) (qs : list Z) (d : list bool) (sv : St) (P : K) : mres (St * K) :=
      match ucs with
      | [] => MOk (sv, P)
      | c :: ucs' =>
        match qs, d with
        | q :: qs', b :: d' =>
          mbind (qcollapse (sim_piece c sv) q b) (fun wc => piecewise_loop ucs' qs' d' (fst wc) (pmul P (snd wc)))
        | _, _ => MErr EIndex
        end
      end.
    Definition piecewise (prog : list instr) (d : list bool) (sv : St) (one : K) : mres (St * K) :=
      let '(ucs, qs, _) := pieces prog in
      mbind (piecewise_loop (removelast ucs) qs d sv one) (fun r => MOk (qapply (last ucs []) (fst r), snd r)).
  End Sim.
End Program.

Arguments IU {_}. Arguments IMeas {_}. Arguments ICMeasD {_}. Arguments ICMeasF {_}.
Arguments FNone {_}. Arguments FStr {_}. Arguments FDict {_}.
Arguments AG {_}. Arguments AMeas {_}. Arguments ACMeas {_}.
Arguments Q {_}. Arguments q_ucs {_}. Arguments q_qs {_}. Arguments q_fs {_}. Arguments q_pre {_}.

(* ---------------- quantum semantics of applied-gate lists; the numerical collapse ---------------- *)
Section Semantics.
  Variable S : KS.
  Variable G : Type.
  Variable gden : G -> state S -> state S.         (* denotation of one unitary gate *)
  Open Scope K_scope.
  Notation state := (state S).

  Definition zq (q : Z) : N := Z.to_N q.
  Definition gapply (c : list G) (psi : state) : state := fold_left (fun s g => gden g s) c psi.

  (* the unnormalised vector produced by an applied-gate list: gates act, measurements project *)
  Definition item_den (it : aitem G) (psi : state) : state :=
    match it with
    | AG g => gden g psi
    | AMeas q b => proj S (zq q) b psi
    | ACMeas q b => proj S (zq q) b psi
    end.
  Definition run_items (items : list (aitem G)) (psi : state) : state := fold_left (fun s it => item_den it s) items psi.

  (* numerical part of collapse_statevector_to_desired_measurement with ignore_zero_prob = False:
       sqrt_probability = np.linalg.norm(sv_selected); if < 1e-14 raise ValueError;
       return sv_selected / sqrt_probability, sqrt_probability**2
     rnorm is the norm (a real square root of the squared norm), tiny the 1e-14 test, rinv 1/x. *)
  Variable rnorm : state -> K S.
  Variable tiny : K S -> bool.
  Variable rinv : K S -> K S.
  Definition collapse_norm (psi : state) (q : Z) (b : bool) : mres (state * K S) :=
    let w := proj S (zq q) b psi in
    let r := rnorm w in
    if tiny r then MErr EValue else MOk (sscale S (rinv r) w, r * r).

  (* exact, division-free variant used for execution: keeps the unnormalised vector; the "probability"
     it reports is the squared norm of that vector, which already is the joint probability, so the
     accumulator is overwritten rather than multiplied (pmul := fun _ new => new) *)
  Variable n : nat.
  Variable is_zero : K S -> bool.
  Definition collapse_exact (psi : state) (q : Z) (b : bool) : mres (state * K S) :=
    let w := proj S (zq q) b psi in
    let p := norm2 S n w in
    if is_zero p then MErr EValue else MOk (w, p).
End Semantics.
