(* CircuitProofs.v — theorems about the circuit model: the metadata invariant of C11 holds in every
   reachable store, for every history of operations (induction over the operation list). *)
From Coq Require Import String Ascii ZArith List Bool Arith Lia.
From Tangelo Require Import Linq.GateModel Linq.CircuitModel Linq.History.
Import ListNotations.

(* ---- facts about the list/Z helpers (no dependence on the model parameters) ---- *)
  Lemma zinsert_in z q s : In q (zinsert z s) <-> q = z \/ In q s.
  Proof.
    induction s as [|y r IH]; simpl.
    - intuition.
    - destruct (Z.ltb z y) eqn:E1; simpl.
      + intuition.
      + destruct (Z.eqb z y) eqn:E2; simpl.
        * apply Z.eqb_eq in E2. subst. intuition.
        * rewrite IH. intuition.
  Qed.

  Lemma zmem_In z l : zmem z l = true <-> In z l.
  Proof.
    induction l as [|y r IH]; simpl; [intuition discriminate|].
    rewrite orb_true_iff, IH, Z.eqb_eq. intuition.
  Qed.

  Lemma znodup_NoDup l : znodup l = true <-> NoDup l.
  Proof.
    induction l as [|y r IH]; simpl.
    - split; [constructor | reflexivity].
    - rewrite andb_true_iff, negb_true_iff, IH. split.
      + intros [H1 H2]. constructor; [|assumption]. intro Hin. apply zmem_In in Hin. congruence.
      + intro H. inversion H; subst. split; [|assumption].
        destruct (zmem y r) eqn:E; [|reflexivity]. apply zmem_In in E. contradiction.
  Qed.

  Lemma zmax_ge l q : In q l -> (q <= zmax l)%Z.
  Proof. induction l as [|a r IH]; simpl; [contradiction|]. intros [->|H]; [lia | specialize (IH H); lia]. Qed.

  Lemma filter_nonempty_existsb {X} (f : X -> bool) l :
    match filter f l with [] => false | _ :: _ => true end = existsb f l.
  Proof. induction l as [|x r IH]; simpl; [reflexivity|]. destruct (f x); simpl; [reflexivity | exact IH]. Qed.

  Lemma existsb_or {X} (f g : X -> bool) l :
    existsb f l || existsb g l = existsb (fun x => f x || g x) l.
  Proof.
    induction l as [|x r IH]; simpl; [reflexivity|]. rewrite <- IH.
    destruct (f x), (g x), (existsb f r), (existsb g r); reflexivity.
  Qed.

  Lemma zlookup_in k m v : zlookup k m = Some v -> In v (map snd m).
  Proof.
    induction m as [|[a b] r IH]; simpl; [discriminate|].
    destruct (Z.eqb k a); [intro H; inversion H; auto | auto].
  Qed.

  Lemma combine_snd_in {X Y} (a : list X) (b : list Y) y : In y (map snd (combine a b)) -> In y b.
  Proof.
    revert b. induction a as [|x r IH]; simpl; intros b H; [contradiction|].
    destruct b as [|y0 b']; simpl in *; [contradiction|]. destruct H; [left; assumption | right; apply IH; assumption].
  Qed.

Section Proofs.
  Variable Ang : Type.
  Variable ang_add : Ang -> Ang -> Ang.
  Variable ang_opp : Ang -> Ang.
  Variable ang_small : bool -> Ang -> bool.
  Variable ang_eqmod : bool -> Ang -> Ang -> bool.
  Variable ang_mpi2 : Ang.
  Variable ang_mpi4 : Ang.
  Variable T : tables.

  Notation pgate := (pgate Ang).
  Notation circ := (circ Ang).
  Notation cgates := (cgates Ang). Notation cnq := (cnq Ang). Notation cidx := (cidx Ang).
  Notation ccounts := (ccounts Ang). Notation cncounts := (cncounts Ang). Notation cvar := (cvar Ang).
  Notation counts_of := (counts_of Ang). Notation ncounts_of := (ncounts_of Ang).
  Notation add_gate := (add_gate Ang T). Notation add_all := (add_all Ang T).
  Notation build := (build Ang T). Notation empty_circ := (empty_circ Ang).
  Notation step := (step Ang ang_add ang_opp ang_small ang_eqmod ang_mpi2 ang_mpi4 T).
  Notation final := (final Ang ang_add ang_opp ang_small ang_eqmod ang_mpi2 ang_mpi4 T).

  (* ---------------- the invariant ---------------- *)
  Definition Inv (c : circ) : Prop :=
    ccounts c = counts_of (cgates c)
    /\ cncounts c = ncounts_of (cgates c)
    /\ cvar c = filter (fun g => pvar g) (cgates c)
    /\ (forall g q, In g (cgates c) -> In q (gate_qubits g) -> In q (cidx c)).

  (* ---------------- helpers ---------------- *)

  Lemma track_true nq qs idx idx' :
    track nq qs idx = (idx', true) -> forall q, In q idx' <-> In q idx \/ In q qs.
  Proof.
    revert idx. induction qs as [|a r IH]; simpl; intros idx H q.
    - inversion H; subst. intuition.
    - destruct (truthy nq && match nq with Some n => (n <=? a)%Z | None => false end); [discriminate|].
      apply IH with (q := q) in H. rewrite H, zinsert_in. intuition.
  Qed.

  Lemma idx_vals_map_IInt (l : list Z) : idx_vals (map IInt l) = l.
  Proof. induction l as [|a r IH]; simpl; [reflexivity | rewrite IH; reflexivity]. Qed.

  Lemma regate_ok_eq (g gate : pgate) : regate T g = Ok gate -> gate = g.
  Proof.
    unfold regate, mk_gate. destruct g as [n t c p v]; simpl.
    destruct (negb (idx_ok (map IInt t))); [discriminate|].
    rewrite idx_vals_map_IInt.
    destruct c as [cl|]; simpl.
    - destruct (negb (starts_with_C n)); simpl; [discriminate|].
      destruct (negb (idx_ok (map IInt cl))); simpl; [discriminate|].
      rewrite idx_vals_map_IInt.
      destruct (negb (znodup (t ++ cl))); [discriminate|].
      destruct (negb (length t =? n_targets T n t)%nat); [discriminate|].
      intro H; inversion H; reflexivity.
    - destruct (negb (znodup t)); [discriminate|].
      destruct (negb (length t =? n_targets T n t)%nat); [discriminate|].
      intro H; inversion H; reflexivity.
  Qed.

  Lemma counts_of_snoc gs g : counts_of (gs ++ [g]) = incr_s (pname g) (counts_of gs).
  Proof. unfold CircuitModel.counts_of. rewrite fold_left_app. reflexivity. Qed.
  Lemma ncounts_of_snoc gs g : ncounts_of (gs ++ [g]) = incr_n (length (gate_qubits g)) (ncounts_of gs).
  Proof. unfold CircuitModel.ncounts_of. rewrite fold_left_app. reflexivity. Qed.

  (* ---------------- add_gate ---------------- *)
  Lemma add_gate_err_unchanged c g c' e : add_gate c g = (c', Err e) -> c' = c.
  Proof.
    unfold CircuitModel.add_gate. destruct (regate T g) as [gate|e0].
    - destruct (track (cnq c) (gate_qubits gate) (cidx c)) as [idx [|]]; intro H; inversion H; reflexivity.
    - intro H; inversion H; reflexivity.
  Qed.

  Lemma add_gate_inv c g c' r : Inv c -> add_gate c g = (c', r) -> Inv c'.
  Proof.
    intros (Hc & Hn & Hv & Hq). unfold CircuitModel.add_gate.
    destruct (regate T g) as [gate|e0] eqn:Hg.
    2:{ intro H; inversion H; subst. repeat split; assumption. }
    destruct (track (cnq c) (gate_qubits gate) (cidx c)) as [idx [|]] eqn:Ht.
    2:{ intro H; inversion H; subst. repeat split; assumption. }
    intro H; inversion H; subst; clear H. unfold Inv; simpl.
    rewrite counts_of_snoc, ncounts_of_snoc, filter_app, Hc, Hn, Hv. simpl.
    repeat split.
    - destruct (pvar gate); [reflexivity | rewrite app_nil_r; reflexivity].
    - intros g0 q Hin Hqq. rewrite (track_true _ _ _ _ Ht).
      apply in_app_or in Hin. destruct Hin as [Hin|[Heq|[]]].
      + left. eapply Hq; eassumption.
      + subst. right. assumption.
  Qed.

  Lemma add_all_inv gs : forall c c', Inv c -> add_all c gs = Ok c' -> Inv c'.
  Proof.
    induction gs as [|g r IH]; simpl; intros c c' Hi H.
    - inversion H; subst; assumption.
    - destruct (add_gate c g) as [c1 [u|e]] eqn:Ha; [|discriminate].
      eapply IH; [|eassumption]. eapply add_gate_inv; eassumption.
  Qed.

  Lemma empty_inv nq : Inv (empty_circ nq).
  Proof. unfold Inv; simpl. repeat split; intros; contradiction. Qed.

  Lemma build_inv gs nq c : build gs nq = Ok c -> Inv c.
  Proof. unfold CircuitModel.build. apply add_all_inv, empty_inv. Qed.

  (* ---------------- remapping (trim_qubits, reindex_qubits) ---------------- *)
  Lemma mapM_length {X Y} (f : X -> res Y) l l' : mapM f l = Ok l' -> length l' = length l.
  Proof.
    revert l'. induction l as [|a r IH]; simpl; intros l' H.
    - inversion H; reflexivity.
    - destruct (f a); simpl in H; [|discriminate]. destruct (mapM f r); simpl in H; [|discriminate].
      inversion H; subst. simpl. f_equal. apply IH. reflexivity.
  Qed.

  Lemma mapM_in {X Y} (f : X -> res Y) l l' y :
    mapM f l = Ok l' -> In y l' -> exists x, In x l /\ f x = Ok y.
  Proof.
    revert l'. induction l as [|a r IH]; simpl; intros l' H Hin.
    - inversion H; subst. contradiction.
    - destruct (f a) eqn:Hf; simpl in H; [|discriminate].
      destruct (mapM f r) eqn:Hm; simpl in H; [|discriminate].
      inversion H; subst. destruct Hin as [->|Hin].
      + exists a. auto.
      + destruct (IH _ eq_refl Hin) as (xx & Hx & Hfx). exists xx. auto.
  Qed.


  Lemma remap_list_in m l l' q : remap_list m l = Ok l' -> In q l' -> In q (map snd m).
  Proof.
    unfold remap_list. intros H Hin. destruct (mapM_in _ _ _ _ H Hin) as (x & _ & Hx).
    destruct (zlookup x m) eqn:Hz; [|discriminate]. inversion Hx; subst. eapply zlookup_in; eassumption.
  Qed.

  Notation remap_gate := (remap_gate Ang).

  Lemma remap_gate_facts m g g' :
    remap_gate m g = Ok g' ->
    pname g' = pname g /\ pvar g' = pvar g /\ length (gate_qubits g') = length (gate_qubits g)
    /\ (forall q, In q (gate_qubits g') -> In q (map snd m)).
  Proof.
    unfold CircuitModel.remap_gate. destruct (remap_list m (ptarget g)) as [t|] eqn:Ht; simpl; [|discriminate].
    destruct (pcontrol g) as [[|c0 cl]|] eqn:Hc; simpl.
    - intro H; inversion H; subst; simpl. unfold gate_qubits; simpl. rewrite Hc.
      repeat split; auto.
      + unfold remap_list in Ht. rewrite !app_nil_r. apply (mapM_length _ _ _ Ht).
      + intros q Hq. rewrite app_nil_r in Hq. eapply remap_list_in; eassumption.
    - destruct (remap_list m (c0 :: cl)) as [cl'|] eqn:Hcl; simpl; [|discriminate].
      intro H; inversion H; subst; simpl. unfold gate_qubits; simpl. rewrite Hc.
      repeat split; auto.
      + unfold remap_list in Ht, Hcl. rewrite !app_length, (mapM_length _ _ _ Ht), (mapM_length _ _ _ Hcl). reflexivity.
      + intros q Hq. apply in_app_or in Hq. destruct Hq as [Hq|Hq]; [apply (remap_list_in _ _ _ _ Ht Hq) | apply (remap_list_in _ _ _ _ Hcl Hq)].
    - intro H; inversion H; subst; simpl. unfold gate_qubits; simpl. rewrite Hc.
      repeat split; auto.
      + unfold remap_list in Ht. apply (mapM_length _ _ _ Ht).
      + intros q Hq. eapply remap_list_in; eassumption.
  Qed.

  Lemma counts_of_remap m gs gs' : mapM (remap_gate m) gs = Ok gs' -> counts_of gs' = counts_of gs.
  Proof.
    unfold CircuitModel.counts_of. generalize (@nil (string * nat)). revert gs'.
    induction gs as [|g r IH]; simpl; intros gs' acc H.
    - inversion H; reflexivity.
    - destruct (remap_gate m g) as [g'|] eqn:Hg; simpl in H; [|discriminate].
      destruct (mapM (remap_gate m) r) as [r'|] eqn:Hr; simpl in H; [|discriminate].
      inversion H; subst; simpl. destruct (remap_gate_facts _ _ _ Hg) as (Hn & _). rewrite Hn.
      apply IH. reflexivity.
  Qed.

  Lemma ncounts_of_remap m gs gs' : mapM (remap_gate m) gs = Ok gs' -> ncounts_of gs' = ncounts_of gs.
  Proof.
    unfold CircuitModel.ncounts_of. generalize (@nil (nat * nat)). revert gs'.
    induction gs as [|g r IH]; simpl; intros gs' acc H.
    - inversion H; reflexivity.
    - destruct (remap_gate m g) as [g'|] eqn:Hg; simpl in H; [|discriminate].
      destruct (mapM (remap_gate m) r) as [r'|] eqn:Hr; simpl in H; [|discriminate].
      inversion H; subst; simpl. destruct (remap_gate_facts _ _ _ Hg) as (_ & _ & Hl & _). rewrite Hl.
      apply IH. reflexivity.
  Qed.

  Lemma filter_remap m gs gs' :
    mapM (remap_gate m) gs = Ok gs' ->
    mapM (remap_gate m) (filter (fun g => pvar g) gs) = Ok (filter (fun g => pvar g) gs').
  Proof.
    revert gs'. induction gs as [|g r IH]; simpl; intros gs' H.
    - inversion H; reflexivity.
    - destruct (remap_gate m g) as [g'|] eqn:Hg; simpl in H; [|discriminate].
      destruct (mapM (remap_gate m) r) as [r'|] eqn:Hr; simpl in H; [|discriminate].
      inversion H; subst; simpl. destruct (remap_gate_facts _ _ _ Hg) as (_ & Hv & _). rewrite Hv.
      destruct (pvar g); simpl; [rewrite Hg; simpl|]; rewrite (IH _ eq_refl); reflexivity.
  Qed.

  Lemma remap_inv c m gs vs idx :
    Inv c -> mapM (remap_gate m) (cgates c) = Ok gs -> mapM (remap_gate m) (cvar c) = Ok vs ->
    (forall q, In q (map snd m) -> In q idx) ->
    Inv (Circ Ang gs (cnq c) idx (ccounts c) (cncounts c) vs).
  Proof.
    intros (Hc & Hn & Hv & Hq) Hg Hvs Hidx. unfold Inv; simpl. repeat split.
    - rewrite Hc. symmetry. eapply counts_of_remap; eassumption.
    - rewrite Hn. symmetry. eapply ncounts_of_remap; eassumption.
    - rewrite Hv in Hvs. rewrite (filter_remap _ _ _ Hg) in Hvs. inversion Hvs; reflexivity.
    - intros g q Hin Hqq. apply Hidx. destruct (mapM_in _ _ _ _ Hg Hin) as (g0 & _ & Hg0).
      destruct (remap_gate_facts _ _ _ Hg0) as (_ & _ & _ & Hall). apply Hall; assumption.
  Qed.


  Lemma trim_inv c c' : Inv c -> trim_qubits Ang c = Ok c' -> Inv c'.
  Proof.
    intros Hi. unfold CircuitModel.trim_qubits.
    destruct (mapM _ (cgates c)) as [gs|] eqn:Hg; simpl; [|discriminate].
    destruct (mapM _ (cvar c)) as [vs|] eqn:Hv; simpl; [|discriminate].
    intro H; inversion H; subst. eapply remap_inv; try eassumption.
    intros q Hq. eapply combine_snd_in; eassumption.
  Qed.

  Lemma zset_of_in l q : In q l -> In q (zset_of l).
  Proof.
    unfold zset_of. assert (G : forall acc, In q l \/ In q acc -> In q (fold_left (fun s z => zinsert z s) l acc)).
    { induction l as [|a r IH]; simpl; intros acc [H|H]; try contradiction; try assumption.
      - destruct H as [->|H]; apply IH; [right; apply zinsert_in; auto | left; assumption].
      - apply IH. right. apply zinsert_in. auto. }
    intro H. apply G. auto.
  Qed.

  Lemma reindex_inv c new c' r : Inv c -> reindex_qubits Ang c new = (c', r) -> Inv c'.
  Proof.
    intros Hi. unfold CircuitModel.reindex_qubits.
    destruct (negb (length new =? length (cidx c))%nat); [intro H; inversion H; subst; assumption|].
    destruct (mapM _ (cgates c)) as [gs|] eqn:Hg; [|intro H; inversion H; subst; assumption].
    destruct (mapM _ (cvar c)) as [vs|] eqn:Hv; [|intro H; inversion H; subst; assumption].
    intro H; inversion H; subst. eapply remap_inv; try eassumption.
    intros q Hq. apply zset_of_in. eapply combine_snd_in; eassumption.
  Qed.

  (* ---------------- stores and histories ---------------- *)
  Definition SInv (s : list circ) : Prop := Forall Inv s.

  Lemma set_at_inv s i c : SInv s -> Inv c -> SInv (set_at Ang s i c).
  Proof.
    revert i. induction s as [|x r IH]; simpl; intros i Hs Hc; [constructor|].
    inversion Hs; subst. destruct i; constructor; auto. apply IH; assumption.
  Qed.

  Lemma push_inv s r : SInv s -> (forall c, r = Ok c -> Inv c) -> SInv (fst (push Ang s r)).
  Proof.
    intros Hs Hr. destruct r as [c|e]; simpl; [|assumption].
    apply Forall_app. split; [assumption | constructor; [apply Hr; reflexivity | constructor]].
  Qed.

  Lemma replace_inv s i r : SInv s -> (forall c, r = Ok c -> Inv c) -> SInv (fst (replace_ Ang s i r)).
  Proof.
    intros Hs Hr. destruct r as [c|e]; simpl; [|assumption]. apply set_at_inv; auto.
  Qed.

  Lemma nth_error_inv s i c : SInv s -> nth_error s i = Some c -> Inv c.
  Proof. intros Hs H. unfold SInv in Hs. rewrite Forall_forall in Hs. apply Hs. eapply nth_error_In; eassumption. Qed.

  Lemma bind_build {X} (r : res X) (f : X -> list pgate) nq c :
    (do x <- r; build (f x) nq) = Ok c -> Inv c.
  Proof. destruct r; simpl; [apply build_inv | discriminate]. Qed.

  Lemma bind_build_id (r : res (list pgate)) nq c : (do x <- r; build x nq) = Ok c -> Inv c.
  Proof. destruct r; simpl; [apply build_inv | discriminate]. Qed.

  Lemma mapM_inv {X} (f : X -> res circ) l l' :
    mapM f l = Ok l' -> (forall x c, In x l -> f x = Ok c -> Inv c) -> SInv l'.
  Proof.
    intros H Hf. unfold SInv. rewrite Forall_forall. intros c Hin.
    destruct (mapM_in _ _ _ _ H Hin) as (x & Hx & Hfx). eapply Hf; eassumption.
  Qed.

  Lemma split_inv c trim cs : split_c Ang T c trim = Ok cs -> SInv cs.
  Proof.
    unfold split_c. destruct (mapM _ _) as [cs0|] eqn:Hm; simpl; [|discriminate].
    assert (H0 : SInv cs0).
    { eapply mapM_inv; [eassumption|]. intros x c0 _ Hb. eapply build_inv; eassumption. }
    destruct trim.
    - intro H. eapply mapM_inv; [eassumption|]. intros x c0 Hin Ht.
      eapply trim_inv; [|eassumption]. unfold SInv in H0. rewrite Forall_forall in H0. auto.
    - intro H; inversion H; subst; assumption.
  Qed.

  Lemma stack_fold_inv rest : forall acc, (forall a, acc = Ok a -> Inv a) ->
              forall a, fold_left (fun acc c1 => do st <- acc;
                   match reindex_qubits Ang c1 (map (fun k => (width Ang st + k)%Z) (zrange (width Ang c1))) with
                   | (c', Ok _) => concat Ang T st c'
                   | (_, Err e) => Err e
                   end) rest acc = Ok a -> Inv a.
  Proof.
    induction rest as [|x r IH]; simpl; intros acc Hacc a H; [auto|].
    eapply IH; [|eassumption]. intros a0 Ha0. destruct acc as [st|e]; simpl in Ha0; [|discriminate].
    destruct (reindex_qubits Ang x _) as [c' [u|e]]; [|discriminate].
    unfold concat in Ha0. eapply build_inv; eassumption.
  Qed.

  Lemma stack_inv cs c : SInv cs -> stack_c Ang T cs = Ok c -> Inv c.
  Proof.
    intros Hs. unfold stack_c. destruct cs as [|c00 cs0]; [intro H; inversion H; apply empty_inv|].
    destruct (mapM _ (c00 :: cs0)) as [cs1|] eqn:Hm; simpl; [|discriminate].
    assert (H1 : SInv cs1).
    { eapply mapM_inv; [eassumption|]. intros x c0 Hin Ht. eapply trim_inv; [|eassumption].
      unfold SInv in Hs. rewrite Forall_forall in Hs. auto. }
    destruct cs1 as [|c0 rest]; [intro H; inversion H; apply empty_inv|].
    inversion H1; subst. clear H1 Hm.
    eapply stack_fold_inv. intros a Ha; inversion Ha; subst; assumption.
  Qed.

  Lemma simplify_loop_inv rq fuel : forall c_old c_new c,
    Inv c_old -> simplify_loop Ang ang_add ang_opp ang_small ang_eqmod ang_mpi2 ang_mpi4 T fuel c_old c_new rq = Ok c -> Inv c.
  Proof.
    induction fuel as [|k IH]; simpl; intros c_old c_new c Hi H.
    - inversion H; subst; assumption.
    - destruct (circ_eq Ang ang_eqmod T c_old c_new); [inversion H; subst; assumption|].
      destruct (merge_rotations_fn Ang ang_add ang_eqmod T c_old) as [m|]; simpl in H; [|discriminate].
      destruct (remove_small_rotations Ang ang_small T m rq) as [s0|]; simpl in H; [|discriminate].
      destruct (remove_redundant_gates Ang ang_opp ang_eqmod ang_mpi2 ang_mpi4 T s0 rq) as [r|] eqn:Hr; simpl in H; [|discriminate].
      unfold remove_redundant_gates in Hr. apply bind_build_id in Hr. eapply IH; eassumption.
  Qed.

  Theorem step_inv s o : SInv s -> SInv (fst (step s o)).
  Proof.
    intro Hs. destruct o; simpl; unfold with_c.
    - (* ONew *) apply push_inv; [assumption|]. intros c H. eapply build_inv; eassumption.
    - (* OAddGate *) destruct (nth_error s i) as [c|] eqn:Hc; [|assumption].
      destruct (add_gate c g) as [c' r] eqn:Ha. simpl. apply set_at_inv; [assumption|].
      eapply add_gate_inv; [eapply nth_error_inv; eassumption | eassumption].
    - (* OConcat *) destruct (nth_error s i) as [a|]; [|assumption]. destruct (nth_error s j) as [b|]; [|assumption].
      apply push_inv; [assumption|]. intros c H. unfold concat in H. eapply build_inv; eassumption.
    - (* ORepeat *) destruct (nth_error s i) as [a|]; [|assumption].
      apply push_inv; [assumption|]. intros c H. unfold repeat_c in H.
      destruct (n <=? 0)%Z; [discriminate|]. eapply build_inv; eassumption.
    - (* OCopy *) destruct (nth_error s i) as [a|]; [|assumption].
      apply push_inv; [assumption|]. intros c H. eapply build_inv; eassumption.
    - (* OInverse *) destruct (nth_error s i) as [a|]; [|assumption].
      apply push_inv; [assumption|]. intros c H. unfold inverse_c in H. eapply bind_build_id; eassumption.
    - (* OTrim *) destruct (nth_error s i) as [a|] eqn:Ha; [|assumption].
      apply replace_inv; [assumption|]. intros c H. eapply trim_inv; [eapply nth_error_inv; eassumption | eassumption].
    - (* OReindex *) destruct (nth_error s i) as [a|] eqn:Ha; [|assumption].
      destruct (reindex_qubits Ang a new) as [c' r] eqn:Hr. simpl. apply set_at_inv; [assumption|].
      eapply reindex_inv; [eapply nth_error_inv; eassumption | eassumption].
    - (* OSplit *) destruct (nth_error s i) as [a|]; [|assumption].
      destruct (split_c Ang T a trim) as [cs|] eqn:Hsp; simpl; [|assumption].
      apply Forall_app. split; [assumption | eapply split_inv; eassumption].
    - (* OStack *) destruct (mapM _ is) as [cs|] eqn:Hm; simpl; [|assumption].
      apply push_inv; [assumption|]. intros c H. eapply stack_inv; [|eassumption].
      unfold SInv. rewrite Forall_forall. intros c0 Hin. destruct (mapM_in _ _ _ _ Hm Hin) as (k & _ & Hk).
      destruct (nth_error s k) eqn:Hn; [|discriminate]. inversion Hk; subst. eapply nth_error_inv; eassumption.
    - (* OSmallFn *) destruct (nth_error s i) as [a|]; [|assumption].
      apply push_inv; [assumption|]. intros c H. unfold remove_small_rotations in H. eapply bind_build_id; eassumption.
    - destruct (nth_error s i) as [a|]; [|assumption].
      apply replace_inv; [assumption|]. intros c H. unfold remove_small_rotations in H. eapply bind_build_id; eassumption.
    - destruct (nth_error s i) as [a|]; [|assumption].
      apply push_inv; [assumption|]. intros c H. unfold remove_redundant_gates in H. eapply bind_build_id; eassumption.
    - destruct (nth_error s i) as [a|]; [|assumption].
      apply replace_inv; [assumption|]. intros c H. unfold remove_redundant_gates in H. eapply bind_build_id; eassumption.
    - destruct (nth_error s i) as [a|]; [|assumption].
      apply push_inv; [assumption|]. intros c H. unfold merge_rotations_fn in H.
      eapply bind_build_id; eassumption.
    - destruct (nth_error s i) as [a|]; [|assumption].
      apply replace_inv; [assumption|]. intros c H. unfold merge_rotations_fn in H.
      eapply bind_build_id; eassumption.
    - (* OSimplifyFn *) destruct (nth_error s i) as [a|]; [|assumption].
      apply push_inv; [assumption|]. intros c H. unfold simplify in H.
      destruct (copy_c Ang T a) as [c0|] eqn:Hc0; simpl in H; [|discriminate].
      eapply simplify_loop_inv; [|eassumption]. eapply build_inv; eassumption.
    - destruct (nth_error s i) as [a|]; [|assumption].
      apply replace_inv; [assumption|]. intros c H. unfold simplify in H.
      destruct (copy_c Ang T a) as [c0|] eqn:Hc0; simpl in H; [|discriminate].
      eapply simplify_loop_inv; [|eassumption]. eapply build_inv; eassumption.
    - (* ORead *) destruct (nth_error s i); assumption.
  Qed.

  (* every store reachable from the empty store by any history satisfies the invariant *)
  Theorem inv_reachable : forall ops s, SInv s -> SInv (final s ops).
  Proof.
    induction ops as [|o r IH]; simpl; intros s Hs; [assumption|].
    apply IH. apply step_inv. assumption.
  Qed.

  (* ---------------- what the invariant says about the reported values ---------------- *)
  Lemma has_key_incr k k' m : has_key k (incr_s k' m) = String.eqb k k' || has_key k m.
  Proof.
    unfold has_key. induction m as [|[a n] r IH]; simpl.
    - rewrite orb_false_r. reflexivity.
    - destruct (String.eqb k' a) eqn:E; simpl.
      + apply String.eqb_eq in E. subst. destruct (String.eqb k a); reflexivity.
      + rewrite IH. destruct (String.eqb k a), (String.eqb k k'); reflexivity.
  Qed.

  Lemma has_key_counts_of k gs :
    has_key k (counts_of gs) = existsb (fun g => String.eqb k (pname g)) gs.
  Proof.
    induction gs as [|g r IH] using rev_ind; [reflexivity|].
    rewrite counts_of_snoc, has_key_incr, existsb_app, IH. simpl.
    rewrite orb_false_r. apply orb_comm.
  Qed.


  (* the reported metadata equal the values recomputed from the current gate list *)
  Theorem reported_eq_recount c : Inv c ->
    size Ang c = length (cgates c)
    /\ ccounts c = counts_of (cgates c)
    /\ cncounts c = ncounts_of (cgates c)
    /\ is_variational Ang c = existsb (fun g => pvar g) (cgates c)
    /\ is_mixed_state Ang c = existsb (fun g => String.eqb "MEASURE" (pname g) || String.eqb "CMEASURE" (pname g)) (cgates c)
    /\ (forall g q, In g (cgates c) -> In q (gate_qubits g) -> (q < width Ang c)%Z).
  Proof.
    intros (Hc & Hn & Hv & Hq). repeat split; try assumption.
    - unfold is_variational. rewrite Hv. apply filter_nonempty_existsb.
    - unfold is_mixed_state. rewrite Hc, !has_key_counts_of. apply existsb_or.
    - intros g q Hg Hqq. unfold width. pose proof (zmax_ge _ _ (Hq g q Hg Hqq)). lia.
  Qed.

  (* ---------------- operations that only read / build anew leave every existing circuit unchanged ---------------- *)
  Definition in_place (o : op Ang) : option nat :=
    match o with
    | OAddGate i _ | OTrim i | OReindex i _ | OSmallM i _ | ORedundantM i _ | OMergeM i
    | OSimplifyM i _ _ => Some i
    | _ => None
    end.

  Lemma set_at_other s i k (c : circ) : k <> i -> nth_error (set_at Ang s i c) k = nth_error s k.
  Proof.
    revert i k. induction s as [|x r IH]; simpl; intros i k Hne; [reflexivity|].
    destruct i, k; simpl; try reflexivity; try congruence. apply IH. congruence.
  Qed.

  Lemma push_keeps s r k : k < length s -> nth_error (fst (push Ang s r)) k = nth_error s k.
  Proof. intro H. destruct r; simpl; [apply nth_error_app1; assumption | reflexivity]. Qed.

  Lemma replace_other s i r k : k <> i -> nth_error (fst (replace_ Ang s i r)) k = nth_error s k.
  Proof. intro H. destruct r; simpl; [apply set_at_other; assumption | reflexivity]. Qed.

  Theorem read_only_ops_unchanged s o k :
    k < length s -> in_place o <> Some k -> nth_error (fst (step s o)) k = nth_error s k.
  Proof.
    intros Hk Hip. destruct o; simpl in *; unfold with_c;
      try (destruct (nth_error s i) as [a|]; [|reflexivity]);
      try (apply push_keeps; assumption);
      try (apply replace_other; congruence).
    - destruct (add_gate a g) as [c' r]. simpl. apply set_at_other. congruence.
    - destruct (nth_error s j) as [b|]; [|reflexivity]. apply push_keeps; assumption.
    - destruct (reindex_qubits Ang a new) as [c' r]. simpl. apply set_at_other. congruence.
    - destruct (split_c Ang T a trim); simpl; [apply nth_error_app1; assumption | reflexivity].
    - destruct (mapM _ is); simpl; [apply push_keeps; assumption | reflexivity].
    - reflexivity.
  Qed.

  (* ---------------- acceptance of gates ---------------- *)


  Definition idx_good (i : pyidx) : Prop := exists z, i = IInt z /\ (0 <= z)%Z.

  Lemma idx_ok_spec l : idx_ok l = true <-> Forall idx_good l.
  Proof.
    unfold idx_ok. rewrite forallb_forall, Forall_forall. split; intros H x Hx; specialize (H x Hx).
    - destruct x as [z|]; [|discriminate]. exists z. split; [reflexivity | apply Z.leb_le; assumption].
    - destruct H as (z & -> & Hz). apply Z.leb_le. assumption.
  Qed.

  (* Gate(...) is accepted exactly when: every index is an int >= 0, controls only on "C..." names,
     all involved qubits pairwise distinct, and the number of targets matches the arity of the name *)
  Theorem gate_valid_iff name target control (p : param Ang) v :
    (exists g, mk_gate T name target control p v = Ok g) <->
    Forall idx_good target
    /\ match control with None => True | Some cl => starts_with_C name = true /\ Forall idx_good cl end
    /\ NoDup (idx_vals target ++ match control with None => [] | Some cl => idx_vals cl end)
    /\ length target = n_targets T name (idx_vals target).
  Proof using Ang T.
    unfold mk_gate. rewrite <- idx_ok_spec.
    destruct (idx_ok target) eqn:Ht; simpl.
    2:{ split; [intros [g H]; discriminate | intros (H & _); discriminate]. }
    destruct control as [cl|]; simpl.
    - rewrite <- idx_ok_spec. destruct (starts_with_C name); simpl.
      2:{ split; [intros [g H]; discriminate | intros (_ & (H & _) & _); discriminate]. }
      destruct (idx_ok cl); simpl.
      2:{ split; [intros [g H]; discriminate | intros (_ & (_ & H) & _); discriminate]. }
      rewrite <- znodup_NoDup. destruct (znodup (idx_vals target ++ idx_vals cl)); simpl.
      2:{ split; [intros [g H]; discriminate | intros (_ & _ & H & _); discriminate]. }
      unfold idx_vals at 1 3. rewrite map_length.
      destruct (Nat.eqb_spec (length target) (n_targets T name (idx_vals target))); simpl.
      + split; [intros _; auto | intros _; eexists; reflexivity].
      + split; [intros [g H]; discriminate | intros (_ & _ & _ & H); contradiction].
    - rewrite app_nil_r, <- znodup_NoDup. destruct (znodup (idx_vals target)); simpl.
      2:{ split; [intros [g H]; discriminate | intros (_ & _ & H & _); discriminate]. }
      unfold idx_vals at 1 3. rewrite map_length.
      destruct (Nat.eqb_spec (length target) (n_targets T name (idx_vals target))); simpl.
      + split; [intros _; auto | intros _; eexists; reflexivity].
      + split; [intros [g H]; discriminate | intros (_ & _ & _ & H); contradiction].
  Qed.

  (* with a fixed width n (truthy), add_gate accepts a valid gate iff all its qubits are < n *)
  Lemma track_spec nq qs : forall idx,
    snd (track nq qs idx) = true <->
    (truthy nq = true -> forall n, nq = Some n -> forall q, In q qs -> (q < n)%Z).
  Proof.
    induction qs as [|a r IH]; simpl; intro idx.
    - split; [intros _ _ n _ q [] | reflexivity].
    - destruct (truthy nq) eqn:Ht; simpl.
      + destruct nq as [n|]; [|discriminate]. destruct (Z.leb_spec n a) as [Hle|Hlt]; simpl.
        * split; [discriminate|]. intro G. specialize (G eq_refl n eq_refl a (or_introl eq_refl)). lia.
        * rewrite IH. split.
          -- intros G _ n0 Hn q [->|Hq]; [inversion Hn; subst; assumption | apply (G eq_refl n0 Hn q Hq)].
          -- intros G _ n0 Hn q Hq. apply (G eq_refl n0 Hn q (or_intror Hq)).
      + rewrite IH. split; intros; discriminate.
  Qed.

  Theorem add_gate_range_iff c (g : pgate) :
    (exists c', add_gate c g = (c', Ok tt)) <->
    (exists gate, regate T g = Ok gate) /\
    (truthy (cnq c) = true -> forall n, cnq c = Some n -> forall q, In q (gate_qubits g) -> (q < n)%Z).
  Proof.
    unfold CircuitModel.add_gate. destruct (regate T g) as [gate|e] eqn:Hg.
    - pose proof (regate_ok_eq _ _ Hg); subst gate.
      rewrite <- (track_spec (cnq c) (gate_qubits g) (cidx c)).
      destruct (track (cnq c) (gate_qubits g) (cidx c)) as [idx [|]]; simpl.
      + split; [intros _; split; [eexists; reflexivity | reflexivity] | intros _; eexists; reflexivity].
      + split; [intros [c' H]; discriminate | intros [_ H]; discriminate].
    - split; [intros [c' H]; discriminate | intros [[gate H] _]; discriminate].
  Qed.
End Proofs.
