(* ExpPathsReal.v — the real-number reading of the regenerated basis-change angles (units of pi/8):
   of_units 4 = pi/2 and of_units (-4) = -pi/2 in the instance CRealS (A = R). *)
From Coq Require Import Reals Lra ZArith.
From Tangelo Require Import Num.KStruct Num.CReal Linq.RealInst.
Local Open Scope R_scope.

Lemma of_units_p4 : of_units 4 = @api2 CRealS.
Proof. unfold of_units. simpl. lra. Qed.
Lemma of_units_m4' : of_units (-4) = @aopp CRealS (@api2 CRealS).
Proof. exact of_units_m4. Qed.
