(* BackendRun.v — exact execution (cyclotomic instance, angles k*pi/8) of the C01 models for the
   correspondence harness: the reference state of a gate list (Linq.Interp + QSem.run), the vector each
   backend model returns for it, the frequency dictionary of the _statevector_to_frequencies model, and
   _int_to_binstr on single inputs.  Printing only; nothing is proved here. *)
From Coq Require Import String NArith ZArith List Bool.
From Tangelo Require Import Num.KStruct.
From Tangelo Require Import Num.Cyc.
From Tangelo Require Import Num.Show.
From Tangelo Require Import QSem.State.
From Tangelo Require Import QSem.Measure.
From Tangelo Require Import Linq.GateModel.
From Tangelo Require Import Linq.Interp.
From Tangelo Require Import Linq.LinqZ.
From Tangelo Require Import Linq.Equiv.
From Tangelo Require Import Linq.Backend.
Import ListNotations.
Open Scope string_scope.

Definition show_bits (l : list bool) : string :=
  fold_right (fun (b : bool) acc => (if b then "1" else "0") ++ acc) "" l.
Definition show_vec (l : list (K CycS)) : string := join " " (map show_Cy l).
Definition nzb (a : K CycS) : bool := negb (ceqb L4 a (c0 L4)).
Definition show_freqs (f : list (list bool * K CycS)) : string :=
  join " " (map (fun p => show_bits (fst p) ++ "=" ++ show_Cy (snd p)) f).

(* the reference state after `prefix ++ gates` from |0..0>, tabulated little-endian (qubit q = bit q) *)
Definition ref_state (n : nat) (gs : list zgate) : option (list (K CycS)) :=
  match cy_interp_all gs with Some c => Some (run0 CycS n c) | None => None end.

(* "ref | cirq vector | frequencies of the model under the advertised order ord" *)
Definition cirq_case (ord : string) (n : nat) (gs : list zgate) : string :=
  match ref_state n gs with
  | None => "?"
  | Some l => let psi := untab CycS l in
              let v := cirq_sv CycS n psi in
              show_vec l ++ " | " ++ show_vec v ++ " | " ++ show_freqs (sv_to_freqs CycS ord nzb v)
  end.

(* "ref | sympy vector | keys of the non-zero entries (reversed(qubit_values)) with their weights |
    the sympy vector read in the advertised order ord" *)
Definition sympy_case (ord : string) (n : nat) (gs : list zgate) : string :=
  match ref_state n gs with
  | None => "?"
  | Some l => let psi := untab CycS l in
              let v := sympy_sv CycS n psi in
              show_vec l ++ " | " ++ show_vec v ++ " | "
              ++ show_freqs (filter (fun p => nzb (snd p))
                                    (map (fun i => (sympy_key n (N.of_nat i), born CycS psi (N.of_nat i)))
                                         (seq 0 (Nat.pow 2 n))))
              ++ " | " ++ show_vec (map (fun i => read_sv CycS ord n v (N.of_nat i)) (seq 0 (Nat.pow 2 n)))
  end.

Definition binstr_case (ord : string) (n : nat) (i : N) (u : bool) : string := show_bits (int_to_binstr ord n i u).
Definition sample_case (ord : string) (key : list bool) : string :=
  show_N (sample_value key) ++ ":" ++ show_bits (sample_key ord (length key) (sample_value key)).
(* _statevector_to_frequencies on an explicit vector of small integers (re, im) *)
Definition cy_of_pair (p : Z * Z) : K CycS := @kadd CycS (cy_of_Z (fst p) : K CycS) (@kmul CycS (@ki CycS) (cy_of_Z (snd p) : K CycS)).
Definition freqs_case (ord : string) (v : list (Z * Z)) : string :=
  show_freqs (sv_to_freqs CycS ord nzb (map cy_of_pair v)).
