(* ExpPaths.v — model of the evaluation paths of Backend.get_expectation_value / get_variance /
   get_standard_error (tangelo/linq/target/backend.py) and of measurement_basis_gates
   (tangelo/linq/helpers/circuits/measurement_basis.py).  Definitions only; proofs in ExpPathsProofs.v.

   What comes from the source on every run (translator/expval_tables.py -> gen/ExpvalTables.v):
     basis_table   Pauli letter -> no gate | (gate name, angle in units of pi/8)
     freq_cond, sv_cond            the two conditions of the dispatch in get_expectation_value
     prep_cond_e, prep_cond_v      "simulate the whole circuit per term" condition of the two frequency routes
     sv_exact_cond                 the `if not self.n_shots` of the statevector route
   The models below take them as parameters.

   cfg: the facts the dispatch looks at.  c_native = the backend class defines
   expectation_value_from_prepared_state (cirq, sympy); c_width_ok = no term has more factors than the
   circuit width; c_isv = an initial statevector was passed.

   Routes (per operator H = list of (word, coefficient), prepared state psi on n qubits):
     freq_route   sum_k c_k * [ c_k's word empty ? 1 : parity mean of the distribution obtained after the
                  basis-change gates of the word ]          (_get_expectation_value_from_frequencies, and the
                  sampled branch of _get_expectation_value_from_statevector)
     sv_route     sum_k c_k * [ empty ? 1 : Re <psi | Pauli circuit of the word | psi> ]   (generic branch of
                  _get_expectation_value_from_statevector)
     native       backend-native evaluation through operator translation (external library; its
                  specification is expect_op, reached by correspondence only)
     var_route    sum_k c_k^2 * parity variance after the basis change   (_get_variance_from_frequencies)
   `freqs` abstracts how a state is turned into a distribution over basis indices: the Born weights in
   exact mode (n_shots = None), empirical frequencies otherwise. *)
From Coq Require Import String ZArith NArith QArith Qcanon List Bool.
From Tangelo Require Import Num.KStruct QSem.State QSem.Measure QSem.Expect Pauli.Word Pauli.Action
     Linq.GateModel Linq.Interp.
Import ListNotations.
Open Scope string_scope.

(* ---------------------------------------------------------------- measurement_basis_gates *)
Definition btable : Type := list (string * option (string * Z)).

Fixpoint blookup (T : btable) (s : string) : option (option (string * Z)) :=
  match T with
  | [] => None
  | (k, v) :: r => if String.eqb k s then Some v else blookup r s
  end.

Inductive perr : Type := EValueError | ERuntimeError | EIndexError | ENotImplemented.
Inductive pres (X : Type) : Type := POk (x : X) | PErr (e : perr).
Arguments POk {_}. Arguments PErr {_}.

Definition pauli_letter (p : pauli) : string := match p with PX => "X" | PY => "Y" | PZ => "Z" end.
(* an openfermion term ((q, 'X'), ...) *)
Definition pyterm : Type := list (Z * string).
Definition term_of_word (w : word) : pyterm := map (fun qp => (Z.of_N (fst qp), pauli_letter (snd qp))) w.

Section Basis.
  Variable Ang : Type.
  Variable of_units : Z -> Ang.

  (* for qubit_index, pauli in term: table lookup; unknown letter -> RuntimeError *)
  Fixpoint measurement_basis_gates (T : btable) (term : pyterm) : pres (list (pgate Ang)) :=
    match term with
    | [] => POk []
    | (q, s) :: r =>
      match blookup T s with
      | None => PErr ERuntimeError
      | Some None => measurement_basis_gates T r
      | Some (Some (g, u)) =>
        match measurement_basis_gates T r with
        | POk gs => POk (PGate g [q] None (PNum (of_units u)) false :: gs)
        | PErr e => PErr e
        end
      end
    end.

  (* Circuit([Gate(pauli, index) for index, pauli in term]) of the statevector route *)
  Definition pauli_gates (term : pyterm) : list (pgate Ang) :=
    map (fun qs => PGate (snd qs) [fst qs] None PNone false) term.
End Basis.

(* ---------------------------------------------------------------- reference circuits in QSem *)
Section Routes.
  Variable S : KS.
  Open Scope K_scope.
  Notation K := (K S).
  Notation state := (state S).

  (* X -> RY(-pi/2), Y -> RX(pi/2), Z -> nothing *)
  Definition bmat (p : pauli) : option (mat2 S) :=
    match p with PX => Some (mRY S (aopp api2)) | PY => Some (mRX S api2) | PZ => None end.
  Definition basis_circ (w : word) : circuit S :=
    flat_map (fun qp => match snd qp with
                        | PX => [Gate (B1 (GRY (aopp api2)) (fst qp)) []]
                        | PY => [Gate (B1 (GRX api2) (fst qp)) []]
                        | PZ => []
                        end) w.
  Definition bstep (qp : N * pauli) (s : state) : state :=
    match bmat (snd qp) with Some u => app1 S u (fst qp) s | None => s end.
  Definition bapply (w : word) (psi : state) : state := fold_left (fun s qp => bstep qp s) w psi.

  Definition pauli_g1 (p : pauli) : g1 S := match p with PX => GX | PY => GY | PZ => GZ end.
  Definition pauli_circuit (w : word) : circuit S := map (fun qp => Gate (B1 (pauli_g1 (snd qp)) (fst qp)) []) w.

  (* ---- per-term values ---- *)
  Variable freqs : state -> N -> K.

  Definition is_nil {X} (l : list X) : bool := match l with [] => true | _ => false end.

  (* frequencies after the basis change, then the parity mean over the qubits of the term *)
  Definition freq_term (n : nat) (w : word) (psi : state) : K :=
    parity_mean S n (supp w) (freqs (den S (basis_circ w) psi)).
  (* np.dot(pauli_state.real, prepared_state.real) + np.dot(pauli_state.imag, prepared_state.imag) *)
  Definition sv_term (n : nat) (w : word) (psi : state) : K :=
    re S (inner S n psi (den S (pauli_circuit w) psi)).
  Definition var_term (n : nat) (w : word) (psi : state) : K :=
    parity_var S n (supp w) (freqs (den S (basis_circ w) psi)).

  (* ---- per-operator routes; `elif not term: expectation_value += coef` ---- *)
  Definition route_sum (f : word -> K) (H : op S) : K :=
    fold_right (fun t acc => snd t * (if is_nil (fst t) then 1 else f (fst t)) + acc) 0 H.
  Definition freq_route (n : nat) (H : op S) (psi : state) : K := route_sum (fun w => freq_term n w psi) H.
  Definition sv_route (n : nat) (H : op S) (psi : state) : K := route_sum (fun w => sv_term n w psi) H.
  (* the homogeneous form (identity term through the general formula): equal on normalised states,
     and the numerator of the value on the normalised state for an unnormalised (post-selected) vector *)
  Definition freq_route_h (n : nat) (H : op S) (psi : state) : K :=
    fold_right (fun t acc => snd t * freq_term n (fst t) psi + acc) 0 H.
  (* variance += coef*coef*variance_term, for every term (the identity term is not skipped: `pass`) *)
  Definition var_route (n : nat) (H : op S) (psi : state) : K :=
    fold_right (fun t acc => snd t * snd t * var_term n (fst t) psi + acc) 0 H.
  (* the value the reported variance must have: sum_k c_k^2 (1 - <P_k>^2) *)
  Definition var_formula (n : nat) (H : op S) (psi : state) : K :=
    fold_right (fun t acc => snd t * snd t * (1 - expect_word S n (fst t) psi * expect_word S n (fst t) psi) + acc) 0 H.

  (* mixed states (MEASURE without desired result, finite shots): the whole circuit is simulated per
     term; the distribution is the sum over the branches *)
  Definition freq_term_ens (n : nat) (w : word) (e : ensemble S) : K :=
    parity_mean S n (supp w) (ens_diag S (ens_apply S (den S (basis_circ w)) e)).
End Routes.

(* ---------------------------------------------------------------- dispatch *)
Record cfg : Type := Cfg {
  c_noise : bool;            (* self._noise_model truthy *)
  c_sv : bool;               (* self.statevector_available *)
  c_shots : option N;        (* self.n_shots *)
  c_mixed : bool;            (* state_prep_circuit.is_mixed_state *)
  c_size0 : bool;            (* state_prep_circuit.size == 0 *)
  c_complex : bool;          (* some coefficient has a complex type *)
  c_native : bool;           (* hasattr(self, "expectation_value_from_prepared_state") *)
  c_isv : bool;              (* initial_statevector is not None *)
  c_width_ok : bool          (* every term has at most `width` factors *)
}.
Definition shots_set (c : cfg) : bool := match c_shots c with Some _ => true | None => false end.
Definition shots_truthy (c : cfg) : bool := match c_shots c with Some n => negb (N.eqb n 0) | None => false end.
Definition set_real (c : cfg) : cfg :=
  Cfg (c_noise c) (c_sv c) (c_shots c) (c_mixed c) (c_size0 c) false (c_native c) (c_isv c) (c_width_ok c).

Inductive route : Type :=
| RFreq            (* _get_expectation_value_from_frequencies *)
| RSVNative        (* _get_expectation_value_from_statevector -> expectation_value_from_prepared_state *)
| RSVPauli         (* ... -> overlap with the Pauli circuit *)
| RSVSampled       (* ... -> samples drawn from the prepared statevector, basis change per term *)
| RSplit           (* complex coefficients: two recursive calls on Re H and Im H *)
| RRaise           (* ValueError before any simulation *)
| RFallthrough.    (* neither `if` nor `elif` fires: the function would return None *)

Section Dispatch.
  Variable freq_cond sv_cond sv_exact_cond : cfg -> bool.

  Definition dispatch_expect (c : cfg) : route :=
    if c_isv c && negb (c_sv c) then RRaise
    else if negb (c_width_ok c) then RRaise
    else if c_complex c then RSplit
    else if freq_cond c then RFreq
    else if sv_cond c then
           (if c_native c then RSVNative else if sv_exact_cond c then RSVPauli else RSVSampled)
    else RFallthrough.

  (* the private route methods entered by one public call, in order (what the harness counts) *)
  Definition trace_expect (c : cfg) : list route :=
    match dispatch_expect c with
    | RSplit => [dispatch_expect (set_real c); dispatch_expect (set_real c)]
    | r => [r]
    end.

  (* get_variance: same two checks, then always the frequency route (twice for complex coefficients) *)
  Inductive vroute : Type := VFreq | VSplit | VRaise.
  Definition dispatch_var (c : cfg) : vroute :=
    if c_isv c && negb (c_sv c) then VRaise
    else if negb (c_width_ok c) then VRaise
    else if c_complex c then VSplit else VFreq.

  (* Backend.__init__ *)
  Definition init_ok (noisy_supported : bool) (c : cfg) : bool :=
    negb (c_noise c && negb noisy_supported)
    && negb (negb (shots_truthy c) && (negb (c_sv c) || c_noise c)).
End Dispatch.

(* ---------------------------------------------------------------- evaluation by the dispatch *)
Section Eval.
  Variable S : KS.
  Open Scope K_scope.
  Variable freqs : state S -> N -> K S.
  Variable freq_cond sv_cond sv_exact_cond : cfg -> bool.

  Definition eval_real (c : cfg) (n : nat) (H : op S) (psi : state S) : option (K S) :=
    match dispatch_expect freq_cond sv_cond sv_exact_cond (set_real c) with
    | RFreq => Some (freq_route S freqs n H psi)
    | RSVNative => Some (expect_op S n H psi)
    | RSVPauli => Some (sv_route S n H psi)
    | RSVSampled => Some (freq_route S freqs n H psi)
    | _ => None
    end.

  (* exp_real if exp_imag == 0 else exp_real + 1j*exp_imag : the same number either way *)
  Definition eval_expect (c : cfg) (n : nat) (H : op S) (psi : state S) : option (K S) :=
    match dispatch_expect freq_cond sv_cond sv_exact_cond c with
    | RSplit =>
      match eval_real c n (op_re S H) psi, eval_real c n (op_im S H) psi with
      | Some a, Some b => Some (a + ki * b)
      | _, _ => None
      end
    | RRaise | RFallthrough => None
    | _ => eval_real c n H psi
    end.

  Definition eval_var (c : cfg) (n : nat) (H : op S) (psi : state S) : option (K S) :=
    match dispatch_var c with
    | VRaise => None
    | VFreq => Some (var_route S freqs n H psi)
    | VSplit => Some (var_route S freqs n (op_re S H) psi + var_route S freqs n (op_im S H) psi)
    end.
End Eval.

(* ---------------------------------------------------------------- standard error (over Q) *)
(* np.sqrt(variance/self.n_shots) if self.n_shots else 0. : the square of the returned number *)
Definition std_err_sq (variance : Qc) (shots : option N) : Qc :=
  match shots with
  | Some (Npos p) => (variance / Q2Qc (inject_Z (Zpos p)))%Qc
  | _ => 0%Qc
  end.
