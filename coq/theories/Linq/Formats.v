(* Formats.v — executable models of the two package-free export/import formats of
   tangelo/linq/translator: IonQ JSON (translate_json_ionq.py) and ProjectQ command text
   (translate_projectq.py), plus the field selection of Gate.__repr__ (gate.py).

   Nothing table-like is typed here.  The gate-name dictionaries, the name set of every if/elif
   branch of the writers and readers, and the *shape* of every branch (which keys a writer emits, which
   arguments a reader passes to Gate, which ProjectQ line shape is printed / parsed) are the records
   [ionq_tables] / [pq_tables]; translator/format_tables.py regenerates them from the source on every
   run (gen/FormatTables.v).  The gate tables of gate.py come from gen/GateTables.v as in C11.

   Abstract syntax.  An IonQ JSON program is {"qubits": n, "circuit": [record ...]}; a record is a
   dictionary with keys gate / target(s) / control(s) / rotation.  A ProjectQ program is a list of
   command lines  NAME | Qureg[q]   NAME(param) | Qureg[q]   NAME | ( Qureg[a], Qureg[b] );  the reader
   only looks at (head of the line, list of Qureg indices, text in parentheses), which is [pqline].
   What is NOT modelled (exercised by the correspondence run instead): Python's float <-> text
   conversion, regular-expression matching on the concrete text, eval.

   A circuit is seen by the translators through [_gates] and [width] only: [fcirc].
   Proofs are in FormatsProofs.v. *)
From Coq Require Import String Ascii ZArith List Bool Arith.
From Tangelo Require Import Linq.GateModel Linq.CircuitModel.
Import ListNotations.
Open Scope string_scope.
Open Scope list_scope.

(* ---------------------------------------------------------------- strings, lookups *)
Definition upper_ascii (c : ascii) : ascii :=
  let n := nat_of_ascii c in
  if Nat.leb 97 n && Nat.leb n 122 then ascii_of_nat (n - 32) else c.
Fixpoint upper (s : string) : string :=
  match s with EmptyString => EmptyString | String c r => String (upper_ascii c) (upper r) end.

(* [containsb p s] : p occurs in s *)
Fixpoint containsb (p s : string) : bool :=
  String.prefix p s || match s with EmptyString => false | String _ r => containsb p r end.

Fixpoint lookup (k : string) (m : list (string * string)) : option string :=
  match m with [] => None | (a, b) :: r => if String.eqb k a then Some b else lookup k r end.
(* the reversed dictionary {v: k for k, v in D.items()} ; [tables_ok] below demands that the values of
   D are distinct, so "first key" and Python's "last key wins" coincide *)
Fixpoint rlookup (v : string) (m : list (string * string)) : option string :=
  match m with [] => None | (a, b) :: r => if String.eqb v b then Some a else rlookup v r end.
Fixpoint snodup (l : list string) : bool :=
  match l with [] => true | x :: r => negb (smem x r) && snodup r end.

Definition opt_err {X} (e : err) (o : option X) : res X := match o with Some x => Ok x | None => Err e end.
Definition is_some {X} (o : option X) : bool := match o with Some _ => true | None => false end.

(* arity class of a gate name: the only way [mk_gate] depends on the name besides its first letter *)
Definition arity (T : tables) (name : string) : option nat :=
  if smem name (one_target T) then Some 1%nat else if smem name (two_target T) then Some 2%nat else None.
Definition arity_eqb (a b : option nat) : bool :=
  match a, b with Some x, Some y => Nat.eqb x y | None, None => true | _, _ => false end.
Definition name_equiv (n m : string) : bool := (is_cnot n && is_cnot m) || String.eqb n m.

(* ---------------------------------------------------------------- tables (regenerated) *)
Record wbranch : Type := WBranch { wb_names : list string; wb_controls : bool; wb_rotation : bool }.
Record rbranch : Type := RBranch {
  rb_names : list string;
  rb_ctrl : bool;         (* true: "control_qubits is not None", false: "control_qubits is None" *)
  rb_pnone : bool;        (* the test has "and parameter is None" *)
  rb_prefixC : bool;      (* Gate(f"C{name}", ...) *)
  rb_pass_ctrl : bool;    (* control_qubits is an argument *)
  rb_pass_param : bool    (* parameter is an argument *)
}.
Record ionq_tables : Type := {
  iq_names : list (string * string);      (* GATE_JSON_IONQ *)
  iq_wbranches : list wbranch;            (* if/elif chain of translate_c_to_json_ionq *)
  iq_w_need_control : list string;        (* kinds of the branch  elif gate.name in {..} and not gate.control: raise ValueError
                                             (the translator checks that no earlier branch holds one of them) *)
  iq_rename_from : string;                (* if name == "Z" and parameter is not None: name = "PHASE" *)
  iq_rename_to : string;
  iq_rbranches : list rbranch             (* if/elif chain of translate_c_from_json_ionq *)
}.

Inductive pq_shape : Type :=
| PQS1        (* W: "N | Qureg[t0]"                  R: Gate(map[N], q[0]) *)
| PQS1p       (* W: "N(param) | Qureg[t0]"           R: Gate(map[N], q[0], parameter=parameters[0]) *)
| PQS2.       (* W: "N | ( Qureg[c0], Qureg[t0] )"   R: Gate(map[N], q[1], control=q[0]) *)
Definition shape_eqb (a b : pq_shape) : bool :=
  match a, b with PQS1, PQS1 | PQS1p, PQS1p | PQS2, PQS2 => true | _, _ => false end.
(* Gate.__repr__ : which of the two recognised conditions guards the printing of target / control *)
Record repr_tables : Type := {
  rp_when_not_none : bool           (* true: "attr is not None";  false: "attr or isinstance(attr, int)" (truthy) *)
}.
Record pq_tables : Type := {
  pq_names : list (string * string);                 (* GATE_PROJECTQ *)
  pq_wbranches : list (list string * pq_shape);
  pq_rbranches : list (list string * pq_shape);
  pq_restores_width : bool;         (* the reader computes n_allocated from the Allocate instructions and returns a circuit
                                       of that width when it is larger than what the gates need *)
  pq_w_single_target : list string; (* writer kinds whose branch starts with  if len(gate.target) != 1: raise ValueError *)
  pq_w_single_ctrl : list string;   (* writer kinds whose branch starts with  if len(gate.control) != 1: raise ValueError *)
  pq_ignored : list string          (* literals of the two re.sub(...) that delete whole instructions *)
}.

Fixpoint find_shape (n : string) (bs : list (list string * pq_shape)) : option pq_shape :=
  match bs with [] => None | (ns, s) :: r => if smem n ns then Some s else find_shape n r end.
Fixpoint find_wbranch (n : string) (bs : list wbranch) : option wbranch :=
  match bs with [] => None | b :: r => if smem n (wb_names b) then Some b else find_wbranch n r end.
Definition rbranch_matches (n : string) (has_ctrl has_param : bool) (b : rbranch) : bool :=
  smem n (rb_names b) && Bool.eqb has_ctrl (rb_ctrl b) && (if rb_pnone b then negb has_param else true).
Fixpoint find_rbranch (n : string) (has_ctrl has_param : bool) (bs : list rbranch) : option rbranch :=
  match bs with
  | [] => None
  | b :: r => if rbranch_matches n has_ctrl has_param b then Some b else find_rbranch n has_ctrl has_param r
  end.

Section Formats.
  Variable Ang : Type.
  Variable ang_eqmod : bool -> Ang -> Ang -> bool.    (* first argument: long period (4 pi) *)
  Variable T : tables.

  Notation pgate := (pgate Ang).
  Notation param := (param Ang).
  Notation gate_eq := (gate_eq Ang ang_eqmod T).

  (* ---------------------------------------------------------------- circuits as the translators see them *)
  Record fcirc : Type := FCirc { fgates : list pgate; fwidth : Z }.

  (* width of Circuit(gates) without a fixed n_qubits: max index + 1, 0 for no qubit *)
  Definition gates_width (gs : list pgate) : Z := (zmax (flat_map gate_qubits gs) + 1)%Z.

  Fixpoint gates_eq (a b : list pgate) : bool :=
    match a, b with
    | [], [] => true
    | g :: a', h :: b' => gate_eq g h && gates_eq a' b'
    | _, _ => false
    end.
  (* Circuit.__eq__ : self._gates == other._gates and self.width == other.width *)
  Definition circ_eq (c d : fcirc) : bool := gates_eq (fgates c) (fgates d) && Z.eqb (fwidth c) (fwidth d).

  Definition gate_valid (g : pgate) : Prop := regate T g = Ok g.
  (* what holds of every Circuit object: gates passed Gate.__init__, width covers their qubits *)
  Definition circ_ok (c : fcirc) : Prop :=
    Forall gate_valid (fgates c) /\ (gates_width (fgates c) <= fwidth c)%Z.

  (* is_variational is Tangelo-side metadata that neither format carries: both readers build
     Gate(...) with the default is_variational=False *)
  Definition clear_var (g : pgate) : pgate := PGate (pname g) (ptarget g) (pcontrol g) (pparam g) false.
  Definition clear_var_c (c : fcirc) : fcirc := FCirc (map clear_var (fgates c)) (fwidth c).

  (* ================================================================ IonQ JSON *)
  Record irec : Type := IRec {
    ir_gate : string;
    ir_target : option (list Z);  ir_targets : option (list Z);
    ir_control : option (list Z); ir_controls : option (list Z);      (* absent key or JSON null: None *)
    ir_rotation : option param                                         (* absent key: None *)
  }.
  Record ijson : Type := IJson { ij_qubits : Z; ij_circuit : list irec }.

  Variable I : ionq_tables.

  (* Python truthiness of gate.control: None and [] are falsy *)
  Definition truthy_list (o : option (list Z)) : bool := match o with Some (_ :: _) => true | _ => false end.
  Definition iq_accepts (n : string) : bool := is_some (find_wbranch n (iq_wbranches I)).

  (* one iteration of the loop of translate_c_to_json_ionq *)
  Definition iq_write_gate (g : pgate) : res irec :=
    if smem (pname g) (iq_w_need_control I) && negb (truthy_list (pcontrol g)) then Err ValueError else
    match find_wbranch (pname g) (iq_wbranches I) with
    | None => Err ValueError
    | Some b =>
      do n <- opt_err KeyError (lookup (pname g) (iq_names I));
      Ok (IRec n None (Some (ptarget g)) None
               (if wb_controls b then pcontrol g else None)
               (if wb_rotation b then Some (pparam g) else None))
    end.
  Definition iq_write (c : fcirc) : res ijson :=
    do rs <- mapM iq_write_gate (fgates c); Ok (IJson (fwidth c) rs).

  (* one iteration of the loop of translate_c_from_json_ionq.  [Gate(.., parameter=None)] (a rotation
     branch on a record without a rotation) is not representable in GateModel.param: the model answers
     Err AttributeError there and the correspondence run does not evaluate that class. *)
  Definition iq_read_rec (r : irec) : res pgate :=
    let name0 := upper (ir_gate r) in
    let target := match ir_target r with Some t => Some t | None => ir_targets r end in
    let control := match ir_control r with Some c => Some c | None => ir_controls r end in
    let parameter := ir_rotation r in
    let name := if String.eqb name0 (iq_rename_from I) && is_some parameter then iq_rename_to I else name0 in
    match find_rbranch name (is_some control) (is_some parameter) (iq_rbranches I) with
    | None => Err ValueError
    | Some b =>
      match target with
      | None => Err ValueError              (* Gate(name, None): [None] is not a list of ints *)
      | Some t =>
        do p <- (if rb_pass_param b then opt_err AttributeError parameter else Ok PNone);
        mk_gate T (if rb_prefixC b then String.append "C" name else name) (map IInt t)
                (if rb_pass_ctrl b then option_map (map IInt) control else None) p false
      end
    end.
  (* Circuit(n_qubits=q) + Circuit(gates): width max(q, 0) of the first operand (range(q) is empty for
     q <= 0), n_qubits of the sum is the larger width when either operand has a truthy n_qubits, and the
     gate indices are then all below it; otherwise the width comes from the gates alone *)
  Definition iq_result_width (q : Z) (gs : list pgate) : Z := Z.max (Z.max q 0) (gates_width gs).
  Definition iq_read (j : ijson) : res fcirc :=
    do gs <- mapM iq_read_rec (ij_circuit j); Ok (FCirc gs (iq_result_width (ij_qubits j) gs)).

  (* the table condition: a name of the writer's branch [b] comes back as an equivalent name through
     the reader's branch selection, with the same keys used and the same arity class *)
  Definition iq_name_ok (n : string) (b : wbranch) : bool :=
    match lookup n (iq_names I) with
    | None => false
    | Some w =>
      let u := upper w in
      let name := if String.eqb u (iq_rename_from I) && wb_rotation b then iq_rename_to I else u in
      match find_rbranch name (wb_controls b) (wb_rotation b) (iq_rbranches I) with
      | None => false
      | Some rb =>
        let final := if rb_prefixC rb then String.append "C" name else name in
        name_equiv n final
        && (rb_pass_ctrl rb || negb (wb_controls b))    (* controls written => passed on (passing None is harmless) *)
        && Bool.eqb (rb_pass_param rb) (wb_rotation b)
        && arity_eqb (arity T final) (arity T n)
        && (starts_with_C final || negb (wb_controls b))
        && (wb_controls b || negb (starts_with_C n))
        && (wb_controls b || negb (smem n (iq_w_need_control I)))
      end
    end.
  Definition iq_all_names : list string := flat_map wb_names (iq_wbranches I).
  Definition iq_tables_ok : bool :=
    forallb (fun n => match find_wbranch n (iq_wbranches I) with Some b => iq_name_ok n b | None => true end)
            iq_all_names.

  (* what the format can carry of a gate of an accepted kind *)
  Definition iq_expressible (g : pgate) : Prop :=
    match find_wbranch (pname g) (iq_wbranches I) with
    | None => False
    | Some b => (wb_rotation b = false -> pparam g = PNone)         (* no rotation key: no parameter *)
                /\ (wb_controls b = true -> truthy_list (pcontrol g) = true)   (* a controlled kind has a control *)
    end.

  (* ================================================================ ProjectQ command text *)
  Record pqline : Type := PQLine { ql_name : string; ql_param : option param; ql_qubits : list Z }.

  Variable P : pq_tables.

  Definition pq_accepts (n : string) : bool := is_some (find_shape n (pq_wbranches P)).
  Definition hd_err (l : list Z) : res Z := match l with x :: _ => Ok x | [] => Err IndexError end.

  (* one iteration of the gate loop of translate_c_to_projectq (f-string fields left to right) *)
  (* the guards  if len(gate.target) != 1: raise ValueError  and  if len(gate.control) != 1: raise ValueError
     at the top of a branch (before the f-string), in this order *)
  Definition pq_guard (g : pgate) : res unit :=
    do _ <- (if smem (pname g) (pq_w_single_target P) && negb (Nat.eqb (length (ptarget g)) 1) then Err ValueError else Ok tt);
    if smem (pname g) (pq_w_single_ctrl P) then
      match pcontrol g with
      | None => Err TypeError                                   (* len(None) *)
      | Some cl => if Nat.eqb (length cl) 1 then Ok tt else Err ValueError
      end
    else Ok tt.
  Definition pq_write_gate (g : pgate) : res pqline :=
    match find_shape (pname g) (pq_wbranches P) with
    | None => Err ValueError
    | Some sh =>
      do _ <- pq_guard g;
      do n <- opt_err KeyError (lookup (pname g) (pq_names P));
      match sh with
      | PQS1 => do t <- hd_err (ptarget g); Ok (PQLine n None [t])
      | PQS1p => do t <- hd_err (ptarget g); Ok (PQLine n (Some (pparam g)) [t])
      | PQS2 => match pcontrol g with
                | None => Err TypeError                       (* None[0] *)
                | Some cl => do c <- hd_err cl; do t <- hd_err (ptarget g); Ok (PQLine n None [c; t])
                end
      end
    end.
  Definition pq_alloc (q : Z) : pqline := PQLine "Allocate" None [q].
  Definition pq_write (c : fcirc) : res (list pqline) :=
    do ls <- mapM pq_write_gate (fgates c); Ok (map pq_alloc (zrange (fwidth c)) ++ ls).

  (* the two re.sub calls of the reader delete, up to the end of the line, any instruction text that
     contains the literal "Measure" resp. "llocate": instructions whose head contains one of the
     literals disappear *)
  Definition pq_is_ignored (l : pqline) : bool := existsb (fun lit => containsb lit (ql_name l)) (pq_ignored P).

  (* float(text) of the parenthesised text: a number parses, a symbol name or the empty text does not *)
  Definition pq_parse_param (p : option param) : res (option Ang) :=
    match p with None => Ok None | Some (PNum a) => Ok (Some a) | Some _ => Err ValueError end.

  Definition pq_read_line (l : pqline) : res pgate :=
    do pa <- pq_parse_param (ql_param l);                      (* the comprehension runs before the branches *)
    match find_shape (ql_name l) (pq_rbranches P) with
    | None => Err ValueError
    | Some sh =>
      do n <- opt_err KeyError (rlookup (ql_name l) (pq_names P));
      match sh with
      | PQS1 => do q <- opt_err IndexError (nth_error (ql_qubits l) 0);
                mk_gate T n [IInt q] None PNone false
      | PQS1p => do q <- opt_err IndexError (nth_error (ql_qubits l) 0);
                 do a <- opt_err IndexError pa;
                 mk_gate T n [IInt q] None (PNum a) false
      | PQS2 => do q1 <- opt_err IndexError (nth_error (ql_qubits l) 1);
                do q0 <- opt_err IndexError (nth_error (ql_qubits l) 0);
                mk_gate T n [IInt q1] (Some [IInt q0]) PNone false
      end
    end.
  (* n_allocated = max([i + 1 for every "Allocate | Qureg[i]"], default=0): in the abstract syntax an
     instruction with head exactly "Allocate", no parenthesised text and one Qureg argument *)
  Definition pq_alloc_index (l : pqline) : Z :=
    match ql_param l, ql_qubits l with
    | None, [q] => if String.eqb (ql_name l) "Allocate" then (q + 1)%Z else 0%Z
    | _, _ => 0%Z
    end.
  Definition pq_n_allocated (ls : list pqline) : Z := fold_right (fun l m => Z.max (pq_alloc_index l) m) 0%Z ls.
  (* abs_circ = Circuit(); add_gate for every remaining instruction: the width comes from the gates; when
     the reader restores the width: Circuit(abs_circ._gates, n_qubits=n_allocated) if n_allocated is larger *)
  Definition pq_read (ls : list pqline) : res fcirc :=
    do gs <- mapM pq_read_line (filter (fun l => negb (pq_is_ignored l)) ls);
    Ok (FCirc gs (if pq_restores_width P then Z.max (pq_n_allocated ls) (gates_width gs) else gates_width gs)).

  Definition pq_values_distinct : bool := snodup (map snd (pq_names P)).
  Definition pq_name_ok (n : string) (sh : pq_shape) : bool :=
    match lookup n (pq_names P) with
    | None => false
    | Some w =>
      negb (existsb (fun lit => containsb lit w) (pq_ignored P))
      && match find_shape w (pq_rbranches P) with
         | None => false
         | Some sh' =>
           shape_eqb sh sh'
           && match rlookup w (pq_names P) with
              | None => false
              | Some n' => name_equiv n n' && arity_eqb (arity T n') (arity T n)
                           && (match sh with PQS2 => starts_with_C n' | _ => negb (starts_with_C n) end)
                           && (match sh with PQS2 => true | _ => negb (smem n (pq_w_single_ctrl P)) end)
              end
         end
    end.
  (* a gate kind survives the round trip iff the writer accepts it and its name comes back *)
  Definition pq_survives (n : string) : bool :=
    match find_shape n (pq_wbranches P) with Some sh => pq_name_ok n sh | None => false end.
  Definition pq_all_names : list string := flat_map fst (pq_wbranches P).
  Definition pq_surviving_names : list string := filter pq_survives pq_all_names.
  Definition pq_lost_names : list string := filter (fun n => negb (pq_survives n)) pq_all_names.
  Definition pq_tables_ok : bool := forallb pq_survives pq_all_names.
  (* every accepted kind has one target by gate.py's arity table or by the writer's own guard, and every kind
     of the two-Qureg shape is guarded to exactly one control: nothing a line cannot carry gets written *)
  Definition pq_guards_ok : bool :=
    forallb (fun n => (arity_eqb (arity T n) (Some 1%nat) || smem n (pq_w_single_target P))
                      && match find_shape n (pq_wbranches P) with
                         | Some PQS2 => smem n (pq_w_single_ctrl P)
                         | _ => true
                         end) pq_all_names.
  (* the only gate-level condition left: the parameter is what the kind's line shape prints *)
  Definition pq_param_ok (g : pgate) : Prop :=
    match find_shape (pname g) (pq_wbranches P) with
    | Some PQS1p => exists a, pparam g = PNum a
    | _ => pparam g = PNone
    end.

  (* what a ProjectQ line can carry of a gate: one target (the writers print target[0] only), and *)
  Definition pq_expressible (g : pgate) : Prop :=
    (exists q, ptarget g = [q]) /\
    match find_shape (pname g) (pq_wbranches P) with
    | None => False
    | Some PQS1 => pparam g = PNone
    | Some PQS1p => exists a, pparam g = PNum a                        (* a number, not a symbol *)
    | Some PQS2 => pparam g = PNone /\ exists c, pcontrol g = Some [c]    (* exactly one control *)
    end.

  (* ================================================================ Gate.__repr__ *)
  (* the keyword arguments printed by __repr__: target / control either "when truthy or an int" (they are
     lists in a constructed Gate, so: when non-empty) or "when not None", according to the regenerated
     [repr_tables]; parameter unless it is "", is_variational only when True; name always *)
  Variable RP : repr_tables.
  Record repr_fields : Type := ReprFields {
    rf_name : string; rf_target : option (list Z); rf_control : option (list Z);
    rf_param : option param; rf_var : option bool }.
  Definition nonempty (l : list Z) : bool := match l with [] => false | _ => true end.
  Definition gate_repr (g : pgate) : repr_fields :=
    ReprFields (pname g)
               (if rp_when_not_none RP || nonempty (ptarget g) then Some (ptarget g) else None)
               (match pcontrol g with Some c => if rp_when_not_none RP || nonempty c then Some c else None | None => None end)
               (match pparam g with PNone => None | p => Some p end)
               (if pvar g then Some true else None).
  (* eval of the printed call: Gate(name=.., target=.., control=.., parameter=.., is_variational=..) with
     the defaults of __init__ for what was not printed; target has no default *)
  Definition repr_eval (f : repr_fields) : res pgate :=
    match rf_target f with
    | None => Err TypeError
    | Some t => mk_gate T (rf_name f) (map IInt t) (option_map (map IInt) (rf_control f))
                        (match rf_param f with Some p => p | None => PNone end)
                        (match rf_var f with Some b => b | None => false end)
    end.
End Formats.

Arguments FCirc {_}. Arguments fgates {_}. Arguments fwidth {_}.
Arguments IRec {_}. Arguments IJson {_}. Arguments PQLine {_}.
Arguments ir_gate {_}. Arguments ir_target {_}. Arguments ir_targets {_}. Arguments ir_control {_}.
Arguments ir_controls {_}. Arguments ir_rotation {_}. Arguments ij_qubits {_}. Arguments ij_circuit {_}.
Arguments ql_name {_}. Arguments ql_param {_}. Arguments ql_qubits {_}.
Arguments ReprFields {_}.
