(* InterpProofs.v — the Python-level operations Gate.inverse / Circuit.inverse / + / * denote, in the
   reference semantics, what C09 says they do — for all angles (generic number structure). *)
From Coq Require Import String ZArith NArith List Bool Lia.
From Tangelo Require Import Num.KStruct QSem.State QSem.StateLemmas QSem.GateLemmas QSem.CircuitLemmas.
From Tangelo Require Import Linq.GateModel Linq.CircuitModel Linq.CircuitProofs Linq.Interp.
Import ListNotations.
Open Scope string_scope.
Open Scope list_scope.

Section InterpProofs.
  Variable S : KS.
  Variable Ang : Type.
  Variable ang : Ang -> A S.
  Variable ang_add : Ang -> Ang -> Ang.
  Variable ang_opp : Ang -> Ang.
  Variable ang_mpi2 ang_mpi4 : Ang.
  Variable T : tables.
  Hypothesis ang_opp_ok : forall a, ang (ang_opp a) = aopp (ang a).
  Hypothesis ang_add_ok : forall a b, ang (ang_add a b) = aadd (ang a) (ang b).
  Hypothesis ang_mpi2_ok : ang ang_mpi2 = aopp api2.
  Hypothesis ang_mpi4_ok : ang ang_mpi4 = aopp api4.

  Notation pgate := (pgate Ang).
  Notation interp := (interp S Ang ang).
  Notation interp_all := (interp_all S Ang ang).
  Notation gate_inverse := (gate_inverse Ang ang_opp ang_mpi2 ang_mpi4 T).

  Ltac str_cases :=
    repeat match goal with
           | |- context [String.eqb ?a ?b] => destruct (String.eqb_spec a b); subst; simpl in *
           | H : context [String.eqb ?a ?b] |- _ => destruct (String.eqb_spec a b); subst; simpl in *
           end.

  (* Gate.inverse denotes the inverse gate *)
  Lemma interp_inverse (g g' : pgate) G :
    gate_inverse g = Ok g' -> interp g = Some G -> interp g' = Some (gate_inv S G).
  Proof.
    unfold GateModel.gate_inverse, Interp.interp.
    destruct g as [name t c p v]; simpl.
    destruct (smem name (invertible T)); simpl; [|discriminate].
    destruct t as [|t1 [|t2 [|t3 r]]]; try discriminate.
    - (* one target *)
      destruct (String.eqb_spec name "S") as [->|HnS].
      { intro H; inversion H; subst; clear H; simpl.
        destruct p; simpl; try discriminate. intro H; inversion H; subst.
        unfold gate_inv; simpl. rewrite ang_mpi2_ok. reflexivity. }
      destruct (String.eqb_spec name "T") as [->|HnT].
      { intro H; inversion H; subst; clear H; simpl.
        destruct p; simpl; try discriminate. intro H; inversion H; subst.
        unfold gate_inv; simpl. rewrite ang_mpi4_ok. reflexivity. }
      destruct p as [|a|s]; intro H; inversion H; subst; clear H; simpl.
      + unfold g1_of_name. str_cases; try congruence; intro H; inversion H; subst; reflexivity.
      + unfold g1_of_name. str_cases; try congruence; intro H; inversion H; subst;
          unfold gate_inv; simpl; rewrite ang_opp_ok; reflexivity.
    - (* two targets *)
      destruct (String.eqb_spec name "S") as [->|HnS]; [simpl; discriminate|].
      destruct (String.eqb_spec name "T") as [->|HnT]; [simpl; discriminate|].
      destruct p as [|a|s]; intro H; inversion H; subst; clear H; simpl.
      + str_cases; try congruence; intro H; inversion H; subst; reflexivity.
      + str_cases; try congruence; intro H; inversion H; subst;
          unfold gate_inv; simpl; rewrite ang_opp_ok; reflexivity.
  Qed.

  (* well-formedness of the interpreted gate follows from the validation done by Gate.__init__ *)
  Lemma zn_inj_on a b : (0 <= a)%Z -> (0 <= b)%Z -> zn a = zn b -> a = b.
  Proof. unfold zn. intros. lia. Qed.

  Lemma mapM_inverse_interp gs gs' C :
    mapM gate_inverse gs = Ok gs' -> interp_all gs = Some C ->
    interp_all gs' = Some (map (gate_inv S) C).
  Proof.
    revert gs' C. induction gs as [|g r IH]; simpl; intros gs' C H HC.
    - inversion H; inversion HC; reflexivity.
    - destruct (gate_inverse g) as [g'|] eqn:Hg; simpl in H; [|discriminate].
      destruct (mapM gate_inverse r) as [r'|] eqn:Hr; simpl in H; [|discriminate].
      inversion H; subst; clear H.
      destruct (interp g) as [G|] eqn:HG; [|discriminate].
      destruct (interp_all r) as [R|] eqn:HR; [|discriminate].
      inversion HC; subst; clear HC. simpl.
      rewrite (interp_inverse _ _ _ Hg HG), (IH _ _ eq_refl eq_refl). reflexivity.
  Qed.

  Lemma interp_all_app a b A B :
    interp_all a = Some A -> interp_all b = Some B -> interp_all (a ++ b) = Some (A ++ B).
  Proof.
    revert A. induction a as [|g r IH]; simpl; intros A HA HB.
    - inversion HA; subst. exact HB.
    - destruct (interp g) as [G|]; [|discriminate]. destruct (interp_all r) as [R|]; [|discriminate].
      inversion HA; subst. rewrite (IH R eq_refl HB). reflexivity.
  Qed.

  Lemma interp_all_rev a A : interp_all a = Some A -> interp_all (rev a) = Some (rev A).
  Proof.
    revert A. induction a as [|g r IH]; simpl; intros A HA.
    - inversion HA; reflexivity.
    - destruct (interp g) as [G|] eqn:HG; [|discriminate]. destruct (interp_all r) as [R|]; [|discriminate].
      inversion HA; subst. simpl. apply interp_all_app; [apply IH; reflexivity|].
      simpl. rewrite HG. reflexivity.
  Qed.

  (* Circuit(gates, n_qubits) stores exactly the gates it was given *)
  Lemma add_all_gates gs : forall c c', add_all Ang T c gs = Ok c' -> cgates Ang c' = cgates Ang c ++ gs.
  Proof.
    induction gs as [|g r IH]; simpl; intros c c' H.
    - inversion H; subst. rewrite app_nil_r. reflexivity.
    - destruct (add_gate Ang T c g) as [c1 [u|e]] eqn:Ha; [|discriminate].
      rewrite (IH _ _ H). unfold add_gate in Ha.
      destruct (regate T g) as [gate|] eqn:Hg; [|inversion Ha].
      pose proof (regate_ok_eq Ang T _ _ Hg); subst gate.
      destruct (track (cnq Ang c) (gate_qubits g) (cidx Ang c)) as [idx [|]]; inversion Ha; subst; simpl.
      rewrite <- app_assoc. reflexivity.
  Qed.

  Lemma build_gates gs nq c : build Ang T gs nq = Ok c -> cgates Ang c = gs.
  Proof. unfold build. intro H. apply add_all_gates in H. exact H. Qed.

  (* ---- Circuit.inverse is a two-sided inverse in the reference semantics ---- *)
  Theorem inverse_is_inverse c c' C :
    inverse_c Ang ang_opp ang_mpi2 ang_mpi4 T c = Ok c' ->
    interp_all (cgates Ang c) = Some C -> Forall (gate_wf S) C ->
    exists C', interp_all (cgates Ang c') = Some C'
               /\ (forall psi, den S C' (den S C psi) = psi)
               /\ (forall psi, den S C (den S C' psi) = psi).
  Proof.
    unfold inverse_c. intros H HC Hwf.
    destruct (mapM gate_inverse (rev (cgates Ang c))) as [gs|] eqn:Hm; simpl in H; [|discriminate].
    apply build_gates in H. rewrite H.
    pose proof (mapM_inverse_interp _ _ _ Hm (interp_all_rev _ _ HC)) as Hi.
    exists (map (gate_inv S) (rev C)). split; [exact Hi|]. split; intro psi.
    - apply (circuit_inv_l S C psi Hwf).
    - apply (circuit_inv_r S C psi Hwf).
  Qed.

  (* ---- concatenation is composition; repetition is iteration ---- *)
  Theorem concat_is_composition a b c A B :
    concat Ang T a b = Ok c -> interp_all (cgates Ang a) = Some A -> interp_all (cgates Ang b) = Some B ->
    interp_all (cgates Ang c) = Some (A ++ B) /\ forall psi, den S (A ++ B) psi = den S B (den S A psi).
  Proof.
    unfold concat. intros H HA HB. apply build_gates in H. rewrite H. split.
    - apply interp_all_app; assumption.
    - intro psi. apply den_app.
  Qed.

  Theorem copy_same_den c c' : copy_c Ang T c = Ok c' -> cgates Ang c' = cgates Ang c.
  Proof. unfold copy_c. apply build_gates. Qed.
End InterpProofs.
