(* SmallRot.v — soundness of remove_small_rotations on the exact angle grid (angles k*pi/8, Cyc
   semantics), over the regenerated tables: every gate the model of the pass drops denotes the identity,
   or — only when it has no control — minus the identity (a global phase).  Hence the whole pass
   preserves the operation up to one global sign. *)
From Coq Require Import String ZArith NArith List Bool Lia.
From Tangelo Require Import Num.KStruct Num.Cyc QSem.State QSem.StateLemmas QSem.CircuitLemmas.
From Tangelo Require Import Linq.GateModel Linq.CircuitModel Linq.Interp Linq.PassLemmas Linq.LinqZ Linq.Equiv.
Import ListNotations.
Open Scope string_scope.

Lemma cy_cis_mod k : @cis CycS k = @cis CycS (k mod 32)%Z.
Proof. simpl. unfold cy_cis. rewrite Zmod_mod. reflexivity. Qed.

Lemma cy_cis_0 : @cis CycS 0%Z = @k1 CycS.
Proof. apply (@cis_0 CycS). Qed.

Lemma cy_cis_16 : @cis CycS 16%Z = @kopp CycS (@k1 CycS).
Proof. apply ceqb_eq. vm_compute. reflexivity. Qed.

Lemma abs_mod32 k : (Z.abs k mod 32 = 0)%Z -> (k mod 32 = 0)%Z.
Proof. intro H. destruct (Z.abs_spec k) as [[? E]|[? E]]; rewrite E in H; Z.to_euclidean_division_equations; lia. Qed.

Lemma abs_mod16 k : (Z.abs k mod 16 = 0)%Z -> (k mod 32 = 0)%Z \/ (k mod 32 = 16)%Z.
Proof. intro H. destruct (Z.abs_spec k) as [[? E]|[? E]]; rewrite E in H; Z.to_euclidean_division_equations; lia. Qed.

Lemma cis_long k : (Z.abs k mod 32 = 0)%Z -> @cis CycS k = @k1 CycS.
Proof. intro H. rewrite cy_cis_mod, (abs_mod32 k H). apply cy_cis_0. Qed.

Lemma cis_short k : (Z.abs k mod 16 = 0)%Z -> @cis CycS k = @k1 CycS \/ @cis CycS k = @kopp CycS (@k1 CycS).
Proof.
  intro H. rewrite cy_cis_mod. destruct (abs_mod16 k H) as [E|E]; rewrite E; [left; apply cy_cis_0 | right; apply cy_cis_16].
Qed.

From Tangelo Require Import QSem.Measure QSem.MeasureProofs.

Notation CS := CycS.

(* the names subject to dropping are uncontrolled rotations, or controlled rotations that the
   table reduces modulo the long period *)
Definition small_tables_ok (T : tables) : bool :=
  forallb (fun n => smem n ["RX"; "RY"; "RZ"] || (smem n ["CRX"; "CRY"; "CRZ"] && smem n (small_long T)))
          (rot_small T).

Definition ctrl_ok (g : zgate) : Prop :=
  match pcontrol g with Some _ => starts_with_C (pname g) = true | None => True end.

Definition is_small (T : tables) (mS mSl : Z) (g : zgate) : res bool := is_small_rot Z (zsmall mS mSl) T g.

Definition cy_interp (g : zgate) : option (gate CS) := interp CS Z (fun k => k) g.

Ltac str_cases :=
  repeat match goal with
         | |- context [String.eqb ?a ?b] => destruct (String.eqb_spec a b); subst; simpl in *
         | H : context [String.eqb ?a ?b] |- _ => destruct (String.eqb_spec a b); subst; simpl in *
         end.

Add Ring cyring : (k_ring CS).

Lemma neg_if (psi : state CS) x :
  (if allset x [] then @kopp CS (psi x) else psi x) = @kmul CS (@kopp CS (@k1 CS)) (psi x).
Proof. unfold allset. cbn [forallb]. ring. Qed.

(* a dropped gate is the identity, or minus the identity (then it has no control) *)
Theorem dropped_is_sign T (g : zgate) G :
  small_tables_ok T = true -> ctrl_ok g ->
  is_small T 16 32 g = Ok true -> cy_interp g = Some G ->
  (forall psi, den_gate CS G psi = psi) \/ (forall psi, den_gate CS G psi = sscale CS (kopp k1) psi).
Proof.
  intros HT Hc Hs HG. unfold is_small, is_small_rot in Hs.
  destruct (smem (pname g) (rot_small T)) eqn:Hin; [|discriminate].
  destruct (pparam g) as [|k|s] eqn:Hp; try discriminate. inversion Hs as [Hk]; clear Hs.
  unfold small_tables_ok in HT. rewrite forallb_forall in HT.
  unfold smem in Hin. apply existsb_exists in Hin. destruct Hin as (n & Hn & En).
  apply String.eqb_eq in En. subst n. specialize (HT _ Hn).
  unfold cy_interp, interp in HG. rewrite Hp in HG.
  unfold zsmall in Hk.
  destruct g as [name t c p v]; simpl in *. subst p.
  apply orb_true_iff in HT. destruct HT as [HT|HT].
  - (* uncontrolled name: no control list possible *)
    assert (Hnc : c = None).
    { destruct c; [|reflexivity]. simpl in HT. unfold smem in HT. simpl in HT. str_cases; simpl in Hc; discriminate. }
    subst c. destruct t as [|t1 [|t2 r]]; try discriminate.
    + unfold smem in HT; simpl in HT.
      destruct (smem name (small_long T)).
      * (* long period even for an uncontrolled name *)
        apply Z.eqb_eq in Hk. pose proof (cis_long k Hk) as Hcis.
        unfold g1_of_name in HG. str_cases; try discriminate; inversion HG; subst; left; intro psi;
          first [ apply (rot_cis1_identity CS RotX k (zn t1) [] psi Hcis)
                | apply (rot_cis1_identity CS RotY k (zn t1) [] psi Hcis)
                | apply (rot_cis1_identity CS RotZ k (zn t1) [] psi Hcis) ].
      * apply Z.eqb_eq in Hk. destruct (cis_short k Hk) as [Hcis|Hcis].
        -- unfold g1_of_name in HG. str_cases; try discriminate; inversion HG; subst; left; intro psi;
             first [ apply (rot_cis1_identity CS RotX k (zn t1) [] psi Hcis)
                   | apply (rot_cis1_identity CS RotY k (zn t1) [] psi Hcis)
                   | apply (rot_cis1_identity CS RotZ k (zn t1) [] psi Hcis) ].
        -- unfold g1_of_name in HG. str_cases; try discriminate; inversion HG; subst; right; intro psi;
             apply state_ext; intro x; unfold sscale;
             (etransitivity;
              [ first [ apply (rot_cism1_sign CS RotX k (zn t1) [] psi x ltac:(discriminate) Hcis)
                      | apply (rot_cism1_sign CS RotY k (zn t1) [] psi x ltac:(discriminate) Hcis)
                      | apply (rot_cism1_sign CS RotZ k (zn t1) [] psi x ltac:(discriminate) Hcis) ]
              | apply neg_if ]).
    + unfold smem in HT; simpl in HT. str_cases; try discriminate; destruct r; discriminate.
  - (* controlled rotation, long period *)
    apply andb_true_iff in HT. destruct HT as [HT HL]. rewrite HL in Hk.
    apply Z.eqb_eq in Hk. pose proof (cis_long k Hk) as Hcis.
    destruct t as [|t1 [|t2 r]]; try discriminate.
    + unfold smem in HT; simpl in HT. unfold g1_of_name in HG.
      str_cases; try discriminate; inversion HG; subst; left; intro psi;
        first [ apply (rot_cis1_identity CS RotX k (zn t1) _ psi Hcis)
              | apply (rot_cis1_identity CS RotY k (zn t1) _ psi Hcis)
              | apply (rot_cis1_identity CS RotZ k (zn t1) _ psi Hcis) ].
    + unfold smem in HT; simpl in HT. str_cases; try discriminate; destruct r; discriminate.
Qed.

Definition sgn (neg : bool) : K CS := if neg then @kopp CS (@k1 CS) else @k1 CS.

Lemma sgn_mul a b : @kmul CS (sgn a) (sgn b) = sgn (xorb a b).
Proof. destruct a, b; unfold sgn; simpl xorb; cbv iota; ring. Qed.

(* the whole pass: what is kept denotes the original operation up to ONE global sign *)
Theorem remove_small_sound T (gs gs' : list zgate) C :
  small_tables_ok T = true -> Forall ctrl_ok gs ->
  filterM (is_small T 16 32) gs = Ok gs' -> cy_interp_all gs = Some C ->
  exists C' neg, cy_interp_all gs' = Some C'
                 /\ forall psi, den CS C psi = sscale CS (sgn neg) (den CS C' psi).
Proof.
  intros HT. revert gs' C. induction gs as [|g r IH]; intros gs' C Hc Hf HC.
  - simpl in Hf, HC. inversion Hf; inversion HC; subst. exists [], false. split; [reflexivity|].
    intro psi. unfold sgn. rewrite sscale_one. reflexivity.
  - inversion Hc as [|g0 r0 Hcg Hcr]; subst. simpl in Hf.
    destruct (is_small T 16 32 g) as [b|] eqn:Hb; simpl in Hf; [|discriminate].
    destruct (filterM (is_small T 16 32) r) as [r'|] eqn:Hr; simpl in Hf; [|discriminate].
    inversion Hf; subst; clear Hf.
    unfold cy_interp_all in HC. simpl in HC.
    destruct (interp CS Z (fun k => k) g) as [G|] eqn:HG; [|discriminate].
    destruct (interp_all CS Z (fun k => k) r) as [R|] eqn:HR; [|discriminate].
    inversion HC; subst; clear HC.
    destruct (IH r' R Hcr eq_refl HR) as (R' & neg & HR' & Hden).
    destruct b.
    + destruct (dropped_is_sign T g G HT Hcg Hb HG) as [Hid|Hm].
      * exists R', neg. split; [exact HR'|]. intro psi. rewrite den_cons, Hid. apply Hden.
      * exists R', (negb neg). split; [exact HR'|]. intro psi.
        rewrite den_cons, Hm, (den_linear CS R), Hden, sscale_sscale.
        f_equal. change (@kopp CS (@k1 CS)) with (sgn true). rewrite sgn_mul. reflexivity.
    + exists (G :: R'), neg. split.
      * unfold cy_interp_all. simpl. rewrite HG. unfold cy_interp_all in HR'. rewrite HR'. reflexivity.
      * intro psi. rewrite !den_cons. apply Hden.
Qed.

(* the regenerated tables satisfy the side condition iff small_tables_ok computes to true: see props/C09.v *)
