(* Interp.v — interpretation of the Python-level gate model (names as strings) in the reference
   semantics QSem: which documented unitary each Tangelo gate name denotes.  "C..." names denote the
   base gate applied iff ALL listed controls are 1 (any number of controls).
   ang : the embedding of the model's angle type into the angle group of the number structure. *)
From Coq Require Import String ZArith NArith List Bool.
From Tangelo Require Import Num.KStruct QSem.State Linq.GateModel.
Import ListNotations.
Open Scope string_scope.

Section Interp.
  Variable S : KS.
  Variable Ang : Type.
  Variable ang : Ang -> A S.

  Definition zn (z : Z) : N := Z.to_N z.

  Definition g1_of_name (name : string) (p : param Ang) : option (g1 S) :=
    match p with
    | PNone =>
      if String.eqb name "H" || String.eqb name "CH" then Some GH
      else if String.eqb name "X" || String.eqb name "CNOT" || String.eqb name "CX" then Some GX
      else if String.eqb name "Y" || String.eqb name "CY" then Some GY
      else if String.eqb name "Z" || String.eqb name "CZ" then Some GZ
      else if String.eqb name "S" then Some GS
      else if String.eqb name "T" then Some GT
      else None
    | PNum a =>
      if String.eqb name "RX" || String.eqb name "CRX" then Some (GRX (ang a))
      else if String.eqb name "RY" || String.eqb name "CRY" then Some (GRY (ang a))
      else if String.eqb name "RZ" || String.eqb name "CRZ" then Some (GRZ (ang a))
      else if String.eqb name "PHASE" || String.eqb name "CPHASE" then Some (GPHASE (ang a))
      else None
    | PStr _ => None
    end.

  Definition interp (g : pgate Ang) : option (gate S) :=
    let cs := match pcontrol g with None => [] | Some c => map zn c end in
    match ptarget g with
    | [t] => match g1_of_name (pname g) (pparam g) with
             | Some u => Some (Gate (B1 u (zn t)) cs)
             | None => None
             end
    | [t1; t2] =>
      if String.eqb (pname g) "SWAP" || String.eqb (pname g) "CSWAP" then
        match pparam g with PNone => Some (Gate (BSWAP (zn t1) (zn t2)) cs) | _ => None end
      else if String.eqb (pname g) "XX" then
        match pparam g with PNum a => Some (Gate (BXX (ang a) (zn t1) (zn t2)) cs) | _ => None end
      else None
    | _ => None
    end.

  Fixpoint interp_all (gs : list (pgate Ang)) : option (circuit S) :=
    match gs with
    | [] => Some []
    | g :: r => match interp g, interp_all r with
                | Some G, Some R => Some (G :: R)
                | _, _ => None
                end
    end.
End Interp.
