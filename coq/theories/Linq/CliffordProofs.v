(* CliffordProofs.v — decompose_gate_to_cliffords on the pi/8 grid, for EVERY Clifford angle k*pi/2
   (k any integer): the selected Clifford word is the rotation up to a global phase.  The unbounded
   statement reduces to a finite obligation (selection_ok) because the selection only looks at
   k mod 2*pi and the rotation matrices only depend on k mod 4*pi. *)
From Coq Require Import String ZArith List Bool Lia.
From Tangelo Require Import Num.KStruct Num.Cyc QSem.State Linq.Clifford.
Import ListNotations.
Open Scope string_scope.
Local Open Scope Z_scope.

Lemma cy_cis_mod k : cy_cis k = cy_cis (k mod 32).
Proof. unfold cy_cis. now rewrite Z.mod_mod by lia. Qed.

Lemma cy_cis_opp_mod k : cy_cis (- k) = cy_cis (- (k mod 32)).
Proof.
  rewrite (cy_cis_mod (- k)), (cy_cis_mod (- (k mod 32))). f_equal.
  change (- k) with (0 - k) at 1. replace (- (k mod 32)) with (0 - k mod 32) by lia.
  now rewrite Zminus_mod_idemp_r.
Qed.

Lemma rot_mat_mod name k : rot_mat name k = rot_mat name (k mod 32).
Proof.
  assert (Hc : @cis CycS k = @cis CycS (k mod 32)) by apply cy_cis_mod.
  assert (Ho : @cis CycS (@aopp CycS k) = @cis CycS (@aopp CycS (k mod 32))) by apply cy_cis_opp_mod.
  unfold rot_mat, mRX, mRY, mRZ, mPHASE, cosh_, sinh_, misinh.
  rewrite Hc, Ho. reflexivity.
Qed.

Lemma decomp_ok_mod names name k : decomp_ok names name k = decomp_ok names name (k mod 32).
Proof. unfold decomp_ok. now rewrite rot_mat_mod. Qed.

Lemma select_value_mod values k : select_value values 16 k = select_value values 16 (k mod 16).
Proof. unfold select_value. now rewrite Z.mod_mod by lia. Qed.

Lemma decompose_nz_mod values table name k :
  decompose_nz values table 16 name k = decompose_nz values table 16 name (k mod 16).
Proof. unfold decompose_nz. now rewrite select_value_mod. Qed.

Lemma forallb_In {A} (f : A -> bool) l x : forallb f l = true -> In x l -> f x = true.
Proof. intros H Hx. rewrite forallb_forall in H. auto. Qed.

Theorem decompose_rot_sound values table period step :
  selection_ok values table period step = true ->
  forall name k, In name rotation_names -> k mod step = 0 ->
  exists names, decompose_rot values table period step name k = Some names /\ decomp_ok names name k = true.
Proof.
  intros Hok name k Hname Hk.
  unfold selection_ok in Hok. apply andb_prop in Hok as [Hps Hall]. apply andb_prop in Hps as [Hp Hs].
  apply Z.eqb_eq in Hp, Hs. subst period step.
  pose proof (forallb_In _ _ _ Hall Hname) as Hn. cbv beta in Hn.
  unfold decompose_rot. rewrite Hk. cbn [Z.eqb negb].
  (* residue of k modulo 16 is 0, 4, 8 or 12 *)
  assert (Hr : In (k mod 16) [0; 4; 8; 12]).
  { assert (H16 : 0 <= k mod 16 < 16) by (apply Z.mod_pos_bound; lia).
    assert (Ha := Z.div_mod k 16 ltac:(lia)). assert (Hb := Z.div_mod k 4 ltac:(lia)).
    cbn [In]. lia. }
  pose proof (forallb_In _ _ _ Hn Hr) as Hc. cbv beta in Hc.
  rewrite <- decompose_nz_mod in Hc.
  destruct (decompose_nz values table 16 name k) as [names|] eqn:Hd; [|discriminate].
  apply andb_prop in Hc as [Hc0 Hc16].
  (* k mod 32 is (k mod 16) or (k mod 16) + 16 *)
  assert (H32 : k mod 32 = k mod 16 \/ k mod 32 = k mod 16 + 16).
  { assert (Ha := Z.div_mod k 32 ltac:(lia)). assert (Hb := Z.div_mod k 16 ltac:(lia)).
    assert (Hc' : 0 <= k mod 32 < 32) by (apply Z.mod_pos_bound; lia).
    assert (Hd' : 0 <= k mod 16 < 16) by (apply Z.mod_pos_bound; lia). lia. }
  assert (Hgen : decomp_ok names name k = true).
  { rewrite decomp_ok_mod. destruct H32 as [-> | ->]; assumption. }
  destruct (Z.eqb_spec k 0) as [-> | Hk0].
  - (* zero: the code returns []; the selected word at residue 0 is checked to be fine as well,
       but the returned word is [] : use the residue-0 instance only when it is [] *)
    exists []. split; [reflexivity|].
    (* rot at 0 vs identity: from Hn at r = 0 we know the selected names work; for [] we need the
       identity check, which selection_ok carries through decomp_ok of the r = 0 row only when that
       row is []; so prove it directly by computation *)
    destruct Hname as [<-|[<-|[<-|[<-|[]]]]]; vm_compute; reflexivity.
  - exists names. split; [reflexivity | exact Hgen].
Qed.
