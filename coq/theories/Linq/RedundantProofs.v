(* RedundantProofs.v — soundness of remove_redundant_gates (model: CircuitModel.redundant_step /
   redundant_core) on the exact angle grid (angles k*pi/8, Cyc semantics; Gate.__eq__ with the moduli
   2*pi = 16 and 4*pi = 32 units): for EVERY valid gate list, the gates kept denote the operation of
   the input up to ONE global sign (an uncontrolled rotation cancels against the inverse of a rotation
   whose angle differs by 2*pi: the pair is -1).  Built on gate_eq_sound and interp_inverse. *)
From Coq Require Import String ZArith NArith List Bool Lia.
From Tangelo Require Import Num.KStruct Num.Cyc QSem.State QSem.StateLemmas QSem.GateLemmas QSem.CircuitLemmas
     QSem.Commute QSem.Measure QSem.MeasureProofs.
From Tangelo Require Import Linq.GateModel Linq.CircuitModel Linq.CircuitProofs Linq.Interp Linq.InterpProofs
     Linq.PassLemmas Linq.LinqZ Linq.Equiv Linq.SmallRot Linq.ScanLemmas Linq.InterpFacts Linq.MergeProofs
     Linq.GateEqSound.
Import ListNotations.
Open Scope string_scope.
Open Scope list_scope.

Add Ring cyring3 : (k_ring CS).

Lemma sgn_sgn n (psi : state CS) : sscale CS (sgn n) (sscale CS (sgn n) psi) = psi.
Proof.
  rewrite sscale_sscale, sgn_mul. destruct n; simpl; apply sscale_one.
Qed.

Lemma sscale_sgn_sgn a b (psi : state CS) : sscale CS (sgn a) (sscale CS (sgn b) psi) = sscale CS (sgn (xorb a b)) psi.
Proof. rewrite sscale_sscale, sgn_mul. reflexivity. Qed.

Notation zokall := (okall Z).

Lemma fold_bind_err {X Y} (f : X -> Y -> res X) (l : list Y) e :
  fold_left (fun acc g => do k <- acc; f k g) l (Err e) = Err e.
Proof. induction l as [|x l IH]; simpl; [reflexivity | exact IH]. Qed.

Section Red.
  Variable T : tables.
  Variable mpi2 mpi4 : Z.
  Hypothesis mpi2_ok : mpi2 = (-4)%Z.
  Hypothesis mpi4_ok : mpi4 = (-2)%Z.

  Notation zinv := (gate_inverse Z Z.opp mpi2 mpi4 T).
  Notation zeq := (gate_eq Z (zeqmod 16 32) T).
  Notation rstep := (redundant_step Z Z.opp (zeqmod 16 32) mpi2 mpi4 T).
  Notation rcore := (redundant_core Z Z.opp (zeqmod 16 32) mpi2 mpi4 T).
  Notation rall := (all_cancel Z Z.opp (zeqmod 16 32) mpi2 mpi4 T).

  Lemma zinv_interp (h hi : zgate) H : zinv h = Ok hi -> cy_interp h = Some H -> cy_interp hi = Some (gate_inv CS H).
  Proof.
    intros Hi HH. unfold cy_interp.
    apply (interp_inverse CS Z (fun k => k) Z.opp mpi2 mpi4 T) with (g := h); auto;
      try (rewrite mpi2_ok; reflexivity); try (rewrite mpi4_ok; reflexivity).
  Qed.

  (* Gate.inverse keeps target and control; the name changes only for S and T (no controls possible) *)
  Lemma zinv_site (h hi : zgate) : zinv h = Ok hi -> ptarget hi = ptarget h /\ pcontrol hi = pcontrol h.
  Proof.
    unfold gate_inverse. destruct (negb _); [discriminate|].
    destruct (String.eqb (pname h) "S"); [intro E; inversion E; auto|].
    destruct (String.eqb (pname h) "T"); [intro E; inversion E; auto|].
    destruct (pparam h); intro E; inversion E; auto.
  Qed.

  Lemma zinv_qubits (h hi : zgate) : zinv h = Ok hi -> gate_qubits hi = gate_qubits h.
  Proof. intro E. destruct (zinv_site h hi E) as [Ht Hc]. unfold gate_qubits. rewrite Ht, Hc. reflexivity. Qed.

  Lemma zinv_okb (h hi : zgate) : zinv h = Ok hi -> gate_okb Z h = true -> gate_okb Z hi = true.
  Proof.
    intros E Hok. pose proof (zinv_qubits h hi E) as Hq. destruct (zinv_site h hi E) as [Ht Hc].
    pose proof (okb_ctrl Z h Hok) as Hctl.
    unfold gate_okb in *. rewrite Hq. apply andb_true_iff in Hok. destruct Hok as [Hok _]. rewrite Hok. simpl.
    rewrite Hc. destruct (pcontrol h) as [c|]; [|reflexivity].
    unfold gate_inverse in E. destruct (negb _); [discriminate|].
    destruct (String.eqb_spec (pname h) "S") as [Es|_]; [rewrite Es in Hctl; discriminate|].
    destruct (String.eqb_spec (pname h) "T") as [Et|_]; [rewrite Et in Hctl; discriminate|].
    destruct (pparam h); inversion E; subst; simpl; exact Hctl.
  Qed.

  Lemma all_cancel_true kept gate : forall qs,
    rall kept qs gate = Ok true ->
    forall q, In q qs -> exists p h hi, last_touch Z kept q = Some p /\ nth_error kept p = Some h
                                        /\ zinv h = Ok hi /\ zeq hi gate = true.
  Proof.
    induction qs as [|q0 r IH]; simpl; intros H q Hq; [contradiction|].
    destruct (last_touch Z kept q0) as [top|] eqn:Hl; [|discriminate].
    unfold cancels, nth_gate in H.
    destruct (nth_error kept top) as [h|] eqn:Hn; simpl in H; [|discriminate].
    destruct (zinv h) as [hi|] eqn:Hi; simpl in H; [|discriminate].
    destruct (zeq hi gate) eqn:He; [|discriminate].
    destruct Hq as [<-|Hq].
    - exists top, h, hi. auto.
    - apply IH; assumption.
  Qed.

  (* one iteration: the kept list after it, up to a sign, denotes the kept list before it followed by
     the current gate *)
  Lemma redundant_step_sound kept (gate : zgate) kept' K G :
    eq_tables_ok T = true -> zokall kept -> gate_okb Z gate = true ->
    cy_interp_all kept = Some K -> cy_interp gate = Some G ->
    rstep kept gate = Ok kept' ->
    zokall kept' /\ exists K' neg, cy_interp_all kept' = Some K'
                                   /\ forall psi, den_gate CS G (den CS K psi) = sscale CS (sgn neg) (den CS K' psi).
  Proof.
    intros HT Hok Hg HK HG H. unfold redundant_step in H.
    destruct (rall kept (gate_qubits gate) gate) as [rm|] eqn:Hac; simpl in H; [|discriminate].
    destruct rm.
    2:{ inversion H; subst kept'. split.
        - apply Forall_app. split; [exact Hok | constructor; [exact Hg | constructor]].
        - exists (K ++ [G]), false. split; [apply (interp_all_snoc CS Z (fun k => k)); assumption|].
          intro psi. rewrite sscale_sgn_false, den_app. reflexivity. }
    destruct (gate_qubits gate) as [|q0 qr] eqn:Eqs; [discriminate|].
    destruct (last_touch Z kept q0) as [top|] eqn:Hl0; [|discriminate]. inversion H; subst kept'; clear H.
    rewrite <- Eqs in Hac.
    pose proof (all_cancel_true kept gate _ Hac) as Hall.
    assert (Hall' : forall q, In q (gate_qubits gate) ->
                      exists p h, last_touch Z kept q = Some p /\ nth_error kept p = Some h
                                  /\ gate_qubits h = gate_qubits gate).
    { intros q Hq. destruct (Hall q Hq) as (p & h & hi & Hp & Hn & Hi & He).
      exists p, h. repeat split; auto.
      rewrite <- (zinv_qubits h hi Hi). apply (gate_eq_qubits Z (zeqmod 16 32) T). exact He. }
    destruct (same_last Z kept (gate_qubits gate) Hall' q0 top ltac:(rewrite Eqs; left; reflexivity) Hl0)
      as (pre & h & post & Ek & Lp & _ & Hpost).
    destruct (Hall q0 ltac:(rewrite Eqs; left; reflexivity)) as (p & h' & hi & Hp & Hn & Hi & He).
    rewrite Hl0 in Hp. assert (p = top) by congruence. subst p.
    assert (h' = h) by (rewrite Ek, <- Lp, nth_error_split_mid in Hn; congruence). subst h'.
    rewrite Ek, <- Lp, del_nth_split.
    unfold cy_interp_all in HK. rewrite Ek in HK.
    destruct (interp_all_split CS Z (fun k => k) pre h post K HK) as (Pre & Hh & Post & -> & HPre & HHh & HPost).
    rewrite Ek in Hok. apply Forall_app in Hok. destruct Hok as [Hokpre Hok2].
    pose proof (Forall_inv Hok2) as Hokh. pose proof (Forall_inv_tail Hok2) as Hokpost.
    pose proof (zinv_interp h hi Hh Hi HHh) as HHi.
    pose proof (zinv_okb h hi Hi Hokh) as Hokhi.
    destruct (gate_eq_sound T hi gate (gate_inv CS Hh) G HT Hokhi He HHi HG) as (neg & _ & Hsign).
    split.
    - apply Forall_app. split; assumption.
    - exists (Pre ++ Post), neg. split.
      + unfold cy_interp_all. apply (interp_all_app CS Z (fun k => k)); assumption.
      + intro psi. rewrite !den_app, den_cons.
        assert (Hdis : Forall (fun X => disjoint (State.gate_qubits CS G) (State.gate_qubits CS X)) Post).
        { apply (interp_all_disjoint CS Z (fun k => k) gate G Hg HG post Post Hokpost HPost). exact Hpost. }
        rewrite <- (den_gate_comm_circuit CS G Post _ Hdis).
        assert (EG : forall s, den_gate CS G s = sscale CS (sgn neg) (den_gate CS (gate_inv CS Hh) s)).
        { intro s. rewrite Hsign, sgn_sgn. reflexivity. }
        rewrite EG, den_gate_inv_l by (apply (interp_wf CS Z (fun k => k) h Hh Hokh HHh)).
        apply (den_linear CS Post).
  Qed.

  Lemma redundant_fold_sound gs : forall kept out K C,
    eq_tables_ok T = true -> zokall kept -> zokall gs ->
    cy_interp_all kept = Some K -> cy_interp_all gs = Some C ->
    fold_left (fun acc g => do k <- acc; rstep k g) gs (Ok kept) = Ok out ->
    zokall out /\ exists C' neg, cy_interp_all out = Some C'
                                 /\ forall psi, den CS C (den CS K psi) = sscale CS (sgn neg) (den CS C' psi).
  Proof.
    induction gs as [|g r IH]; simpl; intros kept out K C HT Hok Hgs HK HC H.
    - assert (out = kept) by congruence. subst out. unfold cy_interp_all in HC; simpl in HC.
      assert (C = []) by congruence. subst C.
      split; [exact Hok|]. exists K, false. split; [exact HK|]. intro psi. rewrite sscale_sgn_false. reflexivity.
    - unfold cy_interp_all in HC; simpl in HC.
      destruct (interp CS Z (fun k => k) g) as [G|] eqn:HG; [|discriminate].
      destruct (interp_all CS Z (fun k => k) r) as [R|] eqn:HR; [|discriminate]. assert (C = G :: R) by congruence. subst C. clear HC.
      destruct (rstep kept g) as [kept1|e] eqn:Hs.
      + destruct (redundant_step_sound kept g kept1 K G HT Hok (Forall_inv Hgs) HK HG Hs) as (Hok1 & K1 & n1 & HK1 & Hden1).
        destruct (IH kept1 out K1 R HT Hok1 (Forall_inv_tail Hgs) HK1 HR H) as (Hoko & C' & n2 & HC' & Hden).
        split; [exact Hoko|]. exists C', (xorb n1 n2). split; [exact HC'|]. intro psi.
        rewrite den_cons, Hden1, (den_linear CS R), Hden, sscale_sgn_sgn. reflexivity.
      + simpl in H. rewrite fold_bind_err in H. discriminate.
  Qed.

  (* remove_redundant_gates: the gates kept denote the operation of the input up to one global sign *)
  Theorem remove_redundant_sound gs out C :
    eq_tables_ok T = true -> zokall gs -> cy_interp_all gs = Some C -> rcore gs = Ok out ->
    zokall out /\ exists C' neg, cy_interp_all out = Some C'
                                 /\ forall psi, den CS C psi = sscale CS (sgn neg) (den CS C' psi).
  Proof.
    intros HT Hok HC H. unfold redundant_core in H.
    apply (redundant_fold_sound gs [] out [] C HT (Forall_nil _) Hok eq_refl HC H).
  Qed.
End Red.
