(* RealInst.v — the real-number instance of the Linq model parameters: angles are real numbers,
   `of_units u` is u * pi/8 (how constants regenerated from the source, given in units of pi/8,
   are read as reals). *)
From Coq Require Import Reals Lra ZArith.
From Tangelo Require Import Num.KStruct Num.CReal.
Local Open Scope R_scope.

Definition of_units (u : Z) : R := IZR u * PI / 8.

Lemma of_units_m4 : of_units (-4) = @aopp CRealS (@api2 CRealS).
Proof. unfold of_units. simpl. lra. Qed.
Lemma of_units_m2 : of_units (-2) = @aopp CRealS (@api4 CRealS).
Proof. unfold of_units. simpl. lra. Qed.
