(* FormatsProofs.v — lemmas about Linq/Formats.v: export-then-import round trips for every circuit
   (induction over the gate list), reduced to boolean conditions on the regenerated tables;
   refusal of unsupported gates; Gate.__repr__ field list. *)
From Coq Require Import String Ascii ZArith List Bool Arith Lia.
From Tangelo Require Import Linq.GateModel Linq.CircuitModel Linq.CircuitProofs Linq.Formats.
Import ListNotations.
Open Scope string_scope.
Open Scope list_scope.

(* ---------------------------------------------------------------- list / Z facts (before the section) *)
Lemma zmax_ge_m1 l : (-1 <= zmax l)%Z.
Proof. induction l as [|a r IH]; simpl; lia. Qed.

Lemma zlist_eqb_refl l : zlist_eqb l l = true.
Proof. induction l as [|a r IH]; simpl; [reflexivity | rewrite Z.eqb_refl, IH; reflexivity]. Qed.
Lemma ozlist_eqb_refl o : ozlist_eqb o o = true.
Proof. destruct o; simpl; [apply zlist_eqb_refl | reflexivity]. Qed.

Lemma mapM_app_ok {X Y} (f : X -> res Y) l1 l2 r1 r2 :
  mapM f l1 = Ok r1 -> mapM f l2 = Ok r2 -> mapM f (l1 ++ l2) = Ok (r1 ++ r2).
Proof.
  revert r1. induction l1 as [|a l IH]; simpl; intros r1 H1 H2.
  - inversion H1; subst. assumption.
  - destruct (f a) as [y|e]; simpl in *; [|discriminate].
    destruct (mapM f l) as [ys|e]; simpl in *; [|discriminate].
    inversion H1; subst. rewrite (IH ys eq_refl H2). reflexivity.
Qed.

Lemma mapM_err_in {X Y} (f : X -> res Y) l x :
  In x l -> (exists e, f x = Err e) -> exists e, mapM f l = Err e.
Proof.
  induction l as [|a l IH]; simpl; intros Hin Hx; [contradiction|].
  destruct (f a) as [y|e] eqn:Ha; simpl; [|eexists; reflexivity].
  destruct Hin as [->|Hin].
  - destruct Hx as [e He]. rewrite He in Ha. discriminate.
  - destruct (IH Hin Hx) as [e He]. rewrite He. simpl. eexists; reflexivity.
Qed.

Lemma mapM_ok_all {X Y} (f : X -> res Y) l r :
  mapM f l = Ok r -> length r = length l /\ forall x, In x l -> exists y, f x = Ok y.
Proof.
  revert r. induction l as [|a l IH]; simpl; intros r H.
  - inversion H. split; [reflexivity | intros x []].
  - destruct (f a) as [y|e] eqn:Ha; simpl in H; [|discriminate].
    destruct (mapM f l) as [ys|e] eqn:Hl; simpl in H; [|discriminate].
    inversion H; subst. destruct (IH ys eq_refl) as [Hlen Hall]. split; [simpl; congruence|].
    intros x [->|Hx]; [eexists; eassumption | apply Hall; assumption].
Qed.

Lemma smem_In s l : smem s l = true <-> In s l.
Proof.
  unfold smem. rewrite existsb_exists. split.
  - intros (x & Hx & He). apply String.eqb_eq in He. subst. assumption.
  - intro H. exists s. split; [assumption | apply String.eqb_refl].
Qed.

Lemma find_wbranch_in n bs b : find_wbranch n bs = Some b -> In n (flat_map wb_names bs).
Proof.
  induction bs as [|a r IH]; simpl; [discriminate|].
  destruct (smem n (wb_names a)) eqn:E.
  - intros _. apply in_or_app. left. apply smem_In. assumption.
  - intro H. apply in_or_app. right. apply IH. assumption.
Qed.
Lemma find_wbranch_some n bs b : find_wbranch n bs = Some b -> In b bs /\ smem n (wb_names b) = true.
Proof.
  induction bs as [|a r IH]; simpl; [discriminate|].
  destruct (smem n (wb_names a)) eqn:E.
  - intro H; inversion H; subst. split; [left; reflexivity | assumption].
  - intro H. destruct (IH H) as [H1 H2]. split; [right; assumption | assumption].
Qed.
Lemma find_shape_in n bs s : find_shape n bs = Some s -> In n (flat_map fst bs).
Proof.
  induction bs as [|[ns sh] r IH]; simpl; [discriminate|].
  destruct (smem n ns) eqn:E.
  - intros _. apply in_or_app. left. apply smem_In. assumption.
  - intro H. apply in_or_app. right. apply IH. assumption.
Qed.

Lemma filter_all_false {X} (f : X -> bool) l : (forall x, In x l -> f x = false) -> filter f l = [].
Proof.
  induction l as [|a r IH]; simpl; intro H; [reflexivity|].
  rewrite (H a (or_introl eq_refl)). apply IH. intros x Hx. apply H. right. assumption.
Qed.
Lemma filter_all_true {X} (f : X -> bool) l : (forall x, In x l -> f x = true) -> filter f l = l.
Proof.
  induction l as [|a r IH]; simpl; intro H; [reflexivity|].
  rewrite (H a (or_introl eq_refl)). f_equal. apply IH. intros x Hx. apply H. right. assumption.
Qed.

Section Proofs.
  Variable Ang : Type.
  Variable ang_eqmod : bool -> Ang -> Ang -> bool.
  (* round(p % period, 7) == round(p % period, 7): true of every float except nan *)
  Hypothesis ang_eqmod_refl : forall l a, ang_eqmod l a a = true.
  Variable T : tables.

  Notation pgate := (pgate Ang).
  Notation param := (param Ang).
  Notation gate_eq := (gate_eq Ang ang_eqmod T).
  Notation gates_eq := (gates_eq Ang ang_eqmod T).
  Notation circ_eq := (circ_eq Ang ang_eqmod T).
  Notation gate_valid := (gate_valid Ang T).
  Notation circ_ok := (circ_ok Ang T).
  Notation clear_var := (clear_var Ang).
  Notation clear_var_c := (clear_var_c Ang).
  Notation gates_width := (gates_width Ang).

  (* ---------------------------------------------------------------- gates *)
  Lemma n_targets_arity n t :
    n_targets T n t = match arity T n with Some k => k | None => length t end.
  Proof. unfold n_targets, arity. destruct (smem n (one_target T)); [reflexivity|]. destruct (smem n (two_target T)); reflexivity. Qed.

  Lemma arity_eqb_eq a b : arity_eqb a b = true -> a = b.
  Proof.
    destruct a as [x|], b as [y|]; simpl; try discriminate; [|reflexivity].
    intro H. apply Nat.eqb_eq in H. congruence.
  Qed.

  (* a valid gate stays valid under a name of the same arity class (and starting with C if it has controls),
     with any parameter and flag *)
  Lemma valid_rename n t c (p : param) v n' (p' : param) v' :
    gate_valid (PGate n t c p v) -> arity T n' = arity T n -> (c <> None -> starts_with_C n' = true) ->
    mk_gate T n' (map IInt t) (option_map (map IInt) c) p' v' = Ok (PGate n' t c p' v').
  Proof.
    unfold Formats.gate_valid, regate, mk_gate; simpl. intros H Ha Hc.
    destruct (negb (idx_ok (map IInt t))); [discriminate|].
    rewrite idx_vals_map_IInt in *.
    rewrite !n_targets_arity in *. rewrite Ha.
    destruct c as [cl|]; simpl in *.
    - rewrite (Hc ltac:(discriminate)). simpl.
      destruct (negb (starts_with_C n)); simpl in H; [discriminate|].
      destruct (negb (idx_ok (map IInt cl))); simpl in *; [discriminate|].
      rewrite idx_vals_map_IInt in *.
      destruct (negb (znodup (t ++ cl))); [discriminate|].
      destruct (negb (length t =? match arity T n with Some k => k | None => length t end)%nat); [discriminate|].
      reflexivity.
    - destruct (negb (znodup t)); [discriminate|].
      destruct (negb (length t =? match arity T n with Some k => k | None => length t end)%nat); [discriminate|].
      reflexivity.
  Qed.

  Lemma valid_control_C n t cl (p : param) v : gate_valid (PGate n t (Some cl) p v) -> starts_with_C n = true.
  Proof.
    unfold Formats.gate_valid, regate, mk_gate; simpl.
    destruct (negb (idx_ok (map IInt t))); [discriminate|].
    destruct (starts_with_C n); [reflexivity | simpl; discriminate].
  Qed.

  Lemma valid_one_target n t c (p : param) v :
    gate_valid (PGate n t c p v) -> arity T n = Some 1%nat -> exists q, t = [q].
  Proof.
    unfold Formats.gate_valid, regate, mk_gate; simpl. intros H Ha.
    destruct (negb (idx_ok (map IInt t))); [discriminate|].
    rewrite idx_vals_map_IInt in *. rewrite n_targets_arity, Ha in H.
    assert (L : length t = 1%nat).
    { destruct c as [cl|]; simpl in H.
      - destruct (negb (starts_with_C n)); simpl in H; [discriminate|].
        destruct (negb (idx_ok (map IInt cl))); simpl in H; [discriminate|].
        destruct (negb (znodup (t ++ idx_vals (map IInt cl)))); [discriminate|].
        destruct (Nat.eqb_spec (length t) 1); [assumption | discriminate].
      - destruct (negb (znodup t)); [discriminate|].
        destruct (Nat.eqb_spec (length t) 1); [assumption | discriminate]. }
    destruct t as [|q [|q' r]]; simpl in L; try discriminate. exists q. reflexivity.
  Qed.

  Lemma param_eq_refl l (p : param) : param_eq Ang ang_eqmod l p p = true.
  Proof. destruct p; simpl; [reflexivity | apply ang_eqmod_refl | apply String.eqb_refl]. Qed.

  (* Gate.__eq__ between a gate with the flag cleared and the same gate under an equivalent name *)
  Lemma gate_eq_renamed (g : pgate) n' :
    name_equiv (pname g) n' = true ->
    gate_eq (clear_var g) (PGate n' (ptarget g) (pcontrol g) (pparam g) false) = true.
  Proof.
    intro H. unfold GateModel.gate_eq, Formats.clear_var; simpl.
    rewrite zlist_eqb_refl, ozlist_eqb_refl, param_eq_refl. simpl.
    unfold name_equiv in H. destruct (is_cnot (pname g) && is_cnot n'); simpl in *; [reflexivity|].
    rewrite H. reflexivity.
  Qed.

  (* the relation established gate by gate: same qubits and parameter, equivalent name, flag cleared *)
  Definition came_back (g g' : pgate) : Prop :=
    exists n', name_equiv (pname g) n' = true /\ g' = PGate n' (ptarget g) (pcontrol g) (pparam g) false.

  Lemma came_back_eq g g' : came_back g g' -> gate_eq (clear_var g) g' = true /\ gate_qubits g' = gate_qubits g.
  Proof. intros (n' & Hn & ->). split; [apply gate_eq_renamed; assumption | reflexivity]. Qed.

  Lemma came_back_list gs gs' :
    Forall2 came_back gs gs' ->
    gates_eq (map clear_var gs) gs' = true /\ gates_width gs' = gates_width gs.
  Proof.
    unfold Formats.gates_width. intro H.
    assert (H2 : gates_eq (map clear_var gs) gs' = true /\ flat_map gate_qubits gs' = flat_map gate_qubits gs).
    { induction H as [|g g' l l' Hg Hl IH]; simpl; [split; reflexivity|].
      destruct (came_back_eq _ _ Hg) as [He Hq]. destruct IH as [IH1 IH2].
      rewrite He, IH1, Hq, IH2. split; reflexivity. }
    destruct H2 as [H1 H2]. rewrite H2. split; [assumption | reflexivity].
  Qed.

  Lemma clear_var_id gs : Forall (fun g : pgate => pvar g = false) gs -> map clear_var gs = gs.
  Proof.
    induction 1 as [|g l Hg Hl IH]; simpl; [reflexivity|].
    rewrite IH. f_equal. destruct g as [n t c p v]; simpl in *. subst. reflexivity.
  Qed.

  (* ================================================================ IonQ *)
  Section IonQ.
    Variable I : ionq_tables.
    Notation iq_write_gate := (iq_write_gate Ang I).
    Notation iq_read_rec := (iq_read_rec Ang T I).
    Notation iq_write := (iq_write Ang I).
    Notation iq_read := (iq_read Ang T I).
    Notation iq_expressible := (iq_expressible Ang I).

    Hypothesis tables_ok : iq_tables_ok T I = true.

    Lemma iq_guard_false n b (c : option (list Z)) :
      iq_name_ok T I n b = true -> (wb_controls b = true -> truthy_list c = true) ->
      smem n (iq_w_need_control I) && negb (truthy_list c) = false.
    Proof.
      unfold iq_name_ok. intros Hok Hc.
      destruct (lookup n (iq_names I)); [|discriminate].
      destruct (find_rbranch _ _ _ _); [|discriminate].
      apply andb_prop in Hok. destruct Hok as [_ HG].
      destruct (wb_controls b).
      - rewrite (Hc eq_refl). apply andb_false_r.
      - simpl in HG. apply negb_true_iff in HG. rewrite HG. reflexivity.
    Qed.

    Lemma iq_gate_roundtrip g :
      gate_valid g -> iq_expressible g ->
      exists r, iq_write_gate g = Ok r /\ exists g', iq_read_rec r = Ok g' /\ came_back g g'.
    Proof.
      intros Hv Hx. destruct g as [n t c p v].
      unfold Formats.iq_expressible in Hx. unfold Formats.iq_write_gate. simpl in *.
      destruct (find_wbranch n (iq_wbranches I)) as [b|] eqn:Hb; [|contradiction].
      destruct Hx as [Hrot Hctl].
      assert (Hok : iq_name_ok T I n b = true).
      { unfold iq_tables_ok in tables_ok. rewrite forallb_forall in tables_ok.
        specialize (tables_ok n (find_wbranch_in _ _ _ Hb)). rewrite Hb in tables_ok. assumption. }
      rewrite (iq_guard_false n b c Hok Hctl).
      unfold iq_name_ok in Hok.
      destruct (lookup n (iq_names I)) as [w|] eqn:Hw; [|discriminate]. simpl.
      eexists. split; [reflexivity|].
      unfold Formats.iq_read_rec. simpl.
      (* presence of the control / rotation keys as seen by the reader *)
      assert (Hc : is_some (if wb_controls b then c else None) = wb_controls b).
      { destruct (wb_controls b) eqn:E; [|reflexivity]. destruct c; [reflexivity|]. specialize (Hctl eq_refl). discriminate. }
      assert (Hp : is_some (if wb_rotation b then Some p else None) = wb_rotation b).
      { destruct (wb_rotation b); reflexivity. }
      rewrite Hc, Hp.
      set (name := if (upper w =? iq_rename_from I) && wb_rotation b then iq_rename_to I else upper w) in *.
      destruct (find_rbranch name (wb_controls b) (wb_rotation b) (iq_rbranches I)) as [rb|]; [|discriminate].
      set (final := if rb_prefixC rb then String.append "C" name else name) in *.
      repeat (apply andb_prop in Hok; destruct Hok as [Hok ?]).
      rename H0 into HnC, H1 into HfC, H2 into Har, H3 into Hpp, H4 into Hpc.
      apply eqb_prop in Hpp. apply arity_eqb_eq in Har.
      (* the controls the reader passes to Gate are the gate's own *)
      assert (Hctrl : (if rb_pass_ctrl rb then option_map (map IInt) (if wb_controls b then c else None) else None)
                      = option_map (map IInt) c).
      { destruct (wb_controls b) eqn:E.
        - simpl in Hpc. rewrite orb_false_r in Hpc. rewrite Hpc. reflexivity.
        - assert (c = None) as ->.
          { destruct c as [cl|]; [|reflexivity]. simpl in HnC.
            rewrite (valid_control_C _ _ _ _ _ Hv) in HnC. discriminate. }
          destruct (rb_pass_ctrl rb); reflexivity. }
      rewrite Hctrl.
      assert (Hparam : (if rb_pass_param rb then opt_err AttributeError (if wb_rotation b then Some p else None) else Ok PNone)
                       = Ok p).
      { rewrite Hpp. destruct (wb_rotation b) eqn:E; [reflexivity|]. rewrite (Hrot eq_refl). reflexivity. }
      rewrite Hparam. cbv beta iota delta [bind].
      change (if rb_prefixC rb then String "C"%char name else name) with final.
      rewrite (valid_rename n t c p v final p false Hv Har).
      - eexists. split; [reflexivity|]. exists final. split; [assumption | reflexivity].
      - intro Hne. destruct (wb_controls b) eqn:E.
        + rewrite orb_false_r in HfC. assumption.
        + destruct c as [cl|]; [|contradiction]. simpl in HnC.
          rewrite (valid_control_C _ _ _ _ _ Hv) in HnC. discriminate.
    Qed.

    Lemma iq_list_roundtrip gs :
      Forall gate_valid gs -> Forall iq_expressible gs ->
      exists rs, mapM iq_write_gate gs = Ok rs /\ exists gs', mapM iq_read_rec rs = Ok gs' /\ Forall2 came_back gs gs'.
    Proof.
      induction gs as [|g l IH]; intros Hv Hx.
      - exists []. split; [reflexivity|]. exists []. split; [reflexivity | constructor].
      - inversion Hv; subst. inversion Hx; subst.
        destruct (iq_gate_roundtrip g H1 H3) as (r & Hw & g' & Hr & Hb).
        destruct (IH H2 H4) as (rs & Hws & gs' & Hrs & Hbs).
        exists (r :: rs). simpl. rewrite Hw, Hws. split; [reflexivity|].
        exists (g' :: gs'). rewrite Hr, Hrs. split; [reflexivity | constructor; assumption].
    Qed.

    (* export then import: every circuit object whose gates the writer accepts and the format can express *)
    Theorem ionq_roundtrip_gen (c : fcirc Ang) :
      circ_ok c -> Forall iq_expressible (fgates c) ->
      exists j c', iq_write c = Ok j /\ iq_read j = Ok c' /\ circ_eq (clear_var_c c) c' = true.
    Proof.
      intros [Hv Hw] Hx. destruct c as [gs w]; simpl in *.
      destruct (iq_list_roundtrip gs Hv Hx) as (rs & Hws & gs' & Hrs & Hb).
      destruct (came_back_list _ _ Hb) as [He Hgw].
      unfold Formats.iq_write; simpl. rewrite Hws; simpl.
      exists (IJson w rs). eexists. split; [reflexivity|].
      unfold Formats.iq_read; simpl. rewrite Hrs; simpl. split; [reflexivity|].
      unfold Formats.circ_eq, Formats.clear_var_c; simpl. rewrite He. simpl.
      unfold iq_result_width. rewrite Hgw. apply Z.eqb_eq.
      pose proof (zmax_ge_m1 (flat_map gate_qubits gs)) as Hm. unfold Formats.gates_width in *. lia.
    Qed.

    Theorem ionq_roundtrip (c : fcirc Ang) :
      circ_ok c -> Forall iq_expressible (fgates c) -> Forall (fun g : pgate => pvar g = false) (fgates c) ->
      exists j c', iq_write c = Ok j /\ iq_read j = Ok c' /\ circ_eq c c' = true.
    Proof.
      intros Hok Hx Hnv. destruct (ionq_roundtrip_gen c Hok Hx) as (j & c' & H1 & H2 & H3).
      exists j, c'. split; [assumption|]. split; [assumption|].
      unfold Formats.clear_var_c in H3. rewrite (clear_var_id _ Hnv) in H3. destruct c; assumption.
    Qed.
  End IonQ.

  (* refusal does not depend on any table condition *)
  Section Refuse.
    Variable I : ionq_tables.
    Variable P : pq_tables.

    Lemma iq_write_gate_unaccepted (g : pgate) : iq_accepts I (pname g) = false -> iq_write_gate Ang I g = Err ValueError.
    Proof.
      unfold iq_accepts, Formats.iq_write_gate. destruct (find_wbranch (pname g) (iq_wbranches I)); [discriminate|].
      destruct (smem (pname g) (iq_w_need_control I) && negb (truthy_list (pcontrol g))); reflexivity.
    Qed.
    Lemma pq_write_gate_unaccepted (g : pgate) : pq_accepts P (pname g) = false -> pq_write_gate Ang P g = Err ValueError.
    Proof.
      unfold pq_accepts, Formats.pq_write_gate. destruct (find_shape (pname g) (pq_wbranches P)); [discriminate | reflexivity].
    Qed.

    (* every kind written with a controls key is covered by the branch that refuses a missing control *)
    Definition iq_controls_guarded : bool :=
      forallb (fun b => negb (wb_controls b) || forallb (fun n => smem n (iq_w_need_control I)) (wb_names b)) (iq_wbranches I).

    Theorem iq_refuses_nocontrol (c : fcirc Ang) (g : pgate) b :
      iq_controls_guarded = true ->
      In g (fgates c) -> find_wbranch (pname g) (iq_wbranches I) = Some b -> wb_controls b = true ->
      truthy_list (pcontrol g) = false -> exists e, iq_write Ang I c = Err e.
    Proof.
      intros Hg Hin Hb Hc Ht. unfold Formats.iq_write.
      destruct (mapM_err_in (iq_write_gate Ang I) (fgates c) g Hin) as [e He].
      { exists ValueError. unfold Formats.iq_write_gate.
        destruct (find_wbranch_some _ _ _ Hb) as [Hinb Hn].
        unfold iq_controls_guarded in Hg. rewrite forallb_forall in Hg. specialize (Hg b Hinb).
        rewrite Hc in Hg. simpl in Hg. rewrite forallb_forall in Hg.
        rewrite (Hg (pname g) (proj1 (smem_In _ _) Hn)), Ht. reflexivity. }
      rewrite He. eexists. reflexivity.
    Qed.

    (* a guarded kind with no / several controls is refused by the guard itself *)
    Lemma pq_write_gate_guarded (g : pgate) :
      pq_accepts P (pname g) = true -> smem (pname g) (pq_w_single_ctrl P) = true ->
      (forall c0, pcontrol g <> Some [c0]) -> exists e, pq_write_gate Ang P g = Err e.
    Proof.
      unfold pq_accepts, Formats.pq_write_gate. intros Ha Hg Hc.
      destruct (find_shape (pname g) (pq_wbranches P)); [|discriminate].
      unfold Formats.pq_guard. rewrite Hg.
      destruct (smem (pname g) (pq_w_single_target P) && negb (length (ptarget g) =? 1)%nat); [eexists; reflexivity|].
      cbv beta iota delta [bind].
      destruct (pcontrol g) as [[|c0 [|c1 r]]|] eqn:E; simpl; try (eexists; reflexivity).
      exfalso. apply (Hc c0). reflexivity.
    Qed.
    Theorem pq_refuses_multicontrol (c : fcirc Ang) (g : pgate) :
      In g (fgates c) -> pq_accepts P (pname g) = true -> smem (pname g) (pq_w_single_ctrl P) = true ->
      (forall c0, pcontrol g <> Some [c0]) -> exists e, pq_write Ang P c = Err e.
    Proof.
      intros Hin Ha Hg Hc. unfold Formats.pq_write.
      destruct (mapM_err_in (pq_write_gate Ang P) (fgates c) g Hin (pq_write_gate_guarded g Ha Hg Hc)) as [e He].
      rewrite He. eexists. reflexivity.
    Qed.

    (* a target-guarded kind on no / several targets is refused by the guard itself *)
    Lemma pq_write_gate_target_guarded (g : pgate) :
      pq_accepts P (pname g) = true -> smem (pname g) (pq_w_single_target P) = true ->
      length (ptarget g) <> 1 -> pq_write_gate Ang P g = Err ValueError.
    Proof.
      unfold pq_accepts, Formats.pq_write_gate. intros Ha Hg Hl.
      destruct (find_shape (pname g) (pq_wbranches P)); [|discriminate].
      unfold Formats.pq_guard. rewrite Hg.
      destruct (Nat.eqb_spec (length (ptarget g)) 1) as [E|E]; [contradiction|]. reflexivity.
    Qed.
    Theorem pq_refuses_multitarget (c : fcirc Ang) (g : pgate) :
      In g (fgates c) -> pq_accepts P (pname g) = true -> smem (pname g) (pq_w_single_target P) = true ->
      length (ptarget g) <> 1 -> exists e, pq_write Ang P c = Err e.
    Proof.
      intros Hin Ha Hg Hl. unfold Formats.pq_write.
      destruct (mapM_err_in (pq_write_gate Ang P) (fgates c) g Hin) as [e He].
      { eexists. apply pq_write_gate_target_guarded; assumption. }
      rewrite He. eexists. reflexivity.
    Qed.

    (* a circuit containing a gate of a kind outside the accepted set is refused as a whole *)
    Theorem writers_refuse_unsupported (c : fcirc Ang) (g : pgate) :
      In g (fgates c) ->
      (iq_accepts I (pname g) = false -> exists e, iq_write Ang I c = Err e)
      /\ (pq_accepts P (pname g) = false -> exists e, pq_write Ang P c = Err e).
    Proof.
      intro Hin. split; intro Ha.
      - unfold Formats.iq_write.
        destruct (mapM_err_in (iq_write_gate Ang I) (fgates c) g Hin) as [e He].
        { eexists. apply iq_write_gate_unaccepted. assumption. }
        rewrite He. eexists. reflexivity.
      - unfold Formats.pq_write.
        destruct (mapM_err_in (pq_write_gate Ang P) (fgates c) g Hin) as [e He].
        { eexists. apply pq_write_gate_unaccepted. assumption. }
        rewrite He. eexists. reflexivity.
    Qed.

    (* what a writer does emit is one record / line per gate, named by the table entry of the gate's own
       name, on the gate's own target list (IonQ) resp. first target (ProjectQ) *)
    Theorem iq_write_only_accepted (c : fcirc Ang) j :
      iq_write Ang I c = Ok j ->
      length (ij_circuit j) = length (fgates c) /\ ij_qubits j = fwidth c
      /\ forall g, In g (fgates c) -> iq_accepts I (pname g) = true.
    Proof.
      unfold Formats.iq_write. destruct (mapM (iq_write_gate Ang I) (fgates c)) as [rs|e] eqn:E; simpl; [|discriminate].
      intro H; inversion H; subst; simpl. destruct (mapM_ok_all _ _ _ E) as [Hl Hall].
      split; [assumption|]. split; [reflexivity|]. intros g Hg. destruct (Hall g Hg) as [y Hy].
      destruct (iq_accepts I (pname g)) eqn:Ea; [reflexivity|].
      rewrite (iq_write_gate_unaccepted g Ea) in Hy. discriminate.
    Qed.
    Theorem pq_write_only_accepted (c : fcirc Ang) ls :
      pq_write Ang P c = Ok ls -> forall g, In g (fgates c) -> pq_accepts P (pname g) = true.
    Proof.
      unfold Formats.pq_write. destruct (mapM (pq_write_gate Ang P) (fgates c)) as [rs|e] eqn:E; simpl; [|discriminate].
      intros _ g Hg. destruct (mapM_ok_all _ _ _ E) as [_ Hall]. destruct (Hall g Hg) as [y Hy].
      destruct (pq_accepts P (pname g)) eqn:Ea; [reflexivity|].
      rewrite (pq_write_gate_unaccepted g Ea) in Hy. discriminate.
    Qed.

    Lemma iq_write_gate_faithful (g : pgate) r :
      iq_write_gate Ang I g = Ok r ->
      lookup (pname g) (iq_names I) = Some (ir_gate r) /\ ir_targets r = Some (ptarget g) /\ ir_target r = None
      /\ (ir_controls r = None \/ ir_controls r = pcontrol g) /\ ir_control r = None
      /\ (ir_rotation r = None \/ ir_rotation r = Some (pparam g)).
    Proof.
      unfold Formats.iq_write_gate.
      destruct (smem (pname g) (iq_w_need_control I) && negb (truthy_list (pcontrol g))); [discriminate|].
      destruct (find_wbranch (pname g) (iq_wbranches I)) as [b|]; [|discriminate].
      destruct (lookup (pname g) (iq_names I)) as [w|]; simpl; [|discriminate].
      intro H; inversion H; subst; simpl. repeat split; try reflexivity.
      - destruct (wb_controls b); [right | left]; reflexivity.
      - destruct (wb_rotation b); [right | left]; reflexivity.
    Qed.
  End Refuse.

  (* ================================================================ ProjectQ *)
  Section ProjectQ.
    Variable P : pq_tables.
    Notation pq_write_gate := (pq_write_gate Ang P).
    Notation pq_read_line := (pq_read_line Ang T P).
    Notation pq_write := (pq_write Ang P).
    Notation pq_read := (pq_read Ang T P).
    Notation pq_expressible := (pq_expressible Ang P).
    Notation pq_is_ignored := (pq_is_ignored Ang P).

    (* "Allocate | Qureg[i]" instructions are among those the reader deletes *)
    Definition pq_alloc_ignored : bool := existsb (fun lit => containsb lit "Allocate") (pq_ignored P).

    Lemma pq_guard_ok n q (c : option (list Z)) (p : param) v :
      (smem n (pq_w_single_ctrl P) = false \/ exists c0, c = Some [c0]) ->
      pq_guard Ang P (PGate n [q] c p v) = Ok tt.
    Proof.
      intro H. unfold Formats.pq_guard. simpl. rewrite andb_false_r. simpl.
      destruct H as [H|[c0 ->]]; [rewrite H; reflexivity|].
      destruct (smem n (pq_w_single_ctrl P)); reflexivity.
    Qed.

    Lemma pq_gate_roundtrip g :
      pq_survives T P (pname g) = true -> gate_valid g -> pq_expressible g ->
      exists l, pq_write_gate g = Ok l /\ pq_is_ignored l = false /\ exists g', pq_read_line l = Ok g' /\ came_back g g'.
    Proof.
      intros Hs Hv Hx. destruct g as [n t c p v].
      unfold pq_survives in Hs. unfold Formats.pq_expressible in Hx. unfold Formats.pq_write_gate. simpl in *.
      destruct Hx as [[q ->] Hx].
      destruct (find_shape n (pq_wbranches P)) as [sh|] eqn:Hsh; [|discriminate].
      unfold pq_name_ok in Hs.
      destruct (lookup n (pq_names P)) as [w|] eqn:Hw; [|discriminate]. simpl.
      apply andb_prop in Hs. destruct Hs as [Hign Hs].
      destruct (find_shape w (pq_rbranches P)) as [sh'|] eqn:Hsh'; [|discriminate].
      apply andb_prop in Hs. destruct Hs as [Hse Hs].
      destruct (rlookup w (pq_names P)) as [n'|] eqn:Hr; [|discriminate].
      repeat (apply andb_prop in Hs; destruct Hs as [Hs ?]).
      rename H into HG, H0 into HC, H1 into Har. apply arity_eqb_eq in Har.
      assert (Hig : forall pa qs, pq_is_ignored (PQLine w pa qs) = false).
      { intros. unfold Formats.pq_is_ignored. simpl. apply negb_true_iff. assumption. }
      destruct sh; destruct sh'; try discriminate; simpl in *.
      - (* PQS1 *) subst p.
        assert (c = None) as ->.
        { destruct c as [cl|]; [|reflexivity]. rewrite (valid_control_C _ _ _ _ _ Hv) in HC. discriminate. }
        rewrite pq_guard_ok; [|left; apply negb_true_iff; assumption]. simpl.
        eexists. split; [reflexivity|]. split; [apply Hig|].
        unfold Formats.pq_read_line. simpl. rewrite Hsh', Hr. simpl.
        pose proof (valid_rename n [q] None PNone v n' PNone false Hv Har ltac:(intro X; contradiction)) as Hm.
        simpl in Hm. rewrite Hm. eexists. split; [reflexivity|]. exists n'. split; [assumption | reflexivity].
      - (* PQS1p *) destruct Hx as [a ->].
        assert (c = None) as ->.
        { destruct c as [cl|]; [|reflexivity]. rewrite (valid_control_C _ _ _ _ _ Hv) in HC. discriminate. }
        rewrite pq_guard_ok; [|left; apply negb_true_iff; assumption]. simpl.
        eexists. split; [reflexivity|]. split; [apply Hig|].
        unfold Formats.pq_read_line. simpl. rewrite Hsh', Hr. simpl.
        pose proof (valid_rename n [q] None (PNum a) v n' (PNum a) false Hv Har ltac:(intro X; contradiction)) as Hm.
        simpl in Hm. rewrite Hm. eexists. split; [reflexivity|]. exists n'. split; [assumption | reflexivity].
      - (* PQS2 *) destruct Hx as [-> [c0 ->]]. simpl.
        assert (HGd : pq_guard Ang P (PGate n [q] (Some [c0]) PNone v) = Ok tt).
        { apply pq_guard_ok. right. eexists. reflexivity. }
        rewrite HGd. simpl.
        eexists. split; [reflexivity|]. split; [apply Hig|].
        unfold Formats.pq_read_line. simpl. rewrite Hsh', Hr. simpl.
        pose proof (valid_rename n [q] (Some [c0]) PNone v n' PNone false Hv Har ltac:(intros _; assumption)) as Hm.
        simpl in Hm. rewrite Hm. eexists. split; [reflexivity|]. exists n'. split; [assumption | reflexivity].
    Qed.

    Lemma pq_list_roundtrip gs :
      Forall (fun g : pgate => pq_survives T P (pname g) = true) gs -> Forall gate_valid gs -> Forall pq_expressible gs ->
      exists ls, mapM pq_write_gate gs = Ok ls /\ (forall l, In l ls -> negb (pq_is_ignored l) = true)
                 /\ exists gs', mapM pq_read_line ls = Ok gs' /\ Forall2 came_back gs gs'.
    Proof.
      induction gs as [|g l IH]; intros Hs Hv Hx.
      - exists []. split; [reflexivity|]. split; [intros ? []|]. exists []. split; [reflexivity | constructor].
      - inversion Hs; subst. inversion Hv; subst. inversion Hx; subst.
        destruct (pq_gate_roundtrip g H1 H3 H5) as (r & Hw & Hi & g' & Hr & Hb).
        destruct (IH H2 H4 H6) as (rs & Hws & His & gs' & Hrs & Hbs).
        exists (r :: rs). simpl. rewrite Hw, Hws. split; [reflexivity|].
        split. { intros x [<-|Hx']; [rewrite Hi; reflexivity | apply His; assumption]. }
        exists (g' :: gs'). rewrite Hr, Hrs. split; [reflexivity | constructor; assumption].
    Qed.

    (* export then import, for every circuit over the gate kinds that survive ([pq_survives], computed from
       the regenerated tables), numeric parameters, single controls, and no idle qubit above the last used
       one (the reader infers the width from the gates) *)
    Lemma pq_n_allocated_app a b :
      pq_n_allocated Ang (a ++ b) = Z.max (pq_n_allocated Ang a) (pq_n_allocated Ang b).
    Proof.
      induction a as [|x r IH]; simpl.
      - assert (H : (0 <= pq_n_allocated Ang b)%Z).
        { induction b as [|y q IHb]; simpl; lia. }
        lia.
      - rewrite IH. lia.
    Qed.
    Lemma pq_n_allocated_allocs (n : nat) :
      pq_n_allocated Ang (map (pq_alloc Ang) (map Z.of_nat (seq 0 n))) = Z.of_nat n.
    Proof.
      induction n as [|n IH]; [reflexivity|].
      rewrite seq_S, !map_app, pq_n_allocated_app, IH.
      change (pq_n_allocated Ang (map (pq_alloc Ang) (map Z.of_nat [(0 + n)%nat]))) with (Z.max (Z.of_nat n + 1) 0).
      rewrite Nat2Z.inj_succ. lia.
    Qed.
    Lemma pq_n_allocated_none ls :
      (forall l, In l ls -> pq_alloc_index Ang l = 0%Z) -> pq_n_allocated Ang ls = 0%Z.
    Proof.
      induction ls as [|x r IH]; simpl; intro H; [reflexivity|].
      rewrite (H x (or_introl eq_refl)), IH; [reflexivity|]. intros l Hl. apply H. right. assumption.
    Qed.
    (* an instruction that survives the deletion of the (de)allocations is not an Allocate instruction *)
    Lemma not_ignored_not_alloc l :
      pq_alloc_ignored = true -> negb (pq_is_ignored l) = true -> pq_alloc_index Ang l = 0%Z.
    Proof.
      intros Hal Hl. unfold pq_alloc_index.
      destruct (ql_param l); [reflexivity|]. destruct (ql_qubits l) as [|q [|q' r]]; try reflexivity.
      destruct (String.eqb_spec (ql_name l) "Allocate") as [E|E]; [|reflexivity].
      exfalso. unfold Formats.pq_is_ignored in Hl. rewrite E in Hl.
      change (negb pq_alloc_ignored = true) in Hl. rewrite Hal in Hl. discriminate.
    Qed.

    Theorem projectq_roundtrip_partial_gen (c : fcirc Ang) :
      pq_alloc_ignored = true ->
      circ_ok c -> (pq_restores_width P = false -> fwidth c = gates_width (fgates c)) ->
      Forall (fun g : pgate => pq_survives T P (pname g) = true) (fgates c) -> Forall pq_expressible (fgates c) ->
      exists ls c', pq_write c = Ok ls /\ pq_read ls = Ok c' /\ circ_eq (clear_var_c c) c' = true.
    Proof.
      intros Hal [Hv Hge] Hw Hs Hx. destruct c as [gs w]; simpl in *.
      destruct (pq_list_roundtrip gs Hs Hv Hx) as (ls & Hws & His & gs' & Hrs & Hb).
      destruct (came_back_list _ _ Hb) as [He Hgw].
      unfold Formats.pq_write; simpl. rewrite Hws; simpl.
      eexists. eexists. split; [reflexivity|].
      unfold Formats.pq_read. rewrite filter_app.
      rewrite (filter_all_false _ (map (pq_alloc Ang) (zrange w))).
      2:{ intros x Hx'. apply in_map_iff in Hx'. destruct Hx' as (q & <- & _).
          change (negb pq_alloc_ignored = false). rewrite Hal. reflexivity. }
      rewrite (filter_all_true _ ls His). simpl. rewrite Hrs. simpl. split; [reflexivity|].
      unfold Formats.circ_eq, Formats.clear_var_c; simpl. rewrite He, Hgw. simpl. apply Z.eqb_eq.
      destruct (pq_restores_width P) eqn:Er; [|apply Hw; reflexivity].
      rewrite pq_n_allocated_app. unfold zrange. rewrite pq_n_allocated_allocs.
      rewrite (pq_n_allocated_none ls).
      2:{ intros l Hl. apply not_ignored_not_alloc; [assumption | apply His; assumption]. }
      pose proof (zmax_ge_m1 (flat_map gate_qubits gs)) as Hm. unfold Formats.gates_width in *. lia.
    Qed.

    Theorem projectq_roundtrip_partial (c : fcirc Ang) :
      pq_alloc_ignored = true ->
      circ_ok c -> (pq_restores_width P = false -> fwidth c = gates_width (fgates c)) ->
      Forall (fun g : pgate => pq_survives T P (pname g) = true) (fgates c) -> Forall pq_expressible (fgates c) ->
      Forall (fun g : pgate => pvar g = false) (fgates c) ->
      exists ls c', pq_write c = Ok ls /\ pq_read ls = Ok c' /\ circ_eq c c' = true.
    Proof.
      intros Hal Hok Hw Hs Hx Hnv.
      destruct (projectq_roundtrip_partial_gen c Hal Hok Hw Hs Hx) as (j & c' & H1 & H2 & H3).
      exists j, c'. split; [assumption|]. split; [assumption|].
      unfold Formats.clear_var_c in H3. rewrite (clear_var_id _ Hnv) in H3. destruct c; assumption.
    Qed.

    (* when every kind the writer accepts survives, the restriction to surviving kinds is the writer's
       accepted set itself *)
    Lemma pq_tables_ok_survives n :
      pq_tables_ok T P = true -> pq_accepts P n = true -> pq_survives T P n = true.
    Proof.
      unfold pq_tables_ok, pq_accepts. rewrite forallb_forall. intros H Ha.
      destruct (find_shape n (pq_wbranches P)) as [sh|] eqn:E; [|discriminate].
      apply H. unfold pq_all_names. eapply find_shape_in. eassumption.
    Qed.

    (* the full statement (every kind the writer accepts): holds as soon as the table condition does *)
    Theorem projectq_roundtrip (c : fcirc Ang) :
      pq_tables_ok T P = true -> pq_alloc_ignored = true ->
      circ_ok c -> (pq_restores_width P = false -> fwidth c = gates_width (fgates c)) -> Forall pq_expressible (fgates c) ->
      Forall (fun g : pgate => pvar g = false) (fgates c) ->
      exists ls c', pq_write c = Ok ls /\ pq_read ls = Ok c' /\ circ_eq c c' = true.
    Proof.
      intros Hok Hal Hc Hw Hx Hnv. apply projectq_roundtrip_partial; try assumption.
      rewrite Forall_forall in *. intros g Hg. apply pq_tables_ok_survives; [assumption|].
      specialize (Hx g Hg). unfold Formats.pq_expressible in Hx. destruct Hx as [_ Hx]. unfold pq_accepts.
      destruct (find_shape (pname g) (pq_wbranches P)); [reflexivity | contradiction].
    Qed.

    (* what the writer does write is expressible: the guards (regenerated) and gate.py's arity table leave
       nothing else *)
    Lemma pq_written_expressible g l :
      pq_guards_ok T P = true -> gate_valid g -> pq_param_ok Ang P g -> pq_write_gate g = Ok l -> pq_expressible g.
    Proof.
      intros Hg Hv Hp Hw. destruct g as [n t c p v].
      unfold Formats.pq_write_gate, Formats.pq_param_ok, Formats.pq_expressible in *. simpl in *.
      destruct (find_shape n (pq_wbranches P)) as [sh|] eqn:Hsh; [|discriminate].
      unfold pq_guards_ok in Hg. rewrite forallb_forall in Hg.
      specialize (Hg n (find_shape_in _ _ _ Hsh)). rewrite Hsh in Hg.
      apply andb_prop in Hg. destruct Hg as [Ht Hc].
      destruct (pq_guard Ang P (PGate n t c p v)) as [[]|e] eqn:HG; simpl in Hw; [|discriminate].
      unfold Formats.pq_guard in HG. simpl in HG.
      assert (Hone : exists q, t = [q]).
      { apply orb_prop in Ht. destruct Ht as [Ha|Hs].
        - apply arity_eqb_eq in Ha. eapply valid_one_target; eassumption.
        - rewrite Hs in HG. simpl in HG.
          destruct (Nat.eqb_spec (length t) 1) as [E|E]; simpl in HG; [|discriminate].
          destruct t as [|q [|q' r]]; simpl in E; try discriminate. exists q. reflexivity. }
      split; [assumption|].
      destruct sh; try assumption.
      split; [assumption|].
      destruct (smem n (pq_w_single_target P) && negb (length t =? 1)%nat); simpl in HG; [discriminate|].
      rewrite Hc in HG. destruct c as [[|c0 [|c1 r]]|]; simpl in HG; try discriminate.
      exists c0. reflexivity.
    Qed.

    (* NO SILENT ALTERATION: whatever the writer accepts to write comes back as an equal circuit.  The only
       gate-level condition is on the parameter (a number on the rotation kinds, none elsewhere); arity and
       number of controls are taken care of by the refusal guards regenerated from the source. *)
    Theorem projectq_written_roundtrips (c : fcirc Ang) ls :
      pq_tables_ok T P = true -> pq_alloc_ignored = true -> pq_guards_ok T P = true ->
      circ_ok c -> (pq_restores_width P = false -> fwidth c = gates_width (fgates c)) ->
      Forall (pq_param_ok Ang P) (fgates c) -> Forall (fun g : pgate => pvar g = false) (fgates c) ->
      pq_write c = Ok ls -> exists c', pq_read ls = Ok c' /\ circ_eq c c' = true.
    Proof.
      intros Hok Hal Hg Hc Hw Hp Hnv Hwr.
      assert (Hx : Forall pq_expressible (fgates c)).
      { unfold Formats.pq_write in Hwr.
        destruct (mapM pq_write_gate (fgates c)) as [rs|e] eqn:E; simpl in Hwr; [|discriminate].
        destruct (mapM_ok_all _ _ _ E) as [_ Hall]. destruct Hc as [Hv _].
        rewrite Forall_forall in *. intros g Hin. destruct (Hall g Hin) as [l Hl].
        eapply pq_written_expressible; [assumption | apply Hv; assumption | apply Hp; assumption | eassumption]. }
      destruct (projectq_roundtrip c Hok Hal Hc Hw Hx Hnv) as (ls' & c' & H1 & H2 & H3).
      rewrite Hwr in H1. inversion H1; subst. exists c'. split; assumption.
    Qed.
  End ProjectQ.

  (* ================================================================ repr *)
  (* with the "is not None" condition every valid gate comes back; with the "truthy" condition the gates
     with an empty target or control list have to be excluded *)
  Theorem repr_fields_roundtrip (RP : repr_tables) (g : pgate) :
    gate_valid g -> (rp_when_not_none RP = false -> ptarget g <> [] /\ pcontrol g <> Some []) ->
    repr_eval Ang T (gate_repr Ang RP g) = Ok g /\ gate_eq g g = true.
  Proof.
    intros Hv Hne. split.
    - destruct g as [n t c p v]. unfold Formats.gate_valid, regate in Hv. simpl in *.
      unfold repr_eval, gate_repr; simpl.
      destruct (rp_when_not_none RP) eqn:E; simpl.
      + destruct c as [cl|]; destruct p; destruct v; simpl; exact Hv.
      + destruct (Hne eq_refl) as [Ht Hc].
        destruct t as [|q t']; [contradiction|].
        destruct c as [[|x r]|]; [exfalso; apply Hc; reflexivity| |]; destruct p; destruct v; simpl; exact Hv.
    - unfold GateModel.gate_eq. rewrite zlist_eqb_refl, ozlist_eqb_refl, param_eq_refl, eqb_reflx, String.eqb_refl.
      destruct (is_cnot (pname g) && is_cnot (pname g)); reflexivity.
  Qed.
End Proofs.
