(* History.v — operation histories over a store of circuits (the quantifier of C11):
   every circuit-building / transformation operation of the public API as one constructor of [op];
   [step] applies it to the store.  An operation that raises leaves the store unchanged.  Proofs are in CircuitProofs.v. *)
From Coq Require Import String ZArith List Bool.
From Tangelo Require Import Linq.GateModel Linq.CircuitModel.
Import ListNotations.

Section Hist.
  Variable Ang : Type.
  Variable ang_add : Ang -> Ang -> Ang.
  Variable ang_opp : Ang -> Ang.
  Variable ang_small : bool -> Ang -> bool.
  Variable ang_eqmod : bool -> Ang -> Ang -> bool.
  Variable ang_mpi2 : Ang.
  Variable ang_mpi4 : Ang.
  Variable T : tables.

  Notation pgate := (pgate Ang).
  Notation circ := (circ Ang).
  Notation build := (build Ang T).

  Inductive op : Type :=
  | ONew (gs : list pgate) (nq : option Z)            (* Circuit(gates, n_qubits) *)
  | OAddGate (i : nat) (g : pgate)                    (* store[i].add_gate(g) *)
  | OConcat (i j : nat)                               (* store[i] + store[j] *)
  | ORepeat (i : nat) (n : Z)                         (* store[i] * n *)
  | OCopy (i : nat)
  | OInverse (i : nat)
  | OTrim (i : nat)                                   (* in place *)
  | OReindex (i : nat) (new : list Z)                 (* in place *)
  | OSplit (i : nat) (trim : bool)
  | OStack (is : list nat)
  | OSmallFn (i : nat) (rq : bool) | OSmallM (i : nat) (rq : bool)
  | ORedundantFn (i : nat) (rq : bool) | ORedundantM (i : nat) (rq : bool)
  | OMergeFn (i : nat) | OMergeM (i : nat)
  | OSimplifyFn (i : nat) (cycles : nat) (rq : bool) | OSimplifyM (i : nat) (cycles : nat) (rq : bool)
  | ORead (i : nat).                                  (* depth / translate / simulate / iteration *)

  Definition store : Type := list circ.

  Fixpoint set_at (s : store) (i : nat) (c : circ) : store :=
    match s, i with
    | [], _ => []
    | _ :: r, O => c :: r
    | x :: r, S k => x :: set_at r k c
    end.

  Definition outcome : Type := res unit.

  Definition with_c (s : store) (i : nat) (f : circ -> store * outcome) : store * outcome :=
    match nth_error s i with
    | Some c => f c
    | None => (s, Err IndexError)
    end.

  Definition push (s : store) (r : res circ) : store * outcome :=
    match r with Ok c => (s ++ [c], Ok tt) | Err e => (s, Err e) end.
  Definition replace_ (s : store) (i : nat) (r : res circ) : store * outcome :=
    match r with Ok c => (set_at s i c, Ok tt) | Err e => (s, Err e) end.

  Definition step (s : store) (o : op) : store * outcome :=
    match o with
    | ONew gs nq => push s (build gs nq)
    | OAddGate i g => with_c s i (fun c => let '(c', r) := add_gate Ang T c g in (set_at s i c', r))
    | OConcat i j => with_c s i (fun a => with_c s j (fun b => push s (concat Ang T a b)))
    | ORepeat i n => with_c s i (fun a => push s (repeat_c Ang T a n))
    | OCopy i => with_c s i (fun a => push s (copy_c Ang T a))
    | OInverse i => with_c s i (fun a => push s (inverse_c Ang ang_opp ang_mpi2 ang_mpi4 T a))
    | OTrim i => with_c s i (fun a => replace_ s i (trim_qubits Ang a))
    | OReindex i new => with_c s i (fun a => let '(c', r) := reindex_qubits Ang a new in (set_at s i c', r))
    | OSplit i trim => with_c s i (fun a => match split_c Ang T a trim with
                                            | Ok cs => (s ++ cs, Ok tt) | Err e => (s, Err e) end)
    | OStack is => match mapM (fun i => match nth_error s i with Some c => Ok c | None => Err IndexError end) is with
                   | Ok cs => push s (stack_c Ang T cs)
                   | Err e => (s, Err e)
                   end
    | OSmallFn i rq => with_c s i (fun a => push s (remove_small_rotations Ang ang_small T a rq))
    | OSmallM i rq => with_c s i (fun a => replace_ s i (remove_small_rotations Ang ang_small T a rq))
    | ORedundantFn i rq =>
      with_c s i (fun a => push s (remove_redundant_gates Ang ang_opp ang_eqmod ang_mpi2 ang_mpi4 T a rq))
    | ORedundantM i rq =>
      with_c s i (fun a => replace_ s i (remove_redundant_gates Ang ang_opp ang_eqmod ang_mpi2 ang_mpi4 T a rq))
    | OMergeFn i =>
      with_c s i (fun a => push s (merge_rotations_fn Ang ang_add ang_eqmod T a))
    | OMergeM i =>
      with_c s i (fun a => replace_ s i (merge_rotations_fn Ang ang_add ang_eqmod T a))
    | OSimplifyFn i n rq =>
      with_c s i (fun a => push s (simplify Ang ang_add ang_opp ang_small ang_eqmod ang_mpi2 ang_mpi4 T a n rq))
    | OSimplifyM i n rq =>
      with_c s i (fun a => replace_ s i (simplify Ang ang_add ang_opp ang_small ang_eqmod ang_mpi2 ang_mpi4 T a n rq))
    | ORead i => with_c s i (fun _ => (s, Ok tt))
    end.

  (* run a history, collecting the store after every operation *)
  Fixpoint run_hist (s : store) (ops : list op) : list (store * outcome) :=
    match ops with
    | [] => []
    | o :: r => let '(s', out) := step s o in (s', out) :: run_hist s' r
    end.
  Definition final (s : store) (ops : list op) : store := fold_left (fun s o => fst (step s o)) ops s.
End Hist.

Arguments ONew {_}. Arguments OAddGate {_}. Arguments OConcat {_}. Arguments ORepeat {_}.
Arguments OCopy {_}. Arguments OInverse {_}. Arguments OTrim {_}. Arguments OReindex {_}.
Arguments OSplit {_}. Arguments OStack {_}. Arguments OSmallFn {_}. Arguments OSmallM {_}.
Arguments ORedundantFn {_}. Arguments ORedundantM {_}. Arguments OMergeFn {_}. Arguments OMergeM {_}.
Arguments OSimplifyFn {_}. Arguments OSimplifyM {_}. Arguments ORead {_}.
