(* Backend.v — models (definitions only; proofs in BackendProofs.v) of the Tangelo-authored logic
   between a backend's statevector and what Backend.simulate returns (property C01):

     * Backend._int_to_binstr (tangelo/linq/target/backend.py): amplitude index -> bitstring, for both
       advertised statevector orders (the order is kept as the STRING the backend advertises: the
       source compares it with "lsq_first" and reverses for anything else);
     * Backend._statevector_to_frequencies, exact part: enumerate the amplitudes, keep |a|^2 when it
       passes the threshold test (the test is a parameter `keep`: (f - freq_threshold) >= 0. is
       floating point), key = _int_to_binstr(i, n) with n = int(log2(len(statevector)));
       sampled part: the maps key -> integer (int(k[::-1], 2)) and integer -> key
       (_int_to_binstr(k, n, False)) around scipy's sampler;
     * SympySimulator.simulate_circuit: key = reversed(vec.qubit_values);
     * index conventions of the two installed backends: cirq's final_state_vector is big-endian in the
       qubit index (qubit 0 = most significant bit), sympy's qubit_to_matrix is little-endian; what a
       user reads when indexing the returned vector in the ADVERTISED order;
     * the gate dispatch of translate_c_to_cirq / translate_c_to_sympy as DATA (record `branch`;
       the tables themselves are regenerated from the source by translator/backend_tables.py):
       which names a branch accepts, which control indices it passes on, how many targets it reads,
       whether it reads the parameter; the CNOT -> CX renaming of the cirq translator;
     * cirq's documented matrices of ZPowGate / XXPowGate as functions of exponent and global shift
       (TRUSTED formula, see C01_cirq_pow_gate_match), with the exponent / shift EXPRESSIONS of the
       translator as data;
     * the operator product built by translate_c_to_sympy (iterate over reversed(gates), multiply on
       the right). *)
From Coq Require Import String NArith ZArith List Bool.
From Tangelo Require Import Num.KStruct.
From Tangelo Require Import QSem.State.
From Tangelo Require Import QSem.Measure.
From Tangelo Require Import Linq.GateModel.
Import ListNotations.

(* ------------------------------------------------------------------ bitstrings (no number structure) *)
(* binary digits of a positive, least significant first *)
Fixpoint pos_bits (p : positive) : list bool :=
  match p with
  | xH => [true]
  | xO p' => false :: pos_bits p'
  | xI p' => true :: pos_bits p'
  end.

(* bin(i).split('b')[-1] : most significant digit first, "0" for 0 *)
Definition bin (i : N) : list bool :=
  match i with N0 => [false] | Npos p => rev (pos_bits p) end.

(* "0" * (n - len(bs)) + bs   (a negative count gives the empty string) *)
Definition zfill (n : nat) (l : list bool) : list bool := repeat false (n - length l) ++ l.

(* Backend._int_to_binstr(i, n_qubits, use_ordering) for a backend advertising `ord` *)
Definition int_to_binstr (ord : string) (n : nat) (i : N) (use_ordering : bool) : list bool :=
  let s := zfill n (bin i) in
  if use_ordering && String.eqb ord "lsq_first" then s else rev s.

(* the specification side: the string that lists qubit 0 first for the basis state whose QSem index
   (qubit q = bit q) is x *)
Definition qubit0_first (n : nat) (x : N) : list bool :=
  map (fun q => N.testbit x (N.of_nat q)) (seq 0 n).
(* the n low bits, most significant first *)
Definition msb_first (n : nat) (i : N) : list bool :=
  map (fun q => N.testbit i (N.of_nat (n - 1 - q))) (seq 0 n).

(* int(s, 2) of a digit string (most significant digit first) *)
Definition int_of_bits (l : list bool) : N := fold_left (fun acc b => (2 * acc + N.b2n b)%N) l 0%N.
(* sampled part of _statevector_to_frequencies: key -> sample value -> key *)
Definition sample_value (key : list bool) : N := int_of_bits (rev key).
Definition sample_key (ord : string) (n : nat) (k : N) : list bool := int_to_binstr ord n k false.

(* sampled part of _statevector_to_frequencies: the shots are drawn in chunks,
     n_chunks = n_shots // chunk_size
     for i in range(n_chunks + 1): this_chunk = n_shots % chunk_size if i == n_chunks else chunk_size
   (whether the source still has this shape is a regenerated fact: BackendTables.sampling_loop_as_modelled) *)
Definition chunk_sizes (n_shots chunk_size : nat) : list nat :=
  map (fun i => if Nat.eqb i (n_shots / chunk_size) then n_shots mod chunk_size else chunk_size)
      (seq 0 (n_shots / chunk_size + 1)).

(* SympySimulator: "".join(str(bit) for bit in reversed(vec.qubit_values)); sympy's Qubit lists the
   most significant qubit first: qubit_values = msb_first *)
Definition sympy_key (n : nat) (x : N) : list bool := rev (msb_first n x).

(* ------------------------------------------------------------------ dispatch tables (data) *)
Inductive ctrl_use : Type :=
| CNone        (* the branch does not read gate.control *)
| CFirst       (* the branch reads gate.control[0] only *)
| CAll         (* the branch passes on every control (control_list / num_controls, tuple(gate.control)) *)
| CSplit.      (* `gate.control[0] if len(gate.control) == 1 else tuple(gate.control)`: the single control as an
                  integer, several controls as a tuple — every control either way *)

Record branch : Type := Branch {
  br_names : list string;      (* the name set of the `if gate.name in {...}` test *)
  br_ctrl : ctrl_use;
  br_targets : nat;            (* how many entries of gate.target are read: target[0] (, target[1]) *)
  br_param : bool;             (* gate.parameter is read *)
  br_needs_noparam : bool      (* the test also demands gate.parameter == "" *)
}.

(* `if gate.name == from and num_controls > 1: gate.name = to` (on a copy) *)
Record rename_rule : Type := Rename { rn_from : string; rn_to : string }.

Record dispatch : Type := Dispatch {
  dp_branches : list branch;           (* in source order: the first matching test wins *)
  dp_rename : list rename_rule         (* applied before the tests when the gate has > 1 controls *)
}.

Definition apply_rename (rs : list rename_rule) (name : string) (ncontrols : nat) : string :=
  if Nat.ltb 1 ncontrols then
    match find (fun r => String.eqb (rn_from r) name) rs with
    | Some r => rn_to r
    | None => name
    end
  else name.

Definition find_branch (d : dispatch) (name : string) : option branch :=
  find (fun b => smem name (br_names b)) (dp_branches d).

(* the controls that reach the target-format gate; None = the translator raises (unsupported name) *)
Definition controls_used (d : dispatch) (name : string) (cs : list Z) : option (list Z) :=
  match find_branch d (apply_rename (dp_rename d) name (length cs)) with
  | None => None
  | Some b => Some (match br_ctrl b with
                    | CNone => []
                    | CFirst => match cs with [] => [] | c :: _ => [c] end
                    | CAll => cs
                    | CSplit => match cs with [c] => [c] | _ => cs end
                    end)
  end.

Definition supported (d : dispatch) (name : string) : bool :=
  match find_branch d name with Some _ => true | None => false end.

(* decidable conditions on a table *)
(* branches that ignore gate.control accept no "C..." name, and renaming keeps the "C" *)
Definition cnone_ok (d : dispatch) : bool :=
  forallb (fun b => match br_ctrl b with
                    | CNone => forallb (fun nm => negb (starts_with_C nm)) (br_names b)
                    | _ => true
                    end) (dp_branches d)
  && forallb (fun r => starts_with_C (rn_to r)) (dp_rename d).
(* a branch that reads control[0] only is reachable only with ONE control: each of its names is
   renamed away when there are more *)
Definition cfirst_ok (d : dispatch) : bool :=
  forallb (fun b => match br_ctrl b with
                    | CFirst => forallb (fun nm => smem nm (map rn_from (dp_rename d))
                                                   && negb (smem nm (map rn_to (dp_rename d)))) (br_names b)
                    | _ => true
                    end) (dp_branches d).
Definition all_controls_ok (d : dispatch) : bool := cnone_ok d && cfirst_ok d.

(* every name of a branch that reads controls is refused when the gate has none
   (`elif gate.name in {...}: raise ValueError` after `if gate.control is not None:`); names that are renamed
   only with several controls keep their own branch, so they are listed themselves *)
Definition no_control_rejected_ok (d : dispatch) (rejected : list string) : bool :=
  forallb (fun b => match br_ctrl b with
                    | CNone => true
                    | _ => forallb (fun nm => smem nm rejected) (br_names b)
                    end) (dp_branches d).

(* targets: every name of a branch has as many targets (gate.py tables) as the branch reads *)
Definition targets_ok (T : tables) (d : dispatch) : bool :=
  forallb (fun b => forallb (fun nm =>
      (if smem nm (two_target T) then Nat.eqb (br_targets b) 2 else true)
      && (if smem nm (one_target T) then Nat.eqb (br_targets b) 1 else true)) (br_names b)) (dp_branches d).
(* parameters: a branch reads gate.parameter iff its names are parameterised gates *)
Definition params_ok (T : tables) (d : dispatch) : bool :=
  forallb (fun b => forallb (fun nm => Bool.eqb (br_param b) (smem nm (parameterized T))) (br_names b))
          (dp_branches d).

(* which constructor of the target library a name is mapped to (GATE_CIRQ / GATE_SYMPY), and what
   Tangelo's documentation expects: the base operation of the name *)
Definition lookup (k : string) (l : list (string * string)) : option string :=
  match find (fun p => String.eqb (fst p) k) l with Some p => Some (snd p) | None => None end.

Open Scope string_scope.
(* the documented meaning of the external constructors (TRUSTED reading of cirq's / sympy's docs) *)
Definition ext_doc : list (string * string) :=
  [("cirq.H", "H"); ("cirq.X", "X"); ("cirq.Y", "Y"); ("cirq.Z", "Z"); ("cirq.S", "S"); ("cirq.T", "T");
   ("cirq.rx", "RX"); ("cirq.ry", "RY"); ("cirq.rz", "RZ"); ("cirq.CNOT", "CX"); ("cirq.ZPowGate", "ZPow");
   ("cirq.XXPowGate", "XXPow"); ("cirq.SWAP", "SWAP");
   ("SYMPYGate.HadamardGate", "H"); ("SYMPYGate.XGate", "X"); ("SYMPYGate.YGate", "Y"); ("SYMPYGate.ZGate", "Z");
   ("SYMPYGate.PhaseGate", "S"); ("SYMPYGate.TGate", "T"); ("SYMPYGate.SwapGate", "SWAP");
   ("SYMPYGate.CNotGate", "CX"); ("rx_gate", "RX"); ("ry_gate", "RY"); ("rz_gate", "RZ"); ("p_gate", "PHASE");
   ("controlled_gate(SYMPYGate.HadamardGate)", "CH"); ("controlled_gate(SYMPYGate.XGate)", "CX"); ("controlled_gate(XGate)", "CX"); ("controlled_gate(SYMPYGate.YGate)", "CY");
   ("controlled_gate(SYMPYGate.ZGate)", "CZ"); ("controlled_gate(rx_gate)", "CRX");
   ("controlled_gate(ry_gate)", "CRY"); ("controlled_gate(rz_gate)", "CRZ"); ("controlled_gate(p_gate)", "CPHASE");
   ("controlled_gate(SYMPYGate.PhaseGate)", "CS"); ("controlled_gate(SYMPYGate.TGate)", "CT")].
(* what a Tangelo name must be built from in a library whose controlled gates are made by
   `.controlled(k)` (cirq: the base gate) resp. offered ready-made (sympy: the controlled gate) *)
Definition base_of_name : list (string * string) :=
  [("H", "H"); ("X", "X"); ("Y", "Y"); ("Z", "Z"); ("S", "S"); ("T", "T"); ("RX", "RX"); ("RY", "RY"); ("RZ", "RZ");
   ("PHASE", "ZPow"); ("CH", "H"); ("CX", "X"); ("CY", "Y"); ("CZ", "Z"); ("CNOT", "CX"); ("CRX", "RX"); ("CRY", "RY");
   ("CRZ", "RZ"); ("CPHASE", "ZPow"); ("XX", "XXPow"); ("SWAP", "SWAP"); ("CSWAP", "SWAP")].
Definition whole_of_name : list (string * string) :=
  [("H", "H"); ("X", "X"); ("Y", "Y"); ("Z", "Z"); ("S", "S"); ("T", "T"); ("RX", "RX"); ("RY", "RY"); ("RZ", "RZ");
   ("PHASE", "PHASE"); ("CH", "CH"); ("CX", "CX"); ("CY", "CY"); ("CZ", "CZ"); ("CNOT", "CX"); ("CRX", "CRX");
   ("CRY", "CRY"); ("CRZ", "CRZ"); ("CPHASE", "CPHASE"); ("SWAP", "SWAP"); ("CS", "CS"); ("CT", "CT")].
(* every name a dispatch table supports and the quantifier of C01 mentions is mapped to the
   constructor with the expected documented meaning *)
Definition gate_map_ok (expect : list (string * string)) (d : dispatch) (gmap : list (string * string)) : bool :=
  forallb (fun b => forallb (fun nm =>
      match lookup nm expect with
      | None => true                                  (* SDAG, MEASURE, ...: outside C01's gate set *)
      | Some want => match lookup nm gmap with
                     | Some ctor => match lookup ctor ext_doc with
                                    | Some have => String.eqb have want
                                    | None => false
                                    end
                     | None => false
                     end
      end) (br_names b)) (dp_branches d).
Close Scope string_scope.

(* exponent / global-shift expressions of the cirq translator (data) *)
Inductive pexp : Type := PEParamOverPi | PEOther.
Record pow_use : Type := PowUse { pw_ctor : string; pw_exponent : pexp; pw_shift_halves : Z }.

(* ------------------------------------------------------------------ number-structure dependent part *)
Section Backend.
  Variable S : KS.
  Open Scope K_scope.
  Notation K := (K S).
  Notation A := (A S).
  Notation state := (state S).

  (* ---- _statevector_to_frequencies, exact part ---- *)
  Definition abs2 (a : K) : K := kconj a * a.
  Definition enumerate {X} (l : list X) : list (N * X) := combine (map N.of_nat (seq 0 (length l))) l.
  Definition sv_to_freqs (ord : string) (keep : K -> bool) (sv : list K) : list (list bool * K) :=
    let n := Nat.log2 (length sv) in
    filter (fun p => keep (snd p))
           (map (fun p => (int_to_binstr ord n (fst p) true, abs2 (snd p))) (enumerate sv)).
  Definition freq_total (f : list (list bool * K)) : K := fold_right (fun p acc => snd p + acc) 0 f.

  (* ---- what the installed backends return for the state psi of an n-qubit register ---- *)
  (* cirq: final_state_vector[i] is the amplitude of the basis state whose qubit q is bit n-1-q of i *)
  Definition cirq_sv (n : nat) (psi : state) : list K :=
    map (fun i => psi (brev n (N.of_nat i))) (seq 0 (Nat.pow 2 n)).
  (* sympy: qubit_to_matrix(state)[i] is the amplitude of Qubit(bin(i)): qubit q is bit q of i *)
  Definition sympy_sv (n : nat) (psi : state) : list K := tab S n psi.
  (* indexing a returned vector in the advertised order: amplitude of the basis state with QSem
     index x.  "lsq_first": qubit 0 is the most significant bit of the index; otherwise
     ("msq_first") qubit 0 is the least significant bit. *)
  Definition read_sv (ord : string) (n : nat) (l : list K) : state := fun x =>
    nth (N.to_nat (if String.eqb ord "lsq_first" then brev n x else x)) l 0.
  (* an initial_statevector handed to a backend is read by the backend in ITS index convention *)
  Definition cirq_initial (n : nat) (l : list K) : state := fun x => nth (N.to_nat (brev n x)) l 0.
  Definition sympy_initial (n : nat) (l : list K) : state := untab S l.

  (* ---- cirq's ZPowGate / XXPowGate (EigenGate): sum_k e^{i pi t (s + lambda_k)} P_k, with
          lambda = 0, 1 on |0><0|, |1><1| resp. on (1 + XX)/2, (1 - XX)/2.
          For the exponent expression `gate.parameter / pi` the angle pi * t is the gate parameter a;
          a global shift s = k/2 gives e^{i a s} = (e^{i a/2})^k = (cis a)^k. ---- *)
  Definition cis_z (a : A) (k : Z) : K :=
    match k with
    | Z0 => 1
    | Zpos p => Pos.iter (kmul (cis a)) 1 p
    | Zneg p => Pos.iter (kmul (cis (aopp a))) 1 p
    end.
  Definition zpow_matrix (a : A) (shift_halves : Z) : mat2 S :=
    Mat2 (cis_z a shift_halves) 0 0 (cis_z a (shift_halves + 2)).
  Definition xxpow_cI (a : A) (shift_halves : Z) : K := khalf * (cis_z a shift_halves + cis_z a (shift_halves + 2)).
  Definition xxpow_cXX (a : A) (shift_halves : Z) : K := khalf * (cis_z a shift_halves - cis_z a (shift_halves + 2)).
  Definition app_xxpow (a : A) (shift_halves : Z) (q1 q2 : N) (psi : state) : state := fun x =>
    xxpow_cI a shift_halves * psi x + xxpow_cXX a shift_halves * psi (flip2 x q1 q2).

  (* ---- translate_c_to_sympy: target_circuit = 1; for gate in reversed(gates): target_circuit *= G ----
     operators are modelled by their action on kets; A * B acts as "B first, then A" *)
  Definition op_mul (f g : state -> state) : state -> state := fun psi => f (g psi).
  Definition sympy_product (iter_reversed mul_right : bool) (c : circuit S) : state -> state :=
    fold_left (fun acc g => if mul_right then op_mul acc (den_gate S g) else op_mul (den_gate S g) acc)
              (if iter_reversed then rev c else c) (fun psi => psi).
End Backend.
