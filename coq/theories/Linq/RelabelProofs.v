(* RelabelProofs.v (Linq) — denotation theorems for the index operations of tangelo/linq/circuit.py
   (model: Linq/CircuitModel.v), interpreted by Linq/Interp.v into the reference semantics:

     trim_qubits, reindex_qubits   the interpreted result is the interpreted original with every qubit
                                   index renamed by relabel_f of (old index |-> new index); by
                                   QSem/RelabelProofs.v the renamed circuit acts on the new qubits as the
                                   original does on the old ones (relabel_pullback, relabel_frame)
     stack                         the result is the concatenation of the parts, part i renamed by
                                   (sorted used qubits of part i |-> off_i, off_i+1, ...); the renamed
                                   parts act on pairwise disjoint qubits
     split                         the gate list is an order-preserving interleaving of the parts, gates of
                                   different parts act on disjoint qubits, hence the original denotes the
                                   composition of the parts (kinterleave_den); with trim_qubits=True every
                                   part is moreover renamed by its own trim map.

   Generic number structure S, any angle type, any number of controls, every circuit of the model. *)
From Coq Require Import String ZArith NArith List Bool Lia Sorted.
From Tangelo Require Import Num.KStruct QSem.State QSem.StateLemmas QSem.CircuitLemmas QSem.Commute
     QSem.Relabel QSem.RelabelProofs.
From Tangelo Require Import Linq.GateModel Linq.CircuitModel Linq.CircuitProofs Linq.Interp Linq.InterpProofs
     Linq.ScanLemmas Linq.InterpFacts.
Import ListNotations.
Local Open Scope Z_scope.
Local Open Scope list_scope.

(* ---- specification-level definitions ---- *)
(* a Z-level index map read on N (indices of valid gates are non-negative) *)
Definition nmap (m : list (Z * Z)) : list (N * N) := map (fun kv => (zn (fst kv), zn (snd kv))) m.

(* the map built by Circuit.trim_qubits: sorted used qubits |-> 0, 1, 2, ... *)
Definition trim_map {Ang} (gs : list (pgate Ang)) : list (Z * Z) :=
  let used := qubits_of Ang gs in combine used (zrange (Z.of_nat (length used))).

(* the map applied to a part by stack: sorted used qubits |-> off, off+1, ... *)
Definition stack_map {Ang} (off : Z) (gs : list (pgate Ang)) : list (Z * Z) :=
  let used := qubits_of Ang gs in
  combine used (map (fun k => off + k) (zrange (Z.of_nat (length used)))).

(* the gate lists of the parts made by split *)
Definition split_parts {Ang} (gs : list (pgate Ang)) : list (list (pgate Ang)) :=
  map (fun s => filter (fun g => zinter (gate_qubits g) s) gs) (entangled_indices Ang gs).

(* ------------------------------------------------------------------------------------------------ *)
(* facts on the Z-list helpers of the model (no dependence on the model parameters)                  *)
(* ------------------------------------------------------------------------------------------------ *)
Lemma fold_zinsert_in l : forall acc x,
  In x (fold_left (fun s z => zinsert z s) l acc) <-> In x l \/ In x acc.
Proof.
  induction l as [|a r IH]; simpl; intros acc x.
  - split; [intro H; right; exact H | intros [H|H]; [contradiction | exact H]].
  - rewrite IH, zinsert_in. split.
    + intros [H|[H|H]]; [left; right; exact H | left; left; symmetry; exact H | right; exact H].
    + intros [[H|H]|H]; [right; left; symmetry; exact H | left; exact H | right; right; exact H].
Qed.

Lemma zset_of_iff l x : In x (zset_of l) <-> In x l.
Proof.
  unfold zset_of. rewrite fold_zinsert_in. split; [intros [H|H]; [exact H | contradiction] | intro H; left; exact H].
Qed.

Lemma zunion_in a b x : In x (zunion a b) <-> In x a \/ In x b.
Proof. unfold zunion. apply fold_zinsert_in. Qed.

Lemma zinter_true a b : zinter a b = true <-> exists x, In x a /\ In x b.
Proof.
  unfold zinter. rewrite existsb_exists. split; intros (x & H1 & H2); exists x; split; try exact H1;
    apply zmem_In; exact H2.
Qed.

Lemma zinsert_sorted z l : StronglySorted Z.lt l -> StronglySorted Z.lt (zinsert z l).
Proof.
  induction l as [|y r IH]; simpl; intro Hs.
  - constructor; constructor.
  - inversion Hs as [|y' r' Hr Hy]; subst.
    destruct (Z.ltb_spec z y) as [Hlt|Hge].
    + constructor; [exact Hs|]. constructor; [exact Hlt|].
      eapply Forall_impl; [|exact Hy]. intros a Ha. lia.
    + destruct (Z.eqb_spec z y) as [->|Hne]; [exact Hs|].
      constructor; [apply IH; exact Hr|]. apply Forall_forall. intros a Ha.
      apply zinsert_in in Ha. destruct Ha as [->|Ha]; [lia|].
      rewrite Forall_forall in Hy. apply Hy. exact Ha.
Qed.

Lemma fold_zinsert_sorted l : forall acc,
  StronglySorted Z.lt acc -> StronglySorted Z.lt (fold_left (fun s z => zinsert z s) l acc).
Proof.
  induction l as [|a r IH]; simpl; intros acc H; [exact H|]. apply IH. apply zinsert_sorted. exact H.
Qed.

Lemma sorted_NoDup l : StronglySorted Z.lt l -> NoDup l.
Proof.
  induction 1 as [|a l Hs IH Ha]; constructor; [|exact IH].
  intro Hin. rewrite Forall_forall in Ha. specialize (Ha a Hin). lia.
Qed.

Lemma zset_of_NoDup l : NoDup (zset_of l).
Proof. apply sorted_NoDup. unfold zset_of. apply fold_zinsert_sorted. constructor. Qed.

Lemma zrange_in n x : In x (zrange n) -> 0 <= x < n.
Proof.
  unfold zrange. intro H. apply in_map_iff in H. destruct H as (k & <- & Hk).
  apply in_seq in Hk. lia.
Qed.

Lemma zrange_NoDup n : NoDup (zrange n).
Proof.
  unfold zrange. apply NoDup_map_inj_on; [apply seq_NoDup|].
  intros x y _ _ H. apply Nat2Z.inj. exact H.
Qed.

Lemma zrange_length n : length (zrange n) = Z.to_nat n.
Proof. unfold zrange. rewrite map_length, seq_length. reflexivity. Qed.

Lemma zrange_sorted n : StronglySorted Z.lt (zrange n).
Proof.
  unfold zrange. generalize 0%nat. induction (Z.to_nat n) as [|k IH]; intro s; simpl; constructor.
  - apply IH.
  - apply Forall_forall. intros x Hx. apply in_map_iff in Hx. destruct Hx as (j & <- & Hj).
    apply in_seq in Hj. lia.
Qed.

Lemma in_combine_fst {X Y} (a : list X) (b : list Y) x : In x (map fst (combine a b)) -> In x a.
Proof.
  revert b. induction a as [|x0 r IH]; simpl; intros b H; [contradiction|].
  destruct b as [|y0 b']; simpl in *; [contradiction|].
  destruct H; [left; assumption | right; eapply IH; eassumption].
Qed.

Lemma NoDup_combine_fst {X Y} (a : list X) (b : list Y) : NoDup a -> NoDup (map fst (combine a b)).
Proof.
  revert b. induction a as [|x0 r IH]; simpl; intros b H; [constructor|].
  destruct b as [|y0 b']; simpl; [constructor|]. inversion H; subst.
  constructor; [|apply IH; assumption]. intro Hin. apply in_combine_fst in Hin. contradiction.
Qed.

Lemma NoDup_combine_snd {X Y} (a : list X) (b : list Y) : NoDup b -> NoDup (map snd (combine a b)).
Proof.
  revert b. induction a as [|x0 r IH]; simpl; intros b H; [constructor|].
  destruct b as [|y0 b']; simpl; [constructor|]. inversion H; subst.
  constructor; [|apply IH; assumption]. intro Hin. apply combine_snd_in in Hin. contradiction.
Qed.

Lemma zlookup_key k m v : zlookup k m = Some v -> In k (map fst m).
Proof.
  induction m as [|[a b] r IH]; simpl; [discriminate|].
  destruct (Z.eqb_spec k a) as [->|Hne]; [intros _; left; reflexivity | intro H; right; apply IH; exact H].
Qed.

(* lookups through a chain of two zipped lists compose *)
Lemma zlookup_combine_compose (ks vs ws : list Z) : NoDup vs -> forall q v w,
  zlookup q (combine ks vs) = Some v -> zlookup v (combine vs ws) = Some w ->
  zlookup q (combine ks ws) = Some w.
Proof.
  revert vs ws. induction ks as [|k ks IH]; intros vs ws Hn q v w; simpl; [discriminate|].
  destruct vs as [|v0 vs]; simpl; [discriminate|].
  destruct ws as [|w0 ws]; simpl.
  { intros _ H. destruct (Z.eqb v v0); discriminate. }
  inversion Hn as [|v0' vs' Hv0 Hvs]; subst.
  destruct (Z.eqb_spec q k) as [->|Hne].
  - intro H. inversion H; subst. rewrite Z.eqb_refl. auto.
  - intro H. destruct (Z.eqb_spec v v0) as [->|Hne'].
    + exfalso. apply Hv0. apply zlookup_in in H. apply combine_snd_in in H. exact H.
    + intro H2. eapply IH; eassumption.
Qed.

(* ---- Z-level maps read on N ---- *)
Lemma nlookup_nmap m q :
  Forall (fun kv => 0 <= fst kv) m -> 0 <= q -> nlookup (zn q) (nmap m) = option_map zn (zlookup q m).
Proof.
  induction m as [|[k v] r IH]; simpl; intros Hk Hq; [reflexivity|].
  inversion Hk as [|kv l Hk0 Hkr]; subst; simpl in Hk0.
  destruct (Z.eqb_spec q k) as [->|Hne].
  - rewrite N.eqb_refl. reflexivity.
  - assert (E : N.eqb (zn q) (zn k) = false) by (apply N.eqb_neq; unfold zn; lia).
    rewrite E. apply IH; assumption.
Qed.

Lemma relabel_nmap_agree m :
  Forall (fun kv => 0 <= fst kv) m ->
  forall q v, 0 <= q -> zlookup q m = Some v -> relabel_f (nmap m) (zn q) = zn v.
Proof.
  intros Hk q v Hq Hl. apply relabel_f_key. rewrite nlookup_nmap by assumption. rewrite Hl. reflexivity.
Qed.

Lemma nmap_ok m :
  NoDup (map fst m) -> NoDup (map snd m) -> Forall (fun kv => 0 <= fst kv /\ 0 <= snd kv) m ->
  relabel_ok (nmap m).
Proof.
  intros Hk Hv Hp. rewrite Forall_forall in Hp. unfold relabel_ok, nmap. rewrite !map_map. simpl. split.
  - rewrite <- (map_map fst zn). apply NoDup_map_inj_on; [exact Hk|].
    intros x y Hx Hy E. apply in_map_iff in Hx. destruct Hx as (kx & <- & Hx).
    apply in_map_iff in Hy. destruct Hy as (ky & <- & Hy).
    pose proof (proj1 (Hp kx Hx)). pose proof (proj1 (Hp ky Hy)). unfold zn in E. lia.
  - rewrite <- (map_map snd zn). apply NoDup_map_inj_on; [exact Hv|].
    intros x y Hx Hy E. apply in_map_iff in Hx. destruct Hx as (kx & <- & Hx).
    apply in_map_iff in Hy. destruct Hy as (ky & <- & Hy).
    pose proof (proj2 (Hp kx Hx)). pose proof (proj2 (Hp ky Hy)). unfold zn in E. lia.
Qed.

Lemma Forall_combine {X Y} (P : X -> Prop) (Q : Y -> Prop) (a : list X) (b : list Y) :
  Forall P a -> Forall Q b -> Forall (fun kv => P (fst kv) /\ Q (snd kv)) (combine a b).
Proof.
  revert b. induction a as [|x r IH]; simpl; intros b Ha Hb; [constructor|].
  destruct b as [|y b']; [constructor|]. inversion Ha; inversion Hb; subst.
  constructor; [simpl; auto | apply IH; assumption].
Qed.

Lemma Forall_combine_fst {X Y} (P : X -> Prop) (a : list X) (b : list Y) :
  Forall P a -> Forall (fun kv => P (fst kv)) (combine a b).
Proof.
  revert b. induction a as [|x r IH]; simpl; intros b Ha; [constructor|].
  destruct b as [|y b']; [constructor|]. inversion Ha; subst.
  constructor; [simpl; auto | apply IH; assumption].
Qed.

Lemma remap_list_spec m l l' : remap_list m l = Ok l' -> Forall2 (fun q v => zlookup q m = Some v) l l'.
Proof.
  unfold remap_list. revert l'. induction l as [|a r IH]; simpl; intros l' H.
  - inversion H. constructor.
  - destruct (zlookup a m) as [v|] eqn:E; simpl in H; [|discriminate].
    destruct (mapM _ r) as [r'|] eqn:E2; simpl in H; [|discriminate].
    inversion H; subst. constructor; [exact E | apply IH; reflexivity].
Qed.

Lemma remap_list_of_spec m l l' : Forall2 (fun q v => zlookup q m = Some v) l l' -> remap_list m l = Ok l'.
Proof.
  unfold remap_list. induction 1 as [|q v l l' Hq Hr IH]; simpl; [reflexivity|].
  rewrite Hq. simpl. rewrite IH. reflexivity.
Qed.

Lemma remap_list_zn m (fN : N -> N) l l' :
  (forall q v, In q l -> zlookup q m = Some v -> fN (zn q) = zn v) ->
  remap_list m l = Ok l' -> map zn l' = map fN (map zn l).
Proof.
  intros Hag H. apply remap_list_spec in H. induction H as [|q v l l' Hq Hr IH]; simpl; [reflexivity|].
  rewrite (Hag q v (or_introl eq_refl) Hq). f_equal. apply IH. intros q' v' Hin. apply Hag. right. exact Hin.
Qed.

Lemma remap_list_compose m1 m2 m12 l l1 l2 :
  (forall q v w, In q l -> zlookup q m1 = Some v -> zlookup v m2 = Some w -> zlookup q m12 = Some w) ->
  remap_list m1 l = Ok l1 -> remap_list m2 l1 = Ok l2 -> remap_list m12 l = Ok l2.
Proof.
  intros Hc H1 H2. apply remap_list_spec in H1. apply remap_list_spec in H2. apply remap_list_of_spec.
  revert l2 H2. induction H1 as [|q v l l1 Hq Hr IH]; intros l2 H2; inversion H2; subst; constructor.
  - eapply Hc; [left; reflexivity | eassumption | eassumption].
  - apply IH; [|assumption]. intros q' v' w' Hin. apply Hc. right. exact Hin.
Qed.

(* ------------------------------------------------------------------------------------------------ *)
(* trim_qubits / reindex_qubits                                                                      *)
(* ------------------------------------------------------------------------------------------------ *)
Section RelabelLinq.
  Variable S : KS.
  Variable Ang : Type.
  Variable ang : Ang -> A S.
  Variable T : tables.

  Notation pgate := (pgate Ang).
  Notation circ := (circ Ang).
  Notation cgates := (cgates Ang).
  Notation cidx := (cidx Ang).
  Notation interp := (interp S Ang ang).
  Notation interp_all := (interp_all S Ang ang).
  Notation gate_okb := (gate_okb Ang).
  Notation remap_gate := (remap_gate Ang).
  Notation qubits_of := (qubits_of Ang).

  Definition nonneg_gates (gs : list pgate) : Prop := forall g q, In g gs -> In q (gate_qubits g) -> 0 <= q.

  Lemma okb_nonneg_gates gs : Forall (fun g => gate_okb g = true) gs -> nonneg_gates gs.
  Proof.
    intros H g q Hg Hq. rewrite Forall_forall in H. exact (okb_nonneg Ang g q (H g Hg) Hq).
  Qed.

  (* ---- used qubits ---- *)
  Lemma qubits_of_from gs : forall acc x,
    In x (fold_left (fun s (g : pgate) => fold_left (fun s q => zinsert q s) (gate_qubits g) s) gs acc)
    <-> (exists g, In g gs /\ In x (gate_qubits g)) \/ In x acc.
  Proof.
    induction gs as [|g r IH]; simpl; intros acc x.
    - split; [intro H; right; exact H | intros [(g & [] & _)|H]; exact H].
    - rewrite IH, fold_zinsert_in. split.
      + intros [(g' & Hg' & Hx)|[Hx|Hx]].
        * left. exists g'. split; [right; exact Hg' | exact Hx].
        * left. exists g. split; [left; reflexivity | exact Hx].
        * right. exact Hx.
      + intros [(g' & [<-|Hg'] & Hx)|Hx].
        * right. left. exact Hx.
        * left. exists g'. split; assumption.
        * right. right. exact Hx.
  Qed.

  Lemma qubits_of_in gs x : In x (qubits_of gs) <-> exists g, In g gs /\ In x (gate_qubits g).
  Proof.
    unfold CircuitModel.qubits_of. rewrite qubits_of_from.
    split; [intros [H|[]]; exact H | intro H; left; exact H].
  Qed.

  Lemma qubits_of_sorted gs : StronglySorted Z.lt (qubits_of gs).
  Proof.
    unfold CircuitModel.qubits_of. generalize (@nil Z) (SSorted_nil Z.lt).
    induction gs as [|g r IH]; simpl; intros acc Hs; [exact Hs|].
    apply IH. apply fold_zinsert_sorted. exact Hs.
  Qed.

  Lemma qubits_of_NoDup gs : NoDup (qubits_of gs).
  Proof. apply sorted_NoDup, qubits_of_sorted. Qed.

  Lemma qubits_of_nonneg gs : nonneg_gates gs -> Forall (fun q => 0 <= q) (qubits_of gs).
  Proof.
    intro H. apply Forall_forall. intros q Hq. apply qubits_of_in in Hq. destruct Hq as (g & Hg & Hq).
    exact (H g q Hg Hq).
  Qed.

  (* ---- remapping one gate, read in the reference semantics ---- *)
  Lemma remap_interp m (fN : N -> N) (g g' : pgate) G :
    (forall q v, In q (gate_qubits g) -> zlookup q m = Some v -> fN (zn q) = zn v) ->
    remap_gate m g = Ok g' -> interp g = Some G -> interp g' = Some (rename_gate S fN G).
  Proof.
    destruct g as [name t c p v]. unfold CircuitModel.remap_gate, gate_qubits; simpl.
    intros Hag Hr HG.
    destruct (remap_list m t) as [t'|] eqn:Ht; simpl in Hr; [|discriminate].
    assert (Ht' : map zn t' = map fN (map zn t)).
    { apply (remap_list_zn m fN t t'); [|exact Ht]. intros q w Hq. apply Hag.
      destruct c; [apply in_or_app; left|]; exact Hq. }
    assert (Hc : exists c', g' = PGate name t' c' p v
                            /\ ctrl_list c' = map fN (ctrl_list c)).
    { destruct c as [[|c0 cl]|]; simpl in Hr.
      - inversion Hr. exists (Some []). split; reflexivity.
      - destruct (remap_list m (c0 :: cl)) as [cl'|] eqn:Hcl; simpl in Hr; [|discriminate].
        inversion Hr. exists (Some cl'). split; [reflexivity|]. simpl ctrl_list.
        apply (remap_list_zn m fN (c0 :: cl) cl'); [|exact Hcl].
        intros q w Hq. apply Hag. apply in_or_app. right. exact Hq.
      - inversion Hr. exists None. split; reflexivity. }
    destruct Hc as (c' & -> & Hc'). clear Hr Hag Ht.
    unfold Interp.interp in *; simpl in *.
    change (match c' with None => [] | Some c0 => map zn c0 end) with (ctrl_list c').
    change (match c with None => [] | Some c0 => map zn c0 end) with (ctrl_list c) in HG.
    rewrite Hc'.
    destruct t as [|t1 [|t2 [|t3 r]]]; try discriminate.
    - destruct t' as [|v1 [|v2 r']]; try discriminate. simpl in Ht'. inversion Ht' as [E1].
      destruct (g1_of_name S Ang ang name p) as [u|]; [|discriminate].
      inversion HG; subst G. rewrite E1. reflexivity.
    - destruct t' as [|v1 [|v2 [|v3 r']]]; try discriminate. simpl in Ht'. inversion Ht' as [[E1 E2]].
      destruct (String.eqb name "SWAP" || String.eqb name "CSWAP")%string.
      + destruct p; try discriminate. inversion HG; subst G. rewrite E1, E2. reflexivity.
      + destruct (String.eqb name "XX").
        * destruct p; try discriminate. inversion HG; subst G. rewrite E1, E2. reflexivity.
        * discriminate.
  Qed.

  Lemma mapM_remap_interp m (fN : N -> N) (gs gs' : list pgate) C :
    (forall g q v, In g gs -> In q (gate_qubits g) -> zlookup q m = Some v -> fN (zn q) = zn v) ->
    mapM (remap_gate m) gs = Ok gs' -> interp_all gs = Some C ->
    interp_all gs' = Some (rename S fN C).
  Proof.
    revert gs' C. induction gs as [|g r IH]; simpl; intros gs' C Hag H HC.
    - inversion H; inversion HC; reflexivity.
    - destruct (remap_gate m g) as [g'|] eqn:Hg; simpl in H; [|discriminate].
      destruct (mapM (remap_gate m) r) as [r'|] eqn:Hr; simpl in H; [|discriminate].
      inversion H; subst; clear H.
      destruct (interp g) as [G|] eqn:HG; [|discriminate].
      destruct (Interp.interp_all S Ang ang r) as [R|] eqn:HR; [|discriminate].
      inversion HC; subst; clear HC. simpl.
      rewrite (remap_interp m fN g g' G (fun q v Hq => Hag g q v (or_introl eq_refl) Hq) Hg HG).
      rewrite (IH r' R (fun g0 q v Hg0 => Hag g0 q v (or_intror Hg0)) eq_refl eq_refl). reflexivity.
  Qed.

  Lemma mapM_remap_nmap m (gs gs' : list pgate) C :
    Forall (fun kv => 0 <= fst kv) m -> nonneg_gates gs ->
    mapM (remap_gate m) gs = Ok gs' -> interp_all gs = Some C ->
    interp_all gs' = Some (rename S (relabel_f (nmap m)) C).
  Proof.
    intros Hk Hq. apply mapM_remap_interp. intros g q v Hg Hqg Hl.
    apply relabel_nmap_agree; [exact Hk | exact (Hq g q Hg Hqg) | exact Hl].
  Qed.

  (* ---- trim_qubits ---- *)
  Lemma trim_map_ok (gs : list pgate) : nonneg_gates gs -> relabel_ok (nmap (trim_map gs)).
  Proof.
    intro Hq. unfold trim_map. apply nmap_ok.
    - apply NoDup_combine_fst, qubits_of_NoDup.
    - apply NoDup_combine_snd, zrange_NoDup.
    - apply Forall_combine; [apply qubits_of_nonneg; exact Hq|].
      apply Forall_forall. intros x Hx. apply zrange_in in Hx. lia.
  Qed.

  Lemma trim_map_keys (gs : list pgate) : nonneg_gates gs -> Forall (fun kv => 0 <= fst kv) (trim_map gs).
  Proof. intro Hq. unfold trim_map. apply Forall_combine_fst, qubits_of_nonneg, Hq. Qed.

  Theorem trim_interp (c c' : circ) C :
    nonneg_gates (cgates c) -> trim_qubits Ang c = Ok c' -> interp_all (cgates c) = Some C ->
    relabel_ok (nmap (trim_map (cgates c)))
    /\ interp_all (cgates c') = Some (rename S (relabel_f (nmap (trim_map (cgates c)))) C).
  Proof.
    intros Hq Ht HC. split; [apply trim_map_ok; exact Hq|].
    unfold CircuitModel.trim_qubits in Ht.
    destruct (mapM _ (cgates c)) as [gs|] eqn:Hg; simpl in Ht; [|discriminate].
    destruct (mapM _ (CircuitModel.cvar Ang c)) as [vs|] eqn:Hv; simpl in Ht; [|discriminate].
    inversion Ht; subst; simpl.
    apply (mapM_remap_nmap _ (cgates c) gs C (trim_map_keys _ Hq) Hq Hg HC).
  Qed.

  (* trim_qubits: the result is the original with its used qubits (sorted) renamed to 0, 1, 2, ...; the
     renaming is injective, and the action on the corresponding qubits is the original's: on states read
     through the renaming (pullback) and, for EVERY state phi, in frame form *)
  Theorem trim_sound (c c' : circ) C :
    nonneg_gates (cgates c) -> trim_qubits Ang c = Ok c' -> interp_all (cgates c) = Some C ->
    let m := nmap (trim_map (cgates c)) in
    relabel_ok m
    /\ interp_all (cgates c') = Some (rename S (relabel_f m) C)
    /\ (forall psi, den S (rename S (relabel_f m) C) (pullback S (relabel_pull m) psi)
                    = pullback S (relabel_pull m) (den S C psi))
    /\ (forall phi y, den S (rename S (relabel_f m) C) phi y
                      = den S C (fun x => phi (relabel_emb m x y)) (relabel_pull m y)).
  Proof.
    intros Hq Ht HC m. destruct (trim_interp c c' C Hq Ht HC) as (Hok & Hi).
    split; [exact Hok|]. split; [exact Hi|]. split.
    - intro psi. apply relabel_pullback. exact Hok.
    - intros phi y. apply relabel_frame. exact Hok.
  Qed.

  (* ---- reindex_qubits ---- *)
  Theorem reindex_interp (c c' : circ) (new : list Z) C :
    nonneg_gates (cgates c) -> Forall (fun q => 0 <= q) (cidx c) ->
    reindex_qubits Ang c new = (c', Ok tt) -> interp_all (cgates c) = Some C ->
    interp_all (cgates c') = Some (rename S (relabel_f (nmap (combine (cidx c) new))) C).
  Proof.
    intros Hq Hk Hr HC. unfold CircuitModel.reindex_qubits in Hr.
    destruct (negb (Nat.eqb (length new) (length (cidx c)))); [inversion Hr|].
    destruct (mapM _ (cgates c)) as [gs|] eqn:Hg; [|inversion Hr].
    destruct (mapM _ (CircuitModel.cvar Ang c)) as [vs|] eqn:Hv; [|inversion Hr].
    inversion Hr; subst; simpl.
    apply (mapM_remap_nmap _ (cgates c) gs C); try assumption.
    apply Forall_combine_fst. exact Hk.
  Qed.

  Lemma reindex_map_ok (c : circ) (new : list Z) :
    NoDup (cidx c) -> Forall (fun q => 0 <= q) (cidx c) -> NoDup new -> Forall (fun q => 0 <= q) new ->
    relabel_ok (nmap (combine (cidx c) new)).
  Proof.
    intros Hn Hk Hn' Hk'. apply nmap_ok.
    - apply NoDup_combine_fst. exact Hn.
    - apply NoDup_combine_snd. exact Hn'.
    - apply Forall_combine; assumption.
  Qed.

  (* reindex_qubits: for EVERY list of new indices the model accepts, the result is the original renamed
     by (sorted _qubit_indices |-> new indices); when the new indices are pairwise distinct and
     non-negative (the code does not check it; with a repeated index two qubits are merged and the
     operation is NOT preserved) the renaming is injective and the action on the corresponding qubits
     is the original's *)
  Theorem reindex_sound (c c' : circ) (new : list Z) C :
    nonneg_gates (cgates c) -> NoDup (cidx c) -> Forall (fun q => 0 <= q) (cidx c) ->
    reindex_qubits Ang c new = (c', Ok tt) -> interp_all (cgates c) = Some C ->
    let m := nmap (combine (cidx c) new) in
    interp_all (cgates c') = Some (rename S (relabel_f m) C)
    /\ (NoDup new -> Forall (fun q => 0 <= q) new ->
        relabel_ok m
        /\ (forall psi, den S (rename S (relabel_f m) C) (pullback S (relabel_pull m) psi)
                        = pullback S (relabel_pull m) (den S C psi))
        /\ (forall phi y, den S (rename S (relabel_f m) C) phi y
                          = den S C (fun x => phi (relabel_emb m x y)) (relabel_pull m y))).
  Proof.
    intros Hq Hn Hk Hr HC m. split; [exact (reindex_interp c c' new C Hq Hk Hr HC)|].
    intros Hn' Hk'. pose proof (reindex_map_ok c new Hn Hk Hn' Hk') as Hok.
    split; [exact Hok|]. split.
    - intro psi. apply relabel_pullback. exact Hok.
    - intros phi y. apply relabel_frame. exact Hok.
  Qed.

  (* ---- circuits accepted by the constructor satisfy the hypotheses of reindex_sound ---- *)
  Definition covered (c : circ) : Prop :=
    forall g q, In g (cgates c) -> In q (gate_qubits g) -> In q (cidx c).

  Lemma track_facts nq qs : forall idx idx' b,
    track nq qs idx = (idx', b) ->
    (StronglySorted Z.lt idx -> StronglySorted Z.lt idx')
    /\ (forall x, In x idx' -> In x idx \/ In x qs)
    /\ (b = true -> forall x, In x idx \/ In x qs -> In x idx').
  Proof.
    induction qs as [|q r IH]; simpl; intros idx idx' b H.
    - inversion H; subst. split; [auto|]. split; [auto|]. intros _ x [Hx|[]]. exact Hx.
    - destruct (truthy nq && match nq with Some n => Z.leb n q | None => false end).
      + inversion H; subst. split; [auto|]. split; [auto|]. discriminate.
      + destruct (IH _ _ _ H) as (H1 & H2 & H3). split; [|split].
        * intro Hs. apply H1. apply zinsert_sorted. exact Hs.
        * intros x Hx. destruct (H2 x Hx) as [Hi|Hi]; [|right; right; exact Hi].
          apply zinsert_in in Hi. destruct Hi as [->|Hi]; [right; left; reflexivity | left; exact Hi].
        * intros Hb x Hx. apply (H3 Hb). destruct Hx as [Hx|[<-|Hx]].
          -- left. apply zinsert_in. right. exact Hx.
          -- left. apply zinsert_in. left. reflexivity.
          -- right. exact Hx.
  Qed.

  Definition idx_wf (c : circ) : Prop :=
    StronglySorted Z.lt (cidx c) /\ Forall (fun q => 0 <= q) (cidx c) /\ covered c.

  Lemma add_all_wf gs : forall c c', idx_wf c -> add_all Ang T c gs = Ok c' -> idx_wf c'.
  Proof.
    induction gs as [|g r IH]; simpl; intros c c' Hw H.
    - inversion H; subst. exact Hw.
    - destruct (add_gate Ang T c g) as [c1 [u|e]] eqn:Ha; [|discriminate].
      apply (IH c1 c'); [|exact H]. clear IH H. unfold add_gate in Ha.
      destruct (regate T g) as [gate|] eqn:Hg; [|inversion Ha].
      pose proof (regate_okb Ang T _ _ Hg) as Hok.
      pose proof (regate_ok_eq Ang T _ _ Hg); subst gate.
      destruct (track (CircuitModel.cnq Ang c) (gate_qubits g) (cidx c)) as [idx b] eqn:Ht.
      destruct b; inversion Ha; subst; clear Ha.
      destruct (track_facts _ _ _ _ _ Ht) as (H1 & H2 & H3).
      destruct Hw as (Hs & Hn & Hc). unfold idx_wf, covered; simpl. split; [|split].
      + apply H1. exact Hs.
      + apply Forall_forall. intros x Hx. destruct (H2 x Hx) as [Hi|Hi].
        * rewrite Forall_forall in Hn. apply Hn. exact Hi.
        * exact (okb_nonneg Ang g x Hok Hi).
      + intros g0 q Hg0 Hq. apply (H3 eq_refl). apply in_app_or in Hg0. destruct Hg0 as [Hg0|[<-|[]]].
        * left. exact (Hc g0 q Hg0 Hq).
        * right. exact Hq.
  Qed.

  Lemma empty_wf nq : idx_wf (empty_circ Ang nq).
  Proof.
    unfold idx_wf, covered, empty_circ; simpl. split; [|split].
    - destruct nq; [apply zrange_sorted | constructor].
    - destruct nq; [|constructor]. apply Forall_forall. intros x Hx. apply zrange_in in Hx. lia.
    - intros g q [].
  Qed.

  Theorem build_wf gs nq c : build Ang T gs nq = Ok c ->
    Forall (fun g => gate_okb g = true) (cgates c)
    /\ NoDup (cidx c) /\ Forall (fun q => 0 <= q) (cidx c) /\ covered c.
  Proof.
    intro H. split.
    - rewrite (build_gates Ang T gs nq c H). exact (build_okb Ang T gs nq c H).
    - destruct (add_all_wf gs _ _ (empty_wf nq) H) as (Hs & Hn & Hc).
      split; [apply sorted_NoDup; exact Hs|]. split; assumption.
  Qed.

  Lemma zmax_ge_m1 l : -1 <= zmax l.
  Proof. induction l as [|a r IH]; simpl; lia. Qed.

  Lemma covered_lt_width c : covered c -> forall g q, In g (cgates c) -> In q (gate_qubits g) -> q < width Ang c.
  Proof.
    intros Hc g q Hg Hq. unfold width. pose proof (zmax_ge _ _ (Hc g q Hg Hq)). lia.
  Qed.

  (* ------------------------------------------------------------------------------------------------ *)
  (* stack                                                                                             *)
  (* ------------------------------------------------------------------------------------------------ *)
  Lemma mapM_Forall2 {X Y} (f : X -> res Y) l l' : mapM f l = Ok l' -> Forall2 (fun x y => f x = Ok y) l l'.
  Proof.
    revert l'. induction l as [|a r IH]; simpl; intros l' H.
    - inversion H. constructor.
    - destruct (f a) as [y|] eqn:E; simpl in H; [|discriminate].
      destruct (mapM f r) as [r'|] eqn:E2; simpl in H; [|discriminate].
      inversion H; subst. constructor; [exact E | apply IH; reflexivity].
  Qed.

  Lemma remap_gate_compose m1 m2 m12 (g g1 g2 : pgate) :
    (forall q v w, In q (gate_qubits g) -> zlookup q m1 = Some v -> zlookup v m2 = Some w ->
                   zlookup q m12 = Some w) ->
    remap_gate m1 g = Ok g1 -> remap_gate m2 g1 = Ok g2 -> remap_gate m12 g = Ok g2.
  Proof.
    destruct g as [name t c p v]. unfold CircuitModel.remap_gate, gate_qubits; simpl. intros Hc H1 H2.
    destruct (remap_list m1 t) as [t1|] eqn:Ht1; simpl in H1; [|discriminate].
    destruct c as [[|c0 cl]|]; simpl in H1.
    - inversion H1; subst g1; clear H1. simpl in H2.
      destruct (remap_list m2 t1) as [t2|] eqn:Ht2; simpl in H2; [|discriminate].
      rewrite (remap_list_compose m1 m2 m12 t t1 t2); [exact H2| |exact Ht1|exact Ht2].
      intros q a b Hq. apply Hc. apply in_or_app. left. exact Hq.
    - destruct (remap_list m1 (c0 :: cl)) as [cl1|] eqn:Hcl1; simpl in H1; [|discriminate].
      inversion H1; subst g1; clear H1. simpl in H2.
      destruct (remap_list m2 t1) as [t2|] eqn:Ht2; simpl in H2; [|discriminate].
      destruct cl1 as [|d0 dl].
      { apply remap_list_spec in Hcl1. inversion Hcl1. }
      destruct (remap_list m2 (d0 :: dl)) as [cl2|] eqn:Hcl2; simpl in H2; [|discriminate].
      rewrite (remap_list_compose m1 m2 m12 t t1 t2); [| |exact Ht1|exact Ht2].
      + simpl. rewrite (remap_list_compose m1 m2 m12 (c0 :: cl) (d0 :: dl) cl2); [exact H2| |exact Hcl1|exact Hcl2].
        intros q a b Hq. apply Hc. apply in_or_app. right. exact Hq.
      + intros q a b Hq. apply Hc. apply in_or_app. left. exact Hq.
    - inversion H1; subst g1; clear H1. simpl in H2.
      destruct (remap_list m2 t1) as [t2|] eqn:Ht2; simpl in H2; [|discriminate].
      rewrite (remap_list_compose m1 m2 m12 t t1 t2); [exact H2| |exact Ht1|exact Ht2].
      intros q a b Hq. apply Hc. exact Hq.
  Qed.

  Lemma mapM_remap_compose m1 m2 m12 (gs gs1 gs2 : list pgate) :
    (forall g q v w, In g gs -> In q (gate_qubits g) -> zlookup q m1 = Some v -> zlookup v m2 = Some w ->
                     zlookup q m12 = Some w) ->
    mapM (remap_gate m1) gs = Ok gs1 -> mapM (remap_gate m2) gs1 = Ok gs2 ->
    mapM (remap_gate m12) gs = Ok gs2.
  Proof.
    revert gs1 gs2. induction gs as [|g r IH]; simpl; intros gs1 gs2 Hc H1 H2.
    - inversion H1; subst. simpl in H2. exact H2.
    - destruct (remap_gate m1 g) as [g1|] eqn:Hg1; simpl in H1; [|discriminate].
      destruct (mapM (remap_gate m1) r) as [r1|] eqn:Hr1; simpl in H1; [|discriminate].
      inversion H1; subst; clear H1. simpl in H2.
      destruct (remap_gate m2 g1) as [g2|] eqn:Hg2; simpl in H2; [|discriminate].
      destruct (mapM (remap_gate m2) r1) as [r2|] eqn:Hr2; simpl in H2; [|discriminate].
      inversion H2; subst; clear H2.
      rewrite (remap_gate_compose m1 m2 m12 g g1 g2 (fun q v w Hq => Hc g q v w (or_introl eq_refl) Hq) Hg1 Hg2).
      simpl. rewrite (IH r1 r2 (fun g0 q v w Hg0 => Hc g0 q v w (or_intror Hg0)) eq_refl Hr2). reflexivity.
  Qed.

  Lemma mapM_remap_values m (gs gs' : list pgate) :
    mapM (remap_gate m) gs = Ok gs' -> forall g q, In g gs' -> In q (gate_qubits g) -> In q (map snd m).
  Proof.
    intros H g q Hg Hq. destruct (mapM_in _ _ _ _ H Hg) as (g0 & _ & Hg0).
    destruct (remap_gate_facts Ang _ _ _ Hg0) as (_ & _ & _ & Hall). apply Hall. exact Hq.
  Qed.

  (* what trim_qubits returns *)
  Lemma trim_facts (c c1 : circ) :
    trim_qubits Ang c = Ok c1 ->
    mapM (remap_gate (trim_map (cgates c))) (cgates c) = Ok (cgates c1)
    /\ cidx c1 = zrange (Z.of_nat (length (qubits_of (cgates c)))).
  Proof.
    unfold CircuitModel.trim_qubits, trim_map. intro Ht.
    destruct (mapM _ (cgates c)) as [gs|] eqn:Hg; simpl in Ht; [|discriminate].
    destruct (mapM _ (CircuitModel.cvar Ang c)) as [vs|] eqn:Hv; simpl in Ht; [|discriminate].
    inversion Ht; subst; simpl. split; reflexivity.
  Qed.

  Lemma trim_covered (c c1 : circ) : trim_qubits Ang c = Ok c1 -> covered c1 /\ nonneg_gates (cgates c1).
  Proof.
    intro Ht. destruct (trim_facts c c1 Ht) as (Hm & Hi).
    assert (Hv : forall g q, In g (cgates c1) -> In q (gate_qubits g) ->
                             In q (zrange (Z.of_nat (length (qubits_of (cgates c)))))).
    { intros g q Hg Hq. pose proof (mapM_remap_values _ _ _ Hm g q Hg Hq) as Hin.
      unfold trim_map in Hin. apply combine_snd_in in Hin. exact Hin. }
    split.
    - intros g q Hg Hq. rewrite Hi. exact (Hv g q Hg Hq).
    - intros g q Hg Hq. pose proof (zrange_in _ _ (Hv g q Hg Hq)). lia.
  Qed.

  (* the hypotheses of the index theorems hold again for what trim_qubits / reindex_qubits return
     (split and stack return circuits made by the constructor: build_wf) *)
  Theorem trim_wf (c c1 : circ) : trim_qubits Ang c = Ok c1 ->
    nonneg_gates (cgates c1) /\ NoDup (cidx c1) /\ Forall (fun q => 0 <= q) (cidx c1) /\ covered c1.
  Proof.
    intro Ht. destruct (trim_covered c c1 Ht) as (Hc & Hn). destruct (trim_facts c c1 Ht) as (_ & Hi).
    split; [exact Hn|]. rewrite Hi. split; [apply zrange_NoDup|]. split.
    - apply Forall_forall. intros x Hx. apply zrange_in in Hx. lia.
    - exact Hc.
  Qed.

  Theorem reindex_wf (c c' : circ) (new : list Z) :
    reindex_qubits Ang c new = (c', Ok tt) -> Forall (fun q => 0 <= q) new ->
    nonneg_gates (cgates c') /\ NoDup (cidx c') /\ Forall (fun q => 0 <= q) (cidx c') /\ covered c'.
  Proof.
    intros Hr Hk. unfold CircuitModel.reindex_qubits in Hr.
    destruct (negb (Nat.eqb (length new) (length (cidx c)))); [inversion Hr|].
    destruct (mapM _ (cgates c)) as [gs|] eqn:Hg; [|inversion Hr].
    destruct (mapM _ (CircuitModel.cvar Ang c)) as [vs|] eqn:Hv; [|inversion Hr].
    inversion Hr; subst; clear Hr. unfold covered; simpl.
    assert (Hin : forall g q, In g gs -> In q (gate_qubits g) -> In q new).
    { intros g q Hgin Hq. pose proof (mapM_remap_values _ _ _ Hg g q Hgin Hq) as H.
      apply combine_snd_in in H. exact H. }
    rewrite Forall_forall in Hk. split; [|split; [|split]].
    - intros g q Hgin Hq. apply Hk. exact (Hin g q Hgin Hq).
    - apply zset_of_NoDup.
    - apply Forall_forall. intros x Hx. apply (proj1 (zset_of_iff _ _)) in Hx. apply Hk. exact Hx.
    - intros g q Hgin Hq. apply (proj2 (zset_of_iff _ _)). exact (Hin g q Hgin Hq).
  Qed.

  (* trim followed by the shift reindexing of stack is ONE renaming: sorted used qubits |-> off, off+1, ... *)
  Lemma trim_then_shift (c c1 c2 : circ) (off : Z) :
    trim_qubits Ang c = Ok c1 ->
    reindex_qubits Ang c1 (map (fun k => off + k) (zrange (width Ang c1))) = (c2, Ok tt) ->
    mapM (remap_gate (stack_map off (cgates c))) (cgates c) = Ok (cgates c2)
    /\ (forall g q, In g (cgates c2) -> In q (gate_qubits g) -> off <= q).
  Proof.
    intros Ht Hr. destruct (trim_facts c c1 Ht) as (Hm & Hi).
    unfold CircuitModel.reindex_qubits in Hr.
    destruct (Nat.eqb_spec (length (map (fun k => off + k) (zrange (width Ang c1)))) (length (cidx c1))) as [Hl|Hl];
      simpl in Hr; [|inversion Hr].
    destruct (mapM _ (cgates c1)) as [gs|] eqn:Hg; [|inversion Hr].
    destruct (mapM _ (CircuitModel.cvar Ang c1)) as [vs|] eqn:Hv; [|inversion Hr].
    inversion Hr; subst c2; clear Hr. simpl.
    rewrite Hi, map_length, !zrange_length, Nat2Z.id in Hl.
    assert (Hz : zrange (width Ang c1) = zrange (Z.of_nat (length (qubits_of (cgates c))))).
    { unfold zrange. rewrite Hl, Nat2Z.id. reflexivity. }
    rewrite Hi, Hz in Hg. split.
    - apply (mapM_remap_compose _ _ _ (cgates c) (cgates c1) gs) with (2 := Hm) (3 := Hg).
      intros g q v w _ _ H1 H2. unfold trim_map in H1. unfold stack_map.
      eapply zlookup_combine_compose; [apply zrange_NoDup | exact H1 | exact H2].
    - intros g q Hgin Hq. pose proof (mapM_remap_values _ _ _ Hg g q Hgin Hq) as Hin.
      apply combine_snd_in in Hin. apply in_map_iff in Hin. destruct Hin as (k & <- & Hk).
      apply zrange_in in Hk. lia.
  Qed.

  Lemma stack_map_ok (gs : list pgate) (off : Z) :
    0 <= off -> nonneg_gates gs -> relabel_ok (nmap (stack_map off gs)).
  Proof.
    intros Ho Hq. unfold stack_map. apply nmap_ok.
    - apply NoDup_combine_fst, qubits_of_NoDup.
    - apply NoDup_combine_snd. apply NoDup_map_inj_on; [apply zrange_NoDup|]. intros x y _ _ E. lia.
    - apply Forall_combine; [apply qubits_of_nonneg; exact Hq|].
      apply Forall_forall. intros x Hx. apply in_map_iff in Hx. destruct Hx as (k & <- & Hk).
      apply zrange_in in Hk. lia.
  Qed.

  Lemma stack_map_keys (gs : list pgate) off : nonneg_gates gs -> Forall (fun kv => 0 <= fst kv) (stack_map off gs).
  Proof. intro Hq. unfold stack_map. apply Forall_combine_fst, qubits_of_nonneg, Hq. Qed.

  Lemma stack_map_0 (gs : list pgate) : stack_map 0 gs = trim_map gs.
  Proof.
    unfold stack_map, trim_map. f_equal. rewrite (map_ext _ (fun k => k)) by (intro k; reflexivity).
    apply map_id.
  Qed.

  Lemma interp_all_in gs C G : interp_all gs = Some C -> In G C -> exists g, In g gs /\ interp g = Some G.
  Proof.
    revert C. induction gs as [|g r IH]; simpl; intros C HC Hin.
    - inversion HC; subst. contradiction.
    - destruct (interp g) as [G0|] eqn:HG; [|discriminate].
      destruct (Interp.interp_all S Ang ang r) as [R|] eqn:HR; [|discriminate].
      inversion HC; subst. destruct Hin as [<-|Hin].
      + exists g. split; [left; reflexivity | exact HG].
      + destruct (IH R eq_refl Hin) as (g' & Hg' & HG'). exists g'. split; [right; exact Hg' | exact HG'].
  Qed.

  (* gates below a bound never share a qubit with gates at or above it *)
  Lemma cross_by_bound (a b : list pgate) A B (off : Z) :
    interp_all a = Some A -> interp_all b = Some B ->
    (forall g q, In g a -> In q (gate_qubits g) -> 0 <= q < off) ->
    (forall h q, In h b -> In q (gate_qubits h) -> off <= q) ->
    cross S A B.
  Proof.
    intros HA HB Ha Hb G H HG HH q Hq1 Hq2.
    destruct (interp_all_in a A G HA HG) as (g & Hg & HgG).
    destruct (interp_all_in b B H HB HH) as (h & Hh & HhH).
    rewrite (interp_qubits S Ang ang g G HgG) in Hq1. rewrite (interp_qubits S Ang ang h H HhH) in Hq2.
    apply in_map_iff in Hq1. destruct Hq1 as (x & Ex & Hx).
    apply in_map_iff in Hq2. destruct Hq2 as (y & Ey & Hy).
    pose proof (Ha g x Hg Hx). pose proof (Hb h y Hh Hy). unfold zn in *. lia.
  Qed.

  Lemma pdisj_snoc (parts : list (circuit S)) (P : circuit S) :
    pdisj S parts -> Forall (fun D => cross S D P) parts -> pdisj S (parts ++ [P]).
  Proof.
    induction parts as [|D r IH]; simpl; intros Hp Hc.
    - split; [constructor | exact I].
    - destruct Hp as [H1 H2]. inversion Hc; subst. split.
      + apply Forall_app. split; [exact H1 | constructor; [assumption | constructor]].
      + apply IH; assumption.
  Qed.

  Fixpoint stack_parts (offs : list Z) (cs : list circ) (Cs : list (circuit S)) : list (circuit S) :=
    match offs, cs, Cs with
    | o :: offs', c :: cs', C :: Cs' =>
      rename S (relabel_f (nmap (stack_map o (cgates c)))) C :: stack_parts offs' cs' Cs'
    | _, _, _ => []
    end.

  Definition stack_step (acc : res circ) (c : circ) : res circ :=
    do st <- acc;
    match reindex_qubits Ang c (map (fun k => (width Ang st + k)%Z) (zrange (width Ang c))) with
    | (c', Ok _) => CircuitModel.concat Ang T st c'
    | (_, Err e) => Err e
    end.

  Lemma stack_step_err rest e : fold_left stack_step rest (Err e) = Err e.
  Proof. induction rest as [|c r IH]; simpl; [reflexivity | exact IH]. Qed.

  Lemma stack_fold : forall (irest rest : list circ) (Crest : list (circuit S)),
    Forall2 (fun i c1 => trim_qubits Ang i = Ok c1) irest rest ->
    Forall2 (fun i C => interp_all (cgates i) = Some C) irest Crest ->
    Forall (fun i => nonneg_gates (cgates i)) irest ->
    forall (st : circ) (done : list (circuit S)) (r : circ),
      covered st -> nonneg_gates (cgates st) -> interp_all (cgates st) = Some (List.concat done) ->
      pdisj S done ->
      fold_left stack_step rest (Ok st) = Ok r ->
      exists offs, length offs = length irest /\ Forall (fun o => 0 <= o) offs
        /\ interp_all (cgates r) = Some (List.concat (done ++ stack_parts offs irest Crest))
        /\ pdisj S (done ++ stack_parts offs irest Crest).
  Proof.
    intros irest rest Crest Htr. revert Crest.
    induction Htr as [|i c1 irest rest Hti Htr IH]; intros Crest HC Hnn st done r Hcov Hst Hint Hpd Hf.
    - inversion HC; subst. simpl in Hf. inversion Hf; subst. exists []. simpl. rewrite app_nil_r.
      repeat split; [constructor | exact Hint | exact Hpd].
    - inversion HC as [|i' C irest' Crest' HCi HCr]; subst. inversion Hnn as [|i' l' Hni Hnr]; subst.
      simpl in Hf.
      destruct (reindex_qubits Ang c1 (map (fun k => width Ang st + k) (zrange (width Ang c1)))) as [c2 [u|e]] eqn:Hr;
        [|rewrite stack_step_err in Hf; discriminate].
      destruct u.
      destruct (CircuitModel.concat Ang T st c2) as [st'|e] eqn:Hcc; [|rewrite stack_step_err in Hf; discriminate].
      destruct (trim_then_shift i c1 c2 (width Ang st) Hti Hr) as (Hm & Habove).
      pose proof (mapM_remap_nmap _ (cgates i) (cgates c2) C (stack_map_keys _ _ Hni) Hni Hm HCi) as Hic2.
      unfold CircuitModel.concat in Hcc.
      pose proof (build_gates Ang T _ _ _ Hcc) as Hgs.
      destruct (build_wf _ _ _ Hcc) as (Hokb & _ & _ & Hcov').
      set (P := rename S (relabel_f (nmap (stack_map (width Ang st) (cgates i)))) C) in *.
      assert (Hint' : interp_all (cgates st') = Some (List.concat (done ++ [P]))).
      { rewrite Hgs, concat_app. simpl. rewrite app_nil_r.
        apply (interp_all_app S Ang ang); assumption. }
      assert (Hpd' : pdisj S (done ++ [P])).
      { apply pdisj_snoc; [exact Hpd|]. apply Forall_forall. intros D HD G H HG HH.
        apply (cross_by_bound (cgates st) (cgates c2) (List.concat done) P (width Ang st) Hint Hic2).
        - intros g q Hg Hq. split; [exact (Hst g q Hg Hq) | exact (covered_lt_width st Hcov g q Hg Hq)].
        - exact Habove.
        - apply in_concat. exists D. split; assumption.
        - exact HH. }
      destruct (IH Crest' HCr Hnr st' (done ++ [P]) r Hcov' (okb_nonneg_gates _ Hokb) Hint' Hpd' Hf)
        as (offs & Hlen & Hpos & Hres & Hdis).
      exists (width Ang st :: offs). simpl. fold P. rewrite <- app_assoc in Hres, Hdis. simpl in Hres, Hdis.
      repeat split; [rewrite Hlen; reflexivity | | exact Hres | exact Hdis].
      constructor; [|exact Hpos]. unfold width. pose proof (zmax_ge_m1 (cidx st)). lia.
  Qed.

  (* stack: the result is the concatenation of the renamed parts; the renamed parts act on pairwise
     disjoint qubits; every renaming is injective (stack_map_ok) *)
  Theorem stack_interp (cs : list circ) (r : circ) (Cs : list (circuit S)) :
    Forall (fun c => nonneg_gates (cgates c)) cs -> stack_c Ang T cs = Ok r ->
    Forall2 (fun c C => interp_all (cgates c) = Some C) cs Cs ->
    exists offs, length offs = length cs /\ Forall (fun o => 0 <= o) offs
      /\ interp_all (cgates r) = Some (List.concat (stack_parts offs cs Cs))
      /\ pdisj S (stack_parts offs cs Cs).
  Proof.
    intros Hnn Hs HC. unfold stack_c in Hs. destruct cs as [|i0 irest].
    - inversion Hs; subst. inversion HC; subst. exists []. simpl.
      repeat split; try constructor.
    - destruct (mapM (trim_qubits Ang) (i0 :: irest)) as [cs1|] eqn:Hm; simpl in Hs; [|discriminate].
      apply mapM_Forall2 in Hm. inversion Hm as [|x c0 l rest Ht0 Htr]; subst.
      inversion HC as [|x C0 l Crest HC0 HCr]; subst. inversion Hnn as [|x l Hn0 Hnr]; subst.
      destruct (trim_interp i0 c0 C0 Hn0 Ht0 HC0) as (_ & Hi0).
      destruct (trim_covered i0 c0 Ht0) as (Hcov0 & Hnn0).
      rewrite <- stack_map_0 in Hi0.
      set (P0 := rename S (relabel_f (nmap (stack_map 0 (cgates i0)))) C0) in *.
      assert (Hint0 : interp_all (cgates c0) = Some (List.concat [P0])) by (simpl; rewrite app_nil_r; exact Hi0).
      assert (Hpd0 : pdisj S [P0]) by (simpl; split; [constructor | exact I]).
      change (fold_left stack_step rest (Ok c0) = Ok r) in Hs.
      destruct (stack_fold irest rest Crest Htr HCr Hnr c0 [P0] r Hcov0 Hnn0 Hint0 Hpd0 Hs)
        as (offs & Hlen & Hpos & Hres & Hdis).
      exists (0 :: offs). simpl stack_parts. fold P0.
      split; [simpl; rewrite Hlen; reflexivity|]. split; [constructor; [lia | exact Hpos]|].
      split; [exact Hres | exact Hdis].
  Qed.
End RelabelLinq.

(* ------------------------------------------------------------------------------------------------ *)
(* split: the entangled-set computation (get_entangled_indices)                                      *)
(* ------------------------------------------------------------------------------------------------ *)
Definition zdisj (a b : list Z) : Prop := forall x, In x a -> ~ In x b.
Fixpoint pwd (l : list (list Z)) : Prop :=
  match l with [] => True | s :: r => Forall (zdisj s) r /\ pwd r end.
Definition covers (sets : list (list Z)) (qs : list Z) : Prop :=
  exists s, In s sets /\ forall x, In x qs -> In x s.

Lemma zdisj_sym a b : zdisj a b -> zdisj b a.
Proof. intros H x Hb Ha. exact (H x Ha Hb). Qed.

Lemma pwd_app a b : pwd (a ++ b) <-> pwd a /\ pwd b /\ (forall s t, In s a -> In t b -> zdisj s t).
Proof.
  induction a as [|s r IH]; simpl.
  - split; [intro H; repeat split; [exact H | intros s t []] | intros (_ & H & _); exact H].
  - rewrite Forall_app, IH. split.
    + intros ((H1 & H2) & H3 & H4 & H5). repeat split; try assumption.
      intros s' t [<-|Hs] Ht; [rewrite Forall_forall in H2; apply H2; exact Ht | apply H5; assumption].
    + intros ((H1 & H2) & H3 & H4). repeat split; try assumption.
      * apply Forall_forall. intros t Ht. apply H4; [left; reflexivity | exact Ht].
      * intros s' t Hs Ht. apply H4; [right; exact Hs | exact Ht].
Qed.

Lemma pwd_rev l : pwd l -> pwd (rev l).
Proof.
  induction l as [|s r IH]; simpl; intro H; [exact I|]. destruct H as [H1 H2].
  apply pwd_app. split; [apply IH; exact H2|]. split; [simpl; split; [constructor | exact I]|].
  intros a b Ha [<-|[]]. apply in_rev in Ha. rewrite Forall_forall in H1. apply zdisj_sym. apply H1. exact Ha.
Qed.

(* two members of a pairwise disjoint family that share an element are the same set *)
Lemma pwd_share l a b x : pwd l -> In a l -> In b l -> In x a -> In x b -> a = b.
Proof.
  induction l as [|s r IH]; simpl; intros Hp Ha Hb Hxa Hxb; [contradiction|].
  destruct Hp as [H1 H2]. rewrite Forall_forall in H1.
  destruct Ha as [<-|Ha]; destruct Hb as [<-|Hb].
  - reflexivity.
  - exfalso. exact (H1 b Hb x Hxa Hxb).
  - exfalso. exact (H1 a Ha x Hxb Hxa).
  - apply IH; assumption.
Qed.

Definition astep (st : list Z * list (list Z)) : list Z -> list Z * list (list Z) :=
  let '(q, kept) := st in fun qs => if zinter q qs then (zunion q qs, kept) else (q, qs :: kept).

Lemma astep_fold : forall todo q kept q' kept',
  pwd todo -> Forall (fun s => zdisj s q) kept -> (forall s t, In s kept -> In t todo -> zdisj s t) ->
  pwd kept -> fold_left astep todo (q, kept) = (q', kept') ->
  pwd kept' /\ Forall (fun s => zdisj s q') kept' /\ (forall x, In x q -> In x q')
  /\ (forall s, In s todo -> In s kept' \/ (forall x, In x s -> In x q'))
  /\ (forall s, In s kept -> In s kept').
Proof.
  induction todo as [|qs todo IH]; intros q kept q' kept' Hp Hk Hkt Hpk Hf; simpl in Hf.
  - inversion Hf; subst. repeat split; try assumption; auto. intros s [].
  - destruct Hp as [Hq1 Hq2]. rewrite Forall_forall in Hq1.
    destruct (zinter q qs) eqn:Hz.
    + destruct (IH (zunion q qs) kept q' kept' Hq2) as (A1 & A2 & A3 & A4 & A5); try assumption.
      * apply Forall_forall. intros s Hs x Hx Hu. apply zunion_in in Hu.
        rewrite Forall_forall in Hk. destruct Hu as [Hu|Hu]; [exact (Hk s Hs x Hx Hu)|].
        exact (Hkt s qs Hs (or_introl eq_refl) x Hx Hu).
      * intros s t Hs Ht. apply Hkt; [exact Hs | right; exact Ht].
      * repeat split; try assumption.
        -- intros x Hx. apply A3. apply zunion_in. left. exact Hx.
        -- intros s [<-|Hs]; [|apply A4; exact Hs]. right. intros x Hx. apply A3. apply zunion_in. right. exact Hx.
    + assert (Hd : zdisj qs q).
      { intros x Hx Hxq. assert (E : zinter q qs = true) by (apply zinter_true; exists x; auto).
        rewrite E in Hz. discriminate. }
      destruct (IH q (qs :: kept) q' kept' Hq2) as (A1 & A2 & A3 & A4 & A5); try assumption.
      * constructor; assumption.
      * intros s t [<-|Hs] Ht; [apply Hq1; exact Ht | apply Hkt; [exact Hs | right; exact Ht]].
      * simpl. split; [|exact Hpk]. apply Forall_forall. intros s Hs. apply zdisj_sym.
        apply Hkt; [exact Hs | left; reflexivity].
      * repeat split; try assumption.
        -- intros s [<-|Hs]; [left; apply A5; left; reflexivity | apply A4; exact Hs].
        -- intros s Hs. apply A5. right. exact Hs.
Qed.

Lemma absorb_spec qnew sets :
  pwd sets ->
  pwd (absorb qnew sets) /\ covers (absorb qnew sets) qnew
  /\ (forall qs, covers sets qs -> covers (absorb qnew sets) qs).
Proof.
  intro Hp. unfold absorb.
  change (fold_left _ (rev sets) (qnew, [])) with (fold_left astep (rev sets) (qnew, [])).
  destruct (fold_left astep (rev sets) (qnew, [])) as [q' kept'] eqn:Hf.
  destruct (astep_fold (rev sets) qnew [] q' kept' (pwd_rev _ Hp)) as (A1 & A2 & A3 & A4 & A5);
    [constructor | intros s t [] | exact I | exact Hf |].
  split; [|split].
  - apply pwd_app. split; [exact A1|]. split; [simpl; split; [constructor | exact I]|].
    intros s t Hs [<-|[]]. rewrite Forall_forall in A2. apply A2. exact Hs.
  - exists q'. split; [apply in_or_app; right; left; reflexivity | exact A3].
  - intros qs (s & Hs & Hsub). apply in_rev in Hs. destruct (A4 s Hs) as [Hk|Hq].
    + exists s. split; [apply in_or_app; left; exact Hk | exact Hsub].
    + exists q'. split; [apply in_or_app; right; left; reflexivity|]. intros x Hx. apply Hq, Hsub, Hx.
Qed.

Lemma filter_filter_imp {X} (p q : X -> bool) l :
  (forall x, In x l -> p x = true -> q x = true) -> filter p (filter q l) = filter p l.
Proof.
  induction l as [|x l IH]; simpl; intro H; [reflexivity|].
  destruct (q x) eqn:Eq; simpl.
  - destruct (p x); [f_equal|]; apply IH; intros y Hy; apply H; right; exact Hy.
  - destruct (p x) eqn:Ep.
    + rewrite (H x (or_introl eq_refl) Ep) in Eq. discriminate.
    + apply IH. intros y Hy. apply H. right. exact Hy.
Qed.

Section SplitLinq.
  Variable S : KS.
  Variable Ang : Type.
  Variable ang : Ang -> A S.
  Variable T : tables.

  Notation pgate := (pgate Ang).
  Notation circ := (circ Ang).
  Notation cgates := (cgates Ang).
  Notation interp := (interp S Ang ang).
  Notation interp_all := (interp_all S Ang ang).
  Notation gate_okb := (gate_okb Ang).

  Lemma entangled_from (gs : list pgate) : forall acc,
    pwd acc ->
    pwd (fold_left (fun sets (g : pgate) => absorb (zset_of (gate_qubits g)) sets) gs acc)
    /\ (forall qs, covers acc qs ->
                   covers (fold_left (fun sets (g : pgate) => absorb (zset_of (gate_qubits g)) sets) gs acc) qs)
    /\ (forall g, In g gs ->
                  covers (fold_left (fun sets (g : pgate) => absorb (zset_of (gate_qubits g)) sets) gs acc)
                         (gate_qubits g)).
  Proof.
    induction gs as [|g r IH]; simpl; intros acc Hp.
    - split; [exact Hp|]. split; [auto | intros g []].
    - destruct (absorb_spec (zset_of (gate_qubits g)) acc Hp) as (B1 & B2 & B3).
      destruct (IH _ B1) as (C1 & C2 & C3). split; [exact C1|]. split.
      + intros qs Hqs. apply C2, B3, Hqs.
      + intros g' [<-|Hg']; [|apply C3; exact Hg'].
        apply C2. destruct B2 as (s & Hs & Hsub). exists s. split; [exact Hs|].
        intros x Hx. apply Hsub. apply zset_of_iff. exact Hx.
  Qed.

  (* get_entangled_indices: the sets are pairwise disjoint and every gate lies inside one of them *)
  Theorem entangled_spec (gs : list pgate) :
    pwd (entangled_indices Ang gs) /\ forall g, In g gs -> covers (entangled_indices Ang gs) (gate_qubits g).
  Proof.
    unfold entangled_indices. destruct (entangled_from gs [] I) as (H1 & _ & H3). split; assumption.
  Qed.

  Notation touches := (fun (s : list Z) (g : pgate) => zinter (gate_qubits g) s).

  (* a gate that meets a set of the family lies inside it *)
  Lemma touch_subset sets s (qs : list Z) :
    pwd sets -> In s sets -> covers sets qs -> zinter qs s = true -> forall x, In x qs -> In x s.
  Proof.
    intros Hp Hs (s' & Hs' & Hsub) Hz. apply zinter_true in Hz. destruct Hz as (y & Hy1 & Hy2).
    assert (E : s' = s) by (apply (pwd_share sets s' s y Hp Hs' Hs (Hsub y Hy1) Hy2)).
    subst s'. exact Hsub.
  Qed.

  (* the gate list is an order-preserving interleaving of the parts *)
  Lemma split_kinterleave : forall sets (gs : list pgate),
    pwd sets -> (forall g, In g gs -> gate_qubits g <> [] /\ covers sets (gate_qubits g)) ->
    kinterleave gs (map (fun s => filter (touches s) gs) sets).
  Proof.
    induction sets as [|s r IH]; intros gs Hp Hg; simpl.
    - destruct gs as [|g gs]; [constructor|]. exfalso.
      destruct (Hg g (or_introl eq_refl)) as (_ & s & [] & _).
    - destruct Hp as [Hp1 Hp2]. rewrite Forall_forall in Hp1.
      apply (kil_cons _ _ (filter (fun g => negb (touches s g)) gs)); [apply interleave_filter|].
      assert (Hrest : forall g, In g (filter (fun g => negb (touches s g)) gs) ->
                                gate_qubits g <> [] /\ covers r (gate_qubits g)).
      { intros g Hin. apply filter_In in Hin. destruct Hin as [Hin Hn].
        destruct (Hg g Hin) as (Hne & s' & [<-|Hs'] & Hsub); [|split; [exact Hne | exists s'; auto]].
        exfalso. destruct (gate_qubits g) as [|x l] eqn:E; [apply Hne; reflexivity|].
        assert (Ez : zinter (x :: l) s = true) by (apply zinter_true; exists x; split; [left; reflexivity | apply Hsub; left; reflexivity]).
        rewrite Ez in Hn. discriminate. }
      pose proof (IH _ Hp2 Hrest) as Hk.
      rewrite (map_ext_in _ (fun s' => filter (touches s') gs)) in Hk; [exact Hk|].
      intros s' Hs'. apply filter_filter_imp. intros g Hin Ht.
      destruct (zinter (gate_qubits g) s) eqn:Ez; [|reflexivity]. exfalso.
      destruct (Hg g Hin) as (_ & Hcov).
      assert (Hp : pwd (s :: r)) by (simpl; split; [apply Forall_forall; exact Hp1 | exact Hp2]).
      apply zinter_true in Ht. destruct Ht as (y & Hy1 & Hy2).
      pose proof (touch_subset (s :: r) s _ Hp (or_introl eq_refl) Hcov Ez y Hy1) as Hys.
      exact (Hp1 s' Hs' y Hys Hy2).
  Qed.

  Lemma interp_nonempty (g : pgate) G : interp g = Some G -> gate_qubits g <> [].
  Proof.
    unfold Interp.interp, gate_qubits. destruct g as [name t c p v]; simpl.
    destruct t as [|t1 r]; [discriminate|]. intros _. destruct c; discriminate.
  Qed.

  (* interleavings are carried through the interpretation *)
  Lemma interleave_interp (gs a b : list pgate) : interleave gs a b -> forall C,
    interp_all gs = Some C ->
    exists A B, interp_all a = Some A /\ interp_all b = Some B /\ interleave C A B.
  Proof.
    induction 1 as [|x c c1 c2 H IH|x c c1 c2 H IH]; intros C HC; simpl in HC.
    - inversion HC; subst. exists [], []. repeat split. constructor.
    - destruct (interp x) as [X|] eqn:HX; [|discriminate].
      destruct (Interp.interp_all S Ang ang c) as [R|] eqn:HR; [|discriminate]. inversion HC; subst.
      destruct (IH R eq_refl) as (A & B & HA & HB & Hi). exists (X :: A), B. simpl. rewrite HX, HA.
      repeat split; [exact HB | constructor; exact Hi].
    - destruct (interp x) as [X|] eqn:HX; [|discriminate].
      destruct (Interp.interp_all S Ang ang c) as [R|] eqn:HR; [|discriminate]. inversion HC; subst.
      destruct (IH R eq_refl) as (A & B & HA & HB & Hi). exists A, (X :: B). simpl. rewrite HX, HB.
      repeat split; [exact HA | constructor; exact Hi].
  Qed.

  Lemma kinterleave_interp (gs : list pgate) parts : kinterleave gs parts -> forall C,
    interp_all gs = Some C ->
    exists Ps, Forall2 (fun p P => interp_all p = Some P) parts Ps /\ kinterleave C Ps.
  Proof.
    induction 1 as [|c c1 rest parts Hi Hk IH]; intros C HC.
    - simpl in HC. inversion HC; subst. exists []. split; constructor.
    - destruct (interleave_interp c c1 rest Hi C HC) as (A & B & HA & HB & Hil).
      destruct (IH B HB) as (Ps & HF & HK). exists (A :: Ps). split; [constructor; assumption|].
      apply (kil_cons _ _ B); assumption.
  Qed.

  Lemma Forall2_in_r {X Y} (R : X -> Y -> Prop) l l' y : Forall2 R l l' -> In y l' -> exists x, In x l /\ R x y.
  Proof.
    induction 1 as [|a b l l' Hab H IH]; intro Hin; [contradiction|].
    destruct Hin as [<-|Hin]; [exists a; split; [left; reflexivity | exact Hab]|].
    destruct (IH Hin) as (x & Hx & Hr). exists x. split; [right; exact Hx | exact Hr].
  Qed.

  (* gates of different parts act on disjoint qubits *)
  Lemma split_cross allsets (gs : list pgate) s s' P Q :
    (forall g q, In g gs -> In q (gate_qubits g) -> 0 <= q) ->
    pwd allsets -> (forall g, In g gs -> covers allsets (gate_qubits g)) ->
    In s allsets -> In s' allsets -> zdisj s s' ->
    interp_all (filter (touches s) gs) = Some P -> interp_all (filter (touches s') gs) = Some Q ->
    cross S P Q.
  Proof.
    intros Hnn Hp Hcov Hs Hs' Hd HP HQ G H HG HH q Hq1 Hq2.
    destruct (interp_all_in S Ang ang _ P G HP HG) as (g & Hg & HgG).
    destruct (interp_all_in S Ang ang _ Q H HQ HH) as (h & Hh & HhH).
    apply filter_In in Hg. destruct Hg as [Hg Htg]. apply filter_In in Hh. destruct Hh as [Hh Hth].
    rewrite (interp_qubits S Ang ang g G HgG) in Hq1. rewrite (interp_qubits S Ang ang h H HhH) in Hq2.
    apply in_map_iff in Hq1. destruct Hq1 as (x & Ex & Hx).
    apply in_map_iff in Hq2. destruct Hq2 as (y & Ey & Hy).
    pose proof (Hnn g x Hg Hx). pose proof (Hnn h y Hh Hy).
    assert (x = y) by (unfold zn in *; lia). subst y.
    apply (Hd x).
    - exact (touch_subset allsets s _ Hp Hs (Hcov g Hg) Htg x Hx).
    - exact (touch_subset allsets s' _ Hp Hs' (Hcov h Hh) Hth x Hy).
  Qed.

  Lemma split_pdisj allsets (gs : list pgate) :
    (forall g q, In g gs -> In q (gate_qubits g) -> 0 <= q) ->
    pwd allsets -> (forall g, In g gs -> covers allsets (gate_qubits g)) ->
    forall sets Ps, (forall s, In s sets -> In s allsets) -> pwd sets ->
      Forall2 (fun p P => interp_all p = Some P) (map (fun s => filter (touches s) gs) sets) Ps ->
      pdisj S Ps.
  Proof.
    intros Hnn Hp Hcov sets. induction sets as [|s r IH]; intros Ps Hsub Hpw HF; simpl in HF.
    - inversion HF; subst. exact I.
    - inversion HF as [|p P l Ps' HP HF']; subst. destruct Hpw as [Hp1 Hp2]. simpl. split.
      + apply Forall_forall. intros Q HQ. destruct (Forall2_in_r _ _ _ Q HF' HQ) as (p' & Hp' & HQi).
        apply in_map_iff in Hp'. destruct Hp' as (s' & <- & Hs').
        rewrite Forall_forall in Hp1.
        apply (split_cross allsets gs s s' P Q Hnn Hp Hcov); try assumption.
        * apply Hsub. left. reflexivity.
        * apply Hsub. right. exact Hs'.
        * apply Hp1. exact Hs'.
      + apply (IH Ps'); [intros s0 Hs0; apply Hsub; right; exact Hs0 | exact Hp2 | exact HF'].
  Qed.

  (* split, semantic core: for EVERY interpretable list of gates with non-negative indices, the parts
     computed by split are an order-preserving partition of it into lists acting on pairwise disjoint
     qubits, and the list denotes the composition of the parts (in the order split returns them) *)
  Theorem split_parts_sound (gs : list pgate) C :
    (forall g q, In g gs -> In q (gate_qubits g) -> 0 <= q) -> interp_all gs = Some C ->
    exists Ps, Forall2 (fun p P => interp_all p = Some P) (split_parts gs) Ps
               /\ kinterleave C Ps /\ pdisj S Ps
               /\ forall psi, den S C psi = den S (List.concat Ps) psi.
  Proof.
    intros Hnn HC. destruct (entangled_spec gs) as (Hp & Hcov).
    assert (Hg : forall g, In g gs -> gate_qubits g <> [] /\ covers (entangled_indices Ang gs) (gate_qubits g)).
    { intros g Hin. split; [|apply Hcov; exact Hin].
      destruct (in_split _ _ Hin) as (l1 & l2 & ->).
      destruct (interp_all_split S Ang ang l1 g l2 C HC) as (_ & G & _ & _ & _ & HG & _).
      exact (interp_nonempty g G HG). }
    pose proof (split_kinterleave _ gs Hp Hg) as Hk.
    destruct (kinterleave_interp gs _ Hk C HC) as (Ps & HF & HK).
    assert (Hd : pdisj S Ps) by (apply (split_pdisj _ gs Hnn Hp Hcov (entangled_indices Ang gs) Ps); auto).
    exists Ps. split; [exact HF|]. split; [exact HK|]. split; [exact Hd|].
    intro psi. apply kinterleave_den; assumption.
  Qed.

  (* what split_c returns: circuits holding exactly the parts, each trimmed when trim_qubits=True *)
  Theorem split_c_parts (c : circ) (trim : bool) (cs : list circ) :
    split_c Ang T c trim = Ok cs ->
    Forall2 (fun c' p => if trim then exists c0, cgates c0 = p /\ trim_qubits Ang c0 = Ok c' else cgates c' = p)
            cs (split_parts (cgates c)).
  Proof.
    unfold split_c. fold (split_parts (cgates c)). generalize (split_parts (cgates c)). intros parts H.
    destruct (mapM (fun gs => build Ang T gs None) parts) as [cs0|] eqn:Hb; simpl in H; [|discriminate].
    apply mapM_Forall2 in Hb.
    destruct trim.
    - apply mapM_Forall2 in H. revert cs H. induction Hb as [|p c0 parts cs0 Hp Hb IH]; intros cs H.
      + inversion H; subst. constructor.
      + inversion H as [|x c' l cs' Ht Hr]; subst. constructor; [|apply IH; exact Hr].
        exists c0. split; [exact (build_gates Ang T _ _ _ Hp) | exact Ht].
    - inversion H; subst. clear H. induction Hb as [|p c0 parts cs0 Hp Hb IH]; constructor; [|exact IH].
      exact (build_gates Ang T _ _ _ Hp).
  Qed.

  (* split, complete: the circuits returned by split_c are interpreted as the parts Ps of
     split_parts_sound — renamed, when trim_qubits=True, by the trim map of their own gate list *)
  Theorem split_sound (c : circ) (trim : bool) (cs : list circ) C :
    (forall g q, In g (cgates c) -> In q (gate_qubits g) -> 0 <= q) ->
    split_c Ang T c trim = Ok cs -> interp_all (cgates c) = Some C ->
    exists Ps, kinterleave C Ps /\ pdisj S Ps
      /\ (forall psi, den S C psi = den S (List.concat Ps) psi)
      /\ Forall2 (fun c' pP =>
                    interp_all (cgates c')
                    = Some (if trim then rename S (relabel_f (nmap (trim_map (fst pP)))) (snd pP) else snd pP)
                    /\ (trim = true -> relabel_ok (nmap (trim_map (fst pP)))))
                 cs (combine (split_parts (cgates c)) Ps).
  Proof.
    intros Hnn Hs HC. destruct (split_parts_sound (cgates c) C Hnn HC) as (Ps & HF & HK & Hd & Hden).
    exists Ps. split; [exact HK|]. split; [exact Hd|]. split; [exact Hden|].
    pose proof (split_c_parts c trim cs Hs) as Hparts. clear Hs HK Hd Hden.
    assert (Hsub : forall p, In p (split_parts (cgates c)) -> forall g, In g p -> In g (cgates c)).
    { intros p Hp g Hg. unfold split_parts in Hp. apply in_map_iff in Hp. destruct Hp as (s & <- & _).
      apply filter_In in Hg. exact (proj1 Hg). }
    revert Hsub HF Hparts. generalize (split_parts (cgates c)). intros parts Hsub HF. revert cs.
    induction HF as [|p P parts Ps' HP HF IH]; intros cs Hparts; inversion Hparts as [|c' p' cs' l Hc' Hr]; subst; simpl.
    - constructor.
    - constructor; [|apply IH; [intros p0 Hp0; apply Hsub; right; exact Hp0 | exact Hr]]. simpl.
      assert (Hnp : nonneg_gates Ang p).
      { intros g q Hg Hq. apply (Hnn g q); [apply (Hsub p (or_introl eq_refl)); exact Hg | exact Hq]. }
      destruct trim.
      + destruct Hc' as (c0 & Hg0 & Ht). subst p.
        destruct (trim_interp S Ang ang c0 c' P Hnp Ht HP) as (Hok & Hi). split; [exact Hi | intros _; exact Hok].
      + rewrite Hc'. split; [exact HP | discriminate].
  Qed.
End SplitLinq.
