(* PauliExpCyc.v — exact validation (in Q(zeta_32)) of gate lists PRODUCED BY THE IMPLEMENTATION against the
   closed form of the controlled Pauli exponential (DESIGN §4.3): the gate list is interpreted by the
   proved interpreter (Linq/Interp, angles in units of pi/8) and run on every basis state of an n-qubit
   register; the columns are compared exactly with  ctrl cs (cos(a/2) I - i sin(a/2) P),  a = 2c. *)
From Coq Require Import String ZArith NArith List Bool.
From Tangelo Require Import Num.KStruct Num.Cyc QSem.State Pauli.Word Pauli.Action.
From Tangelo Require Import Linq.GateModel Linq.Interp Linq.LinqZ Linq.Equiv Chem.PauliExp Chem.PauliExpQ.
Import ListNotations.
Open Scope string_scope.

Definition exp_closed (n : nat) (w : list (N * pauli)) (a : Z) (cs : list N) : list (K CycS) :=
  flat_map (fun b => tab CycS n (ctrl CycS cs (exp_word CycS w a) (ket CycS (N.of_nat b)))) (seq 0 (Nat.pow 2 n)).

(* "E": the implementation's gates denote exactly the closed form; "N": they do not; "?": not interpretable *)
Definition check_exp (n : nat) (gs : list zgate) (w : list (N * pauli)) (a : Z) (cs : list N) : string :=
  match cy_interp_all gs with
  | Some c => if list_eqb (columns n c) (exp_closed n w a cs) then "E" else "N"
  | None => "?"
  end.
