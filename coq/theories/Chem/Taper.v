(* Taper.v — model of the Z2-tapering pipeline (definitions only; proofs in TaperProofs.v):
     tangelo/helpers/math.py                              bool_col_echelon
     tangelo/toolboxes/operators/multiformoperator.py     get_kernel, __mul__, collapse, do_commute
     tangelo/toolboxes/operators/z2_tapering.py           get_clifford_operators, get_unitary,
                                                          get_eigenvalues, get_z2_taper_function.do_taper
   Boolean matrices are lists of COLUMNS (the source only ever reads a row of the active columns,
   xors one column into another and swaps two columns).  Operators are lists of (dense row, factor):
   a dense row has one [p4] per qubit, coded as in the source  I=0=(0,0)  Z=1=(0,1)  X=2=(1,0)  Y=3=(1,1)
   (table ConvertPauli); the product of two rows is the bitwise xor of the codes with the phase
   table c_calc.  Both tables are regenerated from the source (gen/ReductionTables.v) and compared
   with [convert_pauli_expected] / [c_calc_expected] in props/C14.v.
   numpy exceptions (max of an empty slice -> ValueError, 2-d index into a 1-d array -> IndexError,
   cliffords[0] of an empty list -> IndexError) are values of [res]. *)
From Coq Require Import List Bool Arith ZArith NArith String.
From Tangelo Require Import Num.KStruct Pauli.Word Linq.GateModel.
Import ListNotations.
Open Scope list_scope.

(* ------------------------------------------------------------------ GF(2): bool_col_echelon *)
Definition col : Type := list bool.
Definition bmat : Type := list col.

Definition getb (c : col) (r : nat) : bool := nth r c false.
Fixpoint vxor (a b : col) : col :=
  match a, b with x :: a', y :: b' => xorb x y :: vxor a' b' | _, _ => [] end.

Fixpoint set_nth {X} (j : nat) (x : X) (l : list X) : list X :=
  match l, j with
  | [], _ => []
  | _ :: r, O => x :: r
  | y :: r, S k => y :: set_nth k x r
  end.

(* bool_array[:, j] = logical_xor(bool_array[:, j], bool_array[:, i0]) *)
Definition xor_into (i0 : nat) (M : bmat) (j : nat) : bmat :=
  match nth_error M i0, nth_error M j with
  | Some a, Some b => set_nth j (vxor b a) M
  | _, _ => M
  end.
(* bool_array[:, (i, j)] = bool_array[:, (j, i)] *)
Definition swap_cols (M : bmat) (i j : nat) : bmat :=
  match nth_error M i, nth_error M j with
  | Some a, Some b => set_nth j a (set_nth i b M)
  | _, _ => M
  end.

(* one iteration of "for row in range(active_rows, -1, -1)"; p = pivot + 1 *)
Definition row_step (row : nat) (st : bmat * nat) : res (bmat * nat) :=
  let '(M, p) := st in
  match p with
  | O => Err ValueError                               (* bool_array[row, :0].max() *)
  | S p' =>
    match filter (fun j => getb (nth j M []) row) (seq 0 p) with
    | [] => Ok (M, p)
    | i0 :: rest => Ok (swap_cols (fold_left (xor_into i0) rest M) i0 p', p')
    end
  end.

(* nrows is passed explicitly (a matrix with no column has no column to measure) *)
Definition echelon (nrows : nat) (M : bmat) : res bmat :=
  do st <- fold_left (fun acc row => do s <- acc; row_step row s)
                     (rev (seq 0 (nrows - List.length M))) (Ok (M, List.length M));
  Ok (fst st).

(* ------------------------------------------------------------------ get_kernel *)
Definition unit_vec (k j : nat) : col := map (fun i => Nat.eqb i j) (seq 0 k).
Definition swap_halves (n : nat) (v : col) : col := skipn n v ++ firstn n v.

(* rows: the binary matrix (x | z) of the operator, one row per term, each of List.length 2n *)
Definition extended (n : nat) (rows : list col) : bmat :=
  map (fun j => map (fun r => nth j r false) rows ++ unit_vec (2 * n) j) (seq 0 (2 * n)).

Definition get_kernel (n : nat) (rows : list col) : res (list col) :=
  let m := List.length rows in
  do E <- echelon (m + 2 * n) (extended n rows);
  match n, m with
  | O, _ => Err IndexError                            (* np.array([])[:, n:] *)
  | _, O => Err ValueError                            (* E_prime[:0, i].max() *)
  | _, _ =>
    match flat_map (fun i => let c := nth i E [] in
                             if existsb (fun b => b) (firstn m c) then [] else [skipn m c]) (seq 0 n) with
    | [] => Err IndexError
    | ker => Ok (map (swap_halves n) ker)
    end
  end.

(* the stabilizer product used by do_commute: xor-reduce(swap(a) & b) ; true = anticommute *)
Fixpoint dotb (a b : col) : bool :=
  match a, b with x :: a', y :: b' => xorb (x && y) (dotb a' b') | _, _ => false end.
Definition anticommute_bin (n : nat) (a b : col) : bool := dotb (swap_halves n a) b.

(* ------------------------------------------------------------------ dense Pauli rows *)
Inductive p4 : Type := P4I | P4Z | P4X | P4Y.
Definition p4_code (p : p4) : nat := match p with P4I => 0 | P4Z => 1 | P4X => 2 | P4Y => 3 end.
Definition p4_x (p : p4) : bool := match p with P4X | P4Y => true | _ => false end.
Definition p4_z (p : p4) : bool := match p with P4Z | P4Y => true | _ => false end.
Definition p4_of_bits (x z : bool) : p4 :=
  match x, z with false, false => P4I | false, true => P4Z | true, false => P4X | true, true => P4Y end.
Definition p4_xor (a b : p4) : p4 := p4_of_bits (xorb (p4_x a) (p4_x b)) (xorb (p4_z a) (p4_z b)).
Definition p4_eqb (a b : p4) : bool := Nat.eqb (p4_code a) (p4_code b).

Definition convert_pauli_expected : list (string * nat * (bool * bool)) :=
  [("I"%string, 0, (false, false)); ("Z"%string, 1, (false, true));
   ("X"%string, 2, (true, false)); ("Y"%string, 3, (true, true))].
(* c_calc[a][b] as exponents of i:  1 -> 0, 1j -> 1, -1 -> 2, -1j -> 3 *)
Definition c_calc_expected : list (list Z) :=
  [[0; 0; 0; 0]; [0; 0; 1; 3]; [0; 3; 0; 1]; [0; 1; 3; 0]]%Z.

Definition row : Type := list p4.
Fixpoint row_xor (a b : row) : row :=
  match a, b with x :: a', y :: b' => p4_xor x y :: row_xor a' b' | _, _ => [] end.
Definition row_x (r : row) : col := map p4_x r.
Definition row_z (r : row) : col := map p4_z r.
Definition row_bin (r : row) : col := row_x r ++ row_z r.
Definition row_of_bin (n : nat) (v : col) : row :=
  map (fun j => p4_of_bits (nth j v false) (nth (n + j) v false)) (seq 0 n).
Fixpoint row_eqb (a b : row) : bool :=
  match a, b with
  | [], [] => true
  | x :: a', y :: b' => p4_eqb x y && row_eqb a' b'
  | _, _ => false
  end.
Fixpoint row_ltb (a b : row) : bool :=                 (* lexicographic on the integer codes *)
  match a, b with
  | x :: a', y :: b' => if Nat.ltb (p4_code x) (p4_code y) then true
                        else if Nat.ltb (p4_code y) (p4_code x) then false else row_ltb a' b'
  | [], _ :: _ => true
  | _, _ => false
  end.
Definition row_commute (a b : row) : bool :=           (* one term against one term, as do_commute *)
  negb (dotb (row_z a ++ row_x a) (row_bin b)).

Fixpoint remove_nth {X} (k : nat) (l : list X) : list X :=
  match l, k with
  | [], _ => []
  | _ :: r, O => r
  | x :: r, S k' => x :: remove_nth k' r
  end.

Section Mf.
  Variable S : KS.
  Variable kzero : K S -> bool.                        (* abs(factor) > 0 is false *)
  Variable ctab : list (list Z).                       (* c_calc *)
  Open Scope K_scope.

  Definition mfop : Type := list (row * K S).

  Definition cphase (a b : p4) : Z := nth (p4_code b) (nth (p4_code a) ctab []) 0%Z.
  Fixpoint row_phase (a b : row) : Z :=
    match a, b with x :: a', y :: b' => (cphase x y + row_phase a' b')%Z | _, _ => 0%Z end.

  (* MultiformOperator.__mul__ before collapse *)
  Definition mf_mul_raw (a b : mfop) : mfop :=
    flat_map (fun s => map (fun t => (row_xor (fst s) (fst t),
                                      snd s * (snd t * ipow S (row_phase (fst s) (fst t))))) b) a.

  (* MultiformOperator.collapse: rows sorted, duplicates summed, exact zeros removed *)
  Fixpoint mf_insert (t : row * K S) (a : mfop) : mfop :=
    match a with
    | [] => [t]
    | u :: r => if row_eqb (fst t) (fst u) then (fst u, snd u + snd t) :: r
                else if row_ltb (fst t) (fst u) then t :: a
                else u :: mf_insert t r
    end.
  Definition mf_collapse (a : mfop) : mfop :=
    filter (fun t => negb (kzero (snd t))) (fold_left (fun acc t => mf_insert t acc) a []).
  Definition mf_mul (a b : mfop) : mfop := mf_collapse (mf_mul_raw a b).

  (* ---------------------------------------------------------------- get_clifford_operators *)
  (* the loop "for pauli_i in range(3)": first Pauli (order Z, X, Y) such that every other symmetry
     has I or that Pauli on the column and this symmetry has a different non-identity Pauli *)
  Definition find_pauli (tau_i : p4) (tau_j : list p4) : option p4 :=
    let ok p := forallb (fun o => p4_eqb o P4I || p4_eqb o p) tau_j
                && negb (p4_eqb tau_i P4I) && negb (p4_eqb tau_i p) in
    if ok P4Z then Some P4Z else if ok P4X then Some P4X else if ok P4Y then Some P4Y else None.

  Fixpoint first_col (ki : row) (rest : list row) (cols : list nat) : option (nat * p4) :=
    match cols with
    | [] => None
    | c :: cs => match find_pauli (nth c ki P4I) (map (fun rj => nth c rj P4I) rest) with
                 | Some p => Some (c, p)
                 | None => first_col ki rest cs
                 end
    end.

  Definition single_row (n c : nat) (p : p4) : row := map (fun j => if Nat.eqb j c then p else P4I) (seq 0 n).

  (* returns, per kernel row that found a column: (column, sigma row, tau row) *)
  Definition get_cliffords (n : nat) (kernel : list row) : list (nat * row * row) :=
    flat_map (fun i => match nth_error kernel i with
                       | None => []
                       | Some ki => match first_col ki (remove_nth i kernel) (seq 0 n) with
                                    | Some (c, p) => [(c, single_row n c p, ki)]
                                    | None => []
                                    end
                       end) (seq 0 (List.length kernel)).

  Definition clifford_op (c : nat * row * row) : mfop := [(snd (fst c), krs2); (snd c, krs2)].

  (* reduce(operator.mul, cliffords[1:], cliffords[0]) *)
  Definition get_unitary (cl : list (nat * row * row)) : res mfop :=
    match cl with
    | [] => Err IndexError
    | c0 :: r => Ok (fold_left (fun acc c => mf_mul acc (clifford_op c)) r (clifford_op c0))
    end.

  (* get_eigenvalues: prod over the Z-part of the symmetry of (1 - 2 psi_j); true = -1 *)
  Definition eigen_sign (psi : col) (sym : row) : bool := dotb (row_z sym) psi.

  (* ---------------------------------------------------------------- do_taper *)
  Definition commutes_all (kernel : list row) (t : row) : bool := forallb (row_commute t) kernel.

  Definition substitute (q_indices : list nat) (signs : list bool) (t : row * K S) : row * K S :=
    let f := fold_left (fun c qs => if negb (p4_eqb (nth (fst qs) (fst t) P4I) P4I) && snd qs then - c else c)
                       (combine q_indices signs) (snd t) in
    (map snd (filter (fun jp => negb (existsb (Nat.eqb (fst jp)) q_indices))
                     (combine (seq 0 (List.length (fst t))) (fst t))), f).

  (* cull = false: the source as it is (np.where(commutes is False) selects nothing);
     cull = true : the documented behaviour (terms not commuting with the symmetries are removed) *)
  Definition do_taper (cull : bool) (unitary : mfop) (kernel : list row) (q_indices : list nat)
             (signs : list bool) (a : mfop) : mfop :=
    let a1 := if cull then filter (fun t => commutes_all kernel (fst t)) a else a in
    match a1 with
    | [] => []
    | _ => map (substitute q_indices signs) (mf_mul unitary (mf_mul a1 unitary))
    end.

  (* QubitTapering._compute_z2_symmetries + z2_taper(initial_op) *)
  Definition taper_pipeline (cull : bool) (n : nat) (a : mfop) (psi : col)
    : res (list row * list nat * list bool * mfop * mfop) :=
    do kerb <- get_kernel n (map (fun t => row_bin (fst t)) a);
    let kernel := map (row_of_bin n) kerb in
    let cl := get_cliffords n kernel in
    do u <- get_unitary cl;
    let q_indices := map (fun c => fst (fst c)) cl in
    let signs := map (eigen_sign psi) kernel in
    Ok (kernel, q_indices, signs, u, do_taper cull u kernel q_indices signs a).
End Mf.
