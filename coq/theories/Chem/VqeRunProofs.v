(* VqeRunProofs.v — facts about the concrete witnesses of Chem/VqeRun.v, by evaluation in the exact
   instance CycS (vm_compute); used by the `_refuted` theorems of props/C08.v. *)
From Coq Require Import String ZArith NArith QArith Qcanon List Bool Lia.
From Tangelo Require Import Num.KStruct Num.Cyc QSem.State QSem.CircuitLemmas QSem.Measure QSem.Unitary QSem.Expect
     Pauli.Word Pauli.Action Linq.GateModel Linq.Interp Linq.LinqZ Linq.ExpPaths Chem.Vqe Chem.VqeRun.
Import ListNotations.

Lemma cy_neq (a b : Cy) : ceqb L4 a b = false -> a <> b.
Proof. intros H E. apply (ceqb_eq L4) in E. rewrite E in H. discriminate. Qed.

Lemma nocontrol_gate_in (n : nat) (u : g1 CycS) (q : N) : (q < N.of_nat n)%N -> gate_in CycS n (Gate (B1 u q) []).
Proof.
  intro H. split.
  - intros x _ Hc. exact Hc.
  - intros x Hx. simpl in Hx. destruct Hx as [<-|[]]. exact H.
Qed.

Lemma cy_eq (a b : Cy) : ceqb L4 a b = true -> a = b.
Proof. apply (ceqb_eq L4). Qed.

(* deflation: the ansatz circuit has width 1, the deflation circuit (same gate, same state) is declared on
   2 qubits; overlap probability 1, coefficient 2; as written the term is dropped *)
Theorem wit_width_facts :
  v_defl wit_width_v = [wit_width_d]
  /\ circ_in CycS 2 (pc_gates (composed CycS wit_width_v))
  /\ pc_width (v_ansatz wit_width_v) <> pc_width (padd CycS wit_width_d (pinv CycS (composed CycS wit_width_v)))
  /\ overlap_prob CycS 2 (pc_gates (composed CycS wit_width_v)) (pc_gates wit_width_d) = @k1 CycS
  /\ energy CycS (sv_route CycS) true 2 wit_width_v = expect_op CycS 2 (v_ham wit_width_v) (prepared CycS wit_width_v)
  /\ energy CycS (sv_route CycS) true 2 wit_width_v
     <> @kadd CycS (expect_op CycS 2 (v_ham wit_width_v) (prepared CycS wit_width_v)) (defl_spec CycS 2 wit_width_v)
  /\ energy CycS (sv_route CycS) false 2 wit_width_v
     = @kadd CycS (expect_op CycS 2 (v_ham wit_width_v) (prepared CycS wit_width_v)) (defl_spec CycS 2 wit_width_v).
Proof.
  split; [reflexivity|].
  split; [repeat constructor; [intros x _ Hc; exact Hc|intros x Hx; simpl in Hx; destruct Hx as [<-|[]]; reflexivity]|].
  split; [vm_compute; discriminate|].
  split; [apply cy_eq; vm_compute; reflexivity|].
  split; [apply cy_eq; vm_compute; reflexivity|].
  split; [apply cy_neq; vm_compute; reflexivity|apply cy_eq; vm_compute; reflexivity].
Qed.

(* reference override: energy_estimation evaluates X|0>, operator_expectation (default argument, the
   solver's reference circuit not used) evaluates |0> *)
Theorem wit_ref_facts :
  v_ref_used wit_ref_v = true
  /\ expect_op CycS 1 (v_ham wit_ref_v) (prepared CycS wit_ref_v) = @kopp CycS (@k1 CycS)
  /\ expect_op CycS 1 (v_ham wit_ref_v) (opexp_prepared CycS false wit_ref_v None) = @k1 CycS
  /\ expect_op CycS 1 (v_ham wit_ref_v) (opexp_prepared CycS true wit_ref_v None) = @kopp CycS (@k1 CycS).
Proof.
  split; [reflexivity|]. repeat split; apply cy_eq; vm_compute; reflexivity.
Qed.
