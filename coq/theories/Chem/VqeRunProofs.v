(* VqeRunProofs.v — facts about the concrete witnesses of Chem/VqeRun.v, by evaluation in the exact
   instance CycS (vm_compute); used by the `_refuted` theorems of props/C08.v. *)
From Coq Require Import String ZArith NArith QArith Qcanon List Bool Lia.
From Tangelo Require Import Num.KStruct Num.Cyc QSem.State QSem.CircuitLemmas QSem.Measure QSem.Unitary QSem.Expect
     Pauli.Word Pauli.Action Linq.GateModel Linq.Interp Linq.LinqZ Linq.ExpPaths Chem.Vqe Chem.VqeRun.
Import ListNotations.

Lemma cy_neq (a b : Cy) : ceqb L4 a b = false -> a <> b.
Proof. intros H E. apply (ceqb_eq L4) in E. rewrite E in H. discriminate. Qed.

Lemma nocontrol_gate_in (n : nat) (u : g1 CycS) (q : N) : (q < N.of_nat n)%N -> gate_in CycS n (Gate (B1 u q) []).
Proof.
  intro H. split.
  - intros x _ Hc. exact Hc.
  - intros x Hx. simpl in Hx. destruct Hx as [<-|[]]. exact H.
Qed.

(* deflation: the ansatz circuit has width 1, the deflation circuit (same gate, same state) is declared on
   2 qubits; overlap probability 1, coefficient 2; as written the term is dropped *)
Theorem wit_width_facts :
  exists v d, wit_width = Some v /\ v_defl v = [d]
    /\ circ_in CycS 2 (pc_gates (composed CycS v))
    /\ pc_width (v_ansatz v) <> pc_width (padd CycS d (pinv CycS (composed CycS v)))
    /\ overlap_prob CycS 2 (pc_gates (composed CycS v)) (pc_gates d) = @k1 CycS
    /\ energy CycS (sv_route CycS) true 2 v = expect_op CycS 2 (v_ham v) (prepared CycS v)
    /\ energy CycS (sv_route CycS) true 2 v
       <> @kadd CycS (expect_op CycS 2 (v_ham v) (prepared CycS v)) (defl_spec CycS 2 v)
    /\ energy CycS (sv_route CycS) false 2 v
       = @kadd CycS (expect_op CycS 2 (v_ham v) (prepared CycS v)) (defl_spec CycS 2 v).
Proof.
  eexists. eexists. split; [vm_compute; reflexivity|]. split; [reflexivity|].
  split; [repeat constructor; simpl; try lia; intros x Hx; simpl in Hx; try contradiction; destruct Hx as [<-|[]]; reflexivity|].
  split; [vm_compute; discriminate|].
  split; [vm_compute; reflexivity|].
  split; [vm_compute; reflexivity|].
  split; [apply cy_neq; vm_compute; reflexivity|vm_compute; reflexivity].
Qed.

(* reference override: energy_estimation evaluates X|0>, operator_expectation (default argument, the
   solver's reference circuit not used) evaluates |0> *)
Theorem wit_ref_facts :
  exists v, wit_ref = Some v /\ v_ref_used v = true
    /\ expect_op CycS 1 (v_ham v) (prepared CycS v) = @kopp CycS (@k1 CycS)
    /\ expect_op CycS 1 (v_ham v) (opexp_prepared CycS false v None) = @k1 CycS
    /\ expect_op CycS 1 (v_ham v) (opexp_prepared CycS true v None) = @kopp CycS (@k1 CycS).
Proof.
  eexists. split; [vm_compute; reflexivity|]. split; [reflexivity|].
  repeat split; vm_compute; reflexivity.
Qed.
