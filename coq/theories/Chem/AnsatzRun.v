(* AnsatzRun.v — executable instance of Chem/Ansatz.v and printers for the C07 correspondence.
   Pauli words are (id, len) pairs; coefficients and gate parameters are integer ids chosen by the
   harness (the float behind an id never enters the model: only positions do). *)
From Coq Require Import String List Arith Bool ZArith.
From Tangelo Require Import Num.Show Linq.GateModel Chem.Ansatz.
Import ListNotations.
Open Scope string_scope.

Definition zop := op exc Z.
Definition wlen2 (w : exc) : nat := snd w.
Definition idz (z : Z) : Z := z.

Definition show_err (e : err) : string :=
  match e with ValueError => "ValueError" | TypeError => "TypeError" | AttributeError => "AttributeError"
          | IndexError => "IndexError" | KeyError => "KeyError" end.
Definition show_w (w : exc) : string := show_nat (fst w).
Definition show_tab (t : table exc) : string :=
  join "," (map (fun wi : exc * nat => show_w (fst wi) ++ ":" ++ show_nat (snd wi)) t).
Definition show_ws (l : list exc) : string := join "," (map show_w l).
Definition show_zs (l : list Z) : string := join "," (map show_Z l).
Definition show_res {X} (f : X -> string) (r : res X) : string :=
  match r with Ok x => f x | Err e => "Err:" ++ show_err e end.

(* ---- one table: UCCSD (and QCC in both variants) ---- *)
Definition show_tstate (s : tstate exc Z) : string :=
  "tab=" ++ show_tab (tab exc Z s) ++ "|words=" ++ show_ws (twords exc Z s) ++ "|vg=" ++ show_zs (tvg exc Z s).
(* trace of rebuild decisions: R = rebuilt, W = written through *)
Fixpoint trace_t (upd : tstate exc Z -> zop -> res (tstate exc Z)) (s : tstate exc Z) (l : list zop) : string * res (tstate exc Z) :=
  match l with
  | [] => ("", Ok s)
  | o :: r =>
      let d := if keys_differ exc exc_eqb (map fst (tab exc Z s)) (keys exc Z o) then "R" else "W" in
      match upd s o with
      | Err e => (d, Err e)
      | Ok s' => let (t, f) := trace_t upd s' r in (d ++ t, f)
      end
  end.
Definition run_uccsd (o0 : zop) (l : list zop) : string :=
  let (t, f) := trace_t (tupdate exc Z Z exc_eqb wlen2 idz) (tbuild exc Z Z wlen2 idz o0) l in
  t ++ "|" ++ show_res show_tstate f.
Definition run_qcc_asis (o0 : zop) (l : list zop) : string :=
  let (t, f) := trace_t (qcc_update_asis exc Z Z exc_eqb wlen2 idz) (qcc_build_asis exc Z Z exc_eqb wlen2 idz [] o0) l in
  t ++ "|" ++ show_res show_tstate f.

(* ---- layers: UpCCGSD ---- *)
Definition show_lstate (s : lstate exc Z) : string :=
  "tabs=" ++ join ";" (map show_tab (ltabs exc Z s)) ++ "|words=" ++ show_ws (lwords exc Z s)
  ++ "|vg=" ++ show_zs (lvg exc Z s).
Definition run_upccgsd (asis : bool) (os0 : list zop) (l : list (list zop)) : string :=
  let mk := if asis then ltabs_asis exc Z else ltabs_fixed exc Z in
  show_res show_lstate (run_hist (lupdate exc Z Z exc_eqb wlen2 idz mk) (lbuild exc Z Z wlen2 idz mk os0) l).

(* ---- UCCGD ---- *)
Definition show_gstate (s : gstate exc Z) : string :=
  "order=" ++ show_ws (gorder exc Z s) ++ "|vg=" ++ show_zs (gvg exc Z s).
Definition run_uccgd (o0 : zop) (l : list zop) : string :=
  show_res show_gstate (run_hist (gupdate exc Z Z exc_eqb idz) (gbuild exc Z Z idz o0) l).

(* ---- pUCCD: table and the result of an update on placeholder gates ---- *)
Definition show_exc (e : exc) : string := show_nat (fst e) ++ "-" ++ show_nat (snd e).
Definition run_puccd (nocc nvirt : nat) (th : list Z) : string :=
  "exc=" ++ join "," (map show_exc (puccd_excitations nocc nvirt))
  ++ "|tab=" ++ join "," (map (fun wi : exc * nat => show_exc (fst wi) ++ ":" ++ show_nat (snd wi)) (puccd_table nocc nvirt))
  ++ "|vg=" ++ show_res show_zs (puccd_update Z nocc nvirt (repeat 0%Z (nocc * nvirt)) th).

(* ---- ADAPT: signs are +1/-1, parameters are ids; a gate parameter is sign*id (ids > 0), init = 0 ---- *)
Definition zaop := aop Z Z.
Definition run_adapt (h : list zaop) : string :=
  match run_hist (adapt_step Z Z Z Z.mul 0%Z) (adapt_fresh Z Z 0%Z []) h with
  | Err e => "Err:" ++ show_err e
  | Ok s => "nterms=" ++ join "," (map show_nat (nterms Z Z s)) ++ "|prefs=" ++ show_zs (prefs Z Z s)
            ++ "|vg=" ++ show_zs (avg Z Z s)
  end.
Definition run_adapt_fresh (ops : list (list Z)) (th : list Z) : string :=
  match adapt_build Z Z Z Z.mul 0%Z ops th with
  | Err e => "Err:" ++ show_err e
  | Ok s => "nterms=" ++ join "," (map show_nat (nterms Z Z s)) ++ "|prefs=" ++ show_zs (prefs Z Z s)
            ++ "|vg=" ++ show_zs (avg Z Z s)
  end.

(* ---- VSQS: a slot is (parameter index, coefficient id); `dropped` lists the slots whose
        |coeff*time| is below the cut of get_exponentiated_qubit_operator_circuit at build time ---- *)
Definition slot := (nat * Z)%type.
Definition show_slot (s : slot) : string := show_nat (fst s) ++ "*" ++ show_Z (snd s).
Definition gu_slot (t : nat) (c : Z) : slot := (t, c).
(* a slot filled at build time is marked by t + 1000 (its value comes from theta_0 through the 2c / 4pi+2c rule);
   the variational gates of a user-supplied reference circuit are the slots (2000 + i, 0) *)
Definition gb_slot (dropped : list slot) (t : nat) (c : Z) : option slot :=
  if existsb (fun s : slot => Nat.eqb (fst s) t && Z.eqb (snd s) c) dropped then None else Some (1000 + t, c).
Definition ref_slots (nref : nat) : list slot := map (fun i => (2000 + i, 0%Z)) (seq 0 nref).
(* circuit = reference_state + vsqs_circuit.  offset_fixed = false: update_var_params as first written (no size
   test, indexes circuit._variational_gates from 0); true: as repaired (size test, Python-int offset
   n_ref = len(variational gates) - n_var_gates*(intervals-1), negative indices wrap) *)
Definition run_vsqs (c : vsqs_cfg Z) (dropped : list slot) (nref : nat) (offset_fixed : bool) (nth0 : nat) (nth1 : nat) : string :=
  let v0 := vsqs_build nat Z slot (gb_slot dropped) c (seq 0 nth0) 0 in
  let pre := ref_slots nref in
  let r := if offset_fixed
           then vsqs_update_fixed nat Z slot gu_slot c (pre ++ v0)%list (seq 0 nth1)
           else vsqs_update nat Z slot gu_slot c (pre ++ v0)%list (seq 0 nth1) in
  "built=" ++ show_nat (length (pre ++ v0)%list) ++ "|n_var_gates=" ++ show_nat (n_var_gates Z c)
  ++ "|n_var_params=" ++ show_nat (vsqs_n_var_params Z c)
  ++ "|upd=" ++ show_res (fun v => join "," (map show_slot v)) r.

(* ---- positional ---- *)
Definition run_pos (n : nat) (v : list Z) (l : list (list Z)) : string :=
  show_res show_zs (run_hist (pos_update Z n) v l).

(* ---- counts ---- *)
Definition run_counts (nocc nvirt na nb oa ob n k nq per layers : nat) : string :=
  join "," (map show_nat [uccsd_singlet_params nocc nvirt; uccsd_singlet_closed nocc nvirt;
                          uccsd_open_params na nb oa ob; uccsd_open_closed na nb oa ob;
                          k * upccgsd_layer_terms n; upccgsd_closed n k;
                          uccgd_params n; uccgd_closed n;
                          hea_params nq per layers; length (puccd_excitations nocc nvirt)]).
