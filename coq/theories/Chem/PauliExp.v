(* PauliExp.v — model of tangelo/toolboxes/ansatz_generator/ansatz_utils.py:
     pauli_op_to_gate, exp_pauliword_to_gates                                   (definitions only)
   Two layers.
   (1) The Python-level model: a total function  word x coefficient x variational x control ->
       res (list pgate)  producing Tangelo gates by NAME (Linq/GateModel.pgate), driven by the tables
       that translator/pauliexp_tables.py regenerates from the source on every run (record [ptables]:
       the set of operators that get a basis change, the basis-change gate per operator, the three
       integers of the angle rule `2.*coef if coef >= 0. else 4*np.pi+2*coef`, the gate lists used
       for identity terms and their hard-coded target).  Coefficients, times and gate parameters
       live in one number type Ang with the operations of [cops]; instances: R (theorems),
       Qc in units of pi/16 (structural correspondence).
       Python exceptions: Gate(...) raises ValueError when target and control indices are not
       pairwise distinct (mk); indices[-1] of an empty word raises IndexError.
   (2) The reference circuit in QSem (qexp): the same gate sequence as QSem gates; PauliExpProofs.v
       proves that (1) interprets (Linq/Interp) to (2) and that (2) denotes exp(-i c P), controlled. *)
From Coq Require Import String ZArith NArith List Bool.
From Tangelo Require Import Num.KStruct QSem.State Pauli.Word Pauli.Action Linq.GateModel Linq.Interp.
Import ListNotations.
Open Scope string_scope.

(* ---- numbers used for coefficients / times / parameters ---- *)
Record cops (Ang : Type) : Type := COps {
  o_zero : Ang; o_one : Ang;
  o_add : Ang -> Ang -> Ang; o_mul : Ang -> Ang -> Ang; o_opp : Ang -> Ang;
  o_half : Ang -> Ang;             (* x / 2 *)
  o_divn : nat -> Ang -> Ang;      (* x / n *)
  o_nat : nat -> Ang;              (* the integer n as a number *)
  o_u : nat -> Ang;                (* Suzuki factor of order k: 1 / (4 - 4 ** (1 / (k - 1))) *)
  o_v : nat -> Ang;                (* 1 - 4 * (o_u k) *)
  o_units : Z -> Ang;              (* k * pi / 8 *)
  o_nonneg : Ang -> bool;          (* x >= 0. *)
  o_small : Ang -> bool            (* not (abs(x) > threshold) *)
}.
Arguments o_zero {_}. Arguments o_one {_}. Arguments o_add {_}. Arguments o_mul {_}. Arguments o_opp {_}.
Arguments o_half {_}. Arguments o_divn {_}. Arguments o_nat {_}. Arguments o_u {_}. Arguments o_v {_}.
Arguments o_units {_}. Arguments o_nonneg {_}. Arguments o_small {_}.

(* ---- tables regenerated from ansatz_utils.py ---- *)
Record ptables : Type := PTables {
  basis_ops : list string;                                  (* `if op in {"X", "Y"}` (both loops) *)
  basis_tab : list (string * (string * option Z * bool));   (* op -> (gate name, parameter in pi/8 units,
                                                               inverse=True returns gate.inverse()) *)
  ang_mult_pos : nat;          (* angle = ang_mult_pos * coef                        if coef >= 0. *)
  ang_pi_neg : nat;            (*       = ang_pi_neg * pi + ang_mult_neg * coef      otherwise     *)
  ang_mult_neg : nat;
  id_single : list (string * Z);   (* identity term, one control: gates (name, multiplier of coef) on the control *)
  id_multi : list (string * Z);    (* identity term, several controls: gates (name, multiplier of coef) *)
  id_target : option N;            (* ... their target: None = the LAST control, controlled by the other controls (current source);
                                      Some t = a hard-coded target controlled by all controls (source before fix ae252bf) *)
  threshold_exp10 : Z              (* abs(coef) > 1.e<threshold_exp10> *)
}.

(* Python's sorted() on qubit indices *)
Fixpoint ninsert (q : N) (l : list N) : list N :=
  match l with
  | [] => [q]
  | r :: t => if N.leb q r then q :: l else r :: ninsert q t
  end.
Definition nsort (l : list N) : list N := fold_right ninsert [] l.

Definition pstr (p : pauli) : string := match p with PX => "X" | PY => "Y" | PZ => "Z" end.

Fixpoint slookup {X} (s : string) (l : list (string * X)) : option X :=
  match l with
  | [] => None
  | (k, v) :: r => if String.eqb s k then Some v else slookup s r
  end.

Definition zq (q : N) : Z := Z.of_N q.

Section Model.
  Variable Ang : Type.
  Variable Ops : cops Ang.
  Variable T : ptables.
  Notation pgate := (pgate Ang).

  Fixpoint nmul (n : nat) (c : Ang) : Ang :=
    match n with 0%nat => o_zero Ops | S k => o_add Ops c (nmul k c) end.
  Definition zmul (m : Z) (c : Ang) : Ang :=
    match m with
    | Z0 => o_zero Ops
    | Zpos p => nmul (Pos.to_nat p) c
    | Zneg p => o_opp Ops (nmul (Pos.to_nat p) c)
    end.

  (* Gate(name, target=t, control=cs, parameter=p, is_variational=v): the constructor refuses
     indices that are not pairwise distinct *)
  Definition mk (name : string) (t : N) (cs : option (list N)) (p : param Ang) (v : bool) : res pgate :=
    let c := option_map (map zq) cs in
    if znodup (zq t :: match c with None => [] | Some l => l end)
    then Ok (PGate name [zq t] c p v) else Err ValueError.

  (* pauli_op_to_gate(index, op, inverse) *)
  Definition basis_gate (q : N) (p : pauli) (inverse : bool) : res pgate :=
    match slookup (pstr p) (basis_tab T) with
    | None => Err TypeError                     (* returns None, which is not a Gate *)
    | Some (name, u, inv) =>
      mk name q None
         (match u with
          | None => PNone
          | Some k => PNum (if inverse && inv then o_opp Ops (o_units Ops k) else o_units Ops k)
          end) false
    end.

  Definition needs_basis (qp : N * pauli) : bool := smem (pstr (snd qp)) (basis_ops T).

  Definition basis_gates (w : list (N * pauli)) (inverse : bool) : res (list pgate) :=
    mapM (fun qp => basis_gate (fst qp) (snd qp) inverse) (filter needs_basis w).

  (* [Gate("CNOT", target=pair[1], control=pair[0]) for pair in zip(indices[:-1], indices[1:])] *)
  Fixpoint ladder (qs : list N) : res (list pgate) :=
    match qs with
    | a :: ((b :: _) as r) =>
      do g <- mk "CNOT" b (Some [a]) PNone false; do gs <- ladder r; Ok (g :: gs)
    | _ => Ok []
    end.

  (* angle = 2.*coef if coef >= 0. else 4*np.pi+2*coef   (integers regenerated) *)
  Definition angle_rule (c : Ang) : Ang :=
    if o_nonneg Ops c then nmul (ang_mult_pos T) c
    else o_add Ops (nmul (ang_pi_neg T) (o_units Ops 8)) (nmul (ang_mult_neg T) c).

  Definition exp_pauliword_to_gates (w : list (N * pauli)) (c : Ang) (variational : bool)
             (control : option (list N)) : res (list pgate) :=
    do pre <- basis_gates w false;
    let idx := nsort (map fst w) in
    do lad <- ladder idx;
    match rev idx with
    | [] => Err IndexError
    | t :: _ =>
      do rz <- (match control with
                | None => mk "RZ" t None (PNum (angle_rule c)) variational
                | Some cs => mk "CRZ" t (Some cs) (PNum (angle_rule c)) variational
                end);
      do post <- basis_gates (rev w) true;
      Ok (pre ++ lad ++ [rz] ++ rev lad ++ post)%list
    end.
End Model.

(* ---- the reference circuit in QSem ---- *)
Section QCirc.
  Variable S : KS.

  Definition cnot (a b : N) : gate S := Gate (B1 GX b) [a].
  Fixpoint qladder (qs : list N) : circuit S :=
    match qs with
    | a :: ((b :: _) as r) => cnot a b :: qladder r
    | _ => []
    end.
  Definition qbasis (b : pauli -> option (g1 S)) (w : list (N * pauli)) : circuit S :=
    flat_map (fun qp => match b (snd qp) with Some g => [Gate (B1 g (fst qp)) []] | None => [] end) w.
  Definition qmid (qs : list N) (a : A S) (cs : list N) : circuit S :=
    (qladder qs ++ [Gate (B1 (GRZ a) (last qs 0%N)) cs] ++ rev (qladder qs))%list.
  Definition qexp (bin bout : pauli -> option (g1 S)) (w : list (N * pauli)) (a : A S) (cs : list N) : circuit S :=
    (qbasis bin w ++ qmid (nsort (map fst w)) a cs ++ qbasis bout (rev w))%list.

  (* the index map a CNOT denotes, the maps of the two ladders, parity *)
  Definition cnot_map (a b x : N) : N := if bit x a then flip x b else x.
  Fixpoint lad_pairs (qs : list N) : list (N * N) :=
    match qs with
    | a :: ((b :: _) as r) => (a, b) :: lad_pairs r
    | _ => []
    end.
  Definition lad_fwd (qs : list N) (x : N) : N :=
    fold_left (fun y p => cnot_map (fst p) (snd p) y) (lad_pairs qs) x.
  Definition lad_bwd (qs : list N) (x : N) : N :=
    fold_right (fun p y => cnot_map (fst p) (snd p) y) x (lad_pairs qs).
  Definition parity (x : N) (qs : list N) : bool := fold_right (fun q acc => xorb (bit x q) acc) false qs.

  (* product of one-qubit matrices along a word *)
  Definition apps (f : pauli -> mat2 S) (w : list (N * pauli)) (psi : state S) : state S :=
    fold_left (fun s qp => app1 S (f (snd qp)) (fst qp) s) w psi.

  (* exp(-i c P) with a = 2c the RZ angle: cos(a/2) I - i sin(a/2) P *)
  Open Scope K_scope.
  Definition exp_word (w : list (N * pauli)) (a : A S) (psi : state S) : state S :=
    fun x => cosh_ S a * psi x + misinh S a * word_den S w psi x.
End QCirc.
