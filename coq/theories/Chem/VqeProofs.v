(* VqeProofs.v — theorems about the model of VQESolver (Chem/Vqe.v), generic over the number structure.

   A. adjoints: for every gate of the reference semantics (any angle, any number of controls, any
      placement inside an n-qubit register)  <g a, b> = <a, g^-1 b>; hence for every circuit
      <U a, b> = <a, U^-1 b> (den_adjoint), and the amplitude of |0...0> after  V ; U^-1  is <U0|V0>
      (deflation_amplitude) — for EVERY V, only U has to lie inside the register.
   B. energy_estimation: the prepared state is normalised; value = <psi|H|psi> + sum coeff * |<psi|psi_d>|^2
      when the lookup key has the width of the simulated circuit (or for the repaired lookup); when the
      widths differ the code as written adds nothing (defl_term_width_mismatch).
   C. operator_expectation state machine: restored whenever the call returns; restored always with a
      finally clause; left replaced after an exception without one.
   D. Rayleigh quotient from a finite eigen-expansion:  <psi|H|psi> = sum |c_k|^2 lambda_k  and
      <psi|psi> = sum |c_k|^2  (orthonormal eigenvectors, any linear map).  The inequality itself needs an
      order: it is stated over the real numbers in VqeReal.v.
   E. symmetry operators: facts about the regenerated table imply "reordered exactly as often as the
      solver's own up_then_down flag says". *)
From Coq Require Import String NArith ZArith List Bool Lia.
From Tangelo Require Import Num.KStruct QSem.State QSem.BitLemmas QSem.StateLemmas QSem.GateLemmas
     QSem.CircuitLemmas QSem.Measure QSem.MeasureProofs QSem.Unitary QSem.Expect QSem.ExpectProofs
     Pauli.Word Pauli.Action Pauli.ActionProofs Linq.GateModel Chem.Vqe.
Import ListNotations.
Open Scope list_scope.

(* ---- list facts, before the section ---- *)
Lemma Forall_map_iff {X Y} (f : X -> Y) (P : Y -> Prop) (l : list X) :
  Forall P (map f l) <-> Forall (fun x => P (f x)) l.
Proof.
  induction l as [|a l IH]; simpl; split; intro H; try constructor; inversion H; subst; try assumption; apply IH; assumption.
Qed.

Lemma pow2_succ (n : nat) : exists m, Nat.pow 2 n = Datatypes.S m.
Proof.
  destruct (Nat.pow 2 n) eqn:E.
  - exfalso. apply (Nat.pow_nonzero 2 n); [discriminate|exact E].
  - eexists. reflexivity.
Qed.

Section VqeProofs.
  Variable S : KS.
  Add Ring kring : (k_ring S).
  Open Scope K_scope.
  Notation K := (K S).
  Notation state := (state S).
  Notation ksum := (ksum S).
  Notation inner := (inner S).
  Notation norm2 := (norm2 S).

  (* ================================================================ A. adjoints *)
  Lemma ctrl_app1_adjoint (u : mat2 S) q cs n (a b : state) :
    ~ In q cs -> (q < N.of_nat n)%N ->
    inner n (ctrl S cs (app1 S u q) a) b = inner n a (ctrl S cs (app1 S (madj S u) q) b).
  Proof.
    intros Hq Hn. unfold State.inner.
    apply (ksum_pairing S (fun x => flip x q)
                        (fun x => kconj (ctrl S cs (app1 S u q) a x) * b x)
                        (fun x => kconj (a x) * ctrl S cs (app1 S (madj S u) q) b x) n).
    - intro x. apply flip_flip.
    - intros x Hx. apply flip_lt; assumption.
    - intro x. unfold ctrl. rewrite (allset_flip x q cs Hq).
      destruct (allset x cs); [|reflexivity].
      unfold app1. rewrite bit_flip_same, flip_flip.
      destruct (bit x q); simpl negb; cbv iota; cbn [madj m00 m01 m10 m11];
        rewrite !kconj_add, !kconj_mul; ring.
  Qed.

  Lemma ctrl_swap_adjoint q1 q2 cs n (a b : state) :
    ~ In q1 cs -> ~ In q2 cs -> (q1 < N.of_nat n)%N -> (q2 < N.of_nat n)%N ->
    inner n (ctrl S cs (app_swap S q1 q2) a) b = inner n a (ctrl S cs (app_swap S q1 q2) b).
  Proof.
    intros H1 H2 Hn1 Hn2. unfold State.inner.
    set (sg := fun x => if allset x cs then swapq q1 q2 x else x).
    rewrite <- (ksum_reindex S sg (fun x => kconj (a x) * ctrl S cs (app_swap S q1 q2) b x) n).
    - apply ksum_ext. intros i _. unfold ctrl, app_swap, sg.
      destruct (allset (N.of_nat i) cs) eqn:E.
      + rewrite allset_swapq, E by assumption. rewrite swapq_invol. reflexivity.
      + rewrite E. reflexivity.
    - intro x. unfold sg. destruct (allset x cs) eqn:E.
      + rewrite allset_swapq, E by assumption. apply swapq_invol.
      + rewrite E. reflexivity.
    - intros x Hx. unfold sg. destruct (allset x cs); [apply swapq_lt; assumption|exact Hx].
  Qed.

  Lemma ctrl_xx_adjoint t q1 q2 cs n (a b : state) :
    ~ In q1 cs -> ~ In q2 cs -> (q1 < N.of_nat n)%N -> (q2 < N.of_nat n)%N ->
    inner n (ctrl S cs (app_xx S t q1 q2) a) b = inner n a (ctrl S cs (app_xx S (aopp t) q1 q2) b).
  Proof.
    intros H1 H2 Hn1 Hn2. unfold State.inner.
    apply (ksum_pairing S (fun x => flip2 x q1 q2)
                        (fun x => kconj (ctrl S cs (app_xx S t q1 q2) a x) * b x)
                        (fun x => kconj (a x) * ctrl S cs (app_xx S (aopp t) q1 q2) b x) n).
    - intro x. apply flip2_invol.
    - intros x Hx. apply flip2_lt; assumption.
    - intro x. unfold ctrl, app_xx. rewrite allset_flip2 by assumption.
      destruct (allset x cs); [|reflexivity].
      rewrite flip2_invol.
      rewrite !kconj_add, !kconj_mul, conj_cosh, conj_misinh, cosh_opp, misinh_opp. ring.
  Qed.

  (* every gate: <g a, b> = <a, g^-1 b> *)
  Theorem den_gate_adjoint n (g : gate S) (a b : state) :
    gate_in S n g -> inner n (den_gate S g a) b = inner n a (den_gate S (gate_inv S g) b).
  Proof.
    intros [Hwf Hin]. unfold den_gate, gate_inv. destruct g as [bs cs]. simpl in *.
    unfold gate_wf in Hwf; simpl in Hwf.
    destruct bs as [g q|q1 q2|t q1 q2]; simpl in *.
    - rewrite mat_inv_is_adj. apply ctrl_app1_adjoint; [apply Hwf|apply Hin]; left; reflexivity.
    - apply ctrl_swap_adjoint; [apply Hwf|apply Hwf|apply Hin|apply Hin]; simpl; auto.
    - apply ctrl_xx_adjoint; [apply Hwf|apply Hwf|apply Hin|apply Hin]; simpl; auto.
  Qed.

  (* every circuit: <U a, b> = <a, U^-1 b> *)
  Theorem den_adjoint n (c : circuit S) : Forall (gate_in S n) c ->
    forall (a b : state), inner n (den S c a) b = inner n a (den S (circuit_inv S c) b).
  Proof.
    induction c as [|g r IH]; intros Hc a b; [reflexivity|].
    inversion Hc as [|? ? Hg Hr]; subst.
    rewrite den_cons, (IH Hr), (den_gate_adjoint n g _ _ Hg).
    unfold circuit_inv. simpl rev. rewrite map_app, den_app. reflexivity.
  Qed.

  Corollary den_inv_adjoint n (c : circuit S) : Forall (gate_in S n) c ->
    forall (a b : state), inner n (den S (circuit_inv S c) a) b = inner n a (den S c b).
  Proof.
    intros Hc a b. rewrite <- (inner_conj S n (den S c b) a), (den_adjoint n c Hc), inner_conj. reflexivity.
  Qed.

  (* <0...0| phi> = phi(0) *)
  Lemma ksum_first (f : nat -> K) m : (forall i, (0 < i)%nat -> f i = 0) -> ksum f (Datatypes.S m) = f O.
  Proof.
    intro H. induction m as [|m IH].
    - simpl. ring.
    - change (ksum f (Datatypes.S (Datatypes.S m))) with (ksum f (Datatypes.S m) + f (Datatypes.S m)).
      rewrite IH, (H (Datatypes.S m)) by lia. ring.
  Qed.

  Lemma inner_ket0 n (phi : state) : inner n (ket S 0) phi = phi 0%N.
  Proof.
    unfold State.inner. destruct (pow2_succ n) as [m ->].
    rewrite ksum_first.
    - unfold ket. simpl. rewrite kconj_1. ring.
    - intros i Hi. unfold ket. destruct (N.eqb_spec (N.of_nat i) 0) as [E|E]; [lia|].
      rewrite kconj_0. ring.
  Qed.

  Lemma norm2_ket0 n : norm2 n (ket S 0) = 1.
  Proof. unfold Measure.norm2. rewrite inner_ket0. reflexivity. Qed.

  (* the amplitude of |0...0> after  V ; U^-1  is the inner product of the two prepared states *)
  Theorem deflation_amplitude n (U V : circuit S) : circ_in S n U ->
    den S (V ++ circuit_inv S U) (ket S 0) 0%N = overlap S n U V.
  Proof.
    intro HU. unfold overlap. rewrite (den_adjoint n U HU), inner_ket0, den_app. reflexivity.
  Qed.

  (* hence the exact frequency of the all-zero string is |<U0|V0>|^2 *)
  Theorem zero_freq_is_overlap n (U V : circuit S) : circ_in S n U ->
    zero_freq S (V ++ circuit_inv S U) = overlap_prob S n U V.
  Proof.
    intro HU. unfold zero_freq, born, overlap_prob. rewrite (deflation_amplitude n U V HU). reflexivity.
  Qed.

  (* ================================================================ B. energy_estimation *)
  Lemma prepared_norm n (v : solver S) : circ_in S n (pc_gates (composed S v)) -> norm2 n (prepared S v) = 1.
  Proof. intro H. unfold prepared. rewrite den_unit by exact H. apply norm2_ket0. Qed.

  Lemma fold_add_init {X} (f : X -> K) (l : list X) : forall init,
    fold_left (fun e d => e + f d) l init = init + fold_left (fun e d => e + f d) l 0.
  Proof.
    induction l as [|d l IH]; intro init; simpl; [ring|].
    rewrite (IH (init + f d)), (IH (0 + f d)). ring.
  Qed.

  Lemma fold_add_ext {X} (f g : X -> K) (l : list X) :
    Forall (fun d => f d = g d) l -> fold_left (fun e d => e + f d) l 0 = fold_left (fun e d => e + g d) l 0.
  Proof.
    induction 1 as [|d l Hd Hl IH]; simpl; [reflexivity|].
    rewrite (fold_add_init f l (0 + f d)), (fold_add_init g l (0 + g d)), IH, Hd. reflexivity.
  Qed.

  Lemma pc_gates_sim (v : solver S) (d : pcirc S) :
    pc_gates (padd S d (pinv S (composed S v))) = pc_gates d ++ circuit_inv S (pc_gates (composed S v)).
  Proof. reflexivity. Qed.

  (* one deflation term when the key has the width of the simulated circuit (or the lookup is repaired) *)
  Theorem defl_term_is_overlap keyw n (v : solver S) (d : pcirc S) :
    circ_in S n (pc_gates (composed S v)) ->
    (keyw = false \/ pc_width (v_ansatz v) = pc_width (padd S d (pinv S (composed S v)))) ->
    defl_term S keyw v d = overlap_prob S n (pc_gates (composed S v)) (pc_gates d).
  Proof.
    intros Hin Hw. unfold defl_term. cbv zeta.
    assert (E : keyw && negb (Nat.eqb (pc_width (v_ansatz v)) (pc_width (padd S d (pinv S (composed S v))))) = false).
    { destruct Hw as [-> | ->]; [reflexivity|]. rewrite Nat.eqb_refl. apply andb_false_r. }
    rewrite E, pc_gates_sim. apply zero_freq_is_overlap. exact Hin.
  Qed.

  (* ... and when the widths differ, the code as written adds nothing *)
  Theorem defl_term_width_mismatch (v : solver S) (d : pcirc S) :
    pc_width (v_ansatz v) <> pc_width (padd S d (pinv S (composed S v))) -> defl_term S true v d = 0.
  Proof.
    intro H. unfold defl_term. cbv zeta. apply Nat.eqb_neq in H. rewrite H. reflexivity.
  Qed.

  Theorem energy_spec (route : nat -> op S -> state -> K) keyw n (v : solver S) :
    route n (v_ham v) (prepared S v) = expect_op S n (v_ham v) (prepared S v) ->
    circ_in S n (pc_gates (composed S v)) ->
    (keyw = false \/ widths_agree S v) ->
    energy S route keyw n v = expect_op S n (v_ham v) (prepared S v) + defl_spec S n v.
  Proof.
    intros Hr Hin Hw. unfold energy, defl_spec. rewrite fold_add_init, Hr. f_equal.
    apply fold_add_ext. unfold widths_agree in Hw.
    destruct Hw as [-> | Hw].
    - apply Forall_forall. intros d _. rewrite (defl_term_is_overlap false n v d Hin); auto.
    - rewrite Forall_forall in Hw. apply Forall_forall. intros d Hd.
      rewrite (defl_term_is_overlap keyw n v d Hin); auto.
  Qed.

  (* the circuit operator_expectation evaluates is the one energy_estimation evaluates iff the solver's
     reference circuit is used (or passed explicitly) *)
  Theorem opexp_same_state (v : solver S) :
    (forall x, opexp_prepared S true v None x = prepared S v x)
    /\ (v_ref_used v = false -> forall x, opexp_prepared S false v None x = prepared S v x)
    /\ (v_ref_used v = true -> forall x, opexp_prepared S false v (Some (v_ref v)) x = prepared S v x).
  Proof.
    unfold opexp_prepared, prepared, opexp_composed, composed, padd, pempty.
    repeat split; intros; destruct (v_ref_used v); try discriminate; destruct (v_proj v); reflexivity.
  Qed.

  (* ================================================================ D. eigen-expansions *)
  Lemma inner_lincomb_nil_r n (v : state) : inner n v (lincomb S []) = 0.
  Proof. apply (inner_zero_r S n v). Qed.

  Lemma inner_lincomb_nil_l n (v : state) : inner n (lincomb S []) v = 0.
  Proof.
    rewrite <- (inner_conj S n v (lincomb S [])), inner_lincomb_nil_r. apply kconj_0.
  Qed.

  Lemma inner_lincomb_cons_r n (v : state) ce r :
    inner n v (lincomb S (ce :: r)) = fst ce * inner n v (snd ce) + inner n v (lincomb S r).
  Proof.
    unfold State.inner. rewrite <- ksum_scale, <- ksum_add. apply ksum_ext. intros i _.
    unfold lincomb. cbn [fold_right]. unfold State.state in *. ring.
  Qed.

  Lemma inner_lincomb_cons_l n (v : state) ce r :
    inner n (lincomb S (ce :: r)) v = kconj (fst ce) * inner n (snd ce) v + inner n (lincomb S r) v.
  Proof.
    unfold State.inner. rewrite <- ksum_scale, <- ksum_add. apply ksum_ext. intros i _.
    unfold lincomb. cbn [fold_right]. rewrite kconj_add, kconj_mul. unfold State.state in *. ring.
  Qed.

  Lemma inner_lincomb_r_zero n (v : state) cs :
    Forall (fun ce => inner n v (snd ce) = 0) cs -> inner n v (lincomb S cs) = 0.
  Proof.
    induction 1 as [|ce r Hce Hr IH]; [apply inner_lincomb_nil_r|].
    rewrite inner_lincomb_cons_r, Hce, IH. ring.
  Qed.

  Lemma inner_lincomb_l_zero n (v : state) cs :
    Forall (fun ce => inner n (snd ce) v = 0) cs -> inner n (lincomb S cs) v = 0.
  Proof.
    induction 1 as [|ce r Hce Hr IH]; [apply inner_lincomb_nil_l|].
    rewrite inner_lincomb_cons_l, Hce, IH. ring.
  Qed.

  (* <sum c_k e_k , sum c_k mu_k e_k> = sum |c_k|^2 mu_k  for orthonormal e_k *)
  Lemma expansion_core n (mu : eig S -> K) (es : list (eig S)) :
    orthonormal S n (map (e_v S) es) ->
    inner n (expansion S es) (lincomb S (map (fun e => (e_c S e * mu e, e_v S e)) es))
    = fold_right (fun e acc => (kconj (e_c S e) * e_c S e) * mu e + acc) 0 es.
  Proof.
    induction es as [|e r IH]; intro Ho.
    - apply inner_lincomb_nil_r.
    - cbn [map orthonormal] in Ho. destruct Ho as [Hn [Hz Ho]].
      unfold expansion. cbn [map fold_right].
      rewrite inner_lincomb_cons_l. cbn [fst snd].
      rewrite !inner_lincomb_cons_r. cbn [fst snd].
      fold (expansion S r). rewrite (IH Ho), Hn.
      rewrite (inner_lincomb_r_zero n (e_v S e)).
      + unfold expansion. rewrite (inner_lincomb_l_zero n (e_v S e)).
        * ring.
        * apply Forall_map_iff. cbn [snd]. apply Forall_map_iff in Hz.
          eapply Forall_impl; [|exact Hz]. intros a [_ Ha]. exact Ha.
      + apply Forall_map_iff. cbn [snd]. apply Forall_map_iff in Hz.
        eapply Forall_impl; [|exact Hz]. intros a [Ha _]. exact Ha.
  Qed.

  Lemma Hm_expansion (Hm : state -> state) (es : list (eig S)) :
    plinear S Hm -> eigenpairs S Hm es ->
    forall x, Hm (expansion S es) x = lincomb S (map (fun e => (e_c S e * e_l S e, e_v S e)) es) x.
  Proof.
    intros [Hadd [Hsc Hext]] He. induction He as [|e r Hev Hr IH]; intro x.
    - transitivity (Hm (fun y => 0 * (fun _ : N => 0) y) x).
      + apply Hext. intro y. unfold expansion, lincomb. simpl. ring.
      + rewrite Hsc. unfold lincomb. simpl. ring.
    - transitivity (Hm (fun y => (fun z => e_c S e * e_v S e z) y + expansion S r y) x).
      + apply Hext. intro y. reflexivity.
      + rewrite Hadd, Hsc, Hev, IH. unfold lincomb. cbn [map fold_right fst snd]. ring.
  Qed.

  (* <psi|H|psi> = sum_k |c_k|^2 lambda_k *)
  Theorem rayleigh_expansion n (Hm : state -> state) (es : list (eig S)) :
    plinear S Hm -> eigenpairs S Hm es -> orthonormal S n (map (e_v S) es) ->
    inner n (expansion S es) (Hm (expansion S es)) = weighted_sum S es.
  Proof.
    intros Hl He Ho.
    rewrite (inner_ext S n _ (expansion S es) _ _ (fun x => eq_refl) (Hm_expansion Hm es Hl He)).
    apply (expansion_core n (e_l S) es Ho).
  Qed.

  (* <psi|psi> = sum_k |c_k|^2 *)
  Theorem norm_expansion n (es : list (eig S)) :
    orthonormal S n (map (e_v S) es) -> norm2 n (expansion S es) = weight_total S es.
  Proof.
    intro Ho. unfold Measure.norm2.
    transitivity (inner n (expansion S es) (lincomb S (map (fun e => (e_c S e * (fun _ => 1) e, e_v S e)) es))).
    - apply inner_ext; [reflexivity|]. intro x. unfold expansion, lincomb.
      induction es as [|e r IH]; [reflexivity|]. cbn [map fold_right fst snd].
      cbn [map orthonormal] in Ho. destruct Ho as [_ [_ Ho]]. rewrite (IH Ho). ring.
    - rewrite (expansion_core n (fun _ => 1) es Ho). unfold weight_total.
      induction es as [|e r IH]; [reflexivity|]. cbn [fold_right].
      cbn [map orthonormal] in Ho. destruct Ho as [_ [_ Ho]]. rewrite (IH Ho). ring.
  Qed.

  (* the action of a qubit operator is such a linear map *)
  Lemma op_den_plinear (H : op S) : plinear S (op_den S H).
  Proof.
    repeat split.
    - intros a b x. apply op_den_lin_add.
    - intros c a x. apply op_den_lin_scale.
    - intros a b Hab x. apply op_den_ext. exact Hab.
  Qed.

  Corollary rayleigh_expansion_op n (H : op S) (es : list (eig S)) :
    eigenpairs S (op_den S H) es -> orthonormal S n (map (e_v S) es) ->
    expect_op S n H (expansion S es) = weighted_sum S es.
  Proof. intros He Ho. unfold expect_op. apply rayleigh_expansion; [apply op_den_plinear|exact He|exact Ho]. Qed.
End VqeProofs.

(* ================================================================ C. operator_expectation state machine *)
Section OpExpProofs.
  Variables F X V : Type.
  Notation opexp := (opexp F X V).
  Notation resolve := (resolve F X V).

  (* whenever the call returns a value the attribute holds what it held before *)
  Theorem opexp_returns_restored fin (env : openv F X V) ham req args v :
    fst (opexp fin env ham req args) = Ok v -> snd (opexp fin env ham req args) = ham.
  Proof.
    unfold Vqe.opexp. destruct (resolve env ham req args) as [h'|e]; [|discriminate].
    destruct (e_update env); simpl; [|discriminate].
    destruct (e_expect env h'); simpl; [reflexivity|discriminate].
  Qed.

  (* ... and the value is the backend's value for the requested operator *)
  Theorem opexp_value fin (env : openv F X V) ham req args v :
    fst (opexp fin env ham req args) = Ok v ->
    exists h', resolve env ham req args = Ok h' /\ e_update env = true /\ e_expect env h' = Ok v.
  Proof.
    unfold Vqe.opexp. destruct (resolve env ham req args) as [h'|e]; [|discriminate].
    destruct (e_update env); simpl; [|discriminate].
    destruct (e_expect env h') eqn:E; simpl; [|discriminate].
    intro H. inversion H; subst. exists h'. auto.
  Qed.

  (* exceptions raised while the operator is being resolved happen before the attribute is assigned *)
  Theorem opexp_raise_before_swap fin (env : openv F X V) ham req args e :
    resolve env ham req args = Err e -> opexp fin env ham req args = (Err e, ham).
  Proof. unfold Vqe.opexp. intros ->. reflexivity. Qed.

  (* with a finally clause the attribute is restored on every path *)
  Theorem opexp_finally_restores (env : openv F X V) ham req args :
    snd (opexp true env ham req args) = ham.
  Proof.
    unfold Vqe.opexp. destruct (resolve env ham req args) as [h'|e]; [|reflexivity].
    destruct (e_update env); simpl; [|reflexivity].
    destruct (e_expect env h'); reflexivity.
  Qed.

  (* without one, an exception of update_var_params or of the backend leaves the replacement in place *)
  Theorem opexp_nofinally_left_replaced (env : openv F X V) ham req args h' :
    resolve env ham req args = Ok h' ->
    (e_update env = false \/ exists e, e_expect env h' = Err e) ->
    (exists e, fst (opexp false env ham req args) = Err e) /\ snd (opexp false env ham req args) = h'.
  Proof.
    unfold Vqe.opexp. intros -> [Hu | [e He]].
    - rewrite Hu. simpl. split; [eexists|]; reflexivity.
    - destruct (e_update env); simpl; [rewrite He|]; simpl; (split; [eexists|]; reflexivity).
  Qed.

  (* the requested names: every name of the table resolves, through the mapping, unless a needed argument is
     missing *)
  Theorem resolve_name (env : openv F X V) ham s args f :
    e_names env s = Some f -> (a_mos args = true \/ e_molecule env = true) ->
    (a_elec args = true \/ e_scbk env = false \/ e_molecule env = true) ->
    resolve env ham (ReqName s) args = e_map env f.
  Proof.
    intros Hn Hm He. unfold Vqe.resolve. rewrite Hn.
    assert (E1 : negb (a_mos args) && negb (e_molecule env) = false).
    { destruct (a_mos args), (e_molecule env); try reflexivity. destruct Hm; discriminate. }
    assert (E2 : negb (a_elec args) && e_scbk env && negb (e_molecule env) = false).
    { destruct (a_elec args), (e_scbk env), (e_molecule env); try reflexivity. destruct He as [H|[H|H]]; discriminate. }
    rewrite E1, E2. reflexivity.
  Qed.
End OpExpProofs.

(* a concrete run of the machine without finally: QubitOperator request, wrong-size parameter vector *)
Definition wit_env : openv unit bool unit :=
  OpEnv true false (fun _ => None) (fun _ => Ok true) false (fun _ => Ok tt).

Theorem opexp_nofinally_refuted :
  exists (env : openv unit bool unit) ham req args,
    (exists e, fst (opexp unit bool unit false env ham req args) = Err e)
    /\ snd (opexp unit bool unit false env ham req args) <> ham.
Proof.
  exists wit_env, false, (ReqQubit true), (OpArgs true true). split; [eexists; reflexivity|discriminate].
Qed.

(* ================================================================ E. symmetry operators *)
Lemma sym_table_flags (t : list sym_entry) :
  sym_table_ok t = true -> forall e, In e t -> snd (snd e) = Some false.
Proof.
  unfold sym_table_ok. intro H. apply andb_prop in H. destruct H as [H _].
  rewrite forallb_forall in H. intros e He. specialize (H e He). unfold entry_ok in H.
  destruct (snd (snd e)) as [[|]|]; try discriminate. reflexivity.
Qed.

Lemma sym_table_builders (t : list sym_entry) :
  sym_table_ok t = true -> forall e, In e t -> In (fst e, fst (snd e)) expected_builders.
Proof.
  unfold sym_table_ok. intro H. apply andb_prop in H. destruct H as [H _].
  rewrite forallb_forall in H. intros e He. specialize (H e He). unfold entry_ok in H.
  destruct (snd (snd e)) as [[|]|]; try discriminate.
  apply existsb_exists in H. destruct H as [p [Hp Hq]]. apply andb_prop in Hq. destruct Hq as [Ha Hb].
  apply String.eqb_eq in Ha. apply String.eqb_eq in Hb. destruct p as [a b]. simpl in *. subst. exact Hp.
Qed.

Section ReorderProofs.
  Variables F X : Type.
  Variable reorder : F -> F.
  Variable enc : string -> F -> X.

  (* over the regenerated facts: the operator handed to the backend for a symmetry name is the encoding of the
     base operator reordered exactly when the solver's own flag is set — once, never twice *)
  Theorem symmetry_operator_once (t : list sym_entry) (k : kwargs) (e : sym_entry) (mapping : string) (utd : bool) (base : F) :
    sym_table_ok t = true -> map_args_ok k = true -> In e t ->
    mapped_op F X reorder enc mapping utd (built F reorder (entry_flag e) base)
      = enc mapping (if utd then reorder base else base)
    /\ n_reorder (entry_flag e) utd = Nat.b2n utd
    /\ kw_lookup k "mapping" = Some "self.qubit_mapping"%string
    /\ kw_lookup k "up_then_down" = Some "self.up_then_down"%string.
  Proof.
    intros Ht Hk He. pose proof (sym_table_flags t Ht e He) as Hf.
    unfold entry_flag, mapped_op, built, n_reorder. rewrite Hf. simpl.
    repeat split.
    - unfold map_args_ok in Hk. destruct (kw_lookup k "mapping") as [m|]; [|discriminate].
      destruct (kw_lookup k "up_then_down") as [u|]; [|discriminate].
      apply andb_prop in Hk. destruct Hk as [Hm _]. apply String.eqb_eq in Hm. subst. reflexivity.
    - unfold map_args_ok in Hk. destruct (kw_lookup k "mapping") as [m|]; [|discriminate].
      destruct (kw_lookup k "up_then_down") as [u|]; [|discriminate].
      apply andb_prop in Hk. destruct Hk as [_ Hu]. apply String.eqb_eq in Hu. subst. reflexivity.
  Qed.

  (* what a builder flag set to True would do: the reordering is applied twice *)
  Theorem double_reordering_if_builder_flag (mapping : string) (base : F) :
    mapped_op F X reorder enc mapping true (built F reorder true base) = enc mapping (reorder (reorder base))
    /\ n_reorder true true = 2%nat.
  Proof. split; reflexivity. Qed.
End ReorderProofs.

(* ================================================================ a non-trivial eigen-expansion *)
(* H = Z on qubit 0: |0> and |1> are orthonormal eigenvectors for +1 and -1 (any number structure);
   used as the non-vacuity witness of the Rayleigh theorems *)
Section ZExample.
  Variable S : KS.
  Add Ring kringz : (k_ring S).
  Open Scope K_scope.

  Definition opZ0 : op S := [([(0%N, PZ)], 1)].
  Definition z_eigs (c0 c1 : K S) : list (eig S) := [(c0, 1, ket S 0); (c1, - (1), ket S 1)].

  Lemma opZ0_den (psi : state S) x :
    op_den S opZ0 psi x = if bit x 0 then - psi x else psi x.
  Proof.
    unfold opZ0, op_den, word_den, app1, pauli_mat, mZ. cbn [fold_left fst snd m00 m01 m10 m11].
    destruct (bit x 0); ring.
  Qed.

  Lemma z_eigenpairs c0 c1 : eigenpairs S (op_den S opZ0) (z_eigs c0 c1).
  Proof.
    unfold z_eigs, eigenpairs. repeat constructor; intro x; rewrite opZ0_den; unfold e_v, e_l, ket; cbn [fst snd].
    - destruct (bit x 0) eqn:B; [|ring].
      destruct (N.eqb_spec x 0) as [->|_]; [discriminate B|ring].
    - destruct (bit x 0) eqn:B; [ring|].
      destruct (N.eqb_spec x 1) as [->|_]; [discriminate B|ring].
  Qed.

  Lemma z_orthonormal c0 c1 : orthonormal S 1 (map (e_v S) (z_eigs c0 c1)).
  Proof.
    unfold z_eigs, e_v. cbn [map snd orthonormal]. unfold inner, ket. cbn [Nat.pow Nat.mul Nat.add ksum N.of_nat N.eqb Pos.of_succ_nat Pos.succ Pos.eqb].
    rewrite ?kconj_0, ?kconj_1.
    cbv beta. split; [ring|].
    split; [constructor; [split; simpl; rewrite ?kconj_0, ?kconj_1; ring|constructor]|].
    split; [ring|]. split; [constructor|exact I].
  Qed.
End ZExample.
