(* StateInitProofs.v — the disentangling step of StateVector is exact, over the real numbers, with the
   angles the code computes (theta through the half-angle values of 2*arccos(|a|/r), see StateInit.v; the
   arguments of a and b enter through their polar form, i.e. for ANY alpha, beta with a = |a| e^{i alpha}, b = |b| e^{i beta}, in particular np.angle's):
       RY(-theta) RZ(-phi) (a, b)^T = (r e^{i t/2}, 0). *)
From Coq Require Import Reals Lra Lia.
From Tangelo Require Import Num.KStruct Num.CReal QSem.State Chem.StateInit.
Local Open Scope R_scope.

Lemma R_cis t : @cis CRealS t = (cos (t / 2), sin (t / 2)).
Proof. reflexivity. Qed.

Lemma R_cosh t : cosh_ CRealS t = (cos (t / 2), 0).
Proof.
  unfold cosh_. apply C_eq; simpl; replace (- t / 2) with (- (t / 2)) by lra; rewrite ?cos_neg, ?sin_neg; lra.
Qed.

Lemma R_sinh t : sinh_ CRealS t = (sin (t / 2), 0).
Proof.
  unfold sinh_, misinh. apply C_eq; simpl; replace (- t / 2) with (- (t / 2)) by lra; rewrite ?cos_neg, ?sin_neg; lra.
Qed.

Lemma bloch_r_pos ma mb : 0 < ma * ma + mb * mb -> 0 < bloch_r ma mb.
Proof. intro H. unfold bloch_r. apply sqrt_lt_R0. exact H. Qed.

Lemma bloch_r_sq ma mb : 0 < ma * ma + mb * mb -> bloch_r ma mb * bloch_r ma mb = ma * ma + mb * mb.
Proof. intro H. unfold bloch_r. apply sqrt_sqrt. lra. Qed.

(* RY(-theta) RZ(-phi) (a, b)^T = (remains, 0) for a = ma e^{i al}, b = mb e^{i be}, (ma, mb) <> (0, 0) *)
Theorem bloch_disentangle (ma mb al be theta : R) :
  0 < ma * ma + mb * mb -> is_bloch_theta ma mb theta ->
  mapply CRealS (disentangler CRealS theta (bloch_phi al be)) (polar ma al) (polar mb be)
  = (bloch_remains ma mb al be, C0).
Proof.
  intros Hp [Hc Hs].
  pose proof (bloch_r_pos ma mb Hp) as Hr. pose proof (bloch_r_sq ma mb Hp) as Hr2.
  unfold mapply, disentangler, mmul, mRY, mRZ; cbn [m00 m01 m10 m11].
  change (@aopp CRealS) with Ropp. rewrite !Ropp_involutive.
  assert (Eco : cosh_ CRealS (- theta) = (ma / bloch_r ma mb, 0)).
  { rewrite R_cosh. replace (- theta / 2) with (- (theta / 2)) by lra.
    rewrite cos_neg, Hc. reflexivity. }
  assert (Esi : sinh_ CRealS (- theta) = (- (mb / bloch_r ma mb), 0)).
  { rewrite R_sinh. replace (- theta / 2) with (- (theta / 2)) by lra.
    rewrite sin_neg, Hs. reflexivity. }
  rewrite Eco, Esi, !R_cis.
  unfold bloch_remains, bloch_phi, bloch_t, polar, Ccis.
  set (r := bloch_r ma mb) in *.
  set (ir := / r). assert (Hir : ir * r = 1) by (unfold ir; apply Rinv_l; lra).
  (* half-angle identities: al = t/2 - phi/2, be = t/2 + phi/2 *)
  set (h := (al + be) / 2). set (d := (be - al) / 2).
  replace (- (be - al) / 2) with (- d) by (unfold d; lra).
  replace (cos al) with (cos (h - d)) by (f_equal; unfold h, d; lra).
  replace (sin al) with (sin (h - d)) by (f_equal; unfold h, d; lra).
  replace (cos be) with (cos (h + d)) by (f_equal; unfold h, d; lra).
  replace (sin be) with (sin (h + d)) by (f_equal; unfold h, d; lra).
  rewrite cos_neg, sin_neg, cos_minus, sin_minus, cos_plus, sin_plus.
  set (ch := cos h). set (sh := sin h). set (cd := cos d). set (sd := sin d).
  assert (Hd : cd * cd + sd * sd = 1).
  { unfold cd, sd. pose proof (sin2_cos2 d) as H. unfold Rsqr in H. lra. }
  unfold Rdiv. fold ir.
  f_equal; apply C_eq; cbn [fst snd kadd kmul kopp k0 CRealS Cadd Cmul Copp]; unfold Cadd, Cmul, Copp, C0; cbn [fst snd].
  - (* real part of the first component: r * ch *)
    transitivity ((ma * ma + mb * mb) * ir * ch * (cd * cd + sd * sd)); [ring|].
    rewrite Hd, <- Hr2. replace (r * r * ir) with (r * (ir * r)) by ring. rewrite Hir. ring.
  - transitivity ((ma * ma + mb * mb) * ir * sh * (cd * cd + sd * sd)); [ring|].
    rewrite Hd, <- Hr2. replace (r * r * ir) with (r * (ir * r)) by ring. rewrite Hir. ring.
  - ring.
  - ring.
Qed.

(* the zero pair: the code returns theta = phi = 0 and remains = 0 — the identity leaves (0, 0) *)
Lemma bloch_zero_pair : mapply CRealS (disentangler CRealS 0 0) C0 C0 = (C0, C0).
Proof.
  unfold mapply, disentangler, mmul, mRY, mRZ; cbn [m00 m01 m10 m11].
  f_equal; apply C_eq; cbn [fst snd kadd kmul kopp CRealS Cadd Cmul Copp C0]; unfold Cadd, Cmul, Copp, C0; cbn [fst snd]; ring.
Qed.
