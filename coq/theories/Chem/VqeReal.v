(* VqeReal.v — the order-theoretic half of the variational principle, over the real numbers (instance
   CRealS, K = R*R):  if psi = sum_k c_k e_k with e_k orthonormal eigenvectors of H for REAL eigenvalues
   lambda_k >= lmin, then  Re <psi|H|psi> = sum_k |c_k|^2 lambda_k >= lmin * <psi|psi>.
   The existence of such an expansion for every state (the spectral theorem for Hermitian matrices) is
   NOT formalised here: it is a hypothesis of the theorem. *)
From Coq Require Import Reals Lra NArith List.
From Tangelo Require Import Num.KStruct Num.CReal QSem.State QSem.Measure QSem.Expect Pauli.Word Pauli.Action
     Chem.Vqe Chem.VqeProofs.
Import ListNotations.
Local Open Scope R_scope.

Notation RS := CRealS.

Definition abs2 (c : K RS) : R := fst c * fst c + snd c * snd c.

Lemma abs2_nonneg (c : K RS) : 0 <= abs2 c.
Proof. unfold abs2. nra. Qed.

Lemma RS_fst_add (x y : K RS) : fst (@kadd RS x y) = fst x + fst y.
Proof. reflexivity. Qed.

Lemma RS_weight (c l : K RS) : snd l = 0 -> fst (@kmul RS (@kmul RS (@kconj RS c) c) l) = abs2 c * fst l.
Proof.
  destruct c as [a b], l as [p q]. cbn [snd]. intros ->.
  change (fst (Cmul (Cmul (Cconj (a, b)) (a, b)) (p, 0)) = abs2 (a, b) * fst (p, 0)).
  unfold Cmul, Cconj, abs2. cbn [fst snd]. ring.
Qed.

Lemma RS_weight1 (c : K RS) : fst (@kmul RS (@kconj RS c) c) = abs2 c.
Proof.
  destruct c as [a b]. change (fst (Cmul (Cconj (a, b)) (a, b)) = abs2 (a, b)).
  unfold Cmul, Cconj, abs2. cbn [fst snd]. ring.
Qed.

(* eigenvalues real and bounded below by lmin *)
Definition real_above (lmin : R) (es : list (eig RS)) : Prop :=
  Forall (fun e => snd (e_l RS e) = 0 /\ lmin <= fst (e_l RS e)) es.

(* sum_k |c_k|^2 lambda_k >= lmin * sum_k |c_k|^2 *)
Theorem weighted_sum_bound (lmin : R) (es : list (eig RS)) :
  real_above lmin es -> lmin * fst (weight_total RS es) <= fst (weighted_sum RS es).
Proof.
  induction 1 as [|e r [Hre Hlo] Hr IH].
  - unfold weight_total, weighted_sum. cbn [fold_right]. change (fst (@k0 RS)) with 0. lra.
  - unfold weight_total, weighted_sum in *. cbn [fold_right].
    rewrite !RS_fst_add, RS_weight by exact Hre. rewrite RS_weight1.
    pose proof (abs2_nonneg (e_c RS e)) as Hw.
    assert (lmin * abs2 (e_c RS e) <= abs2 (e_c RS e) * fst (e_l RS e)) by nra.
    lra.
Qed.

(* the variational bound, given an eigen-expansion of the state *)
Theorem rayleigh_bound (n : nat) (H : op RS) (lmin : R) (es : list (eig RS)) :
  eigenpairs RS (op_den RS H) es -> orthonormal RS n (map (e_v RS) es) -> real_above lmin es ->
  expect_op RS n H (expansion RS es) = weighted_sum RS es
  /\ norm2 RS n (expansion RS es) = weight_total RS es
  /\ lmin * fst (norm2 RS n (expansion RS es)) <= fst (expect_op RS n H (expansion RS es)).
Proof.
  intros He Ho Hr.
  rewrite (rayleigh_expansion_op RS n H es He Ho), (norm_expansion RS n es Ho).
  repeat split. apply weighted_sum_bound. exact Hr.
Qed.

(* non-vacuity: H = Z0 on one qubit, psi = c0 |0> + c1 |1> for arbitrary complex c0, c1; lmin = -1 *)
Example rayleigh_bound_nonvacuous (c0 c1 : K RS) :
  eigenpairs RS (op_den RS (opZ0 RS)) (z_eigs RS c0 c1)
  /\ orthonormal RS 1 (map (e_v RS) (z_eigs RS c0 c1))
  /\ real_above (-1) (z_eigs RS c0 c1).
Proof.
  split; [apply z_eigenpairs|]. split; [apply z_orthonormal|].
  unfold z_eigs, real_above, e_l. cbn [fst snd].
  change (@k1 RS) with ((1, 0) : R * R). change (@kopp RS ((1, 0) : R * R)) with ((- 1, - 0) : R * R).
  constructor; [cbn [fst snd]; split; lra|]. constructor; [cbn [fst snd]; split; lra|]. constructor.
Qed.
