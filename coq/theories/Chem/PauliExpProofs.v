(* PauliExpProofs.v — the circuit of exp_pauliword_to_gates denotes exp(-i c P), controlled by any
   control list, EXACTLY (phase included), for every word on distinct qubits, every coefficient.
   Generic over the number structure S : KS (all angles).  Functional extensionality is used to
   state equalities of states as Leibniz equalities (as in QSem/StateLemmas.v).

   Main statements
     cnot_den, ladder_den_bwd, ladder_den_fwd   the ladders denote index maps (lad_bwd / lad_fwd)
     cnot_ladder_parity     NoDup qs -> bit (lad_fwd qs x) (last qs) = parity x qs, other bits kept
     lad_bwd_fwd            the backward ladder undoes the forward one
     mid_den                ladder . (C)RZ(a) . ladder^-1 = ctrl cs (diag (cis(-+a) by parity))
     mH_Z_mH, mRX_Z_mRX     H Z H = X ;  RX(-pi/2) Z RX(pi/2) = Y     (matrix identities over KS)
     sandwich               basis change conjugates a product of one-qubit matrices factor-wise
     qexp_correct           den (qexp ...) = ctrl cs (exp_word w a)
     exp_pauliword_interp   the Python-level model interprets to qexp            (bridge)
     exp_pauliword_correct  the combination: the statement of C06 *)
From Coq Require Import String ZArith NArith List Bool Lia Permutation FunctionalExtensionality.
From Tangelo Require Import Num.KStruct QSem.State QSem.StateLemmas QSem.GateLemmas.
From Tangelo Require Import Pauli.Word Pauli.Action Linq.GateModel Linq.Interp Linq.InterpProofs Chem.PauliExp.
Import ListNotations.
Open Scope list_scope.

(* ------------------------------------------------------------------ lists, sorting, indices *)
Lemma ninsert_perm q l : Permutation (ninsert q l) (q :: l).
Proof.
  induction l as [|r t IH]; simpl; [apply Permutation_refl|].
  destruct (N.leb q r); [apply Permutation_refl|].
  eapply Permutation_trans; [apply perm_skip, IH | apply perm_swap].
Qed.

Lemma nsort_perm l : Permutation (nsort l) l.
Proof.
  induction l as [|q l IH]; simpl; [constructor|].
  eapply Permutation_trans; [apply ninsert_perm | apply perm_skip, IH].
Qed.

Lemma rev_head_last {X} (l : list X) t r d : rev l = t :: r -> last l d = t.
Proof.
  intro H. assert (E : l = rev r ++ [t]) by (rewrite <- (rev_involutive l), H; reflexivity).
  rewrite E. apply last_last.
Qed.

Lemma zn_zq q : zn (zq q) = q.
Proof. unfold zn, zq. apply N2Z.id. Qed.

Lemma map_zn_zq l : map zn (map zq l) = l.
Proof. rewrite map_map. rewrite <- (map_id l) at 2. apply map_ext. intro a. apply zn_zq. Qed.

Lemma zmem_zq q l : zmem (zq q) (map zq l) = true -> In q l.
Proof.
  induction l as [|a l IH]; simpl; [discriminate|].
  intro H. apply orb_true_iff in H. destruct H as [H|H].
  - left. apply Z.eqb_eq in H. unfold zq in H. apply N2Z.inj in H. symmetry. exact H.
  - right. apply IH. exact H.
Qed.

Lemma znodup_zq l : NoDup l -> znodup (map zq l) = true.
Proof.
  induction 1 as [|a l Hn Hd IH]; simpl; [reflexivity|].
  rewrite IH, andb_true_r. destruct (zmem (zq a) (map zq l)) eqn:E; [|reflexivity].
  exfalso. apply Hn. apply zmem_zq. exact E.
Qed.

(* ------------------------------------------------------------------ parity, CNOT index maps *)
Lemma parity_agree x y qs : (forall q, In q qs -> bit y q = bit x q) -> parity y qs = parity x qs.
Proof.
  induction qs as [|q r IH]; simpl; intro H; [reflexivity|].
  rewrite (H q (or_introl eq_refl)), IH; [reflexivity|]. intros q' Hq'. apply H. right. exact Hq'.
Qed.

Lemma parity_perm x l l' : Permutation l l' -> parity x l = parity x l'.
Proof.
  induction 1 as [| a l l' _ IH | a b l | l l' l'' _ IH1 _ IH2]; simpl.
  - reflexivity.
  - rewrite IH. reflexivity.
  - destruct (bit x a), (bit x b), (parity x l); reflexivity.
  - rewrite IH1. exact IH2.
Qed.

Lemma cnot_map_bit_other a b x q : q <> b -> bit (cnot_map a b x) q = bit x q.
Proof.
  intro H. unfold cnot_map. destruct (bit x a); [|reflexivity].
  apply bit_flip_other. intro E. apply H. symmetry. exact E.
Qed.

Lemma cnot_map_bit_target a b x : a <> b -> bit (cnot_map a b x) b = xorb (bit x b) (bit x a).
Proof.
  intro H. unfold cnot_map. destruct (bit x a) eqn:E.
  - rewrite bit_flip_same. destruct (bit x b); reflexivity.
  - destruct (bit x b); reflexivity.
Qed.

Lemma cnot_map_invol a b x : a <> b -> cnot_map a b (cnot_map a b x) = x.
Proof.
  intro H. unfold cnot_map. destruct (bit x a) eqn:E.
  - rewrite (bit_flip_other x b a) by (intro F; apply H; symmetry; exact F). rewrite E. apply flip_flip.
  - rewrite E. reflexivity.
Qed.

Lemma lad_fwd_cons a b r x : lad_fwd (a :: b :: r) x = lad_fwd (b :: r) (cnot_map a b x).
Proof. reflexivity. Qed.

Lemma lad_fwd_other qs : forall x q, ~ In q qs -> bit (lad_fwd qs x) q = bit x q.
Proof.
  induction qs as [|a qs IH]; intros x q Hq; [reflexivity|].
  destruct qs as [|b r]; [reflexivity|].
  rewrite lad_fwd_cons, IH by (intro H; apply Hq; right; exact H).
  apply cnot_map_bit_other. intro E. apply Hq. right. left. symmetry. exact E.
Qed.

(* after the forward ladder the last qubit carries the parity of x over qs *)
Theorem cnot_ladder_parity qs : forall x d,
  qs <> [] -> NoDup qs -> bit (lad_fwd qs x) (last qs d) = parity x qs.
Proof.
  induction qs as [|a qs IH]; intros x d Hne Hnd; [congruence|].
  destruct qs as [|b r].
  - unfold lad_fwd, parity. simpl. destruct (bit x a); reflexivity.
  - inversion Hnd as [|a' l' Ha Hd]; subst.
    assert (Hab : a <> b) by (intro E; apply Ha; left; symmetry; exact E).
    rewrite lad_fwd_cons. change (last (a :: b :: r) d) with (last (b :: r) d).
    rewrite IH by (congruence || assumption).
    inversion Hd as [|b' r' Hb Hr]; subst.
    change (parity (cnot_map a b x) (b :: r)) with (xorb (bit (cnot_map a b x) b) (parity (cnot_map a b x) r)).
    rewrite cnot_map_bit_target by exact Hab.
    rewrite (parity_agree x (cnot_map a b x) r).
    + simpl. destruct (bit x a), (bit x b), (parity x r); reflexivity.
    + intros q Hq. apply cnot_map_bit_other. intro E. subst. contradiction.
Qed.

Lemma lad_pairs_distinct qs : NoDup qs -> Forall (fun p => fst p <> snd p) (lad_pairs qs).
Proof.
  induction qs as [|a qs IH]; intro Hnd; [constructor|].
  destruct qs as [|b r]; [constructor|].
  inversion Hnd as [|a' l' Ha Hd]; subst. simpl. constructor.
  - simpl. intro E. apply Ha. left. symmetry. exact E.
  - apply IH. exact Hd.
Qed.

(* the backward ladder undoes the forward ladder (as index maps) *)
Lemma fold_invol (L : list (N * N)) : Forall (fun p => fst p <> snd p) L -> forall x,
  fold_right (fun p y => cnot_map (fst p) (snd p) y) (fold_left (fun y p => cnot_map (fst p) (snd p) y) L x) L = x.
Proof.
  induction 1 as [|p r Hp Hr IH]; intro x; [reflexivity|].
  simpl. rewrite IH. apply cnot_map_invol. exact Hp.
Qed.

Theorem lad_bwd_fwd qs x : NoDup qs -> lad_bwd qs (lad_fwd qs x) = x.
Proof. intro H. unfold lad_bwd, lad_fwd. apply fold_invol. apply lad_pairs_distinct. exact H. Qed.

Section Proofs.
  Variable S : KS.
  Add Ring kring : (k_ring S).
  Open Scope K_scope.
  Notation state := (state S).
  Notation app1 := (app1 S).
  Notation den := (den S).
  Notation ctrl := (ctrl S).

  (* ---------------------------------------------------------------- CNOT, ladders *)
  Lemma app1_mX q (psi : state) x : app1 (mX S) q psi x = psi (flip x q).
  Proof. unfold State.app1. destruct (bit x q); simpl; ring. Qed.

  Lemma cnot_den a b (psi : state) : den_gate S (cnot S a b) psi = fun x => psi (cnot_map a b x).
  Proof.
    apply state_ext. intro x. unfold den_gate, cnot, State.ctrl, cnot_map; simpl.
    rewrite andb_true_r. destruct (bit x a); [apply app1_mX | reflexivity].
  Qed.

  Lemma qladder_map qs : qladder S qs = map (fun p => cnot S (fst p) (snd p)) (lad_pairs qs).
  Proof.
    induction qs as [|a qs IH]; [reflexivity|]. destruct qs as [|b r]; [reflexivity|].
    simpl. f_equal. exact IH.
  Qed.

  Lemma cnots_den (L : list (N * N)) : forall psi : state,
    den (map (fun p => cnot S (fst p) (snd p)) L) psi
    = fun x => psi (fold_right (fun p y => cnot_map (fst p) (snd p) y) x L).
  Proof.
    induction L as [|p r IH]; intro psi; [reflexivity|].
    simpl map. rewrite den_cons, cnot_den, IH. reflexivity.
  Qed.

  Theorem ladder_den_bwd qs (psi : state) : den (qladder S qs) psi = fun x => psi (lad_bwd qs x).
  Proof. rewrite qladder_map, cnots_den. reflexivity. Qed.

  Theorem ladder_den_fwd qs (psi : state) : den (rev (qladder S qs)) psi = fun x => psi (lad_fwd qs x).
  Proof.
    rewrite qladder_map, <- map_rev, cnots_den. apply state_ext. intro x. f_equal.
    unfold lad_fwd. rewrite fold_left_rev_right. reflexivity.
  Qed.

  (* the diagonal operator exp(-i a/2 Z..Z) on the qubits qs *)
  Definition zdiag (qs : list N) (a : A S) (phi : state) : state :=
    fun x => (if parity x qs then cis a else cis (aopp a)) * phi x.

  Lemma app1_mRZ a q (phi : state) x :
    app1 (mRZ S a) q phi x = (if bit x q then cis a else cis (aopp a)) * phi x.
  Proof. unfold State.app1. destruct (bit x q); simpl; ring. Qed.

  Lemma allset_lad_fwd qs cs x : (forall c, In c cs -> ~ In c qs) -> allset (lad_fwd qs x) cs = allset x cs.
  Proof. intro H. apply allset_agree. intros c Hc. apply lad_fwd_other. apply H. exact Hc. Qed.

  Theorem mid_den qs a cs (psi : state) :
    qs <> [] -> NoDup qs -> (forall c, In c cs -> ~ In c qs) ->
    den (qmid S qs a cs) psi = ctrl cs (zdiag qs a) psi.
  Proof.
    intros Hne Hnd Hcs. unfold qmid. rewrite !den_app, ladder_den_fwd, ladder_den_bwd.
    apply state_ext. intro x. simpl. unfold den_gate, State.ctrl; simpl.
    rewrite allset_lad_fwd by exact Hcs.
    destruct (allset x cs).
    - rewrite app1_mRZ, lad_bwd_fwd by exact Hnd.
      rewrite cnot_ladder_parity by assumption. reflexivity.
    - rewrite lad_bwd_fwd by exact Hnd. reflexivity.
  Qed.

  (* ---------------------------------------------------------------- basis facts (matrix identities) *)
  Lemma cosh_pi2 : cosh_ S api2 = (krs2 : K S).
  Proof.
    unfold cosh_. rewrite <- cis_conj, cis_pi2, kconj_mul, kconj_add, kconj_rs2, kconj_1, kconj_i.
    transitivity ((khalf + khalf) * krs2 : K S); [ring|]. rewrite k_half. ring.
  Qed.
  Lemma misinh_pi2 : misinh S api2 = (- (ki * krs2) : K S).
  Proof.
    unfold misinh. rewrite <- cis_conj, cis_pi2, kconj_mul, kconj_add, kconj_rs2, kconj_1, kconj_i.
    transitivity (- ((khalf + khalf) * (ki * krs2)) : K S); [ring|]. rewrite k_half. ring.
  Qed.

  (* H Z H = X  and  H H = I *)
  Lemma mH_Z_mH : mmul S (mH S) (mmul S (mZ S) (mH S)) = mX S.
  Proof.
    unfold mH, mZ, mX, mmul; simpl. apply mat2_eq; simpl; try ring.
    - transitivity (krs2 * krs2 + krs2 * krs2 : K S); [ring | apply rs2_sq2].
    - transitivity (krs2 * krs2 + krs2 * krs2 : K S); [ring | apply rs2_sq2].
  Qed.
  Lemma mH_mH : mmul S (mH S) (mH S) = mid S.
  Proof.
    unfold mH, mid, mmul; simpl. apply mat2_eq; simpl; try ring.
    - apply rs2_sq2.
    - transitivity (krs2 * krs2 + krs2 * krs2 : K S); [ring | apply rs2_sq2].
  Qed.
  (* RX(-pi/2) Z RX(pi/2) = Y : the basis change the code uses for Y (gate first: RX(pi/2)) *)
  Lemma mRX_Z_mRX : mmul S (mRX S (aopp api2)) (mmul S (mZ S) (mRX S api2)) = mY S.
  Proof.
    unfold mRX, mZ, mY, mmul; simpl. rewrite cosh_opp, misinh_opp, cosh_pi2, misinh_pi2.
    apply mat2_eq; simpl.
    - transitivity ((1 + ki * ki) * (krs2 * krs2) : K S); [ring | rewrite k_ii; ring].
    - transitivity (- (ki * (krs2 * krs2 + krs2 * krs2)) : K S); [ring|]. rewrite rs2_sq2. ring.
    - transitivity (ki * (krs2 * krs2 + krs2 * krs2) : K S); [ring|]. rewrite rs2_sq2. ring.
    - transitivity (- ((1 + ki * ki) * (krs2 * krs2)) : K S); [ring | rewrite k_ii; ring].
  Qed.
  Lemma mRX_mRX : mmul S (mRX S (aopp api2)) (mRX S api2) = mid S.
  Proof. rewrite mRX_add, a_opp_r. apply mRX_0. Qed.

  (* ---------------------------------------------------------------- basis change as conjugation *)
  Variable bin bout : pauli -> option (g1 S).

  Definition omat (o : option (g1 S)) : mat2 S := match o with Some g => mat_of S g | None => mid S end.

  (* what a table must satisfy: out . Z . in = the Pauli matrix, out . in = identity *)
  Definition basis_ok : Prop :=
    forall p, mmul S (omat (bout p)) (mmul S (mZ S) (omat (bin p))) = pauli_mat S p
              /\ mmul S (omat (bout p)) (omat (bin p)) = mid S.

  Lemma qbasis_den b w (psi : state) : den (qbasis S b w) psi = apps S (fun p => omat (b p)) w psi.
  Proof.
    revert psi. induction w as [|[q p] w IH]; intro psi; [reflexivity|].
    unfold qbasis in *. simpl flat_map. unfold apps in *. simpl fold_left.
    destruct (b p) as [g|]; simpl omat.
    - simpl app. rewrite den_cons. unfold den_gate; simpl. rewrite ctrl_nil. apply IH.
    - simpl app. rewrite app1_id. apply IH.
  Qed.

  Lemma apps_cons f q p w (psi : state) : apps S f ((q, p) :: w) psi = apps S f w (app1 (f p) q psi).
  Proof. reflexivity. Qed.

  Lemma apps_app f w1 w2 (psi : state) : apps S f (w1 ++ w2) psi = apps S f w2 (apps S f w1 psi).
  Proof. unfold apps. apply fold_left_app. Qed.

  Lemma apps_comm f u q w : ~ In q (map fst w) -> forall psi : state,
    app1 u q (apps S f w psi) = apps S f w (app1 u q psi).
  Proof.
    induction w as [|[q' p] w IH]; intros Hn psi; [reflexivity|].
    rewrite !apps_cons, IH by (intro H; apply Hn; right; exact H).
    f_equal. apply app1_comm. intro E. apply Hn. left. symmetry. exact E.
  Qed.

  Lemma apps_rev_cons f q p w (psi : state) :
    apps S f (rev ((q, p) :: w)) psi = app1 (f p) q (apps S f (rev w) psi).
  Proof. simpl rev. rewrite apps_app. reflexivity. Qed.

  (* conjugation of a product of one-qubit matrices by the basis change, factor by factor *)
  Theorem sandwich (fi fo mm nn : pauli -> mat2 S) :
    (forall p, mmul S (fo p) (mmul S (mm p) (fi p)) = nn p) ->
    forall w, NoDup (map fst w) -> forall psi : state,
    apps S fo (rev w) (apps S mm w (apps S fi w psi)) = apps S nn w psi.
  Proof.
    intros Hm w. induction w as [|[q p] w IH]; intros Hnd psi; [reflexivity|].
    inversion Hnd as [|q' l' Hq Hd]; subst.
    rewrite apps_rev_cons, !apps_cons.
    rewrite (apps_comm fi (mm p) q w Hq).
    rewrite IH by exact Hd.
    rewrite (apps_comm nn (fo p) q w Hq).
    rewrite (app1_compose S (mm p) (fi p)), app1_compose, Hm. reflexivity.
  Qed.

  Lemma apps_mid w (psi : state) : apps S (fun _ => mid S) w psi = psi.
  Proof.
    revert psi. induction w as [|[q p] w IH]; intro psi; [reflexivity|].
    rewrite apps_cons, app1_id. apply IH.
  Qed.

  (* linearity and locality of a product of one-qubit matrices *)
  Lemma app1_lin u q al be (phi chi : state) :
    app1 u q (fun x => al * phi x + be * chi x) = fun x => al * app1 u q phi x + be * app1 u q chi x.
  Proof. apply state_ext. intro x. unfold State.app1. destruct (bit x q); ring. Qed.

  Lemma apps_lin f w : forall al be (phi chi : state),
    apps S f w (fun x => al * phi x + be * chi x) = fun x => al * apps S f w phi x + be * apps S f w chi x.
  Proof.
    induction w as [|[q p] w IH]; intros al be phi chi; [reflexivity|].
    rewrite !apps_cons, app1_lin. apply IH.
  Qed.

  Lemma local_compose cs (f g : state -> state) :
    local_off S cs f -> local_off S cs g -> local_off S cs (fun s => f (g s)).
  Proof.
    intros Lf Lg phi phi' x H. apply Lf. intros y Hy. apply Lg. intros z Hz. apply H.
    intros c Hc. rewrite (Hz c Hc). apply Hy. exact Hc.
  Qed.

  Lemma apps_local cs f w : (forall c, In c cs -> ~ In c (map fst w)) -> local_off S cs (apps S f w).
  Proof.
    induction w as [|[q p] w IH]; intro H.
    - intros phi phi' x Hx. apply Hx. intros; reflexivity.
    - change (apps S f ((q, p) :: w)) with (fun s => apps S f w (app1 (f p) q s)).
      apply local_compose.
      + apply IH. intros c Hc Hin. apply (H c Hc). right. exact Hin.
      + apply app1_local. intro Hin. apply (H q Hin). left. reflexivity.
  Qed.

  (* a controlled operation conjugated by uncontrolled, control-local maps that invert each other *)
  Lemma conj_ctrl cs (Bi Bo f : state -> state) (psi : state) :
    local_off S cs Bo -> (forall s, Bo (Bi s) = s) ->
    Bo (ctrl cs f (Bi psi)) = ctrl cs (fun s => Bo (f (Bi s))) psi.
  Proof.
    intros Lo Hinv. apply state_ext. intro x. unfold State.ctrl.
    destruct (allset x cs) eqn:Hx.
    - apply Lo. intros y Hy. rewrite (allset_agree x y cs Hy), Hx. reflexivity.
    - transitivity (Bo (Bi psi) x); [|rewrite Hinv; reflexivity].
      apply Lo. intros y Hy. rewrite (allset_agree x y cs Hy), Hx. reflexivity.
  Qed.

  (* Z on every qubit of the word = the parity sign *)
  Lemma apps_mZ w : forall (phi : state) x,
    apps S (fun _ => mZ S) w phi x = if parity x (map fst w) then - phi x else phi x.
  Proof.
    induction w as [|[q p] w IH]; intros phi x; [reflexivity|].
    rewrite apps_cons, IH. simpl map. simpl parity. unfold State.app1.
    destruct (bit x q), (parity x (map fst w)); simpl; ring.
  Qed.

  Lemma zdiag_lin qs w a (phi : state) :
    Permutation qs (map fst w) ->
    zdiag qs a phi = fun x => cosh_ S a * phi x + misinh S a * apps S (fun _ => mZ S) w phi x.
  Proof.
    intro Hp. apply state_ext. intro x. unfold zdiag. rewrite apps_mZ, (parity_perm x _ _ Hp).
    destruct (parity x (map fst w)).
    - rewrite <- (cosh_sub_misinh S a). ring.
    - rewrite <- (cosh_misinh S a). ring.
  Qed.

  (* ---------------------------------------------------------------- the theorem on the QSem circuit *)
  Theorem qexp_correct w a cs (psi : state) :
    basis_ok -> w <> [] -> NoDup (map fst w) -> (forall c, In c cs -> ~ In c (map fst w)) ->
    den (qexp S bin bout w a cs) psi = ctrl cs (exp_word S w a) psi.
  Proof.
    intros Hb Hne Hnd Hcs.
    pose proof (nsort_perm (map fst w)) as Hperm.
    set (qs := nsort (map fst w)) in *.
    assert (Hqne : qs <> []).
    { intro E. rewrite E in Hperm. apply Permutation_nil in Hperm. destruct w; [congruence|discriminate]. }
    assert (Hqnd : NoDup qs) by (apply (Permutation_NoDup (Permutation_sym Hperm)); exact Hnd).
    assert (Hqcs : forall c, In c cs -> ~ In c qs).
    { intros c Hc Hin. apply (Hcs c Hc). apply (Permutation_in _ Hperm). exact Hin. }
    unfold qexp. fold qs. rewrite !den_app, mid_den by assumption.
    rewrite !qbasis_den.
    set (fi := fun p => omat (bin p)). set (fo := fun p => omat (bout p)).
    assert (Hinv : forall s : state, apps S fo (rev w) (apps S fi w s) = s).
    { intro s. rewrite <- (apps_mid w (apps S fi w s)).
      rewrite (sandwich fi fo (fun _ => mid S) (fun _ => mid S)); [apply apps_mid | | exact Hnd].
      intro p. unfold fi, fo. destruct (Hb p) as [_ H2].
      transitivity (mmul S (omat (bout p)) (omat (bin p))); [|exact H2].
      f_equal. apply mat2_eq; simpl; ring. }
    rewrite conj_ctrl.
    - apply ctrl_ext. intro s. rewrite (zdiag_lin qs w a _ Hperm), apps_lin, Hinv.
      rewrite (sandwich fi fo (fun _ => mZ S) (pauli_mat S)); [reflexivity | | exact Hnd].
      intro p. apply (proj1 (Hb p)).
    - apply apps_local. intros c Hc Hin. apply (Hcs c Hc).
      rewrite map_rev in Hin. apply in_rev in Hin. exact Hin.
    - exact Hinv.
  Qed.
End Proofs.

(* ==================================================================== the bridge:
   the Python-level model (gates by name, regenerated tables) interprets to the QSem circuit *)
Section Bridge.
  Variable S : KS.
  Add Ring kring2 : (k_ring S).
  Open Scope K_scope.
  Variable Ang : Type.
  Variable ang : Ang -> A S.
  Variable Ops : cops Ang.
  Variable T : ptables.

  (* the number operations denote the angle-group operations; pi/8-unit constants denote pi/2, pi *)
  Record ang_ok : Prop := AngOk {
    ang_add_ok : forall x y, ang (o_add Ops x y) = aadd (ang x) (ang y);
    ang_zero_ok : ang (o_zero Ops) = a0;
    ang_opp_ok : forall x, ang (o_opp Ops x) = aopp (ang x);
    ang_pi2_ok : ang (o_units Ops 4) = api2;
    ang_pi_ok : ang (o_units Ops 8) = api }.

  (* what the theorems need from the regenerated tables (checked by reflexivity on gen/PauliExpTables.v) *)
  Record tables_ok : Prop := TablesOk {
    t_ops : basis_ops T = ["X"; "Y"]%string;
    t_tab : basis_tab T = [("X", ("H", None, false)); ("Y", ("RX", Some 4%Z, true))]%string;
    t_pos : ang_mult_pos T = 2%nat;
    t_neg : ang_mult_neg T = 2%nat;
    t_pi : exists j, ang_pi_neg T = (4 * j)%nat }.

  Hypothesis HA : ang_ok.
  Hypothesis HT : tables_ok.

  Definition sbin (p : pauli) : option (g1 S) :=
    match p with PX => Some GH | PY => Some (GRX api2) | PZ => None end.
  Definition sbout (p : pauli) : option (g1 S) :=
    match p with PX => Some GH | PY => Some (GRX (aopp api2)) | PZ => None end.

  Lemma std_basis_ok : basis_ok S sbin sbout.
  Proof.
    intro p. destruct p; simpl; split.
    - apply mH_Z_mH.
    - apply mH_mH.
    - apply mRX_Z_mRX.
    - apply mRX_mRX.
    - unfold mid, mZ, mmul. apply mat2_eq; simpl; ring.
    - unfold mid, mmul. apply mat2_eq; simpl; ring.
  Qed.

  Notation interp := (interp S Ang ang).
  Notation interp_all := (interp_all S Ang ang).

  Lemma mk_none name t p v : mk Ang name t None p v = Ok (PGate name [zq t] None p v).
  Proof. unfold mk. simpl. reflexivity. Qed.

  Lemma mk_some name t cs p v :
    NoDup (t :: cs) -> mk Ang name t (Some cs) p v = Ok (PGate name [zq t] (Some (map zq cs)) p v).
  Proof.
    intro H. unfold mk. simpl option_map. cbv iota.
    change (zq t :: map zq cs) with (map zq (t :: cs)). rewrite (znodup_zq _ H). reflexivity.
  Qed.

  Lemma interp_all_one g G : interp g = Some G -> interp_all [g] = Some [G].
  Proof. intro H. simpl. rewrite H. reflexivity. Qed.

  Lemma interp_all_cons g r G R : interp g = Some G -> interp_all r = Some R -> interp_all (g :: r) = Some (G :: R).
  Proof. intros H1 H2. simpl. rewrite H1, H2. reflexivity. Qed.

  (* ---- basis-change gates ---- *)
  Lemma basis_gates_cons q p w inv :
    basis_gates Ang Ops T ((q, p) :: w) inv
    = if needs_basis T (q, p)
      then bind (basis_gate Ang Ops T q p inv) (fun y => bind (basis_gates Ang Ops T w inv) (fun ys => Ok (y :: ys)))
      else basis_gates Ang Ops T w inv.
  Proof. unfold basis_gates. simpl filter. destruct (needs_basis T (q, p)); reflexivity. Qed.

  Lemma needs_basis_p q p : needs_basis T (q, p) = match p with PZ => false | _ => true end.
  Proof. unfold needs_basis. rewrite (t_ops HT). destruct p; reflexivity. Qed.

  Lemma basis_gate_X q inv : basis_gate Ang Ops T q PX inv = Ok (PGate "H" [zq q] None PNone false).
  Proof. unfold basis_gate. rewrite (t_tab HT). simpl. apply mk_none. Qed.

  Lemma basis_gate_Y q inv :
    basis_gate Ang Ops T q PY inv
    = Ok (PGate "RX" [zq q] None (PNum (if inv then o_opp Ops (o_units Ops 4) else o_units Ops 4)) false).
  Proof. unfold basis_gate. rewrite (t_tab HT). simpl. rewrite mk_none, andb_true_r. reflexivity. Qed.

  Lemma qbasis_cons b q p w :
    qbasis S b ((q, p) :: w) = (match b p with Some g => [Gate (B1 g q) []] | None => [] end) ++ qbasis S b w.
  Proof. reflexivity. Qed.

  Lemma basis_gates_interp inv w :
    exists gs, basis_gates Ang Ops T w inv = Ok gs
               /\ interp_all gs = Some (qbasis S (if inv then sbout else sbin) w).
  Proof.
    pose proof (ang_opp_ok HA) as Hopp. pose proof (ang_pi2_ok HA) as Hpi2.
    induction w as [|[q p] w IH].
    - exists []. split; reflexivity.
    - destruct IH as [gs [E1 E2]]. rewrite basis_gates_cons, needs_basis_p, qbasis_cons. destruct p.
      + (* X *)
        exists (PGate "H" [zq q] None PNone false :: gs). split.
        * rewrite basis_gate_X, E1. reflexivity.
        * replace ((if inv then sbout else sbin) PX) with (Some (@GH S)) by (destruct inv; reflexivity).
          apply interp_all_cons; [|exact E2]. unfold Interp.interp. simpl. rewrite zn_zq. reflexivity.
      + (* Y *)
        exists (PGate "RX" [zq q] None (PNum (if inv then o_opp Ops (o_units Ops 4) else o_units Ops 4)) false :: gs). split.
        * rewrite basis_gate_Y, E1. reflexivity.
        * replace ((if inv then sbout else sbin) PY) with (Some (@GRX S (if inv then aopp api2 else api2)))
            by (destruct inv; reflexivity).
          apply interp_all_cons; [|exact E2]. unfold Interp.interp. simpl. rewrite zn_zq.
          destruct inv; rewrite ?Hopp, Hpi2; reflexivity.
      + (* Z : no gate *)
        exists gs. split; [exact E1|].
        replace ((if inv then sbout else sbin) PZ) with (@None (g1 S)) by (destruct inv; reflexivity).
        exact E2.
  Qed.

  (* ---- CNOT ladder ---- *)
  Lemma ladder_interp qs : NoDup qs ->
    exists gs, ladder Ang qs = Ok gs /\ interp_all gs = Some (qladder S qs).
  Proof.
    induction qs as [|a qs IH]; intro Hnd.
    - exists []. split; reflexivity.
    - destruct qs as [|b r].
      + exists []. split; reflexivity.
      + inversion Hnd as [|a' l' Ha Hd]; subst. destruct (IH Hd) as [gs [E1 E2]].
        exists (PGate "CNOT" [zq b] (Some [zq a]) PNone false :: gs). split.
        * change (ladder Ang (a :: b :: r)) with
            (bind (mk Ang "CNOT" b (Some [a]) PNone false) (fun g => bind (ladder Ang (b :: r)) (fun gs => Ok (g :: gs)))).
          rewrite mk_some, E1; [reflexivity|].
          constructor; [|constructor; [intros []|constructor]].
          intros [E|[]]. apply Ha. left. symmetry. exact E.
        * change (qladder S (a :: b :: r)) with (cnot S a b :: qladder S (b :: r)).
          apply interp_all_cons; [|exact E2]. unfold Interp.interp, cnot. simpl. rewrite !zn_zq. reflexivity.
  Qed.

  (* ---- the angle rule ---- *)
  Fixpoint nmulA (n : nat) (a : A S) : A S := match n with 0%nat => a0 | Datatypes.S k => aadd a (nmulA k a) end.

  Lemma ang_nmul n c : ang (nmul Ang Ops n c) = nmulA n (ang c).
  Proof.
    destruct HA as [Hadd Hz _ _ _]. induction n as [|n IH]; simpl; [exact Hz|]. rewrite Hadd, IH. reflexivity.
  Qed.

  Lemma nmulA_add n m a : nmulA (n + m) a = aadd (nmulA n a) (nmulA m a).
  Proof.
    induction n as [|n IH]; simpl; [rewrite a_0_l; reflexivity|]. rewrite IH, a_assoc. reflexivity.
  Qed.

  Lemma cis_4pi_mult j : cis (nmulA (4 * j) (api : A S)) = (1 : K S).
  Proof.
    induction j as [|j IH]; [apply cis_0|].
    replace (4 * Datatypes.S j)%nat with (4 + 4 * j)%nat by lia.
    rewrite nmulA_add, cis_add, IH. simpl nmulA. rewrite !cis_add, cis_pi, cis_0.
    transitivity ((ki * ki) * (ki * ki) : K S); [ring|]. rewrite k_ii. ring.
  Qed.

  Definition dbl (c : Ang) : A S := aadd (ang c) (ang c).

  Lemma nmulA_2 a : nmulA 2 a = aadd a a.
  Proof. simpl. rewrite (a_0_r S). reflexivity. Qed.

  (* the code's angle (2c, or 4 pi + 2c for negative c) has the half-angle exponential of 2c *)
  Theorem angle_rule_cis c : cis (ang (angle_rule Ang Ops T c)) = cis (dbl c).
  Proof.
    destruct HT as [_ _ Hp Hn [j Hj]]. destruct HA as [Hadd Hz _ _ Hpi].
    unfold angle_rule. rewrite Hp, Hn, Hj. destruct (o_nonneg Ops c).
    - rewrite ang_nmul, nmulA_2. reflexivity.
    - rewrite Hadd, !ang_nmul, Hpi, cis_add, cis_4pi_mult, nmulA_2. unfold dbl. ring.
  Qed.

  Lemma cosh_of_cis a b : cis a = cis b -> cosh_ S a = cosh_ S b.
  Proof. intro H. unfold cosh_. rewrite <- !cis_conj, H. reflexivity. Qed.
  Lemma misinh_of_cis a b : cis a = cis b -> misinh S a = misinh S b.
  Proof. intro H. unfold misinh. rewrite <- !cis_conj, H. reflexivity. Qed.

  Lemma exp_word_of_cis w a b : cis a = cis b -> exp_word S w a = exp_word S w b.
  Proof. intro H. unfold exp_word. rewrite (cosh_of_cis a b H), (misinh_of_cis a b H). reflexivity. Qed.

  Definition ctl (control : option (list N)) : list N := match control with None => [] | Some cs => cs end.

  (* ---- the whole gate list ---- *)
  Theorem exp_pauliword_interp w c v control :
    w <> [] -> NoDup (map fst w) -> NoDup (ctl control) -> (forall q, In q (ctl control) -> ~ In q (map fst w)) ->
    exists gs, exp_pauliword_to_gates Ang Ops T w c v control = Ok gs
               /\ interp_all gs = Some (qexp S sbin sbout w (ang (angle_rule Ang Ops T c)) (ctl control)).
  Proof.
    intros Hne Hnd Hcnd Hdis.
    pose proof (nsort_perm (map fst w)) as Hperm.
    set (idx := nsort (map fst w)) in *.
    assert (Hind : NoDup idx) by (apply (Permutation_NoDup (Permutation_sym Hperm)); exact Hnd).
    destruct (basis_gates_interp false w) as [pre [Ep1 Ep2]].
    destruct (basis_gates_interp true (rev w)) as [post [Eq1 Eq2]].
    destruct (ladder_interp idx Hind) as [lad [El1 El2]].
    destruct (rev idx) as [|t tl] eqn:Erev.
    { exfalso. assert (E : idx = []) by (rewrite <- (rev_involutive idx), Erev; reflexivity).
      rewrite E in Hperm. apply Permutation_nil in Hperm. destruct w; [congruence|discriminate]. }
    assert (Hlast : last idx 0%N = t) by (apply (rev_head_last idx t tl); exact Erev).
    assert (Htin : In t (map fst w)).
    { apply (Permutation_in _ Hperm). apply in_rev. rewrite Erev. left. reflexivity. }
    set (th := angle_rule Ang Ops T c).
    set (rz := PGate (match control with None => "RZ" | Some _ => "CRZ" end)%string [zq t]
                     (option_map (map zq) control) (PNum th) v).
    exists (pre ++ lad ++ [rz] ++ rev lad ++ post). split.
    - unfold exp_pauliword_to_gates. rewrite Ep1. simpl bind. fold idx. rewrite El1. simpl bind. rewrite Erev.
      fold th. destruct control as [cs|].
      + rewrite mk_some.
        * simpl bind. rewrite Eq1. reflexivity.
        * constructor; [|exact Hcnd]. intro Hin. exact (Hdis t Hin Htin).
      + rewrite mk_none. simpl bind. rewrite Eq1. reflexivity.
    - unfold qexp, qmid. fold idx. rewrite Hlast.
      apply interp_all_app; [exact Ep2|].
      rewrite <- !app_assoc. apply interp_all_app; [exact El2|].
      apply interp_all_app.
      + apply interp_all_one. unfold Interp.interp, rz. destruct control as [cs|]; simpl.
        * rewrite zn_zq, map_zn_zq. reflexivity.
        * rewrite zn_zq. reflexivity.
      + apply interp_all_app; [|exact Eq2]. apply interp_all_rev. exact El2.
  Qed.

  (* ---- the statement of C06 for one Pauli word ---- *)
  Theorem exp_pauliword_correct w c v control :
    w <> [] -> NoDup (map fst w) -> NoDup (ctl control) -> (forall q, In q (ctl control) -> ~ In q (map fst w)) ->
    exists gs C, exp_pauliword_to_gates Ang Ops T w c v control = Ok gs
                 /\ interp_all gs = Some C
                 /\ forall psi, den S C psi = ctrl S (ctl control) (exp_word S w (dbl c)) psi.
  Proof.
    intros Hne Hnd Hcnd Hdis.
    destruct (exp_pauliword_interp w c v control Hne Hnd Hcnd Hdis) as [gs [E1 E2]].
    exists gs. eexists. split; [exact E1|]. split; [exact E2|].
    intro psi. rewrite (qexp_correct S sbin sbout w _ (ctl control) psi std_basis_ok Hne Hnd Hdis).
    apply ctrl_ext. intro s. rewrite (exp_word_of_cis w _ _ (angle_rule_cis c)). reflexivity.
  Qed.
End Bridge.
