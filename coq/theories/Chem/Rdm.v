(* Rdm.v — model (definitions only) of the reduced-density-matrix bookkeeping behind C13:
     - VQESolver.get_rdm: every term of the fermionic Hamiltonian is measured (abstract linear functional
       ev on terms) and placed:  rdm1[i,j] += ev(a+_i a_j),  rdm2[i,l,j,k] += ev(a+_i a+_j a_k a_l);
       spin summation by the loops  rdm[i//2, j//2, ...] += rdm_spin[i, j, ...]
     - VQESolver.get_rdm_uhf placement with its 1/2 symmetrisation
     - SecondQuantizedMolecule.energy_from_rdms / rdms.energy_from_rdms (transpose tuple and factors are
       parameters: they are regenerated from the source into Gen.ChemTables)
     - pad_rdms_with_frozen_orbitals_restricted, incl. what happens to the caller's 2-RDM buffer
   Proofs live in RdmProofs.v. *)
From Coq Require Import List ZArith Bool Arith Lia Ring.
From Tangelo Require Import Chem.Integrals.
Import ListNotations.

Inductive fac : Type := FHalf | FOne.

(* Hermitian conjugate of a term: (a+_i a_j)+ = a+_j a_i ; (a+_i a+_j a_k a_l)+ = a+_l a+_k a_j a_i *)
Definition dag (t : term) : term :=
  match t with T1 i j => T1 j i | T2 i j k l => T2 l k j i end.
Definition term_lt (n : nat) (t : term) : bool :=
  match t with
  | T1 i j => (i <? n) && (j <? n)
  | T2 i j k l => (i <? n) && (j <? n) && (k <? n) && (l <? n)
  end.
(* the spin patterns spinorb_from_spatial populates *)
Definition spin_ok (t : term) : bool :=
  match t with
  | T1 i j => i mod 2 =? j mod 2
  | T2 i j k l => (i mod 2 =? l mod 2) && (j mod 2 =? k mod 2)
  end.
Definition is_num (t : term) : bool := match t with T1 i j => i =? j | _ => false end.
Definition halfidx (i : nat) : nat := i / 2.
Definition inv_axes (ax : axes) : axes := (pick ax 0 0 1 2 3, pick ax 1 0 1 2 3, pick ax 2 0 1 2 3, pick ax 3 0 1 2 3).

Section Rdm.
  Variable R : CRing.
  Open Scope CR_scope.
  Notation K := (K R).

  Definition fac_val (f : fac) : K := match f with FHalf => chalf | FOne => 1 end.
  Definition contract2 (n1 n2 : nat) (h d : T2t R) : K :=
    sumn n1 (fun p => sumn n2 (fun q => h p q * d p q)).
  Definition contract4 (n1 n2 n3 n4 : nat) (g d : T4t R) : K :=
    sumn n1 (fun p => sumn n2 (fun q => sumn n3 (fun r => sumn n4 (fun s => g p q r s * d p q r s)))).

  (* energy_from_rdms (restricted): core + sum(h * D1) + factor * sum(transpose(ax)(g) * D2) *)
  Definition energy_r (ax : axes) (fc : fac) (n : nat) (core : K) (h : T2t R) (g : T4t R) (d1 : T2t R) (d2 : T4t R) : K :=
    core + contract2 n n h d1 + fac_val fc * contract4 n n n n (transpose4 ax g) d2.
  (* energy_from_rdms (UHF): blocks aa, ab, bb; integrals gab have shape (na, nb, nb, na) *)
  Definition energy_u (ax : axes) (f_aa f_ab f_bb : fac) (na nb : nat) (core : K) (ha hb : T2t R) (gaa gab gbb : T4t R)
             (d1a d1b : T2t R) (d2aa d2ab d2bb : T4t R) : K :=
    core + (contract2 na na ha d1a + contract2 nb nb hb d1b)
    + (fac_val f_aa * contract4 na na na na (transpose4 ax gaa) d2aa
       + fac_val f_ab * contract4 na na nb nb (transpose4 ax gab) d2ab
       + fac_val f_bb * contract4 nb nb nb nb (transpose4 ax gbb) d2bb).

  (* ---- placement of measured terms *)
  Variable ev : term -> K.
  Definition place1 (phi : nat -> nat) (ts : list term) : T2t R :=
    fun p q => sumL ts (fun t => match t with
                                 | T1 i j => gate ((phi i =? p) && (phi j =? q)) (ev t)
                                 | _ => 0 end).
  Definition place2 (phi : nat -> nat) (ts : list term) : T4t R :=
    fun p q r s => sumL ts (fun t => match t with
                                     | T2 i j k l => gate ((phi i =? p) && (phi l =? q) && (phi j =? r) && (phi k =? s)) (ev t)
                                     | _ => 0 end).
  (* get_rdm, sum_spin=False *)
  Definition rdm1_spin (ts : list term) : T2t R := place1 (fun i => i) ts.
  Definition rdm2_spin (ts : list term) : T4t R := place2 (fun i => i) ts.
  (* get_rdm, sum_spin=True: the loops over all spin-orbital index tuples *)
  Definition rdm1_sum (nso : nat) (ts : list term) : T2t R :=
    fun p q => sumn nso (fun i => sumn nso (fun j => gate ((i / 2 =? p) && (j / 2 =? q))%nat (rdm1_spin ts i j))).
  Definition rdm2_sum (nso : nat) (ts : list term) : T4t R :=
    fun p q r s => sumn nso (fun i => sumn nso (fun j => sumn nso (fun k => sumn nso (fun l =>
       gate ((i / 2 =? p) && (j / 2 =? q) && (k / 2 =? r) && (l / 2 =? s))%nat (rdm2_spin ts i j k l))))).
  (* closed forms (proved equal; used for evaluation) *)
  Definition rdm1_sum_f (ts : list term) : T2t R := place1 halfidx ts.
  Definition rdm2_sum_f (ts : list term) : T4t R := place2 halfidx ts.

  (* get_rdm_uhf: spin pattern of the term selects the block; off-"diagonal" index patterns are split
     1/2 + 1/2 between [i,l,j,k] and [l,i,k,j] *)
  Definition uhf_place2 (sp : nat * nat * nat * nat) (ts : list term) : T4t R :=
    fun p q r s => sumL ts (fun t => match t with
      | T2 i j k l =>
          let a := (i / 2)%nat in let b := (j / 2)%nat in let c := (k / 2)%nat in let d := (l / 2)%nat in
          gate (let '(s1, s2, s3, s4) := sp in (i mod 2 =? s1) && (j mod 2 =? s2) && (k mod 2 =? s3) && (l mod 2 =? s4))%nat
               (if (a =? d) && (b =? c)
                then gate ((a =? p) && (d =? q) && (b =? r) && (c =? s)) (ev t)
                else chalf * gate ((d =? p) && (a =? q) && (c =? r) && (b =? s)) (ev t)
                     + chalf * gate ((a =? p) && (d =? q) && (b =? r) && (c =? s)) (ev t))
      | _ => 0 end).
  Definition uhf_place1 (sp : nat) (ts : list term) : T2t R :=
    fun p q => sumL ts (fun t => match t with
      | T1 i j => gate ((i mod 2 =? sp) && (j mod 2 =? sp) && (i / 2 =? p) && (j / 2 =? q))%nat (ev t)
      | _ => 0 end).

  (* what the Hamiltonian's coefficient of a measured term is (restricted assembly of C04) *)
  Definition coef_r (h : T2t R) (g : T4t R) (t : term) : K :=
    match t with T1 i j => so1 R h i j | T2 i j k l => io2_r R g i j k l end.
  Definition coef_spatial (h : T2t R) (g : T4t R) (t : term) : K :=
    match t with
    | T1 i j => h (i / 2)%nat (j / 2)%nat
    | T2 i j k l => chalf * g (i / 2)%nat (j / 2)%nat (k / 2)%nat (l / 2)%nat
    end.

  (* ---- pad_rdms_with_frozen_orbitals_restricted *)
  Fixpoint pos (A : list nat) (P : nat) : option nat :=
    match A with
    | [] => None
    | a :: r => if a =? P then Some O else option_map S (pos r P)
    end.
  Definition embed2 (A : list nat) (base M : T2t R) : T2t R :=
    fun P Q => match pos A P, pos A Q with Some p, Some q => M p q | _, _ => base P Q end.
  Definition embed4 (A : list nat) (M : T4t R) : T4t R :=
    fun P Q R0 S => match pos A P, pos A Q, pos A R0, pos A S with
                    | Some p, Some q, Some r, Some s => M p q r s
                    | _, _, _, _ => 0 end.
  Definition diag_occ (nocc : nat) (v : K) : T2t R := fun P Q => gate ((P =? Q) && (P <? nocc)) v.
  (* the mean-field-like part removed in the active space and re-added in the full space:
       T[i,i,:,:] 2M, T[:,:,i,i] 2M, T[:,i,i,:] -M, T[i,:,:,i] -M^T for i < nocc; T[i,i,j,j] 4, T[i,j,j,i] -2 *)
  Definition mf_part (nocc : nat) (M : T2t R) : T4t R :=
    fun p q r s =>
      sumn nocc (fun i => gate ((p =? i) && (q =? i)) (two * M r s) + gate ((r =? i) && (s =? i)) (two * M p q)
                          - gate ((q =? i) && (r =? i)) (M p s) - gate ((p =? i) && (s =? i)) (M r q))
      + sumn nocc (fun i => sumn nocc (fun j =>
            gate ((p =? i) && (q =? i) && (r =? j) && (s =? j)) (two * two)
            - gate ((p =? i) && (q =? j) && (r =? j) && (s =? i)) two)).

  (* alias = true: the source as it is (twordm = twordm.transpose(...) is a VIEW of the caller's array and is
     updated in place); alias = false: the repaired behaviour (work on a copy).  Third component: content
     of the caller's twordm array after the call. *)
  Definition pad_restricted (alias : bool) (ax_in ax_out : axes) (nocc nocc0 : nat) (A : list nat)
             (d1 : T2t R) (d2 : T4t R) : T2t R * T4t R * T4t R :=
    let d1p := embed2 A (diag_occ nocc two) d1 in
    let t := transpose4 ax_in d2 in
    let m0 : T2t R := fun p q => d1 p q - diag_occ nocc0 two p q in
    let t1 : T4t R := fun p q r s => t p q r s - mf_part nocc0 m0 p q r s in
    let dm2 := embed4 A t1 in
    let m : T2t R := fun P Q => d1p P Q - diag_occ nocc two P Q in
    let t2 : T4t R := fun P Q R0 S => dm2 P Q R0 S + mf_part nocc m P Q R0 S in
    (d1p, transpose4 ax_out t2, if alias then transpose4 (inv_axes ax_in) t1 else d2).
End Rdm.
